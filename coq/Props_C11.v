(* Props_C11.v -- property C11: shared-cache transactions isolate writers,
   drop failed state, release locks.  Only statements; every proof is
   `exact <lemma>`.

   Model_C11.v is a small-step model of shard/cache/manager.go.  A state holds
   the manager map, the manager mutex, the elements (RW lock: announced /
   holding writer, readers; scrapped; the storage version the element reflects)
   the committed storage version per cache name, and ANY number of transactions,
   each a sequential program of With(name, readOnly, outcome) and Commit(fail).
   `step fixed safe limit st t` is one atomic step of transaction t (None =
   blocked or finished).  The two booleans select the version of the manager:
     fixed = false, safe = false   the pinned tree
     fixed = true,  safe = false   after commit 1944012 (With refuses a writing
                                   access after Commit)
     fixed = true,  safe = true    the current tree: a cache the transaction has
                                   write-locked stays ITS cache for that name
                                   until Commit (registered or not); failure
                                   paths unregister an entry only if it still is
                                   the element concerned; a successful Commit
                                   discards whatever ELSE is registered under a
                                   name it has written; a read access after
                                   Commit reads like any other transaction.
   `limit` is the manager's maxSize (-1 unlimited, 0 no shared caching, n
   entries).  A schedule is ANY list of labels LT t (transaction t tries to
   step) / LDel n (Manager.Release(n), or an eviction caused by traffic outside
   the modelled transactions); `run` skips choices that are not enabled.  All
   theorems quantify over arbitrary schedules, any number of transactions and
   any program lengths. *)
From Coq Require Import List Arith Bool ZArith Lia PeanoNat.
From Coq Require String.
From Semadb Require Import TxOrder Model_C11 Proofs_C11 Proofs_C11b Proofs_C11c Proofs_C11d.
Import ListNotations.

(* ---------------------------------------------------------------------------
   Exclusion (current tree), unconditional in the schedule: Release, eviction
   by checkAndPrune, limit 0, failing callbacks and failing Commits at any
   moment.  `excl st`: (1) an element whose write lock a transaction owns has no
   readers; (2) no OTHER transaction runs a callback on it; (3) a writing
   callback never overlaps another callback on the same element; (4) a callback
   on a private cold copy runs on an element that is not in the manager map.
   Hypothesis: programs without With after Commit (wf_prog; the harness
   exercises With after Commit, and c11_locks_released / c11_coherent cover it). *)
Theorem c11_exclusion : forall fixed limit progs ls,
  Forall wf_prog progs -> excl (run fixed true limit ls (init progs)).
Proof. exact thm_exclusion. Qed.
Print Assumptions c11_exclusion.

(* The pinned tree REFUTES it, with transaction steps only (no Release, no
   eviction, limit -1): T0's writing callback on A fails; T1 writes A on a new
   element 1; T0's Commit(true) deletes the NAME A, i.e. element 1's entry; T2
   registers element 2 and reads it; T1's second writing access finds element 2
   under A, has A in its written caches, takes no lock and writes while T2
   reads.  (The same run with fixed = true, safe = false behaves identically.) *)
Theorem c11_exclusion_refuted_v0 : exists progs ls,
  let st := run false false (-1) ls (init progs) in
  Forall wf_prog progs /\ (forall l, In l ls -> exists t, l = LT t) /\
  (exists t t' e, t <> t' /\ in_cb_writing st t e /\ in_cb st t' e) /\ ~ excl st.
Proof. exact thm_exclusion_needs_clean. Qed.
Print Assumptions c11_exclusion_refuted_v0.

(* Before the repair a READ access arriving after the Commit of its own
   transaction used a cache the transaction had written without any lock (here:
   while transaction 1 holds its write lock and writes it). *)
Theorem c11_late_reader_refuted_v1 : exists progs ls,
  let st := run true false (-1) ls (init progs) in
  done (txs st 0) = true /\ in_cb st 0 0 /\ in_cb_writing st 1 0 /\ holds_write st 1 0 /\ ~ excl st.
Proof. exact thm_late_reader_v1. Qed.
Print Assumptions c11_late_reader_refuted_v1.

(* Readers never wait for an element lock: whenever the manager mutex is free
   (it is held only inside the short manager sections and over createFn of a new
   entry) a transaction inside a read-only access can take its next step --
   TryRLock succeeds or the reader goes on with a private cold copy. *)
Theorem c11_readers_never_wait : forall fixed safe limit st t,
  reading (ph (txs st t)) = true -> mlock st = None ->
  exists st', step fixed safe limit st t = Some st'.
Proof. exact thm_readers_never_wait. Qed.
Print Assumptions c11_readers_never_wait.

(* ---------------------------------------------------------------------------
   A scrapped element is never selected again: once an element is scrapped (a
   callback on it failed, the transaction that wrote it committed with failure,
   or a successful Commit found it registered in place of its own cache), no
   later step of any transaction decides to hand it to a callback (`selects`:
   the step that fixes cacheToUse -- scrapped check, new entry, private copy).
   Unconditional: all versions of the manager, every limit, every schedule. *)
Theorem c11_scrapped_not_reused : forall fixed safe limit st e, reachable fixed safe limit st ->
  e_scrapped (elems st e) = true ->
  forall ls t st3, let st2 := run fixed safe limit ls st in
    step fixed safe limit st2 t = Some st3 -> ~ selects st2 t st3 e.
Proof. exact thm_scrapped_not_reused. Qed.
Print Assumptions c11_scrapped_not_reused.

(* The stronger reading "no callback STARTS on a scrapped element" is REFUTED at
   the granularity of the code: the scrapped check and the call are two steps,
   and `scrapped` is written under a READ lock.  Two readers hold read locks on
   element 0; reader 1 passes the check; reader 2's callback fails and scraps
   the element; reader 1's callback starts on it.  Only concurrent READERS of
   one element can do this (the overtaken reader holds a read lock on it). *)
Theorem c11_scrapped_check_race_refuted : exists progs ls w c st st',
  st = run true true (-1) ls (init progs) /\
  ph (txs st 1) = PReady w c /\ e_scrapped (elems st (c_e c)) = true /\
  step true true (-1) st 1 = Some st' /\ in_cb st' 1 (c_e c) /\
  w_ro w = true /\ c_rl c = Some (c_e c).
Proof. exact thm_scrapped_check_race. Qed.
Print Assumptions c11_scrapped_check_race_refuted.

(* ---------------------------------------------------------------------------
   Locks are released (since 1944012; with and without the repair): when every
   transaction has run its whole program and has committed or aborted -- every
   error path of With included, With after Commit included -- the manager mutex
   is free and no element in the manager map has a writer or a reader.  Any
   limit, any schedule, Release / eviction at any moment. *)
Theorem c11_locks_released : forall safe limit progs ls,
  let st := run true safe limit ls (init progs) in
  all_done st -> locks_released st.
Proof. exact thm_locks_released. Qed.
Print Assumptions c11_locks_released.

(* For the PINNED version the statement is REFUTED: a writing With on a new name
   that arrives after Commit takes a write lock that nobody releases;
   transaction 0 is finished and committed, the entry of name 1 is write-locked
   by it for ever, transaction 1 (a writer of name 1) can never step again.  The
   current version on the same programs and schedule finishes with all locks
   released. *)
Theorem c11_post_commit_with_refuted_v0 : exists progs ls st st',
  st = run false false (-1) ls (init progs) /\
  finished (txs st 0) /\ done (txs st 0) = true /\
  (exists n e, lookup n (mmap st) = Some e /\ e_writer (elems st e) = Some 0) /\
  ~ finished (txs st 1) /\
  (forall t, step false false (-1) st t = None) /\
  (forall ts, run false false (-1) (map LT ts) st = st) /\
  st' = run true true (-1) (ls ++ rep 8 (LT 1)) (init progs) /\
  finished (txs st' 0) /\ finished (txs st' 1) /\ locks_released st'.
Proof. exact thm_post_commit_v0. Qed.
Print Assumptions c11_post_commit_with_refuted_v0.

(* ---------------------------------------------------------------------------
   Progress (since 1944012; with and without the repair): if along the run
   concurrently active writing transactions touch disjoint names (what holds for
   every use in semadb: cache names are prefixed by the shard file and bbolt
   allows one writer per file), then in every reachable state with an
   unfinished transaction some transaction can step. *)
Theorem c11_progress : forall safe limit progs ls,
  always disjoint_writers true safe limit ls (init progs) ->
  let st := run true safe limit ls (init progs) in
  (exists t, ~ finished (txs st t)) -> exists t st', step true safe limit st t = Some st'.
Proof. exact thm_progress. Qed.
Print Assumptions c11_progress.

(* the hypothesis is satisfiable by any set of programs in which all
   transactions but one are read-only -- then no hypothesis on the schedule *)
Theorem c11_progress_single_writer : forall safe limit progs ls w0,
  (forall t p, t <> w0 -> nth_error progs t = Some p -> ro_prog p = true) ->
  let st := run true safe limit ls (init progs) in
  (exists t, ~ finished (txs st t)) -> exists t st', step true safe limit st t = Some st'.
Proof. exact thm_progress_single_writer. Qed.
Print Assumptions c11_progress_single_writer.

(* Without the hypothesis two writers taking A,B and B,A wait for each other
   for ever.  Neither transaction has committed or aborted, so this is outside
   the property's progress clause ("after commit or abort every lock is
   released, so later transactions ... make progress"), and it is unreachable
   through the shard layer; it is a limitation of the package, reported in the
   evidence and not as a violation. *)
Theorem c11_cross_writers_refuted : exists progs ls,
  let st := run true true (-1) ls (init progs) in
  Forall wf_prog progs /\
  (forall t, step true true (-1) st t = None) /\
  (forall ts, run true true (-1) (map LT ts) st = st) /\
  ~ finished (txs st 0) /\ ~ finished (txs st 1) /\
  done (txs st 0) = false /\ done (txs st 1) = false /\
  ~ disjoint_writers st.
Proof. exact thm_cross_writers. Qed.
Print Assumptions c11_cross_writers_refuted.

(* ---------------------------------------------------------------------------
   "Evicting or releasing a cache at any moment is harmless: a later transaction
   rebuilds it from committed storage."  coherent st: every registered,
   non-scrapped element that no writer holds or waits for reflects the committed
   storage version of its name.  For the current tree this is an invariant of
   EVERY run: any programs (With after Commit included), any schedule, Release /
   eviction / pruning / failures at any moment, any limit. *)
Theorem c11_coherent : forall fixed limit progs ls,
  coherent (run fixed true limit ls (init progs)).
Proof. exact thm_coherent. Qed.
Print Assumptions c11_coherent.

(* The pinned tree REFUTES it (finding F6, repaired): W writes A (element 0,
   registered, write-locked); Release(A); R registers element 1 built from the
   version before W's commit; W commits (version 1); R2 is handed element 1:
   stale, and it stays in the map. *)
Theorem c11_evict_harmless_refuted_v0 : exists progs ls,
  let st := run false false (-1) ls (init progs) in
  Forall wf_prog progs /\
  done (txs st 0) = true /\ failed (txs st 0) = false /\
  (exists e, lookup 0 (mmap st) = Some e /\ in_cb st 2 e /\
             e_scrapped (elems st e) = false /\ e_writer (elems st e) = None /\
             e_built (elems st e) < committed st 0) /\
  stale_cb st 2 = true /\ coherentb st = false /\ ~ coherent st.
Proof. exact thm_evict_not_harmless. Qed.
Print Assumptions c11_evict_harmless_refuted_v0.

(* ---------------------------------------------------------------------------
   Examples: non-trivial runs. *)

(* the current tree on the schedules of the three refutations above: W's Commit
   scraps and unregisters the stale element 1, R2 builds element 2 from version
   1; T0's failing Commit leaves T1's entry alone and T2 reads a private copy;
   the late reader gets a private copy while transaction 1 holds element 0 *)
Example c11_example_repaired :
  (let st := run true true (-1) ev_sched (init ev_progs) in
   coherentb st = true /\ stale_cb st 2 = false /\ mmap st = [(0, 2)] /\ committed st 0 = 1 /\
   e_built (elems st 2) = 1 /\ e_scrapped (elems st 1) = true) /\
  (let st := run true true (-1) ex_sched (init ex_progs) in
   mmap st = [(0, 1)] /\ ph (txs st 2) = PIn (mkW 0 true OK) (mkC 2 false None true)) /\
  (let st := run true true (-1) lr_sched (init lr_progs) in
   holds_write st 1 0 /\ ph (txs st 0) = PRet false None false true).
Proof. exact thm_repaired_on_witnesses. Qed.

(* contention: reader 0 holds a read lock on element 0 inside its callback,
   writer 1 has announced itself and waits for the reader, reader 2 could not
   get the read lock and runs on the private element 1 *)
Definition ex_progs1 : list (list op) :=
  [[OWith 0 true OK; OCommit false]; [OWith 0 false OK; OCommit false]; [OWith 0 true OK; OCommit false]].
Definition ex_sched1 : list label := rep 3 (LT 0) ++ rep 2 (LT 1) ++ rep 3 (LT 2).
Example c11_example_contention :
  Forall wf_prog ex_progs1 /\
  let st := run true true (-1) ex_sched1 (init ex_progs1) in
  in_cb st 0 0 /\ holds_read st 0 0 /\
  ph (txs st 1) = PWait (mkW 0 false OK) 0 /\ step true true (-1) st 1 = None /\
  in_cb st 2 1 /\ ~ registered st 1 /\ excl st /\ coherent st.
Proof.
  assert (Hwf : Forall wf_prog ex_progs1) by (repeat constructor).
  split; [exact Hwf|]. cbv zeta.
  split; [eexists _, _; split; vm_compute; reflexivity|].
  split; [vm_compute; auto|].
  split; [vm_compute; reflexivity|].
  split; [vm_compute; reflexivity|].
  split; [eexists _, _; split; vm_compute; reflexivity|].
  split.
  { intros [n Hl]. assert (Hm : mmap (run true true (-1) ex_sched1 (init ex_progs1)) = [(0, 0)]) by (vm_compute; reflexivity).
    rewrite Hm in Hl. unfold lookup in Hl. destruct (Nat.eqb 0 n); discriminate. }
  split; [apply c11_exclusion; assumption|apply c11_coherent].
Qed.

(* the same run to the end: everything finished, all locks released, the
   registered element reflects the writer's commit *)
Example c11_example_all_done :
  let st := run true true (-1) (ex_sched1 ++ rep 5 (LT 0) ++ rep 9 (LT 1) ++ rep 5 (LT 2)) (init ex_progs1) in
  finishedb (txs st 0) && finishedb (txs st 1) && finishedb (txs st 2) = true /\
  mmap st = [(0, 0)] /\ e_writer (elems st 0) = None /\ e_readers (elems st 0) = [] /\
  committed st 0 = 1 /\ e_built (elems st 0) = 1.
Proof. vm_compute. repeat split; reflexivity. Qed.

(* limits 0 and 1: with limit 1 a second name evicts the least recently used
   entry; with limit 0 nothing is ever registered *)
Example c11_example_limits :
  mmap (run true true 1 (rep 7 (LT 0)) (init [[OWith 0 true OK; OWith 1 true OK; OCommit false]])) = [(0, 0)] /\
  mmap (run true true 1 (rep 14 (LT 0)) (init [[OWith 0 true OK; OWith 1 true OK; OCommit false]])) = [(1, 1)] /\
  mmap (run true true 0 (rep 14 (LT 0)) (init [[OWith 0 true OK; OWith 1 false OK; OCommit false]])) = [].
Proof. vm_compute. repeat split; reflexivity. Qed.

(* ---------------------------------------------------------------------------
   Access modes at the call sites. The theorems above speak about transactions
   whose WRITING With calls carry ro = false. gen/gen_tx_order.py reads every
   place where shard/index enters a shared cache off the source on every run
   (TxOrder.cache_access_sites) and refuses any shape other than: the write
   pipeline (dispatch.go) exclusive, the search path (search.go) shared. *)
Theorem c11_sites_modes :
  length TxOrder.cache_access_sites = 4 /\
  forallb (fun s => let '(f, _, ro) := s in
             if String.eqb f TxOrder.write_pipeline_file then negb ro
             else if String.eqb f TxOrder.search_path_file then ro else false) TxOrder.cache_access_sites = true.
Proof. vm_compute. split; reflexivity. Qed.
Print Assumptions c11_sites_modes.

(* why the mode matters: a transaction that mutates a cache it entered SHARED and then fails leaves that cache
   registered and not scrapped (its Commit(true) has nothing in `written`); entered exclusively, the same
   transaction scraps and unregisters it *)
Theorem c11_writer_entered_shared_refuted :
  (let st := run true true (-1) (rep 14 (LT 0)) (init [[OWith 0 true OK; OCommit true]]) in
   done (txs st 0) = true /\ mmap st = [(0, 0)] /\ e_scrapped (elems st 0) = false) /\
  (let st := run true true (-1) (rep 14 (LT 0)) (init [[OWith 0 false OK; OCommit true]]) in
   done (txs st 0) = true /\ mmap st = [] /\ e_scrapped (elems st 0) = true).
Proof. vm_compute. repeat split; reflexivity. Qed.
Print Assumptions c11_writer_entered_shared_refuted.
