(* Proofs_C13.v -- lemmas about rendezvous hashing (Model_C13.v).
   Everything is quantified over the hash function; the only hypothesis ever
   used is that the scores of the servers of the list are pairwise distinct. *)
From Coq Require Import List NArith Bool Arith Lia Permutation Sorted Relations RelationClasses.
From Coq Require Import ZifyBool ZifyN ZifyNat.
From Semadb Require Import Bytes Model_C13.
Import ListNotations.
Open Scope N_scope.

(* ------------------------------------------------------------------ *)
(* generic facts about sorting by a score                                *)

Section SortFacts.
  Context {A : Type} (f : A -> N).

  Definition le_on (a b : A) : Prop := f a <= f b.

  Lemma le_on_trans : Transitive le_on.
  Proof. intros a b c H1 H2. unfold le_on in *. lia. Qed.

  Lemma insert_by_perm x l : Permutation (insert_by f x l) (x :: l).
  Proof.
    induction l as [|y l IH]; cbn [insert_by]; [reflexivity|].
    destruct (f x <=? f y); [reflexivity|].
    rewrite IH. apply perm_swap.
  Qed.

  Lemma sort_on_perm l : Permutation (sort_on f l) l.
  Proof.
    induction l as [|x l IH]; cbn [sort_on fold_right]; [reflexivity|].
    fold (sort_on f l). rewrite insert_by_perm. now constructor.
  Qed.

  Lemma insert_by_hdrel a x l : HdRel le_on a l -> le_on a x -> HdRel le_on a (insert_by f x l).
  Proof.
    intros Hh Hx. destruct l as [|y l]; cbn [insert_by]; [now constructor|].
    destruct (f x <=? f y); constructor; [exact Hx|]. now inversion Hh.
  Qed.

  Lemma insert_by_sorted x l : Sorted le_on l -> Sorted le_on (insert_by f x l).
  Proof.
    induction l as [|y l IH]; intros Hs; cbn [insert_by].
    - repeat constructor.
    - destruct (N.leb_spec (f x) (f y)) as [Hle|Hgt].
      + constructor; [exact Hs|]. constructor. exact Hle.
      + inversion Hs as [|? ? Hs' Hh]; subst. constructor; [now apply IH|].
        apply insert_by_hdrel; [exact Hh|]. unfold le_on. lia.
  Qed.

  Lemma sort_on_sorted l : Sorted le_on (sort_on f l).
  Proof.
    induction l as [|x l IH]; cbn [sort_on fold_right]; [constructor|].
    fold (sort_on f l). now apply insert_by_sorted.
  Qed.

  Lemma score_inj_on l a b : NoDup (map f l) -> In a l -> In b l -> f a = f b -> a = b.
  Proof.
    induction l as [|x l IH]; intros Hnd Ha Hb E; [contradiction|].
    cbn [map] in Hnd. inversion Hnd as [|? ? Hnin Hnd']; subst.
    destruct Ha as [->|Ha], Hb as [->|Hb]; auto.
    - exfalso. apply Hnin. rewrite E. now apply in_map.
    - exfalso. apply Hnin. rewrite <- E. now apply in_map.
  Qed.

  (* The heart of the matter: with pairwise distinct scores there is exactly
     one sorted arrangement of a list, whatever the sorting algorithm. *)
  Lemma sorted_perm_unique l1 : forall l2,
    Sorted le_on l1 -> Sorted le_on l2 -> Permutation l1 l2 -> NoDup (map f l1) -> l1 = l2.
  Proof.
    induction l1 as [|a l1 IH]; intros l2 S1 S2 P Hnd.
    - apply Permutation_nil in P. now subst.
    - destruct l2 as [|b l2]; [symmetry in P; apply Permutation_nil in P; discriminate|].
      assert (SS1 := Sorted_StronglySorted le_on_trans S1).
      assert (SS2 := Sorted_StronglySorted le_on_trans S2).
      inversion SS1 as [|? ? SS1' F1]; subst. inversion SS2 as [|? ? SS2' F2]; subst.
      rewrite Forall_forall in F1, F2.
      assert (Eab : a = b).
      { assert (Ha : In a (b :: l2)) by (eapply Permutation_in; [exact P|now left]).
        assert (Hb : In b (a :: l1)) by (eapply Permutation_in; [symmetry; exact P|now left]).
        destruct Ha as [Ha|Ha]; [now symmetry|]. destruct Hb as [Hb|Hb]; [exact Hb|].
        apply (score_inj_on (a :: l1)); [exact Hnd|now left|now right|].
        pose proof (F1 b Hb) as H1. pose proof (F2 a Ha) as H2. unfold le_on in *. lia. }
      subst b. f_equal. apply IH.
      + now inversion S1.
      + now inversion S2.
      + eapply Permutation_cons_inv; exact P.
      + cbn [map] in Hnd. now inversion Hnd.
  Qed.

  Lemma sort_on_unique l out :
    Permutation out l -> Sorted le_on out -> NoDup (map f l) -> out = sort_on f l.
  Proof.
    intros P S Hnd. apply sorted_perm_unique.
    - exact S.
    - apply sort_on_sorted.
    - rewrite P. symmetry. apply sort_on_perm.
    - eapply Permutation_NoDup; [|exact Hnd]. apply Permutation_map. now symmetry.
  Qed.

  Lemma sort_on_perm_invariant l1 l2 :
    Permutation l1 l2 -> NoDup (map f l1) -> sort_on f l1 = sort_on f l2.
  Proof.
    intros P Hnd. apply sort_on_unique.
    - rewrite sort_on_perm. exact P.
    - apply sort_on_sorted.
    - eapply Permutation_NoDup; [|exact Hnd]. now apply Permutation_map.
  Qed.

  (* head of the sorted list = argmin *)
  Lemma sort_on_head_min l o r :
    sort_on f l = o :: r -> In o l /\ forall s, In s l -> f o <= f s.
  Proof.
    intros E. pose proof (sort_on_perm l) as P. pose proof (sort_on_sorted l) as S.
    rewrite E in P, S. split.
    - eapply Permutation_in; [exact P|now left].
    - intros s Hs. assert (Hs' : In s (o :: r)) by (eapply Permutation_in; [symmetry; exact P|exact Hs]).
      apply (Sorted_StronglySorted le_on_trans) in S. inversion S as [|? ? _ F]; subst.
      rewrite Forall_forall in F. destruct Hs' as [->|Hs']; [lia|]. exact (F s Hs').
  Qed.

  Lemma sort_on_nil l : sort_on f l = [] -> l = [].
  Proof. intros E. pose proof (sort_on_perm l) as P. rewrite E in P. now apply Permutation_nil in P. Qed.
End SortFacts.

Lemma insert_by_map {A B : Type} (f : A -> N) (g : B -> N) (d : A -> B) :
  (forall x, g (d x) = f x) -> forall x l, insert_by g (d x) (map d l) = map d (insert_by f x l).
Proof.
  intros H x l. induction l as [|y l IH]; cbn [map insert_by]; [reflexivity|].
  rewrite !H. destruct (f x <=? f y); cbn [map]; [reflexivity|]. now rewrite IH.
Qed.

Lemma sort_on_map {A B : Type} (f : A -> N) (g : B -> N) (d : A -> B) :
  (forall x, g (d x) = f x) -> forall l, sort_on g (map d l) = map d (sort_on f l).
Proof.
  intros H l. induction l as [|x l IH]; cbn [map sort_on fold_right]; [reflexivity|].
  fold (sort_on g (map d l)). fold (sort_on f l). rewrite IH. now apply insert_by_map.
Qed.

(* ------------------------------------------------------------------ *)
(* rv / owner                                                            *)

Section Rendezvous.
  Variable hash : bytes -> N.
  Variable key : bytes.
  Notation sc := (score hash key).

  Lemma map_fst_decorate servers : map fst (decorate hash key servers) = map sc servers.
  Proof. unfold decorate. rewrite map_map. reflexivity. Qed.

  Lemma map_snd_decorate servers : map snd (decorate hash key servers) = servers.
  Proof. unfold decorate. rewrite map_map. cbn. apply map_id. Qed.

  (* the pair-sorting formulation equals "sort the servers by score" *)
  Lemma rv_simple servers k : rv hash key servers k = firstn k (sort_on sc servers).
  Proof.
    unfold rv, rv_of_scored, decorate.
    rewrite (sort_on_map sc fst (fun s => (sc s, s))) by reflexivity.
    rewrite firstn_map, map_map. cbn. apply map_id.
  Qed.

  Lemma rv_perm_invariant s1 s2 k :
    Permutation s1 s2 -> NoDup (map sc s1) -> rv hash key s1 k = rv hash key s2 k.
  Proof. intros P Hnd. rewrite !rv_simple. f_equal. now apply sort_on_perm_invariant. Qed.

  (* any sorted permutation of the scored slice gives the result of rv *)
  Lemma rv_any_sort servers k (out : list (N * bytes)) :
    Permutation out (decorate hash key servers) ->
    Sorted (fun a b => fst a <= fst b) out ->
    NoDup (map sc servers) ->
    map snd (firstn k out) = rv hash key servers k.
  Proof.
    intros P S Hnd. unfold rv, rv_of_scored. do 2 f_equal.
    apply sort_on_unique; [exact P|exact S|]. now rewrite map_fst_decorate.
  Qed.

  Lemma rv_length servers k : length (rv hash key servers k) = Nat.min k (length servers).
  Proof.
    rewrite rv_simple, firstn_length. f_equal. apply Permutation_length, sort_on_perm.
  Qed.

  Lemma owner_hd servers : owner hash key servers = hd_error (sort_on sc servers).
  Proof. unfold owner. rewrite rv_simple. now destruct (sort_on sc servers). Qed.

  Lemma owner_some_argmin servers o :
    owner hash key servers = Some o -> In o servers /\ forall s, In s servers -> sc o <= sc s.
  Proof.
    rewrite owner_hd. destruct (sort_on sc servers) as [|x r] eqn:E; cbn; [discriminate|].
    intros H; inversion H; subst. exact (sort_on_head_min sc servers o r E).
  Qed.

  Lemma owner_none servers : owner hash key servers = None <-> servers = [].
  Proof.
    rewrite owner_hd. split.
    - destruct (sort_on sc servers) eqn:E; cbn; [intros _; exact (sort_on_nil sc servers E)|discriminate].
    - intros ->. reflexivity.
  Qed.

  Lemma owner_exists servers : servers <> [] -> exists o, owner hash key servers = Some o.
  Proof.
    intros Hne. destruct (owner hash key servers) eqn:E; [eauto|].
    apply owner_none in E. contradiction.
  Qed.

  (* with distinct scores the owner is characterised by minimality alone *)
  Lemma owner_char servers o :
    NoDup (map sc servers) -> In o servers -> (forall s, In s servers -> sc o <= sc s) ->
    owner hash key servers = Some o.
  Proof.
    intros Hnd Hin Hmin.
    destruct (owner_exists servers) as [o' E]; [intros ->; contradiction|].
    rewrite E. f_equal. destruct (owner_some_argmin servers o' E) as [Hin' Hmin'].
    apply (score_inj_on sc servers); auto.
    pose proof (Hmin o' Hin'). pose proof (Hmin' o Hin). lia.
  Qed.

  (* adding a server, at any position of the list *)
  Lemma owner_add servers servers' new :
    Permutation servers' (new :: servers) -> NoDup (map sc servers') ->
    owner hash key servers' = Some new \/ owner hash key servers' = owner hash key servers.
  Proof.
    intros P Hnd.
    destruct (owner_exists servers') as [o E].
    { intros ->. apply Permutation_nil in P. discriminate. }
    destruct (owner_some_argmin servers' o E) as [Hin Hmin].
    assert (Hin2 : In o (new :: servers)) by (eapply Permutation_in; [exact P|exact Hin]).
    destruct Hin2 as [<-|Hin2]; [now left|]. right. rewrite E. symmetry.
    apply owner_char.
    - assert (Hnd2 : NoDup (map sc (new :: servers)))
        by (eapply Permutation_NoDup; [apply Permutation_map; exact P|exact Hnd]).
      cbn [map] in Hnd2. now inversion Hnd2.
    - exact Hin2.
    - intros s Hs. apply Hmin. eapply Permutation_in; [symmetry; exact P|now right].
  Qed.

  (* removing a server: any list that keeps exactly the other servers *)
  Lemma owner_remove_gen servers servers' r :
    (forall s, In s servers' <-> In s servers /\ s <> r) ->
    NoDup (map sc servers') ->
    owner hash key servers <> Some r ->
    owner hash key servers' = owner hash key servers.
  Proof.
    intros Hiff Hnd Hne. destruct (owner hash key servers) as [o|] eqn:E.
    - destruct (owner_some_argmin servers o E) as [Hin Hmin].
      apply owner_char; [exact Hnd| |].
      + apply Hiff. split; [exact Hin|]. intros ->. now apply Hne.
      + intros s Hs. apply Hmin. now apply Hiff.
    - apply owner_none in E. subst servers. apply owner_none.
      destruct servers' as [|x l]; [reflexivity|].
      exfalso. destruct (proj1 (Hiff x) (or_introl eq_refl)) as [[] _].
  Qed.

  Lemma nodup_map_remove servers r :
    NoDup (map sc servers) -> NoDup (map sc (remove bytes_eq_dec r servers)).
  Proof.
    induction servers as [|a l IH]; intros Hnd; cbn [remove map]; [constructor|].
    cbn [map] in Hnd. inversion Hnd as [|? ? Hnin Hnd']; subst.
    destruct (bytes_eq_dec r a); [now apply IH|].
    cbn [map]. constructor; [|now apply IH].
    intros Hc. apply Hnin. apply in_map_iff in Hc. destruct Hc as [x [Ex Hx]].
    apply in_remove in Hx. rewrite <- Ex. apply in_map. tauto.
  Qed.

  Lemma owner_remove servers r :
    NoDup (map sc servers) -> owner hash key servers <> Some r ->
    owner hash key (remove bytes_eq_dec r servers) = owner hash key servers.
  Proof.
    intros Hnd Hne. apply (owner_remove_gen servers _ r); [|now apply nodup_map_remove|exact Hne].
    intros s. split.
    - intros H. apply in_remove in H. exact H.
    - intros [H1 H2]. now apply in_in_remove.
  Qed.
End Rendezvous.

(* without distinct scores the order of the server list matters *)
Lemma const_hash_order_dependent :
  Permutation [[1]; [2]] [[2]; [1]] /\
  rv (fun _ => 0) [] [[1]; [2]] 1 = [[1]] /\ rv (fun _ => 0) [] [[2]; [1]] 1 = [[2]] /\
  owner (fun _ => 0) [] [[1]; [2]] <> owner (fun _ => 0) [] [[2]; [1]].
Proof.
  split; [apply perm_swap|]. split; [vm_compute; reflexivity|]. split; [vm_compute; reflexivity|].
  vm_compute. discriminate.
Qed.

(* ------------------------------------------------------------------ *)
(* small facts about the xxh64 model                                     *)

Lemma w64_mod x : w64 x = x mod 2 ^ 64.
Proof. unfold w64. change mask64 with (N.ones 64). apply N.land_ones. Qed.

Lemma w64_lt x : w64 x < 2 ^ 64.
Proof. rewrite w64_mod. apply N.mod_lt. discriminate. Qed.

Lemma rotl_lt r x : rotl r x < 2 ^ 64.
Proof. apply w64_lt. Qed.

Lemma lxor_lt64 a b : a < 2 ^ 64 -> b < 2 ^ 64 -> N.lxor a b < 2 ^ 64.
Proof.
  intros Ha Hb. destruct (N.eq_dec (N.lxor a b) 0) as [->|Hnz]; [reflexivity|].
  apply N.log2_lt_pow2; [lia|].
  pose proof (N.log2_lxor a b) as Hl.
  assert (La : N.log2 a < 64).
  { destruct (N.eq_dec a 0) as [->|Hz]; [cbn; lia|]. apply N.log2_lt_pow2; [lia|exact Ha]. }
  assert (Lb : N.log2 b < 64).
  { destruct (N.eq_dec b 0) as [->|Hz]; [cbn; lia|]. apply N.log2_lt_pow2; [lia|exact Hb]. }
  lia.
Qed.

Lemma shiftr_lt64 a n : a < 2 ^ 64 -> N.shiftr a n < 2 ^ 64.
Proof.
  intros Ha. rewrite N.shiftr_div_pow2.
  assert (0 < 2 ^ n) by (apply N.neq_0_lt_0, N.pow_nonzero; discriminate).
  eapply N.le_lt_trans; [|exact Ha]. apply N.div_le_upper_bound; [lia|]. nia.
Qed.

(* the model hash is a 64-bit word for every input *)
Lemma xxh64_lt b : xxh64 b < 2 ^ 64.
Proof.
  unfold xxh64.
  destruct (if (32 <=? length b)%nat then _ else _) as [h0 rest].
  destruct (tail8 _ _ _) as [h2 rest2]. destruct (tail4 _ _) as [h3 rest3].
  unfold avalanche. apply lxor_lt64; [apply w64_lt|apply shiftr_lt64, w64_lt].
Qed.

(* reflection for the Examples *)
Lemma memN_spec x l : memN x l = true <-> In x l.
Proof.
  induction l as [|y l IH]; cbn [memN In]; [split; [discriminate|tauto]|].
  rewrite orb_true_iff, N.eqb_eq, IH. split; intros [H|H]; auto.
Qed.

Lemma nodupN_sound l : nodupN l = true -> NoDup l.
Proof.
  induction l as [|x l IH]; cbn [nodupN]; [constructor|].
  rewrite andb_true_iff, negb_true_iff. intros [H1 H2]. constructor; [|now apply IH].
  intros Hin. apply memN_spec in Hin. congruence.
Qed.

(* ------------------------------------------------------------------ *)
(* soundness of the selection checker sel_ok (verdict 101)               *)

Lemma lbeq_eq a b : lbeq a b = true <-> a = b.
Proof.
  revert b; induction a as [|x a IH]; intros [|y b]; cbn [lbeq]; try (split; congruence).
  rewrite andb_true_iff, N.eqb_eq, IH. split; [intros [-> ->]; reflexivity|intros H; inversion H; auto].
Qed.

Lemma take_out_perm s l h r : take_out s l = Some (h, r) -> Permutation l ((h, s) :: r).
Proof.
  revert h r; induction l as [|[h0 t] l IH]; intros h r; cbn [take_out]; [discriminate|].
  destruct (lbeq s t) eqn:E.
  - apply lbeq_eq in E. subst t. intros H; inversion H; subst. reflexivity.
  - destruct (take_out s l) as [[h' r']|]; [|discriminate].
    intros H; inversion H; subst. rewrite (IH h r' eq_refl). apply perm_swap.
Qed.

Lemma sel_ok_out obs : forall rest last, sel_ok obs rest last = true ->
  exists pre suf, map snd pre = obs /\ Permutation rest (pre ++ suf) /\
    Sorted (le_on fst) (pre ++ sort_on fst suf) /\ Forall (fun p => last <= fst p) (pre ++ suf).
Proof.
  induction obs as [|o obs IH]; intros rest last; cbn [sel_ok].
  - intros H. exists [], rest. cbn [map app]. repeat split; [reflexivity|apply sort_on_sorted|].
    rewrite forallb_forall in H. apply Forall_forall. intros p Hp. specialize (H p Hp). lia.
  - destruct (take_out o rest) as [[h rest']|] eqn:Et; [|discriminate].
    rewrite andb_true_iff. intros [Hle Hs]. apply N.leb_le in Hle.
    destruct (IH rest' h Hs) as [pre [suf [Hm [Hp [Hsorted Hall]]]]].
    exists ((h, o) :: pre), suf. cbn [map app snd]. repeat split.
    + now rewrite Hm.
    + rewrite (take_out_perm o rest h rest' Et). now constructor.
    + constructor; [exact Hsorted|].
      assert (Hall' : Forall (fun p => h <= fst p) (pre ++ sort_on fst suf)).
      { eapply Permutation_Forall; [|exact Hall]. apply Permutation_app_head. symmetry. apply sort_on_perm. }
      destruct (pre ++ sort_on fst suf) as [|q l]; constructor.
      inversion Hall'; subst. assumption.
    + constructor; [cbn; lia|]. eapply Forall_impl; [|exact Hall]. cbn. intros p Hp'. lia.
Qed.

Lemma sel_ok_sound hash key servers k obs :
  NoDup (map (score hash key) servers) ->
  length obs = Nat.min k (length servers) ->
  sel_ok obs (decorate hash key servers) 0 = true ->
  obs = rv hash key servers k.
Proof.
  intros Hnd Hlen Hs.
  destruct (sel_ok_out obs _ 0 Hs) as [pre [suf [Hm [Hp [Hsorted _]]]]].
  assert (Hout : pre ++ sort_on fst suf = sort_on fst (decorate hash key servers)).
  { apply sort_on_unique; [|exact Hsorted|now rewrite map_fst_decorate].
    rewrite Hp. apply Permutation_app_head. apply sort_on_perm. }
  unfold rv, rv_of_scored. rewrite <- Hout, <- Hm. f_equal.
  assert (Lpre : length pre = length obs) by (rewrite <- Hm; now rewrite map_length).
  assert (Ltot : (length pre + length suf = length servers)%nat).
  { apply Permutation_length in Hp. rewrite app_length in Hp. unfold decorate in Hp. rewrite map_length in Hp. lia. }
  rewrite firstn_app. rewrite firstn_all2 by lia.
  destruct (Nat.le_gt_cases k (length servers)) as [Hk|Hk].
  - replace (k - length pre)%nat with 0%nat by lia. cbn. now rewrite app_nil_r.
  - assert (length suf = 0)%nat by lia. destruct suf; [|discriminate]. cbn. rewrite firstn_nil. now rewrite app_nil_r.
Qed.

(* ---- placement call sites (coq/RoutingSites.v, regenerated from cluster/*.go on every run) ---- *)
From Semadb Require RoutingSites.

(* what a call site of the checked shape computes: hd (RendezvousHash key c.Servers 1) *)
Definition site_owner (site : String.string * String.string * RoutingSites.key_kind * String.string)
           (hash : bytes -> N) (key : bytes) (servers : list bytes) : option bytes :=
  owner hash key servers.

Lemma sites_route_by_key hash key s1 s2 site :
  In site RoutingSites.routing_sites ->
  Permutation s1 s2 -> NoDup (map (fun s => hash (key ++ s)) s1) ->
  site_owner site hash key s1 = site_owner site hash key s2.
Proof.
  intros _ Hp Hn. unfold site_owner, owner. now rewrite (rv_perm_invariant hash key s1 s2 1 Hp Hn).
Qed.

Lemma sites_listed : length RoutingSites.routing_sites = RoutingSites.n_routing_sites /\
  (forall f, In f RoutingSites.routing_files ->
     exists fu k e, In (f, fu, k, e) RoutingSites.routing_sites).
Proof.
  split; [vm_compute; reflexivity|].
  intros f Hf. simpl in Hf.
  assert (H: forall f0, existsb (fun x => String.eqb (fst (fst (fst x))) f0) RoutingSites.routing_sites = true ->
             exists fu k e, In (f0, fu, k, e) RoutingSites.routing_sites).
  { intros f0 He. apply existsb_exists in He. destruct He as [[[[f1 fu] k] e] [Hin Heq]]. simpl in Heq.
    apply String.eqb_eq in Heq. subst f1. now exists fu, k, e. }
  apply H.
  assert (Hall : forallb (fun f0 => existsb (fun x => String.eqb (fst (fst (fst x))) f0) RoutingSites.routing_sites)
                         RoutingSites.routing_files = true) by (vm_compute; reflexivity).
  rewrite forallb_forall in Hall. exact (Hall f Hf).
Qed.

