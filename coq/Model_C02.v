(* Model_C02.v -- filter queries: the reference answer (a set comprehension
   over the stored documents). Definitions only. *)
From Coq Require Import List NArith ZArith Bool.
From Semadb Require Import Bytes U64 Value Obs Model_C19 Model_C01.
Import ListNotations.
Open Scope N_scope.

Definition OP_EQ : N := 0.  Definition OP_NE : N := 1.  Definition OP_PREFIX : N := 2.
Definition OP_GT : N := 3.  Definition OP_GE : N := 4.  Definition OP_LT : N := 5.
Definition OP_LE : N := 6.  Definition OP_RANGE : N := 7.
Definition OP_ALL : N := 8. Definition OP_ANY : N := 9.

(* generic comparison-operator semantics over a decidable total order *)
Definition cmp_matches (op : N) (c_vq : comparison) (c_ve : comparison) : bool :=
  (* c_vq = compare value query, c_ve = compare value endvalue *)
  match op with
  | 0 => match c_vq with Eq => true | _ => false end
  | 1 => match c_vq with Eq => false | _ => true end
  | 3 => match c_vq with Gt => true | _ => false end
  | 4 => match c_vq with Lt => false | _ => true end
  | 5 => match c_vq with Lt => true | _ => false end
  | 6 => match c_vq with Gt => false | _ => true end
  | 7 => match c_vq with Lt => false | _ => match c_ve with Gt => false | _ => true end end
  | _ => false
  end.

Definition matches_int (op : N) (q e v : Z) : bool := cmp_matches op (Z.compare v q) (Z.compare v e).
Definition matches_float (op : N) (q e v : N) : bool :=
  cmp_matches op (Z.compare (f64_ord v) (f64_ord q)) (Z.compare (f64_ord v) (f64_ord e)).
Definition matches_str (op : N) (q e v : bytes) : bool :=
  if op =? OP_PREFIX then is_prefix q v
  else cmp_matches op (lex_compare v q) (lex_compare v e).

(* case folding through the table recorded by the harness (strings.ToLower) *)
Fixpoint tbl_get (s : bytes) (t : list (bytes * bytes)) : option bytes :=
  match t with
  | [] => None
  | (k, v) :: r => if bytes_eqb s k then Some v else tbl_get s r
  end.
Definition fold_str (cs : bool) (t : list (bytes * bytes)) (s : bytes) : option bytes :=
  if cs then Some s else tbl_get s t.

Fixpoint map_opt {A B} (f : A -> option B) (l : list A) : option (list B) :=
  match l with
  | [] => Some []
  | x :: r => match f x, map_opt f r with Some y, Some ys => Some (y :: ys) | _, _ => None end
  end.

Definition mem_bytes (x : bytes) (l : list bytes) : bool := existsb (bytes_eqb x) l.

Fixpoint schema_get (p : bytes) (sc : schema) : option idx :=
  match sc with
  | [] => None
  | (k, i) :: r => if bytes_eqb p k then Some i else schema_get p r
  end.

(* does a document match a leaf filter?  None = the model cannot judge (missing fold entry, wrong query kind) *)
Definition str_elems (l : list value) : list bytes :=
  flat_map (fun v => match v with VStr s => [s] | _ => [] end) l.

Definition leaf_matches (sc : schema) (t : list (bytes * bytes)) (q : query) (d : doc) : option bool :=
  match q with
  | QInt p op v e =>
      match schema_get p sc, prop_value p d with
      | Some IInt, QFound (VInt x) => Some (matches_int op v e x)
      | Some IInt, _ => Some false
      | _, _ => None
      end
  | QFloat p op v e =>
      match schema_get p sc, prop_value p d with
      | Some IFloat, QFound (VF64 x) => Some (matches_float op v e x)
      | Some IFloat, _ => Some false
      | _, _ => None
      end
  | QStr p op v e =>
      match schema_get p sc with
      | Some (IStr cs) =>
          match fold_str cs t v, fold_str cs t e with
          | Some fv, Some fe =>
              match prop_value p d with
              | QFound (VStr x) => match fold_str cs t x with
                                   | Some fx => Some (matches_str op fv fe fx)
                                   | None => None
                                   end
              | _ => Some false
              end
          | _, _ => None
          end
      | _ => None
      end
  | QStrArr p op vs =>
      match schema_get p sc with
      | Some (IStrArr cs) =>
          match map_opt (fold_str cs t) vs with
          | Some fvs =>
              match prop_value p d with
              | QFound (VArr l) =>
                  match map_opt (fold_str cs t) (str_elems l) with
                  | Some fl =>
                      if op =? OP_ALL then Some (forallb (fun x => mem_bytes x fl) fvs)
                      else if op =? OP_ANY then Some (existsb (fun x => mem_bytes x fl) fvs)
                      else None
                  | None => None
                  end
              | _ => Some false
              end
          | None => None
          end
      | _ => None
      end
  | _ => None
  end.

(* set operations on id lists *)
Definition ids_inter (a b : list uuid) : list uuid := filter (fun x => mem_bytes x b) a.
Definition ids_union (a b : list uuid) : list uuid := a ++ filter (fun x => negb (mem_bytes x a)) b.

(* the reference answer of a filter query over the live documents *)
Fixpoint answer (sc : schema) (t : list (bytes * bytes)) (live : store) (q : query) {struct q} : option (list uuid) :=
  match q with
  | QAnd qs =>
      (fix go (qs : list query) : option (list uuid) :=
         match qs with
         | [] => Some (map fst live)
         | q1 :: r => match answer sc t live q1, go r with
                      | Some a, Some b => Some (ids_inter a b)
                      | _, _ => None
                      end
         end) qs
  | QOr qs =>
      (fix go (qs : list query) : option (list uuid) :=
         match qs with
         | [] => Some []
         | q1 :: r => match answer sc t live q1, go r with
                      | Some a, Some b => Some (ids_union a b)
                      | _, _ => None
                      end
         end) qs
  | QIdEq id => Some (if st_mem id live then [id] else [])
  | QIdAny ids => Some (filter (fun id => st_mem id live) (dedup ids))
  | QText _ _ _ _ _ _ | QFlat _ _ _ _ _ | QVamana _ _ _ _ _ _ => None
  | leaf =>
      (fix go (l : store) : option (list uuid) :=
         match l with
         | [] => Some []
         | (id, d) :: r => match leaf_matches sc t leaf d, go r with
                           | Some true, Some ids => Some (id :: ids)
                           | Some false, Some ids => Some ids
                           | _, _ => None
                           end
         end) live
  end.

Fixpoint nodup_ids (l : list uuid) : bool :=
  match l with [] => true | x :: r => negb (mem_bytes x r) && nodup_ids r end.

Definition row_ids (rows : list row) : list uuid := map r_id rows.
