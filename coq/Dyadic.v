(* Dyadic.v -- exact values of IEEE-754 binary32 / binary64 bit patterns as
   rationals (finite values only), for judging reported distances and scores. *)
From Coq Require Import NArith ZArith QArith Bool List.
Import ListNotations.
Open Scope Z_scope.

(* value = m * 2^e *)
Definition dy_to_Q (m e : Z) : Q :=
  if 0 <=? e then inject_Z (m * 2 ^ e) else Qmake m (Z.to_pos (2 ^ (- e))).

Definition f32_sign (b : N) : bool := (2147483648 <=? b)%N.
Definition f32_exp (b : N) : Z := Z.of_N ((b / 8388608) mod 256)%N.
Definition f32_mant (b : N) : Z := Z.of_N (b mod 8388608)%N.
Definition f32_finite (b : N) : bool := negb (f32_exp b =? 255).
Definition f32_is_nan (b : N) : bool := (f32_exp b =? 255) && negb (f32_mant b =? 0).

(* exact rational value of a finite float32; infinities map to a huge sentinel so that
   comparisons still order them last/first *)
Definition f32_to_Q (b : N) : Q :=
  let s := if f32_sign b then (-1) else 1 in
  let e := f32_exp b in
  let m := f32_mant b in
  if e =? 255 then inject_Z (s * 2 ^ 200)
  else if e =? 0 then dy_to_Q (s * m) (-149)
  else dy_to_Q (s * (m + 8388608)) (e - 150).

Definition f64_sign (b : N) : bool := (9223372036854775808 <=? b)%N.
Definition f64_exp (b : N) : Z := Z.of_N ((b / 4503599627370496) mod 2048)%N.
Definition f64_mant (b : N) : Z := Z.of_N (b mod 4503599627370496)%N.
Definition f64_to_Q (b : N) : Q :=
  let s := if f64_sign b then (-1) else 1 in
  let e := f64_exp b in
  let m := f64_mant b in
  if e =? 2047 then inject_Z (s * 2 ^ 1200)
  else if e =? 0 then dy_to_Q (s * m) (-1074)
  else dy_to_Q (s * (m + 4503599627370496)) (e - 1075).

Definition Qeqb (a b : Q) : bool := Qeq_bool a b.
Definition Qleb (a b : Q) : bool := Qle_bool a b.
Definition Qltb (a b : Q) : bool := Qle_bool a b && negb (Qeq_bool a b).
Definition Qabs' (a : Q) : Q := if Qle_bool 0 a then a else Qopp a.
(* |a - b| <= tol *)
Definition Qclose (tol a b : Q) : bool := Qle_bool (Qabs' (a - b)) tol.
(* relative: |a - b| <= tol * max(1,|b|) *)
Definition Qclose_rel (tol a b : Q) : bool :=
  let sc := if Qle_bool 1 (Qabs' b) then Qabs' b else 1%Q in
  Qle_bool (Qabs' (a - b)) (tol * sc).

(* a float32 holding exactly the integer z *)
Definition f32_is_Z (b : N) (z : Z) : bool := f32_finite b && Qeqb (f32_to_Q b) (inject_Z z).

Example f32_one : f32_to_Q 1065353216 == 1. Proof. reflexivity. Qed.
Example f32_m25 : f32_to_Q 3223322624 == -(5#2). Proof. reflexivity. Qed.
Example f64_half : f64_to_Q 4602678819172646912 == 1#2. Proof. reflexivity. Qed.
