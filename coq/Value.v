(* Value.v -- document trees as semadb stores them (msgpack maps decoded by
   vmihailenco/msgpack), the path query used for index extraction and select,
   shallow merge, and the encoded size. *)
From Coq Require Import List NArith ZArith Bool Lia.
From Semadb Require Import Bytes.
Import ListNotations.
Open Scope N_scope.

Inductive value : Type :=
| VNil
| VBool (b : bool)
| VInt (z : Z)                (* an int64-coded integer *)
| VF64 (bits : N)
| VF32 (bits : N)
| VStr (s : bytes)
| VArr (l : list value)
| VMap (l : list (bytes * value)).

Definition doc := list (bytes * value).

(* induction principle through the nested lists *)
Section ValueInd.
  Variable P : value -> Prop.
  Hypothesis HNil : P VNil.
  Hypothesis HBool : forall b, P (VBool b).
  Hypothesis HInt : forall z, P (VInt z).
  Hypothesis HF64 : forall b, P (VF64 b).
  Hypothesis HF32 : forall b, P (VF32 b).
  Hypothesis HStr : forall s, P (VStr s).
  Hypothesis HArr : forall l, Forall P l -> P (VArr l).
  Hypothesis HMap : forall l, Forall (fun kv => P (snd kv)) l -> P (VMap l).
  Fixpoint value_ind' (v : value) : P v :=
    match v with
    | VNil => HNil | VBool b => HBool b | VInt z => HInt z | VF64 b => HF64 b | VF32 b => HF32 b
    | VStr s => HStr s
    | VArr l => HArr l ((fix go (l : list value) : Forall P l :=
                           match l with [] => Forall_nil _ | x :: r => Forall_cons _ (value_ind' x) (go r) end) l)
    | VMap l => HMap l ((fix go (l : list (bytes * value)) : Forall (fun kv => P (snd kv)) l :=
                           match l with [] => Forall_nil _ | x :: r => Forall_cons _ (value_ind' (snd x)) (go r) end) l)
    end.
End ValueInd.

Fixpoint list_eqb {A} (eq : A -> A -> bool) (a b : list A) : bool :=
  match a, b with
  | [], [] => true
  | x :: a', y :: b' => eq x y && list_eqb eq a' b'
  | _, _ => false
  end.

Fixpoint value_eqb (a b : value) : bool :=
  match a, b with
  | VNil, VNil => true
  | VBool x, VBool y => Bool.eqb x y
  | VInt x, VInt y => (x =? y)%Z
  | VF64 x, VF64 y => x =? y
  | VF32 x, VF32 y => x =? y
  | VStr x, VStr y => bytes_eqb x y
  | VArr x, VArr y =>
      (fix go (x y : list value) : bool :=
         match x, y with
         | [], [] => true
         | u :: x', v :: y' => value_eqb u v && go x' y'
         | _, _ => false
         end) x y
  | VMap x, VMap y =>
      (fix go (x y : list (bytes * value)) : bool :=
         match x, y with
         | [], [] => true
         | (k1, u) :: x', (k2, v) :: y' => bytes_eqb k1 k2 && value_eqb u v && go x' y'
         | _, _ => false
         end) x y
  | _, _ => false
  end.

Lemma value_eqb_eq a b : value_eqb a b = true <-> a = b.
Proof.
  revert b. induction a using value_ind'; intros w; destruct w; cbn; try (split; congruence).
  - rewrite Bool.eqb_true_iff. split; congruence.
  - rewrite Z.eqb_eq. split; congruence.
  - rewrite N.eqb_eq. split; congruence.
  - rewrite N.eqb_eq. split; congruence.
  - rewrite bytes_eqb_eq. split; congruence.
  - revert l0. induction H as [|x l Hx _ IH]; intros [|y l0]; try (split; congruence).
    rewrite andb_true_iff, Hx, IH. split.
    + intros [-> E]. inversion E. reflexivity.
    + intros E; inversion E; auto.
  - revert l0. induction H as [|[k1 x] l Hx _ IH]; intros [|[k2 y] l0]; try (split; congruence).
    cbn in Hx. rewrite !andb_true_iff, bytes_eqb_eq, Hx, IH. split.
    + intros [[-> ->] E]. inversion E. reflexivity.
    + intros E; inversion E; auto.
Qed.

(* ---- top-level map operations (Go map semantics: unique keys, no order) ---- *)
Fixpoint doc_get (k : bytes) (d : doc) : option value :=
  match d with
  | [] => None
  | (k', v) :: r => if bytes_eqb k k' then Some v else doc_get k r
  end.
Fixpoint doc_remove (k : bytes) (d : doc) : doc :=
  match d with
  | [] => []
  | (k', v) :: r => if bytes_eqb k k' then doc_remove k r else (k', v) :: doc_remove k r
  end.
Definition doc_set (k : bytes) (v : value) (d : doc) : doc := (k, v) :: doc_remove k d.

Definition doc_keys (d : doc) : list bytes := map fst d.

(* equality of documents as maps (order of keys irrelevant) *)
Definition doc_sub (a b : doc) : bool :=
  forallb (fun kv => match doc_get (fst kv) b with Some v => value_eqb (snd kv) v | None => false end) a.
Definition doc_eqb (a b : doc) : bool :=
  (length a =? length b)%nat && doc_sub a b && doc_sub b a.

(* shard.UpdatePoints: for k,v in incoming: "_delete" string removes, else overwrite *)
Definition merge_doc (delete_marker : bytes) (existing incoming : doc) : doc :=
  fold_left (fun acc kv =>
               match snd kv with
               | VStr s => if bytes_eqb s delete_marker then doc_remove (fst kv) acc else doc_set (fst kv) (snd kv) acc
               | v => doc_set (fst kv) v acc
               end) incoming existing.

(* ---- msgpack Decoder.Query on a value (no '*' segments) ---- *)
Inductive qres := QErr | QAbsent | QFound (v : value).

(* decimal index of a path segment (strconv.Atoi of a non-negative number) *)
Fixpoint atoi_acc (s : bytes) (acc : N) : option N :=
  match s with
  | [] => Some acc
  | c :: r => if (48 <=? c) && (c <=? 57) then atoi_acc r (acc * 10 + (c - 48)) else None
  end.
Definition atoi (s : bytes) : option N :=
  match s with [] => None | _ => atoi_acc s 0 end.

Fixpoint map_first (k : bytes) (l : list (bytes * value)) : option value :=
  match l with
  | [] => None
  | (k', v) :: r => if bytes_eqb k k' then Some v else map_first k r
  end.

(* segments: the dot-separated parts of the path. An empty segment returns the whole subtree. *)
Fixpoint query_path (segs : list bytes) (v : value) : qres :=
  match segs with
  | [] => QFound v
  | [] :: _ => QFound v
  | s :: rest =>
      match v with
      | VMap l => match map_first s l with
                  | Some v' => query_path rest v'
                  | None => QAbsent
                  end
      | VArr l => match atoi s with
                  | None => QErr
                  | Some i => match nth_error l (N.to_nat i) with
                              | Some v' => query_path rest v'
                              | None => QAbsent
                              end
                  end
      | _ => QErr
      end
  end.

(* split a path at '.' *)
Fixpoint split_dots_acc (s cur : bytes) : list bytes :=
  match s with
  | [] => [rev cur]
  | c :: r => if c =? 46 then rev cur :: split_dots_acc r [] else split_dots_acc r (c :: cur)
  end.
Definition split_dots (s : bytes) : list bytes := split_dots_acc s [].

(* the property value the index dispatcher sees: nil and absent are both "not present" *)
Definition prop_value (path : bytes) (d : doc) : qres :=
  match query_path (split_dots path) (VMap d) with
  | QFound VNil => QAbsent
  | r => r
  end.

(* ---- encoded size (vmihailenco/msgpack v5, default encoder flags) ---- *)
Definition str_hdr (n : N) : N := if n <? 32 then 1 else if n <? 256 then 2 else if n <=? 65535 then 3 else 5.
Definition seq_hdr (n : N) : N := if n <? 16 then 1 else if n <=? 65535 then 3 else 5.
Definition blen (s : bytes) : N := N.of_nat (length s).

Fixpoint msize (v : value) : N :=
  match v with
  | VNil => 1 | VBool _ => 1 | VInt _ => 9 | VF64 _ => 9 | VF32 _ => 5
  | VStr s => str_hdr (blen s) + blen s
  | VArr l => seq_hdr (N.of_nat (length l)) + fold_right (fun x acc => msize x + acc) 0 l
  | VMap l => seq_hdr (N.of_nat (length l)) +
              fold_right (fun kv acc => str_hdr (blen (fst kv)) + blen (fst kv) + msize (snd kv) + acc) 0 l
  end.
Definition doc_size (d : doc) : N := msize (VMap d).
