(* Proofs_C11.v -- lemmas for property C11 (shared-cache transactions).
   Invariants of the small-step model Model_C11.v, proved by induction over
   ARBITRARY schedules, any number of transactions, any program lengths. *)
From Coq Require Import List Arith Bool ZArith Lia PeanoNat.
From Semadb Require Import Model_C11.
Import ListNotations.


(* ------------------------------------------------------------------ *)
(* basics                                                              *)
(* ------------------------------------------------------------------ *)
Lemma upd_eq : forall A (f : nat -> A) k v, upd f k v k = v.
Proof. intros. unfold upd. now rewrite Nat.eqb_refl. Qed.
Lemma upd_neq : forall A (f : nat -> A) k v x, x <> k -> upd f k v x = f x.
Proof. intros. unfold upd. destruct (Nat.eqb_spec x k); congruence. Qed.

Lemma lookup_remove_key : forall n k m,
  lookup n (remove_key k m) = if Nat.eqb k n then None else lookup n m.
Proof.
  induction m as [|[a b] m IH]; simpl.
  - now destruct (Nat.eqb k n).
  - destruct (Nat.eqb_spec a k); subst.
    + rewrite IH. destruct (Nat.eqb_spec k n); auto.
    + simpl. rewrite IH. destruct (Nat.eqb_spec a n); subst; auto.
      destruct (Nat.eqb_spec k n); subst; congruence.
Qed.
Lemma lookup_set_key : forall n k v m,
  lookup n (set_key k v m) = if Nat.eqb k n then Some v else lookup n m.
Proof.
  intros. unfold set_key. simpl. rewrite lookup_remove_key. now destruct (Nat.eqb k n).
Qed.
Lemma has_key_set_key : forall n k v m,
  has_key n (set_key k v m) = Nat.eqb k n || has_key n m.
Proof. intros. unfold has_key. rewrite lookup_set_key. now destruct (Nat.eqb k n). Qed.
Lemma lookup_remove_some : forall n k m e, lookup n (remove_key k m) = Some e -> lookup n m = Some e /\ k <> n.
Proof.
  intros n k m e H. rewrite lookup_remove_key in H. destruct (Nat.eqb_spec k n); [discriminate|auto].
Qed.
Lemma lookup_In : forall n m e, lookup n m = Some e -> In (n, e) m.
Proof.
  induction m as [|[a b] m IH]; simpl; intros e H; [discriminate|].
  destruct (Nat.eqb_spec a n); subst; [inversion H; auto|auto].
Qed.
Lemma has_key_lookup : forall n m, has_key n m = true <-> exists e, lookup n m = Some e.
Proof.
  intros. unfold has_key. destruct (lookup n m); split; intros H; eauto; try discriminate.
  destruct H; discriminate.
Qed.

Lemma lookup_prune_n : forall f lim el m n e, lookup n (prune_n f lim el m) = Some e -> lookup n m = Some e.
Proof.
  induction f; simpl; intros lim el m n e H; auto.
  destruct (Nat.leb (length m) lim); auto.
  destruct (oldest el m) as [[k l]|]; auto.
  apply IHf in H. now apply lookup_remove_some in H.
Qed.
Lemma lookup_prune_map : forall lim el m n e, lookup n (prune_map lim el m) = Some e -> lookup n m = Some e.
Proof.
  unfold prune_map. intros lim el m n e H.
  destruct (Z.ltb lim 0); auto. destruct (Z.eqb lim 0); [discriminate|].
  eapply lookup_prune_n; eauto.
Qed.
Lemma prune_map_limit0 : forall el m, prune_map 0 el m = [].
Proof. reflexivity. Qed.

Lemma In_remove_tid : forall x t l, In x (remove_tid t l) <-> In x l /\ x <> t.
Proof.
  intros. unfold remove_tid. rewrite filter_In.
  destruct (Nat.eqb_spec x t); simpl; intuition congruence.
Qed.

Lemma In_remove_key : forall k m p, In p (remove_key k m) -> In p m /\ fst p <> k.
Proof.
  induction m as [|[a b] m IH]; simpl; intros p H; [tauto|].
  destruct (Nat.eqb_spec a k); subst.
  - apply IH in H. tauto.
  - destruct H as [H|H]; [subst; simpl; auto|apply IH in H; tauto].
Qed.
Lemma NoDup_remove_key : forall k m, NoDup (map fst m) -> NoDup (map fst (remove_key k m)).
Proof.
  induction m as [|[a b] m IH]; simpl; intros H; auto.
  inversion H; subst. destruct (Nat.eqb a k); auto. simpl. constructor; auto.
  intros Hin. apply in_map_iff in Hin. destruct Hin as (p & Hp & Hin). apply In_remove_key in Hin.
  apply H2. apply in_map_iff. exists p. tauto.
Qed.
Lemma NoDup_set_key : forall k v m, NoDup (map fst m) -> NoDup (map fst (set_key k v m)).
Proof.
  intros. unfold set_key. simpl. constructor; [|now apply NoDup_remove_key].
  intros Hin. apply in_map_iff in Hin. destruct Hin as (p & Hp & Hin). apply In_remove_key in Hin. tauto.
Qed.
Lemma In_lookup : forall n e m, NoDup (map fst m) -> In (n, e) m -> lookup n m = Some e.
Proof.
  induction m as [|[a b] m IH]; simpl; intros Hnd Hin; [tauto|].
  inversion Hnd; subst. destruct Hin as [Hin|Hin].
  - inversion Hin; subst. now rewrite Nat.eqb_refl.
  - destruct (Nat.eqb_spec a n); subst; auto.
    exfalso. apply H1. apply in_map_iff. exists (n, e). auto.
Qed.
Lemma In_snd_lookup : forall e m, NoDup (map fst m) -> In e (map snd m) -> exists n, lookup n m = Some e.
Proof.
  intros e m Hnd Hin. apply in_map_iff in Hin. destruct Hin as ([n x] & Hx & Hin). simpl in Hx; subst.
  exists n. now apply In_lookup.
Qed.
Lemma lookup_In_snd : forall n e m, lookup n m = Some e -> In e (map snd m).
Proof. intros. apply lookup_In in H. apply in_map_iff. exists (n, e). auto. Qed.

(* ------------------------------------------------------------------ *)
(* Commit                                                              *)
(* ------------------------------------------------------------------ *)
Local Arguments commit_one : simpl never.
Lemma lookup_remove_if : forall n k e m x, lookup n (remove_if k e m) = Some x -> lookup n m = Some x.
Proof.
  intros n k e m x H. unfold remove_if in H. destruct (lookup k m) as [e'|]; auto.
  destruct (Nat.eqb e' e); auto. now apply lookup_remove_some in H.
Qed.

Lemma commit_one_frame : forall safe bad st ne,
  nexte (commit_one safe bad st ne) = nexte st /\ mlock (commit_one safe bad st ne) = mlock st /\
  clock (commit_one safe bad st ne) = clock st /\ txs (commit_one safe bad st ne) = txs st.
Proof.
  intros safe bad st [n e]. unfold commit_one. destruct bad, safe; simpl; auto.
  destruct (lookup n (mmap st)) as [cur|]; simpl; auto. destruct (Nat.eqb cur e); simpl; auto.
Qed.
Lemma commit_all_frame : forall safe bad w st,
  nexte (commit_all safe bad st w) = nexte st /\ mlock (commit_all safe bad st w) = mlock st /\
  clock (commit_all safe bad st w) = clock st /\ txs (commit_all safe bad st w) = txs st.
Proof.
  unfold commit_all. induction w as [|ne w IH]; simpl; intros st; auto.
  destruct (IH (commit_one safe bad st ne)) as (a & b & c & d).
  destruct (commit_one_frame safe bad st ne) as (a' & b' & c' & d').
  repeat split; congruence.
Qed.

(* what Commit does to an element: only the lock of the written elements is
   opened; everything else it may change is `scrapped` (never reset) and the
   storage version *)
Definition same_shape (E E' : elem) : Prop :=
  e_name E' = e_name E /\ e_owner E' = e_owner E /\ e_readers E' = e_readers E /\ e_last E' = e_last E /\
  (e_scrapped E = true -> e_scrapped E' = true).
Lemma same_shape_refl : forall E, same_shape E E.
Proof. intros E. repeat split; auto. Qed.
Lemma same_shape_trans : forall A B C, same_shape A B -> same_shape B C -> same_shape A C.
Proof. intros A B C (a & b & c & d & e) (a' & b' & c' & d' & e'). repeat split; try congruence. auto. Qed.

Lemma commit_one_elems : forall safe bad st n x y,
  same_shape (elems st y) (elems (commit_one safe bad st (n, x)) y) /\
  (y = x -> e_writer (elems (commit_one safe bad st (n, x)) y) = None /\
            e_wheld (elems (commit_one safe bad st (n, x)) y) = false) /\
  (y <> x -> e_writer (elems (commit_one safe bad st (n, x)) y) = e_writer (elems st y) /\
             e_wheld (elems (commit_one safe bad st (n, x)) y) = e_wheld (elems st y)).
Proof.
  intros safe bad st n x y. unfold commit_one.
  destruct bad; [|destruct safe; [destruct (lookup n (mmap st)) as [cur|]; [destruct (Nat.eqb_spec cur x)|]|]].
  all: simpl; unfold upd.
  all: repeat match goal with |- context [Nat.eqb ?a ?b] => destruct (Nat.eqb_spec a b); subst end.
  all: simpl; unfold same_shape; simpl; repeat split; auto; try congruence; try tauto.
Qed.

Lemma commit_all_elems : forall safe bad w st e,
  same_shape (elems st e) (elems (commit_all safe bad st w) e) /\
  (In e (map snd w) -> e_writer (elems (commit_all safe bad st w) e) = None /\
                       e_wheld (elems (commit_all safe bad st w) e) = false) /\
  (~ In e (map snd w) -> e_writer (elems (commit_all safe bad st w) e) = e_writer (elems st e) /\
                         e_wheld (elems (commit_all safe bad st w) e) = e_wheld (elems st e)).
Proof.
  unfold commit_all. induction w as [|[n x] w IH]; simpl; intros st e.
  - split; [apply same_shape_refl|]. split; [tauto|auto].
  - destruct (IH (commit_one safe bad st (n, x)) e) as (IH0 & IH1 & IH2).
    destruct (commit_one_elems safe bad st n x e) as (O0 & O1 & O2).
    split; [eapply same_shape_trans; eauto|]. split.
    + intros Hin. destruct (in_dec Nat.eq_dec e (map snd w)) as [Hw|Hw]; [auto|].
      destruct (IH2 Hw) as [a b]. destruct Hin as [Hin|Hin]; [|tauto]. destruct (O1 (eq_sym Hin)). split; congruence.
    + intros Hn. assert (Hw : ~ In e (map snd w)) by tauto. assert (Hx : e <> x) by (intros ->; tauto).
      destruct (IH2 Hw) as [a b]. destruct (O2 Hx) as [c d]. split; congruence.
Qed.

Lemma commit_all_map_sub : forall safe bad w st n e,
  lookup n (mmap (commit_all safe bad st w)) = Some e -> lookup n (mmap st) = Some e.
Proof.
  unfold commit_all. induction w as [|[k x] w IH]; simpl; intros st n e H; auto.
  apply IH in H. unfold commit_one in H. destruct bad, safe; simpl in H; auto.
  - now apply lookup_remove_if in H.
  - now apply lookup_remove_some in H.
  - destruct (lookup k (mmap st)) as [cur|] eqn:El; simpl in H; auto.
    destruct (Nat.eqb cur x); simpl in H; auto. now apply lookup_remove_some in H.
Qed.

Lemma commit_one_untouched : forall safe bad st n x e,
  e <> x -> (forall k, lookup k (mmap st) <> Some e) -> elems (commit_one safe bad st (n, x)) e = elems st e.
Proof.
  intros safe bad st n x e Hx Hr. unfold commit_one.
  destruct bad; [|destruct safe; [destruct (lookup n (mmap st)) as [cur|] eqn:El; [destruct (Nat.eqb_spec cur x)|]|]].
  all: simpl; unfold upd.
  all: repeat match goal with |- context [Nat.eqb ?a ?b] => destruct (Nat.eqb_spec a b); subst end.
  all: auto; try congruence.
  all: exfalso; eapply Hr; eauto.
Qed.
Lemma commit_all_untouched : forall safe bad w st e,
  ~ In e (map snd w) -> (forall k, lookup k (mmap st) <> Some e) ->
  elems (commit_all safe bad st w) e = elems st e.
Proof.
  unfold commit_all. induction w as [|[n x] w IH]; simpl; intros st e Hn Hr; auto.
  rewrite IH.
  - apply commit_one_untouched; auto.
  - tauto.
  - intros k Hk. apply (Hr k). change (commit_one safe bad st (n, x)) with (commit_all safe bad st [(n, x)]) in Hk.
    eapply commit_all_map_sub; eauto.
Qed.

(* ------------------------------------------------------------------ *)
(* references of a phase                                               *)
(* ------------------------------------------------------------------ *)
Definition plock_ref (p : phase) : option eid :=
  match p with PLock _ e | PWait _ e | PScrap _ e _ => Some e | _ => None end.
Definition rl_of (p : phase) : option eid :=
  match p with
  | PScrap _ _ rl => rl
  | PReady _ c | PIn _ c | PErr _ c => c_rl c
  | PRet _ rl _ _ => rl
  | _ => None
  end.
Definition use_of (p : phase) : option (wctx * cctx) :=
  match p with PReady w c | PIn w c | PErr w c => Some (w, c) | _ => None end.
Definition wctx_of (p : phase) : option wctx :=
  match p with
  | PCreate w | PLock w _ | PWait w _ | PScrap w _ _ | PReady w _ | PIn w _ | PErr w _ => Some w
  | _ => None
  end.

(* ------------------------------------------------------------------ *)
(* the step function, case by case                                     *)
(* ------------------------------------------------------------------ *)
Ltac break_step H :=
  unfold step in H;
  repeat match type of H with
         | context [match ?x with _ => _ end] =>
             let E := fresh "E" in destruct x eqn:E; try discriminate H
         | context [if ?x then _ else _] =>
             let E := fresh "E" in destruct x eqn:E; try discriminate H
         end;
  try (injection H as H; subst).

Ltac upd_cases :=
  repeat match goal with
         | |- context [upd _ ?k _ ?x] =>
             unfold upd at 1; let E := fresh "Eu" in destruct (Nat.eqb_spec x k) as [E|E]; [try subst x|]
         | H : context [upd _ ?k _ ?x] |- _ =>
             unfold upd in H at 1; let E := fresh "Eu" in destruct (Nat.eqb_spec x k) as [E|E]; [try subst x|]
         end.

Arguments commit_all : simpl never.

(* ------------------------------------------------------------------ *)
(* Inv0: structural invariants, for both versions of With, any limit,   *)
(* any programs, any schedule (environment steps included)              *)
(* ------------------------------------------------------------------ *)
Record Inv0 (st : state) : Prop := {
  i_a0 : forall e, nexte st <= e -> elems st e = noelem;
  i_a1 : forall n e, lookup n (mmap st) = Some e ->
           e < nexte st /\ e_name (elems st e) = n /\ e_owner (elems st e) = None;
  i_a2 : forall t e, plock_ref (ph (txs st t)) = Some e ->
           e < nexte st /\ (e_owner (elems st e) = None \/ e_owner (elems st e) = Some t) /\
           exists w, wctx_of (ph (txs st t)) = Some w /\ e_name (elems st e) = w_n w;
  i_a3 : forall t w c, use_of (ph (txs st t)) = Some (w, c) ->
           c_e c < nexte st /\ e_name (elems st (c_e c)) = w_n w /\
           (e_owner (elems st (c_e c)) = None \/ e_owner (elems st (c_e c)) = Some t) /\
           (c_sh c = false -> e_owner (elems st (c_e c)) = Some t);
  i_a4 : forall t n e, lookup n (written (txs st t)) = Some e ->
           e < nexte st /\ e_name (elems st e) = n /\
           (e_owner (elems st e) = None \/ e_owner (elems st e) = Some t);
  i_b1 : forall e t, In t (e_readers (elems st e)) -> rl_of (ph (txs st t)) = Some e;
  i_b2 : forall t e, rl_of (ph (txs st t)) = Some e ->
           In t (e_readers (elems st e)) /\ e < nexte st /\
           (e_owner (elems st e) = None \/ e_owner (elems st e) = Some t);
  i_c1 : forall t w e, ph (txs st t) = PWait w e ->
           e_writer (elems st e) = Some t /\ e_wheld (elems st e) = false /\ w_ro w = false;
  i_c2 : forall e t, e_writer (elems st e) = Some t -> e_wheld (elems st e) = false ->
           exists w, ph (txs st t) = PWait w e;
  i_c3 : forall e, e_wheld (elems st e) = true ->
           e_readers (elems st e) = [] /\ e_writer (elems st e) <> None;
  i_c4 : forall t n e, lookup n (written (txs st t)) = Some e -> done (txs st t) = false ->
           e_writer (elems st e) = Some t /\ e_wheld (elems st e) = true;
  i_c5 : forall e t, e_writer (elems st e) = Some t -> e_wheld (elems st e) = true ->
           has_key (e_name (elems st e)) (written (txs st t)) = true;
  i_d1 : forall e o, e_owner (elems st e) = Some o ->
           e_writer (elems st e) = None \/ e_writer (elems st e) = Some o;
  i_m1 : forall t, mlock st = Some t -> exists w, ph (txs st t) = PCreate w;
  i_m2 : forall t w, ph (txs st t) = PCreate w -> mlock st = Some t;
  i_p1 : forall t, ph (txs st t) <> PIdle -> prog (txs st t) <> [];
  i_e1 : forall t w c, use_of (ph (txs st t)) = Some (w, c) -> w_ro w = false -> c_rl c = None;
  i_e2 : forall t w e rl, ph (txs st t) = PScrap w e rl ->
           (w_ro w = false -> rl = None) /\
           (rl = Some e \/ (rl = None /\ has_key (w_n w) (written (txs st t)) = true));
  i_j0 : forall t w c, use_of (ph (txs st t)) = Some (w, c) -> c_sh c = true ->
           c_rl c = Some (c_e c) \/ has_key (w_n w) (written (txs st t)) = true;
  i_nd : forall t, NoDup (map fst (written (txs st t)))
}.

Lemma free_none : forall l, free l = true -> l = None.
Proof. destruct l; simpl; congruence. Qed.
Lemma free_some : forall l, free l = false -> exists t, l = Some t.
Proof. destruct l; simpl; [eauto|congruence]. Qed.

(* saturate the context with the instances of Inv0 for the stepping transaction *)
Ltac inst_phase I t E :=
  let go F := (rewrite E in F; simpl in F) in
  let Fa2 := fresh "Fa2" in pose proof (i_a2 _ I t) as Fa2; go Fa2;
  let Fa3 := fresh "Fa3" in pose proof (i_a3 _ I t) as Fa3; go Fa3;
  let Fb2 := fresh "Fb2" in pose proof (i_b2 _ I t) as Fb2; go Fb2;
  let Fc1 := fresh "Fc1" in pose proof (i_c1 _ I t) as Fc1; go Fc1;
  let Fe1 := fresh "Fe1" in pose proof (i_e1 _ I t) as Fe1; go Fe1;
  let Fe2 := fresh "Fe2" in pose proof (i_e2 _ I t) as Fe2; go Fe2;
  let Fj0 := fresh "Fj0" in pose proof (i_j0 _ I t) as Fj0; go Fj0;
  let Fm2 := fresh "Fm2" in pose proof (i_m2 _ I t) as Fm2; go Fm2;
  let Fp1 := fresh "Fp1" in pose proof (i_p1 _ I t) as Fp1; go Fp1;
  repeat match goal with
         | F : forall e, Some ?x = Some e -> _ |- _ => specialize (F _ eq_refl)
         | F : forall w c, Some (?x, ?y) = Some (w, c) -> _ |- _ => specialize (F _ _ eq_refl)
         | F : forall w e, ?C ?x ?y = ?C w e -> _ |- _ => specialize (F _ _ eq_refl)
         | F : forall w, ?C ?x = ?C w -> _ |- _ => specialize (F _ eq_refl)
         | F : forall w e rl, ?C ?x ?y ?z = ?C w e rl -> _ |- _ => specialize (F _ _ _ eq_refl)
         | F : forall e, None = Some e -> _ |- _ => clear F
         | F : forall w c, None = Some (w, c) -> _ |- _ => clear F
         | F : forall w, PIdle = _ -> _ |- _ => clear F
         | F : ?a <> ?a -> _ |- _ => clear F
         end.

Ltac sat_lookups I :=
  repeat match goal with
         | H : lookup ?n (mmap ?st) = Some ?e |- _ =>
             lazymatch goal with
             | _ : e_name (elems st e) = n |- _ => fail
             | _ => let F := fresh "Fa1" in pose proof (i_a1 _ I _ _ H) as F; destruct F as (? & ? & ?)
             end
         end.

Ltac sat_written I :=
  repeat match goal with
         | H : lookup ?n (written (txs ?st ?t)) = Some ?e |- _ =>
             lazymatch goal with
             | _ : e_name (elems st e) = n |- _ => fail
             | _ => let F := fresh "Fa4" in pose proof (i_a4 _ I _ _ _ H) as F; destruct F as (? & ? & ?)
             end
         end.

Ltac dall :=
  repeat match goal with
         | H : _ /\ _ |- _ => destruct H
         | H : exists _, _ |- _ => destruct H
         | H : Some _ = Some _ |- _ => injection H as H; try subst
         end.
Lemma commit_view : forall st t safe bad, Inv0 st ->
  let W := written (txs st t) in
  let st1 := commit_all safe bad st W in
  (forall e, same_shape (elems st e) (elems st1 e)) /\
  (forall e, (exists n, lookup n W = Some e) ->
             e_writer (elems st1 e) = None /\ e_wheld (elems st1 e) = false) /\
  (forall e, (forall n, lookup n W <> Some e) ->
             e_writer (elems st1 e) = e_writer (elems st e) /\ e_wheld (elems st1 e) = e_wheld (elems st e)) /\
  (forall e, (exists n, lookup n W = Some e) \/ (forall n, lookup n W <> Some e)).
Proof.
  intros st t safe bad I W st1. split; [|split; [|split]]; intros e.
  - apply commit_all_elems.
  - intros [n He]. apply commit_all_elems. eapply lookup_In_snd; eauto.
  - intros He. apply commit_all_elems. intros Hin. apply In_snd_lookup in Hin; [|apply (i_nd _ I)].
    destruct Hin as [n Hn]. eapply He; eauto.
  - destruct (in_dec Nat.eq_dec e (map snd W)) as [Hin|Hin].
    + left. apply In_snd_lookup in Hin; [auto|apply (i_nd _ I)].
    + right. intros n Hn. apply Hin. eapply lookup_In_snd; eauto.
Qed.

Lemma commit_Inv0 : forall st t safe bad, Inv0 st -> ph (txs st t) = PIdle -> done (txs st t) = false ->
  Inv0 (set_tx (commit_all safe bad st (written (txs st t))) t (tx_commit (txs st t))).
Proof.
  intros st t safe bad I Hph Hdone.
  destruct (commit_view st t safe bad I) as (V0 & V1 & V2 & Dec).
  destruct (commit_all_frame safe bad (written (txs st t)) st) as (Fn & Fm & Fc & Ft).
  set (W := written (txs st t)) in *. set (st1 := commit_all safe bad st W) in *.
  assert (Hs : forall e, e_name (elems st1 e) = e_name (elems st e) /\ e_owner (elems st1 e) = e_owner (elems st e) /\
                         e_readers (elems st1 e) = e_readers (elems st e)).
  { intros e. destruct (V0 e) as (a & b & c & _); auto. }
  assert (Hmine : forall e, (exists n, lookup n W = Some e) ->
            e_writer (elems st e) = Some t /\ e_wheld (elems st e) = true /\
            e_writer (elems st1 e) = None /\ e_wheld (elems st1 e) = false).
  { intros e [n D]. destruct (i_c4 _ I t n e D Hdone). destruct (V1 e (ex_intro _ n D)). auto. }
  assert (Hph' : forall t', ph (txs (set_tx st1 t (tx_commit (txs st t))) t') = ph (txs st t')).
  { intros t'. simpl. rewrite Ft. unfold upd. destruct (Nat.eqb_spec t' t); subst; simpl; auto. }
  assert (Hwr' : forall t', written (txs (set_tx st1 t (tx_commit (txs st t))) t') = written (txs st t')).
  { intros t'. simpl. rewrite Ft. unfold upd. destruct (Nat.eqb_spec t' t); subst; simpl; auto. }
  constructor; intros; try rewrite Hph' in *; try rewrite Hwr' in *; simpl elems in *; simpl nexte in *; simpl mmap in *; simpl mlock in *;
    rewrite ?Fn, ?Fm in *.
  - (* a0 *) unfold st1. rewrite commit_all_untouched; [apply (i_a0 _ I); auto| |].
    + intros Hin. apply In_snd_lookup in Hin; [|apply (i_nd _ I)]. destruct Hin as [n D].
      destruct (i_a4 _ I t n e D). lia.
    + intros k Hk. destruct (i_a1 _ I _ _ Hk). lia.
  - apply commit_all_map_sub in H. destruct (Hs e) as (a & b & c). rewrite a, b. apply (i_a1 _ I); auto.
  - destruct (Hs e) as (a & b & c). rewrite a, b. apply (i_a2 _ I); auto.
  - destruct (Hs (c_e c)) as (a & b & d). rewrite a, b. apply (i_a3 _ I); auto.
  - destruct (Hs e) as (a & b & c). rewrite a, b. apply (i_a4 _ I); auto.
  - destruct (Hs e) as (a & b & c). rewrite c in H. apply (i_b1 _ I); auto.
  - destruct (Hs e) as (a & b & c). rewrite b, c. apply (i_b2 _ I); auto.
  - destruct (i_c1 _ I t0 w e H) as (a & b & c). destruct (Dec e) as [D|D].
    + destruct (Hmine e D) as (x & y & _). congruence.
    + destruct (V2 e D) as (x & y). rewrite x, y. auto.
  - destruct (Dec e) as [D|D].
    + destruct (Hmine e D) as (_ & _ & x & _). congruence.
    + destruct (V2 e D) as (x & y). rewrite x in H. rewrite y in H0. apply (i_c2 _ I); auto.
  - destruct (Hs e) as (a & b & c). destruct (Dec e) as [D|D].
    + destruct (Hmine e D) as (_ & _ & _ & x). congruence.
    + destruct (V2 e D) as (x & y). rewrite y in H. rewrite c, x. apply (i_c3 _ I); auto.
  - assert (t0 <> t). { intros ->. simpl in H0. rewrite Ft in H0. unfold upd in H0. rewrite Nat.eqb_refl in H0. simpl in H0. discriminate. }
    assert (Hd : done (txs st t0) = false). { simpl in H0. rewrite Ft in H0. unfold upd in H0. destruct (Nat.eqb_spec t0 t); [congruence|auto]. }
    destruct (i_c4 _ I t0 n e H Hd) as (a & b). destruct (Dec e) as [D|D].
    + destruct (Hmine e D) as (x & _). congruence.
    + destruct (V2 e D) as (x & y). rewrite x, y. auto.
  - destruct (Hs e) as (a & b & c). destruct (Dec e) as [D|D].
    + destruct (Hmine e D) as (_ & _ & x & _). congruence.
    + destruct (V2 e D) as (x & y). rewrite x in H. rewrite y in H0. rewrite a. apply (i_c5 _ I); auto.
  - destruct (Hs e) as (a & b & c). rewrite b in H. destruct (Dec e) as [D|D].
    + destruct (Hmine e D) as (_ & _ & x & _). auto.
    + destruct (V2 e D) as (x & y). rewrite x. apply (i_d1 _ I); auto.
  - apply (i_m1 _ I); auto.
  - apply (i_m2 _ I t0 w); auto.
  - simpl. rewrite Ft. unfold upd. destruct (Nat.eqb_spec t0 t); subst; [congruence|]. apply (i_p1 _ I); auto.
  - apply (i_e1 _ I t0 w c); auto.
  - apply (i_e2 _ I t0 w e rl); auto.
  - apply (i_j0 _ I t0 w c); auto.
  - apply (i_nd _ I).
Qed.

Arguments set_key : simpl never.
Arguments remove_key : simpl never.
Arguments lookup : simpl never.
Arguments has_key : simpl never.
Arguments prune_map : simpl never.
Arguments remove_tid : simpl never.

Ltac step_field I H :=
  break_step H;
  repeat match goal with
         | Hc : (if ?c then _ else None) = Some _ |- _ =>
             let Ec := fresh "Ec" in destruct c eqn:Ec; [|discriminate Hc]
         end;
  try match goal with E3 : written (txs ?st ?t) = _ :: _ |- _ => rewrite <- E3 end;
  match goal with E : ph (txs _ ?t) = _ |- _ => inst_phase I t E end; sat_lookups I; sat_written I; dall.
Ltac commit_case I fld :=
  match goal with
  | E : ph (txs ?st ?t) = PIdle, D : done (txs ?st ?t) = false |- context [commit_all _ ?bad ?st _] =>
      apply (fld _ (commit_Inv0 st t _ bad I E D))
  end.
Ltac map_hyp Hl :=
  try rewrite lookup_set_key in Hl;
  try (apply lookup_remove_some in Hl; destruct Hl as [Hl ?]);
  try (apply lookup_remove_if in Hl);
  try (apply lookup_prune_map in Hl).

Lemma step_a0 : forall fixed safe limit st t st', Inv0 st -> step fixed safe limit st t = Some st' ->
  forall e, nexte st' <= e -> elems st' e = noelem.
Proof.
  intros fixed safe limit st t st' I H. step_field I H.
  all: try (commit_case I i_a0).
  all: simpl; intros; upd_cases; try (apply (i_a0 _ I); simpl in *; lia); try (simpl in *; lia).
Qed.

Lemma step_a1 : forall fixed safe limit st t st', Inv0 st -> step fixed safe limit st t = Some st' ->
  forall n e, lookup n (mmap st') = Some e ->
           e < nexte st' /\ e_name (elems st' e) = n /\ e_owner (elems st' e) = None.
Proof.
  intros fixed safe limit st t st' I H. step_field I H.
  all: try (commit_case I i_a1).
  all: simpl; intros n' e' Hl; map_hyp Hl.
  all: try match type of Hl with (if ?b then _ else _) = _ => destruct b eqn:Eb; [apply Nat.eqb_eq in Eb; inversion Hl; subst|] end.
  all: try (destruct (i_a1 _ I _ _ Hl) as (? & ? & ?)); upd_cases; simpl; auto; try lia.
Qed.

Lemma step_a2 : forall fixed safe limit st t st', Inv0 st -> step fixed safe limit st t = Some st' ->
  forall t' e, plock_ref (ph (txs st' t')) = Some e ->
           e < nexte st' /\ (e_owner (elems st' e) = None \/ e_owner (elems st' e) = Some t') /\
           exists w, wctx_of (ph (txs st' t')) = Some w /\ e_name (elems st' e) = w_n w.
Proof.
  intros fixed safe limit st t st' I H. step_field I H.
  all: try (commit_case I i_a2).
  all: simpl; intros t' e' Hp; upd_cases; simpl in Hp; try discriminate Hp.
  all: try (destruct (i_a2 _ I _ _ Hp) as (A & B & w' & C & D)).
  all: try (injection Hp as Hp; subst).
  all: simpl; upd_cases; simpl; try lia; repeat split; eauto; try lia.
Qed.

Lemma step_a3 : forall fixed safe limit st t st', Inv0 st -> step fixed safe limit st t = Some st' ->
  forall t' w c, use_of (ph (txs st' t')) = Some (w, c) ->
           c_e c < nexte st' /\ e_name (elems st' (c_e c)) = w_n w /\
           (e_owner (elems st' (c_e c)) = None \/ e_owner (elems st' (c_e c)) = Some t') /\
           (c_sh c = false -> e_owner (elems st' (c_e c)) = Some t').
Proof.
  intros fixed safe limit st t st' I H. step_field I H.
  all: try (commit_case I i_a3).
  all: simpl; intros t' w' c' Hp; upd_cases; simpl in Hp; try discriminate Hp.
  all: try (destruct (i_a3 _ I _ _ _ Hp) as (A & B & C & C')).
  all: try (injection Hp as Hp; subst; simpl in * ).
  all: simpl; upd_cases; simpl; try lia; repeat split; eauto; try lia; try congruence; try (exfalso; lia).
  all: try (intros Hsh; specialize (C' Hsh); congruence).
Qed.

Lemma step_a4 : forall fixed safe limit st t st', Inv0 st -> step fixed safe limit st t = Some st' ->
  forall t' n e, lookup n (written (txs st' t')) = Some e ->
           e < nexte st' /\ e_name (elems st' e) = n /\
           (e_owner (elems st' e) = None \/ e_owner (elems st' e) = Some t').
Proof.
  intros fixed safe limit st t st' I H. step_field I H.
  all: try (commit_case I i_a4).
  all: simpl; intros t' n' e' Hp; upd_cases; simpl in Hp; map_hyp Hp.
  all: try match type of Hp with (if ?b then _ else _) = _ => destruct b eqn:Eb; [apply Nat.eqb_eq in Eb; inversion Hp; subst|] end.
  all: try (destruct (i_a4 _ I _ _ _ Hp) as (A & B & C)).
  all: simpl in *; upd_cases; simpl; try lia; repeat split; eauto; try lia; try congruence; try (exfalso; lia).
Qed.

Lemma step_b1 : forall fixed safe limit st t st', Inv0 st -> step fixed safe limit st t = Some st' ->
  forall e t', In t' (e_readers (elems st' e)) -> rl_of (ph (txs st' t')) = Some e.
Proof.
  intros fixed safe limit st t st' I H. step_field I H.
  all: try (commit_case I i_b1).
  all: simpl; intros e' t' Hp; upd_cases; simpl in Hp; try (apply In_remove_tid in Hp; destruct Hp as [Hp ?]).
  all: try match type of Hp with _ \/ _ => destruct Hp as [Hp|Hp]; [try congruence|] end.
  all: try (pose proof (i_b1 _ I _ _ Hp) as A).
  all: try match goal with E : ph (txs ?st ?t) = _, A : context[ph (txs ?st ?t)] |- _ => rewrite E in A; simpl in A end.
  all: simpl in *; upd_cases; simpl; eauto; try congruence; try tauto; try (exfalso; lia).
Qed.

Lemma step_b2 : forall fixed safe limit st t st', Inv0 st -> step fixed safe limit st t = Some st' ->
  forall t' e, rl_of (ph (txs st' t')) = Some e ->
           In t' (e_readers (elems st' e)) /\ e < nexte st' /\
           (e_owner (elems st' e) = None \/ e_owner (elems st' e) = Some t').
Proof.
  intros fixed safe limit st t st' I H. step_field I H.
  all: try (commit_case I i_b2).
  all: simpl; intros t' e' Hp; upd_cases; simpl in Hp; try discriminate Hp.
  all: try (destruct (i_b2 _ I _ _ Hp) as (A & B & C)).
  all: try match goal with Fb2 : forall e, _ = Some e -> _ |- _ => destruct (Fb2 _ Hp) as (A & B & C) end.
  all: try (injection Hp as Hp; subst; simpl in * ).
  all: simpl in *; upd_cases; simpl; try rewrite In_remove_tid; try lia; repeat split; eauto; try lia; try congruence; try tauto; try (exfalso; lia).
Qed.

Lemma step_c1 : forall fixed safe limit st t st', Inv0 st -> step fixed safe limit st t = Some st' ->
  forall t' w e, ph (txs st' t') = PWait w e ->
           e_writer (elems st' e) = Some t' /\ e_wheld (elems st' e) = false /\ w_ro w = false.
Proof.
  intros fixed safe limit st t st' I H. step_field I H.
  all: try (commit_case I i_c1).
  all: simpl; intros t' w' e' Hp; upd_cases; simpl in Hp; try discriminate Hp.
  all: try (destruct (i_c1 _ I _ _ _ Hp) as (A & B & C)).
  all: try match type of Hp with ph (txs ?s ?t') = PWait _ ?e => assert (Hb : e < nexte s) by (apply (i_a2 _ I t'); rewrite Hp; reflexivity) end.
  all: try (injection Hp as Hp; subst; simpl in * ).
  all: simpl in *; upd_cases; simpl; repeat split; eauto; try congruence; try tauto; try (exfalso; lia).
Qed.

Lemma step_c2 : forall fixed safe limit st t st', Inv0 st -> step fixed safe limit st t = Some st' ->
  forall e t', e_writer (elems st' e) = Some t' -> e_wheld (elems st' e) = false ->
           exists w, ph (txs st' t') = PWait w e.
Proof.
  intros fixed safe limit st t st' I H. step_field I H.
  all: try (commit_case I i_c2).
  all: simpl; intros e' t' Hp Hq; upd_cases; simpl in Hp, Hq; try discriminate.
  all: try (destruct (i_c2 _ I _ _ Hp Hq) as (w' & A)).
  all: try match goal with E : ph (txs ?st ?t) = _, A : ph (txs ?st ?t) = _ |- _ => rewrite E in A; try discriminate A; try (injection A as A; subst) end.
  all: try (injection Hp as Hp; subst; simpl in * ).
  all: simpl in *; upd_cases; simpl; eauto; try congruence; try tauto; try (exfalso; lia).
Qed.

Lemma step_c3 : forall fixed safe limit st t st', Inv0 st -> step fixed safe limit st t = Some st' ->
  forall e, e_wheld (elems st' e) = true ->
           e_readers (elems st' e) = [] /\ e_writer (elems st' e) <> None.
Proof.
  intros fixed safe limit st t st' I H. step_field I H.
  all: try (commit_case I i_c3).
  all: simpl; intros e' Hp; upd_cases; simpl in Hp; try discriminate.
  all: try (destruct (i_c3 _ I _ Hp) as (A & B)).
  all: simpl in *; upd_cases; simpl; try split; eauto; try congruence; try tauto; try (exfalso; lia); try (rewrite A; reflexivity).
Qed.

Lemma step_c4 : forall fixed safe limit st t st', Inv0 st -> step fixed safe limit st t = Some st' ->
  forall t' n e, lookup n (written (txs st' t')) = Some e -> done (txs st' t') = false ->
           e_writer (elems st' e) = Some t' /\ e_wheld (elems st' e) = true.
Proof.
  intros fixed safe limit st t st' I H. step_field I H.
  all: try (commit_case I i_c4).
  all: simpl; intros t' n' e' Hp Hq; upd_cases; simpl in Hp, Hq; map_hyp Hp.
  all: try match type of Hp with (if ?b then _ else _) = _ => destruct b eqn:Eb; [apply Nat.eqb_eq in Eb; inversion Hp; subst|] end.
  all: try (destruct (i_c4 _ I _ _ _ Hp Hq) as (A & B)).
  all: try (destruct (i_a4 _ I _ _ _ Hp) as (A4 & B4 & C4)).
  all: simpl in *; upd_cases; simpl; try split; eauto; try congruence; try tauto; try (exfalso; lia).
Qed.

Lemma step_c5 : forall fixed safe limit st t st', Inv0 st -> step fixed safe limit st t = Some st' ->
  forall e t', e_writer (elems st' e) = Some t' -> e_wheld (elems st' e) = true ->
           has_key (e_name (elems st' e)) (written (txs st' t')) = true.
Proof.
  intros fixed safe limit st t st' I H. step_field I H.
  all: try (commit_case I i_c5).
  all: simpl; intros e' t' Hp Hq; upd_cases; simpl in Hp, Hq; try discriminate.
  all: try (pose proof (i_c5 _ I _ _ Hp Hq) as A).
  all: try (injection Hp as Hp; subst; simpl in * ).
  all: simpl in *; upd_cases; simpl; try rewrite has_key_set_key; try rewrite Nat.eqb_refl; eauto; try congruence; try tauto; try (exfalso; lia); try (rewrite A; apply orb_true_r);
       try match goal with Hn : e_name _ = w_n _ |- _ => rewrite Hn, Nat.eqb_refl; reflexivity end.
Qed.

Lemma step_d1 : forall fixed safe limit st t st', Inv0 st -> step fixed safe limit st t = Some st' ->
  forall e o, e_owner (elems st' e) = Some o ->
           e_writer (elems st' e) = None \/ e_writer (elems st' e) = Some o.
Proof.
  intros fixed safe limit st t st' I H. step_field I H.
  all: try (commit_case I i_d1).
  all: simpl; intros e' o Hp; upd_cases; simpl in Hp; try discriminate.
  all: try (pose proof (i_d1 _ I _ _ Hp) as A).
  all: try (injection Hp as Hp; subst; simpl in * ).
  all: simpl in *; upd_cases; simpl; eauto; try congruence; try tauto; try (exfalso; lia).
  all: try (destruct H0 as [H0|H0]; [congruence|right; congruence]).
Qed.

Lemma step_m1 : forall fixed safe limit st t st', Inv0 st -> step fixed safe limit st t = Some st' ->
  forall t', mlock st' = Some t' -> exists w, ph (txs st' t') = PCreate w.
Proof.
  intros fixed safe limit st t st' I H. step_field I H.
  all: try (commit_case I i_m1).
  all: repeat match goal with Hf : free (mlock _) = true |- _ => apply free_none in Hf end.
  all: simpl; intros t' Hp; upd_cases; simpl in Hp; try discriminate; try congruence.
  all: try (destruct (i_m1 _ I _ Hp) as (w' & A)).
  all: try (injection Hp as Hp; subst; simpl in * ).
  all: simpl in *; upd_cases; simpl; eauto; try congruence; try tauto; try (exfalso; lia).
Qed.

Lemma step_m2 : forall fixed safe limit st t st', Inv0 st -> step fixed safe limit st t = Some st' ->
  forall t' w, ph (txs st' t') = PCreate w -> mlock st' = Some t'.
Proof.
  intros fixed safe limit st t st' I H. step_field I H.
  all: try (commit_case I i_m2).
  all: repeat match goal with Hf : free (mlock _) = true |- _ => apply free_none in Hf end.
  all: simpl; intros t' w' Hp; upd_cases; simpl in Hp; try discriminate; try congruence.
  all: try (pose proof (i_m2 _ I _ _ Hp) as A).
  all: simpl in *; upd_cases; simpl; eauto; try congruence; try tauto; try (exfalso; lia).
Qed.

Lemma step_p1 : forall fixed safe limit st t st', Inv0 st -> step fixed safe limit st t = Some st' ->
  forall t', ph (txs st' t') <> PIdle -> prog (txs st' t') <> [].
Proof.
  intros fixed safe limit st t st' I H. step_field I H.
  all: try (commit_case I i_p1).
  all: simpl; intros t' Hp; upd_cases; simpl in *; try congruence.
  all: try (apply (i_p1 _ I); auto).
  all: try (rewrite E; discriminate).
  all: try (rewrite E0; discriminate).
Qed.

Lemma step_e1 : forall fixed safe limit st t st', Inv0 st -> step fixed safe limit st t = Some st' ->
  forall t' w c, use_of (ph (txs st' t')) = Some (w, c) -> w_ro w = false -> c_rl c = None.
Proof.
  intros fixed safe limit st t st' I H. step_field I H.
  all: try (commit_case I i_e1).
  all: simpl; intros t' w' c' Hp Hq; upd_cases; simpl in Hp; try discriminate.
  all: try (pose proof (i_e1 _ I _ _ _ Hp Hq) as A).
  all: try (injection Hp as Hp; subst; simpl in * ).
  all: simpl in *; eauto; try congruence; try tauto.
Qed.

Lemma step_e2 : forall fixed safe limit st t st', Inv0 st -> step fixed safe limit st t = Some st' ->
  forall t' w e rl, ph (txs st' t') = PScrap w e rl ->
           (w_ro w = false -> rl = None) /\
           (rl = Some e \/ (rl = None /\ has_key (w_n w) (written (txs st' t')) = true)).
Proof.
  intros fixed safe limit st t st' I H. step_field I H.
  all: try (commit_case I i_e2).
  all: simpl; intros t' w' e' rl' Hp; upd_cases; simpl in Hp; try discriminate.
  all: try (destruct (i_e2 _ I _ _ _ _ Hp) as (A & B)).
  all: try (injection Hp as Hp; subst; simpl in * ).
  all: simpl in *; try rewrite has_key_set_key; try rewrite Nat.eqb_refl; try split; eauto; try congruence; try tauto.
  all: try (right; split; [reflexivity|]; unfold has_key; rewrite E3; reflexivity).
  all: try (right; split; [reflexivity|]; match goal with Hk : negb _ && has_key _ _ = true |- _ => apply andb_true_iff in Hk; apply Hk end).
Qed.

Lemma step_j0 : forall fixed safe limit st t st', Inv0 st -> step fixed safe limit st t = Some st' ->
  forall t' w c, use_of (ph (txs st' t')) = Some (w, c) -> c_sh c = true ->
           c_rl c = Some (c_e c) \/ has_key (w_n w) (written (txs st' t')) = true.
Proof.
  intros fixed safe limit st t st' I H. step_field I H.
  all: try (commit_case I i_j0).
  all: simpl; intros t' w' c' Hp Hq; upd_cases; simpl in Hp; try discriminate.
  all: try (pose proof (i_j0 _ I _ _ _ Hp Hq) as A).
  all: try (injection Hp as Hp; subst; simpl in * ).
  all: simpl in *; try rewrite has_key_set_key; try rewrite Nat.eqb_refl; eauto; try congruence; try tauto.
Qed.

Lemma step_nd : forall fixed safe limit st t st', Inv0 st -> step fixed safe limit st t = Some st' ->
  forall t', NoDup (map fst (written (txs st' t'))).
Proof.
  intros fixed safe limit st t st' I H. step_field I H.
  all: try (commit_case I i_nd).
  all: simpl; intros t'; upd_cases; simpl; try apply (i_nd _ I).
  all: match goal with |- NoDup (?k :: map fst (remove_key ?k ?m)) => exact (NoDup_set_key k 0 m (i_nd _ I _)) end.
Qed.

Lemma step_Inv0 : forall fixed safe limit st t st', Inv0 st -> step fixed safe limit st t = Some st' -> Inv0 st'.
Proof.
  intros fixed safe limit st t st' I H. constructor.
  - eapply step_a0; eauto.
  - eapply step_a1; eauto.
  - eapply step_a2; eauto.
  - eapply step_a3; eauto.
  - eapply step_a4; eauto.
  - eapply step_b1; eauto.
  - eapply step_b2; eauto.
  - eapply step_c1; eauto.
  - eapply step_c2; eauto.
  - eapply step_c3; eauto.
  - eapply step_c4; eauto.
  - eapply step_c5; eauto.
  - eapply step_d1; eauto.
  - eapply step_m1; eauto.
  - eapply step_m2; eauto.
  - eapply step_p1; eauto.
  - eapply step_e1; eauto.
  - eapply step_e2; eauto.
  - eapply step_j0; eauto.
  - eapply step_nd; eauto.
Qed.

Lemma del_Inv0 : forall st n, Inv0 st -> Inv0 (set_map st (remove_key n (mmap st))).
Proof.
  intros st n I. constructor; simpl; try apply I.
  intros n' e Hl. apply lookup_remove_some in Hl. destruct Hl as [Hl _]. now apply (i_a1 _ I).
Qed.

Lemma lstep_Inv0 : forall fixed safe limit st l st', Inv0 st -> lstep fixed safe limit st l = Some st' -> Inv0 st'.
Proof.
  intros fixed safe limit st [t|n] st' I H; simpl in H.
  - eapply step_Inv0; eauto.
  - destruct (free (mlock st)); [|discriminate]. injection H as <-. now apply del_Inv0.
Qed.
Lemma next_Inv0 : forall fixed safe limit st l, Inv0 st -> Inv0 (next fixed safe limit st l).
Proof.
  intros fixed safe limit st l I. unfold next. destruct (lstep fixed safe limit st l) eqn:E; auto.
  eapply lstep_Inv0; eauto.
Qed.
Lemma run_Inv0 : forall fixed safe limit ls st, Inv0 st -> Inv0 (run fixed safe limit ls st).
Proof. induction ls; simpl; intros st I; auto. apply IHls. now apply next_Inv0. Qed.

Lemma init_tx : forall progs t,
  txs (init progs) t = match nth_error progs t with Some p => mkT p PIdle [] false false [] | None => notx end.
Proof. reflexivity. Qed.
Lemma init_ph : forall progs t, ph (txs (init progs) t) = PIdle.
Proof. intros. rewrite init_tx. destruct (nth_error progs t); reflexivity. Qed.
Lemma init_written : forall progs t, written (txs (init progs) t) = [].
Proof. intros. rewrite init_tx. destruct (nth_error progs t); reflexivity. Qed.

Lemma init_Inv0 : forall progs, Inv0 (init progs).
Proof.
  intros progs. constructor; intros; try rewrite init_ph in *; try rewrite init_written in *;
    simpl in *; try discriminate; try congruence; try tauto; auto.
  constructor.
Qed.

Lemma reachable_Inv0 : forall fixed safe limit st, reachable fixed safe limit st -> Inv0 st.
Proof. intros fixed safe limit st (progs & ls & ->). apply run_Inv0, init_Inv0. Qed.
