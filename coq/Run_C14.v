(* Run_C14.v -- verdicts on cluster scenarios observed by harness/c14.go.

   One case = one scenario: data is placed on the nodes of an OLD server list,
   all nodes are restarted with the NEW list, run 1 = every node's Sync in a
   seeded order with a fault plan, snapshot [c_mid], run 2 = a fault-free Sync
   of every node (any order), snapshot [c_final], read-back of the points of the
   real shards through nodes of the new list.

   Codes: 0 OK; SPECFAIL (judged on the observations and on the owner computed
   here with Model_C13.rv xxh64 on the new list):
     101 an item of the initial placement exists on no node with identical bytes
         (in the snapshot after run 1 or after run 2): loss
     102 after the fault-free re-sync an item is not on its owner byte-identical
         (absent, partial or different)
     103 an item is still on a non-owner whose fault-free Sync reported success
     104 a copy kept by a non-owner differs from the original (a source copy may
         only be deleted, never changed)
     105 read-back of the stored points through a node failed or differs
     106 a fault-free Sync returned an error
   MISMATCH: 201 a snapshot or a Sync result differs from the model's
   (Model_C14.sync_all with the repaired receiver, files as one token per chunk). *)
From Coq Require Import List NArith Bool Arith.
From Semadb Require Import Bytes Pack Model_C13 Model_C14.
Import ListNotations.
Open Scope N_scope.

Definition first_fail (l : list (bool * N)) : N :=
  fold_right (fun (p : bool * N) acc => if fst p then acc else snd p) 0 l.

(* ---- files as tokens: (file id, chunk index) ---- *)
Definition tok := (N * N)%type.
Definition tfile := list tok.
Definition thash (l : tfile) : option tfile := Some l.
Definition th_dec : forall a b : option tfile, {a = b} + {a <> b}.
Proof. repeat decide equality. Defined.

Record finfo := mkFI { fi_path : path; fi_size : N; fi_hash : N }.
Record nobs := mkObs { ob_node : node; ob_recs : list (key * value); ob_files : list (path * N * N) }.
(* one node's Sync in run 1: destinations that are down (nothing reaches them),
   file faults (destination, chunk index k, mode): mode 0 = the receiver fails /
   dies when chunk k arrives; mode 1 = the sender is killed when the receiver sees
   chunk k, the receiver still processes it; crash = the node dies between the
   phases; ok = observed result: 1 nil, 0 error, 2 not observed (killed) *)
Record nstep := mkStep { sp_node : node; sp_down : list node; sp_faults : list (node * N * N);
                         sp_crash : bool; sp_ok : N }.

Record c14case := mkCase {
  c_chunk : N;
  c_servers : list bytes;
  c_files : list finfo;
  c_init : list (node * list (key * value) * list N);
  c_run1 : list nstep;
  c_mid : list nobs;
  c_run2 : list (node * bool);
  c_final : list nobs;
  c_readback : list N
}.

(* routing: Model_C14.own_r / own_f (Model_C13.rv xxh64 on the new server list) *)

(* ---- equality tests ---- *)
Definition path_eqb (a b : path) : bool :=
  lbeq (fst (fst a)) (fst (fst b)) && lbeq (snd (fst a)) (snd (fst b)) && lbeq (snd a) (snd b).
Definition mem_node (n : node) (l : list node) : bool := existsb (lbeq n) l.

(* ---- tokens ---- *)
Definition nchunks (chunk size : N) : N := (size + chunk - 1) / chunk.
Fixpoint seqN (from : N) (n : nat) : list N :=
  match n with O => [] | S k => from :: seqN (from + 1) k end.
Definition tokens (chunk : N) (id size : N) : tfile :=
  map (fun j => (id, j)) (seqN 0 (N.to_nat (nchunks chunk size))).
Definition finfo_at (fs : list finfo) (id : N) : finfo := nth (N.to_nat id) fs (mkFI ([], [], []) 0 0).
Definition tok_size (chunk : N) (fs : list finfo) (t : tok) : N :=
  let sz := fi_size (finfo_at fs (fst t)) in
  N.min chunk (sz - snd t * chunk).
Fixpoint tfile_eqb (a b : tfile) : bool :=
  match a, b with
  | [], [] => true
  | (i, j) :: a', (i', j') :: b' => (i =? i') && (j =? j') && tfile_eqb a' b'
  | _, _ => false
  end.
(* (size, Some hash) of a complete original, (size, None) of anything else *)
Definition expect_file (chunk : N) (fs : list finfo) (t : tfile) : N * option N :=
  let size := fold_right (fun x acc => tok_size chunk fs x + acc) 0 t in
  match t with
  | (i, _) :: _ => if tfile_eqb t (tokens chunk i (fi_size (finfo_at fs i)))
                   then (size, Some (fi_hash (finfo_at fs i))) else (size, None)
  | [] => (size, None)
  end.

(* ---- the model run ---- *)
Definition init_state (c : c14case) : state tok :=
  mk_state (map (fun e : node * list (key * value) * list N =>
                   (fst (fst e),
                    mkN (snd (fst e))
                        (map (fun id => (fi_path (finfo_at (c_files c) id),
                                         tokens (c_chunk c) id (fi_size (finfo_at (c_files c) id)))) (snd e))))
                (c_init c)).

Fixpoint find_fault (d : node) (l : list (node * N * N)) : option (N * N) :=
  match l with
  | [] => None
  | (n, k, m) :: r => if lbeq n d then Some (k, m) else find_fault d r
  end.
(* number of RPCs of the file at path p: chunks + 1 *)
Fixpoint nrpc_of (chunk : N) (fs : list finfo) (p : path) : N :=
  match fs with
  | [] => 0
  | f :: r => if path_eqb (fi_path f) p then nchunks chunk (fi_size f) + 1 else nrpc_of chunk r p
  end.
Definition step_fault (c : c14case) (s : nstep) : nfault :=
  mkF (fun d => if mem_node d (sp_down s) then RFailSend else RNone)
      (fun p => if mem_node (own_f (c_servers c) p) (sp_down s) then Some O
                else match find_fault (own_f (c_servers c) p) (sp_faults s) with
                     | Some (k, m) =>
                         if k <? nrpc_of (c_chunk c) (c_files c) p
                         then Some (N.to_nat (if m =? 0 then k else k + 1)) else None
                     | None => None
                     end)
      (sp_crash s).

Definition model_run (c : c14case) : (state tok * list bool) * (state tok * list bool) :=
  let sa := sync_all th_dec thash None 1 (own_r (c_servers c)) (own_f (c_servers c)) true in
  let r1 := sa (map (fun s => (sp_node s, step_fault c s)) (c_run1 c)) (init_state c) in
  let r2 := sa (fault_free (map fst (c_run2 c))) (fst r1) in
  (r1, r2).

(* ---- comparison of a snapshot with a model state ---- *)
Definition rec_eqb (a b : key * value) : bool := lbeq (fst a) (fst b) && lbeq (snd a) (snd b).
Definition file_matches (c : c14case) (m : path * tfile) (o : path * N * N) : bool :=
  let '(size, h) := expect_file (c_chunk c) (c_files c) (snd m) in
  path_eqb (fst m) (fst (fst o)) && (size =? snd (fst o)) &&
  match h with Some x => x =? snd o | None => true end.
Definition same_set {X Y} (f : X -> Y -> bool) (xs : list X) (ys : list Y) : bool :=
  (length xs =? length ys)%nat &&
  forallb (fun x => existsb (f x) ys) xs && forallb (fun y => existsb (fun x => f x y) xs) ys.
Definition snapshot_ok (c : c14case) (st : state tok) (obs : list nobs) : bool :=
  forallb (fun o => same_set rec_eqb (recs (st (ob_node o))) (ob_recs o) &&
                    same_set (file_matches c) (files (st (ob_node o))) (ob_files o)) obs.
Fixpoint oks_match (model : list bool) (obs : list N) : bool :=
  match model, obs with
  | [], [] => true
  | m :: model', o :: obs' => ((o =? 2) || Bool.eqb m (o =? 1)) && oks_match model' obs'
  | _, _ => false
  end.
Fixpoint bools_eqb (a b : list bool) : bool :=
  match a, b with
  | [], [] => true
  | x :: a', y :: b' => Bool.eqb x y && bools_eqb a' b'
  | _, _ => false
  end.

(* ---- the property on the observations ---- *)
Definition init_recs (c : c14case) : list (key * value) := flat_map (fun e => snd (fst e)) (c_init c).
Definition init_files (c : c14case) : list finfo := map (finfo_at (c_files c)) (flat_map (fun e => snd e) (c_init c)).

Definition file_same (f : finfo) (o : path * N * N) : bool :=
  path_eqb (fi_path f) (fst (fst o)) && (fi_size f =? snd (fst o)) && (fi_hash f =? snd o).
Definition rec_somewhere (obs : list nobs) (kv : key * value) : bool :=
  existsb (fun o => existsb (rec_eqb kv) (ob_recs o)) obs.
Definition file_somewhere (obs : list nobs) (f : finfo) : bool :=
  existsb (fun o => existsb (file_same f) (ob_files o)) obs.
Definition no_loss_b (c : c14case) (obs : list nobs) : bool :=
  forallb (rec_somewhere obs) (init_recs c) && forallb (file_somewhere obs) (init_files c).

Definition obs_of (obs : list nobs) (n : node) : nobs :=
  match find (fun o => lbeq (ob_node o) n) obs with Some o => o | None => mkObs n [] [] end.
Definition on_owner_b (c : c14case) (obs : list nobs) : bool :=
  forallb (fun kv => existsb (rec_eqb kv) (ob_recs (obs_of obs (own_r (c_servers c) (fst kv))))) (init_recs c) &&
  forallb (fun f => existsb (file_same f) (ob_files (obs_of obs (own_f (c_servers c) (fi_path f))))) (init_files c).
Definition sync_ok_of (c : c14case) (n : node) : bool :=
  existsb (fun e : node * bool => lbeq (fst e) n && snd e) (c_run2 c).
(* no item key/path on a non-owner whose run-2 Sync reported success *)
Definition nowhere_else_b (c : c14case) (obs : list nobs) : bool :=
  forallb (fun o =>
    negb (sync_ok_of c (ob_node o)) ||
    (forallb (fun kv : key * value =>
                lbeq (own_r (c_servers c) (fst kv)) (ob_node o) ||
                negb (existsb (fun x => lbeq (fst x) (fst kv)) (init_recs c))) (ob_recs o) &&
     forallb (fun f : path * N * N =>
                lbeq (own_f (c_servers c) (fst (fst f))) (ob_node o) ||
                negb (existsb (fun x => path_eqb (fi_path x) (fst (fst f))) (init_files c))) (ob_files o))) obs.
(* copies on non-owners are unchanged originals *)
Definition sources_intact_b (c : c14case) (obs : list nobs) : bool :=
  forallb (fun o =>
    forallb (fun kv : key * value =>
               lbeq (own_r (c_servers c) (fst kv)) (ob_node o) ||
               forallb (fun x => negb (lbeq (fst x) (fst kv)) || lbeq (snd x) (snd kv)) (init_recs c)) (ob_recs o) &&
    forallb (fun f : path * N * N =>
               lbeq (own_f (c_servers c) (fst (fst f))) (ob_node o) ||
               forallb (fun x => negb (path_eqb (fi_path x) (fst (fst f))) || file_same x f) (init_files c)) (ob_files o)) obs.

Definition verdict (c : c14case) : N :=
  let '((st1, oks1), (st2, oks2)) := model_run c in
  first_fail
    [ (no_loss_b c (c_mid c) && no_loss_b c (c_final c), 101);
      (on_owner_b c (c_final c), 102);
      (nowhere_else_b c (c_final c), 103);
      (sources_intact_b c (c_mid c) && sources_intact_b c (c_final c), 104);
      (forallb (fun x => x =? 0) (c_readback c), 105);
      (forallb (fun e : node * bool => snd e) (c_run2 c), 106);
      (snapshot_ok c st1 (c_mid c) && snapshot_ok c st2 (c_final c) &&
       oks_match oks1 (map sp_ok (c_run1 c)) && bools_eqb oks2 (map snd (c_run2 c)), 201) ].

Fixpoint bad_from (i : N) (cs : list c14case) : list (N * N) :=
  match cs with
  | [] => []
  | c :: r => let v := verdict c in
              if v =? 0 then bad_from (i + 1) r else (i, v) :: bad_from (i + 1) r
  end.
Definition bad (cs : list c14case) : list (N * N) := bad_from 0 cs.
