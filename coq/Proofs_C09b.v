(* Proofs_C09b.v -- more lemmas for property C09 (model: Model_C09.v): a search run start-to-end while
   the writer is stopped inside its write transaction (the forced schedules of harness/c09forced.go),
   and the seeded defect "the writer releases the cache lock before the storage commit". *)
From Coq Require Import List NArith ZArith Arith Bool Lia.
From Semadb Require Import Bytes Value Obs Model_C01 Model_C09 Proofs_C09.
Import ListNotations.
Open Scope nat_scope.

(* ------------------------------------------------------------------ small facts *)
Lemma upd_nth_twice {A} n (x y : A) l : upd_nth n x (upd_nth n y l) = upd_nth n x l.
Proof. revert n; induction l as [|z l IH]; intros [|n]; simpl; auto. f_equal. apply IH. Qed.

Lemma run_repeat_S cfg t n st : run cfg (repeat t (S n)) st = run cfg (repeat t n) (exec cfg st t).
Proof. reflexivity. Qed.

Lemma exec_reader cfg st r ph st' :
  st_crashed st = false -> nth_error (st_rs st) r = Some ph -> step_reader cfg st r ph = Some st' ->
  exec cfg st (TReader r) = st'.
Proof. intros Hc Hn Hs. unfold exec, step. rewrite Hc, Hn, Hs. reflexivity. Qed.

(* a finished reader does not move any more *)
Lemma run_reader_done cfg st r s o n :
  nth_error (st_rs st) r = Some (RDone s o) -> run cfg (repeat (TReader r) n) st = st.
Proof.
  intros Hn. induction n as [|n IH]; [reflexivity|]. rewrite run_repeat_S.
  assert (E : exec cfg st (TReader r) = st).
  { unfold exec, step. destruct (st_crashed st); [reflexivity|]. rewrite Hn. reflexivity. }
  rewrite E. exact IH.
Qed.

(* ------------------------------------------------------------------ a search on a private coherent cache *)
(* the state after reader r has finished with outcome o on snapshot s, nothing else touched; a failing
   search callback (FailOther) scraps the cache: the manager entry is deleted *)
Definition search_done (st : state) (r : nat) (s : snapshot) (o : outcome) : state :=
  mkState (st_hist st) (st_cur st) (st_heap st)
          (match o with FailOther => None | _ => st_mgr st end)
          (st_wph st) (st_todo st) (upd_nth r (RDone s o) (st_rs st)) false.

Lemma handle_own cfg st r s cr p :
  nth_error (st_rs st) r = Some (RUse s cr p) -> handle_index cfg st (HReader r) = Some (cfg_index cfg (snd s)).
Proof. intros Hn. unfold handle_index. rewrite Hn. reflexivity. Qed.

(* one PGet step on a private cache that is coherent with the reader's own snapshot and carries its own handle *)
Lemma private_get_step cfg st r s c k cont :
  nth_error (st_rs st) r = Some (RUse s (Private c) (PGet k cont)) ->
  c_handle c = HReader r -> coherent cfg (snd s) c ->
  exists c', step_reader cfg st r (RUse s (Private c) (PGet k cont)) =
               Some (set_reader st r (RUse s (Private c') (cont (idx_get (cfg_index cfg (snd s)) k)))) /\
             c_handle c' = HReader r /\ coherent cfg (snd s) c'.
Proof.
  intros Hn Hh Hco. unfold step_reader, get_cache.
  destruct (idx_get (c_items c) k) as [e|] eqn:Ei.
  - exists c. destruct Hco as [H1 H2]. rewrite (H1 _ _ Ei). split; [reflexivity|]. split; [exact Hh|split; assumption].
  - rewrite Hh, (handle_own cfg st r s _ _ Hn).
    destruct (idx_get (cfg_index cfg (snd s)) k) as [e|] eqn:Ek.
    + exists (mkCache ((k, e) :: c_items c) (c_all c) (c_handle c)). split; [rewrite Hh; reflexivity|].
      split; [exact Hh|]. apply coherent_get; assumption.
    + exists c. split; [reflexivity|]. split; assumption.
Qed.

Lemma private_scan_step cfg st r s c cont :
  nth_error (st_rs st) r = Some (RUse s (Private c) (PScan cont)) ->
  c_handle c = HReader r -> coherent cfg (snd s) c ->
  exists c', step_reader cfg st r (RUse s (Private c) (PScan cont)) =
               Some (set_reader st r (RUse s (Private c')
                                           (cont (scan_result (idx_get (cfg_index cfg (snd s))) (cfg_keys cfg))))) /\
             c_handle c' = HReader r /\ coherent cfg (snd s) c'.
Proof.
  intros Hn Hh Hco. unfold step_reader, get_cache.
  destruct (c_all c) eqn:Ea.
  - exists c. split; [|split; assumption].
    assert (E : scan_result (idx_get (c_items c)) (cfg_keys cfg) =
                scan_result (idx_get (cfg_index cfg (snd s))) (cfg_keys cfg)).
    { apply scan_result_ext. intros k Hk. destruct Hco as [_ H2]. apply H2; assumption. }
    rewrite E. reflexivity.
  - rewrite Hh, (handle_own cfg st r s _ _ Hn).
    assert (E : scan_result (scan_view c (cfg_index cfg (snd s))) (cfg_keys cfg) =
                scan_result (idx_get (cfg_index cfg (snd s))) (cfg_keys cfg)).
    { apply scan_result_ext. intros k _. apply scan_view_coherent. exact Hco. }
    exists (mkCache (scan_result (scan_view c (cfg_index cfg (snd s))) (cfg_keys cfg) ++ c_items c) true (c_handle c)).
    split; [rewrite <- E, Hh; reflexivity|]. split; [exact Hh|]. apply coherent_scan. exact Hco.
Qed.

(* the whole search: whatever program, it ends with the sequential answer on the reader's own snapshot and
   touches nothing but the reader's phase (and, when the program fails, the manager entry) *)
Lemma private_search cfg r s p :
  forall st c,
    st_crashed st = false -> nth_error (st_rs st) r = Some (RUse s (Private c) p) ->
    c_handle c = HReader r -> coherent cfg (snd s) c ->
    exists n, run cfg (repeat (TReader r) n) st = search_done st r s (answer cfg p (snd s)).
Proof.
  induction p as [nodes| |k cont IH|cont IH]; intros st c Hcr Hn Hh Hco.
  - exists 2. rewrite !run_repeat_S.
    rewrite (exec_reader cfg st r _ (set_reader st r (RLookup s nodes)) Hcr Hn eq_refl).
    assert (Hl : r < length (st_rs st)) by (eapply nth_error_lt; eauto).
    erewrite (exec_reader cfg (set_reader st r (RLookup s nodes)) r (RLookup s nodes));
      [|exact Hcr|simpl; apply nth_upd_eq; exact Hl|reflexivity].
    unfold answer, search_done, set_reader. simpl. rewrite upd_nth_twice, Hcr.
    destruct (lookup_all (snd s) nodes); reflexivity.
  - exists 1. rewrite run_repeat_S.
    rewrite (exec_reader cfg st r _ (fail_search st r s FailOther) Hcr Hn eq_refl).
    unfold answer, search_done, fail_search, set_reader, set_mgr. simpl. rewrite Hcr. reflexivity.
  - destruct (private_get_step cfg st r s c k cont Hn Hh Hco) as (c' & Es & Hh' & Hco').
    assert (Hl : r < length (st_rs st)) by (eapply nth_error_lt; eauto).
    destruct (IH (idx_get (cfg_index cfg (snd s)) k)
                 (set_reader st r (RUse s (Private c') (cont (idx_get (cfg_index cfg (snd s)) k)))) c' Hcr
                 (nth_upd_eq r _ (st_rs st) Hl) Hh' Hco') as [n Hrun].
    exists (S n). rewrite run_repeat_S, (exec_reader cfg st r _ _ Hcr Hn Es), Hrun.
    unfold search_done, set_reader. simpl. rewrite upd_nth_twice. reflexivity.
  - destruct (private_scan_step cfg st r s c cont Hn Hh Hco) as (c' & Es & Hh' & Hco').
    assert (Hl : r < length (st_rs st)) by (eapply nth_error_lt; eauto).
    destruct (IH (scan_result (idx_get (cfg_index cfg (snd s))) (cfg_keys cfg))
                 (set_reader st r (RUse s (Private c')
                                        (cont (scan_result (idx_get (cfg_index cfg (snd s))) (cfg_keys cfg))))) c' Hcr
                 (nth_upd_eq r _ (st_rs st) Hl) Hh' Hco') as [n Hrun].
    exists (S n). rewrite run_repeat_S, (exec_reader cfg st r _ _ Hcr Hn Es), Hrun.
    unfold search_done, set_reader. simpl. rewrite upd_nth_twice. reflexivity.
Qed.

(* ------------------------------------------------------------------ c09_inside_write_window *)
Lemma inside_write_window cfg st cid nx r p :
  st_crashed st = false ->
  st_wph st = WInTx cid nx -> st_mgr st = Some cid ->
  nth_error (st_rs st) r = Some (RIdle p) ->
  exists n0, forall n, n0 <= n ->
    let st' := run cfg (repeat (TReader r) n) st in
    nth_error (st_rs st') r = Some (RDone (cur_snapshot st) (answer cfg p (st_cur st))) /\
    st_crashed st' = false /\
    st_heap st' = st_heap st /\ st_hist st' = st_hist st /\ st_cur st' = st_cur st /\
    st_wph st' = st_wph st /\ st_todo st' = st_todo st /\
    (forall r', r' <> r -> nth_error (st_rs st') r' = nth_error (st_rs st) r') /\
    st_mgr st' = match answer cfg p (st_cur st) with FailOther => None | _ => Some cid end.
Proof.
  intros Hcr Hw Hm Hn.
  assert (Hl : r < length (st_rs st)) by (eapply nth_error_lt; eauto).
  set (s := cur_snapshot st).
  set (st1 := set_reader st r (RBegun s p)).
  set (st2 := set_reader st1 r (RUse s (Private (empty_cache (HReader r))) p)).
  assert (Hn1 : nth_error (st_rs st1) r = Some (RBegun s p)) by (simpl; apply nth_upd_eq; exact Hl).
  assert (Hl1 : r < length (st_rs st1)) by (eapply nth_error_lt; eauto).
  assert (E2 : step_reader cfg st1 r (RBegun s p) = Some st2).
  { simpl. rewrite Hm. unfold wheld. simpl. rewrite Hw, Nat.eqb_refl. reflexivity. }
  destruct (private_search cfg r s p st2 (empty_cache (HReader r)) Hcr
              (nth_upd_eq r _ (st_rs st1) Hl1) eq_refl (coherent_empty cfg (snd s) (HReader r))) as [n Hrun].
  exists (S (S n)). intros m Hle. replace m with (S (S n) + (m - S (S n))) by lia.
  rewrite repeat_app, run_app, !run_repeat_S.
  rewrite (exec_reader cfg st r _ st1 Hcr Hn eq_refl), (exec_reader cfg st1 r _ st2 Hcr Hn1 E2), Hrun.
  assert (Hd : nth_error (st_rs (search_done st2 r s (answer cfg p (snd s)))) r =
               Some (RDone s (answer cfg p (snd s)))).
  { simpl. apply nth_upd_eq. rewrite !upd_nth_length. exact Hl. }
  rewrite (run_reader_done cfg _ r _ _ _ Hd). cbv zeta.
  split; [exact Hd|]. unfold search_done, st2, st1, set_reader. simpl.
  repeat (split; [reflexivity|]). split.
  - intros r' Hne. rewrite !nth_upd_neq by congruence. reflexivity.
  - rewrite Hm. reflexivity.
Qed.

(* ------------------------------------------------------------------ uncommitted content only under the write lock *)
(* where a cached item comes from: the index of a committed version -- or, for the cache object the writer
   has write-locked inside its transaction, the index of the version it is about to commit *)
Definition item_src (cfg : config) (st : state) (cid : nat) (k : key) (e : entry) : Prop :=
  (exists ps, In ps (committed st) /\ idx_get (cfg_index cfg ps) k = Some e) \/
  (exists nx, st_wph st = WInTx cid (Some nx) /\ idx_get (cfg_index cfg nx) k = Some e).
Definition inv_items (cfg : config) (st : state) : Prop :=
  forall cid c k e, nth_error (st_heap st) cid = Some c -> idx_get (c_items c) k = Some e -> item_src cfg st cid k e.

Lemma item_src_frame cfg st st' cid k e :
  st_hist st' = st_hist st -> st_cur st' = st_cur st -> st_wph st' = st_wph st ->
  item_src cfg st cid k e -> item_src cfg st' cid k e.
Proof. unfold item_src, committed. intros -> -> ->. auto. Qed.

Lemma inv_items_same cfg st st' :
  st_hist st' = st_hist st -> st_cur st' = st_cur st -> st_wph st' = st_wph st -> st_heap st' = st_heap st ->
  inv_items cfg st -> inv_items cfg st'.
Proof.
  intros H1 H2 H3 H4 I cid c k e Hc He. rewrite H4 in Hc. eapply item_src_frame; eauto.
Qed.

Definition from_committed (cfg : config) (st : state) (k : key) (e : entry) : Prop :=
  exists ps, In ps (committed st) /\ idx_get (cfg_index cfg ps) k = Some e.

Lemma inv_items_upd cfg st st' cid0 c0 c' :
  st_hist st' = st_hist st -> st_cur st' = st_cur st -> st_wph st' = st_wph st ->
  st_heap st' = upd_nth cid0 c' (st_heap st) -> nth_error (st_heap st) cid0 = Some c0 ->
  (forall k e, idx_get (c_items c') k = Some e -> idx_get (c_items c0) k = Some e \/ from_committed cfg st k e) ->
  inv_items cfg st -> inv_items cfg st'.
Proof.
  intros H1 H2 H3 H4 H0 Hsub I cid c k e Hc He. rewrite H4 in Hc.
  apply (item_src_frame cfg st st'); auto.
  apply nth_upd_some in Hc. destruct Hc as [[<- ->]|[_ Hc]].
  - destruct (Hsub _ _ He) as [Ho|Hf]; [eapply I; eauto|left; exact Hf].
  - eapply I; eauto.
Qed.

Lemma inv_items_app cfg st st' c' :
  st_hist st' = st_hist st -> st_cur st' = st_cur st -> st_wph st' = st_wph st ->
  st_heap st' = st_heap st ++ [c'] -> c_items c' = [] ->
  inv_items cfg st -> inv_items cfg st'.
Proof.
  intros H1 H2 H3 H4 Hnil I cid c k e Hc He. rewrite H4 in Hc.
  apply (item_src_frame cfg st st'); auto.
  destruct (Nat.lt_ge_cases cid (length (st_heap st))) as [Hlt|Hge].
  - rewrite nth_error_app1 in Hc by exact Hlt. eapply I; eauto.
  - rewrite nth_error_app2 in Hc by exact Hge. destruct (cid - length (st_heap st)) as [|[|j]]; simpl in Hc; try discriminate.
    injection Hc as <-. rewrite Hnil in He. discriminate.
Qed.

Lemma inv_items_put cfg st r s cr c c' p :
  get_cache st cr = Some c ->
  (forall k e, idx_get (c_items c') k = Some e -> idx_get (c_items c) k = Some e \/ from_committed cfg st k e) ->
  inv_items cfg st -> inv_items cfg (put_cache st r s cr c' p).
Proof.
  intros Hg Hsub I. destruct cr as [cid|pc]; simpl in *.
  - eapply (inv_items_upd cfg st _ cid c c'); eauto.
  - eapply inv_items_same; eauto.
Qed.

Lemma handle_committed cfg st h ih :
  inv_snap st -> handle_index cfg st h = Some ih -> exists ps, In ps (committed st) /\ ih = cfg_index cfg ps.
Proof.
  intros Is H. destruct h as [r|]; simpl in H; [|discriminate].
  destruct (nth_error (st_rs st) r) as [ph|] eqn:En; [|discriminate].
  destruct (in_flight ph) as [s|] eqn:Ef; [|discriminate]. injection H as <-.
  exists (snd s). split; [|reflexivity]. destruct (Is r ph En) as [A _].
  eapply nth_error_In. apply A. destruct ph; simpl in *; congruence.
Qed.

Lemma step_reader_inv_items cfg st r ph st' :
  step_reader cfg st r ph = Some st' -> inv_snap st -> inv_items cfg st -> inv_items cfg st'.
Proof.
  intros H Is I. destruct ph as [p|s p|s cr p|s nodes|s o]; simpl in H.
  - injection H as <-. eapply inv_items_same; eauto.
  - destruct (st_mgr st) as [cid|] eqn:Em.
    + destruct (wheld st cid).
      * injection H as <-. eapply inv_items_same; eauto.
      * destruct (nth_error (st_heap st) cid) as [c|] eqn:Eh; [|discriminate]. injection H as <-.
        eapply (inv_items_upd cfg st _ cid c (mkCache (c_items c) (c_all c) (HReader r))); eauto.
    + injection H as <-. eapply (inv_items_app cfg st _ (empty_cache (HReader r))); eauto.
  - destruct (get_cache st cr) as [c|] eqn:Eg; [|discriminate].
    assert (Hid : forall k e, idx_get (c_items c) k = Some e -> idx_get (c_items c) k = Some e \/ from_committed cfg st k e)
      by auto.
    destruct p as [nodes| |k cont|cont].
    + injection H as <-. eapply inv_items_same; eauto.
    + injection H as <-. eapply inv_items_same; eauto.
    + destruct (idx_get (c_items c) k) as [e|] eqn:Ei.
      * injection H as <-. eapply inv_items_put; eauto.
      * destruct (handle_index cfg st (c_handle c)) as [ih|] eqn:Eh.
        { destruct (handle_committed cfg st _ _ Is Eh) as (ps & Hin & ->).
          destruct (idx_get (cfg_index cfg ps) k) as [e|] eqn:Ek; injection H as <-.
          - eapply inv_items_put; eauto. simpl. intros k' e'. destruct (N.eqb k' k) eqn:E; auto.
            apply N.eqb_eq in E. subst k'. intros Hx. injection Hx as <-. right. exists ps. auto.
          - eapply inv_items_put; eauto. }
        { destruct (cfg_guarded cfg); injection H as <-.
          - eapply inv_items_put; eauto.
          - eapply inv_items_same; eauto. }
    + destruct (c_all c).
      * injection H as <-. eapply inv_items_put; eauto.
      * destruct (handle_index cfg st (c_handle c)) as [ih|] eqn:Eh.
        { destruct (handle_committed cfg st _ _ Is Eh) as (ps & Hin & ->). injection H as <-.
          eapply inv_items_put; eauto. simpl. intros k e. rewrite idx_get_app, idx_get_scan.
          destruct (existsb (N.eqb k) (cfg_keys cfg)); auto.
          destruct (idx_get (c_items c) k) as [e0|] eqn:Ei; auto.
          destruct (idx_get (cfg_index cfg ps) k) as [e1|] eqn:Ek; auto.
          intros Hx. injection Hx as <-. right. exists ps. auto. }
        { destruct (cfg_guarded cfg); injection H as <-; eapply inv_items_same; eauto. }
  - injection H as <-. eapply inv_items_same; eauto.
  - discriminate.
Qed.

(* what the writer's in-place update puts into a cache: old items or items of the next version *)
Lemma w_update_src old new c k e :
  idx_get (c_items (w_update old new c)) k = Some e -> idx_get (c_items c) k = Some e \/ idx_get new k = Some e.
Proof. rewrite get_w_update. destruct (changed old new k); auto. Qed.

Lemma step_writer_inv_items cfg st st' :
  step_writer cfg st = Some st' -> inv_items cfg st -> inv_items cfg st'.
Proof.
  unfold step_writer. intros H I. destruct (st_wph st) as [|cw nx|cw ok] eqn:Ew.
  - destruct (st_todo st) as [|b rest]; [discriminate|].
    assert (Hold : forall cid c k e, nth_error (st_heap st) cid = Some c -> idx_get (c_items c) k = Some e ->
                                     from_committed cfg st k e).
    { intros cid c k e Hc He. destruct (I cid c k e Hc He) as [Hl|(nx & Hx & _)]; [exact Hl|congruence]. }
    set (upd := fun c => match cfg_apply cfg b (st_cur st) with
                         | Some p' => w_update (cfg_index cfg (st_cur st)) (cfg_index cfg p') c
                         | None => mkCache (c_items c) (c_all c) HWriter
                         end) in *.
    assert (Hupd : forall c k e, idx_get (c_items (upd c)) k = Some e ->
                                 idx_get (c_items c) k = Some e \/
                                 exists p', cfg_apply cfg b (st_cur st) = Some p' /\ idx_get (cfg_index cfg p') k = Some e).
    { intros c k e. unfold upd. destruct (cfg_apply cfg b (st_cur st)) as [p'|]; simpl; auto.
      intros Hx. apply w_update_src in Hx. destruct Hx; eauto. }
    destruct (st_mgr st) as [cid|].
    + destruct (rlocked st cid); [discriminate|].
      destruct (nth_error (st_heap st) cid) as [c0|] eqn:Eh; [|discriminate]. injection H as <-.
      intros cid' c k e Hc He. simpl in Hc. unfold item_src, committed. simpl.
      apply nth_upd_some in Hc. destruct Hc as [[<- ->]|[_ Hc]].
      * destruct (Hupd _ _ _ He) as [Ho|(p' & Ep & Hp)].
        { left. eapply Hold; eauto. }
        { right. exists p'. rewrite Ep. auto. }
      * left. eapply Hold; eauto.
    + injection H as <-. intros cid' c k e Hc He. simpl in Hc. unfold item_src, committed. simpl.
      destruct (Nat.lt_ge_cases cid' (length (st_heap st))) as [Hlt|Hge].
      * rewrite nth_error_app1 in Hc by exact Hlt. left. eapply Hold; eauto.
      * rewrite nth_error_app2 in Hc by exact Hge.
        destruct (cid' - length (st_heap st)) as [|[|j]] eqn:Ed; simpl in Hc; try discriminate.
        injection Hc as <-. assert (cid' = length (st_heap st)) by lia. subst cid'.
        destruct (Hupd (empty_cache HWriter) _ _ He) as [Ho|(p' & Ep & Hp)]; [discriminate|].
        right. exists p'. rewrite Ep. auto.
  - injection H as <-. intros cid c k e Hc He. simpl in Hc. left. unfold committed. simpl.
    destruct (I cid c k e Hc He) as [(ps & Hin & Hp)|(nx0 & Hx & Hp)].
    + exists ps. split; auto. apply in_or_app. left. exact Hin.
    + rewrite Ew in Hx. injection Hx as _ ->. exists nx0. split; auto. apply in_or_app. right. left. reflexivity.
  - injection H as <-. intros cid c k e Hc He. simpl in Hc.
    destruct (I cid c k e Hc He) as [Hl|(nx0 & Hx & _)]; [left; exact Hl|congruence].
Qed.

Lemma step_inv_items cfg st t st' :
  step cfg st t = Some st' -> inv_snap st -> inv_items cfg st -> inv_items cfg st'.
Proof.
  unfold step. intros H Is I. destruct (st_crashed st); [discriminate|]. destruct t as [|r|].
  - eapply step_writer_inv_items; eauto.
  - destruct (nth_error (st_rs st) r) as [ph|]; [|discriminate]. eapply step_reader_inv_items; eauto.
  - destruct (st_mgr st); [|discriminate]. injection H as <-. eapply inv_items_same; eauto.
Qed.

Lemma run_inv_items cfg sched st : inv_snap st -> inv_items cfg st -> inv_items cfg (run cfg sched st).
Proof.
  revert st. induction sched as [|t s IH]; intros st Is I; simpl; auto.
  apply IH; [apply exec_inv_snap; exact Is|].
  unfold exec. destruct (step cfg st t) eqn:E; auto. eapply step_inv_items; eauto.
Qed.

Lemma init_inv_items cfg p0 bs progs : inv_items cfg (init p0 bs progs).
Proof. intros [|cid] c k e Hc; discriminate. Qed.

(* in every state reachable from a cold start by ANY schedule: every item of every cache object of the heap
   is an entry of the index of a COMMITTED version -- unless that object is the one the writer holds
   write-locked inside its transaction (st_wph = WInTx cid _), where it may also be an entry of the version
   about to be committed.  The writer releases the lock only after the storage commit (WCommitted -> WIdle),
   so no reader can acquire a cache that is ahead of the committed versions. *)
Lemma c09_lock_covers_commit cfg p0 bs progs sched cid c k e :
  let st := run cfg sched (init p0 bs progs) in
  nth_error (st_heap st) cid = Some c -> idx_get (c_items c) k = Some e ->
  (exists ps, In ps (committed st) /\ idx_get (cfg_index cfg ps) k = Some e) \/
  (exists nx, st_wph st = WInTx cid (Some nx) /\ idx_get (cfg_index cfg nx) k = Some e).
Proof.
  intros st Hc He.
  exact (run_inv_items cfg sched _ (init_inv_snap p0 bs progs) (init_inv_items cfg p0 bs progs) cid c k e Hc He).
Qed.

(* ------------------------------------------------------------------ the seeded defect: unlock before commit *)
Open Scope N_scope.
(* the version the witness batch commits *)
Definition w_p1 : pstore := [(2, (w_id2, w_doc)); (1, (w_id1, w_doc))].
(* a batch that is rejected on w_p0 (the id exists): rolls back *)
Definition w_batch_bad : batch := BInsert [(w_id1, w_doc)].
Close Scope N_scope.

(* NOT a state of the model: the shared cache already holds the index of the next version w_p1, the
   storage has not committed it (the only committed version is w_p0) and the cache is NOT write-locked *)
Definition w_early_unlock : state :=
  mkState [] w_p0 [w_update (toy_index w_p0) (toy_index w_p1) (empty_cache HWriter)] (Some 0)
          WIdle [] [RIdle w_q_get] false.

Lemma early_unlock_refuted :
  let cfg := toy_cfg true in
  let locked := run cfg [TWriter] (init w_p0 [w_batch] [w_q_get]) in
  let st := w_early_unlock in
  st_wph locked = WInTx 0 (Some w_p1) /\ st_wph st = WIdle /\
  st = mkState (st_hist locked) (st_cur locked) (st_heap locked) (st_mgr locked) WIdle
               (st_todo locked) (st_rs locked) (st_crashed locked) /\
  committed st = [w_p0] /\ st_mgr st = Some 0 /\ wheld st 0 = false /\
  (exists c, nth_error (st_heap st) 0 = Some c /\ coherent cfg w_p1 c /\
             idx_get (c_items c) 0%N = Some [2%N; 1%N] /\
             idx_get (cfg_index cfg (st_cur st)) 0%N = Some [1%N]) /\
  nth_error (st_rs (run cfg (repeat (TReader 0) 5) st)) 0 = Some (RDone (0, w_p0) FailNotExist) /\
  answer cfg w_q_get (st_cur st) = Ok [(1%N, (w_id1, w_doc))] /\
  nth_error (st_rs (run cfg (repeat (TReader 0) 5) locked)) 0 = Some (RDone (0, w_p0) (Ok [(1%N, (w_id1, w_doc))])) /\
  (forall g p0 bs progs sched, run (toy_cfg g) sched (init p0 bs progs) <> st).
Proof.
  intros cfg locked st.
  split; [vm_compute; reflexivity|]. split; [reflexivity|]. split; [vm_compute; reflexivity|].
  split; [reflexivity|]. split; [reflexivity|]. split; [reflexivity|].
  split.
  { eexists. split; [reflexivity|]. split.
    - apply (coherent_w_update cfg w_p0 w_p1). apply coherent_empty.
    - split; vm_compute; reflexivity. }
  split; [vm_compute; reflexivity|]. split; [vm_compute; reflexivity|]. split; [vm_compute; reflexivity|].
  intros g p0 bs progs sched Heq.
  pose proof (c09_lock_covers_commit (toy_cfg g) p0 bs progs sched 0
                (w_update (toy_index w_p0) (toy_index w_p1) (empty_cache HWriter)) 0%N [2%N; 1%N]) as L.
  cbv zeta in L. rewrite Heq in L.
  destruct (L eq_refl eq_refl) as [(ps & Hin & Hp)|(nx & Hx & _)].
  - destruct Hin as [<-|[]]. vm_compute in Hp. discriminate.
  - discriminate.
Qed.

(* ---- the writer of the model follows the transaction bracket the translator gen_tx_order.py reads off shard.go ---- *)
From Semadb Require TxOrder.

(* the events of one writer step, by the phases before and after it *)
Definition step_events (before after : wphase) : list TxOrder.tx_event :=
  match before, after with
  | WIdle, WInTx _ _ => [TxOrder.NewCacheTx; TxOrder.StorageBegin true; TxOrder.Callback]
  | WInTx _ _, WCommitted _ _ => [TxOrder.StorageEnd]
  | WCommitted _ _, WIdle => [TxOrder.CacheCommit]
  | _, _ => []
  end.

Lemma writer_follows_bracket cfg st st1 st2 st3 :
  st_wph st = WIdle ->
  step_writer cfg st = Some st1 -> step_writer cfg st1 = Some st2 -> step_writer cfg st2 = Some st3 ->
  step_events (st_wph st) (st_wph st1) ++ step_events (st_wph st1) (st_wph st2) ++ step_events (st_wph st2) (st_wph st3)
    = TxOrder.tx_bracket true /\
  (exists cid nx, st_wph st1 = WInTx cid nx /\ committed st1 = committed st /\ wheld st1 cid = true /\
                  (exists ok, st_wph st2 = WCommitted cid ok /\ wheld st2 cid = true /\
                              committed st2 = committed st ++ [st_cur st2] /\ st_heap st2 = st_heap st1)) /\
  st_wph st3 = WIdle /\ committed st3 = committed st2.
Proof.
  intros Hidle H1 H2 H3.
  unfold step_writer in H1. rewrite Hidle in H1.
  destruct (st_todo st) as [|b rest]; [discriminate|].
  assert (Hst1 : exists cid nx, st_wph st1 = WInTx cid nx /\ st_hist st1 = st_hist st /\ st_cur st1 = st_cur st).
  { destruct (st_mgr st) as [cid|].
    - destruct (rlocked st cid); [discriminate|].
      destruct (nth_error (st_heap st) cid); [|discriminate].
      inversion H1; subst st1; cbn. eauto.
    - inversion H1; subst st1; cbn. eauto. }
  destruct Hst1 as (cid & nx & Hw1 & Hh1 & Hc1).
  unfold step_writer in H2. rewrite Hw1 in H2. inversion H2; subst st2; clear H2.
  unfold step_writer in H3. cbn [st_wph] in H3. inversion H3; subst st3; clear H3.
  rewrite Hidle, Hw1. cbn [st_wph step_events app].
  split; [reflexivity|]. split.
  - exists cid, nx. split; [reflexivity|]. split; [unfold committed; now rewrite Hh1, Hc1|].
    split; [unfold wheld; rewrite Hw1; apply Nat.eqb_refl|].
    eexists. split; [reflexivity|]. split; [unfold wheld; cbn; apply Nat.eqb_refl|].
    split; [unfold committed; cbn; now rewrite Hh1, Hc1|reflexivity].
  - split; reflexivity.
Qed.

