(* Proofs_C11c.v -- C11: exclusion and coherence of the REPAIRED manager
   (safe = true), for well-formed programs (no With after Commit), along every
   schedule -- Release / eviction / pruning at any moment included. *)
From Coq Require Import List Arith Bool ZArith Lia PeanoNat.
From Semadb Require Import Model_C11 Proofs_C11 Proofs_C11b.
Import ListNotations.

Record InvW (st : state) : Prop := {
  i_wf : forall t, wf_prog (prog (txs st t));
  i_dn : forall t, done (txs st t) = true -> prog (txs st t) = []
}.

Lemma wf_tl : forall p, wf_prog p -> wf_prog (tl p).
Proof. destruct p as [|[n ro oc|fl] r]; simpl; auto. intros ->. exact I. Qed.

Lemma step_W : forall fixed safe limit st t st', Inv0 st -> InvW st -> step fixed safe limit st t = Some st' -> InvW st'.
Proof.
  intros fixed safe limit st t st' I W H. step_field I H.
  all: try match goal with
       | D : done (txs ?st ?t) = false |- context [commit_all ?sf ?bad ?st _] =>
           destruct (commit_facts st t sf bad I D) as (C1 & C2 & Dec & Ct & Cm & Cn)
       end.
  all: constructor; simpl; try rewrite Ct; intros t'; upd_cases; simpl; try apply (i_wf _ W); try apply (i_dn _ W).
  all: try (apply wf_tl; apply (i_wf _ W)).
  all: try (intros Hd; pose proof (i_dn _ W t Hd) as X; rewrite X; reflexivity).
  all: try (intros _; pose proof (i_wf _ W t) as X; rewrite E0 in X; simpl in X; rewrite E0; simpl; exact X).
  all: try congruence.
Qed.

Lemma busy_not_done : forall st t, Inv0 st -> InvW st -> ph (txs st t) <> PIdle -> done (txs st t) = false.
Proof.
  intros st t I W Hp. destruct (done (txs st t)) eqn:Hd; auto.
  exfalso. apply (i_p1 _ I t Hp). now apply (i_dn _ W).
Qed.
Lemma idle_with_not_done : forall st t n ro oc l, InvW st -> prog (txs st t) = OWith n ro oc :: l -> done (txs st t) = false.
Proof.
  intros st t n ro oc l W Hp. destruct (done (txs st t)) eqn:Hd; auto.
  rewrite (i_dn _ W t Hd) in Hp. discriminate.
Qed.

(* the two facts exclusion rests on *)
Record InvS (st : state) : Prop := {
  i_J : forall t w c, use_of (ph (txs st t)) = Some (w, c) -> c_sh c = true ->
          c_rl c = Some (c_e c) \/
          (e_writer (elems st (c_e c)) = Some t /\ e_wheld (elems st (c_e c)) = true);
  i_P2 : forall t w e rl, ph (txs st t) = PScrap w e rl -> rl = None ->
          lookup (w_n w) (written (txs st t)) = Some e
}.

(* the heart of exclusion: whoever uses an element that t write-holds is t *)
Lemma excl_core : forall st t t' w c, Inv0 st -> InvS st ->
  e_writer (elems st (c_e c)) = Some t -> e_wheld (elems st (c_e c)) = true ->
  use_of (ph (txs st t')) = Some (w, c) -> t' = t.
Proof.
  intros st t t' w c I C Hw Hh Hu.
  destruct (i_a3 _ I _ _ _ Hu) as (_ & _ & _ & Ho).
  destruct (c_sh c) eqn:Hs.
  - destruct (i_J _ C _ _ _ Hu Hs) as [Hr|[Hw' _]]; [|congruence].
    assert (Hrl : rl_of (ph (txs st t')) = Some (c_e c)).
    { destruct (ph (txs st t')); simpl in Hu; try discriminate Hu; injection Hu as <- <-; exact Hr. }
    destruct (i_b2 _ I _ _ Hrl) as (Hin & _). destruct (i_c3 _ I _ Hh) as (He & _). rewrite He in Hin. destruct Hin.
  - destruct (i_d1 _ I _ _ (Ho eq_refl)); congruence.
Qed.

Ltac commit_setup I :=
  try match goal with
       | D : done (txs ?st ?t) = false |- context [commit_all ?sf ?bad ?st _] =>
           destruct (commit_facts st t sf bad I D) as (C1 & C2 & Dec & Ct & Cm & Cn)
       end.

Lemma step_P2 : forall fixed limit st s st', Inv0 st -> InvW st -> InvS st ->
  step fixed true limit st s = Some st' ->
  forall t w e rl, ph (txs st' t) = PScrap w e rl -> rl = None ->
          lookup (w_n w) (written (txs st' t)) = Some e.
Proof.
  intros fixed limit st s st' I W C H. step_field I H. all: commit_setup I.
  all: simpl; try rewrite Ct; intros tq wq eq rlq Hu Hn; upd_cases; simpl in Hu; try discriminate Hu.
  all: try (injection Hu as Hu1 Hu2 Hu3; subst; simpl in * ).
  all: try (apply (i_P2 _ C _ _ _ _ Hu Hn)).
  all: try congruence.
  all: try (rewrite lookup_set_key, Nat.eqb_refl; reflexivity).
  all: try assumption.
Qed.

Lemma step_J : forall fixed limit st s st', Inv0 st -> InvW st -> InvS st ->
  step fixed true limit st s = Some st' ->
  forall t w c, use_of (ph (txs st' t)) = Some (w, c) -> c_sh c = true ->
          c_rl c = Some (c_e c) \/
          (e_writer (elems st' (c_e c)) = Some t /\ e_wheld (elems st' (c_e c)) = true).
Proof.
  intros fixed limit st s st' I W C H. step_field I H. all: commit_setup I.
  all: simpl; try rewrite Ct; intros tq wq cq Hu Hs; upd_cases; simpl in Hu; try discriminate Hu.
  all: try (injection Hu as Hu1 Hu2; subst; simpl in * ).
  all: try (destruct (i_J _ C _ _ _ Hu Hs) as [A|[A B]]; [left; exact A|]).
  all: try discriminate.
  all: try (destruct (i_a3 _ I _ _ _ Hu) as (Ha3 & _)).
  all: try match goal with |- context [commit_all _ _ _ _] =>
         destruct (Dec (c_e cq)) as [Dd|Dd]; [destruct (C1 _ Dd) as (X & _); congruence|destruct (C2 _ Dd) as (Cw & Ch); rewrite Cw, Ch; auto] end.
  all: simpl; upd_cases; simpl; auto; try congruence.
  all: try (exfalso; lia).
  all: try (right; split; congruence).
  all: try (pose proof (i_J _ C s) as FJ; rewrite E in FJ; simpl in FJ; specialize (FJ _ _ eq_refl); solve [auto]).
  destruct H0 as [?|[Hn _]]; [auto|right].
  apply (i_c4 _ I s (w_n wq) e).
  - apply (i_P2 _ C _ _ _ _ E Hn).
  - apply busy_not_done; auto. rewrite E. discriminate.
Qed.

Lemma step_S : forall fixed limit st s st', Inv0 st -> InvW st -> InvS st ->
  step fixed true limit st s = Some st' -> InvS st'.
Proof. intros. constructor; [eapply step_J; eauto|eapply step_P2; eauto]. Qed.

Lemma del_W : forall st n, InvW st -> InvW (set_map st (remove_key n (mmap st))).
Proof. intros st n W. constructor; simpl; apply W. Qed.
Lemma del_S : forall st n, InvS st -> InvS (set_map st (remove_key n (mmap st))).
Proof. intros st n C. constructor; simpl; apply C. Qed.

Lemma init_W : forall progs, Forall wf_prog progs -> InvW (init progs).
Proof.
  intros progs Hwf. constructor; intros t; rewrite init_tx; destruct (nth_error progs t) eqn:E; simpl; auto; try discriminate.
  rewrite Forall_forall in Hwf. apply Hwf. eapply nth_error_In; eauto.
Qed.
Lemma init_S : forall progs, InvS (init progs).
Proof.
  intros progs. constructor; intros; try rewrite init_ph in *; simpl in *; discriminate.
Qed.

Lemma next_WS : forall fixed limit st l, Inv0 st -> InvW st -> InvS st ->
  InvW (next fixed true limit st l) /\ InvS (next fixed true limit st l).
Proof.
  intros fixed limit st l I W C. unfold next. destruct (lstep fixed true limit st l) eqn:E; auto.
  destruct l as [t|n]; simpl in E.
  - split; [eapply step_W; eauto|eapply step_S; eauto].
  - destruct (free (mlock st)); [|discriminate]. injection E as <-. split; [now apply del_W|now apply del_S].
Qed.
Lemma run_safe : forall fixed limit ls st, Inv0 st -> InvW st -> InvS st ->
  let st' := run fixed true limit ls st in Inv0 st' /\ InvW st' /\ InvS st'.
Proof.
  induction ls as [|l ls IH]; simpl; intros st I W C; auto.
  destruct (next_WS fixed limit st l I W C) as [W' C']. apply IH; auto. now apply next_Inv0.
Qed.

(* ------------------------------------------------------------------ *)
(* exclusion                                                           *)
(* ------------------------------------------------------------------ *)
Lemma excl_of_inv : forall st, Inv0 st -> InvS st -> excl st.
Proof.
  intros st I C. repeat split.
  - intros t e [Hw Hh]. apply (i_c3 _ I _ Hh).
  - intros t t' e [Hw Hh] (w & c & Hp & <-). eapply (excl_core st t t' w c); eauto. rewrite Hp. reflexivity.
  - intros t t' e (w & c & Hp & <- & Hro) (w' & c' & Hp' & He).
    assert (Hu : use_of (ph (txs st t)) = Some (w, c)) by (rewrite Hp; reflexivity).
    assert (Hu' : use_of (ph (txs st t')) = Some (w', c')) by (rewrite Hp'; reflexivity).
    destruct (i_a3 _ I _ _ _ Hu) as (_ & _ & Ho & Hof). destruct (i_a3 _ I _ _ _ Hu') as (_ & _ & Ho' & Hof').
    destruct (c_sh c) eqn:Hs.
    + destruct (i_J _ C _ _ _ Hu Hs) as [Hr|[Hw Hh]].
      * rewrite (i_e1 _ I _ _ _ Hu Hro) in Hr. discriminate.
      * rewrite <- He in Hw, Hh. eapply (excl_core st t t' w' c'); eauto.
    + specialize (Hof eq_refl). rewrite He in Ho'. destruct Ho'; congruence.
  - intros t w c Hp Hs (n & Hl).
    assert (Hu : use_of (ph (txs st t)) = Some (w, c)) by (rewrite Hp; reflexivity).
    destruct (i_a3 _ I _ _ _ Hu) as (_ & _ & _ & Ho). specialize (Ho Hs).
    destruct (i_a1 _ I _ _ Hl) as (_ & _ & Ho'). congruence.
Qed.

Lemma thm_exclusion : forall fixed limit progs ls, Forall wf_prog progs ->
  excl (run fixed true limit ls (init progs)).
Proof.
  intros fixed limit progs ls Hwf.
  destruct (run_safe fixed limit ls (init progs) (init_Inv0 progs) (init_W progs Hwf) (init_S progs)) as (I & W & C).
  eapply excl_of_inv; eauto.
Qed.


(* ------------------------------------------------------------------ *)
(* coherence                                                           *)
(* ------------------------------------------------------------------ *)
Local Arguments commit_one : simpl never.

Lemma has_key_cons : forall n k v m, has_key n ((k, v) :: m) = Nat.eqb k n || has_key n m.
Proof. intros. unfold has_key, lookup. fold lookup. destruct (Nat.eqb k n); auto. Qed.
Lemma lookup_cons : forall n k v m, lookup n ((k, v) :: m) = if Nat.eqb k n then Some v else lookup n m.
Proof. reflexivity. Qed.

Lemma commit_all_cons : forall safe bad st ne W,
  commit_all safe bad st (ne :: W) = commit_all safe bad (commit_one safe bad st ne) W.
Proof. reflexivity. Qed.

Lemma commit_bad_view : forall safe W st,
  (forall n, committed (commit_all safe true st W) n = committed st n) /\
  (forall e, e_built (elems (commit_all safe true st W) e) = e_built (elems st e)) /\
  (forall e, In e (map snd W) -> e_scrapped (elems (commit_all safe true st W) e) = true).
Proof.
  induction W as [|[k x] W IH]; intros st.
  - repeat split; auto; intros e [].
  - rewrite commit_all_cons. destruct (IH (commit_one safe true st (k, x))) as (I1 & I2 & I3).
    assert (E2 : forall y, elems (commit_one safe true st (k, x)) y =
                 if Nat.eqb y x then e_set_writer (e_scrap (elems st x)) None false else elems st y).
    { intros y. unfold commit_one. simpl. unfold upd. destruct (Nat.eqb y x); auto. }
    repeat split.
    + intros n. rewrite I1. unfold commit_one. destruct safe; reflexivity.
    + intros e. rewrite I2, E2. destruct (Nat.eqb_spec e x); subst; reflexivity.
    + intros e [Hin|Hin]; [|auto]. simpl in Hin. subst e.
      destruct (commit_all_elems safe true W (commit_one safe true st (k, x)) x) as ((_ & _ & _ & _ & Hm) & _).
      apply Hm. rewrite E2, Nat.eqb_refl. reflexivity.
Qed.

Lemma commit_ok_view : forall W st,
  NoDup (map fst W) ->
  (forall n e, In (n, e) W -> e_name (elems st e) = n) ->
  (forall k c, lookup k (mmap st) = Some c -> e_name (elems st c) = k) ->
  (forall n, committed (commit_all true false st W) n = if has_key n W then S (committed st n) else committed st n) /\
  (forall n e, lookup n W = Some e -> lookup n (mmap st) = Some e ->
               e_built (elems (commit_all true false st W) e) = S (committed st n)) /\
  (forall n e c, lookup n W = Some e -> lookup n (mmap st) = Some c -> c <> e ->
               e_scrapped (elems (commit_all true false st W) c) = true) /\
  (forall e, ~ In e (map snd W) -> e_built (elems (commit_all true false st W) e) = e_built (elems st e)).
Proof.
  induction W as [|[k x] W IH]; intros st Hnd Hnm Hreg.
  - repeat split; intros; auto; discriminate.
  - inversion Hnd as [|? ? Hk Hnd']; subst. rewrite commit_all_cons.
    set (st2 := commit_one true false st (k, x)).
    assert (Hsh : forall y, same_shape (elems st y) (elems st2 y)) by (intros y; apply commit_one_elems).
    assert (C2 : forall n, committed st2 n = if Nat.eqb n k then S (committed st k) else committed st n).
    { intros n. unfold st2, commit_one. destruct (lookup k (mmap st)) as [cur|]; [destruct (Nat.eqb cur x)|];
        simpl; unfold upd; destruct (Nat.eqb n k); auto. }
    assert (M2 : forall n, n <> k -> lookup n (mmap st2) = lookup n (mmap st)).
    { intros n Hn. unfold st2, commit_one. destruct (lookup k (mmap st)) as [cur|]; [destruct (Nat.eqb cur x)|]; simpl; auto.
      rewrite lookup_remove_key. destruct (Nat.eqb_spec k n); congruence. }
    assert (Msub : forall n c, lookup n (mmap st2) = Some c -> lookup n (mmap st) = Some c).
    { intros n c H. change st2 with (commit_all true false st [(k, x)]) in H. eapply commit_all_map_sub; eauto. }
    assert (B2 : forall y, y <> x -> e_built (elems st2 y) = e_built (elems st y)).
    { intros y Hy. unfold st2, commit_one. destruct (lookup k (mmap st)) as [cur|]; [destruct (Nat.eqb cur x)|];
        simpl; unfold upd;
        repeat match goal with |- context [Nat.eqb ?a ?b] => destruct (Nat.eqb_spec a b); subst end; simpl; auto; congruence. }
    assert (Bx : lookup k (mmap st) = Some x -> e_built (elems st2 x) = S (committed st k)).
    { intros Hl. unfold st2, commit_one. rewrite Hl, Nat.eqb_refl. simpl. rewrite upd_eq. reflexivity. }
    assert (Sx : forall c, lookup k (mmap st) = Some c -> c <> x -> e_scrapped (elems st2 c) = true).
    { intros c Hl Hc. unfold st2, commit_one. rewrite Hl. destruct (Nat.eqb_spec c x); [congruence|].
      simpl. rewrite upd_eq. reflexivity. }
    assert (Hnm2 : forall n e, In (n, e) W -> e_name (elems st2 e) = n).
    { intros n e Hin. destruct (Hsh e) as (a & _). rewrite a. apply Hnm. simpl; auto. }
    assert (Hreg2 : forall k' c, lookup k' (mmap st2) = Some c -> e_name (elems st2 c) = k').
    { intros k' c H. destruct (Hsh c) as (a & _). rewrite a. apply Hreg. auto. }
    destruct (IH st2 Hnd' Hnm2 Hreg2) as (IH1 & IH2 & IH3 & IH4).
    assert (HkW : has_key k W = false).
    { destruct (has_key k W) eqn:Hh; auto. apply has_key_lookup in Hh. destruct Hh as [e He].
      exfalso. apply Hk. apply in_map_iff. exists (k, e). split; auto. now apply lookup_In. }
    assert (HxW : ~ In x (map snd W)).
    { intros Hin. apply in_map_iff in Hin. destruct Hin as ([n' x'] & Hx & Hin). simpl in Hx. subst x'.
      assert (n' = k). { rewrite <- (Hnm n' x) by (simpl; auto). apply Hnm. simpl; auto. }
      subst. apply Hk. apply in_map_iff. exists (k, x). auto. }
    repeat split.
    + intros n. rewrite IH1, has_key_cons, C2. destruct (Nat.eqb_spec k n); subst.
      * rewrite HkW, Nat.eqb_refl. reflexivity.
      * simpl. destruct (Nat.eqb_spec n k); [congruence|]. reflexivity.
    + intros n e Hl Hm. rewrite lookup_cons in Hl. destruct (Nat.eqb_spec k n); subst.
      * injection Hl as <-. rewrite (IH4 _ HxW). auto.
      * rewrite (IH2 _ _ Hl); [|rewrite M2; auto]. rewrite C2. destruct (Nat.eqb_spec n k); [congruence|]. reflexivity.
    + intros n e c Hl Hm Hc. rewrite lookup_cons in Hl. destruct (Nat.eqb_spec k n); subst.
      * injection Hl as <-.
        destruct (commit_all_elems true false W st2 c) as ((_ & _ & _ & _ & Hmono) & _). apply Hmono. auto.
      * apply (IH3 n e c); auto. rewrite M2; auto.
    + intros e Hn. simpl in Hn. rewrite IH4 by tauto. apply B2. intros ->. tauto.
Qed.

Lemma step_coh : forall fixed limit st s st', Inv0 st -> coherent st ->
  step fixed true limit st s = Some st' -> coherent st'.
Proof.
  intros fixed limit st s st' I Co H. unfold coherent. step_field I H. all: commit_setup I.
  all: simpl; intros n' e' Hl Hs Hw; try (apply commit_all_map_sub in Hl); map_hyp Hl.
  all: try match type of Hl with (if ?b then _ else _) = _ => destruct b eqn:Eb; [apply Nat.eqb_eq in Eb; injection Hl as Hl; subst|] end.
  all: try (destruct (i_a1 _ I _ _ Hl) as (Ha & Hb & Hc)).
  all: simpl in *; upd_cases; simpl in *; try discriminate; try (exfalso; lia); try (apply Co; auto; fail).
  all: try reflexivity.
  (* Commit with written caches *)
  set (W := written (txs st s)) in *.
  assert (HinW : forall e, In e (map snd W) <-> exists n, lookup n W = Some e).
  { intros e. split; [intros Hin; apply In_snd_lookup; auto; apply (i_nd _ I)|intros [n Hn]; eapply lookup_In_snd; eauto]. }
  destruct (failed (txs st s) || fail) eqn:Hbad.
  - destruct (commit_bad_view true W st) as (B1 & B2 & B3). rewrite B1, B2.
    destruct (Dec e') as [Dd|Dd].
    + rewrite B3 in Hs by (apply HinW; auto). discriminate.
    + destruct (C2 _ Dd) as (Cw & Ch). rewrite Cw in Hw. apply Co; auto.
      destruct (e_scrapped (elems st e')) eqn:Hs0; auto.
      destruct (commit_all_elems true true W st e') as ((_ & _ & _ & _ & Hm) & _). rewrite Hm in Hs; auto.
  - destruct (commit_ok_view W st (i_nd _ I s)) as (K1 & K2 & K3 & K4).
    { intros n e Hin. apply (In_lookup _ _ _ (i_nd _ I s)) in Hin. now destruct (i_a4 _ I _ _ _ Hin) as (_ & X & _). }
    { intros k c Hk. now destruct (i_a1 _ I _ _ Hk) as (_ & X & _). }
    rewrite K1. destruct (Dec e') as [[n Dd]|Dd].
    + assert (n = n') by (destruct (i_a4 _ I _ _ _ Dd) as (_ & X & _); congruence). subst n.
      rewrite (K2 _ _ Dd Hl). unfold has_key. rewrite Dd. reflexivity.
    + destruct (has_key n' W) eqn:Hk.
      * exfalso. apply has_key_lookup in Hk. destruct Hk as [ew Hk].
        assert (Hne : e' <> ew) by (intros ->; apply (Dd n'); auto).
        rewrite (K3 _ _ _ Hk Hl Hne) in Hs. discriminate.
      * rewrite K4 by (intros Hin; apply HinW in Hin; destruct Hin as [n Hn]; apply (Dd n); auto).
        destruct (C2 _ Dd) as (Cw & Ch). rewrite Cw in Hw. apply Co; auto.
        destruct (e_scrapped (elems st e')) eqn:Hs0; auto.
        destruct (commit_all_elems true false W st e') as ((_ & _ & _ & _ & Hm) & _). rewrite Hm in Hs; auto.
Qed.

Lemma run_coh : forall fixed limit ls st, Inv0 st -> coherent st -> coherent (run fixed true limit ls st).
Proof.
  induction ls as [|l ls IH]; simpl; intros st I Co; auto.
  apply IH; [now apply next_Inv0|].
  unfold next. destruct (lstep fixed true limit st l) eqn:E; auto.
  destruct l as [t|n]; simpl in E.
  - eapply (step_coh fixed limit st t s); eauto.
  - destruct (free (mlock st)); [|discriminate]. injection E as <-.
    intros n' e Hl. simpl in *. apply lookup_remove_some in Hl. destruct Hl as [Hl _]. now apply Co.
Qed.

Lemma thm_coherent : forall fixed limit progs ls, coherent (run fixed true limit ls (init progs)).
Proof.
  intros fixed limit progs ls. apply run_coh; [apply init_Inv0|].
  intros n e Hl. simpl in Hl. discriminate.
Qed.


Lemma step_other_tx : forall fixed safe limit st s st' tq, step fixed safe limit st s = Some st' -> tq <> s ->
  txs st' tq = txs st tq.
Proof.
  intros fixed safe limit st s st' tq H Hne. break_step H.
  all: simpl; try (destruct (commit_all_frame safe (failed (txs st s) || fail) (p :: l0) st) as (_ & _ & _ & Ft); rewrite Ft).
  all: now rewrite upd_neq.
Qed.


Lemma thm_readers_never_wait : forall fixed safe limit st t,
  reading (ph (txs st t)) = true -> mlock st = None -> exists st', step fixed safe limit st t = Some st'.
Proof.
  intros fixed safe limit st t Hr Hm.
  assert (Hfree : free (mlock st) = true) by (rewrite Hm; reflexivity).
  destruct (ph (txs st t)) eqn:Hp; simpl in Hr; try discriminate Hr; enabled Hp.
Qed.


(* ------------------------------------------------------------------ *)
(* the hypothesis of the progress theorem is satisfiable: if all transactions *)
(* but one are read-only, writers are trivially disjoint                     *)
(* ------------------------------------------------------------------ *)
Definition InvR (R : tid -> Prop) (st : state) : Prop :=
  forall t, R t -> ro_prog (prog (txs st t)) = true /\ written (txs st t) = [] /\
                   match wctx_of (ph (txs st t)) with Some w => w_ro w = true | None => True end.

Lemma ro_tl : forall p, ro_prog p = true -> ro_prog (tl p) = true.
Proof. destruct p; simpl; auto. intros H. apply andb_true_iff in H. tauto. Qed.

Lemma step_R : forall R fixed safe limit st s st', Inv0 st -> InvR R st -> step fixed safe limit st s = Some st' -> InvR R st'.
Proof.
  intros R fixed safe limit st s st' I IR H t Rt. destruct (IR t Rt) as (Hp & Hw & Hc).
  destruct (Nat.eq_dec t s) as [->|Hne]; [|rewrite (step_other_tx _ _ _ _ _ _ _ H Hne); auto].
  step_field I H. all: commit_setup I.
  all: simpl; try rewrite Ct; rewrite upd_eq; simpl in *.
  all: try (apply andb_true_iff in Hp; destruct Hp as [Hp1 Hp2]).
  all: repeat split; auto; try congruence.
  all: try (apply ro_tl; assumption).
  all: try (rewrite E0; simpl; auto).
  all: try (apply andb_true_iff; auto).
Qed.

Lemma next_R : forall R fixed safe limit st l, Inv0 st -> InvR R st -> InvR R (next fixed safe limit st l).
Proof.
  intros R fixed safe limit st l I IR. unfold next. destruct (lstep fixed safe limit st l) eqn:E; auto.
  destruct l as [t|n]; simpl in E.
  - eapply step_R; eauto.
  - destruct (free (mlock st)); [|discriminate]. injection E as <-. exact IR.
Qed.

Lemma R_disjoint : forall R st w0, InvR R st -> (forall t, t <> w0 -> R t) -> disjoint_writers st.
Proof.
  intros R st w0 IR Hall t t' n [_ A] [_ A'].
  assert (X : forall u, (has_key n (written (txs st u)) = true \/ cur_write (ph (txs st u)) = Some n) -> u = w0).
  { intros u Hu. destruct (Nat.eq_dec u w0) as [|Hne]; auto. exfalso.
    destruct (IR u (Hall u Hne)) as (_ & Hw & Hc). destruct Hu as [Hu|Hu].
    - rewrite Hw in Hu. discriminate.
    - destruct (ph (txs st u)); simpl in *; try discriminate; rewrite Hc in Hu; discriminate. }
  rewrite (X t A), (X t' A'). reflexivity.
Qed.

Lemma always_disjoint_single_writer : forall R w0 safe limit ls st, Inv0 st -> InvR R st ->
  (forall t, t <> w0 -> R t) -> always disjoint_writers true safe limit ls st.
Proof.
  induction ls as [|l ls IH]; simpl; intros st I IR Hall.
  - eapply R_disjoint; eauto.
  - split; [eapply R_disjoint; eauto|]. apply IH; auto using next_Inv0, next_R.
Qed.

Lemma thm_progress_single_writer : forall safe limit progs ls w0,
  (forall t p, t <> w0 -> nth_error progs t = Some p -> ro_prog p = true) ->
  let st := run true safe limit ls (init progs) in
  (exists t, ~ finished (txs st t)) -> exists t st', step true safe limit st t = Some st'.
Proof.
  intros safe limit progs ls w0 Hro st Hex. apply thm_progress; auto.
  apply (always_disjoint_single_writer (fun t => t <> w0) w0); auto using init_Inv0.
  intros t Ht. rewrite init_tx. destruct (nth_error progs t) eqn:E; simpl; auto.
  repeat split; auto. eapply Hro; eauto.
Qed.
