(* Proofs_C11c.v -- C11: exclusion and coherence along clean runs of
   well-formed programs (no With after Commit). *)
From Coq Require Import List Arith Bool ZArith Lia PeanoNat.
From Semadb Require Import Model_C11 Proofs_C11 Proofs_C11b.
Import ListNotations.

Record InvW (st : state) : Prop := {
  i_wf : forall t, wf_prog (prog (txs st t));
  i_dn : forall t, done (txs st t) = true -> prog (txs st t) = []
}.

Lemma wf_tl : forall p, wf_prog p -> wf_prog (tl p).
Proof. destruct p as [|[n ro oc|fl] r]; simpl; auto. intros ->. exact I. Qed.

Lemma step_W : forall fixed limit st t st', Inv0 st -> InvW st -> step fixed limit st t = Some st' -> InvW st'.
Proof.
  intros fixed limit st t st' I W H. step_field I H.
  all: try match goal with
       | D : done (txs ?st ?t) = false |- context [commit_all ?bad ?st _] =>
           destruct (commit_facts st t bad I D) as (C1 & C2 & Dec & Ct & Cm & Cn)
       end.
  all: constructor; simpl; try rewrite Ct; intros t'; upd_cases; simpl; try apply (i_wf _ W); try apply (i_dn _ W).
  all: try (apply wf_tl; apply (i_wf _ W)).
  all: try (intros Hd; pose proof (i_dn _ W t Hd) as X; rewrite X; reflexivity).
  all: try (intros _; pose proof (i_wf _ W t) as X; rewrite E0 in X; simpl in X; rewrite E0; simpl; exact X).
  all: try congruence.
Qed.

Lemma busy_not_done : forall st t, Inv0 st -> InvW st -> ph (txs st t) <> PIdle -> done (txs st t) = false.
Proof.
  intros st t I W Hp. destruct (done (txs st t)) eqn:Hd; auto.
  exfalso. apply (i_p1 _ I t Hp). now apply (i_dn _ W).
Qed.
Lemma idle_with_not_done : forall st t n ro oc l, InvW st -> prog (txs st t) = OWith n ro oc :: l -> done (txs st t) = false.
Proof.
  intros st t n ro oc l W Hp. destruct (done (txs st t)) eqn:Hd; auto.
  rewrite (i_dn _ W t Hd) in Hp. discriminate.
Qed.

Record InvC (limit : Z) (st : state) : Prop := {
  i_J : forall t w c, use_of (ph (txs st t)) = Some (w, c) -> c_sh c = true ->
          c_rl c = Some (c_e c) \/
          (e_writer (elems st (c_e c)) = Some t /\ e_wheld (elems st (c_e c)) = true);
  i_P1 : forall t w e, ph (txs st t) = PLock w e ->
          failed (txs st t) = false /\
          (forall e', lookup (w_n w) (written (txs st t)) = Some e' -> e' = e);
  i_P2 : forall t w e rl, ph (txs st t) = PScrap w e rl -> rl = None ->
          lookup (w_n w) (written (txs st t)) = Some e;
  i_P3 : forall t w e, (ph (txs st t) = PLock w e /\ w_ro w = false) \/ ph (txs st t) = PWait w e ->
          e_scrapped (elems st e) = true \/ lookup (w_n w) (mmap st) = Some e;
  i_I3 : (limit =? 0)%Z = false -> forall t n e, lookup n (written (txs st t)) = Some e ->
          done (txs st t) = false -> failed (txs st t) = false ->
          e_scrapped (elems st e) = true \/ lookup n (mmap st) = Some e;
  i_I4 : forall t n e, lookup n (written (txs st t)) = Some e ->
          done (txs st t) = false -> failed (txs st t) = false -> e_scrapped (elems st e) = true ->
          exists w rl, ph (txs st t) = PScrap w e rl /\ w_ro w = false;
  i_Z : (limit =? 0)%Z = true -> mmap st = [];
  i_MM : forall t w, ph (txs st t) = PCreate w -> lookup (w_n w) (mmap st) = None
}.

(* the heart of exclusion: whoever uses an element that t write-holds is t *)
Lemma excl_core : forall limit st t t' w c, Inv0 st -> InvC limit st ->
  e_writer (elems st (c_e c)) = Some t -> e_wheld (elems st (c_e c)) = true ->
  use_of (ph (txs st t')) = Some (w, c) -> t' = t.
Proof.
  intros limit st t t' w c I C Hw Hh Hu.
  destruct (i_a3 _ I _ _ _ Hu) as (_ & _ & Ho).
  destruct (c_sh c) eqn:Hs.
  - destruct (i_J _ _ C _ _ _ Hu Hs) as [Hr|[Hw' _]]; [|congruence].
    assert (Hrl : rl_of (ph (txs st t')) = Some (c_e c)).
    { destruct (ph (txs st t')); simpl in Hu; try discriminate Hu; injection Hu as <- <-; exact Hr. }
    destruct (i_b2 _ I _ _ Hrl) as (Hin & _). destruct (i_c3 _ I _ Hh) as (He & _). rewrite He in Hin. destruct Hin.
  - destruct (i_d1 _ I _ _ Ho); congruence.
Qed.

Ltac commit_setup I :=
  try match goal with
       | D : done (txs ?st ?t) = false |- context [commit_all ?bad ?st _] =>
           destruct (commit_facts st t bad I D) as (C1 & C2 & Dec & Ct & Cm & Cn)
       end.

Lemma step_J : forall fixed limit st s st', Inv0 st -> InvW st -> InvC limit st ->
  step fixed limit st s = Some st' ->
  forall t w c, use_of (ph (txs st' t)) = Some (w, c) -> c_sh c = true ->
          c_rl c = Some (c_e c) \/
          (e_writer (elems st' (c_e c)) = Some t /\ e_wheld (elems st' (c_e c)) = true).
Proof.
  intros fixed limit st s st' I W C H. step_field I H. all: commit_setup I.
  all: simpl; try rewrite Ct; intros tq wq cq Hu Hs; upd_cases; simpl in Hu; try discriminate Hu.
  all: try (injection Hu as Hu1 Hu2; subst; simpl in * ).
  all: try (destruct (i_J _ _ C _ _ _ Hu Hs) as [A|[A B]]; [left; exact A|]).
  all: try discriminate.
  all: try (destruct (i_a3 _ I _ _ _ Hu) as (Ha3 & _)).
  all: try match goal with |- context [commit_all _ _ _] =>
         destruct (Dec (c_e cq)) as [Dd|Dd]; [destruct (C1 _ Dd) as (X & _); congruence|rewrite (C2 _ Dd); auto] end.
  all: simpl; upd_cases; simpl; auto; try congruence.
  all: try (exfalso; lia).
  all: try (right; split; congruence).
  all: try (pose proof (i_J _ _ C s) as FJ; rewrite E in FJ; simpl in FJ; specialize (FJ _ _ eq_refl); solve [auto]).
  destruct H0 as [?|[Hn _]]; [auto|right].
  apply (i_c4 _ I s (w_n wq) e).
  - apply (i_P2 _ _ C _ _ _ _ E Hn).
  - apply busy_not_done; auto. rewrite E. discriminate.
Qed.

Lemma P1_enter : forall limit st s n ro oc l e, Inv0 st -> InvW st -> InvC limit st ->
  ph (txs st s) = PIdle -> prog (txs st s) = OWith n ro oc :: l -> failed (txs st s) = false ->
  lookup n (mmap st) = Some e -> forall e', lookup n (written (txs st s)) = Some e' -> e' = e.
Proof.
  intros limit st s n ro oc l e I W C Hp Hpr Hf Hl e' Hw.
  pose proof (idle_with_not_done _ _ _ _ _ _ W Hpr) as Hd.
  destruct (limit =? 0)%Z eqn:Hz.
  - rewrite (i_Z _ _ C Hz) in Hl. discriminate.
  - destruct (i_I3 _ _ C Hz _ _ _ Hw Hd Hf) as [Hs|Hm]; [|congruence].
    destruct (i_I4 _ _ C _ _ _ Hw Hd Hf Hs) as (w & rl & Hq & _). congruence.
Qed.

Lemma step_P1 : forall fixed limit st s st', Inv0 st -> InvW st -> InvC limit st ->
  step fixed limit st s = Some st' ->
  forall t w e, ph (txs st' t) = PLock w e ->
          failed (txs st' t) = false /\
          (forall e', lookup (w_n w) (written (txs st' t)) = Some e' -> e' = e).
Proof.
  intros fixed limit st s st' I W C H. step_field I H. all: commit_setup I.
  all: simpl; try rewrite Ct; intros tq wq eq Hu; upd_cases; simpl in Hu; try discriminate Hu.
  all: try (injection Hu as Hu1 Hu2; subst; simpl in * ).
  all: try (apply (i_P1 _ _ C _ _ _ Hu)).
  all: try congruence.
  all: try (split; [assumption|eapply P1_enter; eauto]).
Qed.

Lemma step_P2 : forall fixed limit st s st', Inv0 st -> InvW st -> InvC limit st ->
  step fixed limit st s = Some st' ->
  forall t w e rl, ph (txs st' t) = PScrap w e rl -> rl = None ->
          lookup (w_n w) (written (txs st' t)) = Some e.
Proof.
  intros fixed limit st s st' I W C H. step_field I H. all: commit_setup I.
  all: simpl; try rewrite Ct; intros tq wq eq rlq Hu Hn; upd_cases; simpl in Hu; try discriminate Hu.
  all: try (injection Hu as Hu1 Hu2 Hu3; subst; simpl in * ).
  all: try (apply (i_P2 _ _ C _ _ _ _ Hu Hn)).
  all: try congruence.
  all: try (rewrite lookup_set_key, Nat.eqb_refl; reflexivity).
  all: match goal with Hk : has_key _ _ = true |- _ =>
         apply has_key_lookup in Hk; destruct Hk as [e1 Hk];
         destruct (i_P1 _ _ C _ _ _ E) as (_ & X); rewrite (X _ Hk) in Hk; exact Hk end.
Qed.

Lemma step_other_tx : forall fixed limit st s st' tq, step fixed limit st s = Some st' -> tq <> s ->
  txs st' tq = txs st tq.
Proof.
  intros fixed limit st s st' tq H Hne. break_step H.
  all: simpl; try (destruct (commit_all_frame (failed (txs st s) || fail) (p :: l0) st) as (_ & _ & _ & Ft); rewrite Ft).
  all: now rewrite upd_neq.
Qed.

(* how a transaction gets into the phases in which it is about to lock / waits for a lock *)
Lemma enter_lock_phase : forall fixed limit st s st' wq eq, Inv0 st -> step fixed limit st s = Some st' ->
  ((ph (txs st' s) = PLock wq eq /\ w_ro wq = false) \/ ph (txs st' s) = PWait wq eq) ->
  (ph (txs st s) = PIdle /\ lookup (w_n wq) (mmap st') = Some eq) \/
  (ph (txs st s) = PLock wq eq /\ w_ro wq = false).
Proof.
  intros fixed limit st s st' wq eq I H Hu. step_field I H. all: commit_setup I.
  all: simpl in Hu; try rewrite Ct in Hu; rewrite upd_eq in Hu; simpl in Hu.
  all: destruct Hu as [[Hu Hr]|Hu]; try discriminate Hu.
  all: try (injection Hu as Hu1 Hu2; subst).
  all: simpl; auto.
Qed.

Lemma step_P3 : forall fixed limit st s st', Inv0 st -> InvW st -> InvC limit st ->
  step fixed limit st s = Some st' -> keeps st st' ->
  forall t w e, (ph (txs st' t) = PLock w e /\ w_ro w = false) \/ ph (txs st' t) = PWait w e ->
          e_scrapped (elems st' e) = true \/ lookup (w_n w) (mmap st') = Some e.
Proof.
  intros fixed limit st s st' I W C H Kp tq wq eq Hu.
  assert (Hold : (ph (txs st tq) = PLock wq eq /\ w_ro wq = false) \/ ph (txs st tq) = PWait wq eq ->
                 e_scrapped (elems st' eq) = true \/ lookup (w_n wq) (mmap st') = Some eq).
  { intros Hq. assert (Hpr : protected st eq).
    { destruct Hq as [[Hq Hr]|Hq]; [right; eauto|left]. destruct (i_c1 _ I _ _ _ Hq) as (X & _). congruence. }
    destruct (i_P3 _ _ C _ _ _ Hq) as [Hs|Hl]; [left; eapply step_scrapped_mono; eauto|]. apply (Kp _ _ Hl Hpr). }
  destruct (Nat.eq_dec tq s) as [->|Hne].
  - destruct (enter_lock_phase _ _ _ _ _ _ _ I H Hu) as [[_ Hl]|Hq]; auto.
  - rewrite (step_other_tx _ _ _ _ _ _ H Hne) in Hu. auto.
Qed.

Lemma flags_mono : forall fixed limit st s st' t, step fixed limit st s = Some st' ->
  (done (txs st' t) = false -> done (txs st t) = false) /\
  (failed (txs st' t) = false -> failed (txs st t) = false).
Proof.
  intros fixed limit st s st' t H. destruct (Nat.eq_dec t s) as [->|Hne].
  - break_step H.
    all: simpl; try (destruct (commit_all_frame (failed (txs st s) || fail) (p :: l0) st) as (_ & _ & _ & Ft); rewrite Ft).
    all: rewrite upd_eq; simpl; auto; split; congruence.
  - rewrite (step_other_tx _ _ _ _ _ _ H Hne). auto.
Qed.

Lemma written_trans : forall fixed limit st s st' t n e, Inv0 st -> step fixed limit st s = Some st' ->
  lookup n (written (txs st' t)) = Some e ->
  lookup n (written (txs st t)) = Some e \/
  (t = s /\ ((exists w, ph (txs st s) = PCreate w /\ w_ro w = false /\ n = w_n w /\ e = nexte st /\
                         ((limit =? 0)%Z = false -> lookup n (mmap st') = Some e)) \/
             (exists w, ph (txs st s) = PWait w e /\ n = w_n w))).
Proof.
  intros fixed limit st s st' t n e I H Hl. destruct (Nat.eq_dec t s) as [->|Hne].
  2:{ rewrite (step_other_tx _ _ _ _ _ _ H Hne) in Hl. auto. }
  step_field I H. all: commit_setup I.
  all: simpl in Hl; try rewrite Ct in Hl; rewrite upd_eq in Hl; simpl in Hl; auto.
  all: try rewrite lookup_set_key in Hl.
  all: try match type of Hl with (if ?b then _ else _) = _ => destruct b eqn:Eb; [apply Nat.eqb_eq in Eb; injection Hl as Hl; subst|auto] end.
  all: try (rewrite E3 in Hl; discriminate Hl).
  all: right; split; auto.
  all: try (left; eexists; repeat split; eauto; simpl; intros Hz; try (rewrite Hz in *; simpl in *; congruence); rewrite lookup_set_key, Nat.eqb_refl; reflexivity).
  all: try (right; eexists; split; eauto).
Qed.

Lemma scrapped_new : forall fixed limit st s st' e, Inv0 st -> step fixed limit st s = Some st' ->
  e_scrapped (elems st e) = false -> e_scrapped (elems st' e) = true ->
  (exists w c, ph (txs st s) = PIn w c /\ c_e c = e /\ failed (txs st' s) = true) \/
  (ph (txs st s) = PIdle /\ (exists n, lookup n (written (txs st s)) = Some e) /\
   done (txs st s) = false /\ done (txs st' s) = true).
Proof.
  intros fixed limit st s st' e I H Hf Ht. step_field I H. all: commit_setup I.
  all: try match goal with |- context [commit_all _ _ _] =>
         right; split; [reflexivity|]; split;
         [destruct (Dec e) as [Dd|Dd]; [exact Dd|simpl in Ht; rewrite (C2 _ Dd) in Ht; congruence]|];
         split; auto; simpl; rewrite upd_eq; reflexivity end.
  all: simpl in Ht; upd_cases; simpl in Ht; try congruence.
  all: try (left; do 2 eexists; repeat split; eauto; simpl; rewrite upd_eq; reflexivity).
  right; split; [reflexivity|]; split;
         [destruct (Dec e) as [Dd|Dd]; [exact Dd|simpl in Ht; rewrite <- E3 in Ht; rewrite (C2 _ Dd) in Ht; congruence]|].
  split; auto. simpl. rewrite upd_eq. reflexivity.
Qed.

Lemma step_I3 : forall fixed limit st s st', Inv0 st -> InvW st -> InvC limit st ->
  step fixed limit st s = Some st' -> keeps st st' ->
  (limit =? 0)%Z = false -> forall t n e, lookup n (written (txs st' t)) = Some e ->
          done (txs st' t) = false -> failed (txs st' t) = false ->
          e_scrapped (elems st' e) = true \/ lookup n (mmap st') = Some e.
Proof.
  intros fixed limit st s st' I W C H Kp Hz t n e Hl Hd Hf.
  destruct (flags_mono _ _ _ _ _ t H) as [Fd Ff]. specialize (Fd Hd). specialize (Ff Hf).
  destruct (written_trans _ _ _ _ _ _ _ _ I H Hl) as [Ho|[-> [(w & Hp & Hr & -> & -> & Hreg)|(w & Hp & ->)]]].
  - destruct (i_I3 _ _ C Hz _ _ _ Ho Fd Ff) as [Hs|Hm]; [left; eapply step_scrapped_mono; eauto|].
    apply (Kp _ _ Hm). left. destruct (i_c4 _ I _ _ _ Ho Fd) as (X & _). congruence.
  - right. auto.
  - destruct (i_P3 _ _ C s w e (or_intror Hp)) as [Hs|Hm]; [left; eapply step_scrapped_mono; eauto|].
    apply (Kp _ _ Hm). left. destruct (i_c1 _ I _ _ _ Hp) as (X & _). congruence.
Qed.

Lemma step_I4 : forall fixed limit st s st', Inv0 st -> InvW st -> InvC limit st ->
  step fixed limit st s = Some st' -> no_writer_on_scrappedb st (LT s) = true ->
  forall t n e, lookup n (written (txs st' t)) = Some e ->
          done (txs st' t) = false -> failed (txs st' t) = false -> e_scrapped (elems st' e) = true ->
          exists w rl, ph (txs st' t) = PScrap w e rl /\ w_ro w = false.
Proof.
  intros fixed limit st s st' I W C H H2 t n e Hl Hd Hf Hs.
  destruct (flags_mono _ _ _ _ _ t H) as [Fd Ff]. specialize (Fd Hd). specialize (Ff Hf).
  destruct (e_scrapped (elems st e)) eqn:Hs0.
  - (* already scrapped *)
    destruct (written_trans _ _ _ _ _ _ _ _ I H Hl) as [Ho|[-> [(w & Hp & Hr & -> & -> & Hreg)|(w & Hp & ->)]]].
    + destruct (i_I4 _ _ C _ _ _ Ho Fd Ff Hs0) as (w & rl & Hp & Hr).
      destruct (Nat.eq_dec t s) as [->|Hne].
      * exfalso. simpl in H2. rewrite Hp, Hr, Hs0 in H2. discriminate.
      * rewrite (step_other_tx _ _ _ _ _ _ H Hne). eauto.
    + rewrite (i_a0 _ I) in Hs0 by lia. discriminate.
    + destruct (i_c1 _ I _ _ _ Hp) as (_ & _ & Hr).
      revert Hs. clear Hl. step_field I H. all: intros _; simpl; rewrite upd_eq; simpl; try discriminate Hp; try (injection Hp as Hp1 Hp2; subst); eauto.
  - (* scrapped by this step *)
    exfalso. destruct (scrapped_new _ _ _ _ _ _ I H Hs0 Hs) as [(w & c & Hp & <- & Hfs)|(Hp & (n' & Hw) & Hds & Hds')].
    + destruct (Nat.eq_dec t s) as [->|Hne]; [congruence|].
      rewrite (step_other_tx _ _ _ _ _ _ H Hne) in Hl.
      destruct (i_c4 _ I _ _ _ Hl Fd) as (X & Y).
      apply Hne. symmetry. eapply (excl_core limit st t s w c); eauto. rewrite Hp. reflexivity.
    + destruct (Nat.eq_dec t s) as [->|Hne]; [congruence|].
      rewrite (step_other_tx _ _ _ _ _ _ H Hne) in Hl.
      destruct (i_c4 _ I _ _ _ Hl Fd) as (X & _). destruct (i_c4 _ I _ _ _ Hw Hds) as (X' & _). congruence.
Qed.

Lemma map_empty_of_sub : forall (m m' : list (nat * nat)),
  (forall n e, lookup n m' = Some e -> lookup n m = Some e) -> m = [] -> m' = [].
Proof.
  intros m m' Hsub ->. destruct m' as [|[k v] r]; auto.
  specialize (Hsub k v). unfold lookup in Hsub. rewrite Nat.eqb_refl in Hsub. specialize (Hsub eq_refl). discriminate.
Qed.

Lemma step_map_sub_or_new : forall fixed limit st s st' n e, step fixed limit st s = Some st' ->
  lookup n (mmap st') = Some e ->
  lookup n (mmap st) = Some e \/ ((limit =? 0)%Z = false /\ exists w, ph (txs st s) = PCreate w /\ n = w_n w /\ e = nexte st).
Proof.
  intros fixed limit st s st' n e H Hl. break_step H.
  all: simpl in Hl; try (apply commit_all_map_sub in Hl); map_hyp Hl; auto.
  all: try match type of Hl with (if ?b then _ else _) = _ => destruct b eqn:Eb; [apply Nat.eqb_eq in Eb; injection Hl as Hl; subst|auto] end.
  all: right; split; [destruct (limit =? 0)%Z; simpl in *; congruence|eauto].
Qed.

Lemma step_Z : forall fixed limit st s st', InvC limit st -> step fixed limit st s = Some st' ->
  (limit =? 0)%Z = true -> mmap st' = [].
Proof.
  intros fixed limit st s st' C H Hz. apply (map_empty_of_sub (mmap st)); [|apply (i_Z _ _ C Hz)].
  intros n e Hl. destruct (step_map_sub_or_new _ _ _ _ _ _ _ H Hl) as [?|[X _]]; [auto|congruence].
Qed.

Lemma step_MM : forall fixed limit st s st', Inv0 st -> InvC limit st -> step fixed limit st s = Some st' ->
  forall t w, ph (txs st' t) = PCreate w -> lookup (w_n w) (mmap st') = None.
Proof.
  intros fixed limit st s st' I C H. step_field I H.
  all: repeat match goal with Hf : free (mlock _) = true |- _ => apply free_none in Hf end.
  all: commit_setup I.
  all: simpl; try rewrite Ct; intros t' w' Hp; upd_cases; simpl in Hp; try discriminate Hp.
  all: try (pose proof (i_m2 _ I _ _ Hp) as Hm; congruence).
  all: try (injection Hp as Hp; subst; simpl; auto).
  all: try (apply (i_MM _ _ C _ _ Hp)).
Qed.

Lemma step_C : forall fixed limit st s st', Inv0 st -> InvW st -> InvC limit st ->
  step fixed limit st s = Some st' -> keeps st st' -> no_writer_on_scrappedb st (LT s) = true ->
  InvC limit st'.
Proof.
  intros fixed limit st s st' I W C H Kp H2. constructor.
  - eapply step_J; eauto.
  - eapply step_P1; eauto.
  - eapply step_P2; eauto.
  - eapply step_P3; eauto.
  - eapply step_I3; eauto.
  - eapply step_I4; eauto.
  - eapply step_Z; eauto.
  - eapply step_MM; eauto.
Qed.

Lemma del_C : forall limit st n, Inv0 st -> InvC limit st ->
  keeps st (set_map st (remove_key n (mmap st))) -> InvC limit (set_map st (remove_key n (mmap st))).
Proof.
  intros limit st n I C Kp. constructor; simpl.
  - apply (i_J _ _ C).
  - apply (i_P1 _ _ C).
  - apply (i_P2 _ _ C).
  - intros t w e Hq. destruct (i_P3 _ _ C _ _ _ Hq) as [Hs|Hl]; auto.
    apply (Kp _ _ Hl). destruct Hq as [[Hq Hr]|Hq]; [right; eauto|left].
    destruct (i_c1 _ I _ _ _ Hq) as (X & _). congruence.
  - intros Hz t n' e Hl Hd Hf. destruct (i_I3 _ _ C Hz _ _ _ Hl Hd Hf) as [Hs|Hm]; auto.
    apply (Kp _ _ Hm). left. destruct (i_c4 _ I _ _ _ Hl Hd) as (X & _). congruence.
  - apply (i_I4 _ _ C).
  - intros Hz. rewrite (i_Z _ _ C Hz). reflexivity.
  - intros t w Hp. rewrite lookup_remove_key. destruct (Nat.eqb n (w_n w)); auto. apply (i_MM _ _ C _ _ Hp).
Qed.

Lemma del_W : forall st n, InvW st -> InvW (set_map st (remove_key n (mmap st))).
Proof. intros st n W. constructor; simpl; apply W. Qed.

Lemma init_W : forall progs, Forall wf_prog progs -> InvW (init progs).
Proof.
  intros progs Hwf. constructor; intros t; rewrite init_tx; destruct (nth_error progs t) eqn:E; simpl; auto; try discriminate.
  rewrite Forall_forall in Hwf. apply Hwf. eapply nth_error_In; eauto.
Qed.
Lemma init_C : forall limit progs, InvC limit (init progs).
Proof.
  intros limit progs. constructor; intros; try rewrite init_ph in *; try rewrite init_written in *; simpl in *;
    try discriminate; auto.
  destruct H as [[? _]|?]; discriminate.
Qed.

(* all the invariants along a clean run *)
Lemma run_clean : forall fixed limit ls st, Inv0 st -> InvW st -> InvC limit st ->
  clean fixed limit ls st ->
  let st' := run fixed limit ls st in Inv0 st' /\ InvW st' /\ InvC limit st'.
Proof.
  induction ls as [|l ls IH]; simpl; intros st I W C Hc; auto.
  destruct Hc as [[Kp H2] Hc].
  assert (X : Inv0 (next fixed limit st l) /\ InvW (next fixed limit st l) /\ InvC limit (next fixed limit st l)).
  { split; [now apply next_Inv0|]. unfold next in *. destruct (lstep fixed limit st l) eqn:E; auto.
    destruct l as [t|n]; simpl in E.
    - split; [eapply step_W; eauto|eapply step_C; eauto].
    - destruct (free (mlock st)); [|discriminate]. injection E as <-. split; [now apply del_W|now apply del_C]. }
  destruct X as (I' & W' & C'). apply IH; auto.
Qed.

(* ------------------------------------------------------------------ *)
(* exclusion                                                           *)
(* ------------------------------------------------------------------ *)
Lemma excl_of_inv : forall limit st, Inv0 st -> InvC limit st -> excl st.
Proof.
  intros limit st I C. repeat split.
  - intros t e [Hw Hh]. apply (i_c3 _ I _ Hh).
  - intros t t' e [Hw Hh] (w & c & Hp & <-). eapply (excl_core limit st t t' w c); eauto. rewrite Hp. reflexivity.
  - intros t t' e (w & c & Hp & <- & Hro) (w' & c' & Hp' & He).
    assert (Hu : use_of (ph (txs st t)) = Some (w, c)) by (rewrite Hp; reflexivity).
    assert (Hu' : use_of (ph (txs st t')) = Some (w', c')) by (rewrite Hp'; reflexivity).
    destruct (i_a3 _ I _ _ _ Hu) as (_ & _ & Ho). destruct (i_a3 _ I _ _ _ Hu') as (_ & _ & Ho').
    destruct (c_sh c) eqn:Hs.
    + destruct (i_J _ _ C _ _ _ Hu Hs) as [Hr|[Hw Hh]].
      * rewrite (i_e1 _ I _ _ _ Hu Hro) in Hr. discriminate.
      * rewrite <- He in Hw, Hh. eapply (excl_core limit st t t' w' c'); eauto.
    + rewrite He in Ho'. destruct (c_sh c'); congruence.
  - intros t w c Hp Hs (n & Hl).
    assert (Hu : use_of (ph (txs st t)) = Some (w, c)) by (rewrite Hp; reflexivity).
    destruct (i_a3 _ I _ _ _ Hu) as (_ & _ & Ho). rewrite Hs in Ho.
    destruct (i_a1 _ I _ _ Hl) as (_ & _ & Ho'). congruence.
Qed.

Lemma thm_exclusion : forall fixed limit progs ls, Forall wf_prog progs ->
  clean fixed limit ls (init progs) -> excl (run fixed limit ls (init progs)).
Proof.
  intros fixed limit progs ls Hwf Hc.
  destruct (run_clean fixed limit ls (init progs) (init_Inv0 progs) (init_W progs Hwf) (init_C limit progs) Hc) as (I & W & C).
  eapply excl_of_inv; eauto.
Qed.

(* ------------------------------------------------------------------ *)
(* coherence                                                           *)
(* ------------------------------------------------------------------ *)
Local Arguments commit_one : simpl never.

Lemma has_key_cons : forall n k v m, has_key n ((k, v) :: m) = Nat.eqb k n || has_key n m.
Proof. intros. unfold has_key, lookup. fold lookup. destruct (Nat.eqb k n); auto. Qed.
Lemma lookup_cons : forall n k v m, lookup n ((k, v) :: m) = if Nat.eqb k n then Some v else lookup n m.
Proof. reflexivity. Qed.

Lemma commit_ok_view : forall W st,
  NoDup (map fst W) -> (forall n e, In (n, e) W -> e_name (elems st e) = n) ->
  (forall n, committed (commit_all false st W) n = if has_key n W then S (committed st n) else committed st n) /\
  (forall n e, lookup n W = Some e -> e_built (elems (commit_all false st W) e) = S (committed st n)).
Proof.
  induction W as [|[k x] W IH]; intros st Hnd Hnm.
  - split; intros; [reflexivity|discriminate].
  - inversion Hnd as [|? ? Hk Hnd']; subst.
    set (st2 := commit_one false st (k, x)).
    assert (E2 : forall y, elems st2 y = if Nat.eqb y x then e_set_writer (e_set_built (elems st x) (S (committed st k))) None false else elems st y).
    { intros y. unfold st2, commit_one. simpl. unfold upd. destruct (Nat.eqb y x); auto. }
    assert (C2 : forall n, committed st2 n = if Nat.eqb n k then S (committed st k) else committed st n).
    { intros n. unfold st2, commit_one. simpl. unfold upd. destruct (Nat.eqb n k); auto. }
    assert (Hnm2 : forall n e, In (n, e) W -> e_name (elems st2 e) = n).
    { intros n e Hin. rewrite E2. destruct (Nat.eqb_spec e x); subst; simpl; apply Hnm; simpl; auto. }
    destruct (IH st2 Hnd' Hnm2) as [IH1 IH2].
    assert (HkW : has_key k W = false).
    { destruct (has_key k W) eqn:Hh; auto. apply has_key_lookup in Hh. destruct Hh as [e He].
      exfalso. apply Hk. apply in_map_iff. exists (k, e). split; auto. now apply lookup_In. }
    change (commit_all false st ((k, x) :: W)) with (commit_all false st2 W).
    split.
    + intros n. rewrite IH1, has_key_cons, C2. destruct (Nat.eqb_spec k n); subst.
      * rewrite HkW, Nat.eqb_refl. reflexivity.
      * simpl. destruct (Nat.eqb_spec n k); [congruence|]. reflexivity.
    + intros n e Hl. rewrite lookup_cons in Hl. destruct (Nat.eqb_spec k n); subst.
      * injection Hl as <-.
        destruct (commit_all_elems false W st2 x) as [_ Hsame]. rewrite Hsame.
        -- rewrite E2, Nat.eqb_refl. reflexivity.
        -- intros Hin. apply in_map_iff in Hin. destruct Hin as ([n' x'] & Hx & Hin). simpl in Hx. subst x'.
           assert (n' = n). { rewrite <- (Hnm n' x) by (simpl; auto). apply Hnm. simpl; auto. }
           subst. apply Hk. apply in_map_iff. exists (n, x). auto.
      * rewrite (IH2 _ _ Hl), C2. destruct (Nat.eqb_spec n k); [congruence|]. reflexivity.
Qed.

Lemma step_coh : forall fixed limit st s st', Inv0 st -> InvW st -> InvC limit st -> coherent st ->
  step fixed limit st s = Some st' -> coherent st'.
Proof.
  intros fixed limit st s st' I W C Co H. unfold coherent. step_field I H. all: commit_setup I.
  all: simpl; intros n' e' Hl Hs Hw; try (apply commit_all_map_sub in Hl); map_hyp Hl.
  all: try match type of Hl with (if ?b then _ else _) = _ => destruct b eqn:Eb; [apply Nat.eqb_eq in Eb; injection Hl as Hl; subst|] end.
  all: try (destruct (i_a1 _ I _ _ Hl) as (Ha & Hb & Hc)).
  all: simpl in *; upd_cases; simpl in *; try discriminate; try (exfalso; lia); try (apply Co; auto; fail).
  all: try reflexivity.
  (* Commit with written caches *)
  destruct (failed (txs st s) || fail) eqn:Hbad.
  - rewrite commit_all_committed_bad. destruct (Dec e') as [Dd|Dd].
    + destruct (commit_view st s true I) as (V1 & _ & _). destruct (V1 _ Dd) as (_ & _ & _ & _ & _ & _ & X).
      simpl in X. congruence.
    + rewrite (C2 _ Dd) in *. apply Co; auto.
  - apply orb_false_iff in Hbad. destruct Hbad as [Hfs _].
    destruct (commit_ok_view (written (txs st s)) st (i_nd _ I s)) as [K1 K2].
    { intros n e Hin. apply (In_lookup _ _ _ (i_nd _ I s)) in Hin. now destruct (i_a4 _ I _ _ _ Hin) as (_ & X & _). }
    rewrite K1. destruct (Dec e') as [[n Dd]|Dd].
    + assert (n = n') by (destruct (i_a4 _ I _ _ _ Dd) as (_ & X & _); congruence). subst n.
      rewrite (K2 _ _ Dd). unfold has_key. rewrite Dd. reflexivity.
    + rewrite (C2 _ Dd) in *.
      destruct (has_key n' (written (txs st s))) eqn:Hk; [|apply Co; auto].
      exfalso. apply has_key_lookup in Hk. destruct Hk as [ew Hk].
      destruct (limit =? 0)%Z eqn:Hz.
      * rewrite (i_Z _ _ C Hz) in Hl. discriminate.
      * destruct (i_I3 _ _ C Hz _ _ _ Hk E2 Hfs) as [Hsc|Hm].
        -- destruct (i_I4 _ _ C _ _ _ Hk E2 Hfs Hsc) as (w & rl & Hp & _). congruence.
        -- apply (Dd n'). congruence.
Qed.

Lemma run_clean_coh : forall fixed limit ls st, Inv0 st -> InvW st -> InvC limit st -> coherent st ->
  clean fixed limit ls st -> coherent (run fixed limit ls st).
Proof.
  induction ls as [|l ls IH]; simpl; intros st I W C Co Hc; auto.
  destruct Hc as [Hc1 Hc].
  destruct (run_clean fixed limit [l] st I W C (conj Hc1 Logic.I)) as (I' & W' & C'). simpl in I', W', C'.
  apply IH; auto.
  unfold next in *. destruct (lstep fixed limit st l) eqn:E; auto.
  destruct l as [t|n]; simpl in E.
  - eapply (step_coh fixed limit st t s); eauto.
  - destruct (free (mlock st)); [|discriminate]. injection E as <-.
    intros n' e Hl. simpl in *. apply lookup_remove_some in Hl. destruct Hl as [Hl _]. now apply Co.
Qed.

Lemma thm_coherent : forall fixed limit progs ls, Forall wf_prog progs ->
  clean fixed limit ls (init progs) -> coherent (run fixed limit ls (init progs)).
Proof.
  intros fixed limit progs ls Hwf Hc.
  apply run_clean_coh; auto using init_Inv0, init_W, init_C.
  intros n e Hl. simpl in Hl. discriminate.
Qed.

(* ------------------------------------------------------------------ *)
(* the boolean cleanliness check is sound (used for the Examples)       *)
(* ------------------------------------------------------------------ *)
Definition inert_beyond (ntx : nat) (st : state) : Prop :=
  forall t, ntx <= t -> ph (txs st t) = PIdle /\ prog (txs st t) = [].

Lemma keepsb_sound : forall ntx st st', inert_beyond ntx st -> keepsb ntx st st' = true -> keeps st st'.
Proof.
  intros ntx st st' Hin Hk n e Hl Hpr. unfold keepsb in Hk. rewrite forallb_forall in Hk.
  specialize (Hk (n, e) (lookup_In _ _ _ Hl)). simpl in Hk.
  assert (Hp : protectedb ntx st e = true).
  { unfold protectedb. destruct Hpr as [Hw|(t & w & Hp & Hr)].
    - destruct (e_writer (elems st e)); [reflexivity|congruence].
    - apply orb_true_iff. right. apply existsb_exists. exists t. split.
      + apply in_seq. split; [lia|]. simpl. destruct (le_lt_dec ntx t) as [Hle|]; auto.
        destruct (Hin t Hle) as [X _]. congruence.
      + rewrite Hp, Nat.eqb_refl, Hr. reflexivity. }
  rewrite Hp in Hk. simpl in Hk. apply orb_true_iff in Hk. destruct Hk as [Hk|Hk]; auto.
  right. destruct (lookup n (mmap st')) as [e'|]; [|discriminate]. apply Nat.eqb_eq in Hk. congruence.
Qed.

Lemma inert_next : forall ntx fixed limit st l, inert_beyond ntx st -> inert_beyond ntx (next fixed limit st l).
Proof.
  intros ntx fixed limit st l Hin. unfold next. destruct (lstep fixed limit st l) eqn:E; auto.
  destruct l as [t|n]; simpl in E.
  - intros t' Hle. destruct (Nat.eq_dec t' t) as [->|Hne].
    + destruct (Hin t Hle) as [Hp Hpr]. unfold step in E. rewrite Hp, Hpr in E. discriminate.
    + rewrite (step_other_tx _ _ _ _ _ _ E Hne). auto.
  - destruct (free (mlock st)); [|discriminate]. injection E as <-. exact Hin.
Qed.

Lemma cleanb_sound : forall ntx fixed limit ls st, inert_beyond ntx st ->
  cleanb ntx fixed limit ls st = true -> clean fixed limit ls st.
Proof.
  induction ls as [|l ls IH]; simpl; intros st Hin Hc; auto.
  apply andb_true_iff in Hc. destruct Hc as [Hc1 Hc2]. unfold clean_atb in Hc1.
  apply andb_true_iff in Hc1. destruct Hc1 as [Hk H2]. split.
  - split; [eapply keepsb_sound; eauto|exact H2].
  - apply IH; auto. now apply inert_next.
Qed.

Lemma init_inert : forall progs, inert_beyond (length progs) (init progs).
Proof.
  intros progs t Hle. rewrite init_tx. assert (H : nth_error progs t = None) by (apply nth_error_None; exact Hle).
  rewrite H. split; reflexivity.
Qed.

Lemma thm_readers_never_wait : forall fixed limit st t,
  reading (ph (txs st t)) = true -> mlock st = None -> exists st', step fixed limit st t = Some st'.
Proof.
  intros fixed limit st t Hr Hm.
  assert (Hfree : free (mlock st) = true) by (rewrite Hm; reflexivity).
  destruct (ph (txs st t)) eqn:Hp; simpl in Hr; try discriminate Hr; enabled Hp.
Qed.

(* ------------------------------------------------------------------ *)
(* the hypothesis of the progress theorem is satisfiable: if all transactions *)
(* but one are read-only, writers are trivially disjoint                     *)
(* ------------------------------------------------------------------ *)
Definition InvR (R : tid -> Prop) (st : state) : Prop :=
  forall t, R t -> ro_prog (prog (txs st t)) = true /\ written (txs st t) = [] /\
                   match wctx_of (ph (txs st t)) with Some w => w_ro w = true | None => True end.

Lemma ro_tl : forall p, ro_prog p = true -> ro_prog (tl p) = true.
Proof. destruct p; simpl; auto. intros H. apply andb_true_iff in H. tauto. Qed.

Lemma step_R : forall R fixed limit st s st', Inv0 st -> InvR R st -> step fixed limit st s = Some st' -> InvR R st'.
Proof.
  intros R fixed limit st s st' I IR H t Rt. destruct (IR t Rt) as (Hp & Hw & Hc).
  destruct (Nat.eq_dec t s) as [->|Hne]; [|rewrite (step_other_tx _ _ _ _ _ _ H Hne); auto].
  step_field I H. all: commit_setup I.
  all: simpl; try rewrite Ct; rewrite upd_eq; simpl in *.
  all: try (apply andb_true_iff in Hp; destruct Hp as [Hp1 Hp2]).
  all: repeat split; auto; try congruence.
  all: try (apply ro_tl; assumption).
  all: try (rewrite E0; simpl; auto).
  all: try (apply andb_true_iff; auto).
Qed.

Lemma next_R : forall R fixed limit st l, Inv0 st -> InvR R st -> InvR R (next fixed limit st l).
Proof.
  intros R fixed limit st l I IR. unfold next. destruct (lstep fixed limit st l) eqn:E; auto.
  destruct l as [t|n]; simpl in E.
  - eapply step_R; eauto.
  - destruct (free (mlock st)); [|discriminate]. injection E as <-. exact IR.
Qed.

Lemma R_disjoint : forall R st w0, InvR R st -> (forall t, t <> w0 -> R t) -> disjoint_writers st.
Proof.
  intros R st w0 IR Hall t t' n [_ A] [_ A'].
  assert (X : forall u, (has_key n (written (txs st u)) = true \/ cur_write (ph (txs st u)) = Some n) -> u = w0).
  { intros u Hu. destruct (Nat.eq_dec u w0) as [|Hne]; auto. exfalso.
    destruct (IR u (Hall u Hne)) as (_ & Hw & Hc). destruct Hu as [Hu|Hu].
    - rewrite Hw in Hu. discriminate.
    - destruct (ph (txs st u)); simpl in *; try discriminate; rewrite Hc in Hu; discriminate. }
  rewrite (X t A), (X t' A'). reflexivity.
Qed.

Lemma always_disjoint_single_writer : forall R w0 limit ls st, Inv0 st -> InvR R st ->
  (forall t, t <> w0 -> R t) -> always disjoint_writers true limit ls st.
Proof.
  induction ls as [|l ls IH]; simpl; intros st I IR Hall.
  - eapply R_disjoint; eauto.
  - split; [eapply R_disjoint; eauto|]. apply IH; auto using next_Inv0, next_R.
Qed.

Lemma thm_progress_single_writer : forall limit progs ls w0,
  (forall t p, t <> w0 -> nth_error progs t = Some p -> ro_prog p = true) ->
  let st := run true limit ls (init progs) in
  (exists t, ~ finished (txs st t)) -> exists t st', step true limit st t = Some st'.
Proof.
  intros limit progs ls w0 Hro st Hex. apply thm_progress; auto.
  apply (always_disjoint_single_writer (fun t => t <> w0) w0); auto using init_Inv0.
  intros t Ht. rewrite init_tx. destruct (nth_error progs t) eqn:E; simpl; auto.
  repeat split; auto. eapply Hro; eauto.
Qed.
