(* Props_C18.v -- property C18: no request crashes the server; invalid input
   is refused without side effects.  Only statements; every proof is
   `exact <lemma>`.

   The model (Model_C18.v) starts after Go's JSON / MessagePack decoders.
   "For all byte strings" is therefore NOT a theorem here: the decoders, the
   middleware and the router are exercised by the structured-mutation and
   raw-byte streams of the harness and judged by Run_C18.v (partial).

   What IS proved, for every decoded request, over the constants that
   gen/gen_doc_limits.py regenerates from the Go sources on every run
   (DocLimits.v: enf_* from the Validate() bodies, doc_* from the binding tags,
   vs_*/eval_*/ccm_*/hdl_* structural facts):

     c18_dimension_guard, c18_write_dimension_guard   a vector whose length differs from the
                                      index dimension never reaches a distance computation
                                      (hypothesis of C20's no-out-of-bounds theorem)
     c18_filter_recursion_covered     ValidateSchema checks every position the evaluator reaches
     c18_limits                       accepted requests satisfy every documented bound
     c18_undocumented_gap_index_schema_required   ... except one documented bound that Validate() does not enforce
     c18_accepted_index_buildable     an accepted vector index never has a product quantizer that cannot be built
     c18_former_gaps_*                the gaps of the pinned tree (NaN alpha, triggerThreshold, unbuildable product
                                      quantizer): closed by fix commits, the pinned checks (_v0) accepted the witnesses
     c18_invalid_no_effect            a rejected request performs no cluster call
     c18_v1_*                         v1 handlers never panic; the pinned ones (_v0) dereferenced nil on v2 collections *)
From Coq Require Import List ZArith NArith Bool String QArith.
From Semadb Require Import DocLimits Dyadic Model_C18 Proofs_C18.
Import ListNotations.
Open Scope Z_scope.

(* --- search path: if the handler's validation (SearchRequest.Validate + Query.ValidateSchema)
       accepts a request against a schema that passed creation-time validation, then every
       (index dimension, query vector length) pair the evaluator of shard/index/search.go hands
       to a distance function -- through _and, _or and the filters of vectorFlat / vectorVamana /
       text leaves -- has equal components, and the common length is a documented vector size --- *)
Theorem c18_dimension_guard : forall schema req,
  validate_ischema schema = true -> validate_search schema req = true ->
  Forall (fun p => fst p = snd p /\ doc_dim_ok (snd p) = true) (eval_reach schema (sr_query req)).
Proof. exact dimension_guard. Qed.
Print Assumptions c18_dimension_guard.

(* the v1 search handler goes through the same evaluator with the query it builds *)
Theorem c18_dimension_guard_v1 : forall schema req,
  handler_search1 schema req = Call OpSearch ->
  Forall (fun p => fst p = snd p) (eval_reach schema (v1_query req)).
Proof. exact dimension_guard_v1. Qed.
Print Assumptions c18_dimension_guard_v1.

(* --- write path: a point accepted by CheckCompatibleMap (+ id and size tests) has exactly the
       index dimension for every vector property that the index dispatcher will extract.  The value
       CheckCompatibleMap validates (ccm_value) IS the value the dispatcher reaches (pval_of, msgpack
       Decoder.Query on the stored bytes) because both resolve the property by splitting its name on "."
       and walking maps -- side conditions ccm_resolves_by_nested_walk and dispatch_resolves_by_query, read
       off the two sources by the translator; e.g. a look-up of the whole name as a literal root key first
       makes the first one false and this theorem unprovable --- *)
Theorem c18_write_dimension_guard : forall schema maxsize create_new p,
  validate_ischema schema = true -> point_ok schema maxsize create_new p = true ->
  Forall (fun pr => fst pr = snd pr /\ doc_dim_ok (snd pr) = true) (write_reach schema p).
Proof. exact write_dimension_guard. Qed.
Print Assumptions c18_write_dimension_guard.

Theorem c18_write_dimension_guard_requests : forall schema req,
  validate_ischema schema = true ->
  (validate_insert2 schema req = true \/ validate_update2 schema req = true) ->
  Forall (fun p => Forall (fun pr => fst pr = snd pr /\ doc_dim_ok (snd pr) = true) (write_reach schema p)) (ps_points req).
Proof.
  intros schema req W [H|H]; [exact (insert_dimension_guard schema req W H) | exact (update_dimension_guard schema req W H)].
Qed.
Print Assumptions c18_write_dimension_guard_requests.

Theorem c18_write_dimension_guard_v1 : forall schema req n d,
  handler_insert1 schema req = Call (OpInsert n) \/ handler_update1 schema req = Call (OpUpdate n) ->
  v1_dim schema = Some d -> Forall (fun p => p1_len p = d) (ps1_points req).
Proof. exact write_guard_v1. Qed.
Print Assumptions c18_write_dimension_guard_v1.

(* --- ValidateSchema and the evaluator visit the same leaves: every pair the evaluator can reach
       is one of the pairs ValidateSchema compares, and ValidateSchema accepting means all of them
       are equal.  (Side conditions on the generated structural flags: ValidateSchema recurses into
       _and, _or and the three filters and has both length comparisons.) --- *)
Theorem c18_filter_recursion_covered : forall schema q,
  incl (eval_reach schema q) (vs_pairs schema q) /\
  (validate_schema schema q = true -> Forall (fun p => fst p = snd p) (vs_pairs schema q)).
Proof. intros schema q. split; [exact (reach_covered schema q) | exact (vs_sound schema q)]. Qed.
Print Assumptions c18_filter_recursion_covered.

(* --- documented limits.  A request accepted by the hand-written validation satisfies every bound
       documented by the binding tags (the published JSON schema): collection creation when the
       indexSchema is present (the one remaining gap below), search requests, point batches, both API versions.  Proved from the side
       conditions "enf_* within doc_*" that Coq evaluates on the regenerated constants. --- *)
Theorem c18_limits :
  (forall r, validate_create2 r = true -> nogap_create2 r = true -> doc_create2 r = 0%N) /\
  (forall r, lens_nonneg (sr_query r) = true -> validate_request r = true -> doc_search2 r = true) /\
  (forall s r, validate_insert2 s r = true -> doc_count doc_points_insert_max (ps_points r) = true) /\
  (forall s r, validate_update2 s r = true -> doc_count doc_points_update_max (ps_points r) = true) /\
  (forall ids, validate_delete enf_delete_ids_min enf_delete_ids_max enf_delete_ids_uuid ids = true ->
               doc_count doc_delete_ids_max ids = true /\ forallb (fun b => b) ids = true) /\
  (forall r, validate_create1 r = true -> doc_create1 r = 0%N /\ validate_ischema (v1_schema r) = true) /\
  (forall r, validate_search1 r = true -> doc_search1 r = true) /\
  (forall r, validate_insert1 r = true ->
             doc_count doc_v1_points_insert_max (ps1_points r) = true /\
             forallb (fun p => in_range 1 doc_v1_insert_vector_max (p1_len p)) (ps1_points r) = true) /\
  (forall r, validate_update1 r = true ->
             doc_count doc_v1_points_update_max (ps1_points r) = true /\
             forallb (fun p => in_range 1 doc_v1_update_vector_max (p1_len p)) (ps1_points r) = true) /\
  (forall ids, validate_delete enf_v1_delete_ids_min enf_v1_delete_ids_max true ids = true ->
               doc_count doc_v1_delete_ids_max ids = true /\ forallb (fun b => b) ids = true).
Proof.
  destruct points_doc as [A [B [C [D [E F]]]]].
  split; [exact create2_doc|]. split; [exact search2_doc|]. split; [exact A|]. split; [exact B|].
  split; [exact C|]. split; [intros r H; split; [exact (create1_doc r H) | exact (v1_schema_valid r H)]|].
  split; [exact search1_doc|]. split; [exact D|]. split; [exact E | exact F].
Qed.
Print Assumptions c18_limits.

(* --- the one documented limit that Validate() does NOT enforce: indexSchema is tagged required, a
       request without it is accepted (code 23 of doc_create2).  The published OpenAPI file does not
       list it as required, so this is left as a documentation discrepancy. --- *)
Theorem c18_undocumented_gap_index_schema_required :
  validate_create2 (mkC2 3 [97; 98; 99]%N false []) = true /\
  doc_create2 (mkC2 3 [97; 98; 99]%N false []) = 23%N.
Proof. exact gap_schema_required. Qed.
Print Assumptions c18_undocumented_gap_index_schema_required.

(* --- an accepted vector index can always be built: a product quantizer is only accepted with a metric
       it serves and a numSubVectors that divides the vector size (Quantizer.ValidateFor), so no later
       insert or search fails in vectorstore.New --- *)
Theorem c18_accepted_index_buildable :
  (forall p, validate_flat p = true -> pq_unbuildable p = false) /\
  (forall p, validate_vamana p = true -> pq_unbuildable p = false).
Proof. exact accepted_index_buildable. Qed.
Print Assumptions c18_accepted_index_buildable.

(* --- the former gaps: alpha = NaN, a binary-quantizer triggerThreshold outside 0..50000 next to a
       threshold, a product quantizer with 2 sub-vectors on a 5-dimensional index.  All three creation
       requests are refused now; the checks of the pinned tree accepted them --- *)
Theorem c18_former_gaps_closed :
  validate_create2 (mkC2 3 [97; 98; 99]%N true (gap_schema f32_nan None)) = false /\
  validate_create2 (mkC2 3 [97; 98; 99]%N true (gap_schema f32_1_2 (Some (mkQz "binary" (Some (mkBQ true (-5) "hamming")) None)))) = false /\
  validate_create2 (mkC2 3 [97; 98; 99]%N true gap_schema_pq) = false.
Proof. exact former_gaps_rejected. Qed.
Print Assumptions c18_former_gaps_closed.

Theorem c18_former_gaps_refuted_v0 :
  alpha_ok_gen false f32_nan = true /\ f32_in_Q doc_alpha_min doc_alpha_max f32_nan = false /\
  validate_bq_gen true (mkBQ true (-5) "hamming") = true /\ doc_bq (mkBQ true (-5) "hamming") = 22%N /\
  pq_unbuildable (mkVP 5 "euclidean" 0 0 0%N (Some (mkQz "product" None (Some (mkPQ 4 2 1000))))) = true /\
  validate_oquant (Some (mkQz "product" None (Some (mkPQ 4 2 1000)))) = true.
Proof. exact former_gaps_v0. Qed.
Print Assumptions c18_former_gaps_refuted_v0.

(* --- a rejected request performs no cluster call: every handler returns before its first
       clusterNode.* call when validation fails (side condition: the generator found the
       validation calls textually before the cluster call in every handler body) --- *)
Theorem c18_invalid_no_effect :
  (forall r, validate_create2 r = false -> handler_create2 r = Reject) /\
  (forall s r, validate_insert2 s r = false -> handler_insert2 s r = Reject) /\
  (forall s r, validate_update2 s r = false -> handler_update2 s r = Reject) /\
  (forall ids, validate_delete enf_delete_ids_min enf_delete_ids_max enf_delete_ids_uuid ids = false -> handler_delete2 ids = Reject) /\
  (forall s r, validate_search s r = false -> handler_search2 s r = Reject) /\
  (forall r, validate_create1 r = false -> handler_create1 r = Reject) /\
  (forall s r, validate_insert1 r = false -> handler_insert1 s r = Reject) /\
  (forall s r, validate_update1 r = false -> handler_update1 s r = Reject) /\
  (forall ids, validate_delete enf_v1_delete_ids_min enf_v1_delete_ids_max true ids = false -> handler_delete1 ids = Reject) /\
  (forall s r, validate_search1 r = false -> handler_search1 s r = Reject) /\
  (forall s r d, v1_dim s = Some d -> points1_fit d r = false ->
                 handler_insert1 s r = Reject /\ handler_update1 s r = Reject) /\
  (forall s r d, v1_dim s = Some d -> s1_len r <> d -> handler_search1 s r = Reject) /\
  (* v1 request on a collection without a vamana index named "vector" *)
  (forall s, v1_dim s = None ->
     handler_get1 s = Reject /\ (forall r, handler_insert1 s r = Reject) /\
     (forall r, handler_update1 s r = Reject) /\ (forall r, handler_search1 s r = Reject)).
Proof.
  destruct invalid_no_effect_v2 as [A [B [C [D E]]]]. destruct invalid_no_effect_v1 as [F [G [H [I [J [K L]]]]]].
  repeat split; try assumption; intros;
    first [ apply (K s r d); assumption | apply (v1_missing_index_rejected s); assumption ].
Qed.
Print Assumptions c18_invalid_no_effect.

Theorem c18_valid_reaches_cluster :
  (forall r, validate_create2 r = true -> handler_create2 r = Call OpCreate) /\
  (forall s r, validate_insert2 s r = true -> handler_insert2 s r = Call (OpInsert (Z.of_nat (List.length (ps_points r))))) /\
  (forall s r, validate_update2 s r = true -> handler_update2 s r = Call (OpUpdate (Z.of_nat (List.length (ps_points r))))) /\
  (forall s r, validate_search s r = true -> handler_search2 s r = Call OpSearch).
Proof. exact valid_reaches_cluster. Qed.
Print Assumptions c18_valid_reaches_cluster.

(* --- v1 handlers fetch IndexSchema["vector"].VectorVamana through a helper and test it for nil: on no
       collection does a v1 handler panic.  The pinned handlers dereferenced it directly: on a collection
       created through v2 they panicked (witness kept for the unguarded handlers, _v0) --- *)
Theorem c18_v1_no_panic : forall s,
  handler_get1 s <> Panic /\ handler_list1 [s] <> Panic /\ (forall r, handler_insert1 s r <> Panic) /\
  (forall r, handler_update1 s r <> Panic) /\ (forall r, handler_search1 s r <> Panic).
Proof. exact v1_no_panic. Qed.
Print Assumptions c18_v1_no_panic.

Theorem c18_v1_nil_deref_refuted_v0 :
  validate_ischema flat_only_schema = true /\
  handler_get1_gen true flat_only_schema = Panic /\
  handler_list1_gen true [flat_only_schema] = Panic /\
  validate_search1 (mkSr1 2 10) = true /\ handler_search1_gen true flat_only_schema (mkSr1 2 10) = Panic /\
  validate_insert1 (mkPts1 [mkPt1 IdAbsent 2 20] 1000) = true /\
  handler_points1_gen true hdl_v1_insert_validates_first (validate_insert1 (mkPts1 [mkPt1 IdAbsent 2 20] 1000))
                      flat_only_schema (mkPts1 [mkPt1 IdAbsent 2 20] 1000) (OpInsert 1) = Panic.
Proof. exact v1_nil_deref_refuted_v0. Qed.
Print Assumptions c18_v1_nil_deref_refuted_v0.

(* ------------------------------------------------------------------ *)
(* Examples: the hypotheses are satisfiable by non-trivial data         *)

Definition ex_schema : ischema :=
  [ ("vec"%string,  mkIV "vectorVamana" None (Some (mkVP 4 "euclidean" 75 64 f32_1_2 None)) None false false);
    ("flat"%string, mkIV "vectorFlat" (Some (mkVP 3 "cosine" 0 0 0%N
                       (Some (mkQz "product" None (Some (mkPQ 16 3 1000)))))) None None false false);
    ("desc"%string, mkIV "text" None None (Some "standard"%string) false false);
    ("cat"%string,  mkIV "string" None None None true false);
    ("size"%string, mkIV "integer" None None None false false) ].

(* text leaf whose filter is an _and of an integer leaf and a flat vector leaf whose own filter
   is a vamana leaf: the evaluator reaches two distance computations, both behind filters *)
Definition ex_query : query :=
  Qry "desc" None None
      (Some (mkR 5 "containsAny" 0 10
         (Some (Qry "_and" None None None None None None None
            [ Qry "size" None None None None (Some (mkS 0 "inRange" true false)) None None [] [];
              Qry "flat" (Some (mkR 3 "near" 0 5
                   (Some (Qry "vec" None (Some (mkR 4 "near" 75 10 None)) None None None None None [] []))))
                  None None None None None None [] [] ] []))))
      None None None None [] [].
Definition ex_request : search2 := mkSr ex_query 2 true 0 10.

Example ex_schema_valid : validate_ischema ex_schema = true. Proof. vm_compute. reflexivity. Qed.
Example ex_request_valid : validate_search ex_schema ex_request = true. Proof. vm_compute. reflexivity. Qed.
Example ex_reach : eval_reach ex_schema ex_query = [(4, 4); (3, 3)]. Proof. vm_compute. reflexivity. Qed.
Example ex_request_documented : doc_search2 ex_request = true. Proof. vm_compute. reflexivity. Qed.

(* the same request with a 5-element vector three levels down is refused, and so is a wrong
   length inside the filter of a text query *)
Definition ex_query_bad : query :=
  Qry "desc" None None
      (Some (mkR 5 "containsAny" 0 10
         (Some (Qry "vec" None (Some (mkR 5 "near" 75 10 None)) None None None None None [] []))))
      None None None None [] [].
Example ex_bad_rejected :
  validate_request (mkSr ex_query_bad 0 true 0 10) = true /\
  validate_search ex_schema (mkSr ex_query_bad 0 true 0 10) = false /\
  eval_reach ex_schema ex_query_bad = [(4, 5)] /\
  handler_search2 ex_schema (mkSr ex_query_bad 0 true 0 10) = Reject.
Proof. vm_compute. repeat split; reflexivity. Qed.

Definition ex_point : point :=
  mkPt IdValid [("vec"%string, PArr 4 true false); ("flat"%string, PArr 3 true false);
                ("desc"%string, PStr); ("size"%string, PNum64)] 120 [].
Example ex_point_ok : point_ok ex_schema 1000 true ex_point = true /\ write_reach ex_schema ex_point = [(4, 4); (3, 3)].
Proof. vm_compute. split; reflexivity. Qed.
Example ex_point_bad :
  point_ok ex_schema 1000 true (mkPt IdValid [("vec"%string, PArr 5 true false)] 60 []) = false /\
  handler_insert2 ex_schema (mkPts [ex_point; mkPt IdValid [("vec"%string, PArr 5 true false)] 60 []] 1000) = Reject.
Proof. vm_compute. split; reflexivity. Qed.

(* a point that carries a well-formed literal root key "nested.v" next to a nested map whose "v" has the
   wrong length: the nested walk (= what the dispatcher reaches) counts, the point is refused *)
Definition ex_dotted_schema : ischema :=
  [("nested.v"%string, mkIV "vectorFlat" (Some (mkVP 2 "euclidean" 0 0 0%N None)) None None false false)].
Example ex_literal_key_ignored :
  point_ok ex_dotted_schema 1000 true (mkPt IdAbsent [("nested.v"%string, PArr 3 true false)] 60 [("nested.v"%string, PArr 2 true false)]) = false /\
  point_ok ex_dotted_schema 1000 true (mkPt IdAbsent [("nested.v"%string, PArr 2 true false)] 60 [("nested.v"%string, PArr 3 true false)]) = true /\
  write_reach ex_dotted_schema (mkPt IdAbsent [("nested.v"%string, PArr 2 true false)] 60 [("nested.v"%string, PArr 3 true false)]) = [(2, 2)].
Proof. vm_compute. repeat split; reflexivity. Qed.

Example ex_create_documented :
  validate_create2 (mkC2 5 [97; 98; 99; 49; 50]%N true ex_schema) = true /\
  nogap_create2 (mkC2 5 [97; 98; 99; 49; 50]%N true ex_schema) = true /\
  doc_create2 (mkC2 5 [97; 98; 99; 49; 50]%N true ex_schema) = 0%N.
Proof. vm_compute. repeat split; reflexivity. Qed.

Example ex_v1 :
  validate_create1 (mkC1 4 [118; 111; 110; 101]%N 3 "cosine") = true /\
  handler_search1 (v1_schema (mkC1 4 [118; 111; 110; 101]%N 3 "cosine")) (mkSr1 3 0) = Call OpSearch /\
  handler_search1 (v1_schema (mkC1 4 [118; 111; 110; 101]%N 3 "cosine")) (mkSr1 4 0) = Reject /\
  eval_reach (v1_schema (mkC1 4 [118; 111; 110; 101]%N 3 "cosine")) (v1_query (mkSr1 3 0)) = [(3, 3)].
Proof. vm_compute. repeat split; reflexivity. Qed.
