(* Model_C04.v -- vector distances as exact rationals and the relational
   specification of exact k-nearest-neighbour answers (used by C03, C04, C17).
   Definitions only. *)
From Coq Require Import List NArith ZArith QArith Bool.
From Semadb Require Import Bytes Value Obs Dyadic Model_C01 Model_C02.
Import ListNotations.
Open Scope N_scope.

(* the float32 vector stored at a path, as bit patterns *)
Definition f32_elems (l : list value) : option (list N) :=
  map_opt (fun v => match v with VF32 b => Some b | _ => None end) l.
Definition vec_at (path : bytes) (d : doc) : option (list N) :=
  match prop_value path d with
  | QFound (VArr l) => f32_elems l
  | _ => None
  end.

Definition qvec (v : list N) : list Q := map f32_to_Q v.

Fixpoint qsum (l : list Q) : Q := match l with [] => 0%Q | x :: r => (x + qsum r)%Q end.
Fixpoint zip_with {A B C} (f : A -> B -> C) (a : list A) (b : list B) : list C :=
  match a, b with x :: a', y :: b' => f x y :: zip_with f a' b' | _, _ => [] end.

Definition q_sqeuclid (x y : list Q) : Q := qsum (zip_with (fun a b => (a - b) * (a - b))%Q x y).
Definition q_dot (x y : list Q) : Q := qsum (zip_with Qmult x y).

(* thresholded bits: bit i = (v_i > thr_i) *)
Definition bits_of (thr v : list Q) : list bool := zip_with (fun t x => Qltb t x) thr v.
Definition count_true (l : list bool) : Z := Z.of_nat (length (filter (fun b => b) l)).
Definition q_hamming (a b : list bool) : Q := inject_Z (count_true (zip_with xorb a b)).
Definition q_jaccard (a b : list bool) : Q :=
  let i := count_true (zip_with andb a b) in
  let u := count_true (zip_with orb a b) in
  if (u =? 0)%Z then 0%Q else (1 - Qmake i (Z.to_pos u))%Q.

(* how a distance is to be judged *)
Inductive dspec :=
| DExact (q : Q)            (* must be exactly this value *)
| DApprox (q : Q)           (* equal up to relative 2^-20 (one float32 division / product) *)
| DOracle.                  (* taken from the harness-side reference (haversine, product quantiser) *)

Definition const_list {A} (x : A) (n : nat) : list A := repeat x n.

(* the distance the index reports between query q and stored vector v.
   trained: the learned thresholds if the binary quantiser has been fitted. *)
Definition model_dist (metric : N) (qz : quant) (trained : option (list N)) (q v : list N) : dspec :=
  let xq := qvec q in let xv := qvec v in
  let float_d :=
    match metric with
    | 0 => DExact (q_sqeuclid xq xv)
    | 1 => DExact (1 - q_dot xq xv)%Q
    | 2 => DExact (- q_dot xq xv)%Q
    | 3 => let t := const_list (1#2)%Q (length q) in DExact (q_hamming (bits_of t xq) (bits_of t xv))
    | 4 => let t := const_list (1#2)%Q (length q) in DApprox (q_jaccard (bits_of t xq) (bits_of t xv))
    | _ => DOracle
    end in
  let bit_d (bm : N) (t : list Q) :=
    if bm =? 3 then DExact (q_hamming (bits_of t xq) (bits_of t xv))
    else DApprox (q_jaccard (bits_of t xq) (bits_of t xv)) in
  match metric with
  | 3 | 4 => float_d          (* hamming / jaccard indexes always use the fixed 0.5 threshold *)
  | _ =>
    match qz with
    | QNone => float_d
    | QBinFixed thr bm => bit_d bm (const_list (f32_to_Q thr) (length q))
    | QBinLearned _ bm => match trained with
                          | Some t => bit_d bm (qvec t)
                          | None => float_d
                          end
    | QProduct _ _ _ => DOracle
    end
  end.

(* ---------- the relational k-NN specification on reported rows ---------- *)

Record cand := mkCand { c_id : uuid; c_spec : dspec; c_oracle : option Q }.

Definition dist_ok (c : cand) (reported : Q) : bool :=
  match c_spec c with
  | DExact q => Qeqb reported q
  | DApprox q => Qclose_rel (1 # 1000000) reported q
  | DOracle => match c_oracle c with Some o => Qclose_rel (1 # 10000) reported o | None => false end
  end.

Fixpoint find_cand (id : uuid) (cs : list cand) : option cand :=
  match cs with [] => None | c :: r => if bytes_eqb id (c_id c) then Some c else find_cand id r end.

Fixpoint sorted_q (l : list Q) : bool :=
  match l with
  | [] => true
  | x :: r => match r with [] => true | y :: _ => Qleb x y && sorted_q r end
  end.

Definition row_dist (r : row) : option Q := option_map f32_to_Q (r_dist r).

(* code 0 = the rows are an exact k-nearest selection of the candidates:
   1 duplicate ids, 2 a row that is not a candidate, 3 missing/NaN distance, 4 reported distance wrong,
   5 wrong number of rows, 6 not in non-decreasing distance order, 7 a closer candidate was left out *)
Definition ksel_code (k : N) (cs : list cand) (rows : list row) : N :=
  let ids := map r_id rows in
  if negb (nodup_ids ids) then 1 else
  if negb (forallb (fun r => match find_cand (r_id r) cs with Some _ => true | None => false end) rows) then 2 else
  if negb (forallb (fun r => match r_dist r with Some b => negb (f32_is_nan b) | None => false end) rows) then 3 else
  if negb (forallb (fun r => match find_cand (r_id r) cs, row_dist r with
                            | Some c, Some d => dist_ok c d | _, _ => false end) rows) then 4 else
  if negb (N.of_nat (length rows) =? N.min k (N.of_nat (length cs))) then 5 else
  let ds := flat_map (fun r => match row_dist r with Some d => [d] | None => [] end) rows in
  if negb (sorted_q ds) then 6 else
  let worst := last ds 0%Q in
  (* every candidate left out must not be strictly closer than the worst row (up to the judging tolerance) *)
  if negb (forallb (fun c =>
       mem_bytes (c_id c) ids ||
       match c_spec c with
       | DExact q => Qleb worst q
       | DApprox q => Qleb (worst - (1 # 100000)) q
       | DOracle => match c_oracle c with Some o => Qleb (worst - (1 # 1000) * Qabs' worst - (1#1000)) o | None => false end
       end) cs) then 7 else 0.

(* hybrid score: -(weight * distance) computed in float32 *)
Definition weight_q (w : option N) : Q := match w with Some b => f32_to_Q b | None => 1%Q end.
Definition hybrid_ok (w : option N) (r : row) : bool :=
  match row_dist r with
  | Some d => Qclose_rel (1 # 1000000) (f32_to_Q (r_hybrid r)) (- (weight_q w * d))%Q
  | None => false
  end.
