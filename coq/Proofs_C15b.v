(* Proofs_C15b.v -- the checker of stored ranges (Model_C15.live_ranges_b) accepts what the model's
   assignment stores: for every assignment that is a contiguous ordered partition over distinct shards
   (partition_spec, which c15_partition proves of every result of distribute), the per-shard position
   lists model_stored out 0 .. model_stored out (nshards-1) pass live_ranges_b. Together with
   live_ranges_sound (Proofs_C15.v) the checker is exact on model-conforming behaviour: it raises no
   alarm on it and accepts nothing that is not a partition into contiguous ranges. *)
From Coq Require Import List NArith ZArith Bool Arith Sorted Lia.
From Coq Require Import ZifyBool ZifyN ZifyNat.
From Semadb Require Import Model_C15 Proofs_C15.
Import ListNotations.

Definition rng (a : assignment) : list N := map N.of_nat (seq (a_start a) (a_end a - a_start a)).

Lemma model_stored_cons : forall a out i,
  model_stored (a :: out) i = (if (a_idx a =? i)%nat then rng a else []) ++ model_stored out i.
Proof. intros. reflexivity. Qed.

Lemma model_stored_above : forall out i, Forall (fun x => (i < a_idx x)%nat) out -> model_stored out i = [].
Proof.
  induction out as [|a out IH]; intros i H; [reflexivity|].
  inversion H as [|? ? Ha Hr]; subst. rewrite model_stored_cons.
  destruct (Nat.eqb_spec (a_idx a) i) as [E|E]; [lia|]. cbn [app]. apply IH. exact Hr.
Qed.

Lemma concat_map_nil : forall (A : Type) (f : nat -> list A) l, (forall i, In i l -> f i = []) -> concat (map f l) = [].
Proof.
  induction l as [|x l IH]; intros H; [reflexivity|]. cbn [map concat].
  rewrite (H x (or_introl eq_refl)). cbn [app]. apply IH. intros i Hi. apply H. right. exact Hi.
Qed.

Lemma concat_map_ext_in : forall (A : Type) (f g : nat -> list A) l, (forall i, In i l -> f i = g i) ->
  concat (map f l) = concat (map g l).
Proof.
  induction l as [|x l IH]; intros H; [reflexivity|]. cbn [map concat].
  rewrite (H x (or_introl eq_refl)). f_equal. apply IH. intros i Hi. apply H. right. exact Hi.
Qed.

(* shards lo .. hi-1 in shard order hold the ranges of the assignment in assignment order *)
Lemma stored_in_order : forall out lo hi,
  StronglySorted lt (map a_idx out) ->
  Forall (fun a => (lo <= a_idx a < hi)%nat) out ->
  concat (map (model_stored out) (seq lo (hi - lo))) = concat (map rng out).
Proof.
  induction out as [|a out IH]; intros lo hi HS F.
  - cbn [map concat]. apply concat_map_nil. intros i _. reflexivity.
  - inversion F as [|? ? Fa Fr]; subst.
    cbn [map] in HS. inversion HS as [|? ? HS' Hlt]; subst.
    assert (Habove : Forall (fun x => (a_idx a < a_idx x)%nat) out).
    { rewrite Forall_forall in *. intros x Hx. apply Hlt. apply in_map. exact Hx. }
    replace (hi - lo)%nat with ((a_idx a - lo) + S (hi - S (a_idx a)))%nat by lia.
    rewrite seq_app, map_app, concat_app.
    replace (lo + (a_idx a - lo))%nat with (a_idx a) by lia.
    cbn [seq map concat].
    (* below idx a: nothing *)
    rewrite concat_map_nil.
    2:{ intros i Hi. apply in_seq in Hi. apply model_stored_above. constructor; [lia|].
        rewrite Forall_forall in *. intros x Hx. specialize (Habove x Hx). lia. }
    cbn [app].
    (* at idx a: its range *)
    rewrite model_stored_cons, Nat.eqb_refl, (model_stored_above out (a_idx a) Habove), app_nil_r.
    f_equal.
    (* above: the rest *)
    rewrite (concat_map_ext_in _ (model_stored (a :: out)) (model_stored out)).
    2:{ intros i Hi. apply in_seq in Hi. rewrite model_stored_cons.
        destruct (Nat.eqb_spec (a_idx a) i) as [E|E]; [lia|reflexivity]. }
    replace (hi - S (a_idx a))%nat with (hi - S (a_idx a))%nat by reflexivity.
    apply IH; [exact HS'|].
    rewrite Forall_forall in *. intros x Hx. specialize (Habove x Hx). specialize (Fr x Hx). lia.
Qed.

Lemma concat_map_rng : forall out,
  concat (map rng out) = map N.of_nat (flat_map (fun a => seq (a_start a) (a_end a - a_start a)) out).
Proof.
  induction out as [|a out IH]; [reflexivity|].
  cbn [map concat flat_map]. rewrite map_app, IH. reflexivity.
Qed.

Lemma contig_from_seq : forall len s, contig_from (N.of_nat s) (map N.of_nat (seq s len)) = true.
Proof.
  induction len as [|len IH]; intros s; [reflexivity|].
  cbn [seq map contig_from]. rewrite N.eqb_refl. cbn [andb].
  replace (N.of_nat s + 1)%N with (N.of_nat (S s)) by lia. apply IH.
Qed.

Lemma contig_b_seq : forall s len, contig_b (map N.of_nat (seq s len)) = true.
Proof.
  intros s [|len]; [reflexivity|]. unfold contig_b. cbn [seq map]. apply (contig_from_seq (S len) s).
Qed.

(* a shard holds the range of at most one assignment *)
Lemma model_stored_shape : forall out i, StronglySorted lt (map a_idx out) ->
  model_stored out i = [] \/ exists a, In a out /\ model_stored out i = rng a.
Proof.
  induction out as [|a out IH]; intros i HS; [left; reflexivity|].
  cbn [map] in HS. inversion HS as [|? ? HS' Hlt]; subst.
  rewrite model_stored_cons. destruct (Nat.eqb_spec (a_idx a) i) as [E|E].
  - right. exists a. split; [left; reflexivity|].
    rewrite (model_stored_above out i); [apply app_nil_r|].
    rewrite Forall_forall in *. intros x Hx. subst i. apply Hlt. apply in_map. exact Hx.
  - cbn [app]. destruct (IH i HS') as [H|[b [Hb H]]]; [left; exact H|].
    right. exists b. split; [right; exact Hb|exact H].
Qed.

Lemma count_n_seq : forall len s i,
  count_n (N.of_nat i) (map N.of_nat (seq s len)) = (if ((s <=? i) && (i <? s + len))%nat then 1 else 0)%nat.
Proof.
  induction len as [|len IH]; intros s i.
  - cbn [seq map count_n]. destruct (s <=? i)%nat eqn:?, (i <? s + 0)%nat eqn:?; try reflexivity; lia.
  - cbn [seq map count_n]. rewrite IH.
    destruct (N.eqb_spec (N.of_nat s) (N.of_nat i)) as [E|E];
      destruct (S s <=? i)%nat eqn:?, (i <? S s + len)%nat eqn:?, (s <=? i)%nat eqn:?, (i <? s + S len)%nat eqn:?;
      cbn [andb]; try reflexivity; lia.
Qed.

Lemma once_each_seq : forall n, once_each_b n (map N.of_nat (seq 0 n)) = true.
Proof.
  intros n. unfold once_each_b. rewrite map_length, seq_length, Nat.eqb_refl. cbn [andb].
  apply forallb_forall. intros i Hi. apply in_seq in Hi. rewrite count_n_seq.
  destruct (0 <=? i)%nat eqn:?, (i <? 0 + n)%nat eqn:?; cbn [andb]; try reflexivity; lia.
Qed.

Theorem live_checker_accepts_model : forall nshards n out,
  partition_spec nshards n out ->
  flat_map (fun a => seq (a_start a) (a_end a - a_start a)) out = seq 0 n ->
  live_ranges_b n (map (model_stored out) (seq 0 nshards)) = true.
Proof.
  intros nshards n out [Hc [Hs Hb]] Hflat. unfold live_ranges_b. apply andb_true_iff. split.
  - apply forallb_forall. intros l Hl. apply in_map_iff in Hl. destruct Hl as [i [Hi _]]. subst l.
    destruct (model_stored_shape out i Hs) as [H|[a [_ H]]]; rewrite H; [reflexivity|apply contig_b_seq].
  - replace nshards with (nshards - 0)%nat at 1 by lia.
    rewrite (stored_in_order out 0 nshards Hs).
    + rewrite concat_map_rng, Hflat. apply once_each_seq.
    + rewrite Forall_forall in *. intros a Ha. specialize (Hb a Ha). cbn beta in Hb. lia.
Qed.

(* every result of distribute passes the checker *)
Theorem live_checker_accepts_distribute : forall shards sizes maxS maxC out created,
  Forall (fun p => (0 <= p <= maxS)%Z) sizes -> (1 <= maxC)%Z ->
  distribute shards sizes maxS maxC = Some (out, created) ->
  live_ranges_b (length sizes) (map (model_stored out) (seq 0 (length shards + created))) = true.
Proof.
  intros shards sizes maxS maxC out created Hs Hc Hd.
  destruct (thm_partition shards sizes maxS maxC out created Hs Hc Hd) as [Hp [Hf _]].
  apply live_checker_accepts_model; assumption.
Qed.
