(* Model_C01.v -- reference spec S of the point store (a plain map from ids to
   documents) and the mechanism model M (the three bbolt buckets as the code
   writes them).  Definitions only. *)
From Coq Require Import List NArith ZArith Bool.
From Semadb Require Import Bytes Value Obs KeyLayout.
Import ListNotations.
Open Scope N_scope.

(* ======================= reference spec S ================================= *)

Definition store := list (uuid * doc).          (* unique ids *)

Fixpoint st_get (id : uuid) (s : store) : option doc :=
  match s with
  | [] => None
  | (i, d) :: r => if bytes_eqb id i then Some d else st_get id r
  end.
Fixpoint st_remove (id : uuid) (s : store) : store :=
  match s with
  | [] => []
  | (i, d) :: r => if bytes_eqb id i then st_remove id r else (i, d) :: st_remove id r
  end.
Definition st_set (id : uuid) (d : doc) (s : store) : store := (id, d) :: st_remove id s.
Definition st_mem (id : uuid) (s : store) : bool := match st_get id s with Some _ => true | None => false end.

Fixpoint has_dup (l : list uuid) : bool :=
  match l with
  | [] => false
  | x :: r => existsb (bytes_eqb x) r || has_dup r
  end.

(* --- typing of a document against the index schema (the dispatcher's casts) --- *)
Definition all_str (l : list value) : bool := forallb (fun v => match v with VStr _ => true | _ => false end) l.
Definition all_f32 (l : list value) : bool := forallb (fun v => match v with VF32 _ => true | _ => false end) l.
(* a term of a string or string-array index becomes a key of the index bucket; the file store refuses the
   empty key when the index is flushed, which fails the whole batch inside the transaction. (The in-memory
   store accepts it; the harness generates such values on file stores only.) *)
Definition key_str (v : value) : bool := match v with VStr [] => false | VStr _ => true | _ => false end.
Definition type_ok (i : idx) (v : value) : bool :=
  match i, v with
  | IInt, VInt _ => true
  | IFloat, VF64 _ => true
  | IStr _, v => key_str v
  | IText, VStr _ => true
  | IStrArr _, VArr l => all_str l && forallb key_str l
  | IFlat _ _ _, VArr l => all_f32 l
  | IVamana _ _ _ _ _ _, VArr l => all_f32 l
  | _, _ => false
  end.
Definition well_typed (sc : schema) (d : doc) : bool :=
  forallb (fun pi => match prop_value (fst pi) d with
                     | QErr => false
                     | QAbsent => true
                     | QFound v => type_ok (snd pi) v
                     end) sc.

Definition ERR_DUP : N := 1.
Definition ERR_EXISTS : N := 2.
Definition ERR_SIZE : N := 3.
Definition ERR_TYPE : N := 4.

(* The outcome of a batch: the new store and either the list of reported ids or
   the set of admissible error kinds (several causes may be present; which one
   the concurrent pipeline reports first is not determined). *)
Inductive sout := SOk (ids : list uuid) | SErr (kinds : list N).

Definition insert_spec (sc : schema) (ps : list (uuid * doc)) (s : store) : store * sout :=
  if has_dup (map fst ps) then (s, SErr [ERR_DUP])
  else
    let e1 := if existsb (fun p => st_mem (fst p) s) ps then [ERR_EXISTS] else [] in
    let e2 := if forallb (fun p => well_typed sc (snd p)) ps then [] else [ERR_TYPE] in
    match e1 ++ e2 with
    | [] => (fold_left (fun acc p => st_set (fst p) (snd p) acc) ps s, SOk [])
    | es => (s, SErr es)
    end.

(* sequential application of the update batch; returns new store, updated ids, error kinds met *)
Fixpoint update_go (sc : schema) (maxsize : N) (ps : list (uuid * doc)) (s : store)
  : store * list uuid * list N :=
  match ps with
  | [] => (s, [], [])
  | (id, inc) :: r =>
      match st_get id s with
      | None => update_go sc maxsize r s
      | Some old =>
          let merged := merge_doc delete_value old inc in
          let e := (if maxsize <? doc_size merged then [ERR_SIZE] else []) ++
                   (if well_typed sc merged then [] else [ERR_TYPE]) in
          let '(s', ids, es) := update_go sc maxsize r (st_set id merged s) in
          (s', id :: ids, e ++ es)
      end
  end.

Definition update_spec (sc : schema) (maxsize : N) (ps : list (uuid * doc)) (s : store) : store * sout :=
  let '(s', ids, es) := update_go sc maxsize ps s in
  match es with
  | [] => (s', SOk ids)
  | _ => (s, SErr es)
  end.

Fixpoint dedup (l : list uuid) : list uuid :=
  match l with
  | [] => []
  | x :: r => if existsb (bytes_eqb x) r then dedup r else x :: dedup r
  end.

Definition delete_spec (ids : list uuid) (s : store) : store * sout :=
  let known := filter (fun id => st_mem id s) (dedup ids) in
  (fold_left (fun acc id => st_remove id acc) known s, SOk known).

Definition apply_spec (sc : schema) (maxsize : N) (b : batch) (s : store) : store * sout :=
  match b with
  | BInsert ps => insert_spec sc ps s
  | BUpdate ps => update_spec sc maxsize ps s
  | BDelete ids => delete_spec ids s
  end.

(* --- comparison of an observation with the spec --- *)
Fixpoint subset_ids (a b : list uuid) : bool :=
  match a with [] => true | x :: r => existsb (bytes_eqb x) b && subset_ids r b end.
Definition same_ids (a b : list uuid) : bool := subset_ids a b && subset_ids b a.

Definition out_ok (o : bout) (m : sout) : bool :=
  match o, m with
  | OOk ids, SOk ids' => same_ids ids ids'
  | OErr k, SErr ks => existsb (N.eqb k) ks
  | _, _ => false
  end.

Definition store_sub (a b : store) : bool :=
  forallb (fun p => match st_get (fst p) b with Some d => doc_eqb (snd p) d | None => false end) a.
Definition store_eqb (a b : store) : bool :=
  (length a =? length b)%nat && store_sub a b && store_sub b a.
