(* Proofs_C12.v -- lemmas about the lock-protocol model of Model_C12. *)
From Coq Require Import List Arith Bool Lia.
From Semadb Require Import Model_C12.
Import ListNotations.

(* ------------------------------------------------------------------ *)
(* lists *)

Lemma upd_length : forall A (l : list A) i x, length (upd l i x) = length l.
Proof. induction l; destruct i; simpl; intros; auto. Qed.

Lemma nth_upd_eq : forall A (l : list A) i x d, i < length l -> nth i (upd l i x) d = x.
Proof. induction l; destruct i; simpl; intros; try lia; auto. apply IHl. lia. Qed.

Lemma nth_upd_ne : forall A (l : list A) i j x d, i <> j -> nth j (upd l i x) d = nth j l d.
Proof. induction l; destruct i; destruct j; simpl; intros; try lia; auto. Qed.

Lemma nth_upd : forall A (l : list A) i j x d,
  nth j (upd l i x) d = if (i =? j) && (i <? length l) then x else nth j l d.
Proof.
  intros. destruct (Nat.eqb_spec i j).
  - subst. destruct (Nat.ltb_spec j (length l)); simpl.
    + apply nth_upd_eq; auto.
    + rewrite !nth_overflow; auto. rewrite upd_length. auto.
  - simpl. apply nth_upd_ne; auto.
Qed.

Lemma nth_app_new : forall A (l : list A) x j d,
  nth j (l ++ [x]) d = if j =? length l then x else nth j l d.
Proof.
  intros. destruct (Nat.eqb_spec j (length l)).
  - subst. rewrite app_nth2; auto. rewrite Nat.sub_diag. reflexivity.
  - destruct (Nat.lt_ge_cases j (length l)).
    + apply app_nth1; auto.
    + rewrite !nth_overflow; auto. rewrite app_length. simpl. lia.
Qed.

Lemma nth_not_default : forall A (l : list A) i d, nth i l d <> d -> i < length l.
Proof.
  intros. destruct (Nat.lt_ge_cases i (length l)); auto.
  exfalso. apply H. apply nth_overflow. auto.
Qed.

Lemma sum_upd : forall A (f : A -> nat) (l : list A) i x d, i < length l ->
  sum_list (map f (upd l i x)) + f (nth i l d) = sum_list (map f l) + f x.
Proof.
  induction l; destruct i; simpl; intros; try lia.
  specialize (IHl i x d). lia.
Qed.

Lemma sum_upd_le : forall A (f : A -> nat) (l : list A) i x d, f x <= f (nth i l d) ->
  sum_list (map f (upd l i x)) <= sum_list (map f l).
Proof.
  induction l; destruct i; simpl; intros; try lia.
  specialize (IHl i x d). lia.
Qed.

Lemma sum_app1 : forall A (f : A -> nat) (l : list A) x,
  sum_list (map f (l ++ [x])) = sum_list (map f l) + f x.
Proof. induction l; simpl; intros; try lia. rewrite IHl. lia. Qed.

Lemma in_remove_nat : forall n m l, In m (remove_nat n l) <-> In m l /\ m <> n.
Proof.
  intros. unfold remove_nat. rewrite filter_In.
  destruct (Nat.eqb_spec m n); simpl; intuition congruence.
Qed.

(* ------------------------------------------------------------------ *)
(* the measure decreases with every step (any state, both lock orders) *)

Lemma T_in_range : forall st n, T st n <> dthr -> n < length (thr st).
Proof. intros. apply nth_not_default with (d := dthr). auto. Qed.

Lemma E_in_range : forall st e, E st e <> dent -> e < length (ents st).
Proof. intros. apply nth_not_default with (d := dent). auto. Qed.

Lemma filter_len_le : forall A (f : A -> bool) l, length (filter f l) <= length l.
Proof. induction l; simpl; auto. destruct (f a); simpl; lia. Qed.

Lemma existing_dirs_length : forall st, length (existing_dirs st) <= length (dirs st).
Proof.
  intros. unfold existing_dirs.
  etransitivity. apply filter_len_le. rewrite seq_length. auto.
Qed.

Definition mI (x : entry) := m_idle (e_idle x).

Ltac msimp := unfold measure, set_thr, set_ent, set_dir, set_sl, add_ent; simpl;
              rewrite ?upd_length, ?app_length; fold mI.

Lemma thr_step_measure : forall st n c c' (en en' : list entry) sl' dirs',
  T st n = c -> c <> dthr -> length dirs' = length (dirs st) ->
  sum_list (map mI en') + m_thr (length (dirs st)) c' < sum_list (map mI en) + m_thr (length (dirs st)) c ->
  en = ents st ->
  measure (mkState sl' dirs' en' (upd (thr st) n c')) < measure st.
Proof.
  intros st n c c' en en' sl' dirs' HT Hd Hl Hm Hen. subst en.
  assert (n < length (thr st)) by (apply T_in_range; congruence).
  unfold measure. simpl. rewrite Hl. fold mI.
  pose proof (sum_upd _ (m_thr (length (dirs st))) (thr st) n c' dthr H).
  unfold T in HT. rewrite HT in H0. lia.
Qed.

Lemma ents_upd_le : forall st e x, mI x <= mI (E st e) ->
  sum_list (map mI (upd (ents st) e x)) <= sum_list (map mI (ents st)).
Proof. intros. apply sum_upd_le with (d := dent). auto. Qed.

Lemma step_measure : forall fixed st t st', step fixed st t = Some st' -> measure st' < measure st.
Proof.
  intros fixed st t st' H. destruct t as [n | e]; simpl in H.
  - destruct (T st n) as [d pc | pc] eqn:HT.
    + (* request *)
      destruct pc; simpl in H;
        repeat match type of H with
               | context [if ?b then _ else _] => destruct b eqn:?
               | context [match d_store ?x with _ => _ end] => destruct (d_store x) eqn:?
               end; inversion H; subst; clear H;
        unfold set_thr, set_ent, set_dir, set_sl, add_ent; simpl;
        try (eapply thr_step_measure; [exact HT | discriminate | simpl; rewrite ?upd_length; reflexivity | | reflexivity];
             simpl; try lia;
             try (match goal with |- context [upd (ents st) ?e ?x] =>
                    pose proof (ents_upd_le st e x) as Hle; unfold mI in Hle at 1 2; simpl in Hle;
                    specialize (Hle (le_n _)) end; simpl in *; lia)).
      * (* load, new entry *)
        rewrite sum_app1. unfold mI. simpl. lia.
    + (* deletion *)
      destruct pc; simpl in H;
        repeat match type of H with
               | context [match ?l with [] => _ | _ :: _ => _ end] => destruct l
               | context [if ?b then _ else _] => destruct b eqn:?
               | context [match d_store ?x with _ => _ end] => destruct (d_store x) eqn:?
               end; inversion H; subst; clear H;
        unfold set_thr, set_ent, set_dir, set_sl, add_ent; simpl;
        try (eapply thr_step_measure; [exact HT | discriminate | simpl; rewrite ?upd_length; reflexivity | | reflexivity];
             simpl; try lia;
             try (match goal with |- context [upd (ents st) ?e ?x] =>
                    pose proof (ents_upd_le st e x) as Hle; unfold mI in Hle at 1 2;
                    simpl in Hle end)).
      all: try (match goal with |- context [existing_dirs ?s] => pose proof (existing_dirs_length s); lia end).
      all: match goal with |- context [upd (ents ?s) ?e ?x] =>
             let Hm := fresh "Hm" in
             assert (Hm : mI x <= mI (E s e))
               by (unfold mI, signalled; destruct (e_idle (E s e)) eqn:Hi; simpl; rewrite ?Hi; simpl; lia);
             pose proof (ents_upd_le s e x Hm); lia end.
  - (* idle routine *)
    unfold step_idle in H.
    assert (Hr : e_idle (E st e) <> IExit -> e < length (ents st)).
    { intro. apply E_in_range. intro Hx. rewrite Hx in H0. simpl in H0. congruence. }
    assert (Hgen : forall sl' dirs' x, length dirs' = length (dirs st) ->
               e_idle (E st e) <> IExit -> mI x < mI (E st e) ->
               measure (mkState sl' dirs' (upd (ents st) e x) (thr st)) < measure st).
    { intros sl' dirs' x Hl Hne Hlt. unfold measure. simpl. rewrite Hl. fold mI.
      pose proof (sum_upd _ mI (ents st) e x dent (Hr Hne)). fold (E st e) in H0. lia. }
    destruct (e_idle (E st e)) eqn:Hi;
      repeat match type of H with
             | context [if ?b then _ else _] => destruct b eqn:?
             | context [match d_store ?x with _ => _ end] => destruct (d_store x) eqn:?
             end; inversion H; subst; clear H;
      unfold set_thr, set_ent, set_dir, set_sl, add_ent; simpl;
      apply Hgen; simpl; rewrite ?upd_length; auto; try discriminate;
      unfold mI; simpl; rewrite ?Hi; simpl; try lia.
    all: destruct fixed; simpl; lia.
Qed.

(* ------------------------------------------------------------------ *)
(* accessors of updated states *)

Lemma T_set_thr : forall st n0 c n, n0 < length (thr st) ->
  T (set_thr st n0 c) n = if n =? n0 then c else T st n.
Proof.
  intros. unfold T, set_thr. simpl. rewrite nth_upd.
  destruct (Nat.eqb_spec n0 n); destruct (Nat.eqb_spec n n0); try lia; simpl; auto.
  destruct (Nat.ltb_spec n0 (length (thr st))); auto; lia.
Qed.
Lemma E_set_ent : forall st e0 x e, e0 < length (ents st) ->
  E (set_ent st e0 x) e = if e =? e0 then x else E st e.
Proof.
  intros. unfold E, set_ent. simpl. rewrite nth_upd.
  destruct (Nat.eqb_spec e0 e); destruct (Nat.eqb_spec e e0); try lia; simpl; auto.
  destruct (Nat.ltb_spec e0 (length (ents st))); auto; lia.
Qed.
Lemma D_set_dir : forall st d0 x d, d0 < length (dirs st) ->
  D (set_dir st d0 x) d = if d =? d0 then x else D st d.
Proof.
  intros. unfold D, set_dir. simpl. rewrite nth_upd.
  destruct (Nat.eqb_spec d0 d); destruct (Nat.eqb_spec d d0); try lia; simpl; auto.
  destruct (Nat.ltb_spec d0 (length (dirs st))); auto; lia.
Qed.
Lemma E_add_ent : forall st x e, E (add_ent st x) e = if e =? length (ents st) then x else E st e.
Proof. intros. unfold E, add_ent. simpl. apply nth_app_new. Qed.

Lemma E_set_thr : forall st n c e, E (set_thr st n c) e = E st e. Proof. reflexivity. Qed.
Lemma D_set_thr : forall st n c d, D (set_thr st n c) d = D st d. Proof. reflexivity. Qed.
Lemma sl_set_thr : forall st n c, sl (set_thr st n c) = sl st. Proof. reflexivity. Qed.
Lemma T_set_ent : forall st e x n, T (set_ent st e x) n = T st n. Proof. reflexivity. Qed.
Lemma D_set_ent : forall st e x d, D (set_ent st e x) d = D st d. Proof. reflexivity. Qed.
Lemma sl_set_ent : forall st e x, sl (set_ent st e x) = sl st. Proof. reflexivity. Qed.
Lemma T_set_dir : forall st d x n, T (set_dir st d x) n = T st n. Proof. reflexivity. Qed.
Lemma E_set_dir : forall st d x e, E (set_dir st d x) e = E st e. Proof. reflexivity. Qed.
Lemma sl_set_dir : forall st d x, sl (set_dir st d x) = sl st. Proof. reflexivity. Qed.
Lemma T_set_sl : forall st v n, T (set_sl st v) n = T st n. Proof. reflexivity. Qed.
Lemma E_set_sl : forall st v e, E (set_sl st v) e = E st e. Proof. reflexivity. Qed.
Lemma D_set_sl : forall st v d, D (set_sl st v) d = D st d. Proof. reflexivity. Qed.
Lemma sl_set_sl : forall st v, sl (set_sl st v) = v. Proof. reflexivity. Qed.
Lemma T_add_ent : forall st x n, T (add_ent st x) n = T st n. Proof. reflexivity. Qed.
Lemma D_add_ent : forall st x d, D (add_ent st x) d = D st d. Proof. reflexivity. Qed.
Lemma sl_add_ent : forall st x, sl (add_ent st x) = sl st. Proof. reflexivity. Qed.

Lemma len_thr_set_thr : forall st n c, length (thr (set_thr st n c)) = length (thr st).
Proof. intros. unfold set_thr. simpl. apply upd_length. Qed.
Lemma len_ents_set_thr : forall st n c, length (ents (set_thr st n c)) = length (ents st). Proof. reflexivity. Qed.
Lemma len_dirs_set_thr : forall st n c, length (dirs (set_thr st n c)) = length (dirs st). Proof. reflexivity. Qed.
Lemma len_thr_set_ent : forall st n c, length (thr (set_ent st n c)) = length (thr st). Proof. reflexivity. Qed.
Lemma len_ents_set_ent : forall st n c, length (ents (set_ent st n c)) = length (ents st).
Proof. intros. unfold set_ent. simpl. apply upd_length. Qed.
Lemma len_dirs_set_ent : forall st n c, length (dirs (set_ent st n c)) = length (dirs st). Proof. reflexivity. Qed.
Lemma len_thr_set_dir : forall st n c, length (thr (set_dir st n c)) = length (thr st). Proof. reflexivity. Qed.
Lemma len_ents_set_dir : forall st n c, length (ents (set_dir st n c)) = length (ents st). Proof. reflexivity. Qed.
Lemma len_dirs_set_dir : forall st n c, length (dirs (set_dir st n c)) = length (dirs st).
Proof. intros. unfold set_dir. simpl. apply upd_length. Qed.
Lemma len_thr_set_sl : forall st v, length (thr (set_sl st v)) = length (thr st). Proof. reflexivity. Qed.
Lemma len_ents_set_sl : forall st v, length (ents (set_sl st v)) = length (ents st). Proof. reflexivity. Qed.
Lemma len_dirs_set_sl : forall st v, length (dirs (set_sl st v)) = length (dirs st). Proof. reflexivity. Qed.
Lemma len_thr_add_ent : forall st x, length (thr (add_ent st x)) = length (thr st). Proof. reflexivity. Qed.
Lemma len_ents_add_ent : forall st x, length (ents (add_ent st x)) = S (length (ents st)).
Proof. intros. unfold add_ent. simpl. rewrite app_length. simpl. lia. Qed.
Lemma len_dirs_add_ent : forall st x, length (dirs (add_ent st x)) = length (dirs st). Proof. reflexivity. Qed.

Global Hint Rewrite len_thr_set_thr len_ents_set_thr len_dirs_set_thr len_thr_set_ent len_ents_set_ent
  len_dirs_set_ent len_thr_set_dir len_ents_set_dir len_dirs_set_dir len_thr_set_sl len_ents_set_sl
  len_dirs_set_sl len_thr_add_ent len_ents_add_ent len_dirs_add_ent : c12len.

Ltac bound := autorewrite with c12len; (assumption || lia).

Global Hint Rewrite E_set_thr D_set_thr sl_set_thr T_set_ent D_set_ent sl_set_ent T_set_dir E_set_dir sl_set_dir
  T_set_sl E_set_sl D_set_sl sl_set_sl T_add_ent D_add_ent sl_add_ent E_add_ent : c12.
Global Hint Rewrite T_set_thr E_set_ent D_set_dir using bound : c12.
Global Hint Rewrite len_thr_set_thr len_ents_set_thr len_dirs_set_thr len_thr_set_ent len_ents_set_ent
  len_dirs_set_ent len_thr_set_dir len_ents_set_dir len_dirs_set_dir len_thr_set_sl len_ents_set_sl
  len_dirs_set_sl len_thr_add_ent len_ents_add_ent len_dirs_add_ent : c12.

(* ------------------------------------------------------------------ *)
(* classification of program counters *)

Definition sl_pc (c : cthread) : bool :=
  match c with
  | CReq _ RLoad | CReq _ (RRelSL _) => true
  | CReq _ _ => false
  | CDel DAcqSL | CDel DDone => false
  | CDel _ => true
  end.
Definition isl_pc (p : ipc) : bool :=
  match p with IDel | IRelSL | IDelp | IRelSLp => true | _ => false end.
Definition holds_sl (st : state) (t : tid) : Prop :=
  match t with TC n => sl_pc (T st n) = true | TI e => isl_pc (e_idle (E st e)) = true end.

Definition w_pc (c : cthread) : option (nat * bool) :=
  match c with
  | CDel (DLockAcq e _) => Some (e, false)
  | CDel (DNilChk e _) | CDel (DClose e _) | CDel (DUnlock e _) => Some (e, true)
  | _ => None
  end.
Definition iw_pc (p : ipc) : option bool :=
  match p with
  | ILockPend => Some false
  | ILocked | IClose | IUnlock | IUnlockNil | IAcqSLp | IDelp | IRelSLp | IUnlockP => Some true
  | _ => None
  end.
Definition holds_w (st : state) (e : nat) (t : tid) (b : bool) : Prop :=
  match t with
  | TC n => w_pc (T st n) = Some (e, b)
  | TI e' => e' = e /\ iw_pc (e_idle (E st e)) = Some b
  end.

Definition rd_pc (c : cthread) : option nat :=
  match c with
  | CReq _ (RNil e) | CReq _ (RBegin e) | CReq _ (REnd e) | CReq _ (RRUnlock e _) => Some e
  | _ => None
  end.

(* the entry a thread refers to *)
Definition pc_ent (c : cthread) : option nat :=
  match c with
  | CReq _ (RRelSL e) | CReq _ (RRLock e) | CReq _ (RNil e) | CReq _ (RBegin e) | CReq _ (REnd e)
  | CReq _ (RRUnlock e _) => Some e
  | CDel (DLockAnn e _) | CDel (DLockAcq e _) | CDel (DNilChk e _) | CDel (DClose e _) | CDel (DUnlock e _) => Some e
  | _ => None
  end.

Definition pc_todo (c : cthread) : list nat :=
  match c with
  | CDel (DLookup t) | CDel (DLockAnn _ t) | CDel (DLockAcq _ t) | CDel (DNilChk _ t) | CDel (DClose _ t)
  | CDel (DUnlock _ t) | CDel (DDelEntry t) | CDel (DRemove t) => t
  | _ => []
  end.

(* group 1: shape of the state and who holds which lock *)
Record inv1 (st : state) : Prop := mkInv1 {
  i_W  : forall n d pc, n < length (thr st) -> T st n = CReq d pc -> d < length (dirs st);
  i_B1 : forall d e, d_store (D st d) = Some e -> e < length (ents st);
  i_B2 : forall n e, pc_ent (T st n) = Some e -> e < length (ents st);
  i_B4 : forall n d, In d (pc_todo (T st n)) -> d < length (dirs st);
  i_B5 : forall e, e < length (ents st) -> e_dir (E st e) < length (dirs st);
  i_L1a : forall t, sl st = Some t -> holds_sl st t;
  i_L1b : forall t, holds_sl st t -> sl st = Some t;
  i_L2a : forall e t b, e_w (E st e) = Some (t, b) -> holds_w st e t b;
  i_L2b : forall e t b, holds_w st e t b -> e_w (E st e) = Some (t, b);
  i_L3a : forall n e, In n (e_rd (E st e)) -> rd_pc (T st n) = Some e;
  i_L3b : forall n e, rd_pc (T st n) = Some e -> In n (e_rd (E st e));
  i_A1 : forall e t, e_w (E st e) = Some (t, true) -> e_rd (E st e) = []
}.

(* the entry after the non-blocking `doneCh <- true` *)
Lemma sig_idle : forall x, e_idle (signalled x) = match e_idle x with IWait => IExit | p => p end.
Proof. intros. unfold signalled. destruct (e_idle x) eqn:Hq; simpl; auto. Qed.
Lemma sig_w : forall x, e_w (signalled x) = e_w x.
Proof. intros. unfold signalled. destruct (e_idle x); auto. Qed.
Lemma sig_rd : forall x, e_rd (signalled x) = e_rd x.
Proof. intros. unfold signalled. destruct (e_idle x); auto. Qed.
Lemma sig_open : forall x, e_open (signalled x) = e_open x.
Proof. intros. unfold signalled. destruct (e_idle x); auto. Qed.
Lemma sig_dir : forall x, e_dir (signalled x) = e_dir x.
Proof. intros. unfold signalled. destruct (e_idle x); auto. Qed.
Lemma sig_by : forall x, e_by (signalled x) = e_by x.
Proof. intros. unfold signalled. destruct (e_idle x); auto. Qed.
Global Hint Rewrite sig_idle sig_w sig_rd sig_open sig_dir sig_by : c12.

(* ------------------------------------------------------------------ *)
(* tactics: case split of a step, bounds of the indices involved *)

Ltac step_cases H :=
  match type of H with step ?fixed ?st ?t = Some ?st' =>
    destruct t as [n0|e0]; simpl in H;
    [ destruct (T st n0) as [d0 pc|pc] eqn:HT; [destruct pc; simpl in H | destruct pc; simpl in H]
    | unfold step_idle in H; destruct (e_idle (E st e0)) eqn:HI ];
    repeat match type of H with
      | context [match ?l with [] => _ | _ :: _ => _ end] => destruct l
      | context [if is_none ?b then _ else _] => destruct b eqn:?; simpl in H
      | context [if is_nil ?b then _ else _] => destruct b eqn:?; simpl in H
      | context [if ?b then _ else _] => destruct b eqn:?
      | context [match d_store ?x with _ => _ end] => destruct (d_store x) eqn:?
    end; try discriminate; inversion H; subst st'; clear H
  end.

Ltac case_eqb :=
  repeat match goal with
         | |- context [?a =? ?b] => destruct (Nat.eqb_spec a b); subst
         | H : context [?a =? ?b] |- _ => destruct (Nat.eqb_spec a b); subst
         end.

Ltac facts Hinv :=
  try (match goal with HT : T ?st ?n0 = _ |- _ =>
         assert (Hn0 : n0 < length (thr st)) by (apply T_in_range; rewrite HT; discriminate) end);
  try (match goal with HI : e_idle (E ?st ?e0) = _ |- _ =>
         assert (He0 : e0 < length (ents st)) by (apply E_in_range; let Hx := fresh "Hx" in intro Hx; rewrite Hx in HI; discriminate);
         pose proof (i_B5 _ Hinv _ He0) as Hd0 end);
  try (match goal with HT : T ?st ?n0 = CReq ?d0 _, Hn : ?n0 < length (thr ?st) |- _ => pose proof (i_W _ Hinv _ _ _ Hn HT) as Hwd0 end);
  try (match goal with HT : T ?st ?n0 = _ |- _ =>
         let H := fresh "Hb2" in pose proof (i_B2 _ Hinv n0) as H; rewrite HT in H; simpl in H;
         specialize (H _ eq_refl); pose proof (i_B5 _ Hinv _ H) as Hb5 end);
  try (match goal with HT : T ?st ?n0 = _ |- _ =>
         let H := fresh "Hb4" in pose proof (i_B4 _ Hinv n0) as H; rewrite HT in H; simpl in H;
         try (pose proof (H _ (or_introl eq_refl)) as Hb4h) end);
  try (match goal with Hs : d_store (D ?st ?d) = Some ?e |- _ => pose proof (i_B1 _ Hinv _ _ Hs) as Hb1 end);
  try (match goal with HT : T ?st ?n0 = _ |- _ =>
         assert (Hsl0 : sl st = Some (TC n0)) by (apply (i_L1b _ Hinv (TC n0)); simpl; rewrite HT; reflexivity) end);
  try (match goal with HI : e_idle (E ?st ?e0) = _ |- _ =>
         assert (Hsl0 : sl st = Some (TI e0)) by (apply (i_L1b _ Hinv (TI e0)); simpl; rewrite HI; reflexivity) end);
  try (match goal with HT : T ?st ?n0 = _ |- _ =>
         match type of HT with context [?c ?e ?todo] =>
           first [ assert (Hw0 : e_w (E st e) = Some (TC n0, true)) by (apply (i_L2b _ Hinv e (TC n0)); simpl; rewrite HT; reflexivity)
                 | assert (Hw0 : e_w (E st e) = Some (TC n0, false)) by (apply (i_L2b _ Hinv e (TC n0)); simpl; rewrite HT; reflexivity) ] end end);
  try (match goal with HI : e_idle (E ?st ?e0) = _ |- _ =>
         first [ assert (Hw0 : e_w (E st e0) = Some (TI e0, true)) by (apply (i_L2b _ Hinv e0 (TI e0)); simpl; rewrite HI; auto)
               | assert (Hw0 : e_w (E st e0) = Some (TI e0, false)) by (apply (i_L2b _ Hinv e0 (TI e0)); simpl; rewrite HI; auto) ] end);
  try (match goal with HT : T ?st ?n0 = CReq _ ?pc |- _ =>
         match pc with context [?c ?e] =>
           assert (Hr0 : In n0 (e_rd (E st e))) by (apply (i_L3b _ Hinv); rewrite HT; reflexivity) end end).

Lemma E_overflow : forall st e, length (ents st) <= e -> E st e = dent.
Proof. intros. unfold E. apply nth_overflow. auto. Qed.


(* ------------------------------------------------------------------ *)
(* group 1 is preserved by every step *)

Lemma pres_B1 : forall fixed st t st', inv1 st -> step fixed st t = Some st' ->
  forall d e, d_store (D st' d) = Some e -> e < length (ents st').
Proof.
  intros fixed st t st' Hinv H.
  step_cases H; facts Hinv; intros dX eX; autorewrite with c12; case_eqb; simpl; intros Hx;
    try (inversion Hx; subst); try lia;
    try (pose proof (i_B1 _ Hinv _ _ Hx); lia).
Qed.

Lemma pres_W : forall fixed st t st', inv1 st -> step fixed st t = Some st' ->
  forall n d pc, n < length (thr st') -> T st' n = CReq d pc -> d < length (dirs st').
Proof.
  intros fixed st t st' Hinv H.
  step_cases H; facts Hinv; intros nX dX pcX; autorewrite with c12; case_eqb; simpl; intros HnX Hx;
    try (inversion Hx; subst); try lia;
    try (pose proof (i_W _ Hinv _ _ _ HnX Hx); lia).
Qed.

Lemma pres_B2 : forall fixed st t st', inv1 st -> step fixed st t = Some st' ->
  forall n e, pc_ent (T st' n) = Some e -> e < length (ents st').
Proof.
  intros fixed st t st' Hinv H.
  step_cases H; facts Hinv; intros nX eX; autorewrite with c12; case_eqb; simpl; intros Hx;
    try (inversion Hx; subst); try lia;
    try (pose proof (i_B2 _ Hinv _ _ Hx); lia).
Qed.

Lemma pres_B4 : forall fixed st t st', inv1 st -> step fixed st t = Some st' ->
  forall n d, In d (pc_todo (T st' n)) -> d < length (dirs st').
Proof.
  intros fixed st t st' Hinv H.
  step_cases H; facts Hinv; intros nX dX; autorewrite with c12; case_eqb; simpl; intros Hx;
    try lia; try (pose proof (i_B4 _ Hinv _ _ Hx); lia); try (apply Hb4; simpl; tauto).
  unfold existing_dirs in Hx. apply filter_In in Hx. destruct Hx as [Hx _]. apply in_seq in Hx. lia.
Qed.

Lemma pres_B5 : forall fixed st t st', inv1 st -> step fixed st t = Some st' ->
  forall e, e < length (ents st') -> e_dir (E st' e) < length (dirs st').
Proof.
  intros fixed st t st' Hinv H.
  step_cases H; facts Hinv; intros eX; autorewrite with c12; case_eqb; simpl; intros Hx;
    try lia; try (pose proof (i_B5 _ Hinv _ Hx); lia).
  - apply (i_B5 _ Hinv). lia.
  - autorewrite with c12. auto.
Qed.

Lemma pres_L1a : forall fixed st t st', inv1 st -> step fixed st t = Some st' ->
  forall t0, sl st' = Some t0 -> holds_sl st' t0.
Proof.
  intros fixed st t st' Hinv H.
  step_cases H; facts Hinv; intros tX; autorewrite with c12; intros Hx;
    try discriminate;
    try (inversion Hx; subst; simpl; autorewrite with c12; case_eqb; simpl; try rewrite HI; try reflexivity; try lia; fail);
    pose proof (i_L1a _ Hinv _ Hx) as Hh; pose proof (i_L1b _ Hinv) as Hu;
    destruct tX as [nX|eX]; simpl in *; autorewrite with c12; case_eqb; simpl; auto; try rewrite HI; try reflexivity;
    try (rewrite HT in Hh; simpl in Hh; discriminate); try (rewrite HI in Hh; simpl in Hh; discriminate); try congruence.
Qed.

Lemma pres_L1b : forall fixed st t st', inv1 st -> step fixed st t = Some st' ->
  forall t0, holds_sl st' t0 -> sl st' = Some t0.
Proof.
  intros fixed st t st' Hinv H.
  step_cases H; facts Hinv; intros tX; pose proof (i_L1b _ Hinv tX) as Hu; pose proof (i_L1a _ Hinv) as Ha;
    destruct tX as [nX|eX]; simpl in *; autorewrite with c12; case_eqb; simpl; try rewrite HI; simpl; auto;
    try discriminate; try congruence;
    try (let Hp := fresh "Hp" in intro Hp; specialize (Hu Hp); congruence).
  autorewrite with c12. destruct (e_idle (E st e)); simpl in *; auto; discriminate.
Qed.

Lemma pres_L2a : forall fixed st t st', inv1 st -> step fixed st t = Some st' ->
  forall e t0 b, e_w (E st' e) = Some (t0, b) -> holds_w st' e t0 b.
Proof.
  intros fixed st t st' Hinv H.
  step_cases H; facts Hinv; intros eX tX bX; pose proof (i_L2a _ Hinv eX tX bX) as Ha;
    destruct tX as [nX|eY]; simpl in *;
    autorewrite with c12; case_eqb; simpl; autorewrite with c12; simpl; intros Hx; try discriminate;
    try (inversion Hx; subst); try specialize (Ha Hx);
    simpl in *; autorewrite with c12; case_eqb; simpl; try rewrite HI; simpl; auto;
    try discriminate; try congruence;
    try (rewrite HT in Ha; simpl in Ha; try discriminate; inversion Ha; subst; auto; congruence);
    try (destruct Ha as [Ha1 Ha2]; subst; rewrite HI in Ha2; simpl in Ha2; try discriminate; auto; congruence).
Qed.

Lemma pres_L2b : forall fixed st t st', inv1 st -> step fixed st t = Some st' ->
  forall e t0 b, holds_w st' e t0 b -> e_w (E st' e) = Some (t0, b).
Proof.
  intros fixed st t st' Hinv H.
  step_cases H; facts Hinv; intros eX tX bX; pose proof (i_L2b _ Hinv eX tX bX) as Hu;
    destruct tX as [nX|eY]; simpl in *;
    autorewrite with c12; case_eqb; simpl; autorewrite with c12; simpl; try rewrite HI; simpl;
    intros Hx; try discriminate;
    try (specialize (Hu Hx)); try congruence;
    try (injection Hx; intros; subst; case_eqb; simpl; auto; congruence);
    try (destruct Hx as [Hx1 Hx2]; subst; case_eqb; simpl; try rewrite HI in *; simpl in *; try discriminate;
         try (injection Hx2; intros; subst); auto; try congruence).
  - rewrite E_overflow in Hu by lia. discriminate.
  - apply Hu; split; auto. destruct (e_idle (E st e)); simpl in *; auto; discriminate.
Qed.

Lemma pres_L3a : forall fixed st t st', inv1 st -> step fixed st t = Some st' ->
  forall n e, In n (e_rd (E st' e)) -> rd_pc (T st' n) = Some e.
Proof.
  intros fixed st t st' Hinv H.
  step_cases H; facts Hinv; intros nX eX; pose proof (i_L3a _ Hinv nX eX) as Ha;
    autorewrite with c12; case_eqb; simpl; autorewrite with c12; simpl;
    intros Hx; try contradiction; try (apply in_remove_nat in Hx; destruct Hx as [Hx Hne]);
    try (destruct Hx as [Hx|Hx]; [subst|]); try specialize (Ha Hx); auto; try congruence; try lia;
    try (rewrite HT in Ha; simpl in Ha; congruence).
Qed.

Lemma pres_L3b : forall fixed st t st', inv1 st -> step fixed st t = Some st' ->
  forall n e, rd_pc (T st' n) = Some e -> In n (e_rd (E st' e)).
Proof.
  intros fixed st t st' Hinv H.
  step_cases H; facts Hinv; intros nX eX; pose proof (i_L3b _ Hinv nX eX) as Ha;
    autorewrite with c12; case_eqb; simpl; autorewrite with c12; simpl;
    intros Hx; try discriminate; try (injection Hx; intros; subst); try (apply in_remove_nat; split);
    auto; try congruence; try lia; try (right; auto).
  exfalso. assert (Hp : pc_ent (T st nX) = Some (length (ents st))).
  { destruct (T st nX) as [? p|p]; try destruct p; simpl in *; congruence. }
  pose proof (i_B2 _ Hinv _ _ Hp). lia.
Qed.

Lemma pres_A1 : forall fixed st t st', inv1 st -> step fixed st t = Some st' ->
  forall e t0, e_w (E st' e) = Some (t0, true) -> e_rd (E st' e) = [].
Proof.
  intros fixed st t st' Hinv H.
  step_cases H; facts Hinv; intros eX tX; pose proof (i_A1 _ Hinv eX tX) as Ha;
    autorewrite with c12; case_eqb; simpl; autorewrite with c12; simpl;
    intros Hx; try discriminate; auto; try congruence;
    rewrite (Ha Hx) in Hr0; contradiction.
Qed.


Lemma inv1_step : forall fixed st t st', inv1 st -> step fixed st t = Some st' -> inv1 st'.
Proof.
  intros fixed st t st' Hinv H. constructor.
  - eapply pres_W; eauto.
  - eapply pres_B1; eauto.
  - eapply pres_B2; eauto.
  - eapply pres_B4; eauto.
  - eapply pres_B5; eauto.
  - eapply pres_L1a; eauto.
  - eapply pres_L1b; eauto.
  - eapply pres_L2a; eauto.
  - eapply pres_L2b; eauto.
  - eapply pres_L3a; eauto.
  - eapply pres_L3b; eauto.
  - eapply pres_A1; eauto.
Qed.

Lemma nth_repeat_ddir : forall n d, nth d (repeat ddir n) ddir = ddir.
Proof. induction n; destruct d; simpl; auto. Qed.

Lemma T_init : forall nd specs n, T (init nd specs) n = nth n (map spec_thread specs) dthr.
Proof. reflexivity. Qed.

Lemma init_thread_cases : forall nd specs n,
  T (init nd specs) n = dthr \/ (exists d, T (init nd specs) n = CReq d RAcqSL /\ In (SReq d) specs)
  \/ T (init nd specs) n = CDel DAcqSL.
Proof.
  intros. rewrite T_init. revert n. induction specs as [|s r IH]; intros n.
  - left. destruct n; reflexivity.
  - destruct n; simpl.
    + destruct s; simpl; [right; left; eexists; split; [reflexivity | left; reflexivity] | right; right; reflexivity].
    + destruct (IH n) as [Hq|[[d [Hq Hin]]|Hq]].
      * left; auto.
      * right; left. exists d. split; auto; right; auto.
      * right; right; auto.
Qed.

Lemma init_thread_real : forall nd specs n, n < length (thr (init nd specs)) ->
  (exists d, T (init nd specs) n = CReq d RAcqSL) \/ T (init nd specs) n = CDel DAcqSL.
Proof.
  intros nd specs n. rewrite T_init. simpl. revert n. induction specs as [|s r IH]; intros n Hn; simpl in *; try lia.
  destruct n.
  - destruct s; simpl; eauto.
  - apply IH. lia.
Qed.

Lemma inv1_init : forall nd specs, Forall (spec_ok nd) specs -> inv1 (init nd specs).
Proof.
  intros nd specs Hok.
  assert (HE : forall e, E (init nd specs) e = dent) by (intros; unfold E; simpl; destruct e; reflexivity).
  assert (HD : forall d, D (init nd specs) d = ddir) by (intros; unfold D; simpl; apply nth_repeat_ddir).
  constructor; intros.
  - destruct (init_thread_cases nd specs n) as [Hq|[[d' [Hq Hin]]|Hq]]; rewrite Hq in H0; try discriminate.
    + apply init_thread_real in H. rewrite Hq in H. destruct H as [[d1 H]|H]; discriminate.
    + inversion H0; subst. simpl. rewrite repeat_length. rewrite Forall_forall in Hok. apply (Hok _ Hin).
  - rewrite HD in H. discriminate.
  - destruct (init_thread_cases nd specs n) as [Hq|[[d' [Hq Hin]]|Hq]]; rewrite Hq in H; discriminate.
  - destruct (init_thread_cases nd specs n) as [Hq|[[d' [Hq Hin]]|Hq]]; rewrite Hq in H; simpl in H; contradiction.
  - simpl in H. lia.
  - discriminate.
  - destruct t as [n|e]; simpl in H.
    + destruct (init_thread_cases nd specs n) as [Hq|[[d' [Hq Hin]]|Hq]]; rewrite Hq in H; discriminate.
    + rewrite HE in H. discriminate.
  - rewrite HE in H. discriminate.
  - destruct t as [n|e']; simpl in H.
    + destruct (init_thread_cases nd specs n) as [Hq|[[d' [Hq Hin]]|Hq]]; rewrite Hq in H; discriminate.
    + destruct H as [_ H]. rewrite HE in H. discriminate.
  - rewrite HE in H. contradiction.
  - destruct (init_thread_cases nd specs n) as [Hq|[[d' [Hq Hin]]|Hq]]; rewrite Hq in H; discriminate.
  - rewrite HE. reflexivity.
Qed.

(* ------------------------------------------------------------------ *)
(* group 2: open flags, map entries, handles, directories *)

Definition open_pc (c : cthread) : option nat :=
  match c with
  | CReq _ (RBegin e) | CReq _ (REnd e) | CReq _ (RRUnlock e true) => Some e
  | _ => None
  end.

Definition req_dir (c : cthread) : option nat := match c with CReq d _ => Some d | _ => None end.

(* deletion thread working on entry e of directory d *)
Definition del_cur (c : cthread) : option (nat * nat) :=
  match c with
  | CDel (DLockAnn e (d :: _)) | CDel (DLockAcq e (d :: _)) | CDel (DNilChk e (d :: _))
  | CDel (DClose e (d :: _)) | CDel (DUnlock e (d :: _)) => Some (e, d)
  | _ => None
  end.

Definition post_close (p : ipc) : bool :=
  match p with
  | IUnlock | IAcqSL | IDel | IRelSL | IUnlockNil | IAcqSLp | IDelp | IRelSLp | IUnlockP => true
  | _ => false
  end.
Definition own_map (p : ipc) : bool := match p with IClose | IAcqSLp | IDelp => true | _ => false end.

Record inv2 (st : state) : Prop := mkInv2 {
  i_A2 : forall n e, open_pc (T st n) = Some e -> e_open (E st e) = true;
  i_B3 : forall n d e, req_dir (T st n) = Some d -> pc_ent (T st n) = Some e -> e_dir (E st e) = d;
  i_A3 : forall e, e_open (E st e) = true -> d_store (D st (e_dir (E st e))) = Some e;
  i_A4 : forall d, d_handles (D st d) =
                   match d_store (D st d) with Some e => if e_open (E st e) then 1 else 0 | None => 0 end;
  i_A5 : forall d e, d_store (D st d) = Some e -> e_dir (E st e) = d;
  i_A6 : forall d e, d_store (D st d) = Some e -> d_exists (D st d) = true;
  i_I0 : forall e, e_idle (E st e) = IClose -> e_open (E st e) = true;
  i_I1 : forall e, post_close (e_idle (E st e)) = true -> e_open (E st e) = false;
  i_I2 : forall e, own_map (e_idle (E st e)) = true -> d_store (D st (e_dir (E st e))) = Some e;
  i_R1 : forall n d r e, T st n = CDel (DDelEntry (d :: r)) -> d_store (D st d) = Some e ->
                         e_open (E st e) = false /\ own_map (e_idle (E st e)) = false;
  i_R2 : forall n d r, T st n = CDel (DRemove (d :: r)) -> d_store (D st d) = None;
  i_D1 : forall n e d, del_cur (T st n) = Some (e, d) -> d_store (D st d) = Some e;
  i_D2 : forall n e todo, T st n = CDel (DUnlock e todo) -> e_open (E st e) = false;
  i_D3 : forall n e todo, T st n = CDel (DClose e todo) -> e_open (E st e) = true
}.

(* a second thread claiming the exclusive lock of an entry contradicts the recorded writer *)
Ltac other_writer Hinv :=
  match goal with
  | Hx : T ?st ?nX = CDel ?pc |- _ =>
      match pc with context [?c ?e ?todo] =>
        let Hq := fresh "Hq" in
        first [ assert (Hq : e_w (E st e) = Some (TC nX, true))
                  by (apply (i_L2b _ Hinv e (TC nX)); simpl; rewrite Hx; reflexivity)
              | assert (Hq : e_w (E st e) = Some (TC nX, false))
                  by (apply (i_L2b _ Hinv e (TC nX)); simpl; rewrite Hx; reflexivity) ];
        congruence
      end
  | Hx : e_idle (E ?st ?e) = ?p |- _ =>
      let Hq := fresh "Hq" in
      first [ assert (Hq : e_w (E st e) = Some (TI e, true))
                by (apply (i_L2b _ Hinv e (TI e)); simpl; rewrite Hx; auto)
            | assert (Hq : e_w (E st e) = Some (TI e, false))
                by (apply (i_L2b _ Hinv e (TI e)); simpl; rewrite Hx; auto) ];
      congruence
  end.

(* a thread that refers to the entry about to be created does not exist *)
Ltac fresh_entry Hinv :=
  match goal with
  | Hx : T ?st ?nX = ?c |- _ =>
      let Hq := fresh "Hq" in
      pose proof (i_B2 _ Hinv nX (length (ents st))) as Hq; rewrite Hx in Hq; simpl in Hq;
      specialize (Hq eq_refl); lia
  end.

(* readers exclude an acquired writer *)
Lemma no_reader_when_written : forall st e t n, inv1 st -> e_w (E st e) = Some (t, true) ->
  rd_pc (T st n) = Some e -> False.
Proof.
  intros st e t n Hinv Hw Hr. pose proof (i_A1 _ Hinv _ _ Hw) as Hn.
  pose proof (i_L3b _ Hinv _ _ Hr) as Hi. rewrite Hn in Hi. contradiction.
Qed.

Lemma open_rd_pc : forall c e, open_pc c = Some e -> rd_pc c = Some e.
Proof. intros [d p|p] e; try destruct p; simpl; try discriminate; auto. destruct ok; auto; discriminate. Qed.

Lemma pres_A2 : forall fixed st t st', inv1 st -> inv2 st -> step fixed st t = Some st' ->
  forall n e, open_pc (T st' n) = Some e -> e_open (E st' e) = true.
Proof.
  intros fixed st t st' Hinv H2 H.
  step_cases H; facts Hinv; intros nX eX; pose proof (i_A2 _ H2 nX eX) as Ha;
    autorewrite with c12; case_eqb; simpl; autorewrite with c12; simpl;
    intros Hx; try discriminate; try (injection Hx; intros; subst); auto; try congruence;
    try (exfalso; eapply no_reader_when_written; [exact Hinv | exact Hw0 | apply open_rd_pc; exact Hx]);
    try (apply Ha; rewrite HT; reflexivity).
Qed.

Lemma pres_B3 : forall fixed st t st', inv1 st -> inv2 st -> step fixed st t = Some st' ->
  forall n d e, req_dir (T st' n) = Some d -> pc_ent (T st' n) = Some e -> e_dir (E st' e) = d.
Proof.
  intros fixed st t st' Hinv H2 H.
  step_cases H; facts Hinv; intros nX dX eX; pose proof (i_B3 _ H2 nX dX eX) as Ha;
    autorewrite with c12; case_eqb; simpl; autorewrite with c12; simpl;
    intros Hx Hy; try discriminate; try (injection Hx; intros; subst); try (injection Hy; intros; subst);
    auto; try congruence; try lia;
    try (apply Ha; rewrite HT; reflexivity);
    try (pose proof (i_B2 _ Hinv _ _ Hy); lia).
  apply (i_A5 _ H2); auto.
Qed.

Lemma pres_I0 : forall fixed st t st', inv1 st -> inv2 st -> step fixed st t = Some st' ->
  forall e, e_idle (E st' e) = IClose -> e_open (E st' e) = true.
Proof.
  intros fixed st t st' Hinv H2 H.
  step_cases H; facts Hinv; intros eX; pose proof (i_I0 _ H2 eX) as Ha;
    autorewrite with c12; case_eqb; simpl; autorewrite with c12; simpl;
    intros Hx; try discriminate; auto; try congruence.
  exfalso. other_writer Hinv.
Qed.

Lemma pres_I1 : forall fixed st t st', inv1 st -> inv2 st -> step fixed st t = Some st' ->
  forall e, post_close (e_idle (E st' e)) = true -> e_open (E st' e) = false.
Proof.
  intros fixed st t st' Hinv H2 H.
  step_cases H; facts Hinv; intros eX; pose proof (i_I1 _ H2 eX) as Ha;
    autorewrite with c12; case_eqb; simpl; autorewrite with c12; simpl;
    intros Hx; try discriminate; auto; try congruence;
    try (apply Ha; rewrite HI; reflexivity).
  destruct (e_idle (E st e)); simpl in *; try discriminate; specialize (Ha eq_refl); congruence.
Qed.

Lemma pres_D2 : forall fixed st t st', inv1 st -> inv2 st -> step fixed st t = Some st' ->
  forall n e todo, T st' n = CDel (DUnlock e todo) -> e_open (E st' e) = false.
Proof.
  intros fixed st t st' Hinv H2 H.
  step_cases H; facts Hinv; intros nX eX todoX; pose proof (i_D2 _ H2 nX eX todoX) as Ha;
    autorewrite with c12; case_eqb; simpl; autorewrite with c12; simpl;
    intros Hx; try discriminate; try (injection Hx; intros; subst); auto; try congruence.
  exfalso. fresh_entry Hinv.
Qed.

Lemma pres_D3 : forall fixed st t st', inv1 st -> inv2 st -> step fixed st t = Some st' ->
  forall n e todo, T st' n = CDel (DClose e todo) -> e_open (E st' e) = true.
Proof.
  intros fixed st t st' Hinv H2 H.
  step_cases H; facts Hinv; intros nX eX todoX; pose proof (i_D3 _ H2 nX eX todoX) as Ha;
    autorewrite with c12; case_eqb; simpl; autorewrite with c12; simpl;
    intros Hx; try discriminate; try (injection Hx; intros; subst); auto; try congruence;
    exfalso; other_writer Hinv.
Qed.


(* a second thread inside a shardLock section contradicts the recorded holder *)
Ltac other_sl Hinv :=
  match goal with
  | Hx : T ?st ?nX = ?c, Hs : sl ?st = Some ?t |- _ =>
      let Hq := fresh "Hq" in
      assert (Hq : sl st = Some (TC nX)) by (apply (i_L1b _ Hinv (TC nX)); simpl; rewrite Hx; reflexivity);
      congruence
  | Hx : e_idle (E ?st ?e) = ?p, Hs : sl ?st = Some ?t |- _ =>
      let Hq := fresh "Hq" in
      assert (Hq : sl st = Some (TI e)) by (apply (i_L1b _ Hinv (TI e)); simpl; rewrite Hx; reflexivity);
      congruence
  end.

Lemma del_cur_sl : forall c p, del_cur c = Some p -> sl_pc c = true.
Proof. intros [d q|q] p; try destruct q; simpl; try discriminate; auto. Qed.

Ltac other_sl_cur Hinv :=
  match goal with
  | Hx : del_cur (T ?st ?nX) = Some _, Hs : sl ?st = Some ?t |- _ =>
      let Hq := fresh "Hq" in
      assert (Hq : sl st = Some (TC nX)) by (apply (i_L1b _ Hinv (TC nX)); simpl; eapply del_cur_sl; exact Hx);
      congruence
  end.

Lemma pres_A5 : forall fixed st t st', inv1 st -> inv2 st -> step fixed st t = Some st' ->
  forall d e, d_store (D st' d) = Some e -> e_dir (E st' e) = d.
Proof.
  intros fixed st t st' Hinv H2 H.
  step_cases H; facts Hinv; intros dX eX; pose proof (i_A5 _ H2 dX eX) as Ha;
    autorewrite with c12; case_eqb; simpl; autorewrite with c12; simpl;
    intros Hx; try discriminate; try (injection Hx; intros; subst); auto; try congruence; try lia;
    try (pose proof (i_B1 _ Hinv _ _ Hx); lia).
Qed.

Lemma pres_A6 : forall fixed st t st', inv1 st -> inv2 st -> step fixed st t = Some st' ->
  forall d e, d_store (D st' d) = Some e -> d_exists (D st' d) = true.
Proof.
  intros fixed st t st' Hinv H2 H.
  step_cases H; facts Hinv; intros dX eX; pose proof (i_A6 _ H2 dX eX) as Ha;
    autorewrite with c12; case_eqb; simpl; autorewrite with c12; simpl;
    intros Hx; try discriminate; try (injection Hx; intros; subst); auto; try congruence; try lia.
  pose proof (i_R2 _ H2 _ _ _ HT). congruence.
Qed.

Lemma pres_R2 : forall fixed st t st', inv1 st -> inv2 st -> step fixed st t = Some st' ->
  forall n d r, T st' n = CDel (DRemove (d :: r)) -> d_store (D st' d) = None.
Proof.
  intros fixed st t st' Hinv H2 H.
  step_cases H; facts Hinv; intros nX dX rX; pose proof (i_R2 _ H2 nX dX rX) as Ha;
    autorewrite with c12; case_eqb; simpl; autorewrite with c12; simpl;
    intros Hx; try discriminate; try (injection Hx; intros; subst); auto; try congruence; try lia;
    try (exfalso; other_sl Hinv).
Qed.

Lemma pres_D1 : forall fixed st t st', inv1 st -> inv2 st -> step fixed st t = Some st' ->
  forall n e d, del_cur (T st' n) = Some (e, d) -> d_store (D st' d) = Some e.
Proof.
  intros fixed st t st' Hinv H2 H.
  step_cases H; facts Hinv; intros nX eX dX; pose proof (i_D1 _ H2 nX eX dX) as Ha;
    autorewrite with c12; case_eqb; simpl; autorewrite with c12; simpl;
    intros Hx; try discriminate; try (injection Hx; intros; subst); auto; try congruence; try lia;
    try (exfalso; other_sl_cur Hinv);
    try (destruct todo; try discriminate; injection Hx; intros; subst; try congruence;
         try (apply Ha; rewrite HT; reflexivity)).
Qed.

Lemma pres_A3 : forall fixed st t st', inv1 st -> inv2 st -> step fixed st t = Some st' ->
  forall e, e_open (E st' e) = true -> d_store (D st' (e_dir (E st' e))) = Some e.
Proof.
  intros fixed st t st' Hinv H2 H.
  step_cases H; facts Hinv; intros eX; pose proof (i_A3 _ H2 eX) as Ha;
    autorewrite with c12; case_eqb; simpl; autorewrite with c12; simpl;
    intros Hx; try discriminate; auto; try congruence; try lia;
    simpl in *; try congruence; try (specialize (Ha Hx));
    try (match goal with HI : e_idle (E ?s ?e1) = _ |- _ =>
           pose proof (i_I1 _ H2 e1) as Hq1; rewrite HI in Hq1; simpl in Hq1; specialize (Hq1 eq_refl) end);
    try (match goal with HI : e_idle (E ?s ?e1) = _ |- _ =>
           pose proof (i_I2 _ H2 e1) as Hq2; rewrite HI in Hq2; simpl in Hq2; specialize (Hq2 eq_refl) end);
    try (match goal with HT : T _ _ = CDel (DDelEntry _) |- _ =>
           destruct (i_R1 _ H2 _ _ _ _ HT Ha) end);
    try congruence.
Qed.

Lemma pres_A4 : forall fixed st t st', inv1 st -> inv2 st -> step fixed st t = Some st' ->
  forall d, d_handles (D st' d) =
            match d_store (D st' d) with Some e => if e_open (E st' e) then 1 else 0 | None => 0 end.
Proof.
  intros fixed st t st' Hinv H2 H.
  step_cases H; facts Hinv; intros dX; pose proof (i_A4 _ H2 dX) as Ha;
    try (match goal with HI : e_idle (E ?s ?e1) = _ |- _ =>
           pose proof (i_I1 _ H2 e1) as Hq1; rewrite HI in Hq1; simpl in Hq1; specialize (Hq1 eq_refl) end);
    try (match goal with HI : e_idle (E ?s ?e1) = _ |- _ =>
           pose proof (i_I2 _ H2 e1) as Hq2; rewrite HI in Hq2; simpl in Hq2; specialize (Hq2 eq_refl) end);
    try (match goal with HI : e_idle (E ?s ?e1) = IClose |- _ =>
           pose proof (i_I0 _ H2 e1 HI) as Ho; pose proof (i_A3 _ H2 _ Ho) as Hso end);
    try (match goal with HT : T _ _ = CDel (DClose _ _) |- _ =>
           pose proof (i_D3 _ H2 _ _ _ HT) as Ho; pose proof (i_A3 _ H2 _ Ho) as Hso end);
    autorewrite with c12; case_eqb; simpl; autorewrite with c12; simpl; auto;
    try (rewrite Hso in *; rewrite Ho in Ha; rewrite Ha; autorewrite with c12; rewrite Nat.eqb_refl; reflexivity);
    try (destruct (d_store (D st dX)) as [eY|] eqn:Hs; autorewrite with c12; case_eqb; simpl;
         autorewrite with c12; auto;
         try (pose proof (i_B1 _ Hinv _ _ Hs); lia);
         try (pose proof (i_A5 _ H2 _ _ Hs); congruence); fail);
    try congruence.
  - rewrite Nat.eqb_refl; simpl; rewrite Ha, Heqo; reflexivity.
  - destruct (d_store (D st n)) eqn:Hs; auto.
    destruct (i_R1 _ H2 _ _ _ _ HT Hs) as [Hq _]. rewrite Hq in Ha. auto.
  - rewrite Heqo in Ha; rewrite Hq1 in Ha; exact Ha.
  - rewrite Hq2 in Ha; rewrite Hq1 in Ha; exact Ha.
Qed.

Lemma pres_I2 : forall fixed st t st', inv1 st -> inv2 st -> step fixed st t = Some st' ->
  forall e, own_map (e_idle (E st' e)) = true -> d_store (D st' (e_dir (E st' e))) = Some e.
Proof.
  intros fixed st t st' Hinv H2 H.
  step_cases H; facts Hinv; intros eX; pose proof (i_I2 _ H2 eX) as Ha;
    try (match goal with HI : e_idle (E ?s ?e1) = _ |- _ =>
           pose proof (i_I2 _ H2 e1) as Hq2; rewrite HI in Hq2; simpl in Hq2; specialize (Hq2 eq_refl) end);
    try (match goal with HI : e_idle (E ?s ?e1) = IClose |- _ =>
           pose proof (i_I0 _ H2 e1 HI) as Ho; pose proof (i_A3 _ H2 _ Ho) as Hso end);
    autorewrite with c12; case_eqb; simpl; autorewrite with c12; simpl;
    intros Hx; try discriminate; auto; try congruence; try lia;
    simpl in *; try congruence; try (specialize (Ha Hx));
    try (match goal with HT : T _ _ = CDel (DDelEntry _) |- _ =>
           destruct (i_R1 _ H2 _ _ _ _ HT Ha) end);
    try congruence.
  - apply Ha; destruct (e_idle (E st e)); simpl in *; auto.
  - apply (i_A3 _ H2); auto.
Qed.

Lemma pres_R1 : forall fixed st t st', inv1 st -> inv2 st -> step fixed st t = Some st' ->
  forall n d r e, T st' n = CDel (DDelEntry (d :: r)) -> d_store (D st' d) = Some e ->
                  e_open (E st' e) = false /\ own_map (e_idle (E st' e)) = false.
Proof.
  intros fixed st t st' Hinv H2 H.
  step_cases H; facts Hinv; intros nX dX rX eX; pose proof (i_R1 _ H2 nX dX rX eX) as Ha;
    autorewrite with c12; case_eqb; simpl; autorewrite with c12; simpl;
    intros Hx Hy; try discriminate; try (injection Hx; intros; subst); auto; try congruence; try lia;
    try (exfalso; other_sl Hinv);
    try (destruct (Ha Hx Hy) as [Ha1 Ha2]; try rewrite HI in *; simpl in *; split; auto; congruence).
  - split; [apply (i_D2 _ H2 _ _ _ HT) |].
    destruct (own_map (e_idle (E st e))) eqn:Hom; auto. exfalso.
    assert (Hiw : iw_pc (e_idle (E st e)) = Some true) by (destruct (e_idle (E st e)); simpl in *; congruence).
    pose proof (i_L2b _ Hinv e (TI e) true (conj eq_refl Hiw)). congruence.
  - exfalso. pose proof (i_D1 _ H2 n0 e dX) as Hq; rewrite HT in Hq; specialize (Hq eq_refl); congruence.
Qed.




Lemma inv2_step : forall fixed st t st', inv1 st -> inv2 st -> step fixed st t = Some st' -> inv2 st'.
Proof.
  intros fixed st t st' H1 H2 H. constructor.
  - eapply pres_A2; eauto.
  - eapply pres_B3; eauto.
  - eapply pres_A3; eauto.
  - eapply pres_A4; eauto.
  - eapply pres_A5; eauto.
  - eapply pres_A6; eauto.
  - eapply pres_I0; eauto.
  - eapply pres_I1; eauto.
  - eapply pres_I2; eauto.
  - eapply pres_R1; eauto.
  - eapply pres_R2; eauto.
  - eapply pres_D1; eauto.
  - eapply pres_D2; eauto.
  - eapply pres_D3; eauto.
Qed.

Lemma inv2_init : forall nd specs, inv2 (init nd specs).
Proof.
  intros nd specs.
  assert (HE : forall e, E (init nd specs) e = dent) by (intros; unfold E; simpl; destruct e; reflexivity).
  assert (HD : forall d, D (init nd specs) d = ddir) by (intros; unfold D; simpl; apply nth_repeat_ddir).
  assert (HT : forall n, T (init nd specs) n = dthr \/ (exists d, T (init nd specs) n = CReq d RAcqSL)
                         \/ T (init nd specs) n = CDel DAcqSL).
  { intros n. destruct (init_thread_cases nd specs n) as [Hq|[[d [Hq _]]|Hq]]; eauto. }
  constructor; intros;
    try (rewrite HD in *; simpl in *; try discriminate; auto; fail);
    try (rewrite HE in *; simpl in *; try discriminate; auto; fail);
    try (destruct (HT n) as [Hq|[[d' Hq]|Hq]]; rewrite Hq in *; simpl in *; discriminate).
Qed.

Definition inv (st : state) : Prop := inv1 st /\ inv2 st.

Lemma inv_step : forall fixed st t st', inv st -> step fixed st t = Some st' -> inv st'.
Proof.
  intros fixed st t st' [H1 H2] H. split; [eapply inv1_step | eapply inv2_step]; eauto.
Qed.

Lemma inv_exec : forall fixed st l st', exec fixed st l st' -> inv st -> inv st'.
Proof. induction 1; intros; auto. apply IHexec. eapply inv_step; eauto. Qed.

Lemma inv_reachable : forall fixed st, reachable fixed st -> inv st.
Proof.
  intros fixed st (nd & specs & sched & Hok & Hex).
  eapply inv_exec; eauto. split; [apply inv1_init; auto | apply inv2_init].
Qed.

(* ------------------------------------------------------------------ *)
(* safety *)

Lemma inv_safe : forall st, inv st -> safe st.
Proof.
  intros st [H1 H2]. split; [|split].
  - intros n d e Hu.
    assert (Ho : open_pc (T st n) = Some e) by (destruct Hu as [Hu|Hu]; rewrite Hu; reflexivity).
    assert (Hr : rd_pc (T st n) = Some e) by (apply open_rd_pc; auto).
    assert (Hop : e_open (E st e) = true) by (eapply (i_A2 _ H2); eauto).
    assert (Hd : e_dir (E st e) = d).
    { apply (i_B3 _ H2 n); destruct Hu as [Hu|Hu]; rewrite Hu; reflexivity. }
    repeat split; auto.
    + apply (i_L3b _ H1); auto.
    + pose proof (i_A3 _ H2 _ Hop) as Hs. rewrite Hd in Hs. eapply (i_A6 _ H2); eauto.
  - intros d. rewrite (i_A4 _ H2 d). destruct (d_store (D st d)); auto. destruct (e_open (E st n)); auto.
  - intros d Hh. rewrite (i_A4 _ H2 d) in Hh. destruct (d_store (D st d)) eqn:Hs; try lia.
    eapply (i_A6 _ H2); eauto.
Qed.

Lemma safety : forall fixed st, reachable fixed st -> safe st.
Proof. intros. apply inv_safe. eapply inv_reachable; eauto. Qed.
