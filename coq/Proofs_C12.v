(* Proofs_C12.v -- lemmas about the lock-protocol model of Model_C12. *)
From Coq Require Import List Arith Bool Lia.
From Semadb Require Import Model_C12.
Import ListNotations.

(* ------------------------------------------------------------------ *)
(* lists *)

Lemma upd_length : forall A (l : list A) i x, length (upd l i x) = length l.
Proof. induction l; destruct i; simpl; intros; auto. Qed.

Lemma nth_upd_eq : forall A (l : list A) i x d, i < length l -> nth i (upd l i x) d = x.
Proof. induction l; destruct i; simpl; intros; try lia; auto. apply IHl. lia. Qed.

Lemma nth_upd_ne : forall A (l : list A) i j x d, i <> j -> nth j (upd l i x) d = nth j l d.
Proof. induction l; destruct i; destruct j; simpl; intros; try lia; auto. Qed.

Lemma nth_upd : forall A (l : list A) i j x d,
  nth j (upd l i x) d = if (i =? j) && (i <? length l) then x else nth j l d.
Proof.
  intros. destruct (Nat.eqb_spec i j).
  - subst. destruct (Nat.ltb_spec j (length l)); simpl.
    + apply nth_upd_eq; auto.
    + rewrite !nth_overflow; auto. rewrite upd_length. auto.
  - simpl. apply nth_upd_ne; auto.
Qed.

Lemma nth_app_new : forall A (l : list A) x j d,
  nth j (l ++ [x]) d = if j =? length l then x else nth j l d.
Proof.
  intros. destruct (Nat.eqb_spec j (length l)).
  - subst. rewrite app_nth2; auto. rewrite Nat.sub_diag. reflexivity.
  - destruct (Nat.lt_ge_cases j (length l)).
    + apply app_nth1; auto.
    + rewrite !nth_overflow; auto. rewrite app_length. simpl. lia.
Qed.

Lemma nth_not_default : forall A (l : list A) i d, nth i l d <> d -> i < length l.
Proof.
  intros. destruct (Nat.lt_ge_cases i (length l)); auto.
  exfalso. apply H. apply nth_overflow. auto.
Qed.

Lemma sum_upd : forall A (f : A -> nat) (l : list A) i x d, i < length l ->
  sum_list (map f (upd l i x)) + f (nth i l d) = sum_list (map f l) + f x.
Proof.
  induction l; destruct i; simpl; intros; try lia.
  specialize (IHl i x d). lia.
Qed.

Lemma sum_upd_le : forall A (f : A -> nat) (l : list A) i x d, f x <= f (nth i l d) ->
  sum_list (map f (upd l i x)) <= sum_list (map f l).
Proof.
  induction l; destruct i; simpl; intros; try lia.
  specialize (IHl i x d). lia.
Qed.

Lemma sum_app1 : forall A (f : A -> nat) (l : list A) x,
  sum_list (map f (l ++ [x])) = sum_list (map f l) + f x.
Proof. induction l; simpl; intros; try lia. rewrite IHl. lia. Qed.

Lemma in_remove_nat : forall n m l, In m (remove_nat n l) <-> In m l /\ m <> n.
Proof.
  intros. unfold remove_nat. rewrite filter_In.
  destruct (Nat.eqb_spec m n); simpl; intuition congruence.
Qed.

(* ------------------------------------------------------------------ *)
(* the measure decreases with every step (any state, both lock orders) *)

Lemma T_in_range : forall st n, T st n <> dthr -> n < length (thr st).
Proof. intros. apply nth_not_default with (d := dthr). auto. Qed.

Lemma E_in_range : forall st e, E st e <> dent -> e < length (ents st).
Proof. intros. apply nth_not_default with (d := dent). auto. Qed.

Lemma filter_len_le : forall A (f : A -> bool) l, length (filter f l) <= length l.
Proof. induction l; simpl; auto. destruct (f a); simpl; lia. Qed.

Lemma existing_dirs_length : forall st, length (existing_dirs st) <= length (dirs st).
Proof.
  intros. unfold existing_dirs.
  etransitivity. apply filter_len_le. rewrite seq_length. auto.
Qed.

Definition mI (x : entry) := m_idle (e_idle x).

Ltac msimp := unfold measure, set_thr, set_ent, set_dir, set_sl, add_ent; simpl;
              rewrite ?upd_length, ?app_length; fold mI.

Lemma thr_step_measure : forall st n c c' (en en' : list entry) sl' dirs',
  T st n = c -> c <> dthr -> length dirs' = length (dirs st) ->
  sum_list (map mI en') + m_thr (length (dirs st)) c' < sum_list (map mI en) + m_thr (length (dirs st)) c ->
  en = ents st ->
  measure (mkState sl' dirs' en' (upd (thr st) n c')) < measure st.
Proof.
  intros st n c c' en en' sl' dirs' HT Hd Hl Hm Hen. subst en.
  assert (n < length (thr st)) by (apply T_in_range; congruence).
  unfold measure. simpl. rewrite Hl. fold mI.
  pose proof (sum_upd _ (m_thr (length (dirs st))) (thr st) n c' dthr H).
  unfold T in HT. rewrite HT in H0. lia.
Qed.

Lemma ents_upd_le : forall st e x, mI x <= mI (E st e) ->
  sum_list (map mI (upd (ents st) e x)) <= sum_list (map mI (ents st)).
Proof. intros. apply sum_upd_le with (d := dent). auto. Qed.

Lemma step_measure : forall fixed st t st', step fixed st t = Some st' -> measure st' < measure st.
Proof.
  intros fixed st t st' H. destruct t as [n | e]; simpl in H.
  - destruct (T st n) as [d pc | pc] eqn:HT.
    + (* request *)
      destruct pc; simpl in H;
        repeat match type of H with
               | context [if ?b then _ else _] => destruct b eqn:?
               | context [match d_store ?x with _ => _ end] => destruct (d_store x) eqn:?
               end; inversion H; subst; clear H;
        unfold set_thr, set_ent, set_dir, set_sl, add_ent; simpl;
        try (eapply thr_step_measure; [exact HT | discriminate | simpl; rewrite ?upd_length; reflexivity | | reflexivity];
             simpl; try lia;
             try (match goal with |- context [upd (ents st) ?e ?x] =>
                    pose proof (ents_upd_le st e x) as Hle; unfold mI in Hle at 1 2; simpl in Hle;
                    specialize (Hle (le_n _)) end; simpl in *; lia)).
      * (* load, new entry *)
        rewrite sum_app1. unfold mI. simpl. lia.
    + (* deletion *)
      destruct pc; simpl in H;
        repeat match type of H with
               | context [match ?l with [] => _ | _ :: _ => _ end] => destruct l
               | context [if ?b then _ else _] => destruct b eqn:?
               | context [match d_store ?x with _ => _ end] => destruct (d_store x) eqn:?
               end; inversion H; subst; clear H;
        unfold set_thr, set_ent, set_dir, set_sl, add_ent; simpl;
        try (eapply thr_step_measure; [exact HT | discriminate | simpl; rewrite ?upd_length; reflexivity | | reflexivity];
             simpl; try lia;
             try (match goal with |- context [upd (ents st) ?e ?x] =>
                    pose proof (ents_upd_le st e x) as Hle; unfold mI in Hle at 1 2;
                    simpl in Hle end)).
      all: try (match goal with |- context [existing_dirs ?s] => pose proof (existing_dirs_length s); lia end).
      all: match goal with |- context [upd (ents ?s) ?e ?x] =>
             let Hm := fresh "Hm" in
             assert (Hm : mI x <= mI (E s e))
               by (unfold mI, signalled; destruct (e_idle (E s e)) eqn:Hi; simpl; rewrite ?Hi; simpl; lia);
             pose proof (ents_upd_le s e x Hm); lia end.
  - (* idle routine *)
    unfold step_idle in H.
    assert (Hr : e_idle (E st e) <> IExit -> e < length (ents st)).
    { intro. apply E_in_range. intro Hx. rewrite Hx in H0. simpl in H0. congruence. }
    assert (Hgen : forall sl' dirs' x, length dirs' = length (dirs st) ->
               e_idle (E st e) <> IExit -> mI x < mI (E st e) ->
               measure (mkState sl' dirs' (upd (ents st) e x) (thr st)) < measure st).
    { intros sl' dirs' x Hl Hne Hlt. unfold measure. simpl. rewrite Hl. fold mI.
      pose proof (sum_upd _ mI (ents st) e x dent (Hr Hne)). fold (E st e) in H0. lia. }
    destruct (e_idle (E st e)) eqn:Hi;
      repeat match type of H with
             | context [if ?b then _ else _] => destruct b eqn:?
             | context [match d_store ?x with _ => _ end] => destruct (d_store x) eqn:?
             end; inversion H; subst; clear H;
      unfold set_thr, set_ent, set_dir, set_sl, add_ent; simpl;
      apply Hgen; simpl; rewrite ?upd_length; auto; try discriminate;
      unfold mI; simpl; rewrite ?Hi; simpl; try lia.
    all: destruct fixed; simpl; lia.
Qed.

(* ------------------------------------------------------------------ *)
(* accessors of updated states *)

Lemma T_set_thr : forall st n0 c n, n0 < length (thr st) ->
  T (set_thr st n0 c) n = if n =? n0 then c else T st n.
Proof.
  intros. unfold T, set_thr. simpl. rewrite nth_upd.
  destruct (Nat.eqb_spec n0 n); destruct (Nat.eqb_spec n n0); try lia; simpl; auto.
  destruct (Nat.ltb_spec n0 (length (thr st))); auto; lia.
Qed.
Lemma E_set_ent : forall st e0 x e, e0 < length (ents st) ->
  E (set_ent st e0 x) e = if e =? e0 then x else E st e.
Proof.
  intros. unfold E, set_ent. simpl. rewrite nth_upd.
  destruct (Nat.eqb_spec e0 e); destruct (Nat.eqb_spec e e0); try lia; simpl; auto.
  destruct (Nat.ltb_spec e0 (length (ents st))); auto; lia.
Qed.
Lemma D_set_dir : forall st d0 x d, d0 < length (dirs st) ->
  D (set_dir st d0 x) d = if d =? d0 then x else D st d.
Proof.
  intros. unfold D, set_dir. simpl. rewrite nth_upd.
  destruct (Nat.eqb_spec d0 d); destruct (Nat.eqb_spec d d0); try lia; simpl; auto.
  destruct (Nat.ltb_spec d0 (length (dirs st))); auto; lia.
Qed.
Lemma E_add_ent : forall st x e, E (add_ent st x) e = if e =? length (ents st) then x else E st e.
Proof. intros. unfold E, add_ent. simpl. apply nth_app_new. Qed.

Lemma E_set_thr : forall st n c e, E (set_thr st n c) e = E st e. Proof. reflexivity. Qed.
Lemma D_set_thr : forall st n c d, D (set_thr st n c) d = D st d. Proof. reflexivity. Qed.
Lemma sl_set_thr : forall st n c, sl (set_thr st n c) = sl st. Proof. reflexivity. Qed.
Lemma T_set_ent : forall st e x n, T (set_ent st e x) n = T st n. Proof. reflexivity. Qed.
Lemma D_set_ent : forall st e x d, D (set_ent st e x) d = D st d. Proof. reflexivity. Qed.
Lemma sl_set_ent : forall st e x, sl (set_ent st e x) = sl st. Proof. reflexivity. Qed.
Lemma T_set_dir : forall st d x n, T (set_dir st d x) n = T st n. Proof. reflexivity. Qed.
Lemma E_set_dir : forall st d x e, E (set_dir st d x) e = E st e. Proof. reflexivity. Qed.
Lemma sl_set_dir : forall st d x, sl (set_dir st d x) = sl st. Proof. reflexivity. Qed.
Lemma T_set_sl : forall st v n, T (set_sl st v) n = T st n. Proof. reflexivity. Qed.
Lemma E_set_sl : forall st v e, E (set_sl st v) e = E st e. Proof. reflexivity. Qed.
Lemma D_set_sl : forall st v d, D (set_sl st v) d = D st d. Proof. reflexivity. Qed.
Lemma sl_set_sl : forall st v, sl (set_sl st v) = v. Proof. reflexivity. Qed.
Lemma T_add_ent : forall st x n, T (add_ent st x) n = T st n. Proof. reflexivity. Qed.
Lemma D_add_ent : forall st x d, D (add_ent st x) d = D st d. Proof. reflexivity. Qed.
Lemma sl_add_ent : forall st x, sl (add_ent st x) = sl st. Proof. reflexivity. Qed.

Lemma len_thr_set_thr : forall st n c, length (thr (set_thr st n c)) = length (thr st).
Proof. intros. unfold set_thr. simpl. apply upd_length. Qed.
Lemma len_ents_set_thr : forall st n c, length (ents (set_thr st n c)) = length (ents st). Proof. reflexivity. Qed.
Lemma len_dirs_set_thr : forall st n c, length (dirs (set_thr st n c)) = length (dirs st). Proof. reflexivity. Qed.
Lemma len_thr_set_ent : forall st n c, length (thr (set_ent st n c)) = length (thr st). Proof. reflexivity. Qed.
Lemma len_ents_set_ent : forall st n c, length (ents (set_ent st n c)) = length (ents st).
Proof. intros. unfold set_ent. simpl. apply upd_length. Qed.
Lemma len_dirs_set_ent : forall st n c, length (dirs (set_ent st n c)) = length (dirs st). Proof. reflexivity. Qed.
Lemma len_thr_set_dir : forall st n c, length (thr (set_dir st n c)) = length (thr st). Proof. reflexivity. Qed.
Lemma len_ents_set_dir : forall st n c, length (ents (set_dir st n c)) = length (ents st). Proof. reflexivity. Qed.
Lemma len_dirs_set_dir : forall st n c, length (dirs (set_dir st n c)) = length (dirs st).
Proof. intros. unfold set_dir. simpl. apply upd_length. Qed.
Lemma len_thr_set_sl : forall st v, length (thr (set_sl st v)) = length (thr st). Proof. reflexivity. Qed.
Lemma len_ents_set_sl : forall st v, length (ents (set_sl st v)) = length (ents st). Proof. reflexivity. Qed.
Lemma len_dirs_set_sl : forall st v, length (dirs (set_sl st v)) = length (dirs st). Proof. reflexivity. Qed.
Lemma len_thr_add_ent : forall st x, length (thr (add_ent st x)) = length (thr st). Proof. reflexivity. Qed.
Lemma len_ents_add_ent : forall st x, length (ents (add_ent st x)) = S (length (ents st)).
Proof. intros. unfold add_ent. simpl. rewrite app_length. simpl. lia. Qed.
Lemma len_dirs_add_ent : forall st x, length (dirs (add_ent st x)) = length (dirs st). Proof. reflexivity. Qed.

Global Hint Rewrite len_thr_set_thr len_ents_set_thr len_dirs_set_thr len_thr_set_ent len_ents_set_ent
  len_dirs_set_ent len_thr_set_dir len_ents_set_dir len_dirs_set_dir len_thr_set_sl len_ents_set_sl
  len_dirs_set_sl len_thr_add_ent len_ents_add_ent len_dirs_add_ent : c12len.

Ltac bound := autorewrite with c12len; (assumption || lia).

Global Hint Rewrite E_set_thr D_set_thr sl_set_thr T_set_ent D_set_ent sl_set_ent T_set_dir E_set_dir sl_set_dir
  T_set_sl E_set_sl D_set_sl sl_set_sl T_add_ent D_add_ent sl_add_ent E_add_ent : c12.
Global Hint Rewrite T_set_thr E_set_ent D_set_dir using bound : c12.
Global Hint Rewrite len_thr_set_thr len_ents_set_thr len_dirs_set_thr len_thr_set_ent len_ents_set_ent
  len_dirs_set_ent len_thr_set_dir len_ents_set_dir len_dirs_set_dir len_thr_set_sl len_ents_set_sl
  len_dirs_set_sl len_thr_add_ent len_ents_add_ent len_dirs_add_ent : c12.

(* ------------------------------------------------------------------ *)
(* classification of program counters *)

Definition sl_pc (c : cthread) : bool :=
  match c with
  | CReq _ RLoad | CReq _ (RRelSL _) => true
  | CReq _ _ => false
  | CDel DAcqSL | CDel DDone => false
  | CDel _ => true
  end.
Definition isl_pc (p : ipc) : bool :=
  match p with IDel | IRelSL | IDelp | IRelSLp => true | _ => false end.
Definition holds_sl (st : state) (t : tid) : Prop :=
  match t with TC n => sl_pc (T st n) = true | TI e => isl_pc (e_idle (E st e)) = true end.

Definition w_pc (c : cthread) : option (nat * bool) :=
  match c with
  | CDel (DLockAcq e _) => Some (e, false)
  | CDel (DNilChk e _) | CDel (DClose e _) | CDel (DUnlock e _) => Some (e, true)
  | _ => None
  end.
Definition iw_pc (p : ipc) : option bool :=
  match p with
  | ILockPend => Some false
  | ILocked | IClose | IUnlock | IUnlockNil | IAcqSLp | IDelp | IRelSLp | IUnlockP => Some true
  | _ => None
  end.
Definition holds_w (st : state) (e : nat) (t : tid) (b : bool) : Prop :=
  match t with
  | TC n => w_pc (T st n) = Some (e, b)
  | TI e' => e' = e /\ iw_pc (e_idle (E st e)) = Some b
  end.

Definition rd_pc (c : cthread) : option nat :=
  match c with
  | CReq _ (RNil e) | CReq _ (RBegin e) | CReq _ (REnd e) | CReq _ (RRUnlock e _) => Some e
  | _ => None
  end.

(* the entry a thread refers to *)
Definition pc_ent (c : cthread) : option nat :=
  match c with
  | CReq _ (RRelSL e) | CReq _ (RRLock e) | CReq _ (RNil e) | CReq _ (RBegin e) | CReq _ (REnd e)
  | CReq _ (RRUnlock e _) => Some e
  | CDel (DLockAnn e _) | CDel (DLockAcq e _) | CDel (DNilChk e _) | CDel (DClose e _) | CDel (DUnlock e _) => Some e
  | _ => None
  end.

Definition pc_todo (c : cthread) : list nat :=
  match c with
  | CDel (DLookup t) | CDel (DLockAnn _ t) | CDel (DLockAcq _ t) | CDel (DNilChk _ t) | CDel (DClose _ t)
  | CDel (DUnlock _ t) | CDel (DDelEntry t) | CDel (DRemove t) => t
  | _ => []
  end.

(* group 1: shape of the state and who holds which lock *)
Record inv1 (st : state) : Prop := mkInv1 {
  i_W  : forall n d pc, T st n = CReq d pc -> d < length (dirs st);
  i_B1 : forall d e, d_store (D st d) = Some e -> e < length (ents st);
  i_B2 : forall n e, pc_ent (T st n) = Some e -> e < length (ents st);
  i_B4 : forall n d, In d (pc_todo (T st n)) -> d < length (dirs st);
  i_B5 : forall e, e < length (ents st) -> e_dir (E st e) < length (dirs st);
  i_L1a : forall t, sl st = Some t -> holds_sl st t;
  i_L1b : forall t, holds_sl st t -> sl st = Some t;
  i_L2a : forall e t b, e_w (E st e) = Some (t, b) -> holds_w st e t b;
  i_L2b : forall e t b, holds_w st e t b -> e_w (E st e) = Some (t, b);
  i_L3a : forall n e, In n (e_rd (E st e)) -> rd_pc (T st n) = Some e;
  i_L3b : forall n e, rd_pc (T st n) = Some e -> In n (e_rd (E st e));
  i_A1 : forall e t, e_w (E st e) = Some (t, true) -> e_rd (E st e) = []
}.

(* the entry after the non-blocking `doneCh <- true` *)
Lemma sig_idle : forall x, e_idle (signalled x) = match e_idle x with IWait => IExit | p => p end.
Proof. intros. unfold signalled. destruct (e_idle x) eqn:Hq; simpl; auto. Qed.
Lemma sig_w : forall x, e_w (signalled x) = e_w x.
Proof. intros. unfold signalled. destruct (e_idle x); auto. Qed.
Lemma sig_rd : forall x, e_rd (signalled x) = e_rd x.
Proof. intros. unfold signalled. destruct (e_idle x); auto. Qed.
Lemma sig_open : forall x, e_open (signalled x) = e_open x.
Proof. intros. unfold signalled. destruct (e_idle x); auto. Qed.
Lemma sig_dir : forall x, e_dir (signalled x) = e_dir x.
Proof. intros. unfold signalled. destruct (e_idle x); auto. Qed.
Lemma sig_by : forall x, e_by (signalled x) = e_by x.
Proof. intros. unfold signalled. destruct (e_idle x); auto. Qed.
Global Hint Rewrite sig_idle sig_w sig_rd sig_open sig_dir sig_by : c12.

(* ------------------------------------------------------------------ *)
(* tactics: case split of a step, bounds of the indices involved *)

Ltac step_cases H :=
  match type of H with step ?fixed ?st ?t = Some ?st' =>
    destruct t as [n0|e0]; simpl in H;
    [ destruct (T st n0) as [d0 pc|pc] eqn:HT; [destruct pc; simpl in H | destruct pc; simpl in H]
    | unfold step_idle in H; destruct (e_idle (E st e0)) eqn:HI ];
    repeat match type of H with
      | context [match ?l with [] => _ | _ :: _ => _ end] => destruct l
      | context [if is_none ?b then _ else _] => destruct b eqn:?; simpl in H
      | context [if is_nil ?b then _ else _] => destruct b eqn:?; simpl in H
      | context [if ?b then _ else _] => destruct b eqn:?
      | context [match d_store ?x with _ => _ end] => destruct (d_store x) eqn:?
    end; try discriminate; inversion H; subst st'; clear H
  end.

Ltac case_eqb :=
  repeat match goal with
         | |- context [?a =? ?b] => destruct (Nat.eqb_spec a b); subst
         | H : context [?a =? ?b] |- _ => destruct (Nat.eqb_spec a b); subst
         end.

Ltac facts Hinv :=
  try (match goal with HT : T ?st ?n0 = _ |- _ =>
         assert (Hn0 : n0 < length (thr st)) by (apply T_in_range; rewrite HT; discriminate) end);
  try (match goal with HI : e_idle (E ?st ?e0) = _ |- _ =>
         assert (He0 : e0 < length (ents st)) by (apply E_in_range; let Hx := fresh "Hx" in intro Hx; rewrite Hx in HI; discriminate);
         pose proof (i_B5 _ Hinv _ He0) as Hd0 end);
  try (match goal with HT : T ?st ?n0 = CReq ?d0 _ |- _ => pose proof (i_W _ Hinv _ _ _ HT) as Hwd0 end);
  try (match goal with HT : T ?st ?n0 = _ |- _ =>
         let H := fresh "Hb2" in pose proof (i_B2 _ Hinv n0) as H; rewrite HT in H; simpl in H;
         specialize (H _ eq_refl); pose proof (i_B5 _ Hinv _ H) as Hb5 end);
  try (match goal with HT : T ?st ?n0 = _ |- _ =>
         let H := fresh "Hb4" in pose proof (i_B4 _ Hinv n0) as H; rewrite HT in H; simpl in H;
         try (pose proof (H _ (or_introl eq_refl)) as Hb4h) end);
  try (match goal with Hs : d_store (D ?st ?d) = Some ?e |- _ => pose proof (i_B1 _ Hinv _ _ Hs) as Hb1 end);
  try (match goal with HT : T ?st ?n0 = _ |- _ =>
         assert (Hsl0 : sl st = Some (TC n0)) by (apply (i_L1b _ Hinv (TC n0)); simpl; rewrite HT; reflexivity) end);
  try (match goal with HI : e_idle (E ?st ?e0) = _ |- _ =>
         assert (Hsl0 : sl st = Some (TI e0)) by (apply (i_L1b _ Hinv (TI e0)); simpl; rewrite HI; reflexivity) end);
  try (match goal with HT : T ?st ?n0 = _ |- _ =>
         match type of HT with context [?c ?e ?todo] =>
           first [ assert (Hw0 : e_w (E st e) = Some (TC n0, true)) by (apply (i_L2b _ Hinv e (TC n0)); simpl; rewrite HT; reflexivity)
                 | assert (Hw0 : e_w (E st e) = Some (TC n0, false)) by (apply (i_L2b _ Hinv e (TC n0)); simpl; rewrite HT; reflexivity) ] end end);
  try (match goal with HI : e_idle (E ?st ?e0) = _ |- _ =>
         first [ assert (Hw0 : e_w (E st e0) = Some (TI e0, true)) by (apply (i_L2b _ Hinv e0 (TI e0)); simpl; rewrite HI; auto)
               | assert (Hw0 : e_w (E st e0) = Some (TI e0, false)) by (apply (i_L2b _ Hinv e0 (TI e0)); simpl; rewrite HI; auto) ] end);
  try (match goal with HT : T ?st ?n0 = CReq _ ?pc |- _ =>
         match pc with context [?c ?e] =>
           assert (Hr0 : In n0 (e_rd (E st e))) by (apply (i_L3b _ Hinv); rewrite HT; reflexivity) end end).

Lemma E_overflow : forall st e, length (ents st) <= e -> E st e = dent.
Proof. intros. unfold E. apply nth_overflow. auto. Qed.


(* ------------------------------------------------------------------ *)
(* group 1 is preserved by every step *)

Lemma pres_B1 : forall fixed st t st', inv1 st -> step fixed st t = Some st' ->
  forall d e, d_store (D st' d) = Some e -> e < length (ents st').
Proof.
  intros fixed st t st' Hinv H.
  step_cases H; facts Hinv; intros dX eX; autorewrite with c12; case_eqb; simpl; intros Hx;
    try (inversion Hx; subst); try lia;
    try (pose proof (i_B1 _ Hinv _ _ Hx); lia).
Qed.

Lemma pres_W : forall fixed st t st', inv1 st -> step fixed st t = Some st' ->
  forall n d pc, T st' n = CReq d pc -> d < length (dirs st').
Proof.
  intros fixed st t st' Hinv H.
  step_cases H; facts Hinv; intros nX dX pcX; autorewrite with c12; case_eqb; simpl; intros Hx;
    try (inversion Hx; subst); try lia;
    try (pose proof (i_W _ Hinv _ _ _ Hx); lia).
  all: showrem.
Qed.

Lemma pres_B2 : forall fixed st t st', inv1 st -> step fixed st t = Some st' ->
  forall n e, pc_ent (T st' n) = Some e -> e < length (ents st').
Proof.
  intros fixed st t st' Hinv H.
  step_cases H; facts Hinv; intros nX eX; autorewrite with c12; case_eqb; simpl; intros Hx;
    try (inversion Hx; subst); try lia;
    try (pose proof (i_B2 _ Hinv _ _ Hx); lia).
  all: showrem.
Qed.

Lemma pres_B4 : forall fixed st t st', inv1 st -> step fixed st t = Some st' ->
  forall n d, In d (pc_todo (T st' n)) -> d < length (dirs st').
Proof.
  intros fixed st t st' Hinv H.
  step_cases H; facts Hinv; intros nX dX; autorewrite with c12; case_eqb; simpl; intros Hx;
    try lia; try (pose proof (i_B4 _ Hinv _ _ Hx); lia); try (apply Hb4; simpl; tauto).
  unfold existing_dirs in Hx. apply filter_In in Hx. destruct Hx as [Hx _]. apply in_seq in Hx. lia.
Qed.

Lemma pres_B5 : forall fixed st t st', inv1 st -> step fixed st t = Some st' ->
  forall e, e < length (ents st') -> e_dir (E st' e) < length (dirs st').
Proof.
  intros fixed st t st' Hinv H.
  step_cases H; facts Hinv; intros eX; autorewrite with c12; case_eqb; simpl; intros Hx;
    try lia; try (pose proof (i_B5 _ Hinv _ Hx); lia).
  - apply (i_B5 _ Hinv). lia.
  - autorewrite with c12. auto.
Qed.

Lemma pres_L1a : forall fixed st t st', inv1 st -> step fixed st t = Some st' ->
  forall t0, sl st' = Some t0 -> holds_sl st' t0.
Proof.
  intros fixed st t st' Hinv H.
  step_cases H; facts Hinv; intros tX; autorewrite with c12; intros Hx;
    try discriminate;
    try (inversion Hx; subst; simpl; autorewrite with c12; case_eqb; simpl; try rewrite HI; try reflexivity; try lia; fail);
    pose proof (i_L1a _ Hinv _ Hx) as Hh; pose proof (i_L1b _ Hinv) as Hu;
    destruct tX as [nX|eX]; simpl in *; autorewrite with c12; case_eqb; simpl; auto; try rewrite HI; try reflexivity;
    try (rewrite HT in Hh; simpl in Hh; discriminate); try (rewrite HI in Hh; simpl in Hh; discriminate); try congruence.
Qed.

Lemma pres_L1b : forall fixed st t st', inv1 st -> step fixed st t = Some st' ->
  forall t0, holds_sl st' t0 -> sl st' = Some t0.
Proof.
  intros fixed st t st' Hinv H.
  step_cases H; facts Hinv; intros tX; pose proof (i_L1b _ Hinv tX) as Hu; pose proof (i_L1a _ Hinv) as Ha;
    destruct tX as [nX|eX]; simpl in *; autorewrite with c12; case_eqb; simpl; try rewrite HI; simpl; auto;
    try discriminate; try congruence;
    try (let Hp := fresh "Hp" in intro Hp; specialize (Hu Hp); congruence).
  autorewrite with c12. destruct (e_idle (E st e)); simpl in *; auto; discriminate.
Qed.

Lemma pres_L2a : forall fixed st t st', inv1 st -> step fixed st t = Some st' ->
  forall e t0 b, e_w (E st' e) = Some (t0, b) -> holds_w st' e t0 b.
Proof.
  intros fixed st t st' Hinv H.
  step_cases H; facts Hinv; intros eX tX bX; pose proof (i_L2a _ Hinv eX tX bX) as Ha;
    destruct tX as [nX|eY]; simpl in *;
    autorewrite with c12; case_eqb; simpl; autorewrite with c12; simpl; intros Hx; try discriminate;
    try (inversion Hx; subst); try specialize (Ha Hx);
    simpl in *; autorewrite with c12; case_eqb; simpl; try rewrite HI; simpl; auto;
    try discriminate; try congruence;
    try (rewrite HT in Ha; simpl in Ha; try discriminate; inversion Ha; subst; auto; congruence);
    try (destruct Ha as [Ha1 Ha2]; subst; rewrite HI in Ha2; simpl in Ha2; try discriminate; auto; congruence).
Qed.

Lemma pres_L2b : forall fixed st t st', inv1 st -> step fixed st t = Some st' ->
  forall e t0 b, holds_w st' e t0 b -> e_w (E st' e) = Some (t0, b).
Proof.
  intros fixed st t st' Hinv H.
  step_cases H; facts Hinv; intros eX tX bX; pose proof (i_L2b _ Hinv eX tX bX) as Hu;
    destruct tX as [nX|eY]; simpl in *;
    autorewrite with c12; case_eqb; simpl; autorewrite with c12; simpl; try rewrite HI; simpl;
    intros Hx; try discriminate;
    try (specialize (Hu Hx)); try congruence;
    try (injection Hx; intros; subst; case_eqb; simpl; auto; congruence);
    try (destruct Hx as [Hx1 Hx2]; subst; case_eqb; simpl; try rewrite HI in *; simpl in *; try discriminate;
         try (injection Hx2; intros; subst); auto; try congruence).
  - rewrite E_overflow in Hu by lia. discriminate.
  - apply Hu; split; auto. destruct (e_idle (E st e)); simpl in *; auto; discriminate.
Qed.

Lemma pres_L3a : forall fixed st t st', inv1 st -> step fixed st t = Some st' ->
  forall n e, In n (e_rd (E st' e)) -> rd_pc (T st' n) = Some e.
Proof.
  intros fixed st t st' Hinv H.
  step_cases H; facts Hinv; intros nX eX; pose proof (i_L3a _ Hinv nX eX) as Ha;
    autorewrite with c12; case_eqb; simpl; autorewrite with c12; simpl;
    intros Hx; try contradiction; try (apply in_remove_nat in Hx; destruct Hx as [Hx Hne]);
    try (destruct Hx as [Hx|Hx]; [subst|]); try specialize (Ha Hx); auto; try congruence; try lia;
    try (rewrite HT in Ha; simpl in Ha; congruence).
Qed.

Lemma pres_L3b : forall fixed st t st', inv1 st -> step fixed st t = Some st' ->
  forall n e, rd_pc (T st' n) = Some e -> In n (e_rd (E st' e)).
Proof.
  intros fixed st t st' Hinv H.
  step_cases H; facts Hinv; intros nX eX; pose proof (i_L3b _ Hinv nX eX) as Ha;
    autorewrite with c12; case_eqb; simpl; autorewrite with c12; simpl;
    intros Hx; try discriminate; try (injection Hx; intros; subst); try (apply in_remove_nat; split);
    auto; try congruence; try lia; try (right; auto).
  exfalso. assert (Hp : pc_ent (T st nX) = Some (length (ents st))).
  { destruct (T st nX) as [? p|p]; try destruct p; simpl in *; congruence. }
  pose proof (i_B2 _ Hinv _ _ Hp). lia.
Qed.

Lemma pres_A1 : forall fixed st t st', inv1 st -> step fixed st t = Some st' ->
  forall e t0, e_w (E st' e) = Some (t0, true) -> e_rd (E st' e) = [].
Proof.
  intros fixed st t st' Hinv H.
  step_cases H; facts Hinv; intros eX tX; pose proof (i_A1 _ Hinv eX tX) as Ha;
    autorewrite with c12; case_eqb; simpl; autorewrite with c12; simpl;
    intros Hx; try discriminate; auto; try congruence;
    rewrite (Ha Hx) in Hr0; contradiction.
Qed.


Lemma inv1_step : forall fixed st t st', inv1 st -> step fixed st t = Some st' -> inv1 st'.
Proof.
  intros fixed st t st' Hinv H. constructor.
  - eapply pres_W; eauto.
  - eapply pres_B1; eauto.
  - eapply pres_B2; eauto.
  - eapply pres_B4; eauto.
  - eapply pres_B5; eauto.
  - eapply pres_L1a; eauto.
  - eapply pres_L1b; eauto.
  - eapply pres_L2a; eauto.
  - eapply pres_L2b; eauto.
  - eapply pres_L3a; eauto.
  - eapply pres_L3b; eauto.
  - eapply pres_A1; eauto.
Qed.

Lemma nth_repeat_ddir : forall n d, nth d (repeat ddir n) ddir = ddir.
Proof. induction n; destruct d; simpl; auto. Qed.

Lemma T_init : forall nd specs n, T (init nd specs) n = nth n (map spec_thread specs) dthr.
Proof. reflexivity. Qed.

Lemma init_thread_cases : forall nd specs n,
  T (init nd specs) n = dthr \/ (exists d, T (init nd specs) n = CReq d RAcqSL /\ In (SReq d) specs)
  \/ T (init nd specs) n = CDel DAcqSL.
Proof.
  intros. rewrite T_init. revert n. induction specs as [|s r IH]; intros n.
  - left. destruct n; reflexivity.
  - destruct n; simpl.
    + destruct s; simpl; [right; left; eexists; split; [reflexivity | left; reflexivity] | right; right; reflexivity].
    + destruct (IH n) as [Hq|[[d [Hq Hin]]|Hq]]; auto. right; left. exists d. split; auto. right; auto.
Qed.

Lemma inv1_init : forall nd specs, Forall (spec_ok nd) specs -> inv1 (init nd specs).
Proof.
  intros nd specs Hok.
  assert (HE : forall e, E (init nd specs) e = dent) by (intros; unfold E; simpl; destruct e; reflexivity).
  assert (HD : forall d, D (init nd specs) d = ddir) by (intros; unfold D; simpl; apply nth_repeat_ddir).
  constructor; intros.
  - destruct (init_thread_cases nd specs n) as [Hq|[[d' [Hq Hin]]|Hq]]; rewrite Hq in H; try discriminate.
    + unfold dthr in H. inversion H; subst. simpl. rewrite Forall_forall in Hok.
      (* the default thread is a finished request on directory 0: no obligation unless it is a real one *)
      exfalso. clear -H. discriminate.
    + inversion H; subst. simpl. rewrite repeat_length. rewrite Forall_forall in Hok. apply (Hok _ Hin).
  - rewrite HD in H. discriminate.
  - destruct (init_thread_cases nd specs n) as [Hq|[[d' [Hq Hin]]|Hq]]; rewrite Hq in H; discriminate.
  - destruct (init_thread_cases nd specs n) as [Hq|[[d' [Hq Hin]]|Hq]]; rewrite Hq in H; simpl in H; contradiction.
  - simpl in H. lia.
  - discriminate.
  - destruct t as [n|e]; simpl in H.
    + destruct (init_thread_cases nd specs n) as [Hq|[[d' [Hq Hin]]|Hq]]; rewrite Hq in H; discriminate.
    + rewrite HE in H. discriminate.
  - rewrite HE in H. discriminate.
  - destruct t as [n|e']; simpl in H.
    + destruct (init_thread_cases nd specs n) as [Hq|[[d' [Hq Hin]]|Hq]]; rewrite Hq in H; discriminate.
    + destruct H as [_ H]. rewrite HE in H. discriminate.
  - rewrite HE in H. contradiction.
  - destruct (init_thread_cases nd specs n) as [Hq|[[d' [Hq Hin]]|Hq]]; rewrite Hq in H; discriminate.
  - rewrite HE. reflexivity.
Qed.
