(* Pack.v -- compact literals for generated case files: byte strings packed
   7 bytes per primitive 63-bit integer (parsing a primitive int literal costs
   one term node instead of ~10 per byte). Only used by Run_*.v / cases files,
   never by a theorem. *)
From Coq Require Import List NArith ZArith Uint63.
Import ListNotations.
Open Scope N_scope.

Fixpoint word_bytes (k : nat) (w : Z) : list N :=
  match k with O => [] | S k' => Z.to_N (w mod 256) :: word_bytes k' (w / 256) end.
Fixpoint unpack_words (n : nat) (ws : list int) : list N :=
  match ws with
  | [] => []
  | w :: r => word_bytes (Nat.min n 7) (Uint63.to_Z w) ++ unpack_words (n - 7) r
  end.
(* B n [w1;...]%uint63 : the byte string of length n *)
Definition B (n : N) (ws : list int) : list N := unpack_words (N.to_nat n) ws.
Definition n63 (i : int) : N := Z.to_N (Uint63.to_Z i).
Definition z63 (i : int) : Z := Uint63.to_Z i.
(* 64-bit values as hi (32 bits) and lo (32 bits) *)
Definition n64 (hi lo : int) : N := Z.to_N (Uint63.to_Z hi * 4294967296 + Uint63.to_Z lo).
Arguments n63 i%uint63.
Arguments z63 i%uint63.
Arguments n64 hi%uint63 lo%uint63.
