(* Props_C20.v -- property C20: distance functions equal their definitions on
   every vector length.  Only statements; every proof is `exact <lemma>`.
   Exact arithmetic over Z: "up to floating-point rounding" is the part the
   theorems do not cover (see Run_C20.v / the harness for that part). *)
From Coq Require Import List NArith ZArith Bool.
From Semadb Require Import AsmParams Model_C20 Proofs_C20.
Import ListNotations.
Open Scope Z_scope.

(* --- the AVX2/FMA kernels, for EVERY length and every initial register content:
       under the side conditions on the parameters extracted from the .s file
       (blockitems = unroll*lanes, strides = 4*blockitems, tail stride 4, decrement =
       blockitems, every accumulator zeroed and reduced exactly once, result register
       stored: params_ok, a boolean that Coq evaluates) the kernel returns the exact
       sum of terms -- in particular it never reads outside either slice. *)
Theorem c20_kernel_sum : forall P, params_ok P = true ->
  forall (g : N -> N -> Z) xs ys, length xs = length ys ->
  kernel_g P g xs ys = Some (termsum (k_sub P) xs ys).
Proof. exact kernel_sum. Qed.
Print Assumptions c20_kernel_sum.

(* the parameters generated from the current dot.s / euclidean.s satisfy the side conditions *)
Theorem c20_generated_params_ok : params_ok dot_params = true /\ params_ok euc_params = true.
Proof. exact generated_params_ok. Qed.
Print Assumptions c20_generated_params_ok.

Theorem c20_dot_kernel : forall g xs ys, length xs = length ys ->
  kernel_g dot_params g xs ys = Some (dot xs ys).
Proof. exact dot_kernel_ok. Qed.
Print Assumptions c20_dot_kernel.

Theorem c20_euclidean_kernel : forall g xs ys, length xs = length ys ->
  kernel_g euc_params g xs ys = Some (sqeuclid xs ys).
Proof. exact euc_kernel_ok. Qed.
Print Assumptions c20_euclidean_kernel.

(* the kernels take the count from x only: with a shorter y they read past the end of y
   (error value of the model).  This is why the request validation of C18 matters. *)
Theorem c20_oob_when_lengths_differ : forall P, params_ok P = true ->
  forall (g : N -> N -> Z) xs ys, (length ys < length xs)%nat -> kernel_g P g xs ys = None.
Proof. exact kernel_oob. Qed.
Print Assumptions c20_oob_when_lengths_differ.

(* --- thresholded bit vectors: word-wise popcount formulas = per-position definitions,
       for every length and every threshold vector --- *)
Theorem c20_hamming_def : forall th v1 v2, length v1 = length v2 ->
  hamming (pack th v1) (pack th v2) = hamming_def (bits_of th v1) (bits_of th v2).
Proof. exact hamming_def_ok. Qed.
Print Assumptions c20_hamming_def.

Theorem c20_jaccard_def : forall th v1 v2, length v1 = length v2 ->
  jaccard (pack th v1) (pack th v2) = jaccard_def (bits_of th v1) (bits_of th v2).
Proof. exact jaccard_def_ok. Qed.
Print Assumptions c20_jaccard_def.

(* padding bits of the last word (and any bit at a position >= len) are zero *)
Theorem c20_pack_padding_zero : forall th v k i, (length v <= 64 * k + i)%nat ->
  N.testbit (nth k (pack th v) 0%N) (N.of_nat i) = false.
Proof. exact pack_padding_zero. Qed.
Print Assumptions c20_pack_padding_zero.

Theorem c20_pack_length : forall th v, length th = length v ->
  length (pack th v) = ((length v + 63) / 64)%nat.
Proof. exact pack_length. Qed.
Print Assumptions c20_pack_length.

(* --- symmetry (haversine: Props_C20_Haversine.v, over R) --- *)
Theorem c20_symmetry :
  (forall xs ys, sqeuclid xs ys = sqeuclid ys xs) /\ (forall xs ys, dot xs ys = dot ys xs)
  /\ (forall xs ys, cosine xs ys = cosine ys xs) /\ (forall xs ys, negdot xs ys = negdot ys xs)
  /\ (forall x y, hamming x y = hamming y x) /\ (forall x y, jaccard x y = jaccard y x)
  /\ (forall a b, hamming_def a b = hamming_def b a) /\ (forall a b, jaccard_def a b = jaccard_def b a).
Proof. exact symmetry_all. Qed.
Print Assumptions c20_symmetry.

(* --- product quantiser (shard/vectorstore/product.go): the distance between two quantised
       points, sum over the sub-vectors of term(i, code_a i, code_b i), is symmetric whenever the
       term is -- in particular sum_i distFn(centroid_i(a), centroid_i(b)) for both metrics
       the quantiser uses (cosine is mapped to euclidean by newProductQuantizer) --- *)
Theorem c20_pq_sum_symmetric : forall f : nat -> nat -> nat -> Z, (forall i a b, f i a b = f i b a) ->
  forall i ca cb, pq_sum f i ca cb = pq_sum f i cb ca.
Proof. exact pq_sum_sym. Qed.
Print Assumptions c20_pq_sum_symmetric.

Theorem c20_pq_point_dist_symmetric : forall metric sl k cents ca cb,
  pq_point_dist metric sl k cents ca cb = pq_point_dist metric sl k cents cb ca.
Proof. exact pq_point_dist_sym. Qed.
Print Assumptions c20_pq_point_dist_symmetric.

(* --- the hypotheses are satisfiable by non-trivial data: lengths 33 (one block + 1)
       and 70 (two blocks + 6), mixed signs --- *)
Definition ex_x (n : nat) : list Z := map (fun i => Z.of_nat i mod 7 - 3) (seq 1 n).
Definition ex_y (n : nat) : list Z := map (fun i => 2 - Z.of_nat (i * i) mod 5) (seq 1 n).
Example c20_ex_dot_33 : kernel dot_params (ex_x 33) (ex_y 33) = Some (dot (ex_x 33) (ex_y 33))
  /\ dot (ex_x 33) (ex_y 33) = 3.
Proof. vm_compute. split; reflexivity. Qed.
Example c20_ex_euclid_70 : kernel euc_params (ex_x 70) (ex_y 70) = Some (sqeuclid (ex_x 70) (ex_y 70))
  /\ sqeuclid (ex_x 70) (ex_y 70) = 476.
Proof. vm_compute. split; reflexivity. Qed.
Example c20_ex_oob : kernel dot_params (ex_x 70) (ex_y 69) = None /\ kernel euc_params (ex_x 33) (ex_y 32) = None.
Proof. vm_compute. split; reflexivity. Qed.
Example c20_ex_bits :
  let th := repeat 1 70 in let v1 := ex_x 70 in let v2 := ex_y 70 in
  pack th v1 = [3485998880071096368; 24]%N
  /\ hamming (pack th v1) (pack th v2) = 26%N /\ jaccard (pack th v1) (pack th v2) = (4, 30)%N.
Proof. vm_compute. repeat split; reflexivity. Qed.
(* product quantiser, 2 sub-vectors of length 2, 2 centroids each (plain integers as units): under the dot
   metric the distance of a point to a point with the same codes is -|c|^2, not 0 *)
Example c20_ex_pq :
  let cents := [1; 0; 0; 2;   -1; 1; 3; 0] in
  pq_point_dist 1 2 2 cents [0; 1]%nat [1; 1]%nat = -9 /\ pq_point_dist 1 2 2 cents [1; 1]%nat [0; 1]%nat = -9
  /\ pq_point_dist 1 2 2 cents [1; 0]%nat [1; 0]%nat = -6 /\ pq_point_dist 0 2 2 cents [1; 0]%nat [1; 0]%nat = 0
  /\ pq_point_dist 0 2 2 cents [0; 1]%nat [1; 0]%nat = 22
  /\ pq_query_dist 1 2 2 cents [0; 2; 3; 0] [1; 1]%nat = -13.
Proof. vm_compute. repeat split; reflexivity. Qed.
