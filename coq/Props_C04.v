(* Props_C04.v -- property C04: flat vector search is exact k-nearest-neighbour
   search within the filter.  Only statements; every proof is `exact <lemma>`.

   What is proved here (mechanism model Model_C04M.v, spec Model_C04.v):
   - the bounded insertion of flat.go, folded over the points in ANY order (the
     code ranges over a Go map), returns an exact k-smallest selection, sorted,
     of the points that pass the pre-filter (c04_exact, c04_exact_filter);
     limit 0 is refused by request validation (1..75) -- the loop itself would
     index res[-1] (c04_limit_zero_refuted);
   - the coded checker `ksel_code` with which the running check judges every
     real flat search is sound for that specification (c04_checker_sound,
     c04_checker_exact);
   - a vector store enumerates exactly its stored ids: from the keys of the
     bucket (c04_enumeration_complete) and in every state reachable by
     Set/Delete/Fit/Flush/eviction (c04_enumeration_reachable); for the binary
     store this rests on the generated constant bq_idfromkey_suffixes accepting
     'q': with the pinned IdFromKey ('v' only, defect F3) quantised points are
     not enumerated once the cache is gone (c04_binary_cold_refuted,
     c04_binary_reach_refuted);
   - a warm cache and a cold one hand the same set of (id, value) pairs to the
     fold, hence both answers are exact selections of the same candidates with
     the same distances (c04_warm_cold).
   What is NOT proved: that the float32 distance kernels compute the metric
   (C20), the float rounding of jaccard / product quantiser / haversine
   (compared with a tolerance by the checker: validation), that ReadFrom
   decodes what WriteTo wrote (C19), the cache invariant under concurrent
   transactions (C08/C11). *)
From Coq Require Import List NArith ZArith QArith Bool Arith Permutation Sorted.
From Semadb Require Import Bytes U64 KeyLayout Model_C19 Value Obs Dyadic Model_C01 Model_C02 Model_C04 Model_C04M Proofs_C04.
Import ListNotations.
Open Scope N_scope.

(* ---------------------------------------------------------------- exactness *)

(* For EVERY enumeration order of the candidates and every positive limit the
   fold does not panic and its result is a k-smallest selection of the
   candidates: distinct ids, all of them candidates, min(limit, |cands|) many,
   in non-decreasing distance order, and no candidate left out is strictly
   closer than a selected one.  Ties are free (ksel is a relation). *)
Theorem c04_exact : forall (A I : Type) (id : A -> I) (d : A -> Q) (limit : nat) (order cands : list A),
  Permutation order cands -> NoDup (map id cands) -> (0 < limit)%nat ->
  exists res,
    flat_run d limit order = Some res /\ flat_fold d limit order = res /\
    (NoDup (map id res) /\
     incl res cands /\
     length res = Nat.min limit (length cands) /\
     StronglySorted Qle (map d res) /\
     (forall c, In c cands -> ~ In c res -> forall r, In r res -> (d r <= d c)%Q)) /\
    ksel_split d limit cands res.
Proof. exact (@c04_exact_lemma). Qed.
Print Assumptions c04_exact.

(* with the pre-filter: an exact selection among the stored points that pass it *)
Theorem c04_exact_filter : forall (A I : Type) (id : A -> I) (d : A -> Q) (keep : A -> bool) (limit : nat)
                                  (order stored_points : list A),
  Permutation order stored_points -> NoDup (map id stored_points) -> (0 < limit)%nat ->
  exists res, flat_search d keep limit order = Some res /\
              ksel id d limit (filter keep stored_points) res.
Proof. exact (@c04_exact_filter_lemma). Qed.
Print Assumptions c04_exact_filter.

(* limit = 0 (cap(res) = 0): as soon as one point passes the filter the test
   `len(res) == cap(res) && dist >= *res[len(res)-1].Distance` indexes res[-1]:
   the model reaches its panic value.  Hence the hypothesis 0 < limit above;
   the API validates limit to 1..75 before Search is called. *)
Theorem c04_limit_zero_refuted : forall (A : Type) (d : A -> Q) (keep : A -> bool) (order : list A),
  ((exists x, In x order /\ keep x = true) -> flat_search d keep 0 order = None) /\
  ((forall x, In x order -> keep x = false) -> flat_search d keep 0 order = Some []).
Proof. intros. split; [exact (c04_limit_zero_lemma d keep order)|exact (c04_limit_zero_empty_lemma d keep order)]. Qed.
Print Assumptions c04_limit_zero_refuted.

(* ------------------------------------------------------- the coded checker *)

(* Verdict 0 of ksel_code (codes 161..167 of Run_C04) implies: no id twice;
   every row is a candidate and reports a distance accepted by that candidate's
   judgement (exact equality for DExact); min(k,|cs|) rows; non-decreasing
   distances; every exactly-judged candidate left out is at least as far as
   every reported row. *)
Theorem c04_checker_sound : forall (k : N) (cs : list cand) (rows : list row),
  ksel_code k cs rows = 0 ->
  NoDup (map r_id rows) /\
  (forall r, In r rows -> exists c q, In c cs /\ c_id c = r_id r /\ find_cand (r_id r) cs = Some c /\
                                   row_dist r = Some q /\ dist_ok c q = true) /\
  N.of_nat (length rows) = N.min k (N.of_nat (length cs)) /\
  StronglySorted Qle (row_dists rows) /\
  (forall c q, In c cs -> ~ In (c_id c) (map r_id rows) -> c_spec c = DExact q ->
               forall r dr, In r rows -> row_dist r = Some dr -> (dr <= q)%Q).
Proof. exact c04_checker_sound_lemma. Qed.
Print Assumptions c04_checker_sound.

(* when all candidates are judged exactly (integer-valued data) and have distinct
   ids, the candidates named by the accepted rows form a `ksel` -- the very
   relation the fold is proved to satisfy -- and every reported distance equals
   the candidate's distance *)
Theorem c04_checker_exact : forall (k : N) (cs : list cand) (rows : list row),
  NoDup (map c_id cs) -> (forall c, In c cs -> exists q, c_spec c = DExact q) ->
  ksel_code k cs rows = 0 ->
  ksel c_id cand_q (N.to_nat k) cs (sel_of cs rows) /\
  Forall2 (fun c r => In c cs /\ c_id c = r_id r /\ exists q, row_dist r = Some q /\ (q == cand_q c)%Q)
          (sel_of cs rows) rows.
Proof. exact c04_checker_exact_lemma. Qed.
Print Assumptions c04_checker_exact.

(* ------------------------------------------------------------- enumeration *)

(* From the keys: a bucket that holds, in any order, the keys of the stored
   points (plain: 'v'; product: 'v' and possibly 'q'; binary: 'v', 'q' or both)
   plus keys that are not node keys, read by a cold ForEach, yields every stored
   id exactly once.  The binary case uses the GENERATED bq_idfromkey_suffixes:
   its proof computes `existsb (N.eqb 113) bq_idfromkey_suffixes = true`. *)
Theorem c04_enumeration_complete :
  (forall ids keys,
     ids_ok ids -> bucket_of keys (plain_keys ids) ->
     NoDup (enum_ids plain_suffixes keys) /\ forall id, In id (enum_ids plain_suffixes keys) <-> In id ids) /\
  (forall (items : list (N * bool)) keys,
     ids_ok (map fst items) -> bucket_of keys (product_keys items) ->
     NoDup (enum_ids [suf_v] keys) /\ forall id, In id (enum_ids [suf_v] keys) <-> In id (map fst items)) /\
  (forall (items : list (N * bq_keys)) keys,
     ids_ok (map fst items) -> bucket_of keys (binary_keys items) ->
     NoDup (enum_ids bq_idfromkey_suffixes keys) /\
     forall id, In id (enum_ids bq_idfromkey_suffixes keys) <-> In id (map fst items)).
Proof. exact (conj c04_enum_plain_lemma (conj c04_enum_product_lemma c04_enum_binary_lemma)). Qed.
Print Assumptions c04_enumeration_complete.

(* ForEach over a cache: the cached entries that are not deleted, and what the
   bucket yields for ids that are not cached at all *)
Theorem c04_enumeration_cache : forall (V : Type) accepted keys (c : cache V) id,
  In id (enum_ids_cache accepted keys c) <->
  (exists e, In (id, e) c /\ ce_deleted e = false) \/ (~ In id (cache_ids c) /\ yields accepted keys id).
Proof. exact (@enum_ids_cache_spec). Qed.
Print Assumptions c04_enumeration_cache.

(* In every state reachable from an empty store by any sequence of Set, Delete,
   Fit, Flush, eviction of clean entries and loss of the whole cache, for the
   plain store, the product store and the binary store with the CURRENT
   IdFromKey, with a fixed (trained0 = true) or learned threshold: ForEach
   visits an id iff it is stored. *)
Theorem c04_enumeration_reachable : forall c,
  c = cfg_plain \/ c = cfg_product \/ c = cfg_binary ->
  forall (trained0 : bool) (ops : list kop) (id : N),
    enumerated c (krun c (kstate0 trained0) ops) id = stored (krun c (kstate0 trained0) ops) id.
Proof. exact c04_enum_reachable_lemma. Qed.
Print Assumptions c04_enumeration_reachable.

(* the pinned IdFromKey ('v' only): a bucket whose points are all quantised
   enumerates to nothing, however many points it stores *)
Theorem c04_binary_cold_refuted :
  (forall (items : list (N * bq_keys)) keys,
     (forall it, In it items -> snd it = BQ_q) -> ids_ok (map fst items) -> bucket_of keys (binary_keys items) ->
     enum_ids bq_idfromkey_suffixes_v0 keys = []) /\
  (exists (items : list (N * bq_keys)) keys,
     items <> [] /\ keys = binary_keys items ++ [bq_threshold_key] /\
     enum_ids bq_idfromkey_suffixes_v0 keys = [] /\ enum_ids bq_idfromkey_suffixes keys = map fst items).
Proof.
  split; [exact c04_binary_cold_v0_lemma|].
  exists [(7, BQ_q); (300, BQ_q)], (binary_keys [(7, BQ_q); (300, BQ_q)] ++ [bq_threshold_key]).
  split; [discriminate|]. split; [reflexivity|]. split; vm_compute; reflexivity.
Qed.
Print Assumptions c04_binary_cold_refuted.

(* the same through the state machine: fixed threshold, write, flush, lose the cache *)
Theorem c04_binary_reach_refuted :
  let s := krun cfg_binary_v0 (kstate0 true) [KSet 7; KFlush; KDropCache] in
  stored s 7 = true /\ enumerated cfg_binary_v0 s 7 = false /\
  enumerated cfg_binary_v0 (krun cfg_binary_v0 (kstate0 true) [KSet 7; KFlush]) 7 = true.
Proof. exact c04_binary_reach_refuted_lemma. Qed.
Print Assumptions c04_binary_reach_refuted.

(* ------------------------------------------------------------ warm and cold *)

(* If the cache is in sync with the bucket (no pending entry, every cached value
   is what ReadFrom decodes, everything loaded, every cached id has an accepted
   key), then ForEach over the warm cache and over an empty one both succeed and
   hand the same set of (id, value) pairs to the callback; and for any two
   iteration orders, any distance on (id, value), any pre-filter and any
   positive limit both searches return exact selections of the same candidates
   whose distance lists are equal (ids may differ among ties only). *)
Theorem c04_warm_cold : forall (V : Type) accepted (read : N -> option V) keys (c : cache V)
                               (d : N * V -> Q) (keep : N * V -> bool) (limit : nat),
  in_sync accepted read keys c -> (0 < limit)%nat ->
  exists warm cold,
    enum_items accepted read keys c = Some warm /\
    enum_items accepted read keys [] = Some cold /\
    Permutation warm cold /\
    forall ow oc, Permutation ow warm -> Permutation oc cold ->
    exists rw rc,
      flat_search d keep limit ow = Some rw /\ flat_search d keep limit oc = Some rc /\
      ksel fst d limit (filter keep warm) rw /\ ksel fst d limit (filter keep warm) rc /\
      Forall2 Qeq (map d rw) (map d rc).
Proof. exact (@c04_warm_cold_lemma). Qed.
Print Assumptions c04_warm_cold.

(* two exact selections of the same candidates report the same distances *)
Theorem c04_selection_distances_unique : forall (A : Type) (d : A -> Q) k cands r1 r2,
  NoDup cands -> ksel_split d k cands r1 -> ksel_split d k cands r2 ->
  Forall2 Qeq (map d r1) (map d r2).
Proof. exact (@ksel_split_same_dists). Qed.
Print Assumptions c04_selection_distances_unique.

(* ------------------------------------------------------------------ examples *)

(* five points (id, distance), two of them tied at distance 2; limit 3 *)
Definition q (z : Z) : Q := inject_Z z.
Definition ex_pts : list (N * Q) := [(1, q 5); (2, q 2); (3, q 7); (4, q 2); (5, q 1)].
Example ex_fold_order1 : flat_fold snd 3 ex_pts = [(5, q 1); (2, q 2); (4, q 2)].
Proof. vm_compute. reflexivity. Qed.
(* another enumeration order: same distances, the tie is resolved the other way round *)
Example ex_fold_order2 : flat_fold snd 3 (rev ex_pts) = [(5, q 1); (4, q 2); (2, q 2)].
Proof. vm_compute. reflexivity. Qed.
Example ex_fold_limit2 : flat_fold snd 2 ex_pts = [(5, q 1); (2, q 2)] /\ flat_fold snd 2 (rev ex_pts) = [(5, q 1); (4, q 2)].
Proof. vm_compute. split; reflexivity. Qed.
Example ex_fold_all : flat_fold snd 75 ex_pts = [(5, q 1); (2, q 2); (4, q 2); (1, q 5); (3, q 7)].
Proof. vm_compute. reflexivity. Qed.
Example ex_search_filter : flat_search snd (fun p => negb (fst p =? 5)) 2 ex_pts = Some [(2, q 2); (4, q 2)].
Proof. vm_compute. reflexivity. Qed.
Example ex_limit_zero : flat_search snd (fun _ => true) 0 ex_pts = None.
Proof. reflexivity. Qed.
(* the hypotheses of c04_exact hold for it, so its conclusion does *)
Example ex_exact_hyps : Permutation (rev ex_pts) ex_pts /\ NoDup (map fst ex_pts) /\ (0 < 3)%nat.
Proof.
  split; [symmetry; apply Permutation_rev|]. split; [|auto with arith].
  cbn. repeat constructor; cbn; intuition discriminate.
Qed.

(* the checker on rows: ids are byte strings, distances float32 bit patterns
   (1.0 = 0x3F800000, 2.0 = 0x40000000, 3.0 = 0x40400000) *)
Definition ex_cands : list cand :=
  [mkCand [1] (DExact (3#1)) None; mkCand [2] (DExact (1#1)) None; mkCand [3] (DExact (2#1)) None; mkCand [4] (DExact (2#1)) None].
Definition ex_row (id : bytes) (bits : N) : row := mkRow id None (Some bits) None 0.
Example ex_checker_accepts :
  ksel_code 2 ex_cands [ex_row [2] 1065353216; ex_row [4] 1073741824] = 0 /\
  ksel_code 2 ex_cands [ex_row [2] 1065353216; ex_row [3] 1073741824] = 0 /\       (* the other tie *)
  ksel_code 75 ex_cands [ex_row [2] 1065353216; ex_row [3] 1073741824; ex_row [4] 1073741824; ex_row [1] 1077936128] = 0.
Proof. vm_compute. repeat split. Qed.
Example ex_checker_rejects :
  ksel_code 2 ex_cands [ex_row [2] 1065353216; ex_row [1] 1077936128] = 7 /\       (* a closer candidate left out *)
  ksel_code 2 ex_cands [ex_row [4] 1073741824; ex_row [2] 1065353216] = 6 /\       (* not sorted *)
  ksel_code 2 ex_cands [ex_row [2] 1065353216] = 5 /\                              (* too few *)
  ksel_code 2 ex_cands [ex_row [2] 1065353216; ex_row [3] 1077936128] = 4 /\       (* wrong distance *)
  ksel_code 2 ex_cands [ex_row [2] 1065353216; ex_row [9] 1073741824] = 2 /\       (* not a candidate *)
  ksel_code 2 ex_cands [ex_row [2] 1065353216; ex_row [2] 1065353216] = 1.         (* duplicate *)
Proof. vm_compute. repeat split. Qed.
Example ex_checker_exact_hyps : NoDup (map c_id ex_cands) /\ (forall c, In c ex_cands -> exists q, c_spec c = DExact q).
Proof.
  split.
  - cbn. repeat constructor; cbn; intuition discriminate.
  - intros c [<-|[<-|[<-|[<-|[]]]]]; eexists; reflexivity.
Qed.

(* a binary store bucket: point 7 quantised, point 9 written before and re-encoded
   by Fit (both keys), point 300 not quantised yet, and the persisted threshold *)
Definition ex_bq_items : list (N * bq_keys) := [(7, BQ_q); (9, BQ_qv); (300, BQ_v)].
Definition ex_bq_keys : list bytes := binary_keys ex_bq_items ++ [bq_threshold_key].
Example ex_enum_binary : enum_ids bq_idfromkey_suffixes ex_bq_keys = [7; 9; 300].
Proof. vm_compute. reflexivity. Qed.
Example ex_enum_binary_v0 : enum_ids bq_idfromkey_suffixes_v0 ex_bq_keys = [9; 300].   (* 7 is lost *)
Proof. vm_compute. reflexivity. Qed.
Example ex_enum_hyps : ids_ok (map fst ex_bq_items) /\ bucket_of ex_bq_keys (binary_keys ex_bq_items).
Proof.
  split.
  - intros id [<-|[<-|[<-|[]]]]; reflexivity.
  - exists [bq_threshold_key]. split; [reflexivity|]. intros k [<-|[]]. intros s. reflexivity.
Qed.
(* with a cache: 9 cached and deleted (not flushed yet), 11 cached and dirty (no key yet) *)
Example ex_enum_cache :
  enum_ids_cache bq_idfromkey_suffixes ex_bq_keys [(9, mkCE tt true); (11, mkCE tt false)] = [11; 7; 300].
Proof. vm_compute. reflexivity. Qed.

(* the state machine: a learned-threshold binary store through training and a cold restart *)
Example ex_reach_binary :
  let s := krun cfg_binary (kstate0 false) [KSet 1; KSet 2; KFlush; KDropCache; KSet 3; KFit; KFlush; KDelete 2; KFlush; KDropCache] in
  (enumerated cfg_binary s 1, enumerated cfg_binary s 2, enumerated cfg_binary s 3, enumerated cfg_binary s 4) = (true, false, true, false) /\
  (f_q (s 1), f_v (s 1), f_q (s 3), f_v (s 3), f_trained (s 1)) = (true, true, true, false, true).
Proof. vm_compute. split; reflexivity. Qed.

(* in_sync is satisfiable: a plain store with two points, all cached *)
Definition ex_read (id : N) : option N := if id =? 7 then Some 70 else if id =? 9 then Some 90 else None.
Definition ex_cache : cache N := [(9, mkCE 90 false); (7, mkCE 70 false)].
Example ex_in_sync : in_sync plain_suffixes ex_read (plain_keys [7; 9]) ex_cache.
Proof.
  constructor.
  - cbn. repeat constructor; cbn; intuition discriminate.
  - intros id e [[= <- <-]|[[= <- <-]|[]]]; reflexivity.
  - intros id e [[= <- <-]|[[= <- <-]|[]]]; reflexivity.
  - intros id (k & Hk & E). destruct Hk as [<-|[<-|[]]]; vm_compute in E; injection E as <-; cbn; tauto.
  - intros id [<-|[<-|[]]].
    + exists (node_key 9 suf_v). split; [cbn; tauto|reflexivity].
    + exists (node_key 7 suf_v). split; [cbn; tauto|reflexivity].
Qed.
Example ex_warm_cold :
  enum_items plain_suffixes ex_read (plain_keys [7; 9]) ex_cache = Some [(9, 90); (7, 70)] /\
  enum_items plain_suffixes ex_read (plain_keys [7; 9]) [] = Some [(7, 70); (9, 90)].
Proof. vm_compute. split; reflexivity. Qed.
