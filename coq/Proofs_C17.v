(* Proofs_C17.v -- lemmas behind Props_C17.v: the binary search of
   curateFailedPoints decides membership, the failed list is "requested minus
   processed", the fan-out of update / delete touches each stored id in exactly
   one shard and agrees with ONE collection-level store, the merge of per-shard
   answers is bounded, duplicate-free and globally ordered for every correct
   sort, bounds of the per-shard limit, which results an offset skips. *)
From Coq Require Import List NArith ZArith Bool Lia Arith Sorted Permutation.
From Coq Require Import ZifyBool ZifyN ZifyNat.
From Semadb Require Import Bytes U64 Value Obs KeyLayout Model_C19 Model_C01 Model_C02 Model_C04 Model_C06 Model_C06M Model_C17.
From Semadb Require Proofs_C06.
Import ListNotations.
Open Scope N_scope.

(* ================================================================== *)
(* A. byte strings, lists                                              *)

Lemma beq_refl a : bytes_eqb a a = true.
Proof. now apply bytes_eqb_eq. Qed.

Lemma beq_false a b : bytes_eqb a b = false <-> a <> b.
Proof.
  destruct (bytes_eqb a b) eqn:E.
  - apply bytes_eqb_eq in E. split; congruence.
  - split; [|reflexivity]. intros _ H. apply bytes_eqb_eq in H. congruence.
Qed.

Lemma beq_sym a b : bytes_eqb a b = bytes_eqb b a.
Proof.
  destruct (bytes_eqb a b) eqn:E1, (bytes_eqb b a) eqn:E2; try reflexivity.
  - apply bytes_eqb_eq in E1. subst. now rewrite beq_refl in E2.
  - apply bytes_eqb_eq in E2. subst. now rewrite beq_refl in E1.
Qed.

Lemma mem_In x l : mem_bytes x l = true <-> In x l.
Proof.
  unfold mem_bytes. rewrite existsb_exists. split.
  - intros [y [Hy E]]. apply bytes_eqb_eq in E. now subst.
  - intros H. exists x. split; [exact H|apply beq_refl].
Qed.

Lemma mem_notIn x l : mem_bytes x l = false <-> ~ In x l.
Proof. rewrite <- mem_In. destruct (mem_bytes x l); split; congruence. Qed.

Lemma existsb_beq_In x l : existsb (bytes_eqb x) l = true <-> In x l.
Proof. exact (mem_In x l). Qed.

Lemma NoDup_app_iff {A} (a b : list A) :
  NoDup (a ++ b) <-> NoDup a /\ NoDup b /\ (forall x, In x a -> ~ In x b).
Proof.
  induction a as [|x a IH]; cbn.
  - split; [intros H; repeat split; auto; constructor|tauto].
  - split.
    + intros H. inversion H as [|? ? Hn Hd]; subst. apply IH in Hd. destruct Hd as [Ha [Hb Hc]].
      repeat split; auto.
      * constructor; auto. intros Hi. apply Hn. apply in_or_app. now left.
      * intros y [->|Hy]; [|now apply Hc]. intros Hi. apply Hn. apply in_or_app. now right.
    + intros [Ha [Hb Hc]]. inversion Ha as [|? ? Hn Hd]; subst. constructor.
      * intros Hi. apply in_app_or in Hi. destruct Hi as [Hi|Hi]; [now apply Hn|]. apply (Hc x); auto.
      * apply IH. repeat split; auto.
Qed.

Lemma NoDup_firstn {A} n (l : list A) : NoDup l -> NoDup (firstn n l).
Proof.
  intros H. rewrite <- (firstn_skipn n l) in H. apply NoDup_app_iff in H. tauto.
Qed.

(* sub-lists obtained by filtering the members of a duplicate-free concatenation *)
Lemma concat_filtered_In {A} (ls ls' : list (list A)) x :
  Forall2 (fun l l' => exists g, l' = filter g l) ls ls' -> In x (concat ls') -> In x (concat ls).
Proof.
  induction 1 as [|l l' ls ls' [g Hg] _ IH]; cbn; [auto|].
  intros Hx. apply in_app_or in Hx. apply in_or_app. destruct Hx as [Hx|Hx].
  - left. subst l'. apply filter_In in Hx. tauto.
  - right. now apply IH.
Qed.

Lemma NoDup_concat_filtered {A} (ls ls' : list (list A)) :
  Forall2 (fun l l' => exists g, l' = filter g l) ls ls' ->
  NoDup (concat ls) -> NoDup (concat ls').
Proof.
  induction 1 as [|l l' ls ls' [g Hg] HF IH]; cbn; [auto|].
  intros H. apply NoDup_app_iff in H. destruct H as [H1 [H2 H3]].
  apply NoDup_app_iff. subst l'. repeat split.
  - now apply NoDup_filter.
  - now apply IH.
  - intros x Hx Hx'. apply filter_In in Hx. destruct Hx as [Hx _].
    apply (H3 x Hx). exact (concat_filtered_In _ _ _ HF Hx').
Qed.

(* ================================================================== *)
(* B. the byte order is a total preorder; sorted lists                 *)

Lemma lex_preorder : cmp_preorder lex_compare.
Proof.
  constructor.
  - apply lex_compare_refl.
  - apply lex_compare_antisym.
  - apply Proofs_C06.lex_compare_le_trans.
Qed.

Definition ble (a b : bytes) : Prop := cle lex_compare a b.

Lemma ble_antisym a b : ble a b -> ble b a -> a = b.
Proof.
  unfold ble, cle. intros H1 H2. rewrite (lex_compare_antisym a b) in H2.
  destruct (lex_compare a b) eqn:E; cbn in *; try congruence.
  now apply lex_compare_eq.
Qed.

Lemma lt_ble_trans a b c : ble a b -> lex_compare b c = Lt -> lex_compare a c = Lt.
Proof.
  unfold ble, cle. intros H1 H2.
  destruct (lex_compare a b) eqn:E; [| |congruence].
  - apply lex_compare_eq in E. now subst.
  - exact (lex_compare_trans_lt _ _ _ E H2).
Qed.

Lemma ge_ble_trans a b c : lex_compare a c <> Lt -> ble a b -> lex_compare b c <> Lt.
Proof.
  intros H1 H2 H3. apply H1. exact (lt_ble_trans _ _ _ H2 H3).
Qed.

Lemma strongly_sorted_nth {A} (R : A -> A -> Prop) (l : list A) (d : A) :
  (forall x, R x x) -> StronglySorted R l ->
  forall a b, (a <= b)%nat -> (b < length l)%nat -> R (nth a l d) (nth b l d).
Proof.
  intros Rr H. induction H as [|x l Hs IH Hf]; intros a b Hab Hb; cbn in Hb; [lia|].
  destruct a as [|a], b as [|b]; cbn; try lia.
  - apply Rr.
  - rewrite Forall_forall in Hf. apply Hf. apply nth_In. lia.
  - apply IH; lia.
Qed.

Lemma sorted_bytes_strong l : Sorted ble l -> StronglySorted ble l.
Proof. apply (Proofs_C06.sorted_strong lex_compare lex_preorder). Qed.

(* ================================================================== *)
(* C. binary search                                                    *)

Section BinarySearch.
  Variable l : list uuid.
  Variable t : uuid.
  Hypothesis Hs : Sorted ble l.

  Let below (i : nat) : Prop := forall k, (k < i)%nat -> lex_compare (nth k l []) t = Lt.
  Let above (j : nat) : Prop := forall k, (j <= k)%nat -> (k < length l)%nat -> lex_compare (nth k l []) t <> Lt.

  Lemma nth_mono a b : (a <= b)%nat -> (b < length l)%nat -> ble (nth a l []) (nth b l []).
  Proof.
    apply strongly_sorted_nth; [|now apply sorted_bytes_strong].
    intros x. unfold ble, cle. rewrite lex_compare_refl. discriminate.
  Qed.

  Lemma half_bounds i j : (i < j)%nat -> (i <= (i + j) / 2)%nat /\ ((i + j) / 2 < j)%nat.
  Proof.
    intros H. split.
    - apply Nat.div_le_lower_bound; lia.
    - apply Nat.div_lt_upper_bound; lia.
  Qed.

  Lemma bs_loop_S f i j :
    bs_loop (S f) l t i j =
    if (i <? j)%nat then
      match lex_compare (nth ((i + j) / 2) l []) t with
      | Lt => bs_loop f l t (S ((i + j) / 2)) j
      | _ => bs_loop f l t i ((i + j) / 2)
      end
    else i.
  Proof. reflexivity. Qed.

  Lemma bs_loop_spec fuel : forall i j,
    (j - i <= fuel)%nat -> (i <= j)%nat -> (j <= length l)%nat -> below i -> above j ->
    (i <= bs_loop fuel l t i j)%nat /\ (bs_loop fuel l t i j <= j)%nat /\
    below (bs_loop fuel l t i j) /\ above (bs_loop fuel l t i j).
  Proof.
    induction fuel as [|f IH]; intros i j Hf Hij Hj Hb Ha.
    - cbn [bs_loop]. assert (i = j) by lia. subst j. repeat split; auto.
    - rewrite bs_loop_S. destruct (i <? j)%nat eqn:Elt.
      + apply Nat.ltb_lt in Elt. destruct (half_bounds i j Elt) as [H1 H2].
        set (h := ((i + j) / 2)%nat) in *.
        assert (Hge : lex_compare (nth h l []) t <> Lt -> above h).
        { intros Hc k Hk1 Hk2. apply (ge_ble_trans (nth h l [])); [exact Hc|]. apply nth_mono; lia. }
        destruct (lex_compare (nth h l []) t) eqn:Ec.
        * destruct (IH i h ltac:(lia) ltac:(lia) ltac:(lia) Hb (Hge ltac:(discriminate))) as [R1 [R2 [R3 R4]]].
          repeat split; auto; lia.
        * assert (Hb' : below (S h)).
          { intros k Hk. apply (lt_ble_trans _ (nth h l [])); [|exact Ec]. apply nth_mono; lia. }
          destruct (IH (S h) j ltac:(lia) ltac:(lia) ltac:(lia) Hb' Ha) as [R1 [R2 [R3 R4]]].
          repeat split; auto; lia.
        * destruct (IH i h ltac:(lia) ltac:(lia) ltac:(lia) Hb (Hge ltac:(discriminate))) as [R1 [R2 [R3 R4]]].
          repeat split; auto; lia.
      + apply Nat.ltb_ge in Elt. assert (i = j) by lia. subst j. repeat split; auto.
  Qed.

  (* the returned position is the lower bound of t *)
  Lemma bsearch_position :
    let i := fst (bsearch l t) in
    (i <= length l)%nat /\
    (forall k, (k < i)%nat -> lex_compare (nth k l []) t = Lt) /\
    (forall k, (i <= k)%nat -> (k < length l)%nat -> lex_compare (nth k l []) t <> Lt).
  Proof.
    unfold bsearch. cbn [fst snd].
    destruct (bs_loop_spec (length l) 0 (length l)) as [R1 [R2 [R3 R4]]]; try lia.
    - intros k Hk. lia.
    - intros k Hk1 Hk2. lia.
    - repeat split; auto.
  Qed.

  Lemma bsearch_found : snd (bsearch l t) = true <-> In t l.
  Proof.
    destruct bsearch_position as [P1 [P2 P3]].
    unfold bsearch in *. cbn [fst snd] in *. set (i := bs_loop (length l) l t 0 (length l)) in *.
    rewrite andb_true_iff, Nat.ltb_lt, bytes_eqb_eq. split.
    - intros [Hi E]. rewrite <- E. now apply nth_In.
    - intros Hin. destruct (@In_nth uuid l t [] Hin) as [k [Hk Ek]].
      assert (Hik : (i <= k)%nat).
      { destruct (le_lt_dec i k) as [|Hlt]; [assumption|].
        specialize (P2 k Hlt). rewrite Ek, lex_compare_refl in P2. discriminate. }
      split; [lia|].
      apply ble_antisym.
      + rewrite <- Ek. apply nth_mono; lia.
      + unfold ble, cle. rewrite (lex_compare_antisym (nth i l []) t).
        specialize (P3 i ltac:(lia) ltac:(lia)).
        destruct (lex_compare (nth i l []) t); cbn; congruence.
  Qed.
End BinarySearch.

(* ================================================================== *)
(* D. curateFailedPoints                                               *)

Lemma curate_sorted_spec all success sorted is_complete :
  Permutation success sorted -> Sorted ble sorted ->
  curate_sorted all sorted is_complete = failed_spec all success is_complete.
Proof.
  intros Hp Hs. unfold curate_sorted, failed_spec. f_equal. apply filter_ext_in. intros id _. f_equal.
  destruct (mem_bytes id success) eqn:E.
  - apply mem_In in E. apply (bsearch_found sorted id Hs). now rewrite <- Hp.
  - apply mem_notIn in E. destruct (snd (bsearch sorted id)) eqn:E2; [|reflexivity].
    apply (bsearch_found sorted id Hs) in E2. exfalso. apply E. now rewrite Hp.
Qed.

Lemma curate_failed_spec all success is_complete :
  curate_failed all success is_complete = failed_spec all success is_complete.
Proof.
  unfold curate_failed. apply curate_sorted_spec.
  - apply (Proofs_C06.sort_by_perm lex_compare).
  - apply (Proofs_C06.sort_by_sorted lex_compare lex_preorder).
Qed.

Lemma failed_spec_In all success is_complete id m :
  In (id, m) (failed_spec all success is_complete) <->
  In id all /\ ~ In id success /\ m = failed_msg is_complete.
Proof.
  unfold failed_spec. rewrite in_map_iff. split.
  - intros [x [E Hx]]. inversion E; subst. apply filter_In in Hx. destruct Hx as [Hx Hm].
    apply negb_true_iff, mem_notIn in Hm. auto.
  - intros [H1 [H2 ->]]. exists id. split; [reflexivity|]. apply filter_In. split; [exact H1|].
    apply negb_true_iff, mem_notIn. exact H2.
Qed.

Lemma thm_failed_exact : forall all success is_complete,
  (* the list itself: request order, duplicates of the request kept *)
  curate_failed all success is_complete =
    map (fun id => (id, failed_msg is_complete)) (filter (fun id => negb (mem_bytes id success)) all) /\
  (* as a set *)
  (forall id m, In (id, m) (curate_failed all success is_complete) <->
                In id all /\ ~ In id success /\ m = failed_msg is_complete) /\
  (* the same for whatever sorting algorithm put the success ids in order *)
  (forall sorted, Permutation success sorted -> Sorted ble sorted ->
                  curate_sorted all sorted is_complete = curate_failed all success is_complete) /\
  (* the message *)
  (failed_msg is_complete = MSG_NOT_FOUND <-> is_complete = true) /\
  (failed_msg is_complete = MSG_UNAVAILABLE <-> is_complete = false).
Proof.
  intros all success c.
  split; [apply curate_failed_spec|].
  split; [intros id m; rewrite curate_failed_spec; apply failed_spec_In|].
  split; [intros sorted Hp Hs; rewrite curate_failed_spec; now apply curate_sorted_spec|].
  destruct c; cbn; split; split; intros; try reflexivity; try discriminate.
Qed.

(* ================================================================== *)
(* E. point stores                                                     *)

Lemma sget_remove id id' s :
  st_get id (st_remove id' s) = if bytes_eqb id id' then None else st_get id s.
Proof.
  induction s as [|[i d] r IH]; cbn.
  - now destruct (bytes_eqb id id').
  - destruct (bytes_eqb id' i) eqn:E1.
    + apply bytes_eqb_eq in E1. subst i. rewrite IH. destruct (bytes_eqb id id'); reflexivity.
    + cbn. rewrite IH. destruct (bytes_eqb id i) eqn:E2; [|reflexivity].
      apply bytes_eqb_eq in E2. subst i. rewrite beq_sym, E1. reflexivity.
Qed.

Lemma sget_set id id' d s :
  st_get id (st_set id' d s) = if bytes_eqb id id' then Some d else st_get id s.
Proof.
  unfold st_set. cbn. destruct (bytes_eqb id id') eqn:E; [reflexivity|].
  rewrite sget_remove, E. reflexivity.
Qed.

Lemma sget_app id a b :
  st_get id (a ++ b) = match st_get id a with Some d => Some d | None => st_get id b end.
Proof.
  induction a as [|[i d] a IH]; cbn; [reflexivity|]. destruct (bytes_eqb id i); [reflexivity|exact IH].
Qed.

Lemma sget_In id s : st_get id s <> None <-> In id (store_ids s).
Proof.
  induction s as [|[i d] s IH]; cbn; [tauto|].
  destruct (bytes_eqb id i) eqn:E.
  - apply bytes_eqb_eq in E. subst. split; [auto|discriminate].
  - apply beq_false in E. rewrite IH. split; [auto|]. intros [H|H]; [congruence|exact H].
Qed.

Lemma smem_In id s : st_mem id s = true <-> In id (store_ids s).
Proof. rewrite <- sget_In. unfold st_mem. destruct (st_get id s); split; congruence. Qed.

Lemma smem_false id s : st_mem id s = false <-> ~ In id (store_ids s).
Proof. rewrite <- smem_In. destruct (st_mem id s); split; congruence. Qed.

Lemma smem_get id s : st_mem id s = match st_get id s with Some _ => true | None => false end.
Proof. reflexivity. Qed.

Lemma ids_remove id s :
  store_ids (st_remove id s) = filter (fun x => negb (bytes_eqb id x)) (store_ids s).
Proof.
  unfold store_ids. induction s as [|[i d] s IH]; cbn; [reflexivity|].
  destruct (bytes_eqb id i); cbn; [exact IH|now rewrite IH].
Qed.

Lemma ids_set id d s : store_ids (st_set id d s) = id :: filter (fun x => negb (bytes_eqb id x)) (store_ids s).
Proof. rewrite <- ids_remove. reflexivity. Qed.

Lemma ids_set_perm id d s :
  In id (store_ids s) -> NoDup (store_ids s) -> Permutation (store_ids (st_set id d s)) (store_ids s).
Proof.
  intros Hin Hnd. rewrite ids_set. apply NoDup_Permutation.
  - constructor.
    + intros H. apply filter_In in H. destruct H as [_ H]. now rewrite beq_refl in H.
    + now apply NoDup_filter.
  - exact Hnd.
  - intros x. cbn. rewrite filter_In. split.
    + intros [<-|[H _]]; assumption.
    + intros H. destruct (bytes_eqb id x) eqn:E.
      * apply bytes_eqb_eq in E. now left.
      * right. split; [exact H|reflexivity].
Qed.

(* ---- delete_spec ---- *)

Lemma sget_fold_remove id known s :
  st_get id (fold_left (fun acc i => st_remove i acc) known s) =
  if mem_bytes id known then None else st_get id s.
Proof.
  revert s. induction known as [|k known IH]; intros s; cbn; [reflexivity|].
  rewrite IH, sget_remove. destruct (bytes_eqb id k); cbn.
  - now destruct (mem_bytes id known).
  - reflexivity.
Qed.

Lemma filter_all_true {A} (f : A -> bool) l : (forall x, f x = true) -> filter f l = l.
Proof. intros H. induction l as [|x l IH]; cbn; [reflexivity|]. now rewrite H, IH. Qed.

Lemma filter_filter {A} (f g : A -> bool) l : filter f (filter g l) = filter (fun x => g x && f x) l.
Proof.
  induction l as [|x l IH]; cbn; [reflexivity|].
  destruct (g x); cbn; [destruct (f x); now rewrite IH|exact IH].
Qed.

Lemma ids_fold_remove known s :
  store_ids (fold_left (fun acc i => st_remove i acc) known s) =
  filter (fun x => negb (mem_bytes x known)) (store_ids s).
Proof.
  revert s. induction known as [|k known IH]; intros s; cbn [fold_left].
  - symmetry. apply filter_all_true. reflexivity.
  - rewrite IH, ids_remove, filter_filter. apply filter_ext. intros x. cbn.
    rewrite (beq_sym x k). now destruct (bytes_eqb k x).
Qed.


Lemma dedup_In' x l : In x (dedup l) <-> In x l.
Proof.
  induction l as [|y l IH]; cbn; [tauto|].
  destruct (existsb (bytes_eqb y) l) eqn:E.
  - rewrite IH. split; [auto|]. intros [<-|H]; [|exact H]. now apply existsb_beq_In.
  - cbn. now rewrite IH.
Qed.

Lemma dedup_NoDup' l : NoDup (dedup l).
Proof.
  induction l as [|y l IH]; cbn; [constructor|].
  destruct (existsb (bytes_eqb y) l) eqn:E; [exact IH|].
  constructor; [|exact IH]. rewrite dedup_In'. intros H. apply existsb_beq_In in H. congruence.
Qed.

Lemma known_In ids s id : In id (known_of ids s) <-> In id ids /\ In id (store_ids s).
Proof. unfold known_of. now rewrite filter_In, dedup_In', smem_In. Qed.

Lemma delete_spec_out ids s : snd (delete_spec ids s) = SOk (known_of ids s).
Proof. reflexivity. Qed.

Lemma delete_spec_get ids s id :
  st_get id (fst (delete_spec ids s)) = if mem_bytes id ids then None else st_get id s.
Proof.
  unfold delete_spec. cbn [fst]. rewrite sget_fold_remove. fold (known_of ids s).
  destruct (mem_bytes id (known_of ids s)) eqn:E1, (mem_bytes id ids) eqn:E2; try reflexivity.
  - apply mem_In, known_In in E1. apply mem_notIn in E2. tauto.
  - apply mem_In in E2. apply mem_notIn in E1. rewrite known_In in E1.
    destruct (st_get id s) eqn:G; [|reflexivity]. exfalso. apply E1. split; [exact E2|].
    apply sget_In. congruence.
Qed.

Lemma delete_spec_ids ids s :
  store_ids (fst (delete_spec ids s)) = filter (fun x => negb (mem_bytes x ids)) (store_ids s).
Proof.
  unfold delete_spec. cbn [fst]. rewrite ids_fold_remove. fold (known_of ids s).
  apply filter_ext_in. intros x Hx. f_equal.
  destruct (mem_bytes x ids) eqn:E.
  - apply mem_In. apply known_In. split; [now apply mem_In|exact Hx].
  - apply mem_notIn. rewrite known_In. apply mem_notIn in E. tauto.
Qed.

(* ---- update_go ---- *)

(* what the successive increments of a batch do to the document stored under [id] *)
Fixpoint upd_doc (ps : list (uuid * doc)) (id : uuid) (o : option doc) : option doc :=
  match ps with
  | [] => o
  | (i, inc) :: r =>
      upd_doc r id (match o with
                    | Some d => if bytes_eqb id i then Some (merge_doc delete_value d inc) else Some d
                    | None => None
                    end)
  end.

Lemma upd_doc_none ps id : upd_doc ps id None = None.
Proof. induction ps as [|[i inc] r IH]; cbn; auto. Qed.

Lemma upd_doc_some ps id d : upd_doc ps id (Some d) <> None.
Proof.
  revert d. induction ps as [|[i inc] r IH]; intros d; cbn; [discriminate|].
  destruct (bytes_eqb id i); apply IH.
Qed.


Lemma update_go_cons sc mx id inc r s :
  update_go sc mx ((id, inc) :: r) s =
  match st_get id s with
  | None => update_go sc mx r s
  | Some old =>
      let merged := merge_doc delete_value old inc in
      let e := (if mx <? doc_size merged then [ERR_SIZE] else []) ++
               (if well_typed sc merged then [] else [ERR_TYPE]) in
      let '(s', ids, es) := update_go sc mx r (st_set id merged s) in
      (s', id :: ids, e ++ es)
  end.
Proof. reflexivity. Qed.

Lemma upd_store_get sc mx ps : forall s id,
  st_get id (upd_store sc mx ps s) = upd_doc ps id (st_get id s).
Proof.
  unfold upd_store. induction ps as [|[i inc] r IH]; intros s id; [reflexivity|].
  rewrite update_go_cons. cbn [upd_doc]. destruct (st_get i s) as [old|] eqn:G.
  - cbv zeta. specialize (IH (st_set i (merge_doc delete_value old inc) s) id).
    destruct (update_go sc mx r (st_set i (merge_doc delete_value old inc) s)) as [[s' ids] es].
    cbn [fst] in *. rewrite IH, sget_set. destruct (bytes_eqb id i) eqn:E.
    + apply bytes_eqb_eq in E. subst i. now rewrite G.
    + destruct (st_get id s); reflexivity.
  - rewrite IH. destruct (st_get id s) eqn:G2; [|reflexivity].
    destruct (bytes_eqb id i) eqn:E; [|reflexivity]. apply bytes_eqb_eq in E. subst i. congruence.
Qed.

Lemma smem_set_same id d s x : st_mem id s = true -> st_mem x (st_set id d s) = st_mem x s.
Proof.
  intros H. rewrite !smem_get, sget_set. destruct (bytes_eqb x id) eqn:E; [|reflexivity].
  apply bytes_eqb_eq in E. subst x. rewrite smem_get in H. now destruct (st_get id s).
Qed.

Lemma upd_ids_spec sc mx ps : forall s,
  upd_ids sc mx ps s = filter (fun id => st_mem id s) (map fst ps).
Proof.
  unfold upd_ids. induction ps as [|[i inc] r IH]; intros s; [reflexivity|].
  rewrite update_go_cons. cbn [map fst filter]. rewrite smem_get. destruct (st_get i s) as [old|] eqn:G.
  - cbv zeta. specialize (IH (st_set i (merge_doc delete_value old inc) s)).
    destruct (update_go sc mx r (st_set i (merge_doc delete_value old inc) s)) as [[s' ids] es].
    cbn [fst snd] in *. rewrite IH. f_equal. apply filter_ext. intros x. apply smem_set_same.
    rewrite smem_get, G. reflexivity.
  - apply IH.
Qed.

Lemma upd_store_ids_perm sc mx ps : forall s,
  NoDup (store_ids s) -> Permutation (store_ids (upd_store sc mx ps s)) (store_ids s).
Proof.
  unfold upd_store. induction ps as [|[i inc] r IH]; intros s Hnd; [reflexivity|].
  rewrite update_go_cons. destruct (st_get i s) as [old|] eqn:G.
  - cbv zeta. assert (Hin : In i (store_ids s)) by (apply sget_In; congruence).
    pose proof (ids_set_perm i (merge_doc delete_value old inc) s Hin Hnd) as Hp.
    specialize (IH (st_set i (merge_doc delete_value old inc) s)).
    destruct (update_go sc mx r (st_set i (merge_doc delete_value old inc) s)) as [[s' ids] es].
    cbn [fst] in *. rewrite IH; [exact Hp|]. apply (Permutation_NoDup (Permutation_sym Hp) Hnd).
  - now apply IH.
Qed.

Lemma update_spec_ok sc mx ps s s' ids :
  update_spec sc mx ps s = (s', SOk ids) -> s' = upd_store sc mx ps s /\ ids = upd_ids sc mx ps s.
Proof.
  unfold update_spec, upd_store, upd_ids. destruct (update_go sc mx ps s) as [[s1 ids1] es].
  destruct es; intros H; inversion H; subst; auto.
Qed.

Lemma update_spec_err sc mx ps s s' ks : update_spec sc mx ps s = (s', SErr ks) -> s' = s.
Proof.
  unfold update_spec. destruct (update_go sc mx ps s) as [[s1 ids1] es].
  destruct es; intros H; inversion H; subst; auto.
Qed.

(* ================================================================== *)
(* F. fan-out of delete and update                                     *)

Lemma NoDup_concat_incl {A} (ls ls' : list (list A)) :
  Forall2 (fun l l' => NoDup l' /\ incl l' l) ls ls' ->
  NoDup (concat ls) -> NoDup (concat ls').
Proof.
  induction 1 as [|l l' ls ls' [Hn Hi] HF IH]; cbn; [auto|].
  intros H. apply NoDup_app_iff in H. destruct H as [H1 [H2 H3]].
  apply NoDup_app_iff. repeat split; auto.
  intros x Hx Hx'. apply (H3 x (Hi x Hx)).
  clear - HF Hx'. induction HF as [|m m' ms ms' [_ Hi] _ IH]; cbn in *; [exact Hx'|].
  apply in_app_or in Hx'. apply in_or_app. destruct Hx' as [Hx'|Hx']; [left; now apply Hi|right; now apply IH].
Qed.

Lemma NoDup_concat_each {A} (ls : list (list A)) l : NoDup (concat ls) -> In l ls -> NoDup l.
Proof.
  induction ls as [|m ls IH]; cbn; [tauto|]. intros H [->|Hl].
  - apply NoDup_app_iff in H. tauto.
  - apply NoDup_app_iff in H. apply IH; tauto.
Qed.

Lemma NoDup_concat_index {A} (ls : list (list A)) : NoDup (concat ls) ->
  forall k1 k2 a b x, nth_error ls k1 = Some a -> nth_error ls k2 = Some b -> In x a -> In x b -> k1 = k2.
Proof.
  induction ls as [|m ls IH]; intros H k1 k2 a b x H1 H2 Ha Hb; [destruct k1; discriminate|].
  cbn in H. apply NoDup_app_iff in H. destruct H as [Hm [Hr Hd]].
  destruct k1 as [|k1], k2 as [|k2]; cbn in H1, H2.
  - reflexivity.
  - inversion H1; subst. exfalso. apply (Hd x Ha). apply in_concat. exists b. split; [|exact Hb].
    now apply nth_error_In in H2.
  - inversion H2; subst. exfalso. apply (Hd x Hb). apply in_concat. exists a. split; [|exact Ha].
    now apply nth_error_In in H1.
  - f_equal. exact (IH Hr k1 k2 a b x H1 H2 Ha Hb).
Qed.

Lemma Forall2_map_same {A B C} (R : B -> C -> Prop) (f : A -> B) (g : A -> C) (l : list A) :
  (forall x, In x l -> R (f x) (g x)) -> Forall2 R (map f l) (map g l).
Proof.
  induction l as [|x l IH]; cbn; intros H; constructor.
  - apply H. now left.
  - apply IH. intros y Hy. apply H. now right.
Qed.

Lemma concat_perm {A} (ls ls' : list (list A)) :
  Forall2 (@Permutation A) ls ls' -> Permutation (concat ls) (concat ls').
Proof. induction 1; cbn; [constructor|]. now apply Permutation_app. Qed.

Lemma all_ids_cons sh c : all_ids (sh :: c) = store_ids (sh_store sh) ++ all_ids c.
Proof. reflexivity. Qed.

Lemma flat_cons sh c : flat (sh :: c) = sh_store sh ++ flat c.
Proof. reflexivity. Qed.

Lemma flat_ids c : store_ids (flat c) = all_ids c.
Proof.
  induction c as [|sh c IH]; [reflexivity|]. rewrite flat_cons, all_ids_cons, <- IH.
  unfold store_ids. apply map_app.
Qed.

Lemma all_ids_In id c : In id (all_ids c) <-> exists sh, In sh c /\ In id (store_ids (sh_store sh)).
Proof.
  unfold all_ids. rewrite in_concat. split.
  - intros [l [Hl Hx]]. apply in_map_iff in Hl. destruct Hl as [sh [<- Hsh]]. eauto.
  - intros [sh [Hsh Hx]]. exists (store_ids (sh_store sh)). split; [|exact Hx]. apply in_map_iff. eauto.
Qed.

(* ---- delete ---- *)

Lemma shard_delete_eq ids sh :
  shard_delete ids sh =
  if sh_up sh then (mkShard (fst (delete_spec ids (sh_store sh))) true, Some (known_of ids (sh_store sh)))
  else (sh, None).
Proof. reflexivity. Qed.

Lemma known_NoDup ids s : NoDup (known_of ids s).
Proof. apply NoDup_filter, dedup_NoDup'. Qed.

Lemma delete_untouched ids s : (forall id, In id ids -> ~ In id (store_ids s)) -> fst (delete_spec ids s) = s.
Proof.
  intros H. unfold delete_spec. cbn [fst]. fold (known_of ids s).
  assert (E : known_of ids s = []).
  { destruct (known_of ids s) as [|x r] eqn:E; [reflexivity|]. exfalso.
    assert (Hx : In x (known_of ids s)) by (rewrite E; now left).
    apply known_In in Hx. destruct Hx as [H1 H2]. exact (H x H1 H2). }
  now rewrite E.
Qed.

Lemma fan_delete_resp ids c :
  snd (fan_delete ids c) = map (fun sh => if sh_up sh then Some (known_of ids (sh_store sh)) else None) c.
Proof.
  unfold fan_delete. cbn [snd]. apply map_ext. intros sh. rewrite shard_delete_eq. now destruct (sh_up sh).
Qed.

Lemma fan_delete_state ids c :
  fst (fan_delete ids c) =
  map (fun sh => if sh_up sh then mkShard (fst (delete_spec ids (sh_store sh))) true else sh) c.
Proof.
  unfold fan_delete. cbn [fst]. apply map_ext. intros sh. rewrite shard_delete_eq. now destruct (sh_up sh).
Qed.

Lemma thm_found_once_delete : forall ids c, unique_ids c ->
  let c' := fst (fan_delete ids c) in
  let rs := snd (fan_delete ids c) in
  (* every shard is asked; an available shard answers exactly the requested ids it holds *)
  (forall k sh, nth_error c k = Some sh ->
     nth_error rs k = Some (if sh_up sh then Some (known_of ids (sh_store sh)) else None) /\
     nth_error c' k = Some (if sh_up sh then mkShard (fst (delete_spec ids (sh_store sh))) true else sh)) /\
  (* a shard holding none of the requested ids is left as it was *)
  (forall k sh sh', nth_error c k = Some sh -> nth_error c' k = Some sh' ->
     (forall id, In id ids -> ~ In id (store_ids (sh_store sh))) -> sh' = sh) /\
  (* no id is reported twice, neither by one shard nor by two *)
  NoDup (successes rs) /\
  (forall k1 k2 r1 r2 id, nth_error rs k1 = Some r1 -> nth_error rs k2 = Some r2 ->
     In id (resp_ids r1) -> In id (resp_ids r2) -> k1 = k2) /\
  (* and the reported ids are the requested ones stored in an available shard *)
  (forall id, In id (successes rs) <->
     In id ids /\ exists sh, In sh c /\ sh_up sh = true /\ In id (store_ids (sh_store sh))).
Proof.
  intros ids c Hu c' rs. subst c' rs. rewrite fan_delete_resp, fan_delete_state.
  assert (Hnd : NoDup (successes (map (fun sh => if sh_up sh then Some (known_of ids (sh_store sh)) else None) c))).
  { unfold successes. rewrite map_map.
    apply (NoDup_concat_incl (map (fun sh => store_ids (sh_store sh)) c)); [|exact Hu].
    apply Forall2_map_same. intros sh _. destruct (sh_up sh); cbn.
    - split; [apply known_NoDup|]. intros x Hx. apply known_In in Hx. tauto.
    - split; [constructor|]. intros x []. }
  split; [|split; [|split; [exact Hnd|split]]].
  - intros k sh Hk. split; now rewrite nth_error_map, Hk.
  - intros k sh sh' Hk Hk' Hno. rewrite nth_error_map, Hk in Hk'. cbn [option_map] in Hk'. inversion Hk'; subst.
    destruct sh as [s up]. cbn [sh_store sh_up] in *. destruct up; [|reflexivity]. f_equal. exact (delete_untouched ids s Hno).
  - intros k1 k2 r1 r2 id H1 H2 I1 I2. unfold successes in Hnd.
    apply (NoDup_concat_index _ Hnd k1 k2 (resp_ids r1) (resp_ids r2) id); auto.
    + now rewrite nth_error_map, H1.
    + now rewrite nth_error_map, H2.
  - intros id. unfold successes. rewrite map_map, in_concat. split.
    + intros [l [Hl Hx]]. apply in_map_iff in Hl. destruct Hl as [sh [<- Hsh]].
      destruct (sh_up sh) eqn:Eu; cbn in Hx; [|destruct Hx]. apply known_In in Hx.
      split; [tauto|]. exists sh. tauto.
    + intros [Hi [sh [Hsh [Eu Hs]]]]. exists (known_of ids (sh_store sh)). split.
      * apply in_map_iff. exists sh. rewrite Eu. auto.
      * apply known_In. auto.
Qed.

Lemma all_up_In c : all_up c = true <-> forall sh, In sh c -> sh_up sh = true.
Proof. unfold all_up. now rewrite forallb_forall. Qed.

Lemma flat_delete_get ids c id : all_up c = true ->
  st_get id (flat (fst (fan_delete ids c))) = st_get id (fst (delete_spec ids (flat c))).
Proof.
  intros Hup. rewrite fan_delete_state, delete_spec_get.
  induction c as [|sh c IH]; cbn [map].
  - now destruct (mem_bytes id ids).
  - cbn in Hup. apply andb_true_iff in Hup. destruct Hup as [Hu Hup]. rewrite Hu.
    rewrite !flat_cons, !sget_app. cbn [sh_store]. rewrite delete_spec_get, (IH Hup).
    destruct (mem_bytes id ids); reflexivity.
Qed.

Lemma complete_all_some rs : complete rs = true <-> forall r, In r rs -> r <> None.
Proof.
  unfold complete. rewrite forallb_forall. split; intros H r Hr; specialize (H r Hr); destruct r; congruence.
Qed.

Lemma thm_delete_reference : forall ids c, all_up c = true ->
  let c' := fst (fan_delete ids c) in
  let rs := snd (fan_delete ids c) in
  (* the collection as ONE store: exactly the deletion of the reference spec of C01 *)
  (forall id, st_get id (flat c') = st_get id (fst (delete_spec ids (flat c)))) /\
  (forall id, In id (successes rs) <-> In id (known_of ids (flat c))) /\
  complete rs = true /\
  (* the response: the requested ids that were not stored, "not found" *)
  snd (delete_points ids c) =
    map (fun id => (id, MSG_NOT_FOUND)) (filter (fun id => negb (st_mem id (flat c))) ids).
Proof.
  intros ids c Hup c' rs. subst c' rs.
  assert (Hsucc : forall id, In id (successes (snd (fan_delete ids c))) <-> In id (known_of ids (flat c))).
  { intros id. rewrite fan_delete_resp. unfold successes. rewrite map_map, in_concat, known_In, flat_ids, all_ids_In.
    split.
    - intros [l [Hl Hx]]. apply in_map_iff in Hl. destruct Hl as [sh [<- Hsh]].
      rewrite (proj1 (all_up_In c) Hup sh Hsh) in Hx. cbn in Hx. apply known_In in Hx. split; [tauto|]. exists sh. tauto.
    - intros [Hi [sh [Hsh Hs]]]. exists (known_of ids (sh_store sh)). split.
      + apply in_map_iff. exists sh. rewrite (proj1 (all_up_In c) Hup sh Hsh). auto.
      + apply known_In. auto. }
  assert (Hc : complete (snd (fan_delete ids c)) = true).
  { apply complete_all_some. intros r Hr. rewrite fan_delete_resp in Hr. apply in_map_iff in Hr.
    destruct Hr as [sh [<- Hsh]]. rewrite (proj1 (all_up_In c) Hup sh Hsh). discriminate. }
  split; [intros id; now apply flat_delete_get|]. split; [exact Hsucc|]. split; [exact Hc|].
  unfold delete_points. cbn [snd]. rewrite Hc, curate_failed_spec. unfold failed_spec. cbn [failed_msg].
  f_equal. apply filter_ext_in. intros id Hid. f_equal.
  destruct (st_mem id (flat c)) eqn:E.
  - apply mem_In, Hsucc, known_In. split; [exact Hid|]. now apply smem_In.
  - apply mem_notIn. rewrite Hsucc, known_In. apply smem_false in E. tauto.
Qed.

Lemma thm_unique_delete : forall ids c, unique_ids c -> unique_ids (fst (fan_delete ids c)).
Proof.
  intros ids c Hu. unfold unique_ids, all_ids in *. rewrite fan_delete_state, map_map.
  apply (NoDup_concat_filtered (map (fun sh => store_ids (sh_store sh)) c)); [|exact Hu].
  apply Forall2_map_same. intros sh _. destruct (sh_up sh); cbn [sh_store].
  - eexists. apply delete_spec_ids.
  - exists (fun _ => true). symmetry. now apply filter_all_true.
Qed.

(* ---- update ---- *)

Definition upd_resp_of (sc : schema) (mx : N) (ps : list (uuid * doc)) (sh : shardst) : shard_resp :=
  if sh_up sh then
    match snd (update_spec sc mx ps (sh_store sh)) with
    | SOk _ => Some (filter (fun id => st_mem id (sh_store sh)) (map fst ps))
    | SErr _ => None
    end
  else None.
Definition upd_state_of (sc : schema) (mx : N) (ps : list (uuid * doc)) (sh : shardst) : shardst :=
  if sh_up sh then
    match snd (update_spec sc mx ps (sh_store sh)) with
    | SOk _ => mkShard (upd_store sc mx ps (sh_store sh)) true
    | SErr _ => sh
    end
  else sh.

Lemma shard_update_eq sc mx ps sh :
  shard_update sc mx ps sh = (upd_state_of sc mx ps sh, upd_resp_of sc mx ps sh).
Proof.
  unfold shard_update, upd_state_of, upd_resp_of. destruct (sh_up sh); [|reflexivity].
  destruct (update_spec sc mx ps (sh_store sh)) as [s' [ids|ks]] eqn:E; cbn [snd]; [|reflexivity].
  apply update_spec_ok in E. destruct E as [-> ->]. now rewrite upd_ids_spec.
Qed.

Lemma fan_update_resp sc mx ps c : snd (fan_update sc mx ps c) = map (upd_resp_of sc mx ps) c.
Proof. unfold fan_update. cbn [snd]. apply map_ext. intros sh. now rewrite shard_update_eq. Qed.
Lemma fan_update_state sc mx ps c : fst (fan_update sc mx ps c) = map (upd_state_of sc mx ps) c.
Proof. unfold fan_update. cbn [fst]. apply map_ext. intros sh. now rewrite shard_update_eq. Qed.

Lemma upd_resp_sub sc mx ps sh x : In x (resp_ids (upd_resp_of sc mx ps sh)) ->
  In x (map fst ps) /\ In x (store_ids (sh_store sh)) /\ sh_up sh = true.
Proof.
  unfold upd_resp_of. destruct (sh_up sh); [|intros []].
  destruct (snd (update_spec sc mx ps (sh_store sh))); [|intros []]. cbn.
  rewrite filter_In, smem_In. tauto.
Qed.

Lemma update_untouched sc mx ps s :
  (forall id, In id (map fst ps) -> ~ In id (store_ids s)) -> upd_store sc mx ps s = s.
Proof.
  unfold upd_store. revert s. induction ps as [|[i inc] r IH]; intros s H; [reflexivity|].
  rewrite update_go_cons. destruct (st_get i s) eqn:G.
  - exfalso. apply (H i); [now left|]. apply sget_In. congruence.
  - apply IH. intros id Hid. apply H. now right.
Qed.

Lemma thm_found_once_update : forall sc mx ps c, unique_ids c -> NoDup (map fst ps) ->
  let c' := fst (fan_update sc mx ps c) in
  let rs := snd (fan_update sc mx ps c) in
  (* every shard is asked; a shard that answers reports exactly the requested ids it holds and
     applies the batch to them; a shard that does not answer (down, or its transaction failed) is unchanged *)
  (forall k sh, nth_error c k = Some sh ->
     exists r sh', nth_error rs k = Some r /\ nth_error c' k = Some sh' /\
       ((r = None /\ sh' = sh) \/
        (r = Some (filter (fun id => st_mem id (sh_store sh)) (map fst ps)) /\ sh_up sh = true /\
         sh' = mkShard (upd_store sc mx ps (sh_store sh)) true))) /\
  (* a shard holding none of the requested ids is left as it was *)
  (forall k sh sh', nth_error c k = Some sh -> nth_error c' k = Some sh' ->
     (forall id, In id (map fst ps) -> ~ In id (store_ids (sh_store sh))) -> sh' = sh) /\
  (* no id is reported twice, neither by one shard nor by two *)
  NoDup (successes rs) /\
  (forall k1 k2 r1 r2 id, nth_error rs k1 = Some r1 -> nth_error rs k2 = Some r2 ->
     In id (resp_ids r1) -> In id (resp_ids r2) -> k1 = k2) /\
  (forall id, In id (successes rs) -> In id (map fst ps) /\ In id (all_ids c)).
Proof.
  intros sc mx ps c Hu Hps c' rs. subst c' rs. rewrite fan_update_resp, fan_update_state.
  assert (Hnd : NoDup (successes (map (upd_resp_of sc mx ps) c))).
  { unfold successes. rewrite map_map.
    apply (NoDup_concat_incl (map (fun sh => store_ids (sh_store sh)) c)); [|exact Hu].
    apply Forall2_map_same. intros sh _. split.
    - unfold upd_resp_of. destruct (sh_up sh); [|constructor].
      destruct (snd (update_spec sc mx ps (sh_store sh))); [|constructor]. cbn. now apply NoDup_filter.
    - intros x Hx. apply upd_resp_sub in Hx. tauto. }
  split; [|split; [|split; [exact Hnd|split]]].
  - intros k sh Hk. exists (upd_resp_of sc mx ps sh), (upd_state_of sc mx ps sh).
    split; [now rewrite nth_error_map, Hk|]. split; [now rewrite nth_error_map, Hk|].
    unfold upd_resp_of, upd_state_of. destruct (sh_up sh); [|now left].
    destruct (snd (update_spec sc mx ps (sh_store sh))); [right|left]; auto.
  - intros k sh sh' Hk Hk' Hno. rewrite nth_error_map, Hk in Hk'. cbn [option_map] in Hk'. inversion Hk'; subst.
    unfold upd_state_of. destruct sh as [s up]. cbn [sh_store sh_up] in *. destruct up; [|reflexivity].
    destruct (snd (update_spec sc mx ps s)); [|reflexivity]. f_equal. exact (update_untouched sc mx ps s Hno).
  - intros k1 k2 r1 r2 id H1 H2 I1 I2. unfold successes in Hnd.
    apply (NoDup_concat_index _ Hnd k1 k2 (resp_ids r1) (resp_ids r2) id); auto.
    + now rewrite nth_error_map, H1.
    + now rewrite nth_error_map, H2.
  - intros id. unfold successes. rewrite map_map, in_concat. intros [l [Hl Hx]].
    apply in_map_iff in Hl. destruct Hl as [sh [<- Hsh]]. apply upd_resp_sub in Hx.
    split; [tauto|]. apply all_ids_In. exists sh. tauto.
Qed.

Lemma complete_update sc mx ps c : complete (snd (fan_update sc mx ps c)) = true ->
  forall sh, In sh c -> upd_resp_of sc mx ps sh = Some (filter (fun id => st_mem id (sh_store sh)) (map fst ps)) /\
                        upd_state_of sc mx ps sh = mkShard (upd_store sc mx ps (sh_store sh)) true.
Proof.
  intros Hc sh Hsh. rewrite fan_update_resp in Hc.
  assert (H : upd_resp_of sc mx ps sh <> None).
  { apply (proj1 (complete_all_some _) Hc). apply in_map_iff. eauto. }
  unfold upd_resp_of, upd_state_of in *. destruct (sh_up sh); [|congruence].
  destruct (snd (update_spec sc mx ps (sh_store sh))); [auto|congruence].
Qed.

Lemma thm_update_reference : forall sc mx ps c,
  complete (snd (fan_update sc mx ps c)) = true ->
  let c' := fst (fan_update sc mx ps c) in
  let rs := snd (fan_update sc mx ps c) in
  (* the collection as ONE store: the sequential application of the batch of the reference spec of C01 *)
  (forall id, st_get id (flat c') = st_get id (upd_store sc mx ps (flat c))) /\
  (forall id, In id (successes rs) <-> In id (upd_ids sc mx ps (flat c))) /\
  (* the response: the requested ids that were not stored, "not found" *)
  snd (update_points sc mx ps c) =
    map (fun id => (id, MSG_NOT_FOUND)) (filter (fun id => negb (st_mem id (flat c))) (map fst ps)).
Proof.
  intros sc mx ps c Hc c' rs. subst c' rs.
  pose proof (complete_update sc mx ps c Hc) as Hall.
  assert (Hsucc : forall id, In id (successes (snd (fan_update sc mx ps c))) <-> In id (upd_ids sc mx ps (flat c))).
  { intros id. rewrite fan_update_resp, upd_ids_spec, filter_In, smem_In, flat_ids, all_ids_In.
    unfold successes. rewrite map_map, in_concat. split.
    - intros [l [Hl Hx]]. apply in_map_iff in Hl. destruct Hl as [sh [<- Hsh]].
      rewrite (proj1 (Hall sh Hsh)) in Hx. cbn in Hx. apply filter_In in Hx. rewrite smem_In in Hx.
      split; [tauto|]. exists sh. tauto.
    - intros [Hi [sh [Hsh Hs]]]. exists (resp_ids (upd_resp_of sc mx ps sh)). split.
      + apply in_map_iff. eauto.
      + rewrite (proj1 (Hall sh Hsh)). cbn. apply filter_In. rewrite smem_In. auto. }
  split; [|split; [exact Hsucc|]].
  - intros id. rewrite fan_update_state, upd_store_get.
    clear Hc Hsucc. induction c as [|sh c IH]; cbn [map].
    + cbn. now rewrite upd_doc_none.
    + rewrite (proj2 (Hall sh ltac:(now left))), !flat_cons, !sget_app. cbn [sh_store].
      rewrite upd_store_get, IH by (intros sh' Hsh'; apply Hall; now right).
      destruct (st_get id (sh_store sh)) as [d|] eqn:G.
      * destruct (upd_doc ps id (Some d)) eqn:U; [reflexivity|]. exfalso. exact (upd_doc_some _ _ _ U).
      * now rewrite upd_doc_none.
  - unfold update_points. cbn [snd]. rewrite Hc, curate_failed_spec. unfold failed_spec. cbn [failed_msg].
    f_equal. apply filter_ext_in. intros id Hid. f_equal.
    destruct (st_mem id (flat c)) eqn:E.
    + apply mem_In, Hsucc. rewrite upd_ids_spec. apply filter_In. auto.
    + apply mem_notIn. rewrite Hsucc, upd_ids_spec, filter_In. intros [_ H]. congruence.
Qed.

Lemma thm_unique_update : forall sc mx ps c, unique_ids c -> unique_ids (fst (fan_update sc mx ps c)).
Proof.
  intros sc mx ps c Hu. unfold unique_ids, all_ids in *. rewrite fan_update_state, map_map.
  eapply Permutation_NoDup; [|exact Hu]. apply Permutation_sym, concat_perm.
  apply Forall2_map_same. intros sh Hsh.
  assert (Hn : NoDup (store_ids (sh_store sh))).
  { apply (NoDup_concat_each _ _ Hu). apply in_map_iff. eauto. }
  unfold upd_state_of. destruct (sh_up sh); [|reflexivity].
  destruct (snd (update_spec sc mx ps (sh_store sh))); [|reflexivity]. cbn [sh_store].
  now apply upd_store_ids_perm.
Qed.

(* ---- insert: the invariant "ids unique per collection" is preserved ---- *)

Lemma ids_set_NoDup id d s : NoDup (store_ids s) -> NoDup (store_ids (st_set id d s)).
Proof.
  intros H. rewrite ids_set. constructor.
  - intros Hi. apply filter_In in Hi. destruct Hi as [_ Hi]. now rewrite beq_refl in Hi.
  - now apply NoDup_filter.
Qed.

Lemma ids_set_incl id d s x : In x (store_ids (st_set id d s)) -> x = id \/ In x (store_ids s).
Proof. rewrite ids_set. intros [<-|H]; [now left|]. apply filter_In in H. tauto. Qed.

Lemma fold_set_ids ps : forall s, NoDup (store_ids s) ->
  NoDup (store_ids (fold_left (fun acc p => st_set (fst p) (snd p) acc) ps s)) /\
  incl (store_ids (fold_left (fun acc p => st_set (fst p) (snd p) acc) ps s)) (map fst ps ++ store_ids s).
Proof.
  induction ps as [|[i d] ps IH]; intros s Hn; cbn [fold_left map fst snd].
  - split; [exact Hn|]. intros x Hx. exact Hx.
  - destruct (IH (st_set i d s) (ids_set_NoDup i d s Hn)) as [H1 H2]. split; [exact H1|].
    intros x Hx. apply H2 in Hx. apply in_app_or in Hx. cbn. destruct Hx as [Hx|Hx].
    + right. apply in_or_app. now left.
    + apply ids_set_incl in Hx. destruct Hx as [->|Hx]; [now left|right; apply in_or_app; now right].
Qed.

Lemma shard_insert_ids sc p sh : NoDup (store_ids (sh_store sh)) ->
  NoDup (store_ids (sh_store (shard_insert sc p sh))) /\
  incl (store_ids (sh_store (shard_insert sc p sh))) (map fst p ++ store_ids (sh_store sh)).
Proof.
  intros Hn. unfold shard_insert.
  assert (Hsame : NoDup (store_ids (sh_store sh)) /\ incl (store_ids (sh_store sh)) (map fst p ++ store_ids (sh_store sh))).
  { split; [exact Hn|]. intros x Hx. apply in_or_app. now right. }
  destruct (sh_up sh); [|exact Hsame].
  unfold insert_spec. destruct (has_dup (map fst p)); [exact Hsame|].
  destruct ((if existsb (fun p0 => st_mem (fst p0) (sh_store sh)) p then [ERR_EXISTS] else []) ++
            (if forallb (fun p0 => well_typed sc (snd p0)) p then [] else [ERR_TYPE])); [|exact Hsame].
  cbn [sh_store]. now apply fold_set_ids.
Qed.

Fixpoint zip_ids (parts : list (list (uuid * doc))) (c : collection) : list (list uuid) :=
  match parts, c with
  | [], _ => map (fun sh => store_ids (sh_store sh)) c
  | p :: parts', sh :: c' => (map fst p ++ store_ids (sh_store sh)) :: zip_ids parts' c'
  | p :: parts', [] => (map fst p ++ []) :: zip_ids parts' []
  end.

Lemma zip_ids_perm parts : forall c,
  Permutation (concat (zip_ids parts c)) (map fst (concat parts) ++ all_ids c).
Proof.
  induction parts as [|p parts IH]; intros c.
  - reflexivity.
  - destruct c as [|sh c]; cbn [zip_ids concat].
    + rewrite map_app. specialize (IH []). cbn in IH. rewrite app_nil_r in *.
      cbn. rewrite app_nil_r. now apply Permutation_app_head.
    + rewrite map_app, all_ids_cons. specialize (IH c).
      rewrite <- !app_assoc. apply Permutation_app_head.
      rewrite IH. rewrite !app_assoc. apply Permutation_app_tail. apply Permutation_app_comm.
Qed.

Lemma fan_insert_ids sc parts : forall c,
  (forall sh, In sh c -> NoDup (store_ids (sh_store sh))) ->
  Forall2 (fun l l' => NoDup l' /\ incl l' l) (zip_ids parts c)
          (map (fun sh => store_ids (sh_store sh)) (fan_insert sc parts c)).
Proof.
  induction parts as [|p parts IH]; intros c Hc.
  - cbn. induction c as [|sh c IHc]; cbn; constructor.
    + split; [apply Hc; now left|intros x Hx; exact Hx].
    + apply IHc. intros sh' Hsh'. apply Hc. now right.
  - destruct c as [|sh c]; cbn [zip_ids fan_insert map]; constructor.
    + apply (shard_insert_ids sc p (mkShard [] true)). constructor.
    + apply IH. intros sh [].
    + apply shard_insert_ids. apply Hc. now left.
    + apply IH. intros sh' Hsh'. apply Hc. now right.
Qed.

Lemma thm_unique_insert : forall sc parts c,
  unique_ids c ->
  NoDup (map fst (concat parts)) ->
  (forall id, In id (map fst (concat parts)) -> ~ In id (all_ids c)) ->
  unique_ids (fan_insert sc parts c).
Proof.
  intros sc parts c Hu Hp Hfresh. unfold unique_ids, all_ids.
  apply (NoDup_concat_incl (zip_ids parts c)).
  - apply fan_insert_ids. intros sh Hsh. apply (NoDup_concat_each _ _ Hu). apply in_map_iff. eauto.
  - eapply Permutation_NoDup; [apply Permutation_sym, zip_ids_perm|].
    apply NoDup_app_iff. auto.
Qed.

(* ================================================================== *)
(* G. merge of the per-shard answers                                   *)

Lemma hyb_preorder : cmp_preorder hyb_cmp.
Proof.
  unfold hyb_cmp. constructor.
  - intros x. apply Z.compare_refl.
  - intros x y. apply Z.compare_antisym.
  - intros x y z. rewrite !Z.compare_gt_iff. lia.
Qed.

Lemma row_cmp_preorder keys : cmp_preorder (row_cmp keys).
Proof.
  destruct keys as [|k keys]; [exact hyb_preorder|].
  apply (Proofs_C06.cmp_preorder_pull row_doc (sort_cmp (k :: keys))). apply Proofs_C06.sort_cmp_preorder.
Qed.

Lemma Sorted_firstn {A} (R : A -> A -> Prop) n l : Sorted R l -> Sorted R (firstn n l).
Proof.
  revert n. induction l as [|x l IH]; intros n H; [now rewrite firstn_nil|].
  destruct n as [|n]; cbn; [constructor|]. inversion H as [|? ? Hs Hh]; subst. constructor; [now apply IH|].
  destruct l as [|y l]; [rewrite firstn_nil; constructor|]. destruct n; cbn; constructor. now inversion Hh.
Qed.

Lemma StronglySorted_app_cross {A} (R : A -> A -> Prop) a b :
  StronglySorted R (a ++ b) -> forall x y, In x a -> In y b -> R x y.
Proof.
  induction a as [|z a IH]; cbn; intros H x y Hx Hy; [destruct Hx|].
  inversion H as [|? ? Hs Hf]; subst. destruct Hx as [<-|Hx].
  - rewrite Forall_forall in Hf. apply Hf. apply in_or_app. now right.
  - now apply IH.
Qed.

Lemma concat_ids_NoDup (answers : list (list row)) :
  Forall (fun a => NoDup (map r_id a)) answers -> ForallOrdPairs ids_disjoint answers ->
  NoDup (map r_id (concat answers)).
Proof.
  intros Hn Hd. induction Hd as [|a rest Ha Hrest IH]; [constructor|].
  inversion Hn as [|? ? Hna Hnr]; subst. cbn. rewrite map_app. apply NoDup_app_iff. repeat split; auto.
  intros id Hid Hid'. rewrite concat_map in Hid'. apply in_concat in Hid'.
  destruct Hid' as [m [Hm Him]]. apply in_map_iff in Hm. destruct Hm as [b [<- Hb]].
  rewrite Forall_forall in Ha. exact (Ha b Hb id Hid Him).
Qed.

Lemma thm_merge : forall keys limit answers res, merged keys limit answers res ->
  (* at most limit rows *)
  (length res <= N.to_nat limit)%nat /\
  (* every row comes from some shard's answer *)
  (forall r, In r res -> exists a, In a answers /\ In r a) /\
  (* no duplicates when the per-shard answers are duplicate-free and pairwise disjoint *)
  (Forall (fun a => NoDup (map r_id a)) answers -> ForallOrdPairs ids_disjoint answers ->
   NoDup (map r_id res)) /\
  (* with more than one shard: globally ordered, and nothing left out precedes a returned row *)
  ((1 < length answers)%nat ->
   Sorted (cle (row_cmp keys)) res /\
   exists rest, Permutation (concat answers) (res ++ rest) /\
                forall x y, In x res -> In y rest -> cle (row_cmp keys) x y) /\
  (* one shard: its answer is passed through *)
  ((length answers <= 1)%nat -> res = cut limit (concat answers)).
Proof.
  intros keys limit answers res [l [Hl ->]]. unfold cut.
  assert (Hperm : Permutation (concat answers) l).
  { destruct (1 <? length answers)%nat; [exact (proj1 Hl)|now subst]. }
  split; [apply firstn_le_length|].
  split.
  { intros r Hr. apply in_concat. rewrite Hperm. rewrite <- (firstn_skipn (N.to_nat limit) l).
    apply in_or_app. now left. }
  split.
  { intros Hn Hd. pose proof (concat_ids_NoDup answers Hn Hd) as H.
    rewrite <- firstn_map. apply NoDup_firstn.
    eapply Permutation_NoDup; [apply Permutation_map; exact Hperm|exact H]. }
  split.
  - intros Hlt. apply Nat.ltb_lt in Hlt. rewrite Hlt in Hl. destruct Hl as [_ Hs].
    split; [now apply Sorted_firstn|].
    exists (skipn (N.to_nat limit) l). rewrite firstn_skipn. split; [exact Hperm|].
    apply StronglySorted_app_cross. rewrite firstn_skipn.
    apply (Proofs_C06.sorted_strong (row_cmp keys) (row_cmp_preorder keys)). exact Hs.
  - intros Hle. assert (E : (1 <? length answers)%nat = false) by (apply Nat.ltb_ge; lia).
    rewrite E in Hl. now subst.
Qed.

Lemma thm_merge_search_merged : forall keys limit answers,
  merged keys limit answers (merge_search keys limit answers).
Proof.
  intros keys limit answers. unfold merged, merge_search.
  exists (if (1 <? length answers)%nat then sort_by (row_cmp keys) (concat answers) else concat answers).
  split; [|reflexivity]. destruct (1 <? length answers)%nat; [|reflexivity]. split.
  - apply Proofs_C06.sort_by_perm.
  - apply Proofs_C06.sort_by_sorted. apply row_cmp_preorder.
Qed.

(* ================================================================== *)
(* H. the per-shard limit                                              *)

Lemma pow2_pos (k : N) : 0 < 2 ^ k.
Proof. pose proof (N.pow_nonzero 2 k ltac:(discriminate)). lia. Qed.

Lemma r32_den_pos x : 0 < snd (r32 x).
Proof.
  unfold r32. destruct (fst x =? 0); [cbn; lia|].
  destruct (0 <=? f32_exp_of (fst x) (snd x))%Z; cbn [snd]; [lia|apply pow2_pos].
Qed.

Lemma round_even_ge num den : num / den <= round_even num den.
Proof.
  unfold round_even. destruct (2 * (num mod den) <? den); [lia|].
  destruct (den <? 2 * (num mod den)); [lia|]. destruct (N.even (num / den)); lia.
Qed.

(* when the grid exponent is not negative, n/d is at least 2^23 grid steps *)
Lemma exp_lower n d : 0 < n -> 0 < d -> (0 <= f32_exp_of n d)%Z ->
  d * 2 ^ (Z.to_N (f32_exp_of n d) + 23) <= n.
Proof.
  intros Hn Hd. unfold f32_exp_of.
  destruct (N.log2_spec n Hn) as [Ln1 Ln2]. destruct (N.log2_spec d Hd) as [Ld1 Ld2].
  set (a := N.log2 n) in *. set (b := N.log2 d) in *.
  destruct (ge_pow2 n d (Z.of_N a - Z.of_N b)) eqn:G; intros He.
  - unfold ge_pow2 in G. destruct (0 <=? Z.of_N a - Z.of_N b)%Z eqn:E0; [|lia].
    apply N.leb_le in G.
    replace (Z.to_N (Z.of_N a - Z.of_N b - 23) + 23) with (Z.to_N (Z.of_N a - Z.of_N b)) by lia.
    exact G.
  - assert (Hab : b + 24 <= a) by lia.
    replace (Z.to_N (Z.of_N a - Z.of_N b - 1 - 23) + 23) with (a - b - 1) by lia.
    assert (E : 2 ^ a = 2 ^ N.succ b * 2 ^ (a - b - 1)).
    { rewrite <- N.pow_add_r. f_equal. lia. }
    pose proof (pow2_pos (a - b - 1)) as Hp.
    assert (d * 2 ^ (a - b - 1) < 2 ^ N.succ b * 2 ^ (a - b - 1)) by (apply N.mul_lt_mono_pos_r; assumption).
    lia.
Qed.

(* rounding to float32 never crosses 10 downwards *)
Lemma r32_ge_10 n d : 0 < d -> 10 * d <= n -> 10 * snd (r32 (n, d)) <= fst (r32 (n, d)).
Proof.
  intros Hd H. assert (Hn : 0 < n) by lia. unfold r32. cbn [fst snd].
  destruct (n =? 0) eqn:E0; [lia|].
  destruct (0 <=? f32_exp_of n d)%Z eqn:Ee; cbn [fst snd].
  - apply Z.leb_le in Ee. pose proof (exp_lower n d Hn Hd Ee) as HL.
    set (E := Z.to_N (f32_exp_of n d)) in *.
    pose proof (pow2_pos E) as HE.
    rewrite N.pow_add_r, N.mul_assoc in HL.
    assert (Hq : 2 ^ 23 <= n / (d * 2 ^ E)).
    { apply N.div_le_lower_bound; [lia|exact HL]. }
    pose proof (round_even_ge n (d * 2 ^ E)) as Hr.
    change (2 ^ 23) with 8388608 in Hq.
    transitivity (round_even n (d * 2 ^ E) * 1); [lia|]. apply N.mul_le_mono_l. lia.
  - set (E := Z.to_N (- f32_exp_of n d)) in *. pose proof (pow2_pos E) as HE.
    pose proof (round_even_ge (n * 2 ^ E) d) as Hr.
    assert (Hq : 10 * 2 ^ E <= n * 2 ^ E / d).
    { apply N.div_le_lower_bound; [lia|]. rewrite N.mul_assoc. apply N.mul_le_mono_r. lia. }
    lia.
Qed.

Lemma poisson_b_val : poisson_b = (10485760, 1048576).
Proof. vm_compute. reflexivity. Qed.

Lemma poisson_target_ge_10 limit n : 10 <= poisson_target limit n.
Proof.
  unfold poisson_target.
  set (p2 := r32 (fr_mul (r32 (fr_mul (r32 (limit, 1)) (r32 (fr_inv (r32 (n, 1)))))) poisson_a)).
  pose proof (r32_den_pos (fr_mul (r32 (fr_mul (r32 (limit, 1)) (r32 (fr_inv (r32 (n, 1)))))) poisson_a)) as Hp.
  fold p2 in Hp. rewrite poisson_b_val. destruct p2 as [a b]. cbn [snd] in Hp.
  unfold fr_add. cbn [fst snd].
  pose proof (r32_ge_10 (a * 1048576 + 10485760 * b) (b * 1048576) ltac:(lia) ltac:(lia)) as H.
  pose proof (r32_den_pos (a * 1048576 + 10485760 * b, b * 1048576)) as Hd.
  unfold fr_floor. apply N.div_le_lower_bound; [lia|]. lia.
Qed.

Lemma thm_limit_bounds : forall limit nshards maxlimit,
  per_shard_limit limit nshards maxlimit <= limit /\
  per_shard_limit limit nshards maxlimit <= maxlimit /\
  N.min (N.min 10 maxlimit) limit <= per_shard_limit limit nshards maxlimit /\
  (1 <= limit -> 1 <= maxlimit -> 1 <= per_shard_limit limit nshards maxlimit).
Proof.
  intros limit n mx. unfold per_shard_limit. pose proof (poisson_target_ge_10 limit n). lia.
Qed.

Definition N_upto (k : nat) : list N := map N.of_nat (seq 0 k).

Lemma N_upto_In x k : x < N.of_nat k -> In x (N_upto k).
Proof.
  intros H. unfold N_upto. apply in_map_iff. exists (N.to_nat x). split; [lia|]. apply in_seq. lia.
Qed.

(* in the range of the API (limit <= 100) and up to 64 shards the four rounded float32 operations
   give exactly floor(1.42 * limit / nshards) + 10 *)
Lemma poisson_table :
  forallb (fun n => forallb (fun l => poisson_target l n =? (142 * l) / (100 * n) + 10) (N_upto 101))
          (tl (N_upto 65)) = true.
Proof. vm_compute. reflexivity. Qed.

Lemma thm_limit_formula_api_range : forall limit nshards, limit <= 100 -> 1 <= nshards <= 64 ->
  poisson_target limit nshards = (142 * limit) / (100 * nshards) + 10.
Proof.
  intros limit n Hl Hn. pose proof poisson_table as T. rewrite forallb_forall in T.
  assert (Hin : In n (tl (N_upto 65))).
  { pose proof (N_upto_In n 65 ltac:(lia)) as H. unfold N_upto in *. cbn [seq map tl] in *.
    destruct H as [H|H]; [lia|exact H]. }
  specialize (T n Hin). rewrite forallb_forall in T. specialize (T limit (N_upto_In limit 101 ltac:(lia))).
  now apply N.eqb_eq in T.
Qed.

Lemma thm_limit_single_shard : forall limit maxlimit, limit <= 100 ->
  per_shard_limit limit 1 maxlimit = N.min limit maxlimit.
Proof.
  intros limit mx Hl. unfold per_shard_limit. rewrite (thm_limit_formula_api_range limit 1) by lia.
  assert (limit <= 142 * limit / (100 * 1) + 10).
  { transitivity (142 * limit / 100); [|lia]. apply N.div_le_lower_bound; lia. }
  lia.
Qed.

(* ================================================================== *)
(* I. offsets                                                          *)

Lemma thm_offset_cases : forall o n,
  (n <= 1 -> per_shard_offset o n = o) /\
  (1 < n -> o mod n = 0 -> per_shard_offset o n = o / n /\ n * per_shard_offset o n = o) /\
  (1 < n -> o mod n <> 0 -> per_shard_offset o n = o).
Proof.
  intros o n. unfold per_shard_offset. repeat split.
  - intros H. destruct (1 <? n) eqn:E; [lia|reflexivity].
  - destruct (1 <? n) eqn:E; [|lia]. rewrite H0. reflexivity.
  - destruct (1 <? n) eqn:E; [|lia]. rewrite H0. cbn.
    pose proof (N.div_mod o n ltac:(lia)). lia.
  - intros H1 H2. destruct (1 <? n) eqn:E; [|lia]. destruct (o mod n =? 0) eqn:E2; [lia|reflexivity].
Qed.

(* what a shard does with its (rewritten) request: skip the first o' rows of its own answer, keep at most l' *)
Lemma page_split {A} (o l : N) (xs : list A) : l <> 0 ->
  page o l xs = firstn (N.to_nat l) (skipn (N.to_nat o) xs).
Proof. intros H. unfold page. destruct (l =? 0) eqn:E; [lia|reflexivity]. Qed.

Lemma skipped_total {A} (o : nat) (full : list (list A)) :
  Forall (fun a => (o <= length a)%nat) full ->
  length (concat (map (firstn o) full)) = (length full * o)%nat.
Proof.
  induction 1 as [|a full Ha _ IH]; [reflexivity|]. cbn. rewrite app_length, IH, firstn_length. lia.
Qed.

Lemma skipped_bound {A} (o : nat) (full : list (list A)) :
  (length (concat (map (firstn o) full)) <= length full * o)%nat.
Proof.
  induction full as [|a full IH]; [reflexivity|]. cbn. rewrite app_length.
  pose proof (firstn_le_length o a). lia.
Qed.

Lemma thm_offset_semantics : forall keys limit offset maxlimit full,
  let n := N.of_nat (length full) in
  let o' := per_shard_offset offset n in
  let l' := per_shard_limit limit n maxlimit in
  (* the result: every shard pages its OWN answer with (o', l'); the pages are merged and cut *)
  cluster_search keys limit offset maxlimit full = merge_search keys limit (map (page o' l') full) /\
  (1 <= limit -> 1 <= maxlimit ->
   map (page o' l') full = map (fun a => firstn (N.to_nat l') (skipn (N.to_nat o') a)) full) /\
  (* one shard: the global slice [offset, offset + l') of that shard's answer *)
  (forall a, full = [a] -> 1 <= limit -> 1 <= maxlimit ->
     cluster_search keys limit offset maxlimit full = firstn (N.to_nat l') (skipn (N.to_nat offset) a)) /\
  (* several shards, offset a multiple of their number: each skips offset/n, at most offset rows in total,
     exactly offset when every shard has that many *)
  (1 < n -> offset mod n = 0 ->
     o' = offset / n /\
     (length (concat (map (firstn (N.to_nat o')) full)) <= N.to_nat offset)%nat /\
     (Forall (fun a => (N.to_nat o' <= length a)%nat) full ->
      length (concat (map (firstn (N.to_nat o')) full)) = N.to_nat offset)).
Proof.
  intros keys limit offset mx full n o' l'. split; [reflexivity|].
  assert (Hl' : 1 <= limit -> 1 <= mx -> l' <> 0).
  { intros H1 H2. pose proof (thm_limit_bounds limit n mx) as [_ [_ [_ H]]]. specialize (H H1 H2). subst l'. lia. }
  split; [|split].
  - intros H1 H2. apply map_ext. intros a. apply page_split. auto.
  - intros a -> H1 H2. specialize (Hl' H1 H2). subst n o' l'. cbn [length] in *.
    change (N.of_nat 1) with 1 in *.
    unfold cluster_search, shard_pages, merge_search. cbn [length map concat Nat.ltb Nat.leb].
    change (N.of_nat 1) with 1. rewrite app_nil_r.
    rewrite (proj1 (thm_offset_cases offset 1)) by lia.
    rewrite page_split by exact Hl'. unfold cut.
    rewrite firstn_firstn. f_equal.
    pose proof (thm_limit_bounds limit 1 mx) as [H _]. lia.
  - intros Hn Hm. destruct (proj1 (proj2 (thm_offset_cases offset n)) Hn Hm) as [E1 E2]. fold o' in E1, E2.
    split; [exact E1|]. split.
    + pose proof (skipped_bound (N.to_nat o') full) as H. subst n. nia.
    + intros HF. rewrite (skipped_total _ _ HF). subst n. nia.
Qed.

Lemma thm_offset_not_multiple : forall limit offset maxlimit (full : list (list row)),
  let n := N.of_nat (length full) in
  1 < n -> offset mod n <> 0 ->
  (* the offset is passed unchanged to every shard ... *)
  per_shard_offset offset n = offset /\
  shard_pages limit offset maxlimit full = map (page offset (per_shard_limit limit n maxlimit)) full /\
  (* ... so up to n * offset rows are skipped in total, exactly that many when every shard has offset rows *)
  (length (concat (map (firstn (N.to_nat offset)) full)) <= length full * N.to_nat offset)%nat /\
  (Forall (fun a => (N.to_nat offset <= length a)%nat) full ->
   length (concat (map (firstn (N.to_nat offset)) full)) = (length full * N.to_nat offset)%nat).
Proof.
  intros limit offset mx full n Hn Hm.
  pose proof (proj2 (proj2 (thm_offset_cases offset n)) Hn Hm) as E.
  split; [exact E|]. split; [unfold shard_pages; fold n; now rewrite E|].
  split; [apply skipped_bound|apply skipped_total].
Qed.

(* the exact regime: no offset and no shard has more rows than the per-shard limit *)
Lemma thm_exact_regime : forall keys limit maxlimit full,
  let n := N.of_nat (length full) in
  1 <= limit -> 1 <= maxlimit ->
  Forall (fun a => (length a <= N.to_nat (per_shard_limit limit n maxlimit))%nat) full ->
  shard_pages limit 0 maxlimit full = full /\
  merged keys limit full (cluster_search keys limit 0 maxlimit full) /\
  ((length (concat full) <= N.to_nat limit)%nat ->
   Permutation (concat full) (cluster_search keys limit 0 maxlimit full)).
Proof.
  intros keys limit mx full n H1 H2 HF.
  assert (Hp : shard_pages limit 0 mx full = full).
  { unfold shard_pages. fold n.
    assert (Eo : per_shard_offset 0 n = 0).
    { unfold per_shard_offset. destruct ((1 <? n) && (0 mod n =? 0)); [|reflexivity].
      destruct n; reflexivity. }
    rewrite Eo. rewrite <- (map_id full) at 2. apply map_ext_in. intros a Ha.
    rewrite Forall_forall in HF. specialize (HF a Ha).
    pose proof (thm_limit_bounds limit n mx) as [_ [_ [_ Hl]]]. specialize (Hl H1 H2).
    rewrite page_split by lia. cbn [N.to_nat skipn]. now apply firstn_all2. }
  split; [exact Hp|]. unfold cluster_search. rewrite Hp.
  split; [apply thm_merge_search_merged|].
  intros Hlen. unfold merge_search, cut.
  destruct (1 <? length full)%nat.
  - rewrite firstn_all2.
    + apply Proofs_C06.sort_by_perm.
    + now rewrite <- (Permutation_length (Proofs_C06.sort_by_perm (row_cmp keys) (concat full))).
  - now rewrite firstn_all2.
Qed.

(* what the heuristic does NOT guarantee: fewer than limit rows although more exist *)
Definition plain_row (k : N) : row := mkRow [k] None None None 0.
Lemma thm_poisson_can_return_fewer :
  exists (limit maxlimit : N) (full : list (list row)),
    (N.to_nat limit <= length (concat full))%nat /\
    NoDup (map r_id (concat full)) /\
    (length (cluster_search [] limit 0 maxlimit full) < N.to_nat limit)%nat.
Proof.
  exists 40, 75, [map plain_row (N_upto 40); []]. split; [|split].
  - vm_compute. lia.
  - apply (proj1 (Proofs_C06.nodup_ids_NoDup _)). vm_compute. reflexivity.
  - vm_compute. lia.
Qed.

(* ---- statements in the form Props_C17.v quotes them ---- *)
Lemma thm_binary_search : forall (l : list uuid) (t : uuid),
  Sorted (cle lex_compare) l ->
  (snd (bsearch l t) = true <-> In t l) /\
  (fst (bsearch l t) <= length l)%nat /\
  (forall k, (k < fst (bsearch l t))%nat -> lex_compare (nth k l []) t = Lt) /\
  (forall k, (fst (bsearch l t) <= k)%nat -> (k < length l)%nat -> lex_compare (nth k l []) t <> Lt).
Proof. intros l t Hs. split; [exact (bsearch_found l t Hs)|exact (bsearch_position l t Hs)]. Qed.

Lemma thm_merge_search_correct : forall keys limit (answers : list (list row)),
  merged keys limit answers (merge_search keys limit answers) /\ cmp_preorder (row_cmp keys).
Proof. intros keys limit answers. exact (conj (thm_merge_search_merged keys limit answers) (row_cmp_preorder keys)). Qed.

Lemma thm_unique_preserved :
  (forall sc parts c, unique_ids c -> NoDup (map fst (concat parts)) ->
     (forall id, In id (map fst (concat parts)) -> ~ In id (all_ids c)) ->
     unique_ids (fan_insert sc parts c)) /\
  (forall sc mx ps c, unique_ids c -> unique_ids (fst (fan_update sc mx ps c))) /\
  (forall ids c, unique_ids c -> unique_ids (fst (fan_delete ids c))).
Proof. exact (conj thm_unique_insert (conj thm_unique_update thm_unique_delete)). Qed.

(* ================================================================== *)
(* J. insert against the collection-level reference                    *)

Lemma sget_fold_set ps : forall s id, NoDup (map fst ps) ->
  st_get id (fold_left (fun acc p => st_set (fst p) (snd p) acc) ps s) =
  match st_get id ps with Some d => Some d | None => st_get id s end.
Proof.
  induction ps as [|[i d] ps IH]; intros s id Hn; [reflexivity|].
  inversion Hn as [|? ? Hni Hnd]; subst. cbn [fold_left fst snd]. rewrite (IH _ _ Hnd), sget_set.
  cbn [st_get]. destruct (bytes_eqb id i) eqn:E.
  - apply bytes_eqb_eq in E. subst i. destruct (st_get id ps) eqn:G; [|reflexivity].
    exfalso. apply Hni. change (map fst ps) with (store_ids ps). apply sget_In. congruence.
  - reflexivity.
Qed.

Lemma has_dup_NoDup l : has_dup l = false <-> NoDup l.
Proof.
  induction l as [|x l IH]; cbn; [split; [constructor|reflexivity]|].
  rewrite orb_false_iff, IH. split.
  - intros [H1 H2]. constructor; [|exact H2]. intros Hi. apply existsb_beq_In in Hi. congruence.
  - intros H. inversion H as [|? ? Hn Hd]; subst. split; [|exact Hd].
    destruct (existsb (bytes_eqb x) l) eqn:E; [|reflexivity]. apply existsb_beq_In in E. contradiction.
Qed.

Lemma insert_spec_accepts sc ps s :
  NoDup (map fst ps) -> (forall id, In id (map fst ps) -> ~ In id (store_ids s)) ->
  forallb (fun p => well_typed sc (snd p)) ps = true ->
  insert_spec sc ps s = (fold_left (fun acc p => st_set (fst p) (snd p) acc) ps s, SOk []).
Proof.
  intros Hn Hf Ht. unfold insert_spec. rewrite (proj2 (has_dup_NoDup _) Hn), Ht.
  assert (E : existsb (fun p => st_mem (fst p) s) ps = false).
  { destruct (existsb (fun p => st_mem (fst p) s) ps) eqn:E; [|reflexivity]. exfalso.
    apply existsb_exists in E. destruct E as [p [Hp Hm]]. apply smem_In in Hm.
    apply (Hf (fst p)); [now apply in_map|exact Hm]. }
  rewrite E. reflexivity.
Qed.

Lemma shard_insert_get sc p sh id :
  sh_up sh = true -> NoDup (map fst p) -> (forall x, In x (map fst p) -> ~ In x (store_ids (sh_store sh))) ->
  forallb (fun q => well_typed sc (snd q)) p = true ->
  st_get id (sh_store (shard_insert sc p sh)) =
  match st_get id p with Some d => Some d | None => st_get id (sh_store sh) end.
Proof.
  intros Hu Hn Hf Ht. unfold shard_insert. rewrite Hu, (insert_spec_accepts sc p _ Hn Hf Ht). cbn [sh_store].
  now apply sget_fold_set.
Qed.

Lemma map_fst_concat (parts : list (list (uuid * doc))) :
  map fst (concat parts) = concat (map (map fst) parts).
Proof. apply concat_map. Qed.

Lemma thm_insert_reference : forall sc parts c,
  all_up c = true ->
  NoDup (map fst (concat parts)) ->
  (forall id, In id (map fst (concat parts)) -> ~ In id (all_ids c)) ->
  Forall (fun p => forallb (fun q => well_typed sc (snd q)) p = true) parts ->
  (* every new point is found, with its document; every other lookup is as before *)
  (forall id, st_get id (flat (fan_insert sc parts c)) =
              match st_get id (concat parts) with Some d => Some d | None => st_get id (flat c) end) /\
  (* and this is the insert of C01 on the collection as one store *)
  insert_spec sc (concat parts) (flat c) =
    (fold_left (fun acc p => st_set (fst p) (snd p) acc) (concat parts) (flat c), SOk []) /\
  (forall id, st_get id (flat (fan_insert sc parts c)) =
              st_get id (fst (insert_spec sc (concat parts) (flat c)))).
Proof.
  intros sc parts c Hup Hn Hf Ht.
  assert (Hget : forall id, st_get id (flat (fan_insert sc parts c)) =
              match st_get id (concat parts) with Some d => Some d | None => st_get id (flat c) end).
  { revert c Hup Hn Hf Ht. induction parts as [|p parts IH]; intros c Hup Hn Hf Ht id; [reflexivity|].
    inversion Ht as [|? ? Htp Htr]; subst.
    cbn [concat] in Hn, Hf. rewrite map_app in Hn, Hf. apply NoDup_app_iff in Hn. destruct Hn as [Hnp [Hnr Hd]].
    assert (Hcross : st_get id p <> None -> st_get id (concat parts) = None).
    { intros H. destruct (st_get id (concat parts)) eqn:G; [|reflexivity]. exfalso.
      apply (Hd id); [apply (sget_In id p); exact H|]. apply (sget_In id (concat parts)). congruence. }
    destruct c as [|sh c]; cbn [fan_insert concat].
    - rewrite flat_cons, !sget_app.
      rewrite (shard_insert_get sc p (mkShard [] true) id eq_refl Hnp (fun _ _ H => H) Htp). cbn [sh_store st_get].
      rewrite (IH [] eq_refl Hnr (fun _ _ H => H) Htr id). cbn [flat map concat st_get].
      destruct (st_get id p); reflexivity.
    - cbn in Hup. apply andb_true_iff in Hup. destruct Hup as [Hu Hup].
      assert (Hfp : forall x, In x (map fst p) -> ~ In x (store_ids (sh_store sh))).
      { intros x Hx Hx'. apply (Hf x); [apply in_or_app; now left|]. rewrite all_ids_cons. apply in_or_app. now left. }
      assert (Hfr : forall x, In x (map fst (concat parts)) -> ~ In x (all_ids c)).
      { intros x Hx Hx'. apply (Hf x); [apply in_or_app; now right|]. rewrite all_ids_cons. apply in_or_app. now right. }
      rewrite !flat_cons, !sget_app, (shard_insert_get sc p sh id Hu Hnp Hfp Htp), (IH c Hup Hnr Hfr Htr id).
      destruct (st_get id p) eqn:G1; [reflexivity|].
      destruct (st_get id (sh_store sh)) eqn:G2; [|reflexivity].
      destruct (st_get id (concat parts)) eqn:G3; [|reflexivity]. exfalso.
      apply (Hf id).
      + apply in_or_app. right. apply (sget_In id (concat parts)). congruence.
      + rewrite all_ids_cons. apply in_or_app. left. apply sget_In. congruence. }
  assert (Hspec : insert_spec sc (concat parts) (flat c) =
    (fold_left (fun acc p => st_set (fst p) (snd p) acc) (concat parts) (flat c), SOk [])).
  { apply insert_spec_accepts; [exact Hn|now rewrite flat_ids|].
    clear - Ht. induction Ht as [|p parts Hp _ IH]; [reflexivity|]. cbn [concat]. rewrite forallb_app, Hp, IH. reflexivity. }
  split; [exact Hget|]. split; [exact Hspec|].
  intros id. rewrite Hget, Hspec. cbn [fst]. now rewrite sget_fold_set.
Qed.
