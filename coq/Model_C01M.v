(* Model_C01M.v -- mechanism model M of the point store for property C01:
   the `points` bucket at key level (n<nid>i -> uuid, n<nid>d -> document,
   p<uuid>i -> nid) with the persisted allocator state of the `internal`
   bucket (pointCount, freeNodeIds, nextFreeNodeId), the three write operations
   following shard.InsertPoints / UpdatePoints / DeletePoints and
   pointstore.SetPoint / DeletePoint statement by statement, the abstraction
   `abs` to the plain store of Model_C01.v, and the boolean checkers that judge
   the buckets dumped from the real shard.  Definitions only.

   Modelling decisions (see DESIGN.md 4.1):
   - a bucket is an association list with unique keys; put = delete then cons.
   - values are typed: VUuid (16 raw bytes), VNode (8 LE bytes), VData (msgpack
     bytes, carried as the decoded document tree).  The harness never stores an
     empty byte string as document (the empty map encodes to 1 byte), so
     SetPoint's "delete the d key for empty data" branch is not reachable and
     `VData d` is always written.
   - node id choice: NewIdCounter loads the persisted free list through a Go
     map (de-duplicated, iteration order unspecified), NextId pops the head of
     that list else returns nextFreeId++.  The model replays the id the real
     code chose after checking that it is legal: a member of the in-memory free
     list, or (list empty) exactly nextFree, which must stay a uint64.
   - a rejected batch returns the state unchanged (bbolt rolls the transaction
     back); the rejection causes are computed as in the reference spec (which
     of several causes the concurrent pipeline reports first is not determined).
   - DeletePoints receives a Go map: its keys are unique, iteration order is
     unspecified.  The model iterates over `dedup ids`; reported ids are
     compared as sets. *)
From Coq Require Import List NArith ZArith Bool.
From Semadb Require Import Bytes U64 Value Obs KeyLayout Model_C19 Model_C01.
Import ListNotations.
Open Scope N_scope.

(* ============================ buckets ===================================== *)

Inductive bval := VUuid (u : bytes) | VNode (n : N) | VData (d : doc).
Definition bucket := list (bytes * bval).

Fixpoint b_get (k : bytes) (b : bucket) : option bval :=
  match b with
  | [] => None
  | (k', v) :: r => if bytes_eqb k k' then Some v else b_get k r
  end.
Fixpoint b_del (k : bytes) (b : bucket) : bucket :=
  match b with
  | [] => []
  | (k', v) :: r => if bytes_eqb k k' then b_del k r else (k', v) :: b_del k r
  end.
Definition b_put (k : bytes) (v : bval) (b : bucket) : bucket := (k, v) :: b_del k b.

(* the three key families of the points bucket *)
Definition k_uuid (n : N) : bytes := node_key n suffix_id.        (* n<nid>i -> uuid *)
Definition k_data (n : N) : bytes := node_key n suffix_data.      (* n<nid>d -> data *)
Definition k_node (u : uuid) : bytes := point_key u suffix_id.    (* p<uuid>i -> nid *)

(* inverse of pointstore.PointKey for the suffix 'i' (any uuid length) *)
Definition point_uuid_from_key (key : bytes) : option bytes :=
  match key with
  | p :: rest =>
      if (p =? point_prefix) && negb (length rest =? 0)%nat && (last rest 256 =? suffix_id)
      then Some (removelast rest) else None
  | [] => None
  end.

(* pointstore.SetPoint (data never the empty byte string, see header) *)
Definition set_point (b : bucket) (nid : N) (u : uuid) (d : doc) : bucket :=
  b_put (k_data nid) (VData d) (b_put (k_node u) (VNode nid) (b_put (k_uuid nid) (VUuid u) b)).
(* pointstore.DeletePoint *)
Definition delete_point (b : bucket) (u : uuid) (nid : N) : bucket :=
  b_del (k_data nid) (b_del (k_uuid nid) (b_del (k_node u) b)).
(* pointstore.CheckPointExists *)
Definition m_exists (u : uuid) (b : bucket) : bool :=
  match b_get (k_node u) b with Some _ => true | None => false end.
(* pointstore.GetPointByUUID: node id and stored document *)
Definition get_point (u : uuid) (b : bucket) : option (N * doc) :=
  match b_get (k_node u) b with
  | Some (VNode nid) =>
      Some (nid, match b_get (k_data nid) b with Some (VData d) => d | _ => [] end)
  | _ => None
  end.

(* ============================ state ======================================= *)

(* count / free / nextfree: what is PERSISTED in the internal bucket after the
   last committed batch *)
Record mstate := mkM { pts : bucket; count : N; free : list N; nextfree : N }.
Definition m_init : mstate := mkM [] 0 [] first_node_id.

(* --------------------------- id counter ----------------------------------- *)
Fixpoint memN (x : N) (l : list N) : bool :=
  match l with [] => false | y :: r => (x =? y) || memN x r end.
Fixpoint removeN (x : N) (l : list N) : list N :=
  match l with [] => [] | y :: r => if x =? y then removeN x r else y :: removeN x r end.
(* NewIdCounter: the persisted list goes through a map (de-duplication) *)
Fixpoint dedupN (l : list N) : list N :=
  match l with [] => [] | x :: r => if memN x r then dedupN r else x :: dedupN r end.
Definition load_free (fl : list N) : list N := dedupN fl.

(* NextId, oracle-resolved: `c` is the id the real code returned *)
Definition next_id (c : N) (fl : list N) (nf : N) : option (list N * N) :=
  if memN c fl then Some (removeN c fl, nf)
  else match fl with
       | [] => if (c =? nf) && (nf + 1 <? two64) then Some ([], nf + 1) else None
       | _ :: _ => None
       end.

(* ============================ operations ================================== *)

(* the transform loop of InsertPoints: NextId, SetPoint per point, in batch order *)
Fixpoint m_insert_go (ps : list (uuid * doc)) (cs : list N) (b : bucket) (fl : list N) (nf : N)
  : option (bucket * list N * N) :=
  match ps, cs with
  | [], [] => Some (b, fl, nf)
  | (u, d) :: r, c :: cs' =>
      match next_id c fl nf with
      | Some (fl', nf') => m_insert_go r cs' (set_point b c u d) fl' nf'
      | None => None
      end
  | _, _ => None
  end.

Definition m_insert (sc : schema) (ps : list (uuid * doc)) (cs : list N) (m : mstate)
  : option (mstate * sout) :=
  if has_dup (map fst ps) then Some (m, SErr [ERR_DUP])            (* before the transaction *)
  else
    let e1 := if existsb (fun p => m_exists (fst p) (pts m)) ps then [ERR_EXISTS] else [] in
    let e2 := if forallb (fun p => well_typed sc (snd p)) ps then [] else [ERR_TYPE] in
    match e1 ++ e2 with
    | [] =>
        match m_insert_go ps cs (pts m) (load_free (free m)) (nextfree m) with
        | Some (b', fl', nf') =>
            (* changePointCount(+len(points)); nodeCounter.Flush() *)
            Some (mkM b' (count m + N.of_nat (length ps)) fl' nf', SOk [])
        | None => None
        end
    | es => Some (m, SErr es)                                       (* rollback *)
    end.

(* the transform loop of UpdatePoints; errors are collected as in update_go *)
Fixpoint m_update_go (sc : schema) (maxsize : N) (ps : list (uuid * doc)) (b : bucket)
  : bucket * list uuid * list N :=
  match ps with
  | [] => (b, [], [])
  | (u, inc) :: r =>
      match get_point u b with
      | None => m_update_go sc maxsize r b                          (* skip = true *)
      | Some (nid, old) =>
          let merged := merge_doc delete_value old inc in
          let e := (if maxsize <? doc_size merged then [ERR_SIZE] else []) ++
                   (if well_typed sc merged then [] else [ERR_TYPE]) in
          let '(b', ids, es) := m_update_go sc maxsize r (set_point b nid u merged) in
          (b', u :: ids, e ++ es)
      end
  end.

Definition m_update (sc : schema) (maxsize : N) (ps : list (uuid * doc)) (m : mstate) : mstate * sout :=
  let '(b', ids, es) := m_update_go sc maxsize ps (pts m) in
  match es with
  | [] => (mkM b' (count m) (free m) (nextfree m), SOk ids)
  | _ => (m, SErr es)
  end.

(* the transform loop of DeletePoints: GetPointByUUID, FreeId, DeletePoint *)
Fixpoint m_delete_go (ids : list uuid) (b : bucket) (fl : list N) : bucket * list N * list uuid :=
  match ids with
  | [] => (b, fl, [])
  | u :: r =>
      match get_point u b with
      | None => m_delete_go r b fl
      | Some (nid, _) =>
          let '(b', fl', del) := m_delete_go r (delete_point b u nid) (fl ++ [nid]) in
          (b', fl', u :: del)
      end
  end.

Definition m_delete (ids : list uuid) (m : mstate) : mstate * sout :=
  let '(b', fl', del) := m_delete_go (dedup ids) (pts m) (load_free (free m)) in
  (* changePointCount(-len(deletedIds)); nodeCounter.Flush() *)
  (mkM b' (count m - N.of_nat (length del)) fl' (nextfree m), SOk del).

Definition m_apply (sc : schema) (maxsize : N) (b : batch) (cs : list N) (m : mstate)
  : option (mstate * sout) :=
  match b with
  | BInsert ps => m_insert sc ps cs m
  | BUpdate ps => Some (m_update sc maxsize ps m)
  | BDelete ids => Some (m_delete ids m)
  end.

(* histories: one choice list per batch (used by inserts only; missing = []) *)
Fixpoint runM (sc : schema) (maxsize : N) (h : list batch) (css : list (list N)) (m : mstate)
  : option (mstate * list sout) :=
  match h with
  | [] => Some (m, [])
  | b :: r =>
      match m_apply sc maxsize b (hd [] css) m with
      | None => None
      | Some (m', o) =>
          match runM sc maxsize r (tl css) m' with
          | Some (m'', os) => Some (m'', o :: os)
          | None => None
          end
      end
  end.

Fixpoint runS (sc : schema) (maxsize : N) (h : list batch) (s : store) : store * list sout :=
  match h with
  | [] => (s, [])
  | b :: r => let '(s', o) := apply_spec sc maxsize b s in
              let '(s'', os) := runS sc maxsize r s' in (s'', o :: os)
  end.

(* number of node ids a batch / a history may allocate *)
Definition batch_points (b : batch) : N :=
  match b with BInsert ps => N.of_nat (length ps) | _ => 0 end.
Fixpoint hist_points (h : list batch) : N :=
  match h with [] => 0 | b :: r => batch_points b + hist_points r end.

(* ============================ abstraction ================================= *)

(* read the p<uuid>i keys back and fetch n<nid>d *)
Definition abs_entry (b : bucket) (kv : bytes * bval) : list (uuid * doc) :=
  match point_uuid_from_key (fst kv), snd kv with
  | Some u, VNode nid => [(u, match b_get (k_data nid) b with Some (VData d) => d | _ => [] end)]
  | _, _ => []
  end.
Definition abs_bucket (b : bucket) : store := flat_map (abs_entry b) b.
Definition abs (m : mstate) : store := abs_bucket (pts m).

(* ---- equivalence of stores as maps; documents compared as maps ---- *)
Definition doc_equiv (a b : doc) : Prop := forall k, doc_get k a = doc_get k b.
Definition ovalue_eqb (a b : option value) : bool :=
  match a, b with Some x, Some y => value_eqb x y | None, None => true | _, _ => false end.
Definition doc_equivb (a b : doc) : bool :=
  forallb (fun kv => ovalue_eqb (doc_get (fst kv) a) (doc_get (fst kv) b)) (a ++ b).

Definition store_equiv (a b : store) : Prop :=
  forall id, match st_get id a, st_get id b with
             | Some d, Some d' => doc_equiv d d'
             | None, None => True
             | _, _ => False
             end.
Definition odoc_equivb (a b : option doc) : bool :=
  match a, b with Some x, Some y => doc_equivb x y | None, None => true | _, _ => false end.
Definition store_equivb (a b : store) : bool :=
  forallb (fun p => odoc_equivb (st_get (fst p) a) (st_get (fst p) b)) (a ++ b).
(* the stronger relation the refinement actually establishes *)
Definition store_same (a b : store) : Prop := forall id, st_get id a = st_get id b.

(* documents of a history are decoded msgpack maps: keys are unique *)
Definition doc_wf (d : doc) : Prop := NoDup (map fst d).
Definition batch_wf (b : batch) : Prop :=
  match b with
  | BInsert ps | BUpdate ps => Forall (fun p => doc_wf (snd p)) ps
  | BDelete _ => True
  end.
Definition hist_wf (h : list batch) : Prop := Forall batch_wf h.

(* ============================ invariant (Prop) ============================ *)

(* lookup of a document through the p<uuid>i and n<nid>d keys *)
Definition lookup (b : bucket) (u : uuid) : option doc :=
  match get_point u b with Some (_, d) => Some d | None => None end.

(* the points bucket is a well-formed two-way index with one data key per live node id *)
Record WfP (b : bucket) : Prop := {
  wf_nodup : NoDup (map fst b);
  (* p<uuid>i -> nid  has the inverse entry  n<nid>i -> uuid *)
  wf_node : forall u v, b_get (k_node u) b = Some v ->
            exists n, v = VNode n /\ n < two64 /\ b_get (k_uuid n) b = Some (VUuid u);
  (* and vice versa *)
  wf_uuid : forall n v, n < two64 -> b_get (k_uuid n) b = Some v ->
            exists u, v = VUuid u /\ b_get (k_node u) b = Some (VNode n);
  (* a data key exists iff the node id is live *)
  wf_data1 : forall n, n < two64 -> b_get (k_uuid n) b <> None -> exists d, b_get (k_data n) b = Some (VData d);
  wf_data2 : forall n, n < two64 -> b_get (k_uuid n) b = None -> b_get (k_data n) b = None;
  (* nothing else is in the bucket *)
  wf_keys : forall k v, In (k, v) b ->
            (exists u, k = k_node u) \/ (exists n, n < two64 /\ (k = k_uuid n \/ k = k_data n))
}.

(* the allocator state (free list fl, next fresh id nf) against the bucket:
   a node id n is LIVE when n<n>i is present *)
Record AInv (b : bucket) (fl : list N) (nf : N) : Prop := {
  a_nodup : NoDup fl;
  a_free : forall n, In n fl -> first_node_id <= n < nf /\ b_get (k_uuid n) b = None;   (* free ids are in range, not live *)
  a_live : forall n, n < two64 -> b_get (k_uuid n) b <> None -> first_node_id <= n < nf; (* live ids are not 0, 1 and below nextFree *)
  a_cover : forall n, first_node_id <= n < nf -> In n fl \/ b_get (k_uuid n) b <> None;  (* free + live = [2, nextFree) *)
  a_nf : first_node_id <= nf < two64
}.

Record InvM (m : mstate) : Prop := {
  inv_wf : WfP (pts m);
  inv_alloc : AInv (pts m) (free m) (nextfree m);
  inv_count : count m = N.of_nat (length (abs m))                                        (* pointCount = |live| *)
}.

(* reachable states of M *)
Definition reachable (sc : schema) (maxsize : N) (m : mstate) : Prop :=
  exists h css outs, runM sc maxsize h css m_init = Some (m, outs).

(* ============================ dumped buckets ============================== *)

(* what the harness dumps from the real shard after a batch *)
Record dump := mkDump {
  d_points : list (bytes * bytes);     (* points bucket without the data keys, raw *)
  d_docs : list (bytes * doc);         (* the data keys with decoded documents *)
  d_internal : list (bytes * bytes) }. (* internal bucket, raw *)

Fixpoint raw_get {A} (k : bytes) (l : list (bytes * A)) : option A :=
  match l with
  | [] => None
  | (k', v) :: r => if bytes_eqb k k' then Some v else raw_get k r
  end.
Fixpoint assocN {A} (n : N) (l : list (N * A)) : option A :=
  match l with
  | [] => None
  | (n', v) :: r => if n =? n' then Some v else assocN n r
  end.

Definition dump_point_uuid (key : bytes) : option bytes :=
  if (length key =? point_key_len)%nat then point_uuid_from_key key else None.

Definition dump_nodes (d : dump) : list (N * uuid) :=
  flat_map (fun kv => match node_id_from_key (fst kv) suffix_id with
                      | Some n => [(n, snd kv)] | None => [] end) (d_points d).
Definition dump_pts (d : dump) : list (uuid * N) :=
  flat_map (fun kv => match dump_point_uuid (fst kv) with
                      | Some u => [(u, u64_of_le (snd kv))] | None => [] end) (d_points d).
Definition dump_datas (d : dump) : list (N * doc) :=
  flat_map (fun kv => match node_id_from_key (fst kv) suffix_data with
                      | Some n => [(n, snd kv)] | None => [] end) (d_docs d).
Definition dump_count (d : dump) : N :=
  match raw_get point_count_key (d_internal d) with Some v => u64_of_le v | None => 0 end.
Definition dump_nextfree (d : dump) : N :=
  match raw_get next_free_node_id_key (d_internal d) with Some v => u64_of_le v | None => first_node_id end.
Definition dump_free (d : dump) : list N :=
  match raw_get free_node_ids_key (d_internal d) with Some v => edges_of_le v | None => [] end.
Definition dump_live (d : dump) : list N := map snd (dump_pts d).

Fixpoint nodupN_b (l : list N) : bool :=
  match l with [] => true | x :: r => negb (memN x r) && nodupN_b r end.
Definition is_some {A} (o : option A) : bool := match o with Some _ => true | None => false end.

(* every entry is of a known kind and has the right value width *)
Definition dump_shape_b (d : dump) : bool :=
  forallb (fun kv =>
             match node_id_from_key (fst kv) suffix_id, dump_point_uuid (fst kv) with
             | Some _, None => (length (snd kv) =? 16)%nat
             | None, Some _ => (length (snd kv) =? u64_width)%nat
             | _, _ => false
             end) (d_points d)
  && forallb (fun kv => is_some (node_id_from_key (fst kv) suffix_data)) (d_docs d)
  && (match raw_get free_node_ids_key (d_internal d) with
      | Some v => (length v mod u64_width =? 0)%nat | None => true end).

Definition dump_inv_b (d : dump) : bool :=
  let nodes := dump_nodes d in
  let pts := dump_pts d in
  let datas := dump_datas d in
  let live := dump_live d in
  let fl := dump_free d in
  let nf := dump_nextfree d in
  dump_shape_b d
  (* keys are unique *)
  && negb (has_dup (map fst pts)) && nodupN_b (map fst nodes) && nodupN_b (map fst datas)
  (* p<uuid>i -> nid  and  n<nid>i -> uuid  are inverse to each other *)
  && forallb (fun un => match assocN (snd un) nodes with
                        | Some u => bytes_eqb u (fst un) | None => false end) pts
  && forallb (fun nu => match raw_get (snd nu) pts with
                        | Some n => n =? fst nu | None => false end) nodes
  (* a data key exactly for the live node ids *)
  && forallb (fun n => is_some (assocN n datas)) live
  && forallb (fun nd => memN (fst nd) live) datas
  (* live node ids: pairwise distinct, not 0 / start node, below nextFree *)
  && nodupN_b live
  && forallb (fun n => (start_id <? n) && (first_node_id <=? n) && (n <? nf)) live
  (* free list: distinct, not live, in [2, nextFree) *)
  && nodupN_b fl
  && forallb (fun n => negb (memN n live) && (first_node_id <=? n) && (n <? nf)) fl
  (* free + live = [2, nextFree): with the above, a matter of cardinality *)
  && (first_node_id <=? nf)
  && (N.of_nat (length fl) + N.of_nat (length live) =? nf - first_node_id)
  (* pointCount = number of live points *)
  && (dump_count d =? N.of_nat (length pts)).

(* Prop form of dump_inv_b on the decoded dump *)
Record DumpInv (d : dump) : Prop := {
  di_bij : forall u n, In (u, n) (dump_pts d) <-> In (n, u) (dump_nodes d);   (* two-way index *)
  di_pts_nodup : NoDup (map fst (dump_pts d));                                 (* one entry per uuid *)
  di_live_nodup : NoDup (dump_live d);                                         (* node ids of live points are unique *)
  di_data : forall n, In n (dump_live d) <-> In n (map fst (dump_datas d));    (* data key iff live *)
  di_live_range : forall n, In n (dump_live d) ->
                  first_node_id <= n < dump_nextfree d /\ n <> 0 /\ n <> start_id;
  di_free_nodup : NoDup (dump_free d);
  di_free : forall n, In n (dump_free d) ->
            first_node_id <= n < dump_nextfree d /\ ~ In n (dump_live d);       (* free ids are not live *)
  di_cover : forall n, first_node_id <= n < dump_nextfree d ->
             In n (dump_free d) \/ In n (dump_live d);                         (* free + live = [2, nextFree) *)
  di_count : dump_count d = N.of_nat (length (dump_live d))
}.

(* the store the dump represents *)
Definition dump_abs (d : dump) : store :=
  map (fun un => (fst un, match assocN (snd un) (dump_datas d) with Some x => x | None => [] end))
      (dump_pts d).

(* ---- comparison of a dump with a model state (MISMATCH diagnostics) ---- *)
Definition subsetN (a b : list N) : bool := forallb (fun x => memN x b) a.
Definition dump_matches_b (d : dump) (m : mstate) : bool :=
  (length (pts m) =? length (d_points d) + length (d_docs d))%nat
  && forallb (fun kv =>
                match snd kv with
                | VUuid u => match raw_get (fst kv) (d_points d) with
                             | Some v => bytes_eqb v u | None => false end
                | VNode n => match raw_get (fst kv) (d_points d) with
                             | Some v => bytes_eqb v (u64_le n) | None => false end
                | VData x => match raw_get (fst kv) (d_docs d) with
                             | Some y => doc_eqb x y | None => false end
                end) (pts m)
  && (dump_count d =? count m)
  && (dump_nextfree d =? nextfree m)
  && (length (dump_free d) =? length (free m))%nat
  && subsetN (dump_free d) (free m) && subsetN (free m) (dump_free d).
