(* Props_C02.v -- property C02: filter queries return exactly the live points
   that satisfy the predicate.  Statements about the mechanism model
   Model_C02M.v (one inverted index as the code keeps it) and the reference
   spec Model_C02.v; every proof is `exact <lemma of Proofs_C02.v>`.

   Reading guide.  A history is a list of write batches, a batch a list of
   changes (node id, previous value, current value) as the dispatcher hands
   them to the index.  `consistent valid hs`: every change carries as previous
   value exactly what is stored for that node at that moment (and all values
   are `valid`: int64 range / non-NaN float64 bit pattern / any string).
   `stored_after hs n` is the indexed field value of node n after the history
   (None: the point is not live or lacks the field).  `same_set r P`: the id
   list r has no duplicates and its members are exactly the n with P n. *)
From Coq Require Import List NArith ZArith Bool Permutation.
From Semadb Require Import Bytes U64 KV Value Obs Model_C19 Model_C01 Model_C02 Model_C02M Proofs_C02.
Import ListNotations.
Open Scope N_scope.

(* ===================== the posting-list invariant ========================= *)
(* generic: any value type whose Go equality and sortable key agree *)
Theorem c02_postings_inv :
  forall (V : Type) (enc : V -> bytes) (veqb : V -> V -> bool) (valid : V -> Prop),
  (forall a b, valid a -> valid b -> (veqb a b = true <-> enc a = enc b)) ->
  forall hs : list (list (@change V)), consistent valid hs ->
    let b := run_history enc veqb hs in
    let st := stored_after hs in
    ksorted (b_keys b) /\                                               (* keys unique, in cursor order *)
    (forall k s, b_get k b = Some s -> s <> [] /\ NoDup s) /\           (* no empty sets *)
    (forall k n, In n (getset k b) <-> exists v, st n = Some v /\ enc v = k).
Proof. exact (@postings_inv). Qed.
Print Assumptions c02_postings_inv.

Theorem c02_postings_inv_int : forall hs, consistent in_i64 hs ->
  let b := int_run hs in
  ksorted (b_keys b) /\
  (forall k s, b_get k b = Some s -> s <> [] /\ NoDup s) /\
  (forall k n, In n (getset k b) <-> exists v, stored_after hs n = Some v /\ enc_i64 v = k).
Proof. exact int_postings_inv. Qed.
Print Assumptions c02_postings_inv_int.

Theorem c02_postings_inv_float : forall hs, consistent f64_valid hs ->
  let b := flt_run hs in
  ksorted (b_keys b) /\
  (forall k s, b_get k b = Some s -> s <> [] /\ NoDup s) /\
  (forall k n, In n (getset k b) <-> exists v, stored_after hs n = Some v /\ enc_f64 v = k).
Proof. exact flt_postings_inv. Qed.
Print Assumptions c02_postings_inv_float.

Theorem c02_postings_inv_str : forall (fold : bytes -> bytes) hs, consistent any_str hs ->
  let b := str_run fold hs in
  ksorted (b_keys b) /\
  (forall k s, b_get k b = Some s -> s <> [] /\ NoDup s) /\
  (forall k n, In n (getset k b) <-> exists x, stored_after hs n = Some x /\ fold x = k).
Proof. exact str_postings_inv. Qed.
Print Assumptions c02_postings_inv_str.

Theorem c02_postings_inv_strarr : forall (fold : bytes -> bytes) hs, aconsistent hs ->
  let b := sarr_run fold hs in
  ksorted (b_keys b) /\
  (forall k s, b_get k b = Some s -> s <> [] /\ NoDup s) /\
  (forall k n, In n (getset k b) <-> In k (map fold (astored_after hs n))).
Proof. exact sarr_postings_inv. Qed.
Print Assumptions c02_postings_inv_strarr.

(* Go ranges over the set cache in unspecified order when flushing; with the
   pairwise distinct keys the invariant provides, every order writes the same bucket *)
Theorem c02_flush_order_irrelevant :
  forall (V : Type) (enc : V -> bytes) (c c' : @cache V) b,
  Permutation c c' -> NoDup (map (fun it => enc (it_val it)) c) ->
  forall k, b_get k (flush enc c b) = b_get k (flush enc c' b).
Proof. exact (@flush_order_irrelevant). Qed.
Print Assumptions c02_flush_order_irrelevant.

(* ===================== search = set comprehension ========================= *)
(* integers: every operator the API accepts on the index (op_num: equals,
   notEquals, greaterThan, greaterThanOrEquals, lessThan, lessThanOrEquals,
   inRange), every int64 value and end value *)
Theorem c02_search_exact_int : forall hs op q e,
  consistent in_i64 hs -> in_i64 q -> in_i64 e -> op_num op ->
  exists r, int_search op q e (int_run hs) = Some r /\
    same_set r (fun n => exists v, stored_after hs n = Some v /\ matches_int op q e v = true).
Proof. exact int_search_exact. Qed.
Print Assumptions c02_search_exact_int.

(* floats: non-NaN bit patterns, IEEE order and equality (-0.0 = +0.0) *)
Theorem c02_search_exact_float : forall hs op q e,
  consistent f64_valid hs -> f64_valid q -> f64_valid e -> op_num op ->
  exists r, flt_search op q e (flt_run hs) = Some r /\
    same_set r (fun n => exists v, stored_after hs n = Some v /\ matches_float op q e v = true).
Proof. exact flt_search_exact. Qed.
Print Assumptions c02_search_exact_float.

(* strings: all eight operators incl. startsWith; `fold` is strings.ToLower on a
   case-insensitive index and the identity on a case-sensitive one; it is
   applied to the stored value, the query value and the end value *)
Theorem c02_search_exact_str : forall (fold : bytes -> bytes) hs op q e,
  consistent any_str hs -> op_scan op ->
  exists r, str_search fold op q e (str_run fold hs) = Some r /\
    same_set r (fun n => exists x, stored_after hs n = Some x /\
                                   matches_str op (fold q) (fold e) (fold x) = true).
Proof. exact str_search_exact. Qed.
Print Assumptions c02_search_exact_str.

(* string arrays: containsAll / containsAny of a non-empty query list *)
Theorem c02_search_exact_strarr : forall (fold : bytes -> bytes) hs op qs,
  aconsistent hs -> qs <> [] -> op = OP_ALL \/ op = OP_ANY ->
  exists r, sarr_search fold op qs (sarr_run fold hs) = Some r /\
    same_set r (fun n =>
      (if op =? OP_ALL then forallb (fun x => mem_bytes x (map fold (astored_after hs n))) (map fold qs)
       else existsb (fun x => mem_bytes x (map fold (astored_after hs n))) (map fold qs)) = true).
Proof. exact sarr_search_exact. Qed.
Print Assumptions c02_search_exact_strarr.

(* the same for any value type with an order-embedding key (this is where the
   C19 theorems c19_i64_order / c19_f64_order enter) *)
Theorem c02_search_exact_generic :
  forall (V : Type) (enc : V -> bytes) (dec : bytes -> V) (veqb : V -> V -> bool) (valid : V -> Prop),
  (forall a b, valid a -> valid b -> (veqb a b = true <-> enc a = enc b)) ->
  (forall a, valid a -> valid (dec (enc a))) ->
  (forall a, valid a -> enc (dec (enc a)) = enc a) ->
  forall vcmp : V -> V -> comparison,
  (forall a b, valid a -> valid b -> lex_compare (enc a) (enc b) = vcmp a b) ->
  forall hs op q e, consistent valid hs -> valid q -> valid e -> op_num op ->
  exists r, search enc dec veqb op q e (run_history enc veqb hs) = Some r /\ NoDup r /\
    forall n, In n r <-> exists v, stored_after hs n = Some v /\ cmp_matches op (vcmp v q) (vcmp v e) = true.
Proof. exact (@search_values). Qed.
Print Assumptions c02_search_exact_generic.

(* the right-hand sides above are the leaf predicate of the reference spec
   Model_C02.leaf_matches with  stored n := the field of n's document *)
Theorem c02_spec_leaf_shape :
  (forall sc t p op q e d, schema_get p sc = Some IInt ->
     leaf_matches sc t (QInt p op q e) d =
     Some (match field_int p d with Some x => matches_int op q e x | None => false end)) /\
  (forall sc t p op q e d, schema_get p sc = Some IFloat ->
     leaf_matches sc t (QFloat p op q e) d =
     Some (match field_f64 p d with Some x => matches_float op q e x | None => false end)) /\
  (forall sc t cs fold p op q e d, schema_get p sc = Some (IStr cs) ->
     (forall s, fold_str cs t s = Some (fold s)) ->
     leaf_matches sc t (QStr p op q e) d =
     Some (match field_str p d with Some x => matches_str op (fold q) (fold e) (fold x) | None => false end)) /\
  (forall sc t cs fold p op qs d, schema_get p sc = Some (IStrArr cs) ->
     (forall s, fold_str cs t s = Some (fold s)) -> qs <> [] -> op = OP_ALL \/ op = OP_ANY ->
     leaf_matches sc t (QStrArr p op qs) d =
     Some (if op =? OP_ALL then forallb (fun x => mem_bytes x (map fold (field_strs p d))) (map fold qs)
           else existsb (fun x => mem_bytes x (map fold (field_strs p d))) (map fold qs))).
Proof. exact (conj leaf_int_shape (conj leaf_f64_shape (conj leaf_str_shape leaf_strarr_shape))). Qed.
Print Assumptions c02_spec_leaf_shape.

(* ===================== _and / _or ========================================= *)
Theorem c02_bool_algebra :
  (* reference spec: ids_inter / ids_union are intersection / union ... *)
  (forall x a b, mem_bytes x (ids_inter a b) = mem_bytes x a && mem_bytes x b) /\
  (forall x a b, mem_bytes x (ids_union a b) = mem_bytes x a || mem_bytes x b) /\
  (* ... and the answer of _and / _or is the intersection / union of the sub-answers *)
  (forall sc t live qs r, answer sc t live (QAnd qs) = Some r ->
     exists subs, Forall2 (fun q a => answer sc t live q = Some a) qs subs /\
       forall x, mem_bytes x r = mem_bytes x (map fst live) && forallb (mem_bytes x) subs) /\
  (forall sc t live qs r, answer sc t live (QOr qs) = Some r ->
     exists subs, Forall2 (fun q a => answer sc t live q = Some a) qs subs /\
       forall x, mem_bytes x r = existsb (mem_bytes x) subs) /\
  (* mechanism (search.go searchParallel: one sub-result is passed through, several go to FastAnd / FastOr) *)
  (forall sets n, sets <> [] -> (In n (combine false sets) <-> forall s, In s sets -> In n s)) /\
  (forall sets n, In n (combine true sets) <-> exists s, In s sets /\ In n s) /\
  (forall is_or sets, Forall (@NoDup N) sets -> NoDup (combine is_or sets)).
Proof.
  exact (conj mem_ids_inter (conj mem_ids_union (conj answer_and_spec (conj answer_or_spec
        (conj combine_and_In (conj combine_or_In combine_NoDup)))))).
Qed.
Print Assumptions c02_bool_algebra.

(* ===================== both store backends ================================ *)
Theorem c02_backends_agree :
  (forall l s e incl, ksorted l -> bbolt_range l s e incl = mem_range l s e incl) /\
  (forall l p, ksorted l -> bbolt_prefix l p = mem_prefix l p) /\
  (forall (V : Type) (enc : V -> bytes) (dec : bytes -> V) (veqb : V -> V -> bool) b op q e,
     ksorted (b_keys b) -> search_mem enc dec veqb op q e b = search enc dec veqb op q e b) /\
  (forall hs op q e, consistent in_i64 hs ->
     int_search_mem op q e (int_run hs) = int_search op q e (int_run hs)) /\
  (forall hs op q e, consistent f64_valid hs ->
     flt_search_mem op q e (flt_run hs) = flt_search op q e (flt_run hs)) /\
  (forall fold hs op q e, consistent any_str hs ->
     str_search_mem fold op q e (str_run fold hs) = str_search fold op q e (str_run fold hs)).
Proof.
  exact (conj backends_agree_range (conj bbolt_prefix_spec (conj (@backends_agree)
        (conj int_backends (conj flt_backends str_backends))))).
Qed.
Print Assumptions c02_backends_agree.

(* ===================== points without the field =========================== *)
Theorem c02_absent_never_matches :
  forall (V : Type) (enc : V -> bytes) (dec : bytes -> V) (veqb : V -> V -> bool) (valid : V -> Prop),
  (forall a b, valid a -> valid b -> (veqb a b = true <-> enc a = enc b)) ->
  forall hs n, consistent valid hs -> stored_after hs n = None ->
    (forall k, set_mem n (getset k (run_history enc veqb hs)) = false) /\
    (forall op q e r, search enc dec veqb op q e (run_history enc veqb hs) = Some r -> ~ In n r) /\
    (forall op q e r, search_mem enc dec veqb op q e (run_history enc veqb hs) = Some r -> ~ In n r).
Proof. exact (@absent_never_matches). Qed.
Print Assumptions c02_absent_never_matches.

Theorem c02_absent_never_matches_strarr : forall (fold : bytes -> bytes) hs n,
  aconsistent hs -> astored_after hs n = [] -> forall k, ~ In n (getset k (sarr_run fold hs)).
Proof. exact sarr_absent. Qed.
Print Assumptions c02_absent_never_matches_strarr.

(* ===================== the two repaired defects =========================== *)
(* F1 (repaired by d0d2b37): with the float encoder of the pinned tree the
   search theorem and the posting invariant are FALSE; -0.0 is the witness *)
Theorem c02_negzero_refuted :
  ~ (forall hs op q e, consistent f64_valid hs -> f64_valid q -> f64_valid e -> op_num op ->
       exists r, flt0_search op q e (flt0_run hs) = Some r /\
         same_set r (fun n => exists v, stored_after hs n = Some v /\ matches_float op q e v = true)) /\
  ~ (forall hs, consistent f64_valid hs ->
       forall k n, In n (getset k (flt0_run hs)) <-> exists v, stored_after hs n = Some v /\ enc_f64_v0 v = k) /\
  (* concretely: -0.0 stored for node 1, +0.0 for node 2 (two batches / one batch) *)
  (consistent f64_valid hs_nz_two /\ consistent f64_valid hs_nz_one /\
   flt0_search OP_EQ 0 0 (flt0_run hs_nz_two) = Some [2] /\
   flt0_search OP_LT bits_m1 bits_m1 (flt0_run hs_nz_two) = Some [1] /\
   matches_float OP_LT bits_m1 bits_m1 two63 = false /\
   flt0_search OP_EQ 0 0 (flt0_run hs_nz_one) = Some [] /\
   flt_search OP_EQ 0 0 (flt_run hs_nz_two) = Some [1; 2] /\
   flt_search OP_EQ 0 0 (flt_run hs_nz_one) = Some [1; 2] /\
   flt_search OP_LT bits_m1 bits_m1 (flt_run hs_nz_two) = Some []).
Proof.
  exact (conj negzero_search_refuted (conj negzero_postings_refuted
        (conj hs_nz_two_consistent (conj hs_nz_one_consistent negzero_facts)))).
Qed.
Print Assumptions c02_negzero_refuted.

(* F2 (repaired by 703e907): lower-casing only the start value of a range *)
Theorem c02_range_fold_refuted :
  ~ (forall fold hs op q e, consistent any_str hs -> op_scan op ->
       exists r, str_search_v0 fold op q e (str_run fold hs) = Some r /\
         same_set r (fun n => exists x, stored_after hs n = Some x /\
                                        matches_str op (fold q) (fold e) (fold x) = true)) /\
  (* concretely: "b" stored, inRange "A".."C" on a case-insensitive index *)
  (consistent any_str hs_fold /\
   str_search_v0 ascii_lower OP_RANGE [65] [67] (str_run ascii_lower hs_fold) = Some [] /\
   str_search ascii_lower OP_RANGE [65] [67] (str_run ascii_lower hs_fold) = Some [1] /\
   matches_str OP_RANGE (ascii_lower [65]) (ascii_lower [67]) (ascii_lower [98]) = true).
Proof. exact (conj range_fold_refuted (conj hs_fold_consistent range_fold_facts)). Qed.
Print Assumptions c02_range_fold_refuted.

(* remark: startsWith on a numeric index -- refused by the API (models/search.go),
   given no match by Model_C02.matches_int -- behaves as equals in the mechanism *)
Theorem c02_numeric_startswith_is_equals : forall hs q e, consistent in_i64 hs -> in_i64 q ->
  exists r, int_search OP_PREFIX q e (int_run hs) = Some r /\
    same_set r (fun n => stored_after hs n = Some q).
Proof. exact int_startswith_is_equals. Qed.
Print Assumptions c02_numeric_startswith_is_equals.

Theorem c02_float_startswith_is_equals : forall hs q e, consistent f64_valid hs -> f64_valid q ->
  exists r, flt_search OP_PREFIX q e (flt_run hs) = Some r /\
    same_set r (fun n => exists v, stored_after hs n = Some v /\ f64_eq v q = true).
Proof. exact flt_startswith_is_equals. Qed.
Print Assumptions c02_float_startswith_is_equals.

(* any other operator code is refused ("unknown inverted search operator") *)
Theorem c02_unknown_operator : forall (V : Type) (enc : V -> bytes) (dec : bytes -> V) (veqb : V -> V -> bool) op q e b,
  7 < op -> search enc dec veqb op q e b = None.
Proof. exact (@search_unknown_op). Qed.
Print Assumptions c02_unknown_operator.

(* ===================== concrete histories (computed by the kernel) ======== *)
Open Scope Z_scope.
Definition zmin : Z := -9223372036854775808.
Definition zmax : Z := 9223372036854775807.
(* inserts; an update that changes, one that does not, one that removes the
   field, one that adds it; a delete and a change to an earlier value *)
Definition ex_int : list (list (@change Z)) :=
  [ [mkChange 1 None (Some zmin); mkChange 2 None (Some (-1)); mkChange 3 None (Some 0);
     mkChange 4 None (Some zmax); mkChange 5 None (Some 7); mkChange 6 None None];
    [mkChange 2 (Some (-1)) (Some 7); mkChange 3 (Some 0) (Some 0); mkChange 5 (Some 7) None;
     mkChange 6 None (Some 0)];
    [mkChange 1 (Some zmin) None; mkChange 4 (Some zmax) (Some (-1))] ].
Close Scope Z_scope.

Example c02_ex_int_consistent : consistent in_i64 ex_int.
Proof. cbn. unfold in_i64, zmin, zmax. repeat split; try reflexivity; discriminate. Qed.

Example c02_ex_int :
  int_run ex_int = [ (enc_i64 (-1), [4]); (enc_i64 0, [3; 6]); (enc_i64 7, [2]) ] /\
  int_search OP_EQ 7 0 (int_run ex_int) = Some [2] /\              (* node 5 no longer has the field *)
  int_search OP_NE 0 0 (int_run ex_int) = Some [2; 4] /\
  int_search OP_GT (-1) 0 (int_run ex_int) = Some [2; 3; 6] /\
  int_search OP_GE (-1) 0 (int_run ex_int) = Some [2; 3; 4; 6] /\
  int_search OP_LT zmin 0 (int_run ex_int) = Some [] /\
  int_search OP_LE zmax 0 (int_run ex_int) = Some [2; 3; 4; 6] /\
  int_search OP_RANGE (-1) 0 (int_run ex_int) = Some [3; 4; 6] /\
  int_search OP_EQ zmin 0 (int_run ex_int) = Some [] /\           (* deleted point *)
  int_search_mem OP_RANGE zmin zmax (int_run ex_int) = Some [2; 3; 4; 6] /\
  stored_after ex_int 5 = None /\ stored_after ex_int 4 = Some (-1)%Z.
Proof. vm_compute. repeat split. Qed.

(* floats: both zeros in one batch, -Inf, the smallest subnormal, -1.5; then
   -0.0 "updated" to +0.0 (Go: equal, no change), -Inf deleted *)
Definition ex_flt : list (list (@change N)) :=
  [ [mkChange 1 None (Some two63); mkChange 2 None (Some 0); mkChange 3 None (Some 18442240474082181120);
     mkChange 4 None (Some 1); mkChange 5 None (Some 13832806255468478464)];
    [mkChange 1 (Some two63) (Some 0)];
    [mkChange 3 (Some 18442240474082181120) None] ].

Example c02_ex_flt_consistent : consistent f64_valid ex_flt.
Proof. vm_compute. repeat split. Qed.

Example c02_ex_flt :
  flt_search OP_EQ 0 0 (flt_run ex_flt) = Some [1; 2] /\
  flt_search OP_EQ two63 0 (flt_run ex_flt) = Some [1; 2] /\      (* equals -0.0 *)
  flt_search OP_LT 0 0 (flt_run ex_flt) = Some [5] /\
  flt_search OP_GE two63 0 (flt_run ex_flt) = Some [1; 2; 4] /\
  flt_search OP_GT 0 0 (flt_run ex_flt) = Some [4] /\              (* 5e-324 > 0 *)
  flt_search OP_RANGE 18442240474082181120 two63 (flt_run ex_flt) = Some [1; 2; 5] /\
  flt_search OP_NE 1 0 (flt_run ex_flt) = Some [1; 2; 5].
Proof. vm_compute. repeat split. Qed.

(* strings on a case-insensitive index: "Apple" "apple" "APPLES" "b" "ab";
   "Apple" rewritten as "APPLE" (same folded value), "b" removed *)
Definition ex_str : list (list (@change bytes)) :=
  [ [mkChange 1 None (Some [65;112;112;108;101]); mkChange 2 None (Some [97;112;112;108;101]);
     mkChange 3 None (Some [65;80;80;76;69;83]); mkChange 4 None (Some [98]); mkChange 5 None (Some [97;98])];
    [mkChange 1 (Some [65;112;112;108;101]) (Some [65;80;80;76;69]); mkChange 4 (Some [98]) None] ].

Example c02_ex_str_consistent : consistent any_str ex_str.
Proof. vm_compute. repeat split. Qed.

Example c02_ex_str :
  str_search ascii_lower OP_EQ [97;80;80;108;101] [] (str_run ascii_lower ex_str) = Some [1; 2] /\   (* "aPPle" *)
  str_search ascii_lower OP_PREFIX [65;80] [] (str_run ascii_lower ex_str) = Some [1; 2; 3] /\       (* "AP" *)
  str_search ascii_lower OP_PREFIX [97] [] (str_run ascii_lower ex_str) = Some [1; 2; 3; 5] /\
  str_search ascii_lower OP_GT [97;112;112;108;101] [] (str_run ascii_lower ex_str) = Some [3] /\    (* a prefix of "apples" *)
  str_search ascii_lower OP_RANGE [65] [66] (str_run ascii_lower ex_str) = Some [1; 2; 3; 5] /\      (* "A".."B" *)
  str_search ascii_lower OP_NE [97;98] [] (str_run ascii_lower ex_str) = Some [1; 2; 3] /\
  (* the same data on a case-sensitive index (identity fold) *)
  str_search (fun s => s) OP_EQ [97;112;112;108;101] [] (str_run (fun s => s) ex_str) = Some [2] /\
  str_search (fun s => s) OP_LT [97] [] (str_run (fun s => s) ex_str) = Some [1; 3].
Proof. vm_compute. repeat split. Qed.

(* string arrays: ["Red";"red";"blue"], ["x"], then node 1 := ["blue";"x"], node 2 := [] *)
Definition ex_arr : list (list (@achange bytes)) :=
  [ [mkAChange 1 [] [[82;101;100]; [114;101;100]; [98;108;117;101]]; mkAChange 2 [] [[120]]];
    [mkAChange 1 [[82;101;100]; [114;101;100]; [98;108;117;101]] [[98;108;117;101]; [120]]; mkAChange 2 [[120]] []] ].

Example c02_ex_arr_consistent : aconsistent ex_arr.
Proof. vm_compute. repeat split. Qed.

Example c02_ex_arr :
  sarr_run ascii_lower ex_arr = [ ([98;108;117;101], [1]); ([120], [1]) ] /\
  sarr_search ascii_lower OP_ALL [[66;76;85;69]; [120]] (sarr_run ascii_lower ex_arr) = Some [1] /\   (* "BLUE","x" *)
  sarr_search ascii_lower OP_ANY [[114;101;100]; [120]] (sarr_run ascii_lower ex_arr) = Some [1] /\   (* "red" is gone *)
  sarr_search ascii_lower OP_ALL [[114;101;100]] (sarr_run ascii_lower ex_arr) = Some [] /\
  astored_after ex_arr 2 = [].
Proof. vm_compute. repeat split. Qed.
