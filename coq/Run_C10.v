(* Run_C10.v -- verdict for C10: after every successful write the dumped graph,
   vector store and point store of the live shard are well-formed. *)
From Coq Require Import List NArith ZArith Bool.
From Semadb Require Import Bytes Pack Value Obs KeyLayout Model_C01 Model_C02 Model_C04 Model_C10.
Import ListNotations.
Open Scope N_scope.

Definition vamana_props (sc : schema) : list (bytes * N * quant) :=
  flat_map (fun pi => match snd pi with IVamana _ _ _ degree _ qz => [(fst pi, degree, qz)] | _ => [] end) sc.

Fixpoint first_nonzero (l : list N) : N :=
  match l with [] => 0 | x :: r => if x =? 0 then first_nonzero r else x end.

(* what is persisted must also be usable: the requests of the step answered by a fresh instance (own cache) over a
   copy of the file. A request the running instance answered with rows and the fresh one with an error means that
   the file cannot be read back as the graph it describes (e.g. a stored node that reads as absent) *)
Fixpoint find_cold (xs : list extra) : option (list (request * qout)) :=
  match xs with
  | [] => None
  | XCold qs :: _ => Some qs
  | _ :: r => find_cold r
  end.
Fixpoint cold_fails (w c : list (request * qout)) : bool :=
  match w, c with
  | (_, QRows _) :: w', (_, QError _) :: c' => true
  | _ :: w', _ :: c' => cold_fails w' c'
  | _, _ => false
  end.

Fixpoint judge_steps (sc : schema) (i : N) (steps : list step) : N :=
  match steps with
  | [] => 0
  | st :: rest =>
      match s_out st with
      | OCrash _ => 0
      | _ =>
          let c := first_nonzero (map (fun pd => wf_code (fst (fst pd)) (snd (fst pd)) (snd pd) st) (vamana_props sc)) in
          let c := if c =? 0 then
                     match find_cold (s_extra st) with
                     | Some cold => if cold_fails (s_queries st) cold then 149 else 0
                     | None => 0
                     end
                   else c in
          if c =? 0 then judge_steps sc (i + 1) rest else c + 1000 * (i + 1)
      end
  end.

Definition verdict (h : hist) : N := judge_steps (h_schema h) 0 (h_steps h).

Fixpoint bad_from (i : N) (cs : list hist) : list (N * N) :=
  match cs with
  | [] => []
  | c :: r => let v := verdict c in
              if v =? 0 then bad_from (i + 1) r else (i, v) :: bad_from (i + 1) r
  end.
Definition bad (cs : list hist) : list (N * N) := bad_from 0 cs.
