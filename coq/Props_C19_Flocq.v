(* Props_C19_Flocq.v -- final statements only: the order of Model_C19.f64_ord on
   64-bit patterns is Flocq's IEEE-754 binary64 comparison of the decoded values. *)
From Coq Require Import NArith ZArith Reals.
From Flocq Require Import Core Binary Bits.
From Semadb Require Import Bytes U64 KeyLayout Model_C19 Flocq_C19.
Open Scope N_scope.

(* the sign-magnitude order on non-NaN bit patterns IS Bcompare on binary64 *)
Theorem c19_f64_ord_is_ieee : forall a b, a < two64 -> b < two64 ->
  f64_nan a = false -> f64_nan b = false ->
  Bcompare 53 1024 (b64_of_bits (Z.of_N a)) (b64_of_bits (Z.of_N b))
  = Some (Z.compare (f64_ord a) (f64_ord b)).
Proof. exact f64_ord_Bcompare. Qed.
Print Assumptions c19_f64_ord_is_ieee.

Theorem c19_f64_lt_is_ieee : forall a b, a < two64 -> b < two64 ->
  f64_nan a = false -> f64_nan b = false ->
  (f64_lt a b = true <->
   Bcompare 53 1024 (b64_of_bits (Z.of_N a)) (b64_of_bits (Z.of_N b)) = Some Lt).
Proof. exact f64_lt_Bcompare. Qed.
Print Assumptions c19_f64_lt_is_ieee.

Theorem c19_f64_eq_is_ieee : forall a b, a < two64 -> b < two64 ->
  f64_nan a = false -> f64_nan b = false ->
  (f64_eq a b = true <->
   Bcompare 53 1024 (b64_of_bits (Z.of_N a)) (b64_of_bits (Z.of_N b)) = Some Eq).
Proof. exact f64_eq_Bcompare. Qed.
Print Assumptions c19_f64_eq_is_ieee.

(* ... and equal means: the same pattern, or the two zeros *)
Theorem c19_f64_eq_bits : forall a b, a < two64 -> b < two64 ->
  (f64_eq a b = true <-> a = b \/ (f64_is_zero a = true /\ f64_is_zero b = true)).
Proof. exact f64_eq_bits. Qed.
Print Assumptions c19_f64_eq_bits.

(* the NaN test of the model is Flocq's *)
Theorem c19_f64_nan_is_ieee : forall a, a < two64 ->
  (f64_nan a = true <-> is_nan 53 1024 (b64_of_bits (Z.of_N a)) = true).
Proof. exact f64_nan_iff. Qed.
Print Assumptions c19_f64_nan_is_ieee.

Theorem c19_f64_nan_unordered : forall a b, a < two64 -> b < two64 ->
  f64_nan a = true \/ f64_nan b = true ->
  Bcompare 53 1024 (b64_of_bits (Z.of_N a)) (b64_of_bits (Z.of_N b)) = None.
Proof. exact f64_nan_Bcompare. Qed.
Print Assumptions c19_f64_nan_unordered.

(* the byte order of the encoded keys is Bcompare on the decoded doubles *)
Theorem c19_f64_key_order_is_ieee : forall a b c, a < two64 -> b < two64 ->
  f64_nan a = false -> f64_nan b = false ->
  (lex_compare (enc_f64 a) (enc_f64 b) = c <->
   Bcompare 53 1024 (b64_of_bits (Z.of_N a)) (b64_of_bits (Z.of_N b)) = Some c).
Proof. exact enc_f64_Bcompare. Qed.
Print Assumptions c19_f64_key_order_is_ieee.

(* the real-number reading, for finite values *)
Theorem c19_f64_finite_is_ieee : forall a, a < two64 ->
  f64_finite a = is_finite 53 1024 (b64_of_bits (Z.of_N a)).
Proof. exact f64_finite_is_finite. Qed.
Print Assumptions c19_f64_finite_is_ieee.

Theorem c19_f64_ord_is_real_order : forall a b, a < two64 -> b < two64 ->
  f64_finite a = true -> f64_finite b = true ->
  Rcompare (B2R 53 1024 (b64_of_bits (Z.of_N a))) (B2R 53 1024 (b64_of_bits (Z.of_N b)))
  = Z.compare (f64_ord a) (f64_ord b).
Proof. exact f64_ord_Rcompare. Qed.
Print Assumptions c19_f64_ord_is_real_order.

(* the hypotheses are satisfiable by non-trivial data, and Flocq computes the same *)
(* -0.0 (0x8000..) vs +0.0 *)
Example ex_zeros : Bcompare 53 1024 (b64_of_bits (Z.of_N two63)) (b64_of_bits 0) = Some Eq
  /\ f64_eq two63 0 = true /\ f64_nan two63 = false.
Proof. vm_compute. repeat split. Qed.
(* -1.0 (0xBFF0..) < smallest subnormal (1) < 1.0 (0x3FF0..) < +inf (0x7FF0..) *)
Example ex_chain :
  Bcompare 53 1024 (b64_of_bits 13830554455654793216) (b64_of_bits 1) = Some Lt /\
  Bcompare 53 1024 (b64_of_bits 1) (b64_of_bits 4607182418800017408) = Some Lt /\
  Bcompare 53 1024 (b64_of_bits 4607182418800017408) (b64_of_bits 9218868437227405312) = Some Lt /\
  f64_lt 13830554455654793216 1 = true /\ f64_lt 1 4607182418800017408 = true /\
  f64_lt 4607182418800017408 9218868437227405312 = true /\
  f64_nan 13830554455654793216 = false /\ f64_nan 9218868437227405312 = false /\
  f64_finite 9218868437227405312 = false /\ f64_finite 1 = true.
Proof. vm_compute. repeat split. Qed.
(* a NaN (0x7FF8..) *)
Example ex_nan : f64_nan 9221120237041090560 = true /\
  is_nan 53 1024 (b64_of_bits 9221120237041090560) = true /\
  Bcompare 53 1024 (b64_of_bits 9221120237041090560) (b64_of_bits 0) = None.
Proof. vm_compute. repeat split. Qed.
