(* Bytes.v -- byte strings as lists of N, lexicographic order, fixed-width
   big/little-endian encodings with round-trip and order-embedding lemmas.
   Shared by C19 (encodings), C02 (range scans), C01 (keys). *)
From Coq Require Import List NArith ZArith Lia Bool Arith.
From Coq Require Import ZifyBool ZifyN ZifyNat.
Import ListNotations.
Open Scope N_scope.

Ltac divmod_lia := let H := fresh in (Z.div_mod_to_equations; lia) || (zify; Z.div_mod_to_equations; lia).

Definition bytes := list N.

Definition is_byte (b : N) : Prop := b < 256.
Definition all_bytes (l : bytes) : Prop := Forall is_byte l.

(* ------------------------------------------------------------------ *)
(* Lexicographic comparison = Go's bytes.Compare / string comparison   *)

Fixpoint lex_compare (a b : bytes) : comparison :=
  match a, b with
  | [], [] => Eq
  | [], _ :: _ => Lt
  | _ :: _, [] => Gt
  | x :: a', y :: b' =>
      match N.compare x y with
      | Eq => lex_compare a' b'
      | c => c
      end
  end.

Definition lex_lt (a b : bytes) : bool :=
  match lex_compare a b with Lt => true | _ => false end.
Definition lex_le (a b : bytes) : bool :=
  match lex_compare a b with Gt => false | _ => true end.
Definition bytes_eqb (a b : bytes) : bool :=
  match lex_compare a b with Eq => true | _ => false end.

Lemma lex_compare_refl a : lex_compare a a = Eq.
Proof. induction a as [|x a IH]; cbn; [reflexivity|]. rewrite N.compare_refl. exact IH. Qed.

Lemma lex_compare_eq a b : lex_compare a b = Eq <-> a = b.
Proof.
  revert b; induction a as [|x a IH]; intros [|y b]; cbn; try (split; congruence).
  destruct (N.compare_spec x y) as [E|L|G].
  - subst. rewrite IH. split; congruence.
  - split; [discriminate|]. intros H; inversion H; lia.
  - split; [discriminate|]. intros H; inversion H; lia.
Qed.

Lemma lex_compare_antisym a b : lex_compare b a = CompOpp (lex_compare a b).
Proof.
  revert b; induction a as [|x a IH]; intros [|y b]; cbn; try reflexivity.
  rewrite (N.compare_antisym x y).
  destruct (N.compare x y); cbn; auto.
Qed.

Lemma lex_compare_trans_lt a b c :
  lex_compare a b = Lt -> lex_compare b c = Lt -> lex_compare a c = Lt.
Proof.
  revert b c; induction a as [|x a IH]; intros [|y b] [|z c]; cbn; try congruence.
  destruct (N.compare_spec x y) as [E|L|G]; try discriminate;
  destruct (N.compare_spec y z) as [E'|L'|G']; try discriminate; intros H1 H2.
  - subst. rewrite N.compare_refl. eauto.
  - subst. destruct (N.compare_spec y z); try lia; reflexivity.
  - subst. destruct (N.compare_spec x z); try lia; reflexivity.
  - destruct (N.compare_spec x z); try lia; reflexivity.
Qed.

Lemma bytes_eqb_eq a b : bytes_eqb a b = true <-> a = b.
Proof.
  unfold bytes_eqb. rewrite <- lex_compare_eq.
  destruct (lex_compare a b); split; congruence.
Qed.

Lemma lex_lt_irrefl a : lex_lt a a = false.
Proof. unfold lex_lt. now rewrite lex_compare_refl. Qed.

Lemma lex_lt_trans a b c : lex_lt a b = true -> lex_lt b c = true -> lex_lt a c = true.
Proof.
  unfold lex_lt. destruct (lex_compare a b) eqn:E1; try discriminate.
  destruct (lex_compare b c) eqn:E2; try discriminate. intros _ _.
  now rewrite (lex_compare_trans_lt _ _ _ E1 E2).
Qed.

Lemma lex_total a b : lex_lt a b = true \/ a = b \/ lex_lt b a = true.
Proof.
  unfold lex_lt. rewrite (lex_compare_antisym a b).
  destruct (lex_compare a b) eqn:E; cbn; auto.
  right; left. now apply lex_compare_eq.
Qed.

Lemma lex_le_lt_or_eq a b : lex_le a b = true <-> (lex_lt a b = true \/ a = b).
Proof.
  unfold lex_le, lex_lt. destruct (lex_compare a b) eqn:E; split; intros H; auto; try discriminate.
  - right. now apply lex_compare_eq.
  - destruct H as [H|H]; [discriminate|]. apply lex_compare_eq in H. congruence.
Qed.

Lemma lex_le_not_lt a b : lex_le a b = negb (lex_lt b a).
Proof.
  unfold lex_le, lex_lt. rewrite (lex_compare_antisym a b).
  destruct (lex_compare a b); reflexivity.
Qed.

(* prefix *)
Fixpoint is_prefix (p k : bytes) : bool :=
  match p, k with
  | [], _ => true
  | _ :: _, [] => false
  | x :: p', y :: k' => (x =? y) && is_prefix p' k'
  end.

Lemma is_prefix_spec p k : is_prefix p k = true <-> exists r, k = p ++ r.
Proof.
  revert k; induction p as [|x p IH]; intros k; cbn.
  - split; [eauto|reflexivity].
  - destruct k as [|y k].
    + split; [discriminate|]. intros [r H]; discriminate.
    + rewrite andb_true_iff, N.eqb_eq, IH. split.
      * intros [-> [r ->]]. eauto.
      * intros [r H]. inversion H; subst. eauto.
Qed.

(* ------------------------------------------------------------------ *)
(* Big-endian fixed width (binary.BigEndian.PutUint64 for k = 8)       *)

Fixpoint be (k : nat) (n : N) : bytes :=
  match k with
  | O => []
  | S k' => (n / 256 ^ N.of_nat k') mod 256 :: be k' (n mod 256 ^ N.of_nat k')
  end.

Definition unbe (l : bytes) : N := fold_left (fun acc b => acc * 256 + b) l 0.

Lemma be_length k n : length (be k n) = k.
Proof. revert n; induction k as [|k IH]; intros n; cbn [be length]; [reflexivity|]. now rewrite IH. Qed.

Lemma be_all_bytes k n : all_bytes (be k n).
Proof.
  revert n; induction k as [|k IH]; intros n; cbn [be]; constructor.
  - unfold is_byte. apply N.mod_lt. lia.
  - apply IH.
Qed.

Lemma pow256_pos k : 0 < 256 ^ k.
Proof. apply N.neq_0_lt_0. apply N.pow_nonzero. lia. Qed.

Lemma pow256_S k : 256 ^ N.of_nat (S k) = 256 * 256 ^ N.of_nat k.
Proof. rewrite Nnat.Nat2N.inj_succ. now rewrite N.pow_succ_r'. Qed.

Lemma unbe_acc l acc :
  fold_left (fun acc b => acc * 256 + b) l acc = acc * 256 ^ N.of_nat (length l) + unbe l.
Proof.
  unfold unbe. revert acc; induction l as [|b l IH]; intros acc.
  - cbn. lia.
  - cbn [fold_left length]. rewrite IH. rewrite (IH (0 * 256 + b)).
    rewrite pow256_S. lia.
Qed.

Lemma unbe_cons b l : unbe (b :: l) = b * 256 ^ N.of_nat (length l) + unbe l.
Proof. unfold unbe at 1. cbn [fold_left]. rewrite unbe_acc. lia. Qed.

Lemma unbe_be k n : n < 256 ^ N.of_nat k -> unbe (be k n) = n.
Proof.
  revert n; induction k as [|k IH]; intros n Hn.
  - cbn in *. lia.
  - cbn [be]. rewrite unbe_cons, be_length.
    set (d := 256 ^ N.of_nat k) in *.
    assert (Hd : 0 < d) by apply pow256_pos.
    rewrite IH by (apply N.mod_lt; lia).
    rewrite pow256_S in Hn. fold d in Hn.
    assert (Hq : n / d < 256) by (apply N.div_lt_upper_bound; lia).
    rewrite (N.mod_small (n / d) 256) by exact Hq.
    pose proof (N.div_mod n d ltac:(lia)). lia.
Qed.

Lemma be_compare k n m :
  n < 256 ^ N.of_nat k -> m < 256 ^ N.of_nat k ->
  lex_compare (be k n) (be k m) = N.compare n m.
Proof.
  revert n m; induction k as [|k IH]; intros n m Hn Hm.
  - cbn in *. assert (n = 0) by lia. assert (m = 0) by lia. subst. reflexivity.
  - cbn [be lex_compare].
    set (d := 256 ^ N.of_nat k) in *.
    assert (Hd : 0 < d) by apply pow256_pos.
    rewrite pow256_S in Hn, Hm. fold d in Hn, Hm.
    assert (Hqn : n / d < 256) by (apply N.div_lt_upper_bound; lia).
    assert (Hqm : m / d < 256) by (apply N.div_lt_upper_bound; lia).
    rewrite (N.mod_small (n / d) 256), (N.mod_small (m / d) 256) by assumption.
    pose proof (N.div_mod n d ltac:(lia)) as En.
    pose proof (N.div_mod m d ltac:(lia)) as Em.
    pose proof (N.mod_lt n d ltac:(lia)) as Rn.
    pose proof (N.mod_lt m d ltac:(lia)) as Rm.
    destruct (N.compare_spec (n / d) (m / d)) as [E|L|G].
    + rewrite IH by assumption.
      destruct (N.compare_spec (n mod d) (m mod d)) as [E'|L'|G'];
        symmetry; [apply N.compare_eq_iff | apply N.compare_lt_iff | apply N.compare_gt_iff]; nia.
    + symmetry; apply N.compare_lt_iff. nia.
    + symmetry; apply N.compare_gt_iff. nia.
Qed.

Lemma be_inj k n m :
  n < 256 ^ N.of_nat k -> m < 256 ^ N.of_nat k -> be k n = be k m -> n = m.
Proof.
  intros Hn Hm E. apply N.compare_eq_iff. rewrite <- (be_compare k) by assumption.
  rewrite E. apply lex_compare_refl.
Qed.

Lemma be_lt_iff k n m :
  n < 256 ^ N.of_nat k -> m < 256 ^ N.of_nat k ->
  (lex_lt (be k n) (be k m) = true <-> n < m).
Proof.
  intros Hn Hm. unfold lex_lt. rewrite be_compare by assumption.
  rewrite <- N.compare_lt_iff. destruct (n ?= m); split; congruence.
Qed.

(* ------------------------------------------------------------------ *)
(* Little-endian fixed width (binary.LittleEndian.PutUint64/32)        *)

Fixpoint le (k : nat) (n : N) : bytes :=
  match k with
  | O => []
  | S k' => n mod 256 :: le k' (n / 256)
  end.

Fixpoint unle (l : bytes) : N :=
  match l with
  | [] => 0
  | b :: r => b + 256 * unle r
  end.

Lemma le_length k n : length (le k n) = k.
Proof. revert n; induction k as [|k IH]; intros n; cbn [le length]; [reflexivity|]. now rewrite IH. Qed.

Lemma le_all_bytes k n : all_bytes (le k n).
Proof.
  revert n; induction k as [|k IH]; intros n; cbn [le]; constructor.
  - unfold is_byte. apply N.mod_lt. lia.
  - apply IH.
Qed.

Lemma unle_le k n : n < 256 ^ N.of_nat k -> unle (le k n) = n.
Proof.
  revert n; induction k as [|k IH]; intros n Hn.
  - cbn in *. lia.
  - cbn [le unle]. rewrite pow256_S in Hn.
    rewrite IH by (apply N.div_lt_upper_bound; lia).
    pose proof (N.div_mod n 256 ltac:(lia)). lia.
Qed.

Lemma le_inj k n m :
  n < 256 ^ N.of_nat k -> m < 256 ^ N.of_nat k -> le k n = le k m -> n = m.
Proof. intros Hn Hm E. rewrite <- (unle_le k n Hn), <- (unle_le k m Hm). now rewrite E. Qed.

Lemma unle_bound l : all_bytes l -> unle l < 256 ^ N.of_nat (length l).
Proof.
  induction 1 as [|b l Hb _ IH]; cbn [unle length].
  - cbn. lia.
  - rewrite pow256_S. unfold is_byte in Hb. lia.
Qed.

Lemma le_unle l : all_bytes l -> le (length l) (unle l) = l.
Proof.
  induction 1 as [|b l Hb Hl IH]; cbn [unle length le]; [reflexivity|].
  unfold is_byte in Hb.
  assert (E1 : (b + 256 * unle l) mod 256 = b) by divmod_lia.
  assert (E2 : (b + 256 * unle l) / 256 = unle l) by divmod_lia.
  rewrite E1, E2. now rewrite IH.
Qed.

(* ------------------------------------------------------------------ *)
(* Lists of fixed-width little-endian words (vectors, edge lists)      *)

Definition enc_words (w : nat) (xs : list N) : bytes := flat_map (le w) xs.

Fixpoint chunks (n w : nat) (b : bytes) : list bytes :=
  match n with
  | O => []
  | S n' => firstn w b :: chunks n' w (skipn w b)
  end.

(* Go: make([]T, len(b)/w); element i decoded from b[i*w:] *)
Definition dec_words (w : nat) (b : bytes) : list N :=
  map unle (chunks (length b / w) w b).

Lemma enc_words_length w xs : length (enc_words w xs) = (w * length xs)%nat.
Proof.
  induction xs as [|x xs IH]; cbn [enc_words flat_map length]; [lia|].
  rewrite app_length, le_length. fold (enc_words w xs). rewrite IH. lia.
Qed.

Lemma chunks_enc_words w xs :
  chunks (length xs) w (enc_words w xs) = map (le w) xs.
Proof.
  induction xs as [|x xs IH]; cbn [length chunks enc_words flat_map map]; [reflexivity|].
  fold (enc_words w xs).
  rewrite firstn_app, skipn_app, le_length, Nat.sub_diag.
  rewrite firstn_all2 by (rewrite le_length; lia).
  rewrite skipn_all2 by (rewrite le_length; lia).
  cbn [firstn skipn app]. rewrite app_nil_r. now rewrite IH.
Qed.

Lemma dec_enc_words w xs :
  (0 < w)%nat -> Forall (fun x => x < 256 ^ N.of_nat w) xs ->
  dec_words w (enc_words w xs) = xs.
Proof.
  intros Hw Hx. unfold dec_words. rewrite enc_words_length.
  rewrite Nat.mul_comm, Nat.div_mul by lia.
  rewrite chunks_enc_words, map_map.
  induction Hx as [|x xs Hx _ IH]; cbn [map]; [reflexivity|].
  now rewrite unle_le, IH.
Qed.

Lemma enc_words_inj w xs ys :
  (0 < w)%nat ->
  Forall (fun x => x < 256 ^ N.of_nat w) xs -> Forall (fun x => x < 256 ^ N.of_nat w) ys ->
  enc_words w xs = enc_words w ys -> xs = ys.
Proof.
  intros Hw Hx Hy E.
  rewrite <- (dec_enc_words w xs Hw Hx), <- (dec_enc_words w ys Hw Hy). now rewrite E.
Qed.

(* hex helpers used by generated case files: a byte string is written as a
   list of N literals, nothing to decode. *)
