(* Run_C15.v -- verdict functions evaluated on the observations the harness
   recorded from the real code.  Codes: 0 OK; 1xx the observation violates the
   property itself (SPECFAIL, judged by the verified checker check_dist or by
   the quota arithmetic on observed numbers only); 2xx the code differs from
   the mechanism model (MISMATCH). *)
From Coq Require Import List NArith ZArith Bool Arith.
From Semadb Require Import Model_C15.
Import ListNotations.
Open Scope N_scope.

Definition first_fail (l : list (bool * N)) : N :=
  fold_right (fun (p : bool * N) acc => if fst p then acc else snd p) 0 l.

Inductive c15case :=
(* one call of distributePoints: existing shards (Size, PointCount), point sizes
   (len(Data)+16), the two limits; observed = (index in the final shard list,
   start, end) sorted by index; created = number of createShardFn calls *)
| CDist (shards : list (Z * Z)) (sizes : list Z) (maxSize maxCount : Z)
        (observed : list (N * N * N)) (created : N)
(* one ClusterNode.InsertPoints on a live node: totals from GetShardsInfo *)
| CInsert (totalBefore n quota : Z) (refused : bool) (totalAfter failedPoints : Z)
(* one ClusterNode.CreateCollection: number of collections of the user before/after *)
| CCreate (count maxc : Z) (existed refusedQuota refusedExists : bool) (countAfter : Z)
(* point counts of all shards of a collection after an insert *)
| CShardCounts (counts : list Z) (maxCount : Z)
(* an insert of ONE point whose id is already stored in the shard its range is assigned to: the range must be
   reported failed and the total must not move *)
| CDupInsert (totalBefore totalAfter failedPoints : Z)
(* the total reported by the shards against the number of sent ids that are found, each looked up on its own *)
| CStored (reported stored : Z)
(* one accepted ClusterNode.InsertPoints without failed ranges on a live node: the shards before the request
   (Size, PointCount as GetShardsInfo reports them), the sizes of the points in id-sorted order, the limits, and for
   every shard of the collection afterwards (in the order of its shard list) the positions IN THE ID-SORTED BATCH of
   the batch points stored there, ascending (each shard asked directly) *)
| CLive (shards : list (Z * Z)) (sizes : list Z) (maxSize maxCount : Z) (stored : list (list N)).

Definition to_assignment (t : N * N * N) : assignment :=
  (N.to_nat (fst (fst t)), N.to_nat (snd (fst t)), N.to_nat (snd t)).

Definition asg_eqb (a b : assignment) : bool :=
  (a_idx a =? a_idx b)%nat && (a_start a =? a_start b)%nat && (a_end a =? a_end b)%nat.
Fixpoint asgs_eqb (a b : list assignment) : bool :=
  match a, b with
  | [], [] => true
  | x :: a', y :: b' => asg_eqb x y && asgs_eqb a' b'
  | _, _ => false
  end.

Definition model_eqb (m : option (list assignment * nat)) (out : list assignment) (created : nat) : bool :=
  match m with
  | Some (o, c) => asgs_eqb o out && (c =? created)%nat
  | None => false
  end.

Fixpoint listN_eqb (a b : list N) : bool :=
  match a, b with
  | [], [] => true
  | x :: a', y :: b' => (x =? y) && listN_eqb a' b'
  | _, _ => false
  end.
Definition live_model_b (shards : list (Z * Z)) (sizes : list Z) (maxS maxC : Z) (stored : list (list N)) : bool :=
  match distribute shards sizes maxS maxC with
  | Some (out, created) =>
      (length stored =? length shards + created)%nat &&
      forallb (fun i => listN_eqb (nth i stored []) (model_stored out i)) (seq 0 (length stored))
  | None => false
  end.

Definition verdict (c : c15case) : N :=
  match c with
  | CDist shards sizes maxS maxC observed created =>
      let out := map to_assignment observed in
      let cr := N.to_nat created in
      first_fail
        [ (partition_b (length shards + cr) (length sizes) out, 101);
          (limits_b (final_shards shards cr) sizes maxS maxC out, 102);
          (fresh_b shards sizes maxS maxC out cr, 103);
          (model_eqb (distribute shards sizes maxS maxC) out cr, 201) ]
  | CInsert total n quota refused totalAfter failed =>
      first_fail
        [ (Bool.eqb refused (insert_refused total n quota), 111);
          (if refused then (totalAfter =? total)%Z else true, 112);
          (if refused then true else (totalAfter =? total + n - failed)%Z, 113) ]
  | CCreate count maxc existed refusedQuota refusedExists countAfter =>
      let r := create_collection count maxc existed in
      first_fail
        [ (Bool.eqb refusedExists (match r with CrExists => true | _ => false end) &&
           Bool.eqb refusedQuota (match r with CrQuota => true | _ => false end), 121);
          ((countAfter =? (if refusedExists || refusedQuota then count else count + 1))%Z, 122) ]
  | CShardCounts counts maxC =>
      first_fail [ (forallb (fun x => (x <=? maxC)%Z) counts, 131) ]
  | CDupInsert before after failed =>
      first_fail [ ((failed =? 1)%Z, 114); ((after =? before)%Z, 115) ]
  | CStored reported stored =>
      first_fail [ ((reported =? stored)%Z, 116) ]
  | CLive shards sizes maxS maxC stored =>
      first_fail [ (live_ranges_b (length sizes) stored, 117);
                   (live_model_b shards sizes maxS maxC stored, 202) ]
  end.

Fixpoint bad_from (i : N) (cs : list c15case) : list (N * N) :=
  match cs with
  | [] => []
  | c :: r => let v := verdict c in
              if v =? 0 then bad_from (i + 1) r else (i, v) :: bad_from (i + 1) r
  end.
Definition bad (cs : list c15case) : list (N * N) := bad_from 0 cs.
