(* Run_C01.v -- verdict for C01: replay the recorded history on the reference
   spec S and compare outputs, count and the full live documents after every
   batch; check the reads by id; judge the dumped buckets with the verified
   checker (dump_inv_b / dump_abs); replay the mechanism model M with the node
   ids the real code chose and compare its buckets with the dump.

   Verdict = 0 or code + 1000 * (1 + step index):
     101 batch output (error kind / reported ids) differs from S
     102 Info().PointCount differs from |S|
     103 the live documents (select-all read) differ from S
     104 a read by id does not return exactly the live requested points with their documents
     105 a read by id answered with an error
     111 the dumped buckets violate the invariant (dump_inv_b)
     112 the store the dumped buckets represent (dump_abs) differs from the live documents
     211 the dumped buckets differ from the buckets of M
     212 a node id the real code chose is not a legal choice of the allocator model *)
From Coq Require Import List NArith ZArith Bool.
From Semadb Require Import Bytes Pack Value Obs KeyLayout Model_C01 Model_C01M.
Import ListNotations.
Open Scope N_scope.

(* ---- reads by id with select ["*"] ---- *)
Definition sel_star : list bytes := [[42]].
Definition read_ids (q : query) : option (list uuid) :=
  match q with QIdEq id => Some [id] | QIdAny ids => Some ids | _ => None end.

Definition check_read (s : store) (rq : request * qout) : N :=
  let '(r, out) := rq in
  match read_ids (rq_query r) with
  | None => 0
  | Some ids =>
      if negb (list_eqb bytes_eqb (rq_select r) sel_star) then 0
      else if negb ((rq_offset r =? 0) && (rq_limit r =? 0)) then 0
      else match rq_sort r with
           | _ :: _ => 0
           | [] =>
               match out with
               | QError _ => 105
               | QRows rows =>
                   let expected := filter (fun id => st_mem id s) (dedup ids) in
                   if has_dup (map r_id rows) then 104
                   else if negb (same_ids (map r_id rows) expected) then 104
                   else if negb (forallb (fun rw => match r_doc rw, st_get (r_id rw) s with
                                                   | Some d, Some d' => doc_eqb d d'
                                                   | _, _ => false
                                                   end) rows) then 104
                   else 0
               end
           end
  end.
Fixpoint check_reads (s : store) (qs : list (request * qout)) : N :=
  match qs with
  | [] => 0
  | q :: r => let c := check_read s q in if c =? 0 then check_reads s r else c
  end.

(* ---- the dump of a step ---- *)
Definition name_points : bytes := points_bucket_name.
Definition name_internal : bytes := [105; 110; 116; 101; 114; 110; 97; 108].
Fixpoint find_bucket (name : bytes) (xs : list extra) : option (list (bytes * bytes)) :=
  match xs with
  | [] => None
  | XBucket n kvs :: r => if bytes_eqb n name then Some kvs else find_bucket name r
  | _ :: r => find_bucket name r
  end.
Fixpoint find_docs (name : bytes) (xs : list extra) : option (list (bytes * doc)) :=
  match xs with
  | [] => None
  | XDocs n kds :: r => if bytes_eqb n name then Some kds else find_docs name r
  | _ :: r => find_docs name r
  end.
Definition get_dump (xs : list extra) : option dump :=
  match find_bucket name_points xs, find_docs name_points xs, find_bucket name_internal xs with
  | Some p, Some d, Some i => Some (mkDump p d i)
  | _, _, _ => None
  end.

(* the node ids the real code gave the points of an accepted insert batch *)
Definition choices_of (b : batch) (o : bout) (d : dump) : list N :=
  match b, o with
  | BInsert ps, OOk _ => map (fun p => match raw_get (fst p) (dump_pts d) with Some n => n | None => 0 end) ps
  | _, _ => []
  end.

(* cfg 4 is the in-memory backend: it has no transactions, so a batch that fails
   INSIDE the write (existing id, wrong type, oversized merge) is not rolled back.
   "A failed batch has no effect" on that backend is the subject of C07, and the
   generator is meant not to produce such batches there; if one occurs its error
   kind is still judged (101) and the judging of the history ends with that step. *)
Definition in_tx_reject (m : sout) : bool :=
  match m with SErr ks => negb (forallb (N.eqb ERR_DUP) ks) | SOk _ => false end.

(* returns 0 or code + 1000 * (1 + step index) *)
Fixpoint judge_steps (sc : schema) (maxsize cfg : N) (i : N) (steps : list step) (s : store)
         (om : option mstate) : N :=
  match steps with
  | [] => 0
  | st :: rest =>
      match s_out st with
      | OCrash _ => 0          (* the process died: judged by C07/C09, nothing to compare here *)
      | o =>
          let '(s', m) := apply_spec sc maxsize (s_batch st) s in
          if negb (out_ok o m) then 101 + 1000 * (i + 1)
          else if ((cfg =? 4) || (cfg =? 5)) && in_tx_reject m then 0
          else if negb (s_count st =? N.of_nat (length s')) then 102 + 1000 * (i + 1)
          else if negb (store_eqb (s_live st) s') then 103 + 1000 * (i + 1)
          else
            let c := check_reads s' (s_queries st) in
            if negb (c =? 0) then c + 1000 * (i + 1)
            else
              match get_dump (s_extra st) with
              | None => judge_steps sc maxsize cfg (i + 1) rest s' None   (* no dump: M is not followed further *)
              | Some d =>
                  if negb (dump_inv_b d) then 111 + 1000 * (i + 1)
                  else if negb (store_eqb (dump_abs d) (s_live st)) then 112 + 1000 * (i + 1)
                  else
                    match om with
                    | None => judge_steps sc maxsize cfg (i + 1) rest s' None
                    | Some m0 =>
                        match m_apply sc maxsize (s_batch st) (choices_of (s_batch st) o d) m0 with
                        | None => 212 + 1000 * (i + 1)
                        | Some (m1, _) =>
                            if dump_matches_b d m1 then judge_steps sc maxsize cfg (i + 1) rest s' (Some m1)
                            else 211 + 1000 * (i + 1)
                        end
                    end
              end
      end
  end.

Definition verdict (h : hist) : N :=
  judge_steps (h_schema h) (h_maxsize h) (h_cfg h) 0 (h_steps h) [] (Some m_init).

Fixpoint bad_from (i : N) (cs : list hist) : list (N * N) :=
  match cs with
  | [] => []
  | c :: r => let v := verdict c in
              if v =? 0 then bad_from (i + 1) r else (i, v) :: bad_from (i + 1) r
  end.
Definition bad (cs : list hist) : list (N * N) := bad_from 0 cs.
