(* Run_C01.v -- verdict for C01: replay the recorded history on the reference
   spec and compare outputs, count and the full live documents after every batch. *)
From Coq Require Import List NArith ZArith Bool.
From Semadb Require Import Bytes Pack Value Obs KeyLayout Model_C01.
Import ListNotations.
Open Scope N_scope.

(* returns 0 or code + 1000 * (1 + step index) *)
Fixpoint judge_steps (sc : schema) (maxsize : N) (i : N) (steps : list step) (s : store) : N :=
  match steps with
  | [] => 0
  | st :: rest =>
      match s_out st with
      | OCrash _ => 0          (* the process died: judged by C07/C09, nothing to compare here *)
      | o =>
          let '(s', m) := apply_spec sc maxsize (s_batch st) s in
          if negb (out_ok o m) then 101 + 1000 * (i + 1)
          else if negb (s_count st =? N.of_nat (length s')) then 102 + 1000 * (i + 1)
          else if negb (store_eqb (s_live st) s') then 103 + 1000 * (i + 1)
          else judge_steps sc maxsize (i + 1) rest s'
      end
  end.

Definition verdict (h : hist) : N := judge_steps (h_schema h) (h_maxsize h) 0 (h_steps h) [].

Fixpoint bad_from (i : N) (cs : list hist) : list (N * N) :=
  match cs with
  | [] => []
  | c :: r => let v := verdict c in
              if v =? 0 then bad_from (i + 1) r else (i, v) :: bad_from (i + 1) r
  end.
Definition bad (cs : list hist) : list (N * N) := bad_from 0 cs.
