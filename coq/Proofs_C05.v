(* Proofs_C05.v -- lemmas for property C05 (text search). *)
From Coq Require Import List NArith ZArith QArith Qabs Bool Lia Permutation Sorted Lqa.
From Coq Require Import ZifyBool ZifyN ZifyNat.
From Semadb Require Import Bytes Value Obs Dyadic Model_C01 Model_C02 Model_C04 Model_C05 Model_C05M.
Import ListNotations.
Open Scope N_scope.

(* ------------------------------------------------------------------------- *)
(* byte-string equality                                                       *)
Lemma beq_refl k : bytes_eqb k k = true.
Proof. now apply bytes_eqb_eq. Qed.
Lemma beq_neq a b : bytes_eqb a b = false <-> a <> b.
Proof. rewrite <- bytes_eqb_eq. destruct (bytes_eqb a b); split; congruence. Qed.
Lemma beq_sym a b : bytes_eqb a b = bytes_eqb b a.
Proof.
  destruct (bytes_eqb a b) eqn:E.
  - apply bytes_eqb_eq in E. subst. symmetry. apply beq_refl.
  - symmetry. apply beq_neq. apply beq_neq in E. congruence.
Qed.
Lemma beq_dec (a b : bytes) : {a = b} + {a <> b}.
Proof. destruct (bytes_eqb a b) eqn:E; [left; now apply bytes_eqb_eq|right; now apply beq_neq]. Qed.

Lemma mem_In x l : mem_bytes x l = true <-> In x l.
Proof.
  unfold mem_bytes. rewrite existsb_exists. split.
  - intros [y [Hy E]]. apply bytes_eqb_eq in E. now subst.
  - intros H. exists x. split; [exact H|apply beq_refl].
Qed.
Lemma mem_nIn x l : mem_bytes x l = false <-> ~ In x l.
Proof. rewrite <- mem_In. destruct (mem_bytes x l); split; congruence. Qed.
Lemma mem_cons x a l : mem_bytes x (a :: l) = bytes_eqb x a || mem_bytes x l.
Proof. reflexivity. Qed.
Lemma mem_ext l1 l2 : (forall x, mem_bytes x l1 = mem_bytes x l2) <-> (forall x, In x l1 <-> In x l2).
Proof.
  split; intros H x.
  - now rewrite <- !mem_In, H.
  - destruct (mem_bytes x l1) eqn:E1, (mem_bytes x l2) eqn:E2; try reflexivity.
    + apply mem_In, H, mem_In in E1. congruence.
    + apply mem_In, H, mem_In in E2. congruence.
Qed.

(* ------------------------------------------------------------------------- *)
(* association lists                                                          *)
Lemma al_get_put {V} k k' (v : V) l :
  al_get k' (al_put k v l) = if bytes_eqb k' k then Some v else al_get k' l.
Proof.
  induction l as [|[k0 v0] l IH]; cbn.
  - reflexivity.
  - destruct (bytes_eqb k k0) eqn:E; cbn.
    + apply bytes_eqb_eq in E. subst k0. now destruct (bytes_eqb k' k).
    + rewrite IH. destruct (bytes_eqb k' k0) eqn:E0; [|reflexivity].
      apply bytes_eqb_eq in E0. subst k0. now rewrite beq_sym, E.
Qed.
Lemma al_get_del {V} k k' (l : list (bytes * V)) :
  al_get k' (al_del k l) = if bytes_eqb k' k then None else al_get k' l.
Proof.
  unfold al_del. induction l as [|[k0 v0] l IH]; cbn.
  - now destruct (bytes_eqb k' k).
  - destruct (bytes_eqb k k0) eqn:E; cbn.
    + apply bytes_eqb_eq in E. subst k0. rewrite IH. now destruct (bytes_eqb k' k).
    + rewrite IH. destruct (bytes_eqb k' k0) eqn:E0; [|reflexivity].
      apply bytes_eqb_eq in E0. subst k0. now rewrite beq_sym, E.
Qed.
Lemma al_get_In {V} k (v : V) l : al_get k l = Some v -> In (k, v) l.
Proof.
  induction l as [|[k0 v0] l IH]; cbn; [discriminate|].
  destruct (bytes_eqb k k0) eqn:E.
  - apply bytes_eqb_eq in E. subst. intros H; inversion H. now left.
  - intros H. right. now apply IH.
Qed.
Lemma al_get_None {V} k (l : list (bytes * V)) : al_get k l = None <-> ~ In k (map fst l).
Proof.
  induction l as [|[k0 v0] l IH]; cbn; [tauto|].
  destruct (bytes_eqb k k0) eqn:E.
  - apply bytes_eqb_eq in E. subst. split; [discriminate|]. intros H. exfalso. apply H. now left.
  - apply beq_neq in E. rewrite IH. split; [intros H [H1|H1]; [congruence|tauto]|tauto].
Qed.
Lemma In_al_get {V} k (v : V) l : NoDup (map fst l) -> In (k, v) l -> al_get k l = Some v.
Proof.
  induction l as [|[k0 v0] l IH]; cbn; [tauto|].
  intros Hnd [H|H].
  - inversion H; subst. now rewrite beq_refl.
  - inversion Hnd as [|? ? Hn Hnd']; subst. destruct (bytes_eqb k k0) eqn:E.
    + apply bytes_eqb_eq in E. subst. exfalso. apply Hn. change k0 with (fst (k0, v)). now apply in_map.
    + now apply IH.
Qed.
Lemma al_put_keys {V} k (v : V) l :
  map fst (al_put k v l) = if al_has k l then map fst l else map fst l ++ [k].
Proof.
  unfold al_has. induction l as [|[k0 v0] l IH]; cbn; [reflexivity|].
  destruct (bytes_eqb k k0) eqn:E; cbn; [reflexivity|].
  rewrite IH. now destruct (al_get k l).
Qed.
Lemma NoDup_snoc {A} (k : A) l : NoDup l -> ~ In k l -> NoDup (l ++ [k]).
Proof.
  intros H1 H2. eapply Permutation_NoDup; [apply Permutation_cons_append|]. now constructor.
Qed.
Lemma al_put_NoDup {V} k (v : V) l : NoDup (map fst l) -> NoDup (map fst (al_put k v l)).
Proof.
  intros H. rewrite al_put_keys. unfold al_has. destruct (al_get k l) eqn:E; [exact H|].
  apply al_get_None in E. now apply NoDup_snoc.
Qed.
Lemma al_del_keys {V} k (l : list (bytes * V)) :
  map fst (al_del k l) = filter (fun x => negb (bytes_eqb k x)) (map fst l).
Proof.
  unfold al_del. induction l as [|[k0 v0] l IH]; cbn; [reflexivity|].
  destruct (bytes_eqb k k0); cbn; now rewrite IH.
Qed.
Lemma NoDup_filter_c5 {A} (f : A -> bool) l : NoDup l -> NoDup (filter f l).
Proof.
  induction 1 as [|x l Hn Hnd IH]; cbn; [constructor|].
  destruct (f x); [constructor; [|exact IH]|exact IH].
  intros H. apply filter_In in H. tauto.
Qed.
Lemma al_del_NoDup {V} k (l : list (bytes * V)) : NoDup (map fst l) -> NoDup (map fst (al_del k l)).
Proof. intros H. rewrite al_del_keys. now apply NoDup_filter_c5. Qed.
Lemma al_put_length {V} k (v : V) l :
  length (al_put k v l) = if al_has k l then length l else S (length l).
Proof.
  unfold al_has. induction l as [|[k0 v0] l IH]; cbn; [reflexivity|].
  destruct (bytes_eqb k k0) eqn:E; cbn; [reflexivity|]. rewrite IH. now destruct (al_get k l).
Qed.
Lemma filter_none_length {A} (f : A -> bool) l : (forall x, In x l -> f x = true) -> filter f l = l.
Proof.
  induction l as [|x l IH]; cbn; [reflexivity|]. intros H.
  rewrite (H x (or_introl eq_refl)). f_equal. apply IH. intros y Hy. apply H. now right.
Qed.
Lemma al_del_length {V} k (l : list (bytes * V)) :
  NoDup (map fst l) -> al_has k l = true -> S (length (al_del k l)) = length l.
Proof.
  unfold al_has, al_del. induction l as [|[k0 v0] l IH]; cbn; [discriminate|].
  intros Hnd. inversion Hnd as [|? ? Hn Hnd']; subst.
  destruct (bytes_eqb k k0) eqn:E; cbn.
  - intros _. apply bytes_eqb_eq in E. subst k0. f_equal. f_equal.
    apply filter_none_length. intros [k1 v1] H1. cbn.
    destruct (bytes_eqb k k1) eqn:E1; [|reflexivity].
    apply bytes_eqb_eq in E1. subst k1. exfalso. apply Hn.
    change k with (fst (k, v1)). now apply in_map.
  - intros H. f_equal. now apply IH.
Qed.

(* ------------------------------------------------------------------------- *)
(* id sets                                                                    *)
Lemma mem_set_add x a s : mem_bytes x (set_add a s) = bytes_eqb x a || mem_bytes x s.
Proof.
  unfold set_add. destruct (mem_bytes a s) eqn:E; [|reflexivity].
  destruct (bytes_eqb x a) eqn:E1; [|reflexivity]. apply bytes_eqb_eq in E1. now subst.
Qed.
Lemma mem_filter x f l : (forall y, bytes_eqb x y = true -> f y = f x) ->
  mem_bytes x (filter f l) = f x && mem_bytes x l.
Proof.
  intros Hf. induction l as [|y l IH]; cbn; [now rewrite andb_false_r|].
  destruct (f y) eqn:Fy; cbn; fold (mem_bytes x (filter f l)); fold (mem_bytes x l); rewrite IH.
  - destruct (bytes_eqb x y) eqn:E; cbn; [|reflexivity]. rewrite <- (Hf y E), Fy. reflexivity.
  - destruct (bytes_eqb x y) eqn:E; cbn; [|reflexivity]. rewrite <- (Hf y E), Fy. reflexivity.
Qed.
Lemma mem_set_remove x a s : mem_bytes x (set_remove a s) = negb (bytes_eqb x a) && mem_bytes x s.
Proof.
  unfold set_remove. apply (mem_filter x (fun y => negb (bytes_eqb y a))).
  intros y E. apply bytes_eqb_eq in E. now subst.
Qed.
Lemma set_add_NoDup a s : NoDup s -> NoDup (set_add a s).
Proof.
  intros H. unfold set_add. destruct (mem_bytes a s) eqn:E; [exact H|].
  constructor; [now apply mem_nIn|exact H].
Qed.
Lemma set_remove_NoDup a s : NoDup s -> NoDup (set_remove a s).
Proof. apply NoDup_filter_c5. Qed.
Lemma mem_inter x a b : mem_bytes x (ids_inter a b) = mem_bytes x a && mem_bytes x b.
Proof.
  unfold ids_inter. rewrite (mem_filter x (fun y => mem_bytes y b)); [apply andb_comm|].
  intros y E. apply bytes_eqb_eq in E. now subst.
Qed.
Lemma mem_app x a b : mem_bytes x (a ++ b) = mem_bytes x a || mem_bytes x b.
Proof. unfold mem_bytes. apply existsb_app. Qed.
Lemma mem_union x a b : mem_bytes x (ids_union a b) = mem_bytes x a || mem_bytes x b.
Proof.
  unfold ids_union. rewrite mem_app, (mem_filter x (fun y => negb (mem_bytes y a))).
  - now destruct (mem_bytes x a), (mem_bytes x b).
  - intros y E. apply bytes_eqb_eq in E. now subst.
Qed.
Lemma inter_NoDup a b : NoDup a -> NoDup (ids_inter a b).
Proof. apply NoDup_filter_c5. Qed.
Lemma NoDup_app_c5 {A} (a b : list A) :
  NoDup a -> NoDup b -> (forall x, In x a -> ~ In x b) -> NoDup (a ++ b).
Proof.
  induction 1 as [|x a Hn Hnd IH]; cbn; intros Hb Hd; [exact Hb|].
  constructor.
  - rewrite in_app_iff. intros [H|H]; [tauto|]. apply (Hd x); [now left|exact H].
  - apply IH; [exact Hb|]. intros y Hy. apply Hd. now right.
Qed.
Lemma union_NoDup a b : NoDup a -> NoDup b -> NoDup (ids_union a b).
Proof.
  intros Ha Hb. unfold ids_union. apply NoDup_app_c5; [exact Ha|now apply NoDup_filter_c5|].
  intros x Hx H. apply filter_In in H. destruct H as [_ H].
  apply mem_In in Hx. now rewrite Hx in H.
Qed.

Lemma mem_fold_inter x r : forall s,
  mem_bytes x (fold_left ids_inter r s) = mem_bytes x s && forallb (mem_bytes x) r.
Proof.
  induction r as [|a r IH]; cbn [fold_left forallb]; intros s; [now rewrite andb_true_r|].
  rewrite IH, mem_inter. now rewrite andb_assoc.
Qed.
Lemma mem_fast_and x sets :
  mem_bytes x (fast_and sets) = match sets with [] => false | _ => forallb (mem_bytes x) sets end.
Proof. destruct sets as [|s r]; [reflexivity|]. cbn [fast_and forallb]. apply mem_fold_inter. Qed.
Lemma mem_fold_union x r : forall s,
  mem_bytes x (fold_left ids_union r s) = mem_bytes x s || existsb (mem_bytes x) r.
Proof.
  induction r as [|a r IH]; cbn [fold_left existsb]; intros s; [now rewrite orb_false_r|].
  rewrite IH, mem_union. now rewrite orb_assoc.
Qed.
Lemma mem_fast_or x sets : mem_bytes x (fast_or sets) = existsb (mem_bytes x) sets.
Proof. unfold fast_or. now rewrite mem_fold_union. Qed.
Lemma fold_inter_NoDup r : forall s, NoDup s -> NoDup (fold_left ids_inter r s).
Proof. induction r as [|a r IH]; cbn; intros s H; [exact H|]. apply IH. now apply inter_NoDup. Qed.
Lemma fast_and_NoDup sets : Forall (@NoDup _) sets -> NoDup (fast_and sets).
Proof.
  destruct sets as [|s r]; cbn; [constructor|]. intros H. inversion H; subst. now apply fold_inter_NoDup.
Qed.
Lemma fold_union_NoDup r : forall s, NoDup s -> Forall (@NoDup _) r -> NoDup (fold_left ids_union r s).
Proof.
  induction r as [|a r IH]; cbn; intros s H Hr; [exact H|]. inversion Hr; subst.
  apply IH; [now apply union_NoDup|assumption].
Qed.
Lemma fast_or_NoDup sets : Forall (@NoDup _) sets -> NoDup (fast_or sets).
Proof. intros H. apply fold_union_NoDup; [constructor|exact H]. Qed.

(* ------------------------------------------------------------------------- *)
(* posting lists                                                              *)
Lemma post_get_put t t' s p :
  post_get t (al_put t' s p) = if bytes_eqb t t' then s else post_get t p.
Proof. unfold post_get. rewrite al_get_put. now destruct (bytes_eqb t t'). Qed.

(* a conditional pointwise update of the sets of the keys of a table, as the
   three loops of processAnalysedDoc do *)
Definition upd_loop {V} (c : bytes -> bool) (f : idset -> idset) (l : list (bytes * V))
           (p : list (bytes * idset)) : list (bytes * idset) :=
  fold_left (fun p tf => if c (fst tf) then p else al_put (fst tf) (f (post_get (fst tf) p)) p) l p.

Lemma upd_loop_get {V} c f (Hf : forall s, f (f s) = f s) (l : list (bytes * V)) : forall p t,
  post_get t (upd_loop c f l p) =
  if al_has t l && negb (c t) then f (post_get t p) else post_get t p.
Proof.
  unfold upd_loop, al_has. induction l as [|[k v] l IH]; cbn; intros p t; [reflexivity|].
  rewrite IH. destruct (bytes_eqb t k) eqn:E.
  - apply bytes_eqb_eq in E. subst k. cbn. destruct (c t) eqn:Ct; cbn.
    + now rewrite andb_false_r.
    + rewrite post_get_put, beq_refl. destruct (al_get t l); cbn; [apply Hf|reflexivity].
  - destruct (c k); [reflexivity|]. now rewrite post_get_put, E.
Qed.
Lemma upd_loop_keys {V} c f (l : list (bytes * V)) : forall p,
  NoDup (map fst p) -> NoDup (map fst (upd_loop c f l p)).
Proof.
  unfold upd_loop. induction l as [|[k v] l IH]; cbn; intros p H; [exact H|].
  apply IH. destruct (c k); [exact H|]. now apply al_put_NoDup.
Qed.

(* count_terms *)
Lemma count_terms_acc toks : forall m t,
  tab_get t (fold_left (fun m t => al_put t (tab_get t m + 1) m) toks m) = tab_get t m + freq t toks.
Proof.
  unfold freq. induction toks as [|a toks IH]; cbn; intros m t; [lia|].
  rewrite IH. unfold tab_get at 1. rewrite al_get_put.
  destruct (bytes_eqb t a) eqn:E; cbn.
  - apply bytes_eqb_eq in E. subst a. lia.
  - fold (tab_get t m). lia.
Qed.
Lemma count_terms_freq toks t : tab_get t (count_terms toks) = freq t toks.
Proof. unfold count_terms. now rewrite count_terms_acc. Qed.
Lemma count_terms_has_acc toks : forall m t,
  al_has t (fold_left (fun m t => al_put t (tab_get t m + 1) m) toks m) = al_has t m || mem_bytes t toks.
Proof.
  induction toks as [|a toks IH]; cbn; intros m t; [now rewrite orb_false_r|].
  rewrite IH. unfold al_has at 1. rewrite al_get_put. fold (mem_bytes t toks).
  destruct (bytes_eqb t a) eqn:E; cbn; [now rewrite orb_true_r|]. reflexivity.
Qed.
Lemma count_terms_has toks t : al_has t (count_terms toks) = mem_bytes t toks.
Proof. unfold count_terms. now rewrite count_terms_has_acc. Qed.
Lemma count_terms_keys_acc toks : forall m,
  NoDup (map fst m) -> NoDup (map fst (fold_left (fun m t => al_put t (tab_get t m + 1) m) toks m)).
Proof. induction toks as [|a toks IH]; cbn; intros m H; [exact H|]. apply IH. now apply al_put_NoDup. Qed.
Lemma count_terms_keys toks : NoDup (map fst (count_terms toks)).
Proof. apply count_terms_keys_acc. constructor. Qed.
Lemma freq_pos t toks : (0 <? freq t toks) = mem_bytes t toks.
Proof.
  unfold freq. induction toks as [|a toks IH]; cbn; [reflexivity|].
  destruct (bytes_eqb t a); cbn; [lia|]. exact IH.
Qed.
(* ------------------------------------------------------------------------- *)
(* the invariant: the state is the one derived from the current token lists   *)
Definition upd_tok (tok : uuid -> list bytes) (ch : uuid * list bytes) : uuid -> list bytes :=
  fun x => if bytes_eqb x (fst ch) then snd ch else tok x.

Record Inv (st : tindex) (tok : uuid -> list bytes) : Prop := mkInv {
  inv_mem : forall t id, mem_bytes id (post_get t (ti_post st)) = mem_bytes t (tok id);
  inv_nd : forall t, NoDup (post_get t (ti_post st));
  inv_pk : NoDup (map fst (ti_post st));
  inv_docs : forall id, al_get id (ti_docs st) =
               match tok id with [] => None | _ => Some (count_terms (tok id), N.of_nat (length (tok id))) end;
  inv_dk : NoDup (map fst (ti_docs st));
  inv_num : ti_num st = N.of_nat (length (ti_docs st)) }.

Lemma Inv_ext st tok tok' : (forall x, tok x = tok' x) -> Inv st tok -> Inv st tok'.
Proof.
  intros E [H1 H2 H3 H4 H5 H6]. constructor; auto.
  - intros t id. now rewrite <- E.
  - intros id. now rewrite <- E.
Qed.

Lemma Inv_empty : Inv ti_empty (fun _ => []).
Proof. constructor; cbn; auto; constructor. Qed.

Lemma set_add_idem id s : set_add id (set_add id s) = set_add id s.
Proof.
  unfold set_add. destruct (mem_bytes id s) eqn:E; [now rewrite E|].
  now rewrite mem_cons, beq_refl.
Qed.
Lemma filter_idem {A} (f : A -> bool) l : filter f (filter f l) = filter f l.
Proof.
  induction l as [|x l IH]; cbn; [reflexivity|]. destruct (f x) eqn:E; cbn; [rewrite E; now f_equal|exact IH].
Qed.
Lemma set_remove_idem id s : set_remove id (set_remove id s) = set_remove id s.
Proof. apply filter_idem. Qed.

Lemma len_is_zero (toks : list bytes) :
  (N.of_nat (length toks) =? 0) = match toks with [] => true | _ => false end.
Proof. destruct toks; cbn [length]; [reflexivity|]. apply N.eqb_neq. lia. Qed.

Lemma process_doc_inv st tok ch : Inv st tok -> Inv (process_doc st ch) (upd_tok tok ch).
Proof.
  intros [Hm Hn Hpk Hd Hdk Hnum]. destruct ch as [id toks].
  assert (Hold := Hd id).
  unfold process_doc. rewrite len_is_zero.
  destruct (tok id) as [|a0 l0] eqn:Told; rewrite Hold.
  - destruct toks as [|a l].
    + (* skip *)
      apply (Inv_ext st tok); [|now constructor].
      intros x. unfold upd_tok. cbn [fst snd]. destruct (bytes_eqb x id) eqn:E; [|reflexivity].
      apply bytes_eqb_eq in E. now subst.
    + (* insert *)
      set (toks := a :: l) in *.
      change (fold_left (fun p tf => post_add id (fst tf) p) (count_terms toks) (ti_post st))
        with (upd_loop (fun _ => false) (set_add id) (count_terms toks) (ti_post st)).
      constructor; cbn [ti_post ti_docs ti_num].
      * intros t id'. rewrite (upd_loop_get _ _ (set_add_idem id)), count_terms_has.
        unfold upd_tok. cbn [fst snd negb]. rewrite andb_true_r.
        destruct (bytes_eqb id' id) eqn:E.
        -- apply bytes_eqb_eq in E. subst id'.
           destruct (mem_bytes t toks) eqn:Mt; [now rewrite mem_set_add, beq_refl|].
           now rewrite Hm, Told.
        -- destruct (mem_bytes t toks); [rewrite mem_set_add, E|]; apply Hm.
      * intros t. rewrite (upd_loop_get _ _ (set_add_idem id)).
        destruct (_ && _); [apply set_add_NoDup|]; apply Hn.
      * now apply upd_loop_keys.
      * intros id'. rewrite al_get_put. unfold upd_tok. cbn [fst snd].
        destruct (bytes_eqb id' id); [reflexivity|apply Hd].
      * now apply al_put_NoDup.
      * rewrite al_put_length. unfold al_has. rewrite Hold, Hnum. unfold u64_inc. cbn iota. rewrite Nat2N.inj_succ. apply N.add_1_r.
  - set (otoks := a0 :: l0) in *.
    assert (Hhas : al_has id (ti_docs st) = true) by (unfold al_has; now rewrite Hold).
    destruct toks as [|a l].
    + (* delete *)
      cbv iota beta.
      change (fold_left (fun p tf => post_remove id (fst tf) p) (count_terms otoks) (ti_post st))
        with (upd_loop (fun _ => false) (set_remove id) (count_terms otoks) (ti_post st)).
      constructor; cbn [ti_post ti_docs ti_num].
      * intros t id'. rewrite (upd_loop_get _ _ (set_remove_idem id)), count_terms_has.
        unfold upd_tok. cbn [fst snd negb]. rewrite andb_true_r.
        destruct (bytes_eqb id' id) eqn:E.
        -- apply bytes_eqb_eq in E. subst id'.
           destruct (mem_bytes t otoks) eqn:Mt; [now rewrite mem_set_remove, beq_refl|].
           now rewrite Hm, Told, Mt.
        -- destruct (mem_bytes t otoks); [rewrite mem_set_remove, E|]; apply Hm.
      * intros t. rewrite (upd_loop_get _ _ (set_remove_idem id)).
        destruct (_ && _); [apply set_remove_NoDup|]; apply Hn.
      * now apply upd_loop_keys.
      * intros id'. rewrite al_get_del. unfold upd_tok. cbn [fst snd].
        destruct (bytes_eqb id' id); [reflexivity|apply Hd].
      * now apply al_del_NoDup.
      * pose proof (al_del_length id (ti_docs st) Hdk Hhas) as HL.
        assert (HL' : ti_num st = N.succ (N.of_nat (length (al_del id (ti_docs st))))).
        { rewrite Hnum, <- Nat2N.inj_succ. f_equal. symmetry. exact HL. }
        unfold u64_dec. rewrite HL'.
        destruct (N.succ _ =? 0) eqn:Z; [apply N.eqb_eq in Z; now apply N.neq_succ_0 in Z|].
        now rewrite N.sub_1_r, N.pred_succ.
    + (* update *)
      cbv iota beta.
      set (toks := a :: l) in *.
      change (fold_left (fun p tf => if al_has (fst tf) (count_terms toks) then p else post_remove id (fst tf) p)
                (count_terms otoks) (ti_post st))
        with (upd_loop (fun t => al_has t (count_terms toks)) (set_remove id) (count_terms otoks) (ti_post st)).
      match goal with |- Inv (mkTI (fold_left _ _ ?p1) _ _) _ =>
        change (fold_left (fun p tf => if al_has (fst tf) (count_terms otoks) then p else post_add id (fst tf) p)
                  (count_terms toks) p1)
          with (upd_loop (fun t => al_has t (count_terms otoks)) (set_add id) (count_terms toks) p1) end.
      constructor; cbn [ti_post ti_docs ti_num].
      * intros t id'. rewrite (upd_loop_get _ _ (set_add_idem id)), (upd_loop_get _ _ (set_remove_idem id)).
        rewrite !count_terms_has.
        unfold upd_tok. cbn [fst snd].
        destruct (bytes_eqb id' id) eqn:E.
        -- apply bytes_eqb_eq in E. subst id'.
           pose proof (Hm t id) as Hmt. rewrite Told in Hmt.
           destruct (mem_bytes t toks) eqn:Mt, (mem_bytes t otoks) eqn:Mo; cbn [andb negb];
             rewrite ?mem_set_add, ?mem_set_remove, ?beq_refl, ?Hmt; reflexivity.
        -- destruct (mem_bytes t toks) eqn:Mt, (mem_bytes t otoks) eqn:Mo; cbn [andb negb];
             rewrite ?mem_set_add, ?mem_set_remove, ?E; cbn [orb andb negb]; apply Hm.
      * intros t. rewrite (upd_loop_get _ _ (set_add_idem id)), (upd_loop_get _ _ (set_remove_idem id)).
        destruct (_ && _); [apply set_add_NoDup|]; (destruct (_ && _); [apply set_remove_NoDup|]; apply Hn).
      * now apply upd_loop_keys, upd_loop_keys.
      * intros id'. rewrite al_get_put. unfold upd_tok. cbn [fst snd].
        destruct (bytes_eqb id' id); [reflexivity|apply Hd].
      * now apply al_put_NoDup.
      * rewrite al_put_length, Hhas. exact Hnum.
Qed.

(* flush drops the empty sets and changes no lookup *)
Lemma al_get_filter_nonempty t (p : list (bytes * idset)) :
  NoDup (map fst p) ->
  post_get t (filter (fun kv => negb (set_is_empty (snd kv))) p) = post_get t p.
Proof.
  unfold post_get. induction p as [|[k s] p IH]; cbn; [reflexivity|].
  intros Hnd. inversion Hnd as [|? ? Hn Hnd']; subst.
  destruct s as [|x s]; cbn.
  - destruct (bytes_eqb t k) eqn:E; [|now apply IH].
    apply bytes_eqb_eq in E. subst k.
    assert (H0 : al_get t (filter (fun kv : bytes * idset => negb (set_is_empty (snd kv))) p) = None).
    { apply al_get_None. intros H. apply Hn. apply in_map_iff in H. destruct H as [[k1 s1] [E1 H1]].
      apply filter_In in H1. cbn in E1. subst k1. change t with (fst (t, s1)). apply in_map. tauto. }
    now rewrite H0.
  - destruct (bytes_eqb t k); [reflexivity|now apply IH].
Qed.
Lemma filter_keys_NoDup {V} (f : bytes * V -> bool) l : NoDup (map fst l) -> NoDup (map fst (filter f l)).
Proof.
  induction l as [|[k v] l IH]; cbn; [constructor|]. intros H. inversion H as [|? ? Hn Hnd]; subst.
  destruct (f (k, v)); cbn; [constructor|]; auto.
  intros Hin. apply Hn. apply in_map_iff in Hin. destruct Hin as [x [E Hx]]. apply filter_In in Hx.
  rewrite <- E. apply in_map. tauto.
Qed.
Lemma flush_inv st tok : Inv st tok -> Inv (flush st) tok.
Proof.
  intros [Hm Hn Hpk Hd Hdk Hnum]. constructor; cbn [flush ti_post ti_docs ti_num]; auto.
  - intros t id. rewrite al_get_filter_nonempty; auto.
  - intros t. rewrite al_get_filter_nonempty; auto.
  - now apply filter_keys_NoDup.
Qed.
Lemma flush_no_empty st t s : In (t, s) (ti_post (flush st)) -> s <> [].
Proof.
  cbn. intros H. apply filter_In in H. destruct H as [_ H]. cbn in H. now destruct s.
Qed.

Definition upd_batch (tok : uuid -> list bytes) (b : batch_c) : uuid -> list bytes := fold_left upd_tok b tok.

Lemma process_batch_inv b : forall st tok, Inv st tok -> Inv (fold_left process_doc b st) (upd_batch tok b).
Proof.
  unfold upd_batch. induction b as [|ch b IH]; cbn; intros st tok H; [exact H|].
  apply IH. now apply process_doc_inv.
Qed.
Lemma apply_batch_inv b st tok : Inv st tok -> Inv (apply_batch st b) (upd_batch tok b).
Proof. intros H. apply flush_inv. now apply process_batch_inv. Qed.

Definition upd_hist (tok : uuid -> list bytes) (h : list batch_c) : uuid -> list bytes := fold_left upd_batch h tok.
Lemma run_from_inv h : forall st tok, Inv st tok -> Inv (fold_left apply_batch h st) (upd_hist tok h).
Proof.
  unfold upd_hist. induction h as [|b h IH]; cbn; intros st tok H; [exact H|].
  apply IH. now apply apply_batch_inv.
Qed.

(* the token lists after a history are the last change of every id *)
Lemma al_get_app {V} k (l1 l2 : list (bytes * V)) :
  al_get k (l1 ++ l2) = match al_get k l1 with Some v => Some v | None => al_get k l2 end.
Proof.
  induction l1 as [|[k0 v0] l1 IH]; cbn; [reflexivity|]. now destruct (bytes_eqb k k0).
Qed.
Lemma upd_batch_last b : forall tok x,
  upd_batch tok b x = match al_get x (rev b) with Some v => v | None => tok x end.
Proof.
  unfold upd_batch. induction b as [|[id toks] b IH]; cbn [fold_left rev]; intros tok x; [reflexivity|].
  rewrite IH, al_get_app. destruct (al_get x (rev b)); [reflexivity|].
  unfold upd_tok. cbn. now destruct (bytes_eqb x id).
Qed.
Lemma upd_hist_last h : forall tok x,
  upd_hist tok h x = match al_get x (rev (concat h)) with Some v => v | None => tok x end.
Proof.
  unfold upd_hist. induction h as [|b h IH]; cbn [fold_left concat]; intros tok x; [reflexivity|].
  rewrite IH, rev_app_distr, al_get_app. destruct (al_get x (rev (concat h))); [reflexivity|].
  apply upd_batch_last.
Qed.
Lemma run_hist_inv h : Inv (run_hist h) (cur_tokens h).
Proof.
  apply (Inv_ext _ (upd_hist (fun _ => []) h)).
  - intros x. now rewrite upd_hist_last.
  - apply run_from_inv, Inv_empty.
Qed.
(* every history ends with a flush (or is empty): no empty posting set is stored *)
Lemma run_hist_no_empty h t s : In (t, s) (ti_post (run_hist h)) -> s <> [].
Proof.
  unfold run_hist. destruct (rev h) as [|b r] eqn:E.
  - apply (f_equal (@rev _)) in E. rewrite rev_involutive in E. subst h. cbn. tauto.
  - apply (f_equal (@rev _)) in E. rewrite rev_involutive in E. subst h. cbn [rev].
    rewrite fold_left_app. cbn [fold_left]. apply flush_no_empty.
Qed.

(* ------------------------------------------------------------------------- *)
(* from token functions to corpora (lists of Model_C05.tdoc)                   *)
Lemma find_doc_Some id c d : find_doc id c = Some d -> In d c /\ td_id d = id.
Proof.
  induction c as [|d0 c IH]; cbn; [discriminate|].
  destruct (bytes_eqb id (td_id d0)) eqn:E.
  - intros H; inversion H; subst. apply bytes_eqb_eq in E. auto.
  - intros H. destruct (IH H). auto.
Qed.
Lemma find_doc_None id c : find_doc id c = None -> ~ In id (map td_id c).
Proof.
  induction c as [|d0 c IH]; cbn; [tauto|].
  destruct (bytes_eqb id (td_id d0)) eqn:E; [discriminate|].
  apply beq_neq in E. intros H [H1|H1]; [congruence|now apply IH].
Qed.
Lemma corpus_rep_find c tok id : corpus_rep c tok ->
  find_doc id c = match tok id with [] => None | _ => Some (mkTdoc id (tok id)) end.
Proof.
  intros [Hnd Hc]. destruct (find_doc id c) as [d|] eqn:F.
  - destruct (find_doc_Some _ _ _ F) as [Hin Hid]. destruct d as [i toks]. cbn in Hid. subst i.
    apply Hc in Hin. destruct Hin as [Hne Ht]. rewrite Ht. now destruct toks.
  - apply find_doc_None in F. destruct (tok id) as [|a l] eqn:T; [reflexivity|].
    exfalso. apply F. change id with (td_id (mkTdoc id (a :: l))). apply in_map. apply Hc.
    split; [discriminate|exact T].
Qed.
Lemma corpus_rep_mem c tok : corpus_rep c tok ->
  forall d, In d c -> tok (td_id d) = td_tokens d /\ td_tokens d <> [].
Proof. intros [_ Hc] [i toks] H. apply Hc in H. cbn. tauto. Qed.
Lemma corpus_rep_In_id c tok id : corpus_rep c tok -> (In id (map td_id c) <-> tok id <> []).
Proof.
  intros Hr. split.
  - intros H. apply in_map_iff in H. destruct H as [d [E H]]. subst id.
    destruct (corpus_rep_mem _ _ Hr d H) as [H1 H2]. now rewrite H1.
  - intros H. change id with (td_id (mkTdoc id (tok id))). apply in_map. now apply Hr.
Qed.
Lemma NoDup_map_filter {A B} (g : A -> B) (f : A -> bool) l : NoDup (map g l) -> NoDup (map g (filter f l)).
Proof.
  induction l as [|x l IH]; cbn; [constructor|]. intros H. inversion H as [|? ? Hn Hnd]; subst.
  destruct (f x); cbn; [constructor|]; auto.
  intros Hin. apply Hn. apply in_map_iff in Hin. destruct Hin as [y [E Hy]]. apply filter_In in Hy.
  rewrite <- E. apply in_map. tauto.
Qed.

Section Derived.
  Variables (st : tindex) (tok : uuid -> list bytes) (c : list tdoc).
  Hypothesis HI : Inv st tok.
  Hypothesis HR : corpus_rep c tok.

  Lemma post_members t id :
    In id (post_get t (ti_post st)) <-> exists d, In d c /\ td_id d = id /\ In t (td_tokens d).
  Proof.
    rewrite <- mem_In, (inv_mem _ _ HI), mem_In. split.
    - intros H. exists (mkTdoc id (tok id)). cbn. repeat split; auto.
      apply HR. split; [|reflexivity]. intros E. now rewrite E in H.
    - intros [d [Hd [E H]]]. subst id. now rewrite (proj1 (corpus_rep_mem _ _ HR d Hd)).
  Qed.
  Lemma post_perm t :
    Permutation (post_get t (ti_post st)) (map td_id (filter (fun d => mem_bytes t (td_tokens d)) c)).
  Proof.
    apply NoDup_Permutation.
    - apply (inv_nd _ _ HI).
    - apply NoDup_map_filter, HR.
    - intros id. rewrite post_members, in_map_iff. split.
      + intros [d [Hd [E H]]]. exists d. split; [exact E|]. apply filter_In. split; [exact Hd|now apply mem_In].
      + intros [d [E H]]. apply filter_In in H. exists d. rewrite mem_In in H. tauto.
  Qed.
  Lemma post_card t : N.of_nat (length (post_get t (ti_post st))) = doc_freq t c.
  Proof. unfold doc_freq. now rewrite (Permutation_length (post_perm t)), map_length. Qed.
  Lemma docs_derived id :
    al_get id (ti_docs st) =
    match find_doc id c with
    | Some d => Some (count_terms (td_tokens d), N.of_nat (length (td_tokens d)))
    | None => None
    end.
  Proof. rewrite (inv_docs _ _ HI), (corpus_rep_find _ _ id HR). now destruct (tok id). Qed.
  Lemma num_derived : ti_num st = N.of_nat (length c).
  Proof.
    rewrite (inv_num _ _ HI). f_equal.
    rewrite <- (map_length fst (ti_docs st)), <- (map_length td_id c).
    apply Permutation_length, NoDup_Permutation; [apply (inv_dk _ _ HI)|apply HR|].
    intros id. rewrite (corpus_rep_In_id _ _ id HR).
    pose proof (inv_docs _ _ HI id) as Hd. split.
    - intros H E. rewrite E in Hd. now apply al_get_None in Hd.
    - intros H. destruct (in_dec beq_dec id (map fst (ti_docs st))) as [Hin|Hn]; [exact Hin|].
      apply al_get_None in Hn. rewrite Hn in Hd. now destruct (tok id).
  Qed.
End Derived.

(* the corpus of a history exists: corpus_of_hist *)
Lemma dedup_b_In x l : In x (dedup_b l) <-> In x l.
Proof.
  induction l as [|a l IH]; cbn; [tauto|].
  destruct (mem_bytes a l) eqn:E.
  - rewrite IH. split; [tauto|]. intros [H|H]; [subst; now apply mem_In|exact H].
  - cbn. now rewrite IH.
Qed.
Lemma dedup_b_NoDup l : NoDup (dedup_b l).
Proof.
  induction l as [|a l IH]; cbn; [constructor|].
  destruct (mem_bytes a l) eqn:E; [exact IH|]. constructor; [|exact IH].
  rewrite dedup_b_In. now apply mem_nIn.
Qed.
Lemma al_get_Some_key {V} k (v : V) l : al_get k l = Some v -> In k (map fst l).
Proof. intros H. apply al_get_In in H. change k with (fst (k, v)). now apply in_map. Qed.
Lemma corpus_of_hist_rep h : corpus_rep (corpus_of_hist h) (cur_tokens h).
Proof.
  unfold corpus_of_hist.
  assert (Hdom : forall id, cur_tokens h id <> [] -> In id (dedup_b (map fst (concat h)))).
  { intros id H. apply dedup_b_In. unfold cur_tokens in H.
    destruct (al_get id (rev (concat h))) eqn:E; [|congruence].
    apply al_get_Some_key in E. rewrite map_rev in E. now apply in_rev in E. }
  pose proof (dedup_b_NoDup (map fst (concat h))) as Hnd.
  revert Hdom Hnd. generalize (dedup_b (map fst (concat h))) as ids. generalize (cur_tokens h) as tok.
  intros tok ids Hdom Hnd.
  set (g := fun id : bytes => match tok id with [] => [] | _ :: _ => [mkTdoc id (tok id)] end).
  assert (Hg : forall i id toks, In (mkTdoc id toks) (g i) <-> i = id /\ toks = tok id /\ tok id <> []).
  { intros i id toks. unfold g. destruct (tok i) as [|a l] eqn:T; cbn.
    - split; [tauto|]. intros [E [_ H]]. subst i. congruence.
    - split.
      + intros [H|[]]. inversion H; subst. rewrite T. repeat split; congruence.
      + intros [E [E2 _]]. subst i toks. left. now rewrite T. }
  change (corpus_rep (flat_map g ids) tok). split; cbn [map].
  - assert (Hm : map td_id (flat_map g ids) = filter (fun id => match tok id with [] => false | _ => true end) ids).
    { clear Hdom Hnd. induction ids as [|x ids IH]; cbn; [reflexivity|].
      rewrite map_app, IH. unfold g. now destruct (tok x). }
    rewrite Hm. now apply NoDup_filter_c5.
  - intros id toks. rewrite in_flat_map. split.
    + intros [i [Hi H]]. apply Hg in H. destruct H as [E [E2 Hne]]. subst. tauto.
    + intros [Hne E]. subst toks. exists id. split; [now apply Hdom|]. apply Hg. tauto.
Qed.

(* ------------------------------------------------------------------------- *)
(* Search: the match set                                                      *)
Lemma forallb_map {A B} (f : B -> bool) (g : A -> B) l : forallb f (map g l) = forallb (fun x => f (g x)) l.
Proof. induction l as [|x l IH]; cbn; [reflexivity|now rewrite IH]. Qed.
Lemma existsb_map {A B} (f : B -> bool) (g : A -> B) l : existsb f (map g l) = existsb (fun x => f (g x)) l.
Proof. induction l as [|x l IH]; cbn; [reflexivity|now rewrite IH]. Qed.
Lemma forallb_ext {A} (f g : A -> bool) l : (forall x, f x = g x) -> forallb f l = forallb g l.
Proof. intros H. induction l as [|x l IH]; cbn; [reflexivity|now rewrite H, IH]. Qed.
Lemma existsb_ext {A} (f g : A -> bool) l : (forall x, f x = g x) -> existsb f l = existsb g l.
Proof. intros H. induction l as [|x l IH]; cbn; [reflexivity|now rewrite H, IH]. Qed.

Lemma matchM_mem st tok op terms filt id : Inv st tok ->
  mem_bytes id (matchM op terms filt st) =
  text_matches op (dedup_b terms) (mkTdoc id (tok id)) &&
  match filt with None => true | Some f => mem_bytes id f end.
Proof.
  intros HI. unfold matchM, text_matches, term_sets. cbv zeta. cbn [td_tokens].
  set (ut := dedup_b terms).
  set (fs := if op =? OP_ALL then fast_and _ else fast_or _).
  assert (E : mem_bytes id fs =
              match ut with [] => false | _ =>
                if op =? OP_ALL then forallb (fun t => mem_bytes t (tok id)) ut
                else existsb (fun t => mem_bytes t (tok id)) ut end).
  { subst fs. destruct (op =? OP_ALL).
    - rewrite mem_fast_and, forallb_map.
      rewrite (forallb_ext _ (fun t => mem_bytes t (tok id))) by (intros t; apply (inv_mem _ _ HI)).
      now destruct ut.
    - rewrite mem_fast_or, existsb_map.
      rewrite (existsb_ext _ (fun t => mem_bytes t (tok id))) by (intros t; apply (inv_mem _ _ HI)).
      now destruct ut. }
  destruct filt as [f|]; [rewrite mem_inter|rewrite andb_true_r]; now rewrite E.
Qed.
Lemma matchM_NoDup st tok op terms filt : Inv st tok -> NoDup (matchM op terms filt st).
Proof.
  intros HI. unfold matchM, term_sets. cbv zeta.
  assert (HF : Forall (@NoDup _) (map (fun t => post_get t (ti_post st)) (dedup_b terms))).
  { apply Forall_forall. intros s Hs. apply in_map_iff in Hs. destruct Hs as [t [E _]]. subst s.
    apply (inv_nd _ _ HI). }
  set (fs := if op =? OP_ALL then fast_and _ else fast_or _).
  assert (H : NoDup fs).
  { subst fs. destruct (op =? OP_ALL); [now apply fast_and_NoDup|now apply fast_or_NoDup]. }
  destruct filt; [now apply inter_NoDup|exact H].
Qed.
Lemma text_matches_no_tokens op ut id : text_matches op ut (mkTdoc id []) = false.
Proof.
  unfold text_matches. cbn [td_tokens]. destruct ut as [|a l]; [reflexivity|].
  destruct (op =? OP_ALL); cbn; [reflexivity|].
  induction l as [|b l IH]; cbn; [reflexivity|exact IH].
Qed.


Lemma match_exact st tok c op terms filt allowed :
  Inv st tok -> corpus_rep c tok -> allowed_ok filt allowed c ->
  NoDup (matchM op terms filt st) /\
  Permutation (matchM op terms filt st)
    (map td_id (filter (fun d => text_matches op (dedup_b terms) d && mem_bytes (td_id d) allowed) c)).
Proof.
  intros HI HR HA. split; [now apply (matchM_NoDup st tok)|].
  apply NoDup_Permutation; [now apply (matchM_NoDup st tok)|apply NoDup_map_filter, HR|].
  intros id. rewrite <- mem_In, (matchM_mem st tok) by exact HI. rewrite in_map_iff. split.
  - intros H. apply andb_true_iff in H. destruct H as [H1 H2].
    assert (Hne : tok id <> []). { intros E. rewrite E, text_matches_no_tokens in H1. discriminate. }
    exists (mkTdoc id (tok id)). split; [reflexivity|].
    assert (Hin : In (mkTdoc id (tok id)) c) by (apply HR; tauto).
    apply filter_In. split; [exact Hin|]. rewrite H1. cbn.
    unfold allowed_ok in HA. destruct filt as [f|]; [now rewrite HA|now apply (HA _ Hin)].
  - intros [d [E H]]. apply filter_In in H. destruct H as [Hin H]. subst id.
    apply andb_true_iff in H. destruct H as [H1 H2].
    destruct (corpus_rep_mem _ _ HR d Hin) as [Ht _]. rewrite Ht.
    destruct d as [i toks]. cbn [td_id td_tokens] in *. rewrite H1. cbn.
    unfold allowed_ok in HA. destruct filt as [f|]; [now rewrite <- HA|reflexivity].
Qed.

(* a query that analyses to zero terms matches nothing, for both operators *)
Lemma matchM_zero_terms op filt st : matchM op [] filt st = [].
Proof.
  unfold matchM. cbn. destruct (op =? OP_ALL); destruct filt; reflexivity.
Qed.
Lemma dedup_b_nil l : dedup_b l = [] <-> l = [].
Proof.
  split; [|intros; now subst]. intros H. destruct l as [|a l]; [reflexivity|].
  assert (Hin : In a (dedup_b (a :: l))) by (apply dedup_b_In; now left). rewrite H in Hin. destruct Hin.
Qed.

(* ------------------------------------------------------------------------- *)
(* the integers handed to the scoring formula                                 *)
Lemma components st tok c uterms d :
  Inv st tok -> corpus_rep c tok -> In d c ->
  comps_of st uterms (td_id d) =
  Some (map (fun t => (freq t (td_tokens d), N.of_nat (length (td_tokens d)),
                       N.of_nat (length c), doc_freq t c)) uterms).
Proof.
  intros HI HR Hin. unfold comps_of.
  rewrite (docs_derived st tok c HI HR), (corpus_rep_find _ _ (td_id d) HR).
  destruct (corpus_rep_mem _ _ HR d Hin) as [Ht Hne]. rewrite Ht.
  destruct d as [i toks]. cbn [td_id td_tokens] in *.
  destruct toks as [|a l]; [congruence|]. f_equal. apply map_ext. intros t.
  now rewrite count_terms_freq, (num_derived st tok c HI HR), (post_card st tok c HI HR).
Qed.
Lemma score_ref_comps uterms c logs d :
  score_ref uterms c logs d =
  score_comps logs (map (fun t => (freq t (td_tokens d), N.of_nat (length (td_tokens d)),
                                   N.of_nat (length c), doc_freq t c)) uterms).
Proof.
  unfold score_ref, score_comps. induction uterms as [|t l IH]; cbn [map fold_right]; [reflexivity|].
  now rewrite IH.
Qed.

(* ------------------------------------------------------------------------- *)
(* the cut at limit is a top-limit selection, for every score function        *)

Lemma score_ge_trans score : Relations_1.Transitive (score_ge score).
Proof. intros a b c H1 H2. unfold score_ge in *. eapply Qle_trans; eassumption. Qed.

Lemma SS_firstn {A} (R : A -> A -> Prop) l : StronglySorted R l -> forall n, StronglySorted R (firstn n l).
Proof.
  induction 1 as [|x l HS IH HF]; intros n; destruct n; cbn; try constructor.
  - apply IH.
  - apply Forall_forall. intros y Hy. rewrite Forall_forall in HF. apply HF.
    rewrite <- (firstn_skipn n l). apply in_or_app. now left.
Qed.
Lemma SS_firstn_skipn {A} (R : A -> A -> Prop) l : StronglySorted R l ->
  forall n x y, In x (firstn n l) -> In y (skipn n l) -> R x y.
Proof.
  induction 1 as [|a l HS IH HF]; intros n x y; destruct n; cbn; try tauto.
  intros [Hx|Hx] Hy.
  - subst a. rewrite Forall_forall in HF. apply HF. rewrite <- (firstn_skipn n l). apply in_or_app. now right.
  - now apply (IH n).
Qed.

Lemma searchM_rows srt op terms filt limit st :
  (forall l, Permutation (srt l) l) ->
  snd (searchM srt op terms filt limit st) = firstn (N.to_nat limit) (srt (matchM op terms filt st)).
Proof.
  intros Hp. unfold searchM. cbv zeta.
  destruct (limit <? N.of_nat (length (srt (matchM op terms filt st)))) eqn:E; cbn [snd]; [reflexivity|].
  symmetry. apply firstn_all2. apply N.ltb_ge in E. lia.
Qed.
Lemma mem_fold_set_add x l : forall s,
  mem_bytes x (fold_left (fun s id => set_add id s) l s) = mem_bytes x s || mem_bytes x l.
Proof.
  induction l as [|a l IH]; intros s; cbn [fold_left]; [now rewrite orb_false_r|].
  rewrite IH, mem_set_add, mem_cons. now destruct (mem_bytes x s), (bytes_eqb x a).
Qed.
Lemma fold_set_add_NoDup l : forall s, NoDup s -> NoDup (fold_left (fun s id => set_add id s) l s).
Proof. induction l as [|a l IH]; intros s H; cbn; [exact H|]. apply IH. now apply set_add_NoDup. Qed.

Lemma searchM_set srt op terms filt limit st :
  (forall l, Permutation (srt l) l) ->
  forall x, In x (fst (searchM srt op terms filt limit st)) <-> In x (snd (searchM srt op terms filt limit st)).
Proof.
  intros Hp x. unfold searchM. cbv zeta.
  destruct (limit <? N.of_nat (length (srt (matchM op terms filt st)))) eqn:E; cbn [fst snd].
  - rewrite <- !mem_In, mem_fold_set_add. reflexivity.
  - split; intros H; [eapply Permutation_in; [symmetry; apply Hp|exact H]|eapply Permutation_in; [apply Hp|exact H]].
Qed.

Lemma firstn_NoDup {A} n (l : list A) : NoDup l -> NoDup (firstn n l).
Proof.
  intros H. revert n. induction H as [|x l Hn Hnd IH]; intros n; destruct n; cbn; try constructor.
  - intros Hin. apply Hn. rewrite <- (firstn_skipn n l). apply in_or_app. now left.
  - apply IH.
Qed.

Lemma topk (score : uuid -> Q) srt op terms filt limit st :
  (forall l, Permutation (srt l) l /\ Sorted (score_ge score) (srt l)) ->
  let m := matchM op terms filt st in
  let res := snd (searchM srt op terms filt limit st) in
  length res = Nat.min (N.to_nat limit) (length m) /\
  StronglySorted (score_ge score) res /\
  (forall x, In x res -> In x m) /\
  (NoDup m -> NoDup res) /\
  (forall x y, In x m -> ~ In x res -> In y res -> (score x <= score y)%Q).
Proof.
  intros Hs m res.
  assert (Hp : forall l, Permutation (srt l) l) by (intros l; apply Hs).
  assert (Hres : res = firstn (N.to_nat limit) (srt m)) by (apply searchM_rows; exact Hp).
  assert (HSS : StronglySorted (score_ge score) (srt m)).
  { apply Sorted_StronglySorted; [apply score_ge_trans|apply Hs]. }
  rewrite Hres. repeat split.
  - rewrite firstn_length. now rewrite (Permutation_length (Hp m)).
  - now apply SS_firstn.
  - intros x Hx. eapply Permutation_in; [apply Hp|]. rewrite <- (firstn_skipn (N.to_nat limit) (srt m)).
    apply in_or_app. now left.
  - intros Hnd. apply firstn_NoDup. eapply Permutation_NoDup; [symmetry; apply Hp|exact Hnd].
  - intros x y Hx Hnx Hy.
    assert (Hx' : In x (srt m)) by (eapply Permutation_in; [symmetry; apply Hp|exact Hx]).
    rewrite <- (firstn_skipn (N.to_nat limit) (srt m)) in Hx'. apply in_app_or in Hx'.
    destruct Hx' as [Hx'|Hx']; [contradiction|].
    exact (SS_firstn_skipn _ _ HSS _ _ _ Hy Hx').
Qed.

(* ------------------------------------------------------------------------- *)
(* soundness of the checker Model_C05.text_code                               *)
Local Open Scope Q_scope.

Lemma Qabs'_eq x : Qabs' x == Qabs x.
Proof.
  unfold Qabs'. destruct (Qle_bool 0 x) eqn:E.
  - apply Qle_bool_iff in E. symmetry. now apply Qabs_pos.
  - assert (H : x <= 0).
    { apply Qnot_lt_le. intros H. apply Qlt_le_weak in H. apply Qle_bool_iff in H. congruence. }
    symmetry. now apply Qabs_neg.
Qed.


Lemma Qclose_rel_sound tol a b : Qclose_rel tol a b = true -> close_rel tol a b.
Proof.
  unfold Qclose_rel, close_rel. intros H. apply Qle_bool_iff in H.
  destruct (Qle_bool 1 (Qabs' b)) eqn:E.
  - apply Qle_bool_iff in E. left. rewrite !Qabs'_eq in H. rewrite Qabs'_eq in E. tauto.
  - right. rewrite Qabs'_eq in H. split; [|now rewrite Qmult_1_r in H].
    apply Qnot_lt_le. intros H1. apply Qlt_le_weak in H1. rewrite <- Qabs'_eq in H1.
    apply Qle_bool_iff in H1. congruence.
Qed.

Fixpoint cfind (id : uuid) (l : list (uuid * Q)) : option Q :=
  match l with [] => None | (k, v) :: r => if bytes_eqb id k then Some v else cfind id r end.
Lemma cfind_In id s l : cfind id l = Some s -> In (id, s) l.
Proof.
  induction l as [|[k v] l IH]; cbn; [discriminate|].
  destruct (bytes_eqb id k) eqn:E.
  - apply bytes_eqb_eq in E. subst. intros H; inversion H. now left.
  - intros H. right. now apply IH.
Qed.

Lemma nodup_ids_NoDup l : nodup_ids l = true -> NoDup l.
Proof.
  induction l as [|x l IH]; cbn; [constructor|]. intros H. apply andb_true_iff in H. destruct H as [H1 H2].
  constructor; [|now apply IH]. apply mem_nIn. now destruct (mem_bytes x l).
Qed.

Lemma sorted_q_Sorted l : sorted_q l = true -> Sorted Qle l.
Proof.
  induction l as [|x l IH]; [constructor|]. cbn [sorted_q]. destruct l as [|y l].
  - repeat constructor.
  - intros H. apply andb_true_iff in H. destruct H as [H1 H2]. constructor; [now apply IH|].
    constructor. now apply Qle_bool_iff.
Qed.
Lemma SS_app {A} (R : A -> A -> Prop) l1 l2 :
  StronglySorted R l1 -> StronglySorted R l2 -> (forall x y, In x l1 -> In y l2 -> R x y) ->
  StronglySorted R (l1 ++ l2).
Proof.
  induction 1 as [|a l HS IH HF]; cbn; intros H2 Hc; [exact H2|].
  constructor.
  - apply IH; [exact H2|]. intros x y Hx Hy. apply Hc; [now right|exact Hy].
  - apply Forall_forall. intros y Hy. apply in_app_or in Hy. destruct Hy as [Hy|Hy].
    + rewrite Forall_forall in HF. now apply HF.
    + apply Hc; [now left|exact Hy].
Qed.
Lemma SS_rev {A} (R : A -> A -> Prop) l : StronglySorted R l -> StronglySorted (fun a b => R b a) (rev l).
Proof.
  induction 1 as [|a l HS IH HF]; cbn; [constructor|].
  apply SS_app; [exact IH|repeat constructor|].
  intros x y Hx [Hy|[]]. subst y. rewrite Forall_forall in HF. apply HF. now apply in_rev.
Qed.
Lemma Qle_trans' : Relations_1.Transitive Qle.
Proof. intros a b c. apply Qle_trans. Qed.
Lemma sorted_q_rev_desc ss : sorted_q (rev ss) = true -> StronglySorted (fun a b => b <= a) ss.
Proof.
  intros H. apply sorted_q_Sorted in H. apply Sorted_StronglySorted in H; [|apply Qle_trans'].
  apply SS_rev in H. now rewrite rev_involutive in H.
Qed.
Lemma last_is_min ss : StronglySorted (fun a b => b <= a) ss -> forall x, In x ss -> last ss 0 <= x.
Proof.
  induction 1 as [|a l HS IH HF]; [intros x []|].
  intros x Hx. destruct l as [|b l]; [destruct Hx as [Hx|[]]; subst; apply Qle_refl|].
  change (last (a :: b :: l) 0) with (last (b :: l) 0). destruct Hx as [Hx|Hx].
  - subst x. rewrite Forall_forall in HF. apply HF.
    destruct (@exists_last _ (b :: l)) as [l' [z E]]; [discriminate|]. rewrite E, last_last.
    apply in_or_app. right. now left.
  - now apply IH.
Qed.
Lemma slack_mono a b : a <= b -> a + (1 # 10000) * (1 + Qabs a) <= b + (1 # 10000) * (1 + Qabs b).
Proof.
  intros H. apply (Qabs_case a); intros Ha; apply (Qabs_case b); intros Hb; lra.
Qed.



Lemma scores_all_some rows :
  (forall r, In r rows -> row_score r <> None) ->
  map row_score rows = map Some (flat_map (fun r => match row_score r with Some s => [s] | None => [] end) rows).
Proof.
  induction rows as [|r rows IH]; cbn; [reflexivity|]. intros H.
  destruct (row_score r) eqn:E; [|exfalso; apply (H r); [now left|exact E]].
  cbn. f_equal. apply IH. intros r' Hr'. apply H. now right.
Qed.

Lemma text_code_sound limit w cands rows :
  text_code limit w cands rows = 0%N -> text_rows_spec limit w cands rows.
Proof.
  unfold text_code.
  change (fix f (id : uuid) (l : list (uuid * Q)) {struct l} : option Q :=
            match l with [] => None | (k, v) :: r => if bytes_eqb id k then Some v else f id r end) with cfind.
  cbv zeta.
  destruct (nodup_ids (map r_id rows)) eqn:C1; cbn [negb]; [|discriminate].
  destruct (forallb (fun r => match cfind (r_id r) cands with Some _ => true | None => false end) rows) eqn:C2;
    cbn [negb]; [|discriminate].
  destruct (forallb (fun r => match r_score r with Some b => f32_finite b | None => false end) rows) eqn:C3;
    cbn [negb]; [|discriminate].
  destruct (forallb (fun r => match cfind (r_id r) cands, row_score r with
                              | Some s, Some x => Qclose_rel (1 # 10000) x s | _, _ => false end) rows) eqn:C4;
    cbn [negb]; [|discriminate].
  destruct (N.of_nat (length rows) =? N.min limit (N.of_nat (length cands)))%N eqn:C5; cbn [negb]; [|discriminate].
  set (ss := flat_map (fun r => match row_score r with Some s => [s] | None => [] end) rows).
  destruct (sorted_q (rev ss)) eqn:C6; cbn [negb]; [|discriminate].
  match goal with |- (if negb ?b then _ else _) = _ -> _ => destruct b eqn:C7; cbn [negb]; [|discriminate] end.
  match goal with |- (if negb ?b then _ else _) = _ -> _ => destruct b eqn:C8; cbn [negb]; [|discriminate] end.
  match goal with |- (if negb ?b then _ else _) = _ -> _ => destruct b eqn:C9; cbn [negb]; [|discriminate] end.
  intros _.
  rewrite forallb_forall in C2, C3, C4, C7, C8, C9.
  assert (HSS : StronglySorted (fun a b => b <= a) ss) by now apply sorted_q_rev_desc.
  repeat split.
  - now apply nodup_ids_NoDup.
  - intros r Hr. specialize (C3 r Hr). specialize (C4 r Hr). unfold row_score in C4.
    destruct (cfind (r_id r) cands) as [s|] eqn:F; [|discriminate].
    destruct (r_score r) as [b|] eqn:S; [|discriminate]. cbn in C4.
    exists s, b. repeat split; auto. { now apply cfind_In. } now apply Qclose_rel_sound.
  - apply N.eqb_eq in C5. lia.
  - exists ss. repeat split.
    + apply scores_all_some. intros r Hr. specialize (C3 r Hr). unfold row_score.
      destruct (r_score r); [discriminate|discriminate].
    + exact HSS.
    + intros c Hc Hn x Hx. specialize (C7 c Hc). apply orb_true_iff in C7. destruct C7 as [C7|C7].
      * apply mem_In in C7. contradiction.
      * apply Qle_bool_iff in C7. rewrite Qabs'_eq in C7.
        eapply Qle_trans; [exact C7|]. apply slack_mono. now apply last_is_min.
  - intros r x Hr Hx. specialize (C8 r Hr). rewrite Hx in C8. now apply Qclose_rel_sound.
  - intros r Hr. specialize (C9 r Hr). now destruct (r_dist r).
Qed.

(* ------------------------------------------------------------------------- *)
(* packaged statements for Props_C05.v                                        *)
Local Open Scope N_scope.

Lemma index_inv_full (h : list batch_c) (c : list tdoc) :
  corpus_rep c (cur_tokens h) ->
  let st := run_hist h in
  (forall t id, In id (post_get t (ti_post st)) <-> exists d, In d c /\ td_id d = id /\ In t (td_tokens d)) /\
  (forall t, NoDup (post_get t (ti_post st))) /\
  (forall t, N.of_nat (length (post_get t (ti_post st))) = doc_freq t c) /\
  (forall t s, In (t, s) (ti_post st) -> s <> []) /\
  NoDup (map fst (ti_post st)) /\
  (forall id, al_get id (ti_docs st) =
              match find_doc id c with
              | Some d => Some (count_terms (td_tokens d), N.of_nat (length (td_tokens d)))
              | None => None
              end) /\
  NoDup (map fst (ti_docs st)) /\
  ti_num st = N.of_nat (length c).
Proof.
  intros HR st. pose proof (run_hist_inv h) as HI. fold st in HI.
  split; [intros t id; apply (post_members st _ c HI HR)|].
  split; [apply (inv_nd _ _ HI)|].
  split; [intros t; apply (post_card st _ c HI HR)|].
  split; [apply run_hist_no_empty|].
  split; [apply (inv_pk _ _ HI)|].
  split; [intros id; apply (docs_derived st _ c HI HR)|].
  split; [apply (inv_dk _ _ HI)|apply (num_derived st _ c HI HR)].
Qed.

Lemma cur_tokens_snoc h b id :
  cur_tokens (h ++ [b]) id = match al_get id (rev b) with Some toks => toks | None => cur_tokens h id end.
Proof.
  unfold cur_tokens. rewrite concat_app. cbn [concat]. rewrite app_nil_r, rev_app_distr, al_get_app.
  now destruct (al_get id (rev b)).
Qed.
Lemma cur_tokens_nil id : cur_tokens [] id = [].
Proof. reflexivity. Qed.

(* within a batch of distinct ids the processing order does not matter: both orders
   lead to states satisfying the invariant for the SAME token function *)
Lemma upd_batch_perm tok b b' : Permutation b b' -> NoDup (map fst b) ->
  forall x, upd_batch tok b x = upd_batch tok b' x.
Proof.
  intros P Hnd x. rewrite !upd_batch_last.
  assert (Hnd' : NoDup (map fst b')) by (eapply Permutation_NoDup; [apply Permutation_map, P|exact Hnd]).
  assert (R : forall l : batch_c, NoDup (map fst l) -> NoDup (map fst (rev l))).
  { intros l H. rewrite map_rev. eapply Permutation_NoDup; [apply Permutation_rev|exact H]. }
  destruct (al_get x (rev b)) as [v|] eqn:E.
  - apply al_get_In in E. apply in_rev in E. apply (Permutation_in _ P) in E. apply in_rev in E.
    now rewrite (In_al_get x v (rev b') (R _ Hnd') E).
  - destruct (al_get x (rev b')) as [v|] eqn:E'; [|reflexivity].
    apply al_get_In in E'. apply in_rev in E'. apply (Permutation_in _ (Permutation_sym P)) in E'.
    apply in_rev in E'. now rewrite (In_al_get x v (rev b) (R _ Hnd) E') in E.
Qed.
Lemma batch_order_irrelevant h b b' c :
  Permutation b b' -> NoDup (map fst b) -> corpus_rep c (cur_tokens (h ++ [b])) ->
  corpus_rep c (cur_tokens (h ++ [b'])).
Proof.
  intros P Hnd [H1 H2]. split; [exact H1|]. intros id toks. rewrite H2.
  assert (E : cur_tokens (h ++ [b]) id = cur_tokens (h ++ [b']) id).
  { rewrite !cur_tokens_snoc. pose proof (upd_batch_perm (cur_tokens h) b b' P Hnd id) as U.
    now rewrite !upd_batch_last in U. }
  now rewrite E.
Qed.

(* search on the state of a history = top-limit selection of the spec's matching set *)
Lemma search_spec (score : uuid -> Q) srt h c op terms filt allowed limit :
  corpus_rep c (cur_tokens h) -> allowed_ok filt allowed c ->
  (forall l, Permutation (srt l) l /\ Sorted (score_ge score) (srt l)) ->
  let matching := map td_id (filter (fun d => text_matches op (dedup_b terms) d && mem_bytes (td_id d) allowed) c) in
  let out := searchM srt op terms filt limit (run_hist h) in
  length (snd out) = Nat.min (N.to_nat limit) (length matching) /\
  StronglySorted (score_ge score) (snd out) /\
  NoDup (snd out) /\
  (forall x, In x (snd out) -> In x matching) /\
  (forall x y, In x matching -> ~ In x (snd out) -> In y (snd out) -> (score x <= score y)%Q) /\
  (forall x, In x (fst out) <-> In x (snd out)).
Proof.
  intros HR HA Hs matching out.
  destruct (match_exact _ _ c op terms filt allowed (run_hist_inv h) HR HA) as [Hnd HP]. fold matching in HP.
  destruct (topk score srt op terms filt limit (run_hist h) Hs) as [T1 [T2 [T3 [T4 T5]]]]. fold out in T1, T2, T3, T4, T5.
  split; [now rewrite T1, (Permutation_length HP)|].
  split; [exact T2|]. split; [now apply T4|].
  split; [intros x Hx; apply (Permutation_in _ HP); now apply T3|].
  split; [intros x y Hx; apply T5; apply (Permutation_in _ (Permutation_sym HP)); exact Hx|].
  apply searchM_set. intros l. apply Hs.
Qed.

Lemma zero_terms srt op filt limit st :
  (forall l, Permutation (srt l) l) ->
  matchM op [] filt st = [] /\ searchM srt op [] filt limit st = ([], []) /\
  (forall d, text_matches op [] d = false).
Proof.
  intros Hp. split; [apply matchM_zero_terms|]. split; [|reflexivity].
  unfold searchM. rewrite matchM_zero_terms.
  assert (E : srt [] = []) by (apply Permutation_nil, Permutation_sym, Hp).
  rewrite E. cbn. now destruct limit.
Qed.

(* a sort satisfying the hypothesis of the top-k theorems exists (insertion sort) *)
Fixpoint ins_desc (score : uuid -> Q) (x : uuid) (l : list uuid) : list uuid :=
  match l with
  | [] => [x]
  | y :: r => if Qle_bool (score y) (score x) then x :: l else y :: ins_desc score x r
  end.
Definition isort_desc (score : uuid -> Q) (l : list uuid) : list uuid := fold_right (ins_desc score) [] l.
Lemma ins_desc_perm score x l : Permutation (ins_desc score x l) (x :: l).
Proof.
  induction l as [|y r IH]; cbn; [reflexivity|]. destruct (Qle_bool (score y) (score x)); [reflexivity|].
  rewrite IH. apply perm_swap.
Qed.
Lemma ins_desc_sorted score x l : Sorted (score_ge score) l -> Sorted (score_ge score) (ins_desc score x l).
Proof.
  induction l as [|y r IH]; cbn; intros H; [repeat constructor|].
  destruct (Qle_bool (score y) (score x)) eqn:E.
  - constructor; [exact H|]. constructor. unfold score_ge. now apply Qle_bool_iff.
  - inversion H as [|? ? Hs Hh]; subst. constructor; [now apply IH|].
    assert (Hxy : score_ge score y x).
    { unfold score_ge. apply Qlt_le_weak, Qnot_le_lt. intros C. apply Qle_bool_iff in C. congruence. }
    destruct r as [|z r]; cbn; [now constructor|].
    destruct (Qle_bool (score z) (score x)); constructor; [exact Hxy|]. now inversion Hh.
Qed.
Lemma isort_desc_ok score l : Permutation (isort_desc score l) l /\ Sorted (score_ge score) (isort_desc score l).
Proof.
  induction l as [|x l [IH1 IH2]]; cbn; [split; constructor|]. split.
  - rewrite ins_desc_perm. now constructor.
  - now apply ins_desc_sorted.
Qed.

(* Model_C05.corpus (the corpus the running check derives from the live store) represents
   the token function of the live store *)
Lemma st_get_In id d (live : store) : st_get id live = Some d -> In (id, d) live.
Proof.
  induction live as [|[i d0] live IH]; cbn; [discriminate|].
  destruct (bytes_eqb id i) eqn:E.
  - apply bytes_eqb_eq in E. subst. intros H; inversion H. now left.
  - intros H. right. now apply IH.
Qed.
Lemma corpus_ids_sub path tk live : forall c, corpus path tk live = Some c ->
  forall id, In id (map td_id c) -> In id (map fst live).
Proof.
  induction live as [|[i d] live IH]; cbn; intros c H id Hin.
  - inversion H; subst. destruct Hin.
  - destruct (corpus path tk live) as [rest|]; [|discriminate].
    assert (Hrest : In id (map td_id rest) -> i = id \/ In id (map fst live)) by (intros H1; right; now apply (IH rest)).
    destruct (prop_value path d) as [| |v]; try (inversion H; subst; now apply Hrest).
    destruct v; try (inversion H; subst; now apply Hrest).
    destruct (tokens_of s tk) as [[|a l]|]; [| |discriminate]; inversion H; subst; [now apply Hrest|].
    destruct Hin as [Hin|Hin]; [now left|now apply Hrest].
Qed.

Lemma corpus_rep_ext c tok tok' : (forall x, tok x = tok' x) -> corpus_rep c tok -> corpus_rep c tok'.
Proof. intros E [H1 H2]. split; [exact H1|]. intros id toks. now rewrite <- E. Qed.
Lemma corpus_rep_cons rest tok i toks :
  corpus_rep rest tok -> tok i = [] -> toks <> [] ->
  corpus_rep (mkTdoc i toks :: rest) (fun x => if bytes_eqb x i then toks else tok x).
Proof.
  intros HR Hi Hne. split.
  - cbn. constructor; [|apply HR]. rewrite (corpus_rep_In_id _ _ i HR). tauto.
  - intros id t. cbn [In]. destruct (bytes_eqb id i) eqn:E.
    + apply bytes_eqb_eq in E. subst id. split.
      * intros [H|H]; [inversion H; subst; tauto|]. apply HR in H. destruct H as [H1 H2]. congruence.
      * intros [H1 H2]. left. now subst.
    + apply beq_neq in E. split.
      * intros [H|H]; [inversion H; congruence|now apply HR].
      * intros H. right. now apply HR.
Qed.
Definition text_toks (path : bytes) (tk : list (bytes * list bytes)) (d : doc) : option (list bytes) :=
  match prop_value path d with QFound (VStr s) => tokens_of s tk | _ => Some [] end.
Lemma corpus_cons path tk i d live :
  corpus path tk ((i, d) :: live) =
  match corpus path tk live with
  | None => None
  | Some rest => match text_toks path tk d with
                 | None => None
                 | Some [] => Some rest
                 | Some toks => Some (mkTdoc i toks :: rest)
                 end
  end.
Proof.
  cbn [corpus]. unfold text_toks. destruct (corpus path tk live) as [rest|]; [|reflexivity].
  destruct (prop_value path d) as [| |v]; try reflexivity. destruct v; try reflexivity.
Qed.
Lemma live_tokens_cons path tk i d live id :
  live_tokens path tk ((i, d) :: live) id =
  if bytes_eqb id i then match text_toks path tk d with Some t => t | None => [] end
  else live_tokens path tk live id.
Proof.
  unfold live_tokens, text_toks. cbn [st_get]. destruct (bytes_eqb id i); [|reflexivity].
  destruct (prop_value path d) as [| |v]; try reflexivity. destruct v; reflexivity.
Qed.
Lemma live_tokens_absent path tk live id : ~ In id (map fst live) -> live_tokens path tk live id = [].
Proof.
  intros H. unfold live_tokens. destruct (st_get id live) as [d|] eqn:E; [|reflexivity].
  exfalso. apply H. apply st_get_In in E. change id with (fst (id, d)). now apply in_map.
Qed.
Lemma corpus_live_rep path tk live : forall c,
  NoDup (map fst live) -> corpus path tk live = Some c -> corpus_rep c (live_tokens path tk live).
Proof.
  induction live as [|[i d] live IH]; intros c Hnd H.
  - cbn in H. inversion H; subst. split; [constructor|]. intros id toks. cbn. split; [tauto|].
    intros [H1 H2]. unfold live_tokens in H2. cbn in H2. congruence.
  - rewrite corpus_cons in H. cbn [map fst] in Hnd. inversion Hnd as [|? ? Hn Hnd']; subst.
    destruct (corpus path tk live) as [rest|] eqn:Crest; [|discriminate].
    specialize (IH rest Hnd' eq_refl).
    pose proof (live_tokens_absent path tk live i Hn) as Habs.
    destruct (text_toks path tk d) as [[|a l]|] eqn:T; [| |discriminate]; inversion H; subst.
    + apply (corpus_rep_ext _ (live_tokens path tk live)); [|exact IH].
      intros x. rewrite live_tokens_cons, T. destruct (bytes_eqb x i) eqn:E; [|reflexivity].
      apply bytes_eqb_eq in E. now subst.
    + apply (corpus_rep_ext _ (fun x => if bytes_eqb x i then a :: l else live_tokens path tk live x)).
      * intros x. now rewrite live_tokens_cons, T.
      * apply corpus_rep_cons; [exact IH|exact Habs|discriminate].
Qed.

Lemma score_from_components h c uterms logs d cs :
  corpus_rep c (cur_tokens h) -> In d c ->
  comps_of (run_hist h) uterms (td_id d) = Some cs ->
  score_comps logs cs = score_ref uterms c logs d.
Proof.
  intros HR Hin H.
  rewrite (components _ _ c uterms d (run_hist_inv h) HR Hin) in H. inversion H; subst.
  symmetry. exact (score_ref_comps uterms c logs d).
Qed.
