(* Proofs_C02.v -- lemmas about the inverted-index mechanism Model_C02M.v and
   the reference spec Model_C02.v *)
From Coq Require Import List NArith ZArith Lia Bool Arith Sorted Permutation.
From Coq Require Import ZifyBool ZifyN ZifyNat.
From Semadb Require Import Bytes U64 KV KeyLayout Model_C19 Proofs_C19 Value Obs Model_C01 Model_C02 Model_C02M.
Import ListNotations.
Open Scope N_scope.

(* ========================= id sets ======================================== *)

Lemma set_mem_In n s : set_mem n s = true <-> In n s.
Proof.
  induction s as [|x s IH]; cbn; [split; [discriminate|tauto]|].
  rewrite orb_true_iff, N.eqb_eq, IH. split; intros [H|H]; auto.
Qed.

Lemma set_mem_false n s : set_mem n s = false <-> ~ In n s.
Proof. rewrite <- set_mem_In. destruct (set_mem n s); split; congruence. Qed.

Lemma set_ins_In n s x : In x (set_ins n s) <-> x = n \/ In x s.
Proof.
  induction s as [|y s IH]; cbn; [split; intros [H|H]; auto; contradiction|].
  destruct (n <? y); cbn; [split; intros [H|H]; auto|].
  rewrite IH. split; intros H; tauto.
Qed.

Lemma set_ins_NoDup n s : NoDup s -> ~ In n s -> NoDup (set_ins n s).
Proof.
  induction s as [|y s IH]; intros Hs Hn; cbn.
  - constructor; [tauto|constructor].
  - destruct (n <? y); [constructor; assumption|].
    inversion Hs as [|? ? Hy Hs']; subst. constructor.
    + rewrite set_ins_In. intros [->|H]; [apply Hn; now left|contradiction].
    + apply IH; [assumption|]. intros H; apply Hn; now right.
Qed.

(* the effect of CheckedAdd / CheckedRemove, abstractly: g n m = new membership of n from the old one *)
Definition fspec (f : idset -> idset * bool) (g : N -> bool -> bool) : Prop :=
  forall s, NoDup s ->
    NoDup (fst (f s)) /\ (forall n, set_mem n (fst (f s)) = g n (set_mem n s)) /\
    (snd (f s) = false -> fst (f s) = s).

Definition gadd (id n : N) (m : bool) : bool := (n =? id) || m.
Definition gdel (id n : N) (m : bool) : bool := negb (n =? id) && m.

Lemma set_add_spec id : fspec (set_add id) (gadd id).
Proof.
  intros s Hs. unfold set_add, gadd. destruct (set_mem id s) eqn:E; cbn [fst snd].
  - split; [exact Hs|]. split; [|reflexivity]. intros n.
    destruct (N.eqb_spec n id) as [->|]; cbn; [now rewrite E|reflexivity].
  - split; [apply set_ins_NoDup; [exact Hs|now apply set_mem_false]|]. split; [|discriminate].
    intros n. apply eq_true_iff_eq. rewrite set_mem_In, set_ins_In, orb_true_iff, N.eqb_eq, set_mem_In. tauto.
Qed.

Lemma set_remove_spec id : fspec (set_remove id) (gdel id).
Proof.
  intros s Hs. unfold set_remove, gdel. destruct (set_mem id s) eqn:E; cbn [fst snd].
  - split; [now apply NoDup_filter|]. split; [|discriminate].
    intros n. apply eq_true_iff_eq.
    rewrite set_mem_In, filter_In, andb_true_iff, negb_true_iff, N.eqb_neq, set_mem_In. tauto.
  - split; [exact Hs|]. split; [|reflexivity]. intros n.
    destruct (N.eqb_spec n id) as [->|]; cbn; [now rewrite E|reflexivity].
Qed.

Lemma set_add_In id s x : In x (fst (set_add id s)) <-> x = id \/ In x s.
Proof.
  unfold set_add. destruct (set_mem id s) eqn:E; cbn [fst].
  - apply set_mem_In in E. split; [auto|]. intros [->|H]; auto.
  - apply set_ins_In.
Qed.

Lemma set_add_NoDup id s : NoDup s -> NoDup (fst (set_add id s)).
Proof. intros H. exact (proj1 (set_add_spec id s H)). Qed.

Lemma set_union_acc b : forall a, (NoDup a -> NoDup (set_union a b)) /\
  (forall x, In x (set_union a b) <-> In x a \/ In x b).
Proof.
  unfold set_union. induction b as [|y b IH]; intros a; cbn [fold_left].
  - split; [auto|]. intros x; cbn; tauto.
  - destruct (IH (fst (set_add y a))) as [IH1 IH2]. split.
    + intros Ha. apply IH1. now apply set_add_NoDup.
    + intros x. rewrite IH2, set_add_In. cbn. split; intros H; intuition (subst; auto).
Qed.

Lemma set_union_In a b x : In x (set_union a b) <-> In x a \/ In x b.
Proof. apply set_union_acc. Qed.
Lemma set_union_NoDup a b : NoDup a -> NoDup (set_union a b).
Proof. apply set_union_acc. Qed.

Lemma set_inter_In a b x : In x (set_inter a b) <-> In x a /\ In x b.
Proof. unfold set_inter. now rewrite filter_In, set_mem_In. Qed.
Lemma set_inter_NoDup a b : NoDup a -> NoDup (set_inter a b).
Proof. apply NoDup_filter. Qed.

Lemma fold_or_In sets : forall acc x,
  In x (fold_left set_union sets acc) <-> In x acc \/ exists s, In s sets /\ In x s.
Proof.
  induction sets as [|s sets IH]; intros acc x; cbn [fold_left].
  - split; [auto|]. intros [H|[s [[] _]]]; exact H.
  - rewrite IH, set_union_In. split.
    + intros [[H|H]|[s' [H1 H2]]]; [auto|right; exists s; cbn; auto|right; exists s'; cbn; auto].
    + intros [H|[s' [[<-|H1] H2]]]; [auto|auto|right; eauto].
Qed.

Lemma fold_or_NoDup sets : forall acc, NoDup acc -> NoDup (fold_left set_union sets acc).
Proof. induction sets as [|s sets IH]; intros acc H; cbn [fold_left]; [exact H|]. apply IH. now apply set_union_NoDup. Qed.

Lemma fast_or_In sets x : In x (fast_or sets) <-> exists s, In s sets /\ In x s.
Proof. unfold fast_or. rewrite fold_or_In. cbn. tauto. Qed.
Lemma fast_or_NoDup sets : NoDup (fast_or sets).
Proof. apply fold_or_NoDup. constructor. Qed.

Lemma fold_and_In sets : forall acc x,
  In x (fold_left set_inter sets acc) <-> In x acc /\ forall s, In s sets -> In x s.
Proof.
  induction sets as [|s sets IH]; intros acc x; cbn [fold_left].
  - split; [intros H; split; [exact H|intros s []]|tauto].
  - rewrite IH, set_inter_In. split.
    + intros [[H1 H2] H3]. split; [exact H1|]. intros s' [<-|H]; auto.
    + intros [H1 H2]. split; [split; [exact H1|apply H2; now left]|]. intros s' H. apply H2. now right.
Qed.
Lemma fold_and_NoDup sets : forall acc, NoDup acc -> NoDup (fold_left set_inter sets acc).
Proof. induction sets as [|s sets IH]; intros acc H; cbn [fold_left]; [exact H|]. apply IH. now apply set_inter_NoDup. Qed.

Lemma fast_and_In sets x : sets <> [] -> (In x (fast_and sets) <-> forall s, In s sets -> In x s).
Proof.
  destruct sets as [|s sets]; [congruence|]. intros _. cbn [fast_and]. rewrite fold_and_In. split.
  - intros [H1 H2] s' [<-|H]; auto.
  - intros H. split; [apply H; now left|]. intros s' Hs. apply H. now right.
Qed.
Lemma fast_and_NoDup sets : Forall (@NoDup N) sets -> NoDup (fast_and sets).
Proof. destruct 1 as [|s sets Hs _]; cbn; [constructor|]. now apply fold_and_NoDup. Qed.

Lemma collect_In sets x : In x (collect sets) <-> exists s, In s sets /\ In x s.
Proof.
  unfold collect. destruct sets as [|s [|s' r]].
  - split; [intros []|intros [s [[] _]]].
  - split; [intros H; exists s; cbn; auto|]. intros [s0 [[<-|[]] H]]; exact H.
  - apply fast_or_In.
Qed.
Lemma collect_NoDup sets : Forall (@NoDup N) sets -> NoDup (collect sets).
Proof.
  unfold collect. destruct sets as [|s [|s' r]]; intros H.
  - constructor.
  - now inversion H.
  - apply fast_or_NoDup.
Qed.

(* search.go: a single sub-query is returned as is, several are merged *)
Lemma combine_or_In sets x : In x (combine true sets) <-> exists s, In s sets /\ In x s.
Proof.
  unfold combine. destruct sets as [|s [|s' r]]; try apply fast_or_In.
  split; [intros H; exists s; cbn; auto|]. intros [s0 [[<-|[]] H]]; exact H.
Qed.
Lemma combine_and_In sets x : sets <> [] -> (In x (combine false sets) <-> forall s, In s sets -> In x s).
Proof.
  intros Hne. unfold combine. destruct sets as [|s [|s' r]]; try (now apply fast_and_In).
  split; [intros H s0 [<-|[]]; exact H|]. intros H. apply H. now left.
Qed.
Lemma combine_NoDup is_or sets : Forall (@NoDup N) sets -> NoDup (combine is_or sets).
Proof.
  intros H. unfold combine. destruct sets as [|s [|s' r]]; destruct is_or;
    try apply fast_or_NoDup; try (now apply fast_and_NoDup). all: now inversion H.
Qed.

(* ========================= the bucket ===================================== *)

Lemma bytes_eqb_refl k : bytes_eqb k k = true.
Proof. now apply bytes_eqb_eq. Qed.
Lemma bytes_eqb_neq a b : bytes_eqb a b = false <-> a <> b.
Proof. rewrite <- bytes_eqb_eq. destruct (bytes_eqb a b); split; congruence. Qed.
Lemma bytes_eqb_sym a b : bytes_eqb a b = bytes_eqb b a.
Proof.
  destruct (bytes_eqb a b) eqn:E.
  - apply bytes_eqb_eq in E. subst. symmetry. apply bytes_eqb_refl.
  - symmetry. apply bytes_eqb_neq. apply bytes_eqb_neq in E. congruence.
Qed.

Definition set_ok (s : idset) : Prop := s <> [] /\ NoDup s.
Definition wf_bucket (b : bucket) : Prop := ksorted (b_keys b) /\ Forall (fun e => set_ok (snd e)) b.

Lemma b_get_In k s b : b_get k b = Some s -> In (k, s) b.
Proof.
  induction b as [|[k' s'] b IH]; cbn; [discriminate|].
  destruct (bytes_eqb k k') eqn:E.
  - apply bytes_eqb_eq in E. intros H; inversion H; subst. now left.
  - intros H. right. now apply IH.
Qed.

Lemma b_get_keys k b : In k (b_keys b) <-> b_get k b <> None.
Proof.
  induction b as [|[k' s'] b IH]; cbn; [split; [intros []|congruence]|].
  destruct (bytes_eqb k k') eqn:E.
  - apply bytes_eqb_eq in E. subst. split; [discriminate|auto].
  - apply bytes_eqb_neq in E. rewrite <- IH. split; [intros [H|H]; [congruence|exact H]|auto].
Qed.

Lemma b_get_put_same k s b : b_get k (b_put k s b) = Some s.
Proof.
  induction b as [|[k' s'] b IH]; cbn; [now rewrite bytes_eqb_refl|].
  destruct (lex_compare k k') eqn:E; cbn; rewrite ?bytes_eqb_refl; try reflexivity.
  unfold bytes_eqb. rewrite E. exact IH.
Qed.

Lemma b_get_put_other k s b k' : k' <> k -> b_get k' (b_put k s b) = b_get k' b.
Proof.
  intros Hne. induction b as [|[k0 s0] b IH]; cbn.
  - now rewrite (proj2 (bytes_eqb_neq k' k) Hne).
  - destruct (lex_compare k k0) eqn:E; cbn.
    + apply lex_compare_eq in E. subst k0. now rewrite (proj2 (bytes_eqb_neq k' k) Hne).
    + now rewrite (proj2 (bytes_eqb_neq k' k) Hne).
    + now rewrite IH.
Qed.

Lemma b_keys_put k s b x : In x (b_keys (b_put k s b)) -> x = k \/ In x (b_keys b).
Proof.
  induction b as [|[k0 s0] b IH]; cbn; [intros [H|[]]; auto|].
  destruct (lex_compare k k0); cbn.
  - intros [H|H]; auto.
  - intros [H|[H|H]]; auto.
  - intros [H|H]; [auto|]. destruct (IH H); auto.
Qed.

Lemma b_put_sorted k s b : ksorted (b_keys b) -> ksorted (b_keys (b_put k s b)).
Proof.
  induction b as [|[k0 s0] b IH]; intros Hs; cbn.
  - repeat constructor.
  - cbn in Hs. apply ksorted_inv in Hs. destruct Hs as [Hs Hk].
    destruct (lex_compare k k0) eqn:E; cbn.
    + apply lex_compare_eq in E. subst. now constructor.
    + assert (Hlt : klt k k0) by (unfold klt, lex_lt; now rewrite E).
      constructor; [now constructor|]. constructor; [exact Hlt|].
      eapply Forall_impl; [|exact Hk]. intros a Ha. eapply klt_trans; eauto.
    + constructor; [now apply IH|].
      apply Forall_forall. intros x Hx. apply b_keys_put in Hx. destruct Hx as [->|Hx].
      * unfold klt, lex_lt. rewrite (lex_compare_antisym k k0), E. reflexivity.
      * rewrite Forall_forall in Hk. now apply Hk.
Qed.

Lemma b_put_ok k s b : set_ok s -> Forall (fun e => set_ok (snd e)) b ->
  Forall (fun e => set_ok (snd e)) (b_put k s b).
Proof.
  intros Hs. induction 1 as [|[k0 s0] b H0 Hb IH]; cbn.
  - apply Forall_cons; [exact Hs|apply Forall_nil].
  - destruct (lex_compare k k0).
    + apply Forall_cons; [exact Hs|exact Hb].
    + apply Forall_cons; [exact Hs|]. apply Forall_cons; [exact H0|exact Hb].
    + apply Forall_cons; [exact H0|exact IH].
Qed.

Lemma b_keys_del k b : b_keys (b_del k b) = filter (fun x => negb (bytes_eqb k x)) (b_keys b).
Proof.
  unfold b_del, b_keys. induction b as [|[k0 s0] b IH]; cbn; [reflexivity|].
  destruct (bytes_eqb k k0); cbn; now rewrite IH.
Qed.

Lemma b_get_del_same k b : b_get k (b_del k b) = None.
Proof.
  unfold b_del. induction b as [|[k0 s0] b IH]; cbn; [reflexivity|].
  destruct (bytes_eqb k k0) eqn:E; cbn; [exact IH|]. now rewrite E.
Qed.

Lemma b_get_del_other k b k' : k' <> k -> b_get k' (b_del k b) = b_get k' b.
Proof.
  intros Hne. unfold b_del. induction b as [|[k0 s0] b IH]; cbn; [reflexivity|].
  destruct (bytes_eqb k k0) eqn:E; cbn.
  - apply bytes_eqb_eq in E. subst k0. now rewrite (proj2 (bytes_eqb_neq k' k) Hne).
  - now rewrite IH.
Qed.

Lemma wf_put k s b : set_ok s -> wf_bucket b -> wf_bucket (b_put k s b).
Proof. intros Hs [H1 H2]. split; [now apply b_put_sorted|now apply b_put_ok]. Qed.

Lemma wf_del k b : wf_bucket b -> wf_bucket (b_del k b).
Proof.
  intros [H1 H2]. split.
  - rewrite b_keys_del. now apply ksorted_filter.
  - unfold b_del. apply Forall_forall. intros e He. apply filter_In in He.
    rewrite Forall_forall in H2. now apply H2.
Qed.

Lemma wf_get k s b : wf_bucket b -> b_get k b = Some s -> set_ok s.
Proof.
  intros [_ H] Hg. apply b_get_In in Hg. rewrite Forall_forall in H. exact (H _ Hg).
Qed.

Lemma getset_NoDup k b : wf_bucket b -> NoDup (getset k b).
Proof.
  intros Hw. unfold getset. destruct (b_get k b) eqn:E; [|constructor].
  exact (proj2 (wf_get _ _ _ Hw E)).
Qed.

Lemma getset_key k b n : wf_bucket b -> In n (getset k b) -> In k (b_keys b).
Proof.
  intros _ H. apply b_get_keys. unfold getset in H. destruct (b_get k b); [discriminate|destruct H].
Qed.

Lemma key_getset k b : wf_bucket b -> In k (b_keys b) -> exists n, In n (getset k b).
Proof.
  intros Hw H. apply b_get_keys in H. unfold getset. destruct (b_get k b) as [s|] eqn:E; [|congruence].
  destruct (wf_get _ _ _ Hw E) as [Hne _]. destruct s as [|n s]; [congruence|]. exists n. now left.
Qed.

Lemma ksorted_NoDup l : ksorted l -> NoDup l.
Proof.
  induction 1 as [|k r Hs IH Hk]; constructor; [|exact IH].
  intros Hin. rewrite Forall_forall in Hk. specialize (Hk _ Hin). unfold klt in Hk.
  rewrite lex_lt_irrefl in Hk. discriminate.
Qed.

Lemma NoDup_app_single {A} (l : list A) x : NoDup l -> ~ In x l -> NoDup (l ++ [x]).
Proof.
  induction l as [|y l IH]; intros Hl Hx; cbn; [constructor; [intros []|constructor]|].
  inversion Hl as [|? ? Hy Hl']; subst. constructor.
  - rewrite in_app_iff. intros [H|[H|[]]]; [contradiction|]. apply Hx. now left.
  - apply IH; [exact Hl'|]. intros H. apply Hx. now right.
Qed.

(* ========================= the generic index ============================== *)

Definition post := bytes -> N -> bool.
Definition represents (b : bucket) (p : post) : Prop := forall k n, set_mem n (getset k b) = p k n.

Definition pupd (k : bytes) (g : N -> bool -> bool) (p : post) : post :=
  fun k' n => if bytes_eqb k' k then g n (p k' n) else p k' n.

Section IndexProofs.
  Context {V : Type}.
  Variable enc : V -> bytes.
  Variable veqb : V -> V -> bool.
  Variable valid : V -> Prop.

  (* what a change does to the postings *)
  Definition post_step (ch : @change V) (p : post) : post :=
    match c_prev ch, c_cur ch with
    | None, None => p
    | None, Some cur => pupd (enc cur) (gadd (c_id ch)) p
    | Some prev, None => pupd (enc prev) (gdel (c_id ch)) p
    | Some prev, Some cur =>
        if veqb prev cur then p
        else pupd (enc cur) (gadd (c_id ch)) (pupd (enc prev) (gdel (c_id ch)) p)
    end.
  Definition post_steps (cs : list (@change V)) (p : post) : post :=
    fold_left (fun p ch => post_step ch p) cs p.

  Lemma post_step_ext ch p p' : (forall k n, p k n = p' k n) ->
    forall k n, post_step ch p k n = post_step ch p' k n.
  Proof.
    intros H k n. unfold post_step, pupd.
    destruct (c_prev ch) as [a|], (c_cur ch) as [c|]; try destruct (veqb a c);
      repeat match goal with |- context [if ?x then _ else _] => destruct x end; now rewrite ?H.
  Qed.

  Lemma post_steps_ext cs : forall p p', (forall k n, p k n = p' k n) ->
    forall k n, post_steps cs p k n = post_steps cs p' k n.
  Proof.
    induction cs as [|ch cs IH]; intros p p' H; cbn; [exact H|].
    apply IH. now apply post_step_ext.
  Qed.

  (* Go's == on T and the sortable key identify the same values *)
  Hypothesis enc_veqb : forall a b, valid a -> valid b -> (veqb a b = true <-> enc a = enc b).

  Definition ckey (it : @citem V) : bytes := enc (it_val it).

  Record cinv (b0 : bucket) (c : @cache V) (p : post) : Prop := {
    ci_valid : Forall (fun it => valid (it_val it)) c;
    ci_keys : NoDup (map ckey c);
    ci_items : Forall (fun it => NoDup (it_set it) /\
                                 (forall n, set_mem n (it_set it) = p (ckey it) n) /\
                                 (it_dirty it = false -> it_set it = getset (ckey it) b0)) c;
    ci_rest : forall k, ~ In k (map ckey c) -> forall n, set_mem n (getset k b0) = p k n }.

  Lemma c_update_miss b v f c : (forall x, In x c -> veqb (it_val x) v = false) ->
    c_update enc veqb b v f c = c ++ [new_item enc b v f].
  Proof.
    induction c as [|it c IH]; intros H; cbn; [reflexivity|].
    rewrite (H it (or_introl eq_refl)). f_equal. apply IH. intros x Hx. apply H. now right.
  Qed.

  Lemma c_update_hit b v f c1 it c2 : (forall x, In x c1 -> veqb (it_val x) v = false) ->
    veqb (it_val it) v = true ->
    c_update enc veqb b v f (c1 ++ it :: c2) = c1 ++ upd_item f it :: c2.
  Proof.
    induction c1 as [|x c1 IH]; intros H Hit; cbn; [now rewrite Hit|].
    rewrite (H x (or_introl eq_refl)). f_equal. apply IH; [|exact Hit]. intros y Hy. apply H. now right.
  Qed.

  Lemma c_split v (c : @cache V) :
    (forall x, In x c -> veqb (it_val x) v = false) \/
    exists c1 it c2, c = c1 ++ it :: c2 /\ (forall x, In x c1 -> veqb (it_val x) v = false) /\
                     veqb (it_val it) v = true.
  Proof.
    induction c as [|x c IH]; [left; intros y []|].
    destruct (veqb (it_val x) v) eqn:E.
    - right. exists [], x, c. split; [reflexivity|]. split; [intros y []|exact E].
    - destruct IH as [IH|(c1 & it & c2 & -> & H1 & H2)].
      + left. intros y [<-|Hy]; auto.
      + right. exists (x :: c1), it, c2. split; [reflexivity|]. split; [|exact H2].
        intros y [<-|Hy]; auto.
  Qed.

  Lemma it_val_upd f (it : @citem V) : it_val (upd_item f it) = it_val it.
  Proof. unfold upd_item. destruct (f (it_set it)). reflexivity. Qed.
  Lemma ckey_upd f it : ckey (upd_item f it) = ckey it.
  Proof. unfold ckey. now rewrite it_val_upd. Qed.

  Lemma pupd_other k g p k' n : k' <> k -> pupd k g p k' n = p k' n.
  Proof. intros H. unfold pupd. now rewrite (proj2 (bytes_eqb_neq k' k) H). Qed.
  Lemma pupd_same k g p n : pupd k g p k n = g n (p k n).
  Proof. unfold pupd. now rewrite bytes_eqb_refl. Qed.

  Lemma c_update_inv b0 c p v f g :
    wf_bucket b0 -> cinv b0 c p -> valid v -> fspec f g ->
    cinv b0 (c_update enc veqb b0 v f c) (pupd (enc v) g p).
  Proof.
    intros Hw [Hv Hk Hi Hr] Hval Hf.
    destruct (c_split v c) as [Hmiss|(c1 & it & c2 & -> & H1 & H2)].
    - (* miss: a new entry loaded from the bucket *)
      rewrite (c_update_miss _ _ _ _ Hmiss).
      assert (Hnk : ~ In (enc v) (map ckey c)).
      { intros Hin. apply in_map_iff in Hin. destruct Hin as [x [Hx1 Hx2]].
        rewrite Forall_forall in Hv. specialize (Hv _ Hx2).
        apply (enc_veqb _ _ Hv Hval) in Hx1. rewrite (Hmiss _ Hx2) in Hx1. discriminate. }
      pose proof (getset_NoDup (enc v) b0 Hw) as Hnd.
      destruct (Hf _ Hnd) as (F1 & F2 & F3).
      assert (Hnew : it_val (new_item enc b0 v f) = v /\ it_set (new_item enc b0 v f) = fst (f (getset (enc v) b0))
                     /\ it_dirty (new_item enc b0 v f) = snd (f (getset (enc v) b0))).
      { unfold new_item. destruct (f (getset (enc v) b0)); auto. }
      destruct Hnew as (N1 & N2 & N3).
      constructor.
      + apply Forall_app. split; [exact Hv|]. constructor; [now rewrite N1|constructor].
      + rewrite map_app. cbn [map]. unfold ckey at 2. rewrite N1.
        apply NoDup_app_single; assumption.
      + apply Forall_app. split.
        * rewrite Forall_forall in Hi |- *. intros x Hx. destruct (Hi _ Hx) as (A1 & A2 & A3).
          split; [exact A1|]. split; [|exact A3]. intros n.
          rewrite pupd_other; [apply A2|]. intros E. apply Hnk. rewrite <- E. now apply in_map.
        * constructor; [|constructor]. unfold ckey. rewrite N1, N2, N3.
          split; [exact F1|]. split.
          -- intros n. rewrite pupd_same, F2. f_equal. now apply Hr.
          -- exact F3.
      + intros k Hnin n. rewrite map_app, in_app_iff in Hnin. cbn [map In] in Hnin. unfold ckey at 2 in Hnin.
        rewrite N1 in Hnin. rewrite pupd_other by (intros E; apply Hnin; right; left; now rewrite E).
        apply Hr. tauto.
    - (* hit: the entry of a veqb-equal value *)
      rewrite (c_update_hit _ _ _ _ _ _ H1 H2).
      apply Forall_app in Hv. destruct Hv as [Hv1 Hv2]. inversion Hv2 as [|? ? Hvit Hv2']; subst.
      apply Forall_app in Hi. destruct Hi as [Hi1 Hi2]. inversion Hi2 as [|? ? Hiit Hi2']; subst.
      assert (Ekey : ckey it = enc v) by (apply (enc_veqb _ _ Hvit Hval); exact H2).
      rewrite map_app in Hk. cbn [map] in Hk.
      assert (Hk1 : forall x, In x c1 -> ckey x <> enc v).
      { intros x Hx E. apply NoDup_remove_2 in Hk. apply Hk. rewrite in_app_iff. left.
        rewrite Ekey, <- E. now apply in_map. }
      assert (Hk2 : forall x, In x c2 -> ckey x <> enc v).
      { intros x Hx E. apply NoDup_remove_2 in Hk. apply Hk. rewrite in_app_iff. right.
        rewrite Ekey, <- E. now apply in_map. }
      destruct Hiit as (A1 & A2 & A3).
      destruct (Hf _ A1) as (F1 & F2 & F3).
      assert (Hupd : it_set (upd_item f it) = fst (f (it_set it)) /\
                     it_dirty (upd_item f it) = snd (f (it_set it)) || it_dirty it).
      { unfold upd_item. destruct (f (it_set it)); auto. }
      destruct Hupd as (U1 & U2).
      constructor.
      + apply Forall_app. split; [exact Hv1|]. constructor; [now rewrite it_val_upd|exact Hv2'].
      + rewrite map_app. cbn [map]. now rewrite ckey_upd.
      + apply Forall_app. split; [|constructor].
        * rewrite Forall_forall in Hi1 |- *. intros x Hx. destruct (Hi1 _ Hx) as (B1 & B2 & B3).
          split; [exact B1|]. split; [|exact B3]. intros n. rewrite pupd_other by (now apply Hk1). apply B2.
        * rewrite ckey_upd, U1, U2, Ekey. split; [exact F1|]. split.
          -- intros n. rewrite pupd_same, F2. f_equal. rewrite <- Ekey. apply A2.
          -- intros Hd. apply orb_false_iff in Hd. destruct Hd as [Hd1 Hd2].
             rewrite (F3 Hd1). rewrite <- Ekey. now apply A3.
        * rewrite Forall_forall in Hi2' |- *. intros x Hx. destruct (Hi2' _ Hx) as (B1 & B2 & B3).
          split; [exact B1|]. split; [|exact B3]. intros n. rewrite pupd_other by (now apply Hk2). apply B2.
      + intros k Hnin n. rewrite map_app in Hnin. cbn [map] in Hnin. rewrite ckey_upd in Hnin.
        rewrite pupd_other.
        * apply Hr. rewrite map_app. exact Hnin.
        * intros E. apply Hnin. rewrite in_app_iff. right. left. now rewrite Ekey, E.
  Qed.

  Lemma cinv_ext b0 c p p' : (forall k n, p k n = p' k n) -> cinv b0 c p -> cinv b0 c p'.
  Proof.
    intros H [Hv Hk Hi Hr]. constructor; auto.
    - eapply Forall_impl; [|exact Hi]. intros it (A1 & A2 & A3). split; [exact A1|]. split; [|exact A3].
      intros n. now rewrite <- H.
    - intros k Hn n. rewrite <- H. now apply Hr.
  Qed.

  Definition change_valid (ch : @change V) : Prop := ovalid valid (c_prev ch) /\ ovalid valid (c_cur ch).

  Lemma process_change_inv b0 c p ch :
    wf_bucket b0 -> cinv b0 c p -> change_valid ch ->
    cinv b0 (process_change enc veqb b0 ch c) (post_step ch p).
  Proof.
    intros Hw Hc [Hp Hcu]. unfold process_change, post_step.
    destruct (c_prev ch) as [a|], (c_cur ch) as [cu|]; cbn in Hp, Hcu.
    - destruct (veqb a cu); [exact Hc|].
      apply c_update_inv; auto using set_add_spec.
      apply c_update_inv; auto using set_remove_spec.
    - apply c_update_inv; auto using set_remove_spec.
    - apply c_update_inv; auto using set_add_spec.
    - exact Hc.
  Qed.

  Lemma process_batch_inv b0 cs : forall c p,
    wf_bucket b0 -> cinv b0 c p -> Forall change_valid cs ->
    cinv b0 (fold_left (fun c ch => process_change enc veqb b0 ch c) cs c) (post_steps cs p).
  Proof.
    induction cs as [|ch cs IH]; intros c p Hw Hc Hv; cbn; [exact Hc|].
    inversion Hv as [|? ? Hv1 Hv2]; subst. apply IH; auto. now apply process_change_inv.
  Qed.

  Lemma cinv_nil b0 p : represents b0 p -> cinv b0 [] p.
  Proof. intros H. constructor; cbn; try constructor. intros k _ n. apply H. Qed.

  (* ---- flush ---- *)
  Lemma flush_item_get it b k :
    b_get k (flush_item enc it b) =
      if bytes_eqb k (ckey it) && it_dirty it
      then (if is_empty (it_set it) then None else Some (it_set it))
      else b_get k b.
  Proof.
    unfold flush_item, ckey. destruct (it_dirty it); [|now rewrite andb_false_r].
    rewrite andb_true_r. destruct (bytes_eqb k (enc (it_val it))) eqn:E.
    - apply bytes_eqb_eq in E. subst k. destruct (is_empty (it_set it));
        [apply b_get_del_same|apply b_get_put_same].
    - apply bytes_eqb_neq in E. destruct (is_empty (it_set it));
        [now apply b_get_del_other|now apply b_get_put_other].
  Qed.

  Lemma flush_get c : forall b k, NoDup (map ckey c) ->
    b_get k (flush enc c b) =
      match find (fun it => bytes_eqb k (ckey it)) c with
      | Some it => if it_dirty it then (if is_empty (it_set it) then None else Some (it_set it)) else b_get k b
      | None => b_get k b
      end.
  Proof.
    unfold flush. induction c as [|it c IH]; intros b k Hnd; cbn [fold_left find map]; [reflexivity|].
    cbn [map] in Hnd. inversion Hnd as [|? ? Hn1 Hn2]; subst.
    rewrite IH by exact Hn2. rewrite flush_item_get.
    destruct (bytes_eqb k (ckey it)) eqn:E; cbn [andb].
    - apply bytes_eqb_eq in E. subst k.
      destruct (find (fun it0 => bytes_eqb (ckey it) (ckey it0)) c) as [x|] eqn:F.
      + exfalso. apply find_some in F. destruct F as [F1 F2]. apply bytes_eqb_eq in F2.
        apply Hn1. rewrite F2. now apply in_map.
      + reflexivity.
    - reflexivity.
  Qed.

  Lemma flush_wf c : forall b, Forall (fun it => NoDup (it_set it)) c -> wf_bucket b -> wf_bucket (flush enc c b).
  Proof.
    unfold flush. induction c as [|it c IH]; intros b Hc Hw; cbn [fold_left]; [exact Hw|].
    inversion Hc as [|? ? Hc1 Hc2]; subst. apply IH; [exact Hc2|].
    unfold flush_item. destruct (it_dirty it); [|exact Hw].
    destruct (it_set it) as [|n s] eqn:E; cbn [is_empty]; [now apply wf_del|].
    apply wf_put; [|exact Hw]. split; [discriminate|]. first [exact Hc1 | rewrite <- E; exact Hc1].
  Qed.

  Lemma getset_empty_or s : (if is_empty s then None else Some s) = Some s \/ s = [].
  Proof. destruct s; cbn; auto. Qed.

  Lemma flush_inv b0 c p : wf_bucket b0 -> cinv b0 c p ->
    wf_bucket (flush enc c b0) /\ represents (flush enc c b0) p.
  Proof.
    intros Hw [Hv Hk Hi Hr]. split.
    - apply flush_wf; [|exact Hw]. eapply Forall_impl; [|exact Hi]. intros it H. exact (proj1 H).
    - intros k n. unfold getset at 1. rewrite (flush_get c b0 k Hk).
      destruct (find (fun it => bytes_eqb k (ckey it)) c) as [it|] eqn:F.
      + apply find_some in F. destruct F as [F1 F2]. apply bytes_eqb_eq in F2. subst k.
        rewrite Forall_forall in Hi. destruct (Hi _ F1) as (A1 & A2 & A3).
        destruct (it_dirty it).
        * rewrite <- A2. destruct (it_set it); reflexivity.
        * rewrite <- A2, (A3 eq_refl). reflexivity.
      + apply Hr. intros Hin. apply in_map_iff in Hin. destruct Hin as [x [Hx1 Hx2]].
        pose proof (find_none _ _ F _ Hx2) as Hf. cbn in Hf. rewrite Hx1, bytes_eqb_refl in Hf. discriminate.
  Qed.

  (* ---- one batch, a history ---- *)
  Lemma apply_batch_inv b p cs :
    wf_bucket b -> represents b p -> Forall change_valid cs ->
    wf_bucket (apply_batch enc veqb b cs) /\ represents (apply_batch enc veqb b cs) (post_steps cs p).
  Proof.
    intros Hw Hr Hv. unfold apply_batch, process_batch. apply flush_inv; [exact Hw|].
    apply process_batch_inv; auto. now apply cinv_nil.
  Qed.

  Lemma post_steps_app a b p : post_steps (a ++ b) p = post_steps b (post_steps a p).
  Proof. unfold post_steps. apply fold_left_app. Qed.

  Lemma history_inv hs : forall b p,
    wf_bucket b -> represents b p -> Forall change_valid (concat hs) ->
    wf_bucket (fold_left (apply_batch enc veqb) hs b) /\
    represents (fold_left (apply_batch enc veqb) hs b) (post_steps (concat hs) p).
  Proof.
    induction hs as [|cs hs IH]; intros b p Hw Hr Hv; cbn [fold_left concat]; [split; assumption|].
    apply Forall_app in Hv. destruct Hv as [Hv1 Hv2].
    destruct (apply_batch_inv b p cs Hw Hr Hv1) as [Hw' Hr'].
    rewrite post_steps_app. now apply IH.
  Qed.

  Lemma wf_nil : wf_bucket [].
  Proof. split; constructor. Qed.
  Lemma represents_nil : represents [] (fun _ _ => false).
  Proof. intros k n. reflexivity. Qed.

  (* ---- consistent histories: the postings are those of the stored values ---- *)
  Definition post_of (st : N -> option V) : post :=
    fun k n => match st n with Some v => bytes_eqb k (enc v) | None => false end.

  Lemma post_step_consistent st ch :
    c_prev ch = st (c_id ch) -> change_valid ch ->
    forall k n, post_step ch (post_of st) k n = post_of (st_step st ch) k n.
  Proof.
    intros Hp [Hv1 Hv2] k n. unfold post_step, post_of, st_step, pupd, gadd, gdel.
    destruct (c_prev ch) as [a|], (c_cur ch) as [c|]; cbn in Hv1, Hv2; symmetry in Hp.
    - destruct (veqb a c) eqn:E.
      + apply (enc_veqb _ _ Hv1 Hv2) in E.
        destruct (N.eqb_spec n (c_id ch)) as [->|Hn]; [|reflexivity]. now rewrite Hp, E.
      + destruct (N.eqb_spec n (c_id ch)) as [->|Hn]; cbn.
        * rewrite Hp. destruct (bytes_eqb k (enc c)); [reflexivity|].
          destruct (bytes_eqb k (enc a)) eqn:E2; reflexivity.
        * destruct (bytes_eqb k (enc c)), (bytes_eqb k (enc a)); reflexivity.
    - destruct (N.eqb_spec n (c_id ch)) as [->|Hn]; cbn.
      + rewrite Hp. destruct (bytes_eqb k (enc a)) eqn:E2; reflexivity.
      + destruct (bytes_eqb k (enc a)); reflexivity.
    - destruct (N.eqb_spec n (c_id ch)) as [->|Hn]; cbn.
      + rewrite Hp. destruct (bytes_eqb k (enc c)); reflexivity.
      + destruct (bytes_eqb k (enc c)); reflexivity.
    - destruct (N.eqb_spec n (c_id ch)) as [->|Hn]; [now rewrite Hp|reflexivity].
  Qed.

  Lemma consistent_valid st cs : consistent_from valid st cs -> Forall change_valid cs.
  Proof.
    revert st. induction cs as [|ch cs IH]; intros st H; cbn in H; [constructor|].
    destruct H as (H1 & H2 & H3 & H4). constructor; [split; assumption|]. eapply IH; eauto.
  Qed.

  Lemma post_steps_consistent cs : forall st, consistent_from valid st cs ->
    forall k n, post_steps cs (post_of st) k n = post_of (stored_from st cs) k n.
  Proof.
    induction cs as [|ch cs IH]; intros st H k n; cbn; [reflexivity|].
    cbn in H. destruct H as (H1 & H2 & H3 & H4).
    unfold post_steps in *. cbn [fold_left].
    change (fold_left (fun p ch0 => post_step ch0 p) cs (post_step ch (post_of st)) k n)
      with (post_steps cs (post_step ch (post_of st)) k n).
    rewrite (post_steps_ext cs _ (post_of (st_step st ch))).
    - apply IH. exact H4.
    - apply post_step_consistent; [exact H1|split; assumption].
  Qed.

  Lemma stored_valid cs : forall st, consistent_from valid st cs ->
    (forall n v, st n = Some v -> valid v) ->
    forall n v, stored_from st cs n = Some v -> valid v.
  Proof.
    induction cs as [|ch cs IH]; intros st H Hst n v; cbn; [apply Hst|].
    cbn in H. destruct H as (H1 & H2 & H3 & H4). apply IH; [exact H4|].
    intros m w. unfold st_step. destruct (m =? c_id ch); [|apply Hst].
    intros E. rewrite E in H3. exact H3.
  Qed.

  (* the posting-list invariant *)
  Theorem postings_inv hs : consistent valid hs ->
    let b := run_history enc veqb hs in
    let st := stored_after hs in
    ksorted (b_keys b) /\
    (forall k s, b_get k b = Some s -> s <> [] /\ NoDup s) /\
    (forall k n, In n (getset k b) <-> exists v, st n = Some v /\ enc v = k).
  Proof.
    intros Hc b st. unfold consistent in Hc.
    destruct (history_inv hs [] (fun _ _ => false) wf_nil represents_nil (consistent_valid _ _ Hc)) as [Hw Hr].
    fold (run_history enc veqb hs) in Hw, Hr. fold b in Hw, Hr.
    split; [exact (proj1 Hw)|]. split; [intros k s Hg; exact (wf_get _ _ _ Hw Hg)|].
    intros k n. rewrite <- set_mem_In, (Hr k n).
    rewrite (post_steps_ext _ _ (post_of (fun _ => None))) by reflexivity.
    rewrite (post_steps_consistent _ _ Hc). fold (stored_after hs). fold st.
    unfold post_of. destruct (st n) as [v|].
    - rewrite bytes_eqb_eq. split; [intros ->; eauto|]. intros [w [E1 E2]]. inversion E1; subst. reflexivity.
    - split; [discriminate|]. intros [w [E _]]. discriminate.
  Qed.

  Lemma run_wf hs : consistent valid hs -> wf_bucket (run_history enc veqb hs).
  Proof.
    intros Hc. unfold consistent in Hc.
    exact (proj1 (history_inv hs [] (fun _ _ => false) wf_nil represents_nil (consistent_valid _ _ Hc))).
  Qed.

  Lemma run_stored_valid hs : consistent valid hs -> forall n v, stored_after hs n = Some v -> valid v.
  Proof. intros Hc. apply (stored_valid _ _ Hc). discriminate. Qed.
End IndexProofs.

(* ========================= search ========================================= *)

Lemma in_range_gt qk ek k : in_range (Some qk) None false k = key_matches 3 qk ek k.
Proof.
  unfold in_range, start_ok, end_ok, key_matches, lex_lt. cbn. rewrite andb_true_r.
  rewrite (lex_compare_antisym qk k). destruct (lex_compare qk k); reflexivity.
Qed.
Lemma in_range_ge qk ek k : in_range (Some qk) None true k = key_matches 4 qk ek k.
Proof.
  unfold in_range, start_ok, end_ok, key_matches, lex_le. cbn. rewrite andb_true_r.
  rewrite (lex_compare_antisym qk k). destruct (lex_compare qk k); reflexivity.
Qed.
Lemma in_range_lt qk ek k : in_range None (Some qk) false k = key_matches 5 qk ek k.
Proof. unfold in_range, start_ok, end_ok, key_matches, lex_lt. cbn. destruct (lex_compare k qk); reflexivity. Qed.
Lemma in_range_le qk ek k : in_range None (Some qk) true k = key_matches 6 qk ek k.
Proof. unfold in_range, start_ok, end_ok, key_matches, lex_le. cbn. destruct (lex_compare k qk); reflexivity. Qed.
Lemma in_range_range qk ek k : in_range (Some qk) (Some ek) true k = key_matches 7 qk ek k.
Proof.
  unfold in_range, start_ok, end_ok, key_matches, lex_le. cbn.
  rewrite (lex_compare_antisym qk k). destruct (lex_compare qk k), (lex_compare k ek); reflexivity.
Qed.
Lemma key_matches_eq qk ek k : key_matches 0 qk ek k = bytes_eqb k qk.
Proof. unfold key_matches, bytes_eqb. cbn. destruct (lex_compare k qk); reflexivity. Qed.
Lemma key_matches_ne qk ek k : key_matches 1 qk ek k = negb (bytes_eqb k qk).
Proof. unfold key_matches, bytes_eqb. cbn. destruct (lex_compare k qk); reflexivity. Qed.

Lemma key_matches_prefix qk ek k : key_matches OP_PREFIX qk ek k = is_prefix qk k.
Proof. reflexivity. Qed.

Section SearchProofs.
  Context {V : Type}.
  Variable enc : V -> bytes.
  Variable dec : bytes -> V.
  Variable veqb : V -> V -> bool.
  Variable valid : V -> Prop.
  Hypothesis enc_veqb : forall a b, valid a -> valid b -> (veqb a b = true <-> enc a = enc b).
  Hypothesis dec_valid : forall a, valid a -> valid (dec (enc a)).
  Hypothesis dec_enc : forall a, valid a -> enc (dec (enc a)) = enc a.

  Definition isenc (k : bytes) : Prop := exists v, valid v /\ enc v = k.

  Lemma dec_inj k1 k2 : isenc k1 -> isenc k2 -> veqb (dec k1) (dec k2) = true -> k1 = k2.
  Proof.
    intros (v1 & V1 & <-) (v2 & V2 & <-) H.
    apply (enc_veqb _ _ (dec_valid _ V1) (dec_valid _ V2)) in H.
    now rewrite !dec_enc in H.
  Qed.

  (* distinct keys never alias in the per-Search cache *)
  Lemma scan_sets_id kvs : forall c,
    (forall k, In k (map fst kvs) -> isenc k) -> NoDup (map fst kvs) ->
    (forall e, In e c -> exists k', isenc k' /\ fst e = dec k' /\ ~ In k' (map fst kvs)) ->
    scan_sets dec veqb kvs c = map snd kvs.
  Proof.
    induction kvs as [|[k s] kvs IH]; intros c He Hnd Hc; cbn [scan_sets map]; [reflexivity|].
    cbn [map fst] in He, Hnd. inversion Hnd as [|? ? Hn1 Hn2]; subst.
    destruct (find (fun e => veqb (fst e) (dec k)) c) as [e|] eqn:F.
    - exfalso. apply find_some in F. destruct F as [F1 F2].
      destruct (Hc _ F1) as (k' & K1 & K2 & K3). rewrite K2 in F2.
      apply dec_inj in F2; [|exact K1|apply He; now left]. apply K3. cbn. now left.
    - cbn [snd]. f_equal. apply IH.
      + intros k0 H0. apply He. now right.
      + exact Hn2.
      + intros e [<-|Hin].
        * exists k. split; [apply He; now left|]. split; [reflexivity|exact Hn1].
        * destruct (Hc _ Hin) as (k' & K1 & K2 & K3). exists k'. split; [exact K1|]. split; [exact K2|].
          intros H. apply K3. cbn. now right.
  Qed.

  Lemma scan_result b sel :
    wf_bucket b -> (forall k, In k sel -> isenc k) -> NoDup sel ->
    NoDup (collect (scan_sets dec veqb (kvs_of b sel) [])) /\
    forall n, In n (collect (scan_sets dec veqb (kvs_of b sel) [])) <-> exists k, In k sel /\ In n (getset k b).
  Proof.
    intros Hw He Hnd.
    assert (Hfst : map fst (kvs_of b sel) = sel).
    { unfold kvs_of. rewrite map_map. cbn. apply map_id. }
    rewrite scan_sets_id; [| now rewrite Hfst | now rewrite Hfst | intros e []].
    assert (Hsnd : map snd (kvs_of b sel) = map (fun k => getset k b) sel).
    { unfold kvs_of. rewrite map_map. reflexivity. }
    rewrite Hsnd. split.
    - apply collect_NoDup. apply Forall_forall. intros s Hs. apply in_map_iff in Hs.
      destruct Hs as [k [<- _]]. now apply getset_NoDup.
    - intros n. rewrite collect_In. split.
      + intros [s [Hs Hn]]. apply in_map_iff in Hs. destruct Hs as [k [<- Hk]]. eauto.
      + intros [k [Hk Hn]]. exists (getset k b). split; [|exact Hn]. apply in_map_iff. eauto.
  Qed.

  Lemma filter_sel (f : bytes -> bool) b : wf_bucket b ->
    NoDup (filter f (b_keys b)) /\
    forall n, (exists k, In k (filter f (b_keys b)) /\ In n (getset k b)) <->
              (exists k, In n (getset k b) /\ f k = true).
  Proof.
    intros Hw. split; [apply NoDup_filter, ksorted_NoDup, (proj1 Hw)|].
    intros n. split.
    - intros [k [Hk Hn]]. apply filter_In in Hk. exists k. tauto.
    - intros [k [Hn Hf]]. exists k. split; [|exact Hn]. apply filter_In. split; [|exact Hf].
      eapply getset_key; eauto.
  Qed.

  (* Search at the level of keys: the ids posted under the keys the operator selects *)
  Theorem search_keys b op q e :
    wf_bucket b -> (forall k, In k (b_keys b) -> isenc k) -> op_scan op ->
    exists r, search enc dec veqb op q e b = Some r /\ NoDup r /\
      forall n, In n r <-> exists k, In n (getset k b) /\ key_matches op (enc q) (enc e) k = true.
  Proof.
    intros Hw He Hop.
    assert (Hs : ksorted (b_keys b)) by exact (proj1 Hw).
    assert (Hsel : forall f, (forall k, In k (filter f (b_keys b)) -> isenc k)).
    { intros f k Hk. apply filter_In in Hk. apply He. tauto. }
    assert (Hscan : forall f, exists r,
               Some (collect (scan_sets dec veqb (kvs_of b (filter f (b_keys b))) [])) = Some r /\ NoDup r /\
               forall n, In n r <-> exists k, In n (getset k b) /\ f k = true).
    { intros f. eexists. split; [reflexivity|].
      destruct (filter_sel f b Hw) as [Hnd Hiff].
      destruct (scan_result b _ Hw (Hsel f) Hnd) as [R1 R2].
      split; [exact R1|]. intros n. rewrite R2. apply Hiff. }
    assert (Hext : forall f g, (forall k, f k = g k) ->
               (exists r, Some (collect (scan_sets dec veqb (kvs_of b (filter f (b_keys b))) [])) = Some r /\ NoDup r /\
                  forall n, In n r <-> exists k, In n (getset k b) /\ f k = true) ->
               (exists r, Some (collect (scan_sets dec veqb (kvs_of b (filter f (b_keys b))) [])) = Some r /\ NoDup r /\
                  forall n, In n r <-> exists k, In n (getset k b) /\ g k = true)).
    { intros f g Hfg (r & R1 & R2 & R3). exists r. split; [exact R1|]. split; [exact R2|].
      intros n. rewrite R3. split; intros [k [K1 K2]]; exists k; split; auto; congruence. }
    unfold search, search_with.
    destruct Hop as [->|[->|[->|[->|[->|[->|[->| ->]]]]]]].
    - (* equals *)
      exists (getset (enc q) b). split; [reflexivity|]. split; [now apply getset_NoDup|].
      intros n. split.
      + intros H. exists (enc q). split; [exact H|]. rewrite key_matches_eq. apply bytes_eqb_refl.
      + intros [k [H1 H2]]. rewrite key_matches_eq in H2. apply bytes_eqb_eq in H2. now subst.
    - (* notEquals *)
      apply (Hext (fun k => negb (bytes_eqb k (enc q)))); [|apply Hscan].
      intros k. now rewrite key_matches_ne.
    - (* startsWith *)
      rewrite (bbolt_prefix_spec _ _ Hs). apply (Hext (is_prefix (enc q))); [|apply Hscan]. reflexivity.
    - rewrite (bbolt_range_spec _ _ _ _ Hs). apply (Hext _ _ (in_range_gt (enc q) (enc e))). apply Hscan.
    - rewrite (bbolt_range_spec _ _ _ _ Hs). apply (Hext _ _ (in_range_ge (enc q) (enc e))). apply Hscan.
    - rewrite (bbolt_range_spec _ _ _ _ Hs). apply (Hext _ _ (in_range_lt (enc q) (enc e))). apply Hscan.
    - rewrite (bbolt_range_spec _ _ _ _ Hs). apply (Hext _ _ (in_range_le (enc q) (enc e))). apply Hscan.
    - rewrite (bbolt_range_spec _ _ _ _ Hs). apply (Hext _ _ (in_range_range (enc q) (enc e))). apply Hscan.
  Qed.

  (* whatever the operator, a returned id is posted under some key *)
  Lemma scan_sets_sub kvs : forall c s, In s (scan_sets dec veqb kvs c) ->
    In s (map snd kvs) \/ In s (map snd c).
  Proof.
    induction kvs as [|[k s0] kvs IH]; intros c s H; cbn [scan_sets] in H; [destruct H|].
    destruct (find (fun e => veqb (fst e) (dec k)) c) as [e|] eqn:F; destruct H as [<-|H].
    - right. apply in_map. apply find_some in F. tauto.
    - destruct (IH _ _ H) as [H'|H']; [left; cbn; auto|auto].
    - left. cbn. auto.
    - destruct (IH _ _ H) as [H'|H']; [left; cbn; auto|]. cbn in H'. destruct H' as [<-|H']; [left; cbn; auto|auto].
  Qed.

  Lemma search_sound_any range prefix op q e b r n :
    search_with enc dec veqb range prefix op q e b = Some r -> In n r -> exists k, In n (getset k b).
  Proof.
    assert (Hscan : forall sel r, Some (collect (scan_sets dec veqb (kvs_of b sel) [])) = Some r ->
                      In n r -> exists k, In n (getset k b)).
    { intros sel r0 E Hn. inversion E; subst. apply collect_In in Hn. destruct Hn as [s [Hs Hn]].
      apply scan_sets_sub in Hs. destruct Hs as [Hs|[]].
      unfold kvs_of in Hs. rewrite map_map in Hs. apply in_map_iff in Hs. destruct Hs as [k [<- _]]. eauto. }
    unfold search_with. intros H Hn.
    destruct op as [|p]; [inversion H; subst; eauto|].
    do 3 (try match goal with p0 : positive |- _ => destruct p0; try discriminate end); eauto.
  Qed.

  (* both store backends give the same answer *)
  Theorem backends_agree b op q e : ksorted (b_keys b) ->
    search_mem enc dec veqb op q e b = search enc dec veqb op q e b.
  Proof.
    intros Hs. unfold search_mem, search, search_with.
    rewrite !mem_range_spec, !bbolt_range_spec by exact Hs.
    unfold mem_prefix. rewrite bbolt_prefix_spec by exact Hs. reflexivity.
  Qed.

  (* Search after a consistent history, in terms of the stored values' keys *)
  Theorem search_hist_keys hs op q e :
    consistent valid hs -> op_scan op ->
    exists r, search enc dec veqb op q e (run_history enc veqb hs) = Some r /\ NoDup r /\
      forall n, In n r <-> exists v, stored_after hs n = Some v /\
                                     key_matches op (enc q) (enc e) (enc v) = true.
  Proof.
    intros Hc Hop.
    pose proof (run_wf enc veqb valid enc_veqb hs Hc) as Hw.
    destruct (postings_inv enc veqb valid enc_veqb hs Hc) as (_ & _ & Hp).
    pose proof (run_stored_valid valid hs Hc) as Hsv.
    assert (Hkeys : forall k, In k (b_keys (run_history enc veqb hs)) -> isenc k).
    { intros k Hk. destruct (key_getset _ _ Hw Hk) as [n Hn]. apply Hp in Hn.
      destruct Hn as [v [S1 S2]]. exists v. split; [eapply Hsv; eauto|exact S2]. }
    destruct (search_keys _ op q e Hw Hkeys Hop) as (r & R1 & R2 & R3).
    exists r. split; [exact R1|]. split; [exact R2|]. intros n. rewrite R3. split.
    - intros [k [K1 K2]]. apply Hp in K1. destruct K1 as [v [S1 S2]]. exists v. split; [exact S1|now subst k].
    - intros [v [S1 S2]]. exists (enc v). split; [apply Hp; eauto|exact S2].
  Qed.

  (* ---- values: an order-embedding encoder ---- *)
  Variable vcmp : V -> V -> comparison.
  Hypothesis enc_cmp : forall a b, valid a -> valid b -> lex_compare (enc a) (enc b) = vcmp a b.

  Theorem search_values hs op q e :
    consistent valid hs -> valid q -> valid e -> op_num op ->
    exists r, search enc dec veqb op q e (run_history enc veqb hs) = Some r /\ NoDup r /\
      forall n, In n r <-> exists v, stored_after hs n = Some v /\
                                     cmp_matches op (vcmp v q) (vcmp v e) = true.
  Proof.
    intros Hc Hq He Hop.
    pose proof (run_stored_valid valid hs Hc) as Hsv.
    assert (Hop' : op_scan op) by (unfold op_num, op_scan in *; intuition).
    destruct (search_hist_keys hs op q e Hc Hop') as (r & R1 & R2 & R3).
    exists r. split; [exact R1|]. split; [exact R2|]. intros n. rewrite R3.
    assert (Hk : forall v, valid v ->
               key_matches op (enc q) (enc e) (enc v) = cmp_matches op (vcmp v q) (vcmp v e)).
    { intros v Hv. unfold key_matches.
      replace (op =? OP_PREFIX) with false
        by (unfold op_num, OP_PREFIX in *; symmetry; apply N.eqb_neq; lia).
      now rewrite !enc_cmp by assumption. }
    split; intros [v [S1 S2]]; exists v; (split; [exact S1|]);
      [rewrite <- Hk|rewrite Hk]; eauto.
  Qed.

  Theorem absent_never_matches hs n :
    consistent valid hs -> stored_after hs n = None ->
    (forall k, set_mem n (getset k (run_history enc veqb hs)) = false) /\
    (forall op q e r, search enc dec veqb op q e (run_history enc veqb hs) = Some r -> ~ In n r) /\
    (forall op q e r, search_mem enc dec veqb op q e (run_history enc veqb hs) = Some r -> ~ In n r).
  Proof.
    intros Hc Hn.
    destruct (postings_inv enc veqb valid enc_veqb hs Hc) as (_ & _ & Hp).
    assert (Hno : forall k, ~ In n (getset k (run_history enc veqb hs))).
    { intros k H. apply Hp in H. destruct H as [v [S1 _]]. congruence. }
    split; [intros k; apply set_mem_false, Hno|]. split.
    - intros op q e r H Hin. destruct (search_sound_any _ _ _ _ _ _ _ _ H Hin) as [k Hk]. exact (Hno k Hk).
    - intros op q e r H Hin. destruct (search_sound_any _ _ _ _ _ _ _ _ H Hin) as [k Hk]. exact (Hno k Hk).
  Qed.
End SearchProofs.

(* ========================= instances ====================================== *)

(* ---- integers ---- *)
Lemma int_enc_veqb a b : in_i64 a -> in_i64 b -> (Z.eqb a b = true <-> enc_i64 a = enc_i64 b).
Proof.
  intros Ha Hb. rewrite Z.eqb_eq, <- lex_compare_eq, enc_i64_compare by assumption.
  symmetry. apply Z.compare_eq_iff.
Qed.
Lemma int_dec_valid a : in_i64 a -> in_i64 (dec_i64 (enc_i64 a)).
Proof. intros Ha. now rewrite dec_enc_i64. Qed.
Lemma int_dec_enc a : in_i64 a -> enc_i64 (dec_i64 (enc_i64 a)) = enc_i64 a.
Proof. intros Ha. now rewrite dec_enc_i64. Qed.

Theorem int_postings_inv hs : consistent in_i64 hs ->
  let b := int_run hs in
  ksorted (b_keys b) /\
  (forall k s, b_get k b = Some s -> s <> [] /\ NoDup s) /\
  (forall k n, In n (getset k b) <-> exists v, stored_after hs n = Some v /\ enc_i64 v = k).
Proof. exact (postings_inv enc_i64 Z.eqb in_i64 int_enc_veqb hs). Qed.

Theorem int_search_exact hs op q e :
  consistent in_i64 hs -> in_i64 q -> in_i64 e -> op_num op ->
  exists r, int_search op q e (int_run hs) = Some r /\
    same_set r (fun n => exists v, stored_after hs n = Some v /\ matches_int op q e v = true).
Proof.
  intros Hc Hq He Hop.
  destruct (search_values enc_i64 dec_i64 Z.eqb in_i64 int_enc_veqb int_dec_valid int_dec_enc
              Z.compare enc_i64_compare hs op q e Hc Hq He Hop) as (r & R1 & R2 & R3).
  exists r. split; [exact R1|]. split; [exact R2|exact R3].
Qed.

(* ---- floats ---- *)
Lemma flt_enc_veqb a b : f64_valid a -> f64_valid b -> (f64_eq a b = true <-> enc_f64 a = enc_f64 b).
Proof.
  intros [Ha _] [Hb _]. unfold f64_eq. rewrite Z.eqb_eq, <- lex_compare_eq, enc_f64_compare by assumption.
  symmetry. apply Z.compare_eq_iff.
Qed.
Lemma flt_norm_valid a : f64_valid a -> f64_valid (if f64_is_zero a then 0 else a).
Proof. intros Ha. destruct (f64_is_zero a); [split; reflexivity|exact Ha]. Qed.
Lemma flt_dec_valid a : f64_valid a -> f64_valid (dec_f64 (enc_f64 a)).
Proof. intros Ha. rewrite dec_enc_f64 by exact (proj1 Ha). now apply flt_norm_valid. Qed.
Lemma flt_dec_enc a : f64_valid a -> enc_f64 (dec_f64 (enc_f64 a)) = enc_f64 a.
Proof.
  intros Ha. rewrite dec_enc_f64 by exact (proj1 Ha).
  apply (flt_enc_veqb _ _ (flt_norm_valid a Ha) Ha). apply f64_eq_norm.
Qed.
Lemma flt_enc_cmp a b : f64_valid a -> f64_valid b ->
  lex_compare (enc_f64 a) (enc_f64 b) = Z.compare (f64_ord a) (f64_ord b).
Proof. intros [Ha _] [Hb _]. now apply enc_f64_compare. Qed.

Theorem flt_postings_inv hs : consistent f64_valid hs ->
  let b := flt_run hs in
  ksorted (b_keys b) /\
  (forall k s, b_get k b = Some s -> s <> [] /\ NoDup s) /\
  (forall k n, In n (getset k b) <-> exists v, stored_after hs n = Some v /\ enc_f64 v = k).
Proof. exact (postings_inv enc_f64 f64_eq f64_valid flt_enc_veqb hs). Qed.

Theorem flt_search_exact hs op q e :
  consistent f64_valid hs -> f64_valid q -> f64_valid e -> op_num op ->
  exists r, flt_search op q e (flt_run hs) = Some r /\
    same_set r (fun n => exists v, stored_after hs n = Some v /\ matches_float op q e v = true).
Proof.
  intros Hc Hq He Hop.
  destruct (search_values enc_f64 dec_f64 f64_eq f64_valid flt_enc_veqb flt_dec_valid flt_dec_enc
              (fun a b => Z.compare (f64_ord a) (f64_ord b)) flt_enc_cmp hs op q e Hc Hq He Hop) as (r & R1 & R2 & R3).
  exists r. split; [exact R1|]. split; [exact R2|exact R3].
Qed.

(* ---- strings ---- *)
Lemma str_enc_veqb a b : any_str a -> any_str b -> (bytes_eqb a b = true <-> enc_str a = enc_str b).
Proof. intros _ _. apply bytes_eqb_eq. Qed.
Lemma str_dec_valid a : any_str a -> any_str (dec_str (enc_str a)).
Proof. intros _. exact I. Qed.
Lemma str_dec_enc a : any_str a -> enc_str (dec_str (enc_str a)) = enc_str a.
Proof. reflexivity. Qed.

Section StrProofs.
  Variable fold : bytes -> bytes.

  Lemma stored_from_fold cs : forall st st', (forall n, st' n = option_map fold (st n)) ->
    forall n, stored_from st' (map (str_change fold) cs) n = option_map fold (stored_from st cs n).
  Proof.
    induction cs as [|ch cs IH]; intros st st' H n; cbn; [apply H|].
    apply IH. intros m. unfold st_step. cbn. destruct (m =? c_id ch); [reflexivity|apply H].
  Qed.

  Lemma consistent_from_fold cs : forall st st', (forall n, st' n = option_map fold (st n)) ->
    consistent_from any_str st cs -> consistent_from any_str st' (map (str_change fold) cs).
  Proof.
    induction cs as [|ch cs IH]; intros st st' H Hc; cbn; [exact I|].
    cbn in Hc. destruct Hc as (H1 & _ & _ & H4).
    split; [rewrite H, <- H1; reflexivity|].
    split; [destruct (c_prev ch); exact I|]. split; [destruct (c_cur ch); exact I|].
    eapply IH; [|exact H4]. intros m. unfold st_step. cbn. destruct (m =? c_id ch); [reflexivity|apply H].
  Qed.

  Lemma stored_after_fold hs n :
    stored_after (map (map (str_change fold)) hs) n = option_map fold (stored_after hs n).
  Proof. unfold stored_after. rewrite <- concat_map. now apply stored_from_fold. Qed.

  Lemma consistent_fold hs : consistent any_str hs -> consistent any_str (map (map (str_change fold)) hs).
  Proof. unfold consistent. rewrite <- concat_map. now apply consistent_from_fold. Qed.

  Theorem str_postings_inv hs : consistent any_str hs ->
    let b := str_run fold hs in
    ksorted (b_keys b) /\
    (forall k s, b_get k b = Some s -> s <> [] /\ NoDup s) /\
    (forall k n, In n (getset k b) <-> exists x, stored_after hs n = Some x /\ fold x = k).
  Proof.
    intros Hc. cbn zeta. unfold str_run.
    destruct (postings_inv enc_str bytes_eqb any_str str_enc_veqb _ (consistent_fold hs Hc)) as (P1 & P2 & P3).
    split; [exact P1|]. split; [exact P2|]. intros k n. rewrite P3. split.
    - intros [v [S1 S2]]. rewrite stored_after_fold in S1. destruct (stored_after hs n) as [x|]; [|discriminate].
      exists x. split; [reflexivity|]. cbn in S1. injection S1 as <-. exact S2.
    - intros [x [S1 S2]]. exists (fold x). split; [|exact S2]. rewrite stored_after_fold, S1. reflexivity.
  Qed.

  Theorem str_search_exact hs op q e :
    consistent any_str hs -> op_scan op ->
    exists r, str_search fold op q e (str_run fold hs) = Some r /\
      same_set r (fun n => exists x, stored_after hs n = Some x /\
                                     matches_str op (fold q) (fold e) (fold x) = true).
  Proof.
    intros Hc Hop. unfold str_search, str_run.
    destruct (search_hist_keys enc_str dec_str bytes_eqb any_str str_enc_veqb str_dec_valid str_dec_enc
                _ op (fold q) (fold e) (consistent_fold hs Hc) Hop) as (r & R1 & R2 & R3).
    exists r. split; [exact R1|]. split; [exact R2|]. intros n. rewrite R3. split.
    - intros [v [S1 S2]]. rewrite stored_after_fold in S1. destruct (stored_after hs n) as [x|]; [|discriminate].
      exists x. split; [reflexivity|]. cbn in S1. injection S1 as <-. exact S2.
    - intros [x [S1 S2]]. exists (fold x). split; [|exact S2]. rewrite stored_after_fold, S1. reflexivity.
  Qed.
End StrProofs.

(* ========================= string arrays ================================== *)

Lemma mem_bytes_In x l : mem_bytes x l = true <-> In x l.
Proof.
  unfold mem_bytes. rewrite existsb_exists. split.
  - intros [y [H1 H2]]. apply bytes_eqb_eq in H2. now subst.
  - intros H. exists x. split; [exact H|apply bytes_eqb_refl].
Qed.

Lemma mem_bytes_filter k f l : mem_bytes k (filter f l) = mem_bytes k l && f k.
Proof.
  apply eq_true_iff_eq. rewrite andb_true_iff, !mem_bytes_In, filter_In. tauto.
Qed.

Lemma mem_v_bytes v l : mem_v bytes_eqb v l = mem_bytes v l.
Proof. reflexivity. Qed.

Lemma mem_bytes_dedup k l : mem_bytes k (dedup_v bytes_eqb l) = mem_bytes k l.
Proof.
  induction l as [|x l IH]; cbn [dedup_v]; [reflexivity|].
  destruct (mem_v bytes_eqb x l) eqn:E; cbn.
  - rewrite IH. destruct (bytes_eqb k x) eqn:F; [|reflexivity].
    apply bytes_eqb_eq in F. subst. rewrite mem_v_bytes in E. now rewrite E.
  - fold (mem_bytes k (dedup_v bytes_eqb l)). fold (mem_bytes k l). now rewrite IH.
Qed.

Definition spost_steps := post_steps enc_str bytes_eqb.

Lemma ins_steps id l : forall p k n,
  spost_steps (map (fun v => mkChange id None (Some v)) l) p k n = p k n || ((n =? id) && mem_bytes k l).
Proof.
  unfold spost_steps, post_steps. induction l as [|v l IH]; intros p k n; cbn [map fold_left].
  - cbn. now rewrite andb_false_r, orb_false_r.
  - rewrite IH. unfold post_step, pupd, gadd, enc_str, mem_bytes. cbn.
    destruct (bytes_eqb k v), (n =? id), (p k n), (existsb (bytes_eqb k) l); reflexivity.
Qed.

Lemma del_steps id l : forall p k n,
  spost_steps (map (fun v => mkChange id (Some v) None) l) p k n = p k n && negb ((n =? id) && mem_bytes k l).
Proof.
  unfold spost_steps, post_steps. induction l as [|v l IH]; intros p k n; cbn [map fold_left].
  - cbn. now rewrite andb_false_r, andb_true_r.
  - rewrite IH. unfold post_step, pupd, gdel, enc_str, mem_bytes. cbn.
    destruct (bytes_eqb k v), (n =? id), (p k n), (existsb (bytes_eqb k) l); reflexivity.
Qed.

Lemma arr_expand_steps a p :
  (forall k, p k (a_id a) = mem_bytes k (a_prev a)) ->
  forall k n, spost_steps (arr_expand bytes_eqb a) p k n = if n =? a_id a then mem_bytes k (a_cur a) else p k n.
Proof.
  intros Hp k n. unfold arr_expand, spost_steps. rewrite post_steps_app.
  fold spost_steps. rewrite del_steps, ins_steps.
  rewrite !mem_bytes_filter, mem_bytes_dedup. cbv beta.
  change (mem_v bytes_eqb k (a_prev a)) with (mem_bytes k (a_prev a)).
  change (mem_v bytes_eqb k (a_cur a)) with (mem_bytes k (a_cur a)).
  destruct (N.eqb_spec n (a_id a)) as [->|Hn]; cbn [andb orb negb].
  - rewrite Hp. destruct (mem_bytes k (a_prev a)), (mem_bytes k (a_cur a)); reflexivity.
  - now rewrite orb_false_r, andb_true_r.
Qed.

Definition post_of_arr (st : N -> list bytes) : post := fun k n => mem_bytes k (st n).

Lemma arr_steps_consistent cs : forall st, aconsistent_from st cs ->
  forall k n, spost_steps (flat_map (arr_expand bytes_eqb) cs) (post_of_arr st) k n
              = post_of_arr (fold_left ast_step cs st) k n.
Proof.
  induction cs as [|a cs IH]; intros st Hc k n; cbn [flat_map fold_left]; [reflexivity|].
  cbn in Hc. destruct Hc as [H1 H2].
  unfold spost_steps. rewrite post_steps_app. fold spost_steps.
  unfold spost_steps. rewrite (post_steps_ext enc_str bytes_eqb _ _ (post_of_arr (ast_step st a))).
  - apply IH. exact H2.
  - intros k' n'. fold spost_steps. rewrite arr_expand_steps.
    + unfold post_of_arr, ast_step. destruct (n' =? a_id a); reflexivity.
    + intros k0. unfold post_of_arr. now rewrite H1.
Qed.

Lemma arr_run_unfold hs : forall b,
  fold_left (arr_apply_batch enc_str bytes_eqb) hs b
  = fold_left (apply_batch enc_str bytes_eqb) (map (flat_map (arr_expand bytes_eqb)) hs) b.
Proof. induction hs as [|cs hs IH]; intros b; cbn; [reflexivity|]. apply IH. Qed.

Lemma concat_flat_map {A B} (f : A -> list B) (hs : list (list A)) :
  concat (map (flat_map f) hs) = flat_map f (concat hs).
Proof.
  induction hs as [|cs hs IH]; cbn; [reflexivity|]. rewrite IH. symmetry. apply flat_map_app.
Qed.

Lemma all_changes_valid (cs : list (@change bytes)) : Forall (change_valid any_str) cs.
Proof. apply Forall_forall. intros ch _. split; [destruct (c_prev ch)|destruct (c_cur ch)]; exact I. Qed.

Lemma arr_inv hs : aconsistent hs ->
  let b := arr_run_history enc_str bytes_eqb hs in
  wf_bucket b /\ forall k n, In n (getset k b) <-> In k (astored_after hs n).
Proof.
  intros Hc. cbn zeta. unfold arr_run_history. rewrite arr_run_unfold.
  destruct (history_inv enc_str bytes_eqb any_str str_enc_veqb (map (flat_map (arr_expand bytes_eqb)) hs)
              [] (fun _ _ => false) wf_nil represents_nil (all_changes_valid _)) as [Hw Hr].
  split; [exact Hw|]. intros k n. rewrite <- set_mem_In, (Hr k n), concat_flat_map.
  rewrite (post_steps_ext enc_str bytes_eqb _ _ (post_of_arr (fun _ => []))) by reflexivity.
  fold spost_steps. rewrite (arr_steps_consistent _ _ Hc). unfold post_of_arr.
  fold (astored_after hs). apply mem_bytes_In.
Qed.

Section StrArrProofs.
  Variable fold : bytes -> bytes.

  Lemma astored_fold cs : forall st st', (forall n, st' n = map fold (st n)) ->
    forall n, fold_left ast_step (map (sarr_change fold) cs) st' n = map fold (fold_left ast_step cs st n).
  Proof.
    induction cs as [|a cs IH]; intros st st' H n; cbn; [apply H|].
    apply IH. intros m. unfold ast_step. cbn. destruct (m =? a_id a); [reflexivity|apply H].
  Qed.

  Lemma aconsistent_fold cs : forall st st', (forall n, st' n = map fold (st n)) ->
    aconsistent_from st cs -> aconsistent_from st' (map (sarr_change fold) cs).
  Proof.
    induction cs as [|a cs IH]; intros st st' H Hc; cbn; [exact I|].
    cbn in Hc. destruct Hc as [H1 H2]. split; [now rewrite H, H1|].
    eapply IH; [|exact H2]. intros m. unfold ast_step. cbn. destruct (m =? a_id a); [reflexivity|apply H].
  Qed.

  Theorem sarr_postings_inv hs : aconsistent hs ->
    let b := sarr_run fold hs in
    ksorted (b_keys b) /\
    (forall k s, b_get k b = Some s -> s <> [] /\ NoDup s) /\
    (forall k n, In n (getset k b) <-> In k (map fold (astored_after hs n))).
  Proof.
    intros Hc. cbn zeta. unfold sarr_run.
    assert (Hc' : aconsistent (map (map (sarr_change fold)) hs)).
    { unfold aconsistent in *. rewrite <- concat_map. eapply aconsistent_fold; [|exact Hc]. reflexivity. }
    destruct (arr_inv _ Hc') as [Hw Hr].
    split; [exact (proj1 Hw)|]. split; [intros k s Hg; exact (wf_get _ _ _ Hw Hg)|].
    intros k n. rewrite Hr. unfold astored_after. rewrite <- concat_map.
    rewrite (astored_fold _ (fun _ => []) (fun _ => [])) by reflexivity. reflexivity.
  Qed.

  Theorem sarr_search_exact hs op qs :
    aconsistent hs -> qs <> [] -> op = OP_ALL \/ op = OP_ANY ->
    exists r, sarr_search fold op qs (sarr_run fold hs) = Some r /\
      same_set r (fun n =>
        (if op =? OP_ALL then forallb (fun x => mem_bytes x (map fold (astored_after hs n))) (map fold qs)
         else existsb (fun x => mem_bytes x (map fold (astored_after hs n))) (map fold qs)) = true).
  Proof.
    intros Hc Hne Hop.
    destruct (sarr_postings_inv hs Hc) as (P1 & P2 & P3).
    set (b := sarr_run fold hs) in *.
    assert (Hw : wf_bucket b).
    { split; [exact P1|]. apply Forall_forall. intros [k s] Hin. cbn. apply (P2 k).
      pose proof (ksorted_NoDup _ P1) as Hnd. clear -Hin Hnd.
      induction b as [|[k0 s0] b IH]; [destruct Hin|]. cbn in *. inversion Hnd as [|? ? Hn1 Hn2]; subst.
      destruct Hin as [E|Hin].
      - inversion E; subst. now rewrite bytes_eqb_refl.
      - destruct (bytes_eqb k k0) eqn:F; [|now apply IH].
        apply bytes_eqb_eq in F. subst. exfalso. apply Hn1. change k0 with (fst (k0, s)). now apply in_map. }
    unfold sarr_search, arr_search.
    set (res := map (fun q => getset (enc_str q) b) (map fold qs)).
    assert (Hres : Forall (@NoDup N) res).
    { apply Forall_forall. intros s Hs. apply in_map_iff in Hs. destruct Hs as [q [<- _]]. now apply getset_NoDup. }
    assert (Hin : forall n s, In s res -> (In n s <-> exists q, In q (map fold qs) /\
                     s = getset q b /\ mem_bytes q (map fold (astored_after hs n)) = true)).
    { intros n s Hs. apply in_map_iff in Hs. destruct Hs as [q [<- Hq]]. unfold enc_str. split.
      - intros H. exists q. split; [exact Hq|]. split; [reflexivity|]. apply mem_bytes_In. now apply P3.
      - intros [q' [_ [E H]]]. rewrite E. apply P3. now apply mem_bytes_In. }
    assert (Hall : forall n, (forall s, In s res -> In n s) <->
              forallb (fun x => mem_bytes x (map fold (astored_after hs n))) (map fold qs) = true).
    { intros n. rewrite forallb_forall. split.
      - intros H q Hq. apply mem_bytes_In, P3. apply H. unfold res. apply in_map_iff. exists q. auto.
      - intros H s Hs. apply in_map_iff in Hs. destruct Hs as [q [<- Hq]]. apply P3. apply mem_bytes_In. now apply H. }
    assert (Hany : forall n, (exists s, In s res /\ In n s) <->
              existsb (fun x => mem_bytes x (map fold (astored_after hs n))) (map fold qs) = true).
    { intros n. rewrite existsb_exists. split.
      - intros [s [Hs Hn]]. apply in_map_iff in Hs. destruct Hs as [q [<- Hq]]. exists q. split; [exact Hq|].
        apply mem_bytes_In. now apply P3.
      - intros [q [Hq H]]. exists (getset q b). split; [unfold res; apply in_map_iff; exists q; auto|].
        apply P3. now apply mem_bytes_In. }
    assert (Hresne : res <> []) by (unfold res; destruct qs; [congruence|discriminate]).
    destruct (map fold qs) as [|q1 qs'] eqn:Eq; [destruct qs; [congruence|discriminate]|].
    destruct Hop as [-> | ->]; cbn [N.eqb OP_ALL OP_ANY Pos.eqb].
    - (* containsAll *)
      destruct res as [|r1 [|r2 rr]] eqn:Er; [congruence| |].
      + exists r1. split; [reflexivity|]. split; [now inversion Hres|].
        intros n. rewrite <- Hall. split; [intros H s [<-|[]]; exact H|intros H; apply H; now left].
      + exists (fast_and (r1 :: r2 :: rr)). split; [reflexivity|]. split; [now apply fast_and_NoDup|].
        intros n. rewrite <- Hall. now apply fast_and_In.
    - (* containsAny *)
      destruct res as [|r1 [|r2 rr]] eqn:Er; [congruence| |].
      + exists r1. split; [reflexivity|]. split; [now inversion Hres|].
        intros n. rewrite <- Hany. split; [intros H; exists r1; cbn; auto|intros [s [[<-|[]] H]]; exact H].
      + exists (fast_or (r1 :: r2 :: rr)). split; [reflexivity|]. split; [apply fast_or_NoDup|].
        intros n. rewrite <- Hany. apply fast_or_In.
  Qed.

  Theorem sarr_absent hs n : aconsistent hs -> astored_after hs n = [] ->
    forall k, ~ In n (getset k (sarr_run fold hs)).
  Proof.
    intros Hc Hn k H. destruct (sarr_postings_inv hs Hc) as (_ & _ & P3).
    apply P3 in H. rewrite Hn in H. destruct H.
  Qed.
End StrArrProofs.

(* ========================= boolean combinations =========================== *)

Lemma mem_ids_inter x a b : mem_bytes x (ids_inter a b) = mem_bytes x a && mem_bytes x b.
Proof. unfold ids_inter. apply mem_bytes_filter. Qed.

Lemma mem_ids_union x a b : mem_bytes x (ids_union a b) = mem_bytes x a || mem_bytes x b.
Proof.
  apply eq_true_iff_eq. rewrite orb_true_iff, !mem_bytes_In. unfold ids_union.
  rewrite in_app_iff, filter_In, negb_true_iff. split.
  - intros [H|[H _]]; auto.
  - intros [H|H]; [auto|]. destruct (mem_bytes x a) eqn:E; [left; now apply mem_bytes_In|right; auto].
Qed.

Lemma answer_and_nil sc t live : answer sc t live (QAnd []) = Some (map fst live).
Proof. reflexivity. Qed.
Lemma answer_and_cons sc t live q qs :
  answer sc t live (QAnd (q :: qs)) =
  match answer sc t live q, answer sc t live (QAnd qs) with
  | Some a, Some b => Some (ids_inter a b) | _, _ => None end.
Proof. reflexivity. Qed.
Lemma answer_or_nil sc t live : answer sc t live (QOr []) = Some [].
Proof. reflexivity. Qed.
Lemma answer_or_cons sc t live q qs :
  answer sc t live (QOr (q :: qs)) =
  match answer sc t live q, answer sc t live (QOr qs) with
  | Some a, Some b => Some (ids_union a b) | _, _ => None end.
Proof. reflexivity. Qed.

Lemma answer_and_spec sc t live qs : forall r, answer sc t live (QAnd qs) = Some r ->
  exists subs, Forall2 (fun q a => answer sc t live q = Some a) qs subs /\
    forall x, mem_bytes x r = mem_bytes x (map fst live) && forallb (mem_bytes x) subs.
Proof.
  induction qs as [|q qs IH]; intros r H.
  - rewrite answer_and_nil in H. inversion H; subst. exists []. split; [constructor|].
    intros x. cbn. now rewrite andb_true_r.
  - rewrite answer_and_cons in H.
    destruct (answer sc t live q) as [a|] eqn:Ea; [|discriminate].
    destruct (answer sc t live (QAnd qs)) as [b|] eqn:Eb; [|discriminate].
    inversion H; subst. destruct (IH b eq_refl) as [subs [F Hm]].
    exists (a :: subs). split; [now constructor|].
    intros x. rewrite mem_ids_inter, Hm. cbn.
    destruct (mem_bytes x a), (mem_bytes x (map fst live)); reflexivity.
Qed.

Lemma answer_or_spec sc t live qs : forall r, answer sc t live (QOr qs) = Some r ->
  exists subs, Forall2 (fun q a => answer sc t live q = Some a) qs subs /\
    forall x, mem_bytes x r = existsb (mem_bytes x) subs.
Proof.
  induction qs as [|q qs IH]; intros r H.
  - rewrite answer_or_nil in H. inversion H; subst. exists []. split; [constructor|reflexivity].
  - rewrite answer_or_cons in H.
    destruct (answer sc t live q) as [a|] eqn:Ea; [|discriminate].
    destruct (answer sc t live (QOr qs)) as [b|] eqn:Eb; [|discriminate].
    inversion H; subst. destruct (IH b eq_refl) as [subs [F Hm]].
    exists (a :: subs). split; [now constructor|].
    intros x. rewrite mem_ids_union, Hm. reflexivity.
Qed.

(* ========================= remarks and refutations ======================== *)

Lemma is_prefix_same_len a : forall b, length a = length b -> (is_prefix a b = true <-> a = b).
Proof.
  induction a as [|x a IH]; intros [|y b] Hl; cbn in *; try discriminate; [tauto|].
  rewrite andb_true_iff, N.eqb_eq, IH by lia. split; [intros [-> ->]; reflexivity|].
  intros E; inversion E; auto.
Qed.

Lemma enc_f64_length b : length (enc_f64 b) = 8%nat.
Proof. unfold enc_f64, enc_f64_with. apply be_length. Qed.

(* startsWith on a numeric index (refused by the API) behaves as equals in M *)
Lemma int_startswith_is_equals hs q e : consistent in_i64 hs -> in_i64 q ->
  exists r, int_search OP_PREFIX q e (int_run hs) = Some r /\
    same_set r (fun n => stored_after hs n = Some q).
Proof.
  intros Hc Hq.
  destruct (search_hist_keys enc_i64 dec_i64 Z.eqb in_i64 int_enc_veqb int_dec_valid int_dec_enc
              hs OP_PREFIX q e Hc) as (r & R1 & R2 & R3); [unfold op_scan, OP_PREFIX; tauto|].
  exists r. split; [exact R1|]. split; [exact R2|]. intros n. rewrite R3.
  pose proof (run_stored_valid in_i64 hs Hc) as Hsv. split.
  - intros [v [S1 S2]]. rewrite key_matches_prefix in S2.
    apply is_prefix_same_len in S2; [|now rewrite !enc_i64_length].
    apply (int_enc_veqb q v Hq (Hsv _ _ S1)) in S2. apply Z.eqb_eq in S2. now subst.
  - intros S1. exists q. split; [exact S1|]. rewrite key_matches_prefix.
    apply is_prefix_same_len; [now rewrite !enc_i64_length|reflexivity].
Qed.

Lemma hs_nz_two_consistent : consistent f64_valid hs_nz_two.
Proof. vm_compute. repeat split. Qed.
Lemma hs_nz_one_consistent : consistent f64_valid hs_nz_one.
Proof. vm_compute. repeat split. Qed.

(* F1: with the pinned float encoder the search theorem is false ... *)
Lemma negzero_search_refuted :
  ~ (forall hs op q e, consistent f64_valid hs -> f64_valid q -> f64_valid e -> op_num op ->
       exists r, flt0_search op q e (flt0_run hs) = Some r /\
         same_set r (fun n => exists v, stored_after hs n = Some v /\ matches_float op q e v = true)).
Proof.
  intros H.
  destruct (H hs_nz_two OP_EQ 0 0 hs_nz_two_consistent) as (r & R1 & _ & R3);
    [split; reflexivity|split; reflexivity|unfold op_num, OP_EQ; tauto|].
  vm_compute in R1. inversion R1; subst.
  assert (Hin : In 1 [2]).
  { apply R3. exists two63. split; vm_compute; reflexivity. }
  destruct Hin as [E|[]]. discriminate.
Qed.

(* ... and so is the postings invariant (one batch: the cache entry of -0.0 swallows +0.0) *)
Lemma negzero_postings_refuted :
  ~ (forall hs, consistent f64_valid hs ->
       forall k n, In n (getset k (flt0_run hs)) <-> exists v, stored_after hs n = Some v /\ enc_f64_v0 v = k).
Proof.
  intros H. pose proof (proj1 (H hs_nz_one hs_nz_one_consistent (enc_f64_v0 two63) 2)) as H1.
  destruct H1 as [v [S1 S2]]; [vm_compute; auto|].
  vm_compute in S1. inversion S1; subst. vm_compute in S2. discriminate.
Qed.

Lemma negzero_facts :
  flt0_search OP_EQ 0 0 (flt0_run hs_nz_two) = Some [2] /\             (* equals 0.0 misses -0.0 *)
  flt0_search OP_LT bits_m1 bits_m1 (flt0_run hs_nz_two) = Some [1] /\  (* lessThan -1.0 returns -0.0 *)
  matches_float OP_LT bits_m1 bits_m1 two63 = false /\
  flt0_search OP_EQ 0 0 (flt0_run hs_nz_one) = Some [] /\              (* equals 0.0 finds nothing *)
  flt_search OP_EQ 0 0 (flt_run hs_nz_two) = Some [1; 2] /\            (* repaired encoder *)
  flt_search OP_EQ 0 0 (flt_run hs_nz_one) = Some [1; 2] /\
  flt_search OP_LT bits_m1 bits_m1 (flt_run hs_nz_two) = Some [].
Proof. vm_compute. repeat split. Qed.

(* F2: folding only the start value of a range *)
Lemma hs_fold_consistent : consistent any_str hs_fold.
Proof. vm_compute. repeat split. Qed.

Lemma range_fold_refuted :
  ~ (forall fold hs op q e, consistent any_str hs -> op_scan op ->
       exists r, str_search_v0 fold op q e (str_run fold hs) = Some r /\
         same_set r (fun n => exists x, stored_after hs n = Some x /\
                                        matches_str op (fold q) (fold e) (fold x) = true)).
Proof.
  intros H.
  destruct (H ascii_lower hs_fold OP_RANGE [65] [67] hs_fold_consistent) as (r & R1 & _ & R3);
    [unfold op_scan, OP_RANGE; tauto|].
  vm_compute in R1. inversion R1; subst.
  assert (Hin : In 1 (@nil N)).
  { apply R3. exists [98]. split; vm_compute; reflexivity. }
  destruct Hin.
Qed.

Lemma range_fold_facts :
  str_search_v0 ascii_lower OP_RANGE [65] [67] (str_run ascii_lower hs_fold) = Some [] /\
  str_search ascii_lower OP_RANGE [65] [67] (str_run ascii_lower hs_fold) = Some [1] /\
  matches_str OP_RANGE (ascii_lower [65]) (ascii_lower [67]) (ascii_lower [98]) = true.
Proof. vm_compute. repeat split. Qed.

(* ========================= both backends, top level ======================= *)

Lemma int_backends hs op q e : consistent in_i64 hs ->
  int_search_mem op q e (int_run hs) = int_search op q e (int_run hs).
Proof. intros Hc. apply backends_agree. exact (proj1 (int_postings_inv hs Hc)). Qed.
Lemma flt_backends hs op q e : consistent f64_valid hs ->
  flt_search_mem op q e (flt_run hs) = flt_search op q e (flt_run hs).
Proof. intros Hc. apply backends_agree. exact (proj1 (flt_postings_inv hs Hc)). Qed.
Lemma str_backends fold hs op q e : consistent any_str hs ->
  str_search_mem fold op q e (str_run fold hs) = str_search fold op q e (str_run fold hs).
Proof. intros Hc. apply backends_agree. exact (proj1 (str_postings_inv fold hs Hc)). Qed.

(* ========================= the shape of the reference spec ================ *)
(* Model_C02.leaf_matches is "the operator's predicate on the extracted field
   value, false when the field is absent or ill-typed": the right-hand sides
   of the search theorems with  stored n := the field of the document of n. *)

Lemma leaf_int_shape sc t p op q e d : schema_get p sc = Some IInt ->
  leaf_matches sc t (QInt p op q e) d =
  Some (match field_int p d with Some x => matches_int op q e x | None => false end).
Proof.
  intros H. unfold leaf_matches, field_int. rewrite H.
  destruct (prop_value p d) as [| |v]; try reflexivity. destruct v; reflexivity.
Qed.

Lemma leaf_f64_shape sc t p op q e d : schema_get p sc = Some IFloat ->
  leaf_matches sc t (QFloat p op q e) d =
  Some (match field_f64 p d with Some x => matches_float op q e x | None => false end).
Proof.
  intros H. unfold leaf_matches, field_f64. rewrite H.
  destruct (prop_value p d) as [| |v]; try reflexivity. destruct v; reflexivity.
Qed.

Lemma leaf_str_shape sc t cs fold p op q e d : schema_get p sc = Some (IStr cs) ->
  (forall s, fold_str cs t s = Some (fold s)) ->
  leaf_matches sc t (QStr p op q e) d =
  Some (match field_str p d with Some x => matches_str op (fold q) (fold e) (fold x) | None => false end).
Proof.
  intros H Hf. unfold leaf_matches, field_str. rewrite H, !Hf.
  destruct (prop_value p d) as [| |v]; try reflexivity. destruct v; try reflexivity. now rewrite Hf.
Qed.

Lemma map_opt_total {A B} (f : A -> option B) (g : A -> B) l :
  (forall x, f x = Some (g x)) -> map_opt f l = Some (map g l).
Proof. intros H. induction l as [|x l IH]; cbn; [reflexivity|]. now rewrite H, IH. Qed.

Lemma leaf_strarr_shape sc t cs fold p op qs d : schema_get p sc = Some (IStrArr cs) ->
  (forall s, fold_str cs t s = Some (fold s)) -> qs <> [] -> op = OP_ALL \/ op = OP_ANY ->
  leaf_matches sc t (QStrArr p op qs) d =
  Some (if op =? OP_ALL then forallb (fun x => mem_bytes x (map fold (field_strs p d))) (map fold qs)
        else existsb (fun x => mem_bytes x (map fold (field_strs p d))) (map fold qs)).
Proof.
  intros H Hf Hne Hop. unfold leaf_matches, field_strs. rewrite H.
  rewrite (map_opt_total _ fold qs Hf).
  assert (Hempty : Some false = Some (if op =? OP_ALL
             then forallb (fun x => mem_bytes x (map fold [])) (map fold qs)
             else existsb (fun x => mem_bytes x (map fold [])) (map fold qs))).
  { destruct qs as [|q0 qs]; [congruence|]. destruct Hop as [-> | ->]; cbn; [reflexivity|].
    f_equal. symmetry. clear. induction qs as [|x qs IH]; cbn; [reflexivity|exact IH]. }
  destruct (prop_value p d) as [| |v]; try exact Hempty. destruct v; try exact Hempty.
  rewrite (map_opt_total _ fold _ Hf).
  destruct Hop as [-> | ->]; reflexivity.
Qed.

(* ========================= Go's map iteration order ======================= *)
(* flush ranges over the set cache in unspecified order; the model uses creation
   order.  With pairwise distinct keys (invariant ci_keys) any order gives the
   same bucket contents. *)
Section FlushOrder.
  Context {V : Type}.
  Variable enc : V -> bytes.

  Lemma NoDup_map_inj {A B} (f : A -> B) l a b :
    NoDup (map f l) -> In a l -> In b l -> f a = f b -> a = b.
  Proof.
    induction l as [|x l IH]; intros Hnd Ha Hb E; [destruct Ha|].
    cbn in Hnd. inversion Hnd as [|? ? Hn1 Hn2]; subst.
    destruct Ha as [<-|Ha], Hb as [<-|Hb]; auto.
    - exfalso. apply Hn1. rewrite E. now apply in_map.
    - exfalso. apply Hn1. rewrite <- E. now apply in_map.
  Qed.

  Lemma find_key_perm (c c' : @cache V) k :
    Permutation c c' -> NoDup (map (ckey enc) c) ->
    find (fun it => bytes_eqb k (ckey enc it)) c = find (fun it => bytes_eqb k (ckey enc it)) c'.
  Proof.
    intros Hp Hnd.
    destruct (find (fun it => bytes_eqb k (ckey enc it)) c) as [it|] eqn:F;
    destruct (find (fun it => bytes_eqb k (ckey enc it)) c') as [it'|] eqn:F'; try reflexivity.
    - apply find_some in F. apply find_some in F'. destruct F as [F1 F2], F' as [F1' F2'].
      apply bytes_eqb_eq in F2. apply bytes_eqb_eq in F2'. f_equal.
      apply (NoDup_map_inj (ckey enc) c); auto.
      + eapply Permutation_in; [apply Permutation_sym; exact Hp|exact F1'].
      + congruence.
    - apply find_some in F. destruct F as [F1 F2].
      pose proof (find_none _ _ F' it (Permutation_in _ Hp F1)) as H. cbn in H. congruence.
    - apply find_some in F'. destruct F' as [F1 F2].
      pose proof (find_none _ _ F it' (Permutation_in _ (Permutation_sym Hp) F1)) as H. cbn in H. congruence.
  Qed.

  Lemma flush_order_irrelevant (c c' : @cache V) b :
    Permutation c c' -> NoDup (map (ckey enc) c) ->
    forall k, b_get k (flush enc c b) = b_get k (flush enc c' b).
  Proof.
    intros Hp Hnd k.
    assert (Hnd' : NoDup (map (ckey enc) c')).
    { eapply Permutation_NoDup; [|exact Hnd]. now apply Permutation_map. }
    rewrite (flush_get enc c b k Hnd), (flush_get enc c' b k Hnd').
    now rewrite (find_key_perm c c' k Hp Hnd).
  Qed.
End FlushOrder.

(* ========================= operators outside the API ====================== *)
Lemma flt_startswith_is_equals hs q e : consistent f64_valid hs -> f64_valid q ->
  exists r, flt_search OP_PREFIX q e (flt_run hs) = Some r /\
    same_set r (fun n => exists v, stored_after hs n = Some v /\ f64_eq v q = true).
Proof.
  intros Hc Hq.
  destruct (search_hist_keys enc_f64 dec_f64 f64_eq f64_valid flt_enc_veqb flt_dec_valid flt_dec_enc
              hs OP_PREFIX q e Hc) as (r & R1 & R2 & R3); [unfold op_scan, OP_PREFIX; tauto|].
  exists r. split; [exact R1|]. split; [exact R2|]. intros n. rewrite R3.
  pose proof (run_stored_valid f64_valid hs Hc) as Hsv. split.
  - intros [v [S1 S2]]. exists v. split; [exact S1|]. rewrite key_matches_prefix in S2.
    apply is_prefix_same_len in S2; [|now rewrite !enc_f64_length].
    apply (flt_enc_veqb v q (Hsv _ _ S1) Hq). now symmetry.
  - intros [v [S1 S2]]. exists v. split; [exact S1|]. rewrite key_matches_prefix.
    apply is_prefix_same_len; [now rewrite !enc_f64_length|].
    symmetry. now apply (flt_enc_veqb v q (Hsv _ _ S1) Hq).
Qed.

Lemma search_unknown_op {V : Type} (enc : V -> bytes) dec veqb op q e b :
  7 < op -> search enc dec veqb op q e b = None.
Proof.
  intros H. unfold search, search_with.
  destruct op as [|p]; [lia|].
  do 3 (try match goal with p0 : positive |- _ => destruct p0; try reflexivity; try lia end).
Qed.
