(* Proofs_C02.v -- lemmas about the inverted-index mechanism Model_C02M.v and
   the reference spec Model_C02.v *)
From Coq Require Import List NArith ZArith Lia Bool Arith Sorted Permutation.
From Coq Require Import ZifyBool ZifyN ZifyNat.
From Semadb Require Import Bytes U64 KV KeyLayout Model_C19 Proofs_C19 Value Obs Model_C01 Model_C02 Model_C02M.
Import ListNotations.
Open Scope N_scope.

(* ========================= id sets ======================================== *)

Lemma set_mem_In n s : set_mem n s = true <-> In n s.
Proof.
  induction s as [|x s IH]; cbn; [split; [discriminate|tauto]|].
  rewrite orb_true_iff, N.eqb_eq, IH. split; intros [H|H]; auto.
Qed.

Lemma set_mem_false n s : set_mem n s = false <-> ~ In n s.
Proof. rewrite <- set_mem_In. destruct (set_mem n s); split; congruence. Qed.

Lemma set_ins_In n s x : In x (set_ins n s) <-> x = n \/ In x s.
Proof.
  induction s as [|y s IH]; cbn; [split; intros [H|H]; auto; contradiction|].
  destruct (n <? y); cbn; [split; intros [H|H]; auto|].
  rewrite IH. split; intros H; tauto.
Qed.

Lemma set_ins_NoDup n s : NoDup s -> ~ In n s -> NoDup (set_ins n s).
Proof.
  induction s as [|y s IH]; intros Hs Hn; cbn.
  - constructor; [tauto|constructor].
  - destruct (n <? y); [constructor; assumption|].
    inversion Hs as [|? ? Hy Hs']; subst. constructor.
    + rewrite set_ins_In. intros [->|H]; [apply Hn; now left|contradiction].
    + apply IH; [assumption|]. intros H; apply Hn; now right.
Qed.

(* the effect of CheckedAdd / CheckedRemove, abstractly: g n m = new membership of n from the old one *)
Definition fspec (f : idset -> idset * bool) (g : N -> bool -> bool) : Prop :=
  forall s, NoDup s ->
    NoDup (fst (f s)) /\ (forall n, set_mem n (fst (f s)) = g n (set_mem n s)) /\
    (snd (f s) = false -> fst (f s) = s).

Definition gadd (id n : N) (m : bool) : bool := (n =? id) || m.
Definition gdel (id n : N) (m : bool) : bool := negb (n =? id) && m.

Lemma set_add_spec id : fspec (set_add id) (gadd id).
Proof.
  intros s Hs. unfold set_add, gadd. destruct (set_mem id s) eqn:E; cbn [fst snd].
  - split; [exact Hs|]. split; [|reflexivity]. intros n.
    destruct (N.eqb_spec n id) as [->|]; cbn; [now rewrite E|reflexivity].
  - split; [apply set_ins_NoDup; [exact Hs|now apply set_mem_false]|]. split; [|discriminate].
    intros n. apply eq_true_iff_eq. rewrite set_mem_In, set_ins_In, orb_true_iff, N.eqb_eq, set_mem_In. tauto.
Qed.

Lemma set_remove_spec id : fspec (set_remove id) (gdel id).
Proof.
  intros s Hs. unfold set_remove, gdel. destruct (set_mem id s) eqn:E; cbn [fst snd].
  - split; [now apply NoDup_filter|]. split; [|discriminate].
    intros n. apply eq_true_iff_eq.
    rewrite set_mem_In, filter_In, andb_true_iff, negb_true_iff, N.eqb_neq, set_mem_In. tauto.
  - split; [exact Hs|]. split; [|reflexivity]. intros n.
    destruct (N.eqb_spec n id) as [->|]; cbn; [now rewrite E|reflexivity].
Qed.

Lemma set_add_In id s x : In x (fst (set_add id s)) <-> x = id \/ In x s.
Proof.
  unfold set_add. destruct (set_mem id s) eqn:E; cbn [fst].
  - apply set_mem_In in E. split; [auto|]. intros [->|H]; auto.
  - apply set_ins_In.
Qed.

Lemma set_add_NoDup id s : NoDup s -> NoDup (fst (set_add id s)).
Proof. intros H. exact (proj1 (set_add_spec id s H)). Qed.

Lemma set_union_acc b : forall a, (NoDup a -> NoDup (set_union a b)) /\
  (forall x, In x (set_union a b) <-> In x a \/ In x b).
Proof.
  unfold set_union. induction b as [|y b IH]; intros a; cbn [fold_left].
  - split; [auto|]. intros x; cbn; tauto.
  - destruct (IH (fst (set_add y a))) as [IH1 IH2]. split.
    + intros Ha. apply IH1. now apply set_add_NoDup.
    + intros x. rewrite IH2, set_add_In. cbn. split; intros H; intuition (subst; auto).
Qed.

Lemma set_union_In a b x : In x (set_union a b) <-> In x a \/ In x b.
Proof. apply set_union_acc. Qed.
Lemma set_union_NoDup a b : NoDup a -> NoDup (set_union a b).
Proof. apply set_union_acc. Qed.

Lemma set_inter_In a b x : In x (set_inter a b) <-> In x a /\ In x b.
Proof. unfold set_inter. now rewrite filter_In, set_mem_In. Qed.
Lemma set_inter_NoDup a b : NoDup a -> NoDup (set_inter a b).
Proof. apply NoDup_filter. Qed.

Lemma fold_or_In sets : forall acc x,
  In x (fold_left set_union sets acc) <-> In x acc \/ exists s, In s sets /\ In x s.
Proof.
  induction sets as [|s sets IH]; intros acc x; cbn [fold_left].
  - split; [auto|]. intros [H|[s [[] _]]]; exact H.
  - rewrite IH, set_union_In. split.
    + intros [[H|H]|[s' [H1 H2]]]; [auto|right; exists s; cbn; auto|right; exists s'; cbn; auto].
    + intros [H|[s' [[<-|H1] H2]]]; [auto|auto|right; eauto].
Qed.

Lemma fold_or_NoDup sets : forall acc, NoDup acc -> NoDup (fold_left set_union sets acc).
Proof. induction sets as [|s sets IH]; intros acc H; cbn [fold_left]; [exact H|]. apply IH. now apply set_union_NoDup. Qed.

Lemma fast_or_In sets x : In x (fast_or sets) <-> exists s, In s sets /\ In x s.
Proof. unfold fast_or. rewrite fold_or_In. cbn. tauto. Qed.
Lemma fast_or_NoDup sets : NoDup (fast_or sets).
Proof. apply fold_or_NoDup. constructor. Qed.

Lemma fold_and_In sets : forall acc x,
  In x (fold_left set_inter sets acc) <-> In x acc /\ forall s, In s sets -> In x s.
Proof.
  induction sets as [|s sets IH]; intros acc x; cbn [fold_left].
  - split; [intros H; split; [exact H|intros s []]|tauto].
  - rewrite IH, set_inter_In. split.
    + intros [[H1 H2] H3]. split; [exact H1|]. intros s' [<-|H]; auto.
    + intros [H1 H2]. split; [split; [exact H1|apply H2; now left]|]. intros s' H. apply H2. now right.
Qed.
Lemma fold_and_NoDup sets : forall acc, NoDup acc -> NoDup (fold_left set_inter sets acc).
Proof. induction sets as [|s sets IH]; intros acc H; cbn [fold_left]; [exact H|]. apply IH. now apply set_inter_NoDup. Qed.

Lemma fast_and_In sets x : sets <> [] -> (In x (fast_and sets) <-> forall s, In s sets -> In x s).
Proof.
  destruct sets as [|s sets]; [congruence|]. intros _. cbn [fast_and]. rewrite fold_and_In. split.
  - intros [H1 H2] s' [<-|H]; auto.
  - intros H. split; [apply H; now left|]. intros s' Hs. apply H. now right.
Qed.
Lemma fast_and_NoDup sets : Forall (@NoDup N) sets -> NoDup (fast_and sets).
Proof. destruct 1 as [|s sets Hs _]; cbn; [constructor|]. now apply fold_and_NoDup. Qed.

Lemma collect_In sets x : In x (collect sets) <-> exists s, In s sets /\ In x s.
Proof.
  unfold collect. destruct sets as [|s [|s' r]].
  - split; [intros []|intros [s [[] _]]].
  - split; [intros H; exists s; cbn; auto|]. intros [s0 [[<-|[]] H]]; exact H.
  - apply fast_or_In.
Qed.
Lemma collect_NoDup sets : Forall (@NoDup N) sets -> NoDup (collect sets).
Proof.
  unfold collect. destruct sets as [|s [|s' r]]; intros H.
  - constructor.
  - now inversion H.
  - apply fast_or_NoDup.
Qed.

(* search.go: a single sub-query is returned as is, several are merged *)
Lemma combine_or_In sets x : In x (combine true sets) <-> exists s, In s sets /\ In x s.
Proof.
  unfold combine. destruct sets as [|s [|s' r]]; try apply fast_or_In.
  split; [intros H; exists s; cbn; auto|]. intros [s0 [[<-|[]] H]]; exact H.
Qed.
Lemma combine_and_In sets x : sets <> [] -> (In x (combine false sets) <-> forall s, In s sets -> In x s).
Proof.
  intros Hne. unfold combine. destruct sets as [|s [|s' r]]; try (now apply fast_and_In).
  split; [intros H s0 [<-|[]]; exact H|]. intros H. apply H. now left.
Qed.
Lemma combine_NoDup is_or sets : Forall (@NoDup N) sets -> NoDup (combine is_or sets).
Proof.
  intros H. unfold combine. destruct sets as [|s [|s' r]]; destruct is_or;
    try apply fast_or_NoDup; try (now apply fast_and_NoDup). all: now inversion H.
Qed.

(* ========================= the bucket ===================================== *)

Lemma bytes_eqb_refl k : bytes_eqb k k = true.
Proof. now apply bytes_eqb_eq. Qed.
Lemma bytes_eqb_neq a b : bytes_eqb a b = false <-> a <> b.
Proof. rewrite <- bytes_eqb_eq. destruct (bytes_eqb a b); split; congruence. Qed.
Lemma bytes_eqb_sym a b : bytes_eqb a b = bytes_eqb b a.
Proof.
  destruct (bytes_eqb a b) eqn:E.
  - apply bytes_eqb_eq in E. subst. symmetry. apply bytes_eqb_refl.
  - symmetry. apply bytes_eqb_neq. apply bytes_eqb_neq in E. congruence.
Qed.

Definition set_ok (s : idset) : Prop := s <> [] /\ NoDup s.
Definition wf_bucket (b : bucket) : Prop := ksorted (b_keys b) /\ Forall (fun e => set_ok (snd e)) b.

Lemma b_get_In k s b : b_get k b = Some s -> In (k, s) b.
Proof.
  induction b as [|[k' s'] b IH]; cbn; [discriminate|].
  destruct (bytes_eqb k k') eqn:E.
  - apply bytes_eqb_eq in E. intros H; inversion H; subst. now left.
  - intros H. right. now apply IH.
Qed.

Lemma b_get_keys k b : In k (b_keys b) <-> b_get k b <> None.
Proof.
  induction b as [|[k' s'] b IH]; cbn; [split; [intros []|congruence]|].
  destruct (bytes_eqb k k') eqn:E.
  - apply bytes_eqb_eq in E. subst. split; [discriminate|auto].
  - apply bytes_eqb_neq in E. rewrite <- IH. split; [intros [H|H]; [congruence|exact H]|auto].
Qed.

Lemma b_get_put_same k s b : b_get k (b_put k s b) = Some s.
Proof.
  induction b as [|[k' s'] b IH]; cbn; [now rewrite bytes_eqb_refl|].
  destruct (lex_compare k k') eqn:E; cbn; rewrite ?bytes_eqb_refl; try reflexivity.
  unfold bytes_eqb. rewrite E. exact IH.
Qed.

Lemma b_get_put_other k s b k' : k' <> k -> b_get k' (b_put k s b) = b_get k' b.
Proof.
  intros Hne. induction b as [|[k0 s0] b IH]; cbn.
  - now rewrite (proj2 (bytes_eqb_neq k' k) Hne).
  - destruct (lex_compare k k0) eqn:E; cbn.
    + apply lex_compare_eq in E. subst k0. now rewrite (proj2 (bytes_eqb_neq k' k) Hne).
    + now rewrite (proj2 (bytes_eqb_neq k' k) Hne).
    + now rewrite IH.
Qed.

Lemma b_keys_put k s b x : In x (b_keys (b_put k s b)) -> x = k \/ In x (b_keys b).
Proof.
  induction b as [|[k0 s0] b IH]; cbn; [intros [H|[]]; auto|].
  destruct (lex_compare k k0); cbn.
  - intros [H|H]; auto.
  - intros [H|[H|H]]; auto.
  - intros [H|H]; [auto|]. destruct (IH H); auto.
Qed.

Lemma b_put_sorted k s b : ksorted (b_keys b) -> ksorted (b_keys (b_put k s b)).
Proof.
  induction b as [|[k0 s0] b IH]; intros Hs; cbn.
  - repeat constructor.
  - cbn in Hs. apply ksorted_inv in Hs. destruct Hs as [Hs Hk].
    destruct (lex_compare k k0) eqn:E; cbn.
    + apply lex_compare_eq in E. subst. now constructor.
    + assert (Hlt : klt k k0) by (unfold klt, lex_lt; now rewrite E).
      constructor; [now constructor|]. constructor; [exact Hlt|].
      eapply Forall_impl; [|exact Hk]. intros a Ha. eapply klt_trans; eauto.
    + constructor; [now apply IH|].
      apply Forall_forall. intros x Hx. apply b_keys_put in Hx. destruct Hx as [->|Hx].
      * unfold klt, lex_lt. rewrite (lex_compare_antisym k k0), E. reflexivity.
      * rewrite Forall_forall in Hk. now apply Hk.
Qed.

Lemma b_put_ok k s b : set_ok s -> Forall (fun e => set_ok (snd e)) b ->
  Forall (fun e => set_ok (snd e)) (b_put k s b).
Proof.
  intros Hs. induction 1 as [|[k0 s0] b H0 Hb IH]; cbn.
  - apply Forall_cons; [exact Hs|apply Forall_nil].
  - destruct (lex_compare k k0).
    + apply Forall_cons; [exact Hs|exact Hb].
    + apply Forall_cons; [exact Hs|]. apply Forall_cons; [exact H0|exact Hb].
    + apply Forall_cons; [exact H0|exact IH].
Qed.

Lemma b_keys_del k b : b_keys (b_del k b) = filter (fun x => negb (bytes_eqb k x)) (b_keys b).
Proof.
  unfold b_del, b_keys. induction b as [|[k0 s0] b IH]; cbn; [reflexivity|].
  destruct (bytes_eqb k k0); cbn; now rewrite IH.
Qed.

Lemma b_get_del_same k b : b_get k (b_del k b) = None.
Proof.
  unfold b_del. induction b as [|[k0 s0] b IH]; cbn; [reflexivity|].
  destruct (bytes_eqb k k0) eqn:E; cbn; [exact IH|]. now rewrite E.
Qed.

Lemma b_get_del_other k b k' : k' <> k -> b_get k' (b_del k b) = b_get k' b.
Proof.
  intros Hne. unfold b_del. induction b as [|[k0 s0] b IH]; cbn; [reflexivity|].
  destruct (bytes_eqb k k0) eqn:E; cbn.
  - apply bytes_eqb_eq in E. subst k0. now rewrite (proj2 (bytes_eqb_neq k' k) Hne).
  - now rewrite IH.
Qed.

Lemma wf_put k s b : set_ok s -> wf_bucket b -> wf_bucket (b_put k s b).
Proof. intros Hs [H1 H2]. split; [now apply b_put_sorted|now apply b_put_ok]. Qed.

Lemma wf_del k b : wf_bucket b -> wf_bucket (b_del k b).
Proof.
  intros [H1 H2]. split.
  - rewrite b_keys_del. now apply ksorted_filter.
  - unfold b_del. apply Forall_forall. intros e He. apply filter_In in He.
    rewrite Forall_forall in H2. now apply H2.
Qed.

Lemma wf_get k s b : wf_bucket b -> b_get k b = Some s -> set_ok s.
Proof.
  intros [_ H] Hg. apply b_get_In in Hg. rewrite Forall_forall in H. exact (H _ Hg).
Qed.

Lemma getset_NoDup k b : wf_bucket b -> NoDup (getset k b).
Proof.
  intros Hw. unfold getset. destruct (b_get k b) eqn:E; [|constructor].
  exact (proj2 (wf_get _ _ _ Hw E)).
Qed.

Lemma getset_key k b n : wf_bucket b -> In n (getset k b) -> In k (b_keys b).
Proof.
  intros _ H. apply b_get_keys. unfold getset in H. destruct (b_get k b); [discriminate|destruct H].
Qed.

Lemma key_getset k b : wf_bucket b -> In k (b_keys b) -> exists n, In n (getset k b).
Proof.
  intros Hw H. apply b_get_keys in H. unfold getset. destruct (b_get k b) as [s|] eqn:E; [|congruence].
  destruct (wf_get _ _ _ Hw E) as [Hne _]. destruct s as [|n s]; [congruence|]. exists n. now left.
Qed.

Lemma ksorted_NoDup l : ksorted l -> NoDup l.
Proof.
  induction 1 as [|k r Hs IH Hk]; constructor; [|exact IH].
  intros Hin. rewrite Forall_forall in Hk. specialize (Hk _ Hin). unfold klt in Hk.
  rewrite lex_lt_irrefl in Hk. discriminate.
Qed.

Lemma NoDup_app_single {A} (l : list A) x : NoDup l -> ~ In x l -> NoDup (l ++ [x]).
Proof.
  induction l as [|y l IH]; intros Hl Hx; cbn; [constructor; [intros []|constructor]|].
  inversion Hl as [|? ? Hy Hl']; subst. constructor.
  - rewrite in_app_iff. intros [H|[H|[]]]; [contradiction|]. apply Hx. now left.
  - apply IH; [exact Hl'|]. intros H. apply Hx. now right.
Qed.

(* ========================= the generic index ============================== *)

Definition post := bytes -> N -> bool.
Definition represents (b : bucket) (p : post) : Prop := forall k n, set_mem n (getset k b) = p k n.

Definition pupd (k : bytes) (g : N -> bool -> bool) (p : post) : post :=
  fun k' n => if bytes_eqb k' k then g n (p k' n) else p k' n.

Section IndexProofs.
  Context {V : Type}.
  Variable enc : V -> bytes.
  Variable dec : bytes -> V.
  Variable veqb : V -> V -> bool.
  Variable valid : V -> Prop.

  (* what a change does to the postings *)
  Definition post_step (ch : @change V) (p : post) : post :=
    match c_prev ch, c_cur ch with
    | None, None => p
    | None, Some cur => pupd (enc cur) (gadd (c_id ch)) p
    | Some prev, None => pupd (enc prev) (gdel (c_id ch)) p
    | Some prev, Some cur =>
        if veqb prev cur then p
        else pupd (enc cur) (gadd (c_id ch)) (pupd (enc prev) (gdel (c_id ch)) p)
    end.
  Definition post_steps (cs : list (@change V)) (p : post) : post :=
    fold_left (fun p ch => post_step ch p) cs p.

  Lemma post_step_ext ch p p' : (forall k n, p k n = p' k n) ->
    forall k n, post_step ch p k n = post_step ch p' k n.
  Proof.
    intros H k n. unfold post_step, pupd.
    destruct (c_prev ch) as [a|], (c_cur ch) as [c|]; try destruct (veqb a c);
      repeat match goal with |- context [if ?x then _ else _] => destruct x end; now rewrite ?H.
  Qed.

  Lemma post_steps_ext cs : forall p p', (forall k n, p k n = p' k n) ->
    forall k n, post_steps cs p k n = post_steps cs p' k n.
  Proof.
    induction cs as [|ch cs IH]; intros p p' H; cbn; [exact H|].
    apply IH. now apply post_step_ext.
  Qed.

  (* Go's == on T and the sortable key identify the same values *)
  Hypothesis enc_veqb : forall a b, valid a -> valid b -> (veqb a b = true <-> enc a = enc b).

  Definition ckey (it : @citem V) : bytes := enc (it_val it).

  Record cinv (b0 : bucket) (c : @cache V) (p : post) : Prop := {
    ci_valid : Forall (fun it => valid (it_val it)) c;
    ci_keys : NoDup (map ckey c);
    ci_items : Forall (fun it => NoDup (it_set it) /\
                                 (forall n, set_mem n (it_set it) = p (ckey it) n) /\
                                 (it_dirty it = false -> it_set it = getset (ckey it) b0)) c;
    ci_rest : forall k, ~ In k (map ckey c) -> forall n, set_mem n (getset k b0) = p k n }.

  Lemma c_update_miss b v f c : (forall x, In x c -> veqb (it_val x) v = false) ->
    c_update enc veqb b v f c = c ++ [new_item enc b v f].
  Proof.
    induction c as [|it c IH]; intros H; cbn; [reflexivity|].
    rewrite (H it (or_introl eq_refl)). f_equal. apply IH. intros x Hx. apply H. now right.
  Qed.

  Lemma c_update_hit b v f c1 it c2 : (forall x, In x c1 -> veqb (it_val x) v = false) ->
    veqb (it_val it) v = true ->
    c_update enc veqb b v f (c1 ++ it :: c2) = c1 ++ upd_item f it :: c2.
  Proof.
    induction c1 as [|x c1 IH]; intros H Hit; cbn; [now rewrite Hit|].
    rewrite (H x (or_introl eq_refl)). f_equal. apply IH; [|exact Hit]. intros y Hy. apply H. now right.
  Qed.

  Lemma c_split v (c : @cache V) :
    (forall x, In x c -> veqb (it_val x) v = false) \/
    exists c1 it c2, c = c1 ++ it :: c2 /\ (forall x, In x c1 -> veqb (it_val x) v = false) /\
                     veqb (it_val it) v = true.
  Proof.
    induction c as [|x c IH]; [left; intros y []|].
    destruct (veqb (it_val x) v) eqn:E.
    - right. exists [], x, c. split; [reflexivity|]. split; [intros y []|exact E].
    - destruct IH as [IH|(c1 & it & c2 & -> & H1 & H2)].
      + left. intros y [<-|Hy]; auto.
      + right. exists (x :: c1), it, c2. split; [reflexivity|]. split; [|exact H2].
        intros y [<-|Hy]; auto.
  Qed.

  Lemma it_val_upd f (it : @citem V) : it_val (upd_item f it) = it_val it.
  Proof. unfold upd_item. destruct (f (it_set it)). reflexivity. Qed.
  Lemma ckey_upd f it : ckey (upd_item f it) = ckey it.
  Proof. unfold ckey. now rewrite it_val_upd. Qed.

  Lemma pupd_other k g p k' n : k' <> k -> pupd k g p k' n = p k' n.
  Proof. intros H. unfold pupd. now rewrite (proj2 (bytes_eqb_neq k' k) H). Qed.
  Lemma pupd_same k g p n : pupd k g p k n = g n (p k n).
  Proof. unfold pupd. now rewrite bytes_eqb_refl. Qed.

  Lemma c_update_inv b0 c p v f g :
    wf_bucket b0 -> cinv b0 c p -> valid v -> fspec f g ->
    cinv b0 (c_update enc veqb b0 v f c) (pupd (enc v) g p).
  Proof.
    intros Hw [Hv Hk Hi Hr] Hval Hf.
    destruct (c_split v c) as [Hmiss|(c1 & it & c2 & -> & H1 & H2)].
    - (* miss: a new entry loaded from the bucket *)
      rewrite (c_update_miss _ _ _ _ Hmiss).
      assert (Hnk : ~ In (enc v) (map ckey c)).
      { intros Hin. apply in_map_iff in Hin. destruct Hin as [x [Hx1 Hx2]].
        rewrite Forall_forall in Hv. specialize (Hv _ Hx2).
        apply (enc_veqb _ _ Hv Hval) in Hx1. rewrite (Hmiss _ Hx2) in Hx1. discriminate. }
      pose proof (getset_NoDup (enc v) b0 Hw) as Hnd.
      destruct (Hf _ Hnd) as (F1 & F2 & F3).
      assert (Hnew : it_val (new_item enc b0 v f) = v /\ it_set (new_item enc b0 v f) = fst (f (getset (enc v) b0))
                     /\ it_dirty (new_item enc b0 v f) = snd (f (getset (enc v) b0))).
      { unfold new_item. destruct (f (getset (enc v) b0)); auto. }
      destruct Hnew as (N1 & N2 & N3).
      constructor.
      + apply Forall_app. split; [exact Hv|]. constructor; [now rewrite N1|constructor].
      + rewrite map_app. cbn [map]. unfold ckey at 2. rewrite N1.
        apply NoDup_app_single; assumption.
      + apply Forall_app. split.
        * rewrite Forall_forall in Hi |- *. intros x Hx. destruct (Hi _ Hx) as (A1 & A2 & A3).
          split; [exact A1|]. split; [|exact A3]. intros n.
          rewrite pupd_other; [apply A2|]. intros E. apply Hnk. rewrite <- E. now apply in_map.
        * constructor; [|constructor]. unfold ckey. rewrite N1, N2, N3.
          split; [exact F1|]. split.
          -- intros n. rewrite pupd_same, F2. f_equal. now apply Hr.
          -- exact F3.
      + intros k Hnin n. rewrite map_app, in_app_iff in Hnin. cbn [map In] in Hnin. unfold ckey at 2 in Hnin.
        rewrite N1 in Hnin. rewrite pupd_other by (intros E; apply Hnin; right; left; now rewrite E).
        apply Hr. tauto.
    - (* hit: the entry of a veqb-equal value *)
      rewrite (c_update_hit _ _ _ _ _ _ H1 H2).
      apply Forall_app in Hv. destruct Hv as [Hv1 Hv2]. inversion Hv2 as [|? ? Hvit Hv2']; subst.
      apply Forall_app in Hi. destruct Hi as [Hi1 Hi2]. inversion Hi2 as [|? ? Hiit Hi2']; subst.
      assert (Ekey : ckey it = enc v) by (apply (enc_veqb _ _ Hvit Hval); exact H2).
      rewrite map_app in Hk. cbn [map] in Hk.
      assert (Hk1 : forall x, In x c1 -> ckey x <> enc v).
      { intros x Hx E. apply NoDup_remove_2 in Hk. apply Hk. rewrite in_app_iff. left.
        rewrite Ekey, <- E. now apply in_map. }
      assert (Hk2 : forall x, In x c2 -> ckey x <> enc v).
      { intros x Hx E. apply NoDup_remove_2 in Hk. apply Hk. rewrite in_app_iff. right.
        rewrite Ekey, <- E. now apply in_map. }
      destruct Hiit as (A1 & A2 & A3).
      destruct (Hf _ A1) as (F1 & F2 & F3).
      assert (Hupd : it_set (upd_item f it) = fst (f (it_set it)) /\
                     it_dirty (upd_item f it) = snd (f (it_set it)) || it_dirty it).
      { unfold upd_item. destruct (f (it_set it)); auto. }
      destruct Hupd as (U1 & U2).
      constructor.
      + apply Forall_app. split; [exact Hv1|]. constructor; [now rewrite it_val_upd|exact Hv2'].
      + rewrite map_app. cbn [map]. now rewrite ckey_upd.
      + apply Forall_app. split; [|constructor].
        * rewrite Forall_forall in Hi1 |- *. intros x Hx. destruct (Hi1 _ Hx) as (B1 & B2 & B3).
          split; [exact B1|]. split; [|exact B3]. intros n. rewrite pupd_other by (now apply Hk1). apply B2.
        * rewrite ckey_upd, U1, U2, Ekey. split; [exact F1|]. split.
          -- intros n. rewrite pupd_same, F2. f_equal. rewrite <- Ekey. apply A2.
          -- intros Hd. apply orb_false_iff in Hd. destruct Hd as [Hd1 Hd2].
             rewrite (F3 Hd1). rewrite <- Ekey. now apply A3.
        * rewrite Forall_forall in Hi2' |- *. intros x Hx. destruct (Hi2' _ Hx) as (B1 & B2 & B3).
          split; [exact B1|]. split; [|exact B3]. intros n. rewrite pupd_other by (now apply Hk2). apply B2.
      + intros k Hnin n. rewrite map_app in Hnin. cbn [map] in Hnin. rewrite ckey_upd in Hnin.
        rewrite pupd_other.
        * apply Hr. rewrite map_app. exact Hnin.
        * intros E. apply Hnin. rewrite in_app_iff. right. left. now rewrite Ekey, E.
  Qed.

  Lemma cinv_ext b0 c p p' : (forall k n, p k n = p' k n) -> cinv b0 c p -> cinv b0 c p'.
  Proof.
    intros H [Hv Hk Hi Hr]. constructor; auto.
    - eapply Forall_impl; [|exact Hi]. intros it (A1 & A2 & A3). split; [exact A1|]. split; [|exact A3].
      intros n. now rewrite <- H.
    - intros k Hn n. rewrite <- H. now apply Hr.
  Qed.

  Definition change_valid (ch : @change V) : Prop := ovalid valid (c_prev ch) /\ ovalid valid (c_cur ch).

  Lemma process_change_inv b0 c p ch :
    wf_bucket b0 -> cinv b0 c p -> change_valid ch ->
    cinv b0 (process_change enc veqb b0 ch c) (post_step ch p).
  Proof.
    intros Hw Hc [Hp Hcu]. unfold process_change, post_step.
    destruct (c_prev ch) as [a|], (c_cur ch) as [cu|]; cbn in Hp, Hcu.
    - destruct (veqb a cu); [exact Hc|].
      apply c_update_inv; auto using set_add_spec.
      apply c_update_inv; auto using set_remove_spec.
    - apply c_update_inv; auto using set_remove_spec.
    - apply c_update_inv; auto using set_add_spec.
    - exact Hc.
  Qed.

  Lemma process_batch_inv b0 cs : forall c p,
    wf_bucket b0 -> cinv b0 c p -> Forall change_valid cs ->
    cinv b0 (fold_left (fun c ch => process_change enc veqb b0 ch c) cs c) (post_steps cs p).
  Proof.
    induction cs as [|ch cs IH]; intros c p Hw Hc Hv; cbn; [exact Hc|].
    inversion Hv as [|? ? Hv1 Hv2]; subst. apply IH; auto. now apply process_change_inv.
  Qed.

  Lemma cinv_nil b0 p : represents b0 p -> cinv b0 [] p.
  Proof. intros H. constructor; cbn; try constructor. intros k _ n. apply H. Qed.

  (* ---- flush ---- *)
  Lemma flush_item_get it b k :
    b_get k (flush_item enc it b) =
      if bytes_eqb k (ckey it) && it_dirty it
      then (if is_empty (it_set it) then None else Some (it_set it))
      else b_get k b.
  Proof.
    unfold flush_item, ckey. destruct (it_dirty it); [|now rewrite andb_false_r].
    rewrite andb_true_r. destruct (bytes_eqb k (enc (it_val it))) eqn:E.
    - apply bytes_eqb_eq in E. subst k. destruct (is_empty (it_set it));
        [apply b_get_del_same|apply b_get_put_same].
    - apply bytes_eqb_neq in E. destruct (is_empty (it_set it));
        [now apply b_get_del_other|now apply b_get_put_other].
  Qed.

  Lemma flush_get c : forall b k, NoDup (map ckey c) ->
    b_get k (flush enc c b) =
      match find (fun it => bytes_eqb k (ckey it)) c with
      | Some it => if it_dirty it then (if is_empty (it_set it) then None else Some (it_set it)) else b_get k b
      | None => b_get k b
      end.
  Proof.
    unfold flush. induction c as [|it c IH]; intros b k Hnd; cbn [fold_left find map]; [reflexivity|].
    cbn [map] in Hnd. inversion Hnd as [|? ? Hn1 Hn2]; subst.
    rewrite IH by exact Hn2. rewrite flush_item_get.
    destruct (bytes_eqb k (ckey it)) eqn:E; cbn [andb].
    - apply bytes_eqb_eq in E. subst k.
      destruct (find (fun it0 => bytes_eqb (ckey it) (ckey it0)) c) as [x|] eqn:F.
      + exfalso. apply find_some in F. destruct F as [F1 F2]. apply bytes_eqb_eq in F2.
        apply Hn1. rewrite F2. now apply in_map.
      + reflexivity.
    - reflexivity.
  Qed.

  Lemma flush_wf c : forall b, Forall (fun it => NoDup (it_set it)) c -> wf_bucket b -> wf_bucket (flush enc c b).
  Proof.
    unfold flush. induction c as [|it c IH]; intros b Hc Hw; cbn [fold_left]; [exact Hw|].
    inversion Hc as [|? ? Hc1 Hc2]; subst. apply IH; [exact Hc2|].
    unfold flush_item. destruct (it_dirty it); [|exact Hw].
    destruct (it_set it) as [|n s] eqn:E; cbn [is_empty]; [now apply wf_del|].
    apply wf_put; [|exact Hw]. split; [discriminate|]. now rewrite <- E.
  Qed.

  Lemma getset_empty_or s : (if is_empty s then None else Some s) = Some s \/ s = [].
  Proof. destruct s; cbn; auto. Qed.

  Lemma flush_inv b0 c p : wf_bucket b0 -> cinv b0 c p ->
    wf_bucket (flush enc c b0) /\ represents (flush enc c b0) p.
  Proof.
    intros Hw [Hv Hk Hi Hr]. split.
    - apply flush_wf; [|exact Hw]. eapply Forall_impl; [|exact Hi]. intros it H. exact (proj1 H).
    - intros k n. unfold getset at 1. rewrite (flush_get c b0 k Hk).
      destruct (find (fun it => bytes_eqb k (ckey it)) c) as [it|] eqn:F.
      + apply find_some in F. destruct F as [F1 F2]. apply bytes_eqb_eq in F2. subst k.
        rewrite Forall_forall in Hi. destruct (Hi _ F1) as (A1 & A2 & A3).
        destruct (it_dirty it).
        * rewrite <- A2. destruct (it_set it); reflexivity.
        * rewrite <- A2, (A3 eq_refl). reflexivity.
      + apply Hr. intros Hin. apply in_map_iff in Hin. destruct Hin as [x [Hx1 Hx2]].
        pose proof (find_none _ _ F _ Hx2) as Hf. cbn in Hf. rewrite Hx1, bytes_eqb_refl in Hf. discriminate.
  Qed.

  (* ---- one batch, a history ---- *)
  Lemma apply_batch_inv b p cs :
    wf_bucket b -> represents b p -> Forall change_valid cs ->
    wf_bucket (apply_batch enc veqb b cs) /\ represents (apply_batch enc veqb b cs) (post_steps cs p).
  Proof.
    intros Hw Hr Hv. unfold apply_batch, process_batch. apply flush_inv; [exact Hw|].
    apply process_batch_inv; auto. now apply cinv_nil.
  Qed.

  Lemma post_steps_app a b p : post_steps (a ++ b) p = post_steps b (post_steps a p).
  Proof. unfold post_steps. apply fold_left_app. Qed.

  Lemma history_inv hs : forall b p,
    wf_bucket b -> represents b p -> Forall change_valid (concat hs) ->
    wf_bucket (fold_left (apply_batch enc veqb) hs b) /\
    represents (fold_left (apply_batch enc veqb) hs b) (post_steps (concat hs) p).
  Proof.
    induction hs as [|cs hs IH]; intros b p Hw Hr Hv; cbn [fold_left concat]; [split; assumption|].
    apply Forall_app in Hv. destruct Hv as [Hv1 Hv2].
    destruct (apply_batch_inv b p cs Hw Hr Hv1) as [Hw' Hr'].
    rewrite post_steps_app. now apply IH.
  Qed.

  Lemma wf_nil : wf_bucket [].
  Proof. split; constructor. Qed.
  Lemma represents_nil : represents [] (fun _ _ => false).
  Proof. intros k n. reflexivity. Qed.

  (* ---- consistent histories: the postings are those of the stored values ---- *)
  Definition post_of (st : N -> option V) : post :=
    fun k n => match st n with Some v => bytes_eqb k (enc v) | None => false end.

  Lemma post_step_consistent st ch :
    c_prev ch = st (c_id ch) -> change_valid ch ->
    forall k n, post_step ch (post_of st) k n = post_of (st_step st ch) k n.
  Proof.
    intros Hp [Hv1 Hv2] k n. unfold post_step, post_of, st_step, pupd, gadd, gdel.
    destruct (N.eqb_spec n (c_id ch)) as [->|Hn].
    - rewrite <- Hp. destruct (c_prev ch) as [a|], (c_cur ch) as [c|]; cbn in Hv1, Hv2.
      + destruct (veqb a c) eqn:E.
        * apply (enc_veqb _ _ Hv1 Hv2) in E. now rewrite E.
        * rewrite N.eqb_refl. cbn.
          destruct (bytes_eqb k (enc c)) eqn:E1; [reflexivity|].
          destruct (bytes_eqb k (enc a)) eqn:E2; reflexivity.
      + rewrite N.eqb_refl. cbn. destruct (bytes_eqb k (enc a)); reflexivity.
      + rewrite N.eqb_refl. cbn. destruct (bytes_eqb k (enc c)); reflexivity.
      + reflexivity.
    - apply N.eqb_neq in Hn.
      destruct (c_prev ch) as [a|], (c_cur ch) as [c|]; try destruct (veqb a c);
        repeat match goal with |- context [if bytes_eqb ?x ?y then _ else _] => destruct (bytes_eqb x y) end;
        rewrite ?Hn; reflexivity.
  Qed.

  Lemma consistent_valid st cs : consistent_from valid st cs -> Forall change_valid cs.
  Proof.
    revert st. induction cs as [|ch cs IH]; intros st H; cbn in H; [constructor|].
    destruct H as (H1 & H2 & H3 & H4). constructor; [split; assumption|]. eapply IH; eauto.
  Qed.

  Lemma post_steps_consistent cs : forall st, consistent_from valid st cs ->
    forall k n, post_steps cs (post_of st) k n = post_of (stored_from st cs) k n.
  Proof.
    induction cs as [|ch cs IH]; intros st H k n; cbn; [reflexivity|].
    cbn in H. destruct H as (H1 & H2 & H3 & H4).
    unfold post_steps in *. cbn [fold_left].
    change (fold_left (fun p ch0 => post_step ch0 p) cs (post_step ch (post_of st)) k n)
      with (post_steps cs (post_step ch (post_of st)) k n).
    rewrite (post_steps_ext cs _ (post_of (st_step st ch))).
    - apply IH. exact H4.
    - apply post_step_consistent; [exact H1|split; assumption].
  Qed.

  Lemma stored_valid cs : forall st, consistent_from valid st cs ->
    (forall n v, st n = Some v -> valid v) ->
    forall n v, stored_from st cs n = Some v -> valid v.
  Proof.
    induction cs as [|ch cs IH]; intros st H Hst n v; cbn; [apply Hst|].
    cbn in H. destruct H as (H1 & H2 & H3 & H4). apply IH; [exact H4|].
    intros m w. unfold st_step. destruct (m =? c_id ch); [|apply Hst].
    intros E. rewrite E in H3. exact H3.
  Qed.

  (* the posting-list invariant *)
  Theorem postings_inv hs : consistent valid hs ->
    let b := run_history enc veqb hs in
    let st := stored_after hs in
    ksorted (b_keys b) /\
    (forall k s, b_get k b = Some s -> s <> [] /\ NoDup s) /\
    (forall k n, In n (getset k b) <-> exists v, st n = Some v /\ enc v = k).
  Proof.
    intros Hc b st. unfold consistent in Hc.
    destruct (history_inv hs [] (fun _ _ => false) wf_nil represents_nil (consistent_valid _ _ Hc)) as [Hw Hr].
    fold (run_history enc veqb hs) in Hw, Hr. fold b in Hw, Hr.
    split; [exact (proj1 Hw)|]. split; [intros k s Hg; exact (wf_get _ _ _ Hw Hg)|].
    intros k n. rewrite <- set_mem_In, (Hr k n).
    rewrite (post_steps_ext _ _ (post_of (fun _ => None))) by reflexivity.
    rewrite (post_steps_consistent _ _ Hc). fold (stored_after hs). fold st.
    unfold post_of. destruct (st n) as [v|].
    - rewrite bytes_eqb_eq. split; [intros ->; eauto|]. intros [w [E1 E2]]. inversion E1; subst. reflexivity.
    - split; [discriminate|]. intros [w [E _]]. discriminate.
  Qed.

  Lemma run_wf hs : consistent valid hs -> wf_bucket (run_history enc veqb hs).
  Proof.
    intros Hc. unfold consistent in Hc.
    exact (proj1 (history_inv hs [] (fun _ _ => false) wf_nil represents_nil (consistent_valid _ _ Hc))).
  Qed.

  Lemma run_stored_valid hs : consistent valid hs -> forall n v, stored_after hs n = Some v -> valid v.
  Proof. intros Hc. apply (stored_valid _ _ Hc). discriminate. Qed.
End IndexProofs.
