(* Run_C19.v -- verdict functions evaluated on the observations the harness
   recorded from the real code.  Codes: 0 OK; 1xx the observation violates the
   property itself (SPECFAIL); 2xx the code differs from the model (MISMATCH). *)
From Coq Require Import List NArith ZArith Bool.
From Semadb Require Import Bytes U64 KeyLayout Model_C19 KV.
Import ListNotations.
Open Scope N_scope.

Definition cmp_code (c : comparison) : N := match c with Lt => 0 | Eq => 1 | Gt => 2 end.
Definition beq (a b : bytes) : bool := bytes_eqb a b.
Fixpoint lbeq (a b : list N) : bool :=
  match a, b with [], [] => true | x :: a', y :: b' => (x =? y) && lbeq a' b' | _, _ => false end.
Fixpoint llbeq (a b : list bytes) : bool :=
  match a, b with [], [] => true | x :: a', y :: b' => lbeq x y && llbeq a' b' | _, _ => false end.
Definition first_fail (l : list (bool * N)) : N :=
  fold_right (fun (p : bool * N) acc => if fst p then acc else snd p) 0 l.

Inductive c19case :=
| CI64 (v : Z) (e : bytes) (d : Z) (v2 : Z) (e2 : bytes)
| CU64 (v : N) (e : bytes) (d : N) (v2 : N) (e2 : bytes)
| CF64 (v : N) (e : bytes) (d : N) (v2 : N) (e2 : bytes)     (* bit patterns *)
| CStr (v e d v2 e2 : bytes)
| CF32s (xs : list N) (e : bytes) (d : list N)
| CEdges (xs : list N) (e : bytes) (d : list N)
| CU64le (v : N) (e : bytes) (d : N)
| CNode (id s s2 : N) (k : bytes) (ok : bool) (d : N) (ok2 : bool)
| CPoint (u : bytes) (s : N) (k : bytes)
| CDoc (id : N) (k : bytes) (ok : bool) (d : N)
| CTerm (t k : bytes) (ok : bool) (d : bytes)
| CRawNode (k : bytes) (s : N) (ok : bool) (d : N)        (* arbitrary bytes into NodeIdFromKey *)
| CRawTerm (k : bytes) (ok : bool) (d : bytes)
| CRawDoc (k : bytes) (ok : bool) (d : N)
| CScan (mem : bool) (keys : list bytes) (s e : option bytes) (incl : bool) (visited : list bytes)
| CPrefix (keys : list bytes) (p : bytes) (visited : list bytes).

Definition opt_eq_N (o : option N) (ok : bool) (d : N) : bool :=
  match o with Some x => ok && (x =? d) | None => negb ok end.
Definition opt_eq_b (o : option bytes) (ok : bool) (d : bytes) : bool :=
  match o with Some x => ok && lbeq x d | None => negb ok end.

Definition verdict (c : c19case) : N :=
  match c with
  | CI64 v e d v2 e2 => first_fail
      [ ((d =? v)%Z, 101); (cmp_code (lex_compare e e2) =? cmp_code (Z.compare v v2), 102);
        (lbeq e (enc_i64 v), 201); ((dec_i64 e =? d)%Z, 202); (lbeq e2 (enc_i64 v2), 203) ]
  | CU64 v e d v2 e2 => first_fail
      [ (d =? v, 111); (cmp_code (lex_compare e e2) =? cmp_code (N.compare v v2), 112);
        (lbeq e (enc_u64 v), 211); (dec_u64 e =? d, 212) ]
  | CF64 v e d v2 e2 => first_fail
      [ (f64_eq d v, 121); (cmp_code (lex_compare e e2) =? cmp_code (Z.compare (f64_ord v) (f64_ord v2)), 122);
        (lbeq e (enc_f64 v), 221); (dec_f64 e =? d, 222) ]
  | CStr v e d v2 e2 => first_fail
      [ (lbeq d v, 131); (cmp_code (lex_compare e e2) =? cmp_code (lex_compare v v2), 132);
        (lbeq e (enc_str v), 231) ]
  | CF32s xs e d => first_fail [ (lbeq d xs, 141); (lbeq e (f32s_le xs), 241); (lbeq (f32s_of_le e) d, 242) ]
  | CEdges xs e d => first_fail [ (lbeq d xs, 151); (lbeq e (edges_le xs), 251); (lbeq (edges_of_le e) d, 252) ]
  | CU64le v e d => first_fail [ (d =? v, 156); (lbeq e (u64_le v), 256); (u64_of_le e =? d, 257) ]
  | CNode id s s2 k ok d ok2 => first_fail
      [ (ok && (d =? id), 161); (if s =? s2 then ok2 else negb ok2, 162);
        (lbeq k (node_key id s), 261) ]
  | CPoint u s k => first_fail [ (lbeq k (point_key u s), 266) ]
  | CDoc id k ok d => first_fail [ (ok && (d =? id), 171); (lbeq k (doc_key id), 271) ]
  | CTerm t k ok d => first_fail [ (ok && lbeq d t, 176); (lbeq k (term_key t), 276) ]
  | CRawNode k s ok d => first_fail [ (opt_eq_N (node_id_from_key k s) ok d, 281) ]
  | CRawTerm k ok d => first_fail [ (opt_eq_b (term_from_key k) ok d, 282) ]
  | CRawDoc k ok d => first_fail [ (opt_eq_N (doc_id_from_key k) ok d, 283) ]
  | CScan mem keys s e incl visited => first_fail
      [ (llbeq visited (filter (in_range s e incl) keys), 181);
        (llbeq visited (if mem then mem_range keys s e incl else bbolt_range keys s e incl), 285) ]
  | CPrefix keys p visited => first_fail
      [ (llbeq visited (filter (is_prefix p) keys), 186); (llbeq visited (bbolt_prefix keys p), 286) ]
  end.

Fixpoint bad_from (i : N) (cs : list c19case) : list (N * N) :=
  match cs with
  | [] => []
  | c :: r => let v := verdict c in
              if v =? 0 then bad_from (i + 1) r else (i, v) :: bad_from (i + 1) r
  end.
Definition bad (cs : list c19case) : list (N * N) := bad_from 0 cs.
