(* Props_C16.v -- property C16: tenants are isolated from each other.
   Only statements; every proof is `exact <lemma>`.

   Vocabulary (Model_C16.v): user and collection ids are byte strings;
   [rec_key u c] = u ++ "/" ++ c is the node-database key, [user_prefix u] =
   u ++ "/" the prefix RPCCreateCollection counts and RPCListCollections scans;
   [user_dir], [collection_dir], [shard_dir] are filepath.Join(root,
   "userCollections", u, c, s) with the semantics of Clean for '/', ".", "..";
   [step root u o st] is one request of user u (pinned tree: no check of the user
   id), [http_step] the same behind the X-User-Id check of fix 6ba5263;
   [view_of root u st] is everything u can observe: its records (hence the
   listing, every get-collection answer, the quota count) and every shard
   directory with its content below userCollections/u.
   [no_slash u]: byte 47 does not occur.  [plain u]: no_slash, not empty, not
   "." and not "..".  [wf st]: every node-database entry sits under the key of
   its own fields and was written for plain ids (preserved by every request of a
   plain user: c16_wf_preserved).  [op_ok]: shard ids are plain (server-generated
   uuids). *)
From Coq Require Import List NArith Bool Arith Sorted.
From Semadb Require Import Bytes KV Model_C16 Proofs_C16.
Import ListNotations.
Open Scope N_scope.

(* --- keys: for delimiter-free user ids, equal keys mean equal user and collection
       (whatever the collection id is, also with '/' inside as a %2F path segment
       can carry), and the prefix scan of u meets exactly the keys of u --- also
       when one id is a prefix of the other or of a user+collection concatenation --- *)
Theorem c16_keys_disjoint : forall u u' c c', no_slash u -> no_slash u' ->
  (rec_key u c = rec_key u' c' -> u = u' /\ c = c') /\
  (is_prefix (user_prefix u) (rec_key u' c') = true <-> u = u').
Proof. exact thm_keys_disjoint. Qed.
Print Assumptions c16_keys_disjoint.

(* the scan of the model is the bbolt cursor loop (KV.bbolt_prefix) and the memstore filter *)
Theorem c16_scan_is_bbolt : forall (d : db) p, ksorted (map fst d) ->
  map fst (scan d p) = bbolt_prefix (map fst d) p /\ map fst (scan d p) = mem_prefix (map fst d) p.
Proof. exact thm_scan_is_bbolt. Qed.
Print Assumptions c16_scan_is_bbolt.

(* hence: listing / counting for u sees exactly the records whose UserId is u *)
Theorem c16_scan_exact : forall (d : db) u, no_slash u ->
  Forall (fun kv => fst kv = rec_key (r_user (snd kv)) (r_col (snd kv)) /\ no_slash (r_user (snd kv))) d ->
  scan d (user_prefix u) = filter (fun kv => bytes_eqb (r_user (snd kv)) u) d.
Proof. exact thm_scan_exact. Qed.
Print Assumptions c16_scan_exact.

(* --- with '/' allowed in a user id the statement is false: after user "a/b" created
       "ccc", user "a" lists it, can fetch it as "b/ccc", and it fills the quota of "a" --- *)
Theorem c16_slash_user_refuted :
  exists root a b c, a <> b /\ plain b /\ ~ no_slash a /\ valid_col 2 c = true /\ wf w_empty /\
    let st := run root a [OCreate 2 c 3] w_empty in
    snd (step root b OList w_empty) = AList [] /\
    snd (step root b OList st) = AList [c] /\
    snd (step root b (OGet 2 ([98] ++ [slash] ++ c)) st) = ACol c [] /\
    user_count (st_db st) b = 1 /\
    snd (step root b (OCreate 2 w_xyz 1) w_empty) = ACreated /\
    snd (step root b (OCreate 2 w_xyz 1) st) = AQuota /\
    view_of root b st <> view_of root b w_empty.
Proof. exact thm_slash_user_refuted. Qed.
Print Assumptions c16_slash_user_refuted.

(* --- directories: for plain ids the collection directory of (u, c) and everything below
       it lies outside the tree of another user u'; deleting the shards of (u, c) leaves
       the directories of u' as they are --- *)
Theorem c16_paths_disjoint : forall root u u' c, plain u -> plain u' -> plain c -> u <> u' ->
  (forall d, d = collection_dir root u c \/ strictly_below (collection_dir root u c) d = true ->
             d <> user_dir root u' /\ strictly_below (user_dir root u') d = false) /\
  (forall s, plain s -> strictly_below (user_dir root u') (shard_dir root u c s) = false) /\
  (forall f : fs, filter (below_b (user_dir root u')) (delete_collection_shards f root u c)
                  = filter (below_b (user_dir root u')) f).
Proof. exact thm_paths_disjoint. Qed.
Print Assumptions c16_paths_disjoint.

Theorem c16_paths_shape : forall root u c s, plain u -> plain c -> plain s ->
  user_dir root u = base root ++ [ucols; u] /\
  collection_dir root u c = base root ++ [ucols; u; c] /\
  shard_dir root u c s = base root ++ [ucols; u; c; s].
Proof.
  exact (fun root u c s Hu Hc Hs =>
           conj (user_dir_plain root u Hu)
                (conj (collection_dir_plain root u c Hu Hc) (shard_dir_plain root u c s Hu Hc Hs))).
Qed.
Print Assumptions c16_paths_shape.

(* --- the pinned defect F9 (fixed by 6ba5263).  For EVERY root and id b: the collection b of
       user "." is the directory of user b, so deleting it removes every shard of b --- *)
Theorem c16_dot_user_aliases : forall root b (f : fs),
  collection_dir root dot b = user_dir root b /\
  filter (below_b (user_dir root b)) (delete_collection_shards f root dot b) = [].
Proof. exact thm_dot_wipes. Qed.
Print Assumptions c16_dot_user_aliases.

(* the non-interference statement without the hypothesis "a is not '.'" is false *)
Theorem c16_dot_user_refuted :
  exists root a b ops st, no_slash a /\ a <> [] /\ plain b /\ a <> b /\ wf st /\ Forall op_ok ops /\
    v_dirs (view_of root b st) = [([[114]; ucols; w_bob; w_col; w_s1], 7)] /\
    v_dirs (view_of root b (run root a ops st)) = [] /\
    snd (step root b (OReadShard 2 w_col w_s1) st) = AContent (Some 7) /\
    snd (step root b (OReadShard 2 w_col w_s1) (run root a ops st)) = AContent None /\
    view_of root b (run root a ops st) <> view_of root b st.
Proof. exact thm_dot_user_refuted. Qed.
Print Assumptions c16_dot_user_refuted.

(* user "..": its collection "userCollections" (a valid v1 collection id) is the directory
   that holds every user; deleting it removes every shard of every user *)
Theorem c16_dotdot_user_wipes_all : forall root b (f : fs), plain b ->
  filter (below_b (user_dir root b)) (delete_collection_shards f root dotdot ucols) = [].
Proof. exact thm_dotdot_wipes. Qed.
Print Assumptions c16_dotdot_user_wipes_all.

Theorem c16_dotdot_user_refuted :
  exists root a b b' ops st, no_slash a /\ a <> [] /\ plain b /\ plain b' /\ a <> b /\ a <> b' /\ wf st /\
    Forall op_ok ops /\ valid_col 1 ucols = true /\
    v_dirs (view_of root b st) = [([[114]; ucols; w_bob; w_col; w_s1], 7)] /\
    v_dirs (view_of root b' st) = [([[114]; ucols; w_eve; w_xyz; w_s2], 5)] /\
    v_dirs (view_of root b (run root a ops st)) = [] /\
    v_dirs (view_of root b' (run root a ops st)) = [] /\
    st_fs (run root a ops st) = [].
Proof. exact thm_dotdot_user_refuted. Qed.
Print Assumptions c16_dotdot_user_refuted.

(* --- what the two id checks of the HTTP layer guarantee --- *)
Theorem c16_id_checks :
  (forall u, user_ok_b u = true -> plain u) /\
  (forall v c, valid_col v c = true -> plain c) /\
  (forall b, plain_b b = true <-> plain b).
Proof. exact (conj user_ok_plain (conj valid_col_plain plain_b_spec)). Qed.
Print Assumptions c16_id_checks.

Theorem c16_wf_preserved : forall root a os, plain a -> forall st, wf st -> Forall op_ok os ->
  wf (run root a os st).
Proof. exact run_wf. Qed.
Print Assumptions c16_wf_preserved.

(* --- non-interference: for EVERY history of requests of user a (create / list / get /
       delete collection with any collection ids, shard creation, point writes and reads,
       shard deletion) from any well-formed state, everything user b can observe is unchanged --- *)
Theorem c16_noninterference : forall root a b os, plain a -> plain b -> a <> b ->
  forall st, wf st -> Forall op_ok os ->
  view_of root b (run root a os st) = view_of root b st /\
  (forall c, get_collection (st_db (run root a os st)) b c = get_collection (st_db st) b c) /\
  list_collections (st_db (run root a os st)) b = list_collections (st_db st) b /\
  user_count (st_db (run root a os st)) b = user_count (st_db st) b.
Proof. exact thm_noninterference. Qed.
Print Assumptions c16_noninterference.

(* one request, and the current tree: whatever byte string the acting requests carry as X-User-Id *)
Theorem c16_step_noninterference : forall root a b o st, plain a -> plain b -> a <> b -> wf st -> op_ok o ->
  view_of root b (fst (step root a o st)) = view_of root b st.
Proof. exact step_other. Qed.
Print Assumptions c16_step_noninterference.

Theorem c16_http_noninterference : forall root a b os, user_ok_b b = true -> a <> b ->
  forall st, wf st -> Forall op_ok os ->
  view_of root b (http_run root a os st) = view_of root b st.
Proof. exact thm_http_noninterference. Qed.
Print Assumptions c16_http_noninterference.

(* --- the answers to b's own requests, and b's view afterwards, depend on the state only
       through b's view --- *)
Theorem c16_own_requests_depend_on_view : forall root b o st1 st2,
  plain b -> wf st1 -> wf st2 -> op_ok o ->
  view_of root b st1 = view_of root b st2 ->
  snd (step root b o st1) = snd (step root b o st2) /\
  view_of root b (fst (step root b o st1)) = view_of root b (fst (step root b o st2)).
Proof. exact step_own. Qed.
Print Assumptions c16_own_requests_depend_on_view.

(* --- any interleaving of the requests of any number of (plain) users: the answers user b
       gets, and b's final view, are those of the history with everybody else's requests erased --- *)
Theorem c16_interleaving : forall root b h st, plain b -> wf st ->
  Forall (fun e : bytes * op => plain (fst e) /\ op_ok (snd e)) h ->
  of_user b (snd (run_all root h st)) = snd (run_all root (of_user b h) st) /\
  view_of root b (fst (run_all root h st)) = view_of root b (fst (run_all root (of_user b h) st)).
Proof. exact thm_interleaving. Qed.
Print Assumptions c16_interleaving.

(* --- non-vacuity: concrete instances computed by the kernel --- *)
(* ids that are prefixes of one another: "a" / "ab"; user+collection concatenations:
   ("ab","c") against ("a","bc"): the keys "ab/c" and "a/bc" differ, the scan prefix "a/"
   does not match "ab/c" and the scan prefix "ab/" does not match "a/bc" *)
Example c16_ex_prefix_ids :
  is_prefix (user_prefix [97]) (rec_key [97;98] [99]) = false /\
  is_prefix (user_prefix [97;98]) (rec_key [97] [98;99]) = false /\
  is_prefix (user_prefix [97]) (rec_key [97] [98;99]) = true /\
  rec_key [97;98] [99] <> rec_key [97] [98;99] /\
  no_slash [97] /\ no_slash [97;98].
Proof.
  repeat split; try (vm_compute; reflexivity); try discriminate;
    intros H; vm_compute in H; intuition discriminate.
Qed.
(* the same byte strings with the delimiter inside the id: "a/b" + "c" and "a" + "b/c" collide *)
Example c16_ex_slash_collision : rec_key [97;47;98] [99] = rec_key [97] [98;47;99].
Proof. reflexivity. Qed.
(* paths: "/r" + users "a", "ab" *)
Example c16_ex_paths :
  shard_dir w_root [97] w_col w_s1 = [[114]; ucols; [97]; w_col; w_s1] /\
  collection_dir w_root dot w_bob = [[114]; ucols; w_bob] /\
  collection_dir w_root dotdot ucols = [[114]; ucols] /\
  collection_dir w_root w_a_b w_col = [[114]; ucols; [97]; [98]; w_col] /\
  join_clean [[47;116;109;112;47;47;120;47]; [46;46;47;121]; []; [46]] = [[116;109;112]; [121]].
Proof. vm_compute. repeat split; reflexivity. Qed.
(* two tenants with the same collection name; "a" and "ab" (prefix of each other): after
   "a" filled its quota, created shards, wrote, deleted -- "ab" sees what it saw before *)
Definition ex_ab_state : state :=
  run w_root [97;98] [OCreate 2 w_col 2; OCreateShard 2 w_col w_s1; OWriteShard 2 w_col w_s1 7] w_empty.
Definition ex_a_ops : list op :=
  [OCreate 2 w_col 2; OCreate 2 w_xyz 2; OCreate 2 w_ccc 2; OCreateShard 2 w_col w_s1;
   OWriteShard 2 w_col w_s1 9; OList; ODelete 2 w_col; ODelete 2 [46;46;47;97;98]].
Example c16_ex_noninterference :
  plain [97] /\ plain [97;98] /\ wf ex_ab_state /\ Forall op_ok ex_a_ops /\
  view_of w_root [97;98] (run w_root [97] ex_a_ops ex_ab_state) = view_of w_root [97;98] ex_ab_state /\
  v_dirs (view_of w_root [97;98] ex_ab_state) = [([[114]; ucols; [97;98]; w_col; w_s1], 7)] /\
  v_count (view_of w_root [97;98] ex_ab_state) = 1 /\
  snd (step w_root [97] (OCreate 2 w_ccc 2) (run w_root [97] [OCreate 2 w_col 2; OCreate 2 w_xyz 2] ex_ab_state)) = AQuota /\
  snd (step w_root [97;98] (OCreate 2 w_ccc 2) (run w_root [97] [OCreate 2 w_col 2; OCreate 2 w_xyz 2] ex_ab_state)) = ACreated.
Proof.
  split; [plain_by_compute|]. split; [plain_by_compute|].
  split; [apply run_wf; [plain_by_compute|exact wf_empty|ops_ok]|].
  split; [ops_ok|].
  repeat split; vm_compute; reflexivity.
Qed.
