(* Model_C06.v -- composite queries: union / intersection of sub-results, sum of
   hybrid contributions, ranked-then-unranked order, field selection, explicit
   sorting with missing values last, offset/limit.  Definitions only. *)
From Coq Require Import List NArith ZArith QArith Bool.
From Semadb Require Import Bytes U64 Value Obs Dyadic Model_C19 Model_C01 Model_C02 Model_C04.
Import ListNotations.
Open Scope N_scope.

(* ---------------- evaluation of a query tree ---------------- *)

(* a ranked entry: id, hybrid score, first non-nil distance, first non-nil score *)
Record rk := mkRk { k_id : uuid; k_hybrid : Q; k_dist : option N; k_score : option N }.
Definition rk_of_row (r : row) : rk := mkRk (r_id r) (f32_to_Q (r_hybrid r)) (r_dist r) (r_score r).

Fixpoint rk_find (id : uuid) (l : list rk) : option rk :=
  match l with [] => None | x :: r => if bytes_eqb id (k_id x) then Some x else rk_find id r end.
Fixpoint rk_update (e : rk) (l : list rk) : list rk :=
  match l with
  | [] => []
  | x :: r => if bytes_eqb (k_id e) (k_id x)
              then mkRk (k_id x) (k_hybrid x + k_hybrid e)
                        (match k_dist x with Some d => Some d | None => k_dist e end)
                        (match k_score x with Some s => Some s | None => k_score e end) :: r
              else x :: rk_update e r
  end.
(* index/search.go searchParallel: dedupe in sub-query order, add hybrid scores, keep the first distance / score *)
Definition rk_add (acc : list rk) (e : rk) : list rk :=
  match rk_find (k_id e) acc with
  | Some _ => rk_update e acc
  | None => acc ++ [e]
  end.
Definition merge_ranked (is_or : bool) (final : list uuid) (children : list (list rk)) : list rk :=
  fold_left (fun acc child =>
               fold_left (fun acc e => if is_or || mem_bytes (k_id e) final then rk_add acc e else acc) child acc)
            children [].

Definition is_ranking (q : query) : bool :=
  match q with QText _ _ _ _ _ _ | QFlat _ _ _ _ _ | QVamana _ _ _ _ _ _ => true | _ => false end.

(* number of ranking leaves of a tree, in depth-first order (filters of ranking leaves are not descended into) *)
Fixpoint n_ranking (q : query) : nat :=
  match q with
  | QAnd qs | QOr qs => fold_right (fun c acc => (n_ranking c + acc)%nat) 0%nat qs
  | q' => if is_ranking q' then 1%nat else 0%nat
  end.

(* eval: subs = the standalone answers of the ranking leaves still to be consumed.
   Result: (matched id set, ranked entries, leaf_order, remaining subs); None = cannot judge.
   leaf_order = true: no merge happened, the ranked entries are one ranking leaf's answer in its own order
   (non-decreasing distance / non-increasing score: C03, C04, C05); false: merged and re-sorted by hybrid
   score, highest first -- the ranked entries are then an unordered table. *)
Fixpoint eval (sc : schema) (t : list (bytes * bytes)) (live : store) (q : query) (subs : list (list row))
  {struct q} : option (list uuid * list rk * bool * list (list row)) :=
  match q with
  | QAnd qs | QOr qs =>
      let is_or := match q with QOr _ => true | _ => false end in
      let step := fix go (qs : list query) (subs : list (list row))
                    : option (list (list uuid) * list (list rk) * list bool * list (list row)) :=
        match qs with
        | [] => Some ([], [], [], subs)
        | c :: r =>
            match eval sc t live c subs with
            | None => None
            | Some (s, rkd, fl, subs') =>
                match go r subs' with
                | None => None
                | Some (ss, rks, fls, subs'') => Some (s :: ss, rkd :: rks, fl :: fls, subs'')
                end
            end
        end in
      match step qs subs with
      | None => None
      | Some ([s], [rkd], [fl], subs') => Some (s, rkd, fl, subs')        (* single sub-query: passed through, order kept *)
      | Some (ss, rks, _, subs') =>
          let final := match ss with
                       | [] => []
                       | s0 :: rest => fold_left (fun acc s => if is_or then ids_union acc s else ids_inter acc s) rest s0
                       end in
          Some (final, merge_ranked is_or final rks, false, subs')        (* merged: re-sorted by hybrid score *)
      end
  | leaf =>
      if is_ranking leaf then
        match subs with
        | rows :: rest => Some (map r_id rows, map rk_of_row rows, true, rest)   (* the leaf's own order *)
        | [] => None
        end
      else
        match answer sc t live leaf with
        | Some ids => Some (ids, [], true, subs)
        | None => None
        end
  end.

(* ---------------- select ---------------- *)

(* assign value v at nested path segs inside a map value; None = "could not access nested property" *)
Fixpoint set_nested (segs : list bytes) (v : value) (d : doc) : option doc :=
  match segs with
  | [] => Some d
  | [s] => Some (doc_set s v d)
  | s :: rest =>
      match doc_get s d with
      | None => match set_nested rest v [] with Some sub => Some (doc_set s (VMap sub) d) | None => None end
      | Some (VMap sub) => match set_nested rest v sub with Some sub' => Some (doc_set s (VMap sub') d) | None => None end
      | Some _ => None
      end
  end.

(* shard.SearchPoints select loop: "*" decodes the whole document over what was selected so far and stops *)
Fixpoint select_go (paths : list bytes) (d acc : doc) : option doc :=
  match paths with
  | [] => Some acc
  | p :: rest =>
      if bytes_eqb p [42] then Some (fold_left (fun a kv => doc_set (fst kv) (snd kv) a) d acc)
      else match query_path (split_dots p) (VMap d) with
           | QErr => None
           | QAbsent => select_go rest d acc
           | QFound v => match set_nested (split_dots p) v acc with
                         | Some acc' => select_go rest d acc'
                         | None => None
                         end
           end
  end.
Definition select_doc (paths : list bytes) (d : doc) : option doc := select_go paths d [].

(* does the request return decoded (selected) documents, the raw document, or none? *)
Definition decodes (r : request) : bool :=
  match rq_select r with
  | [] => negb (match rq_sort r with [] => true | _ => false end)
  | p :: _ => negb (bytes_eqb p [42]) || negb (match rq_sort r with [] => true | _ => false end)
  end.

(* deep, order-insensitive equality of values (maps compared as maps at every level) *)
Fixpoint value_sim (fuel : nat) (a b : value) : bool :=
  match fuel with
  | O => false
  | S f =>
      match a, b with
      | VArr x, VArr y => list_eqb (value_sim f) x y
      | VMap x, VMap y =>
          (length x =? length y)%nat &&
          forallb (fun kv => match doc_get (fst kv) y with Some v => value_sim f (snd kv) v | None => false end) x
      | _, _ => value_eqb a b
      end
  end.
Definition doc_sim (a b : doc) : bool := value_sim 12 (VMap a) (VMap b).

(* ---------------- explicit sort (utils.SortSearchResults / CompareAny) ---------------- *)

(* reflect.Kind of a decoded value *)
Definition kind_of (v : value) : Z :=
  match v with
  | VNil => 0 | VBool _ => 1 | VInt _ => 6 | VF32 _ => 13 | VF64 _ => 14
  | VMap _ => 21 | VArr _ => 23 | VStr _ => 24
  end.
Definition f32_ord (b : N) : Z := if b <? 2147483648 then Z.of_N b else (- Z.of_N (b - 2147483648))%Z.
Definition compare_any (a b : value) : comparison :=
  match Z.compare (kind_of a) (kind_of b) with
  | Eq =>
      match a, b with
      | VInt x, VInt y => Z.compare x y
      | VF64 x, VF64 y => Z.compare (f64_ord x) (f64_ord y)
      | VF32 x, VF32 y => Z.compare (f32_ord x) (f32_ord y)
      | VStr x, VStr y => lex_compare x y
      | _, _ => Eq
      end
  | c => c
  end.
(* utils.AccessNestedProperty on the decoded data *)
Fixpoint access_nested (segs : list bytes) (v : value) : option value :=
  match segs with
  | [] => Some v
  | s :: rest => match v with
                 | VMap l => match doc_get s l with Some v' => access_nested rest v' | None => None end
                 | _ => None
                 end
  end.
Fixpoint sort_cmp (keys : list (bytes * bool)) (a b : doc) : comparison :=
  match keys with
  | [] => Eq
  | (p, desc) :: rest =>
      match access_nested (split_dots p) (VMap a), access_nested (split_dots p) (VMap b) with
      | Some _, None => Lt
      | None, Some _ => Gt
      | None, None => sort_cmp rest a b
      | Some x, Some y =>
          match (if desc then compare_any y x else compare_any x y) with
          | Eq => sort_cmp rest a b
          | c => c
          end
      end
  end.

(* insertion sort with a comparator: the reference order up to ties *)
Fixpoint insert_by {A} (cmp : A -> A -> comparison) (x : A) (l : list A) : list A :=
  match l with
  | [] => [x]
  | y :: r => match cmp x y with Gt => y :: insert_by cmp x r | _ => x :: l end
  end.
Definition sort_by {A} (cmp : A -> A -> comparison) (l : list A) : list A := fold_right (insert_by cmp) [] l.

(* ---------------- paging ---------------- *)
Definition page {A} (offset limit : N) (l : list A) : list A :=
  let lim := if limit =? 0 then length l else N.to_nat limit in
  firstn lim (skipn (N.to_nat offset) l).
