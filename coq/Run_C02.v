(* Run_C02.v -- verdict for C02: every filter query recorded in a history must
   return exactly the live points whose stored document satisfies it. The
   reference state is the set of live documents observed at that step. *)
From Coq Require Import List NArith ZArith Bool.
From Semadb Require Import Bytes Pack Value Obs Model_C01 Model_C02.
Import ListNotations.
Open Scope N_scope.

Definition judge_query (sc : schema) (st : step) (rq : request * qout) : N :=
  let '(r, o) := rq in
  match answer sc (s_lower st) (s_live st) (rq_query r) with
  | None => 290
  | Some expect =>
      match o with
      | QError _ => 152
      | QRows rows =>
          let got := row_ids rows in
          if negb (nodup_ids got) then 153
          else if same_ids got expect then 0 else 151
      end
  end.

Fixpoint first_nonzero (l : list N) : N :=
  match l with [] => 0 | x :: r => if x =? 0 then first_nonzero r else x end.

Fixpoint judge_steps (sc : schema) (i : N) (steps : list step) : N :=
  match steps with
  | [] => 0
  | st :: rest =>
      match s_out st with
      | OCrash _ => 0
      | _ =>
          let c := first_nonzero (map (judge_query sc st) (s_queries st)) in
          if c =? 0 then judge_steps sc (i + 1) rest else c + 1000 * (i + 1)
      end
  end.

Definition verdict (h : hist) : N := judge_steps (h_schema h) 0 (h_steps h).

(* for mixed histories (C07, C08, C09): requests that are not pure filter queries are judged elsewhere *)
Fixpoint pure_filter (q : query) : bool :=
  match q with
  | QAnd qs | QOr qs => forallb pure_filter qs
  | QText _ _ _ _ _ _ | QFlat _ _ _ _ _ | QVamana _ _ _ _ _ _ => false
  | _ => true
  end.
Fixpoint judge_steps_lenient (sc : schema) (i : N) (steps : list step) : N :=
  match steps with
  | [] => 0
  | st :: rest =>
      match s_out st with
      | OCrash _ => 0
      | _ =>
          let c := first_nonzero (map (fun rq => if pure_filter (rq_query (fst rq)) then judge_query sc st rq else 0) (s_queries st)) in
          if c =? 0 then judge_steps_lenient sc (i + 1) rest else c + 1000 * (i + 1)
      end
  end.
Definition verdict_lenient (h : hist) : N := judge_steps_lenient (h_schema h) 0 (h_steps h).

Fixpoint bad_from (i : N) (cs : list hist) : list (N * N) :=
  match cs with
  | [] => []
  | c :: r => let v := verdict c in
              if v =? 0 then bad_from (i + 1) r else (i, v) :: bad_from (i + 1) r
  end.
Definition bad (cs : list hist) : list (N * N) := bad_from 0 cs.
