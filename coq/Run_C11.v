(* Run_C11.v -- verdicts on forced schedules of the REAL cache package.

   The harness runs every transaction of `progs` in its own goroutine against a
   fresh cache.Manager(limit) and decides the order: a schedule is a list of
   releases.  `T t` lets transaction t run from the point where it is held
   (before its next operation / inside its callback) to the next such point;
   `D n` is Manager.Release(name n).  After each release the harness records
   the status of every transaction (held before operation pc with the error
   flags of the With calls so far; held inside the callback of operation pc on
   element e; blocked inside operation pc) and the manager map (name, element).
   Elements are numbered in the order createFn produced them, which is the
   order in which the model allocates them.

   Codes.  SPECFAIL (observations only):
     101 a transaction's callback ran on an element on which another, not yet
         committed transaction had a writing callback (or two callbacks
         overlapped on one element and one of them was a writing access)
     102 a callback STARTED on an element after a callback on it had failed /
         after the transaction that wrote it committed with failure
     103 after all transactions finished the probe transaction (one writing and
         one read access per name) blocked
     104 a read access blocked
     105 a writing access was accepted (its callback ran) after the Commit of its
         own transaction had returned: nobody is left to release that lock
     110 stale element: a callback started on an element created before a
         successful commit to its name by another transaction that had not
         written that element, unless the transaction itself holds that element's
         write lock or was already waiting for it when the other committed (two
         writers of one name at once are outside the quantifier).  This was finding
         F6, repaired by 2d185e4: a recurrence is a violation
   MISMATCH: 201 the observations differ from the model on the same schedule;
             202 the case is tagged F6pre (the harness saw the entry of a write-held
                 cache leave the map) but the model's run has no such step. *)
From Coq Require Import List NArith ZArith Bool Arith.
From Semadb Require Import Model_C11.
Import ListNotations.

Inductive tstat := SIdle (pc : N) (rets : list bool) | SIn (pc e : N) | SBlk (pc : N).
Inductive f6tag := F6pre | NoF6.
Definition obs := (list tstat * list (N * N))%type.

(* short constructors taking N, for the generated case files *)
Definition W (n : N) (ro : bool) (oc : outcome) : op := OWith (N.to_nat n) ro oc.
Definition C (fl : bool) : op := OCommit fl.
Definition T (t : N) : label := LT (N.to_nat t).
Definition D (n : N) : label := LDel (N.to_nat n).

Inductive c11case :=
| CSched (tag : f6tag) (limit : Z) (probe : bool) (progs : list (list op)) (sched : list label)
         (observed : list obs).

(* ---------- observations as nat ---------- *)
Inductive st3 := XIdle (pc : nat) (rets : list bool) | XIn (pc e : nat) | XBlk (pc : nat).
Definition conv (s : tstat) : st3 :=
  match s with
  | SIdle pc r => XIdle (N.to_nat pc) r
  | SIn pc e => XIn (N.to_nat pc) (N.to_nat e)
  | SBlk pc => XBlk (N.to_nat pc)
  end.
Definition xobs := (list st3 * list (nat * nat))%type.
Definition conv_obs (o : obs) : xobs :=
  (map conv (fst o), map (fun p : N * N => (N.to_nat (fst p), N.to_nat (snd p))) (snd o)).

Definition st3_eqb (a b : st3) : bool :=
  match a, b with
  | XIdle p r, XIdle p' r' => Nat.eqb p p' && (if list_eq_dec bool_dec r r' then true else false)
  | XIn p e, XIn p' e' => Nat.eqb p p' && Nat.eqb e e'
  | XBlk p, XBlk p' => Nat.eqb p p'
  | _, _ => false
  end.
Fixpoint list_eqb {A} (f : A -> A -> bool) (a b : list A) : bool :=
  match a, b with
  | [], [] => true
  | x :: a', y :: b' => f x y && list_eqb f a' b'
  | _, _ => false
  end.

Definition stat_at (o : xobs) (t : nat) : st3 := nth t (fst o) (XIdle 0 []).
Definition pc_of (s : st3) : nat := match s with XIdle p _ | XIn p _ | XBlk p => p end.
Definition op_at (progs : list (list op)) (t pc : nat) : option op := nth_error (nth t progs []) pc.
Definition writing_op (o : option op) : bool := match o with Some (OWith _ false _) => true | _ => false end.
Definition ro_op (o : option op) : bool := match o with Some (OWith _ true _) => true | _ => false end.
Definition name_op (o : option op) : nat := match o with Some (OWith n _ _) => n | _ => 0 end.
Definition cbfail_op (o : option op) : bool := match o with Some (OWith _ _ CbFail) => true | _ => false end.
Fixpoint commit_index (p : list op) : nat :=
  match p with
  | [] => 0
  | OCommit _ :: _ => 0
  | _ :: r => S (commit_index r)
  end.
Definition commit_flag (p : list op) : bool :=
  match nth_error p (commit_index p) with Some (OCommit fl) => fl | _ => false end.

(* history accumulated along the observations *)
Record hist := mkH {
  h_prev : xobs;
  h_step : nat;
  h_wrote : list (nat * nat * nat);            (* (transaction, element, name) *)
  h_created : list (nat * nat);                (* (element, step) *)
  h_scrapped : list nat;
  h_commits : list (nat * nat * nat * list nat * list nat);   (* (transaction, name, step, elements it wrote under the name,
                                                               writers of the name that were waiting for a lock at that moment) *)
  h_codes : list N }.

Definition memb (x : nat) (l : list nat) : bool := existsb (Nat.eqb x) l.
Definition created_at (h : list (nat * nat)) (e : nat) : option nat :=
  match find (fun p : nat * nat => Nat.eqb (fst p) e) h with Some p => Some (snd p) | None => None end.

(* callbacks that start in o (compared with the previous observation) *)
Definition starts (progs : list (list op)) (ntx : nat) (p o : xobs) : list (nat * nat * nat * bool) :=
  flat_map (fun t =>
    match stat_at o t with
    | XIn pc e => if st3_eqb (stat_at p t) (XIn pc e) then []
                  else [(t, e, name_op (op_at progs t pc), writing_op (op_at progs t pc))]
    | _ => []
    end) (seq 0 ntx).
(* callbacks that ended between p and o: (t, e, failed) *)
Definition ends (progs : list (list op)) (ntx : nat) (p o : xobs) : list (nat * nat * bool) :=
  flat_map (fun t =>
    match stat_at p t with
    | XIn pc e => if st3_eqb (stat_at o t) (XIn pc e) then [] else [(t, e, cbfail_op (op_at progs t pc))]
    | _ => []
    end) (seq 0 ntx).
(* commits that returned between p and o: (t, failed) *)
Definition commits_now (progs : list (list op)) (ntx : nat) (p o : xobs) : list (nat * bool) :=
  flat_map (fun t =>
    let ci := commit_index (nth t progs []) in
    if Nat.leb (pc_of (stat_at p t)) ci && Nat.ltb ci (pc_of (stat_at o t)) && Nat.ltb ci (length (nth t progs []))
    then [(t, commit_flag (nth t progs []) ||
              match stat_at o t with XIdle _ r => existsb (fun b => b) r | _ => false end)]
    else []) (seq 0 ntx).
Fixpoint dedup (l : list nat) : list nat :=
  match l with [] => [] | x :: r => if memb x r then dedup r else x :: dedup r end.

Definition judge_step (probe : bool) (progs : list (list op)) (ntx : nat) (h : hist) (o : xobs) : hist :=
  let p := h_prev h in
  let j := h_step h in
  (* effects of callbacks that ended and of commits *)
  let en := ends progs ntx p o in
  let cm := commits_now progs ntx p o in
  let scr1 := map (fun x : nat * nat * bool => snd (fst x)) (filter (fun x : nat * nat * bool => snd x) en) in
  let scr2 := flat_map (fun c : nat * bool =>
                 if snd c then map (fun x : nat * nat * nat => snd (fst x))
                                   (filter (fun x : nat * nat * nat => Nat.eqb (fst (fst x)) (fst c)) (h_wrote h))
                 else []) cm in
  let scrapped := scr1 ++ scr2 ++ h_scrapped h in
  let newc := flat_map (fun c : nat * bool =>
                 if snd c then []
                 else let mine := filter (fun x : nat * nat * nat => Nat.eqb (fst (fst x)) (fst c)) (h_wrote h) in
                      map (fun n => (fst c, n, j,
                                     map (fun x : nat * nat * nat => snd (fst x))
                                         (filter (fun x : nat * nat * nat => Nat.eqb (snd x) n) mine),
                                     filter (fun t => match stat_at o t with
                                                      | XBlk pc => writing_op (op_at progs t pc) && Nat.eqb (name_op (op_at progs t pc)) n
                                                      | _ => false end) (seq 0 ntx)))
                          (dedup (map (fun x : nat * nat * nat => snd x) mine))) cm in
  let commits := newc ++ h_commits h in
  (* callbacks that start *)
  let ss := starts progs ntx p o in
  let c102 := existsb (fun s : nat * nat * nat * bool => memb (snd (fst (fst s))) scrapped) ss in
  let c110 := existsb (fun s : nat * nat * nat * bool =>
                 let '(t, e, n, _) := s in
                 (* not the cache t itself holds the write lock of: two writers of one name
                    at the same time are outside the quantifier (bbolt: one writer per file) *)
                 negb (existsb (fun x : nat * nat * nat => Nat.eqb (fst (fst x)) t && Nat.eqb (snd (fst x)) e) (h_wrote h)) &&
                 existsb (fun c : nat * nat * nat * list nat * list nat =>
                            let '(w, n', cstep, els, waiting) := c in
                            (* nor a writer that was already waiting for the element when w committed *)
                            negb (Nat.eqb w t) && Nat.eqb n n' && negb (memb e els) && negb (memb t waiting) &&
                            match created_at (h_created h) e with Some k => Nat.ltb k cstep | None => false end)
                         commits) ss in
  let created := fold_left (fun acc (s : nat * nat * nat * bool) =>
                   let e := snd (fst (fst s)) in
                   match created_at acc e with Some _ => acc | None => (e, j) :: acc end) ss (h_created h) in
  let wrote := map (fun s : nat * nat * nat * bool => let '(t, e, n, _) := s in (t, e, n))
                   (filter (fun s : nat * nat * nat * bool => snd s) ss) ++ h_wrote h in
  (* exclusion: t' inside a callback on e while another uncommitted transaction has written e *)
  let c101 := existsb (fun t' =>
                 match stat_at o t' with
                 | XIn _ e =>
                     existsb (fun x : nat * nat * nat =>
                                let '(w, e', _) := x in
                                negb (Nat.eqb w t') && Nat.eqb e e' &&
                                Nat.leb (pc_of (stat_at o w)) (commit_index (nth w progs []))) wrote
                 | _ => false
                 end) (seq 0 ntx) in
  let c104 := existsb (fun t => match stat_at o t with
                                | XBlk pc => ro_op (op_at progs t pc)
                                | _ => false end) (seq 0 ntx) in
  (* a writing callback runs although the Commit of its transaction has returned *)
  let c105 := existsb (fun t => match stat_at o t with
                                | XIn pc _ => writing_op (op_at progs t pc) &&
                                              Nat.ltb (commit_index (nth t progs [])) pc
                                | _ => false end) (seq 0 ntx) in
  let c103 := probe && match stat_at o (ntx - 1) with XBlk _ => true | _ => false end in
  let codes := (if c101 then [101%N] else []) ++ (if c102 then [102%N] else []) ++
               (if c103 then [103%N] else []) ++ (if c104 then [104%N] else []) ++ (if c105 then [105%N] else []) ++
               (if c110 then [110%N] else []) in
  mkH o (S j) wrote created scrapped commits (codes ++ h_codes h).

Definition judge (probe : bool) (progs : list (list op)) (observed : list xobs) : list N :=
  let ntx := length progs in
  h_codes (fold_left (judge_step probe progs ntx) observed
             (mkH (map (fun _ => XIdle 0 []) progs, []) 0 [] [] [] [] [])).

(* ---------- the model on the same schedule ---------- *)
Definition model_stat (progs : list (list op)) (st : state) (t : nat) : st3 :=
  let Tx := txs st t in
  let pc := length (nth t progs []) - length (prog Tx) in
  match ph Tx with
  | PIdle => XIdle pc (rev (rets Tx))
  | PIn _ c => XIn pc (c_e c)
  | _ => XBlk pc
  end.
Definition model_obs (progs : list (list op)) (st : state) : xobs :=
  (map (model_stat progs st) (seq 0 (length progs)), mmap st).

Definition map_eqb (m o : list (nat * nat)) : bool :=
  Nat.eqb (length m) (length o) &&
  forallb (fun p : nat * nat => match lookup (fst p) m with Some e => Nat.eqb e (snd p) | None => false end) o.
Definition obs_eqb (a b : xobs) : bool :=
  list_eqb st3_eqb (fst a) (fst b) && map_eqb (snd a) (snd b).

Fixpoint model_run (limit : Z) (progs : list (list op)) (sched : list label) (observed : list xobs)
         (sb : state * bool) : bool * bool :=      (* (all observations equal, clean) *)
  match sched, observed with
  | [], [] => (true, snd sb)
  | l :: r, o :: ro =>
      let ntx := length progs in
      let sb1 := settle ntx true true limit ntx (drive ntx true true limit sb l) in
      if obs_eqb (model_obs progs (fst sb1)) o then model_run limit progs r ro sb1
      else (false, snd sb1)
  | _, _ => (false, snd sb)
  end.

Definition pick (codes : list N) : N :=
  let has c := existsb (N.eqb c) codes in
  if has 102%N then 102%N else if has 103%N then 103%N else if has 104%N then 104%N else if has 105%N then 105%N
  else if has 101%N then 101%N else if has 110%N then 110%N else 0%N.

Definition verdict (c : c11case) : N :=
  match c with
  | CSched tag limit probe progs sched observed =>
      let xo := map conv_obs observed in
      let s := pick (judge probe progs xo) in
      if negb (N.eqb s 0) then s
      else let r := model_run limit progs sched xo (init progs, true) in
           if negb (fst r) then 201%N
           else match tag with
                | F6pre => if snd r then 202%N else 0%N
                | NoF6 => 0%N
                end
  end.

Fixpoint bad_from (i : N) (cs : list c11case) : list (N * N) :=
  match cs with
  | [] => []
  | c :: r => let v := verdict c in
              if N.eqb v 0 then bad_from (i + 1)%N r else (i, v) :: bad_from (i + 1)%N r
  end.
Definition bad (cs : list c11case) : list (N * N) := bad_from 0%N cs.

(* for debugging: the model's observation trace *)
Fixpoint model_trace (limit : Z) (progs : list (list op)) (sched : list label) (sb : state * bool) : list xobs :=
  match sched with
  | [] => []
  | l :: r =>
      let ntx := length progs in
      let sb1 := settle ntx true true limit ntx (drive ntx true true limit sb l) in
      model_obs progs (fst sb1) :: model_trace limit progs r sb1
  end.
