(* Run_C04.v -- verdict for C04: every flat vector search recorded in a history
   must be an exact k-nearest selection of the live points that carry the
   vector field and pass the pre-filter, with the right distances. *)
From Coq Require Import List NArith ZArith QArith Bool.
From Semadb Require Import Bytes Pack Value Obs Dyadic Model_C01 Model_C02 Model_C04.
Import ListNotations.
Open Scope N_scope.

Fixpoint find_f32s (bucket key : bytes) (xs : list extra) : option (list N) :=
  match xs with
  | [] => None
  | XF32s b k v :: r => if bytes_eqb b bucket && bytes_eqb k key then Some v else find_f32s bucket key r
  | _ :: r => find_f32s bucket key r
  end.
Fixpoint find_oracle (qi : N) (xs : list extra) : list (bytes * N) :=
  match xs with
  | [] => []
  | XOracle i d :: r => if i =? qi then d else find_oracle qi r
  | _ :: r => find_oracle qi r
  end.
Fixpoint assoc_N (id : bytes) (l : list (bytes * N)) : option N :=
  match l with [] => None | (k, v) :: r => if bytes_eqb id k then Some v else assoc_N id r end.

Definition flat_bucket (prop : bytes) : bytes :=
  (* "index/vectorFlat/" ++ prop *)
  [105;110;100;101;120;47;118;101;99;116;111;114;70;108;97;116;47] ++ prop.
Definition thr_key : bytes :=
  (* "_binaryQuantizerThreshold" *)
  [95;98;105;110;97;114;121;81;117;97;110;116;105;122;101;114;84;104;114;101;115;104;111;108;100].

Definition cands_for (sc : schema) (st : step) (qi : N) (prop : bytes) (metric : N) (qz : quant)
           (q : list N) (filter : option query) : option (list cand) :=
  let allowed := match filter with
                 | None => Some (map fst (s_live st))
                 | Some f => answer sc (s_lower st) (s_live st) f
                 end in
  match allowed with
  | None => None
  | Some ids =>
      let trained := find_f32s (flat_bucket prop) thr_key (s_extra st) in
      let orc := find_oracle qi (s_extra st) in
      Some (flat_map (fun p =>
              if mem_bytes (fst p) ids then
                match vec_at prop (snd p) with
                | Some v => [mkCand (fst p) (model_dist metric qz trained q v)
                                    (option_map f64_to_Q (assoc_N (fst p) orc))]
                | None => []
                end
              else []) (s_live st))
  end.

Definition judge_query (sc : schema) (st : step) (qi : N) (rq : request * qout) : N :=
  let '(r, o) := rq in
  match rq_query r with
  | QFlat prop q limit w filter =>
      match schema_get prop sc with
      | Some (IFlat dim metric qz) =>
          match cands_for sc st qi prop metric qz q filter with
          | None => 290
          | Some cs =>
              match o with
              | QError _ => 169
              | QRows rows =>
                  let c := ksel_code limit cs rows in
                  if negb (c =? 0) then 160 + c
                  else if negb (forallb (hybrid_ok w) rows) then 168
                  else if negb (forallb (fun r => match r_score r with None => true | Some _ => false end) rows) then 159
                  else 0
              end
          end
      | _ => 290
      end
  | _ => 0
  end.

Fixpoint judge_queries (sc : schema) (st : step) (qi : N) (qs : list (request * qout)) : N :=
  match qs with
  | [] => 0
  | rq :: r => let c := judge_query sc st qi rq in if c =? 0 then judge_queries sc st (qi + 1) r else c
  end.

Fixpoint judge_steps (sc : schema) (i : N) (steps : list step) : N :=
  match steps with
  | [] => 0
  | st :: rest =>
      match s_out st with
      | OCrash _ => 0
      | _ =>
          let c := judge_queries sc st 0 (s_queries st) in
          if c =? 0 then judge_steps sc (i + 1) rest else c + 1000 * (i + 1)
      end
  end.

Definition verdict (h : hist) : N := judge_steps (h_schema h) 0 (h_steps h).

Fixpoint bad_from (i : N) (cs : list hist) : list (N * N) :=
  match cs with
  | [] => []
  | c :: r => let v := verdict c in
              if v =? 0 then bad_from (i + 1) r else (i, v) :: bad_from (i + 1) r
  end.
Definition bad (cs : list hist) : list (N * N) := bad_from 0 cs.
