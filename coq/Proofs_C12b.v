(* Proofs_C12b.v -- deadlock freedom, termination, the deadlock of the pinned lock order,
   clean error on a stale entry, loading again after everything finished. *)
From Coq Require Import List Arith Bool Lia.
From Semadb Require Import Model_C12 Proofs_C12.
Import ListNotations.

(* ------------------------------------------------------------------ *)
(* executions *)

Fixpoint exec_b (fixed : bool) (st : state) (l : list tid) : option state :=
  match l with
  | [] => Some st
  | t :: r => match step fixed st t with Some st' => exec_b fixed st' r | None => None end
  end.

Lemma exec_b_sound : forall fixed l st st', exec_b fixed st l = Some st' -> exec fixed st l st'.
Proof.
  induction l; simpl; intros st st' H.
  - inversion H. constructor.
  - destruct (step fixed st a) eqn:Hs; try discriminate. econstructor; eauto.
Qed.

Lemma exec_app : forall fixed st l1 st1 l2 st2,
  exec fixed st l1 st1 -> exec fixed st1 l2 st2 -> exec fixed st (l1 ++ l2) st2.
Proof. induction 1; simpl; intros; auto. econstructor; eauto. Qed.

Lemma reachable_step : forall fixed st t st', reachable fixed st -> step fixed st t = Some st' -> reachable fixed st'.
Proof.
  intros fixed st t st' (nd & specs & sched & Hok & Hex) Hs.
  exists nd, specs, (sched ++ [t]). split; auto.
  eapply exec_app; eauto. econstructor; eauto. constructor.
Qed.

Lemma reachable_exec : forall fixed st l st', exec fixed st l st' -> reachable fixed st -> reachable fixed st'.
Proof. induction 1; intros; auto. apply IHexec. eapply reachable_step; eauto. Qed.

(* ------------------------------------------------------------------ *)
(* termination: every execution from st has at most [measure st] steps *)

Lemma exec_measure : forall fixed st l st', exec fixed st l st' -> length l + measure st' <= measure st.
Proof.
  induction 1; simpl; try lia.
  pose proof (step_measure _ _ _ _ H). lia.
Qed.

(* ------------------------------------------------------------------ *)
(* the pinned lock order deadlocks *)

Lemma T_overflow : forall st n, length (thr st) <= n -> T st n = dthr.
Proof. intros. unfold T. apply nth_overflow. auto. Qed.

Lemma tid_eq_dec : forall a b : tid, {a = b} + {a <> b}.
Proof. decide equality; apply Nat.eq_dec. Defined.

Lemma deadlockedb_sound : forall fixed st, deadlockedb fixed st = true ->
  unfinished st /\ forall t, step fixed st t = None.
Proof.
  intros fixed st H. unfold deadlockedb in H. apply andb_true_iff in H. destruct H as [Hu Hd].
  split.
  - unfold unfinishedb in Hu. apply existsb_exists in Hu. destruct Hu as [t [_ Ht]].
    exists t. destruct (finished st t); simpl in Ht; congruence.
  - rewrite forallb_forall in Hd. intros t.
    assert (Hin : In t (all_tids st) \/ ~ In t (all_tids st)).
    { destruct (in_dec tid_eq_dec t (all_tids st)); auto. }
    destruct Hin as [Hin|Hin].
    + specialize (Hd _ Hin). unfold enabledb in Hd. destruct (step fixed st t); simpl in Hd; congruence.
    + unfold all_tids in Hin. rewrite in_app_iff, !in_map_iff in Hin.
      destruct t as [n|e]; simpl.
      * rewrite T_overflow; auto.
        destruct (Nat.lt_ge_cases n (length (thr st))); auto.
        exfalso. apply Hin. left. exists n. split; auto. apply in_seq. lia.
      * unfold step_idle. rewrite E_overflow; auto.
        destruct (Nat.lt_ge_cases e (length (ents st))); auto.
        exfalso. apply Hin. right. exists e. split; auto. apply in_seq. lia.
Qed.

Definition deadlock_specs : list spec := [SReq 0; SDel].
Definition deadlock_sched : list tid :=
  [TC 0; TC 0; TC 0; TC 0; TC 0; TC 0; TC 0; TC 0;      (* a request loads shard 0 and returns *)
   TI 0; TI 0; TI 0;                                    (* idle timer fires; the routine takes mu *)
   TC 1; TC 1; TC 1;                                    (* deletion takes shardLock, finds the entry *)
   TI 0; TI 0].                                         (* the routine closes the shard, wants shardLock *)

Lemma deadlock_witness :
  exists st, reachable false st /\ unfinished st /\ forall t, step false st t = None.
Proof.
  destruct (exec_b false (init 1 deadlock_specs) deadlock_sched) as [st|] eqn:Hx; [|vm_compute in Hx; discriminate].
  exists st. split.
  - exists 1, deadlock_specs, deadlock_sched. split.
    + repeat constructor.
    + apply exec_b_sound; auto.
  - apply deadlockedb_sound. vm_compute in Hx. inversion Hx. vm_compute. reflexivity.
Qed.

(* the same schedule is harmless with the current lock order *)
Lemma deadlock_sched_fixed_ok :
  exists st, exec_b true (init 1 deadlock_specs) (deadlock_sched ++ [TI 0; TC 1; TC 1; TC 1; TC 1; TC 1; TC 1; TC 1; TC 1; TI 0; TI 0; TI 0]) = Some st
             /\ unfinishedb st = false.
Proof. eexists. split; [vm_compute; reflexivity | vm_compute; reflexivity]. Qed.

(* ------------------------------------------------------------------ *)
(* deadlock freedom of the current lock order *)

Definition pinned_pc (p : ipc) : bool :=
  match p with IAcqSLp | IDelp | IRelSLp | IUnlockP => true | _ => false end.
Definition nopinned (st : state) : Prop := forall e, pinned_pc (e_idle (E st e)) = false.

Lemma nopinned_step : forall st t st', inv1 st -> nopinned st -> step true st t = Some st' -> nopinned st'.
Proof.
  intros st t st' Hinv Hn H.
  step_cases H; facts Hinv; intros eX; pose proof (Hn eX) as Ha;
    autorewrite with c12; case_eqb; simpl; autorewrite with c12; simpl; auto;
    try (rewrite HI in Ha; discriminate).
  destruct (e_idle (E st e)); simpl in *; auto.
Qed.

Lemma nopinned_init : forall nd specs, nopinned (init nd specs).
Proof. intros nd specs e. unfold E. simpl. destruct e; reflexivity. Qed.

Lemma nopinned_exec : forall st l st', exec true st l st' -> inv st -> nopinned st -> nopinned st'.
Proof.
  induction 1; intros; auto. apply IHexec.
  - eapply inv_step; eauto.
  - destruct H1. eapply nopinned_step; eauto.
Qed.

Lemma nopinned_reachable : forall st, reachable true st -> nopinned st.
Proof.
  intros st (nd & specs & sched & Hok & Hex). eapply nopinned_exec; eauto.
  - split; [apply inv1_init; auto | apply inv2_init].
  - apply nopinned_init.
Qed.

Lemma reader_enabled : forall fixed st n e, inv1 st -> In n (e_rd (E st e)) -> step fixed st (TC n) <> None.
Proof.
  intros fixed st n e Hinv Hin. pose proof (i_L3a _ Hinv _ _ Hin) as Hr.
  simpl. destruct (T st n) as [d p|p]; try destruct p; simpl in *; try discriminate.
  destruct (e_open (E st e0)); discriminate.
Qed.

Lemma readers_progress : forall fixed st e, inv1 st -> is_nil (e_rd (E st e)) = false ->
  exists t, step fixed st t <> None.
Proof.
  intros fixed st e Hinv Hn. destruct (e_rd (E st e)) as [|n r] eqn:Hr; try discriminate.
  exists (TC n). eapply reader_enabled; eauto. rewrite Hr. left; auto.
Qed.

Lemma writer_progress : forall st e t b, inv1 st -> nopinned st -> e_w (E st e) = Some (t, b) ->
  exists t', step true st t' <> None.
Proof.
  intros st e t b Hinv Hnp Hw. pose proof (i_L2a _ Hinv _ _ _ Hw) as Hh.
  destruct t as [n|e']; simpl in Hh.
  - destruct (T st n) as [d p|p] eqn:HT; try destruct p; simpl in Hh; try discriminate; injection Hh; intros; subst.
    + (* DLockAcq *)
      destruct (is_nil (e_rd (E st e))) eqn:Hn.
      * exists (TC n). simpl. rewrite HT. simpl. rewrite Hn. discriminate.
      * eapply readers_progress; eauto.
    + exists (TC n). simpl. rewrite HT. simpl. destruct (e_open (E st e)); discriminate.
    + exists (TC n). simpl. rewrite HT. simpl. discriminate.
    + exists (TC n). simpl. rewrite HT. simpl. discriminate.
  - destruct Hh as [-> Hh]. pose proof (Hnp e) as Hp.
    destruct (e_idle (E st e)) eqn:HI; simpl in Hh, Hp; try discriminate.
    + destruct (is_nil (e_rd (E st e))) eqn:Hn.
      * exists (TI e). simpl. unfold step_idle. rewrite HI. rewrite Hn. discriminate.
      * eapply readers_progress; eauto.
    + exists (TI e). simpl. unfold step_idle. rewrite HI. destruct (e_open (E st e)); discriminate.
    + exists (TI e). simpl. unfold step_idle. rewrite HI. discriminate.
    + exists (TI e). simpl. unfold step_idle. rewrite HI. discriminate.
    + exists (TI e). simpl. unfold step_idle. rewrite HI. discriminate.
Qed.

(* threads whose next instruction is shardLock.Lock() *)
Definition acq_sl (st : state) (t : tid) : bool :=
  match t with
  | TC n => match T st n with CReq _ RAcqSL | CDel DAcqSL => true | _ => false end
  | TI e => match e_idle (E st e) with IAcqSL | IAcqSLp => true | _ => false end
  end.

Lemma thread_progress : forall st t, inv1 st -> nopinned st -> finished st t = false ->
  (sl st = None \/ acq_sl st t = false) -> exists t', step true st t' <> None.
Proof.
  intros st t Hinv Hnp Hf Hsl.
  destruct t as [n|e]; simpl in Hf, Hsl.
  - destruct (T st n) as [d p|p] eqn:HT.
    + destruct p; simpl in Hf; try discriminate;
        try (exists (TC n); simpl; rewrite HT; simpl; try destruct (d_store (D st d)); try destruct (e_open (E st e)); discriminate).
      * destruct Hsl as [Hsl|Hsl]; try discriminate.
        exists (TC n); simpl; rewrite HT; simpl. rewrite Hsl. discriminate.
      * destruct (e_w (E st e)) as [[w b]|] eqn:Hw.
        -- eapply writer_progress; eauto.
        -- exists (TC n); simpl; rewrite HT; simpl. rewrite Hw. discriminate.
    + destruct p; simpl in Hf; try discriminate;
        try (exists (TC n); simpl; rewrite HT; simpl; try destruct todo; try destruct (d_store (D st n0));
             try destruct (e_open (E st e)); discriminate).
      * destruct Hsl as [Hsl|Hsl]; try discriminate.
        exists (TC n); simpl; rewrite HT; simpl. rewrite Hsl. discriminate.
      * destruct (e_w (E st e)) as [[w b]|] eqn:Hw.
        -- eapply writer_progress; eauto.
        -- exists (TC n); simpl; rewrite HT; simpl. rewrite Hw. discriminate.
      * destruct (is_nil (e_rd (E st e))) eqn:Hn.
        -- exists (TC n). simpl. rewrite HT. simpl. rewrite Hn. discriminate.
        -- eapply readers_progress; eauto.
  - pose proof (Hnp e) as Hp.
    destruct (e_idle (E st e)) eqn:HI; simpl in Hf, Hp; try discriminate;
      try (exists (TI e); simpl; unfold step_idle; rewrite HI; try destruct (e_open (E st e));
           try destruct (d_store (D st (e_dir (E st e)))); try destruct (n =? e); discriminate).
    + destruct (e_w (E st e)) as [[w b]|] eqn:Hw.
      * eapply writer_progress; eauto.
      * exists (TI e); simpl; unfold step_idle; rewrite HI. rewrite Hw. discriminate.
    + destruct (is_nil (e_rd (E st e))) eqn:Hn.
      * exists (TI e). simpl. unfold step_idle. rewrite HI. rewrite Hn. discriminate.
      * eapply readers_progress; eauto.
    + destruct Hsl as [Hsl|Hsl]; try discriminate.
      exists (TI e); simpl; unfold step_idle; rewrite HI. rewrite Hsl. discriminate.
Qed.

Lemma holder_not_acq : forall st t, holds_sl st t -> finished st t = false /\ acq_sl st t = false.
Proof.
  intros st [n|e] H; simpl in *.
  - destruct (T st n) as [d p|p]; try destruct p; simpl in *; try discriminate; auto.
  - destruct (e_idle (E st e)); simpl in *; try discriminate; auto.
Qed.

Lemma progress : forall st, reachable true st -> unfinished st -> exists t, enabled true st t.
Proof.
  intros st Hr [t0 Hf]. pose proof (inv_reachable _ _ Hr) as [H1 H2].
  pose proof (nopinned_reachable _ Hr) as Hnp. unfold enabled.
  destruct (sl st) as [h|] eqn:Hsl.
  - pose proof (i_L1a _ H1 _ Hsl) as Hh. apply holder_not_acq in Hh. destruct Hh as [Hhf Hha].
    eapply thread_progress; eauto.
  - eapply thread_progress; eauto.
Qed.

(* ------------------------------------------------------------------ *)
(* a request that got an entry whose shard is closed returns the clean error *)

Definition stale_pc (e : nat) (p : rpc) : bool :=
  match p with
  | RRLock e' | RNil e' => e' =? e
  | RRUnlock e' false => e' =? e
  | RDone RClosed => true
  | _ => false
  end.

Definition stale_at (st : state) (n d e : nat) : Prop :=
  (exists p, T st n = CReq d p /\ stale_pc e p = true) /\ e_open (E st e) = false
  /\ e < length (ents st) /\ n < length (thr st).

Lemma stale_step : forall fixed st t st' n d e, inv1 st -> stale_at st n d e ->
  step fixed st t = Some st' -> stale_at st' n d e.
Proof.
  intros fixed st t st' n d e Hinv [[p [Hp Hs]] [Ho [He Hn]]] H.
  unfold stale_at.
  step_cases H; facts Hinv; autorewrite with c12; case_eqb; simpl; autorewrite with c12; simpl;
    try (rewrite HT in Hp; injection Hp; intros; subst; simpl in Hs; try discriminate);
    try (apply Nat.eqb_eq in Hs; subst);
    repeat split; eauto; try lia; try congruence;
    try (eexists; split; [reflexivity | simpl; try apply Nat.eqb_refl; auto]; fail).
Qed.

Lemma stale_run : forall fixed sched st n d e, inv st -> stale_at st n d e ->
  stale_at (run fixed sched st) n d e.
Proof.
  induction sched; simpl; intros st n d e Hi Hs; auto.
  destruct (step fixed st a) eqn:Hst; auto.
  apply IHsched.
  - eapply inv_step; eauto.
  - destruct Hi. eapply stale_step; eauto.
Qed.

Lemma stale_entry_clean_error : forall fixed st n d e sched,
  reachable fixed st -> T st n = CReq d (RRLock e) -> e_open (E st e) = false ->
  let st' := run fixed sched st in
  (exists p, T st' n = CReq d p /\ stale_pc e p = true) /\
  (forall e', T st' n <> CReq d (RBegin e') /\ T st' n <> CReq d (REnd e')) /\
  (forall r, T st' n = CReq d (RDone r) -> r = RClosed).
Proof.
  intros fixed st n d e sched Hr HT Ho st'.
  pose proof (inv_reachable _ _ Hr) as Hi.
  assert (Hs : stale_at st n d e).
  { repeat split.
    - exists (RRLock e). split; auto. simpl. apply Nat.eqb_refl.
    - auto.
    - destruct Hi as [H1 _]. apply (i_B2 _ H1 n). rewrite HT. reflexivity.
    - apply T_in_range. rewrite HT. discriminate. }
  pose proof (stale_run fixed sched _ _ _ _ Hi Hs) as [[p [Hp Hsp]] _]. fold st' in Hp.
  split; [eauto|]. split.
  - intros e'. rewrite Hp. split; intro Hq; injection Hq; intros; subst; discriminate.
  - intros r Hq. rewrite Hp in Hq. injection Hq; intros; subst. simpl in Hsp. destruct r; auto; discriminate.
Qed.

(* ------------------------------------------------------------------ *)
(* after everything finished new requests can load (or reuse) shards again *)

Definition closing_self (p : ipc) : bool :=
  match p with IUnlock | IAcqSL | IDel | IAcqSLp | IDelp => true | _ => false end.

Definition del_mid (c : cthread) (e d : nat) : bool :=
  match c with
  | CDel (DUnlock e' (d' :: _)) => (e' =? e) && (d' =? d)
  | CDel (DDelEntry (d' :: _)) => d' =? d
  | _ => false
  end.

Definition sl_del_mid (st : state) (e d : nat) : Prop :=
  match sl st with Some (TC n) => del_mid (T st n) e d = true | _ => False end.

Definition inv3 (st : state) : Prop :=
  forall d e, d_store (D st d) = Some e -> e_open (E st e) = false ->
              closing_self (e_idle (E st e)) = true \/ sl_del_mid st e d.

(* a deletion thread that works on an entry still has its directory at the head of the list *)
Definition dne (c : cthread) : bool :=
  match c with
  | CDel (DLockAnn _ []) | CDel (DLockAcq _ []) | CDel (DNilChk _ []) | CDel (DClose _ []) | CDel (DUnlock _ []) => false
  | _ => true
  end.
Definition inv0 (st : state) : Prop := forall n, dne (T st n) = true.

Lemma inv0_step : forall fixed st t st', inv1 st -> inv0 st -> step fixed st t = Some st' -> inv0 st'.
Proof.
  intros fixed st t st' Hinv H0 H.
  step_cases H; facts Hinv; intros nX; pose proof (H0 nX) as Ha;
    try (match goal with HT : T _ ?m = _ |- _ => pose proof (H0 m) as Hb; rewrite HT in Hb; simpl in Hb end);
    autorewrite with c12; case_eqb; simpl; auto.
Qed.

Lemma inv3_step : forall fixed st t st', inv1 st -> inv2 st -> inv0 st -> inv3 st -> step fixed st t = Some st' -> inv3 st'.
Proof.
  intros fixed st t st' Hinv H2 H0 H3 H.
  step_cases H; facts Hinv; intros dX eX; pose proof (H3 dX eX) as Ha; unfold sl_del_mid in *;
    autorewrite with c12; case_eqb; simpl; autorewrite with c12; simpl;
    intros Hx Hy; try discriminate; try (injection Hx; intros; subst); auto; try congruence; try lia;
    try (rewrite Hsl0 in * ); try (rewrite Heqo in * );
    try (destruct (Ha Hx Hy) as [Ha1|Ha1]; [left; try rewrite HI in *; simpl in *; auto; congruence
                                           | right; try rewrite HT in *; simpl in *; auto; try congruence;
                                             try (destruct (sl st) as [[nY|eY]|] eqn:Hsl; try contradiction;
                                                  autorewrite with c12; case_eqb; simpl; auto;
                                                  try (rewrite HT in Ha1; simpl in Ha1; congruence))]);
    try (destruct todo; simpl in *; discriminate);
    try (pose proof (i_A5 _ H2 _ _ Hx); subst; congruence).
  right. autorewrite with c12. rewrite Nat.eqb_refl.
  pose proof (H0 n0) as Hb; rewrite HT in Hb; destruct todo as [|d' r]; simpl in Hb; try discriminate.
  pose proof (i_D1 _ H2 n0 e d') as Hq; rewrite HT in Hq; specialize (Hq eq_refl).
  pose proof (i_A5 _ H2 _ _ Hq) as Hq2. simpl. rewrite Nat.eqb_refl. rewrite Hq2. rewrite Nat.eqb_refl. reflexivity.
Qed.


Lemma inv03_reachable : forall fixed st, reachable fixed st -> inv0 st /\ inv3 st.
Proof.
  intros fixed st (nd & specs & sched & Hok & Hex).
  assert (Hi : inv (init nd specs)) by (split; [apply inv1_init; auto | apply inv2_init]).
  assert (H0 : inv0 (init nd specs)).
  { intros n. destruct (init_thread_cases nd specs n) as [Hq|[[d [Hq _]]|Hq]]; rewrite Hq; reflexivity. }
  assert (H3 : inv3 (init nd specs)).
  { intros d e Hs. unfold D in Hs. simpl in Hs. rewrite nth_repeat_ddir in Hs. discriminate. }
  clear Hok. induction Hex; auto.
  apply IHHex.
  - eapply inv_step; eauto.
  - destruct Hi. eapply inv0_step; eauto.
  - destruct Hi. eapply inv3_step; eauto.
Qed.

(* nothing is held and every mapped entry is open once all clients returned and no routine is unloading *)
Lemma quiet_facts : forall st, inv st -> inv3 st -> clients_done st -> idle_quiet st ->
  sl st = None /\ (forall e, e_w (E st e) = None /\ e_rd (E st e) = []) /\
  (forall d e, d_store (D st d) = Some e -> e < length (ents st) /\ e_open (E st e) = true).
Proof.
  intros st [H1 H2] H3 Hc Hq.
  assert (Hsl : sl st = None).
  { destruct (sl st) as [[n|e]|] eqn:Hs; auto; pose proof (i_L1a _ H1 _ Hs) as Hh; simpl in Hh.
    - specialize (Hc n). destruct (T st n) as [d p|p]; try destruct p; simpl in *; discriminate.
    - destruct (Hq e) as [Hi|Hi]; rewrite Hi in Hh; discriminate. }
  split; auto. split.
  - intros e. split.
    + destruct (e_w (E st e)) as [[[n|e'] b]|] eqn:Hw; auto; pose proof (i_L2a _ H1 _ _ _ Hw) as Hh; simpl in Hh.
      * specialize (Hc n). destruct (T st n) as [d p|p]; try destruct p; simpl in *; discriminate.
      * destruct Hh as [-> Hh]. destruct (Hq e) as [Hi|Hi]; rewrite Hi in Hh; discriminate.
    + destruct (e_rd (E st e)) as [|n r] eqn:Hr; auto.
      assert (Hin : In n (e_rd (E st e))) by (rewrite Hr; left; auto).
      pose proof (i_L3a _ H1 _ _ Hin) as Hh. specialize (Hc n).
      destruct (T st n) as [d p|p]; try destruct p; simpl in *; discriminate.
  - intros d e Hs. split; [eapply (i_B1 _ H1); eauto|].
    destruct (e_open (E st e)) eqn:Ho; auto.
    destruct (H3 d e Hs Ho) as [Hcs|Hm].
    + destruct (Hq e) as [Hi|Hi]; rewrite Hi in Hcs; discriminate.
    + unfold sl_del_mid in Hm. rewrite Hsl in Hm. contradiction.
Qed.

Ltac one_step :=
  eapply exec_cons;
  [ simpl; autorewrite with c12; rewrite ?Nat.eqb_refl; simpl; autorewrite with c12; rewrite ?Nat.eqb_refl; simpl;
    try reflexivity | ].

Lemma solo_request : forall st n d,
  n < length (thr st) -> T st n = CReq d RAcqSL -> d < length (dirs st) -> sl st = None ->
  (forall e, e_w (E st e) = None /\ e_rd (E st e) = []) ->
  (forall e, d_store (D st d) = Some e -> e < length (ents st) /\ e_open (E st e) = true) ->
  exists st', exec true st (repeat (TC n) 8) st' /\ T st' n = CReq d (RDone ROk) /\ locks_free st'.
Proof.
  intros st n d Hn HT Hd Hsl Hfree Hopen. simpl repeat.
  destruct (d_store (D st d)) as [e|] eqn:Hs.
  - destruct (Hopen e eq_refl) as [He Ho]. destruct (Hfree e) as [Hw Hr].
    eexists. split.
    + eapply exec_cons. { simpl. rewrite HT. simpl. rewrite Hsl. simpl. reflexivity. }
      one_step. { rewrite Hs. reflexivity. }
      one_step. one_step. { rewrite Hw. simpl. reflexivity. }
      one_step. { rewrite Ho. reflexivity. }
      one_step. one_step. one_step. apply exec_nil.
    + split.
      * autorewrite with c12. rewrite Nat.eqb_refl. reflexivity.
      * split; [reflexivity|]. intros e'. autorewrite with c12. case_eqb; simpl; autorewrite with c12; simpl;
          try congruence; try (rewrite Hw, Hr; auto); try apply Hfree.
  - eexists. split.
    + eapply exec_cons. { simpl. rewrite HT. simpl. rewrite Hsl. simpl. reflexivity. }
      one_step. { rewrite Hs. reflexivity. }
      one_step. one_step. one_step. one_step. one_step. one_step. apply exec_nil.
    + split.
      * autorewrite with c12. rewrite Nat.eqb_refl. reflexivity.
      * split; [reflexivity|]. intros e'. autorewrite with c12. case_eqb; simpl; autorewrite with c12; simpl;
          try congruence; auto; try apply Hfree.
Qed.

Lemma reload_after : forall st d, reachable true st -> clients_done st -> idle_quiet st -> d < length (dirs st) ->
  let n := length (thr st) in
  exists st', exec true (add_req st d) (repeat (TC n) 8) st' /\ T st' n = CReq d (RDone ROk) /\ locks_free st'.
Proof.
  intros st d Hr Hc Hq Hd n.
  pose proof (inv_reachable _ _ Hr) as Hi. destruct (inv03_reachable _ _ Hr) as [_ H3].
  destruct (quiet_facts _ Hi H3 Hc Hq) as [Hsl [Hfree Hopen]].
  apply solo_request.
  - unfold add_req. simpl. rewrite app_length. simpl. lia.
  - unfold T, add_req. simpl. rewrite nth_app_new. unfold n. rewrite Nat.eqb_refl. reflexivity.
  - exact Hd.
  - exact Hsl.
  - exact Hfree.
  - intros e Hs. apply (Hopen d e Hs).
Qed.

(* ------------------------------------------------------------------ *)
(* files are removed only when no handle is open and no callback runs on them *)

Lemma remove_safe : forall fixed st n d r, reachable fixed st -> T st n = CDel (DRemove (d :: r)) ->
  d_handles (D st d) = 0 /\ forall m e, ~ uses (T st m) d e.
Proof.
  intros fixed st n d r Hr HT. pose proof (inv_reachable _ _ Hr) as [H1 H2].
  pose proof (i_R2 _ H2 _ _ _ HT) as Hs. split.
  - rewrite (i_A4 _ H2 d). rewrite Hs. reflexivity.
  - intros m e Hu. destruct (inv_safe st (conj H1 H2)) as [Hsafe _].
    destruct (Hsafe m d e Hu) as [Ho [_ [Hd _]]].
    pose proof (i_A3 _ H2 _ Ho) as Hq. rewrite Hd in Hq. congruence.
Qed.

Lemma maximal_finished : forall st, reachable true st -> (forall t, step true st t = None) ->
  forall t, finished st t = true.
Proof.
  intros st Hr Hn t. destruct (finished st t) eqn:Hf; auto.
  destruct (progress st Hr (ex_intro _ t Hf)) as [t' Ht']. exfalso. apply Ht'. apply Hn.
Qed.
