(* Proofs_C06.v -- lemmas behind Props_C06.v: merge of ranked sub-results, set
   algebra of composite nodes, correctness of the tie-insensitive order check
   for every correct sort, missing values last, paging, field selection. *)
From Coq Require Import List NArith ZArith QArith Bool Lia Arith Sorted Permutation RelationClasses.
From Coq Require Import ZifyBool ZifyN ZifyNat.
From Semadb Require Import Bytes U64 Pack Value Obs Dyadic Model_C19 Model_C01 Model_C02 Model_C04 Model_C06 Model_C06M Run_C06.
Import ListNotations.
Open Scope N_scope.

(* ------------------------------------------------------------------ *)
(* byte-string equality                                                *)

Lemma bytes_eqb_refl a : bytes_eqb a a = true.
Proof. now apply bytes_eqb_eq. Qed.

Lemma bytes_eqb_false a b : bytes_eqb a b = false <-> a <> b.
Proof.
  destruct (bytes_eqb a b) eqn:E.
  - apply bytes_eqb_eq in E. split; congruence.
  - split; [|reflexivity]. intros _ H. apply bytes_eqb_eq in H. congruence.
Qed.

Ltac beq :=
  repeat match goal with
         | H : bytes_eqb _ _ = true |- _ => apply bytes_eqb_eq in H
         | H : bytes_eqb _ _ = false |- _ => apply bytes_eqb_false in H
         end.

Lemma mem_bytes_In x l : mem_bytes x l = true <-> In x l.
Proof.
  unfold mem_bytes. rewrite existsb_exists. split.
  - intros [y [Hy E]]. apply bytes_eqb_eq in E. now subst.
  - intros H. exists x. split; [assumption|apply bytes_eqb_refl].
Qed.

Lemma mem_bytes_false x l : mem_bytes x l = false <-> ~ In x l.
Proof.
  rewrite <- mem_bytes_In. destruct (mem_bytes x l); split; congruence.
Qed.

Lemma nodup_ids_NoDup l : nodup_ids l = true <-> NoDup l.
Proof.
  induction l as [|x l IH]; cbn.
  - split; [constructor|reflexivity].
  - rewrite andb_true_iff, negb_true_iff, mem_bytes_false, IH. split.
    + intros [H1 H2]. now constructor.
    + intros H. inversion H. auto.
Qed.

(* ================================================================== *)
(* A. merge of the ranked sub-results                                  *)

Definition absorb (x e : rk) : rk :=
  mkRk (k_id x) (k_hybrid x + k_hybrid e)
       (match k_dist x with Some d => Some d | None => k_dist e end)
       (match k_score x with Some s => Some s | None => k_score e end).

Definition absorb_opt (o : option rk) (e : rk) : option rk :=
  Some (match o with Some x => absorb x e | None => e end).

Definition entries (id : uuid) (l : list rk) : list rk := filter (fun e => bytes_eqb id (k_id e)) l.

Lemma rk_find_some id l x : rk_find id l = Some x -> In x l /\ k_id x = id.
Proof.
  induction l as [|y l IH]; cbn; [discriminate|].
  destruct (bytes_eqb id (k_id y)) eqn:E.
  - intros H. inversion H. subst. beq. auto.
  - intros H. destruct (IH H). auto.
Qed.

Lemma rk_find_none id l : rk_find id l = None <-> ~ In id (rk_ids l).
Proof.
  induction l as [|y l IH]; cbn; [tauto|].
  destruct (bytes_eqb id (k_id y)) eqn:E; beq.
  - split; [discriminate|]. intros H. exfalso. apply H. left. congruence.
  - rewrite IH. split.
    + intros H [H1|H1]; [congruence|auto].
    + intros H H1. apply H. now right.
Qed.

Lemma rk_find_nodup l x : NoDup (rk_ids l) -> In x l -> rk_find (k_id x) l = Some x.
Proof.
  induction l as [|y l IH]; cbn; [tauto|].
  intros ND [->|H].
  - now rewrite bytes_eqb_refl.
  - inversion ND as [|? ? Hn ND']. subst.
    destruct (bytes_eqb (k_id x) (k_id y)) eqn:E; beq.
    + exfalso. apply Hn. rewrite <- E. unfold rk_ids. now apply in_map.
    + auto.
Qed.

Lemma rk_find_app id a b :
  rk_find id (a ++ b) = match rk_find id a with Some x => Some x | None => rk_find id b end.
Proof.
  induction a as [|y a IH]; cbn; [reflexivity|].
  destruct (bytes_eqb id (k_id y)); auto.
Qed.

Lemma rk_update_ids e l : rk_ids (rk_update e l) = rk_ids l.
Proof.
  unfold rk_ids. induction l as [|y l IH]; cbn; [reflexivity|].
  destruct (bytes_eqb (k_id e) (k_id y)); cbn; [reflexivity|]. now rewrite IH.
Qed.

Lemma rk_find_update id e l :
  rk_find id (rk_update e l) =
  if bytes_eqb id (k_id e) then option_map (fun x => absorb x e) (rk_find id l) else rk_find id l.
Proof.
  induction l as [|y l IH]; cbn.
  - now destruct (bytes_eqb id (k_id e)).
  - destruct (bytes_eqb (k_id e) (k_id y)) eqn:E1; cbn.
    + destruct (bytes_eqb id (k_id e)) eqn:E2; beq.
      * rewrite E2, E1, bytes_eqb_refl. reflexivity.
      * destruct (bytes_eqb id (k_id y)) eqn:E3; beq; [congruence|reflexivity].
    + rewrite IH. destruct (bytes_eqb id (k_id e)) eqn:E2; beq.
      * destruct (bytes_eqb id (k_id y)) eqn:E3; beq; [congruence|reflexivity].
      * reflexivity.
Qed.

Lemma rk_find_add id acc e :
  rk_find id (rk_add acc e) =
  if bytes_eqb id (k_id e) then absorb_opt (rk_find id acc) e else rk_find id acc.
Proof.
  unfold rk_add. destruct (rk_find (k_id e) acc) eqn:F.
  - rewrite rk_find_update. destruct (bytes_eqb id (k_id e)) eqn:E; beq; [|reflexivity].
    subst. rewrite F. reflexivity.
  - rewrite rk_find_app. cbn. destruct (bytes_eqb id (k_id e)) eqn:E; beq.
    + subst. rewrite F. reflexivity.
    + now destruct (rk_find id acc).
Qed.

Lemma rk_add_In id acc e : In id (rk_ids (rk_add acc e)) <-> In id (rk_ids acc) \/ id = k_id e.
Proof.
  unfold rk_add. destruct (rk_find (k_id e) acc) eqn:F.
  - rewrite rk_update_ids. split; [auto|]. intros [H| ->]; [assumption|].
    apply rk_find_some in F. destruct F as [F1 F2]. rewrite <- F2. unfold rk_ids. now apply in_map.
  - unfold rk_ids. rewrite map_app, in_app_iff. cbn. intuition.
Qed.

Lemma rk_add_nodup acc e : NoDup (rk_ids acc) -> NoDup (rk_ids (rk_add acc e)).
Proof.
  intros ND. unfold rk_add. destruct (rk_find (k_id e) acc) eqn:F.
  - now rewrite rk_update_ids.
  - apply rk_find_none in F. unfold rk_ids in *. rewrite map_app. cbn.
    apply Permutation_NoDup with (l := k_id e :: map k_id acc).
    + apply Permutation_cons_append.
    + now constructor.
Qed.

Lemma fold_add_nodup L acc : NoDup (rk_ids acc) -> NoDup (rk_ids (fold_left rk_add L acc)).
Proof.
  revert acc. induction L as [|e L IH]; intros acc ND; cbn; [assumption|].
  apply IH. now apply rk_add_nodup.
Qed.

Lemma fold_add_In id L acc :
  In id (rk_ids (fold_left rk_add L acc)) <-> In id (rk_ids acc) \/ In id (rk_ids L).
Proof.
  revert acc. induction L as [|e L IH]; intros acc; cbn; [tauto|].
  rewrite IH, rk_add_In. intuition.
Qed.

Lemma rk_find_fold id L acc :
  rk_find id (fold_left rk_add L acc) = fold_left absorb_opt (entries id L) (rk_find id acc).
Proof.
  revert acc. induction L as [|e L IH]; intros acc; cbn; [reflexivity|].
  rewrite IH, rk_find_add. destruct (bytes_eqb id (k_id e)); reflexivity.
Qed.

Lemma merge_child_flat is_or final c acc :
  fold_left (fun acc e => if is_or || mem_bytes (k_id e) final then rk_add acc e else acc) c acc =
  fold_left rk_add (filter (fun e => kept_in is_or final (k_id e)) c) acc.
Proof.
  revert acc. induction c as [|e c IH]; intros acc; cbn; [reflexivity|].
  unfold kept_in at 1. destruct (is_or || mem_bytes (k_id e) final); cbn; apply IH.
Qed.

Lemma merge_ranked_flat is_or final children :
  merge_ranked is_or final children =
  fold_left rk_add (filter (fun e => kept_in is_or final (k_id e)) (concat children)) [].
Proof.
  unfold merge_ranked. generalize (@nil rk) as acc.
  induction children as [|c cs IH]; intros acc; cbn; [reflexivity|].
  rewrite IH, merge_child_flat, filter_app, fold_left_app. reflexivity.
Qed.

Lemma entries_concat id ls : entries id (concat ls) = flat_map (entries id) ls.
Proof.
  induction ls as [|l ls IH]; cbn; [reflexivity|].
  unfold entries in *. now rewrite filter_app, IH.
Qed.

Lemma entries_kept is_or final id l :
  entries id (filter (fun e => kept_in is_or final (k_id e)) l) =
  if kept_in is_or final id then entries id l else [].
Proof.
  unfold entries. induction l as [|e l IH]; cbn.
  - now destruct (kept_in is_or final id).
  - destruct (kept_in is_or final (k_id e)) eqn:A; cbn.
    + destruct (bytes_eqb id (k_id e)) eqn:E; beq.
      * subst. rewrite A in *. now rewrite IH.
      * exact IH.
    + rewrite IH. destruct (bytes_eqb id (k_id e)) eqn:E; beq; [|reflexivity].
      subst. now rewrite A.
Qed.

Lemma entries_nodup id c :
  NoDup (rk_ids c) -> entries id c = match rk_find id c with Some e => [e] | None => [] end.
Proof.
  induction c as [|x c IH]; cbn; [reflexivity|].
  intros ND. inversion ND as [|? ? Hn ND']. subst.
  destruct (bytes_eqb id (k_id x)) eqn:E; beq.
  - subst. f_equal. specialize (IH ND'). unfold entries in IH. rewrite IH.
    apply rk_find_none in Hn. now rewrite Hn.
  - apply IH, ND'.
Qed.

Lemma entries_contribs id children :
  Forall (fun c => NoDup (rk_ids c)) children ->
  flat_map (entries id) children = contribs id children.
Proof.
  unfold contribs. induction 1 as [|c cs Hc _ IH]; cbn; [reflexivity|].
  now rewrite IH, entries_nodup.
Qed.

Lemma fold_absorb_some rest x : fold_left absorb_opt rest (Some x) = Some (fold_left absorb rest x).
Proof.
  revert x. induction rest as [|e rest IH]; intros x; cbn; [reflexivity|]. apply IH.
Qed.

Lemma fold_absorb_id rest x : k_id (fold_left absorb rest x) = k_id x.
Proof. revert x. induction rest as [|e rest IH]; intros x; cbn; [reflexivity|]. now rewrite IH. Qed.

Lemma fold_absorb_hybrid rest x :
  k_hybrid (fold_left absorb rest x) = fold_left Qplus (map k_hybrid rest) (k_hybrid x).
Proof. revert x. induction rest as [|e rest IH]; intros x; cbn; [reflexivity|]. now rewrite IH. Qed.

Lemma fold_absorb_dist rest x :
  k_dist (fold_left absorb rest x) = first_some (k_dist x :: map k_dist rest).
Proof.
  revert x. induction rest as [|e rest IH]; intros x; cbn.
  - now destruct (k_dist x).
  - rewrite IH. cbn. now destruct (k_dist x).
Qed.

Lemma fold_absorb_score rest x :
  k_score (fold_left absorb rest x) = first_some (k_score x :: map k_score rest).
Proof.
  revert x. induction rest as [|e rest IH]; intros x; cbn.
  - now destruct (k_score x).
  - rewrite IH. cbn. now destruct (k_score x).
Qed.

Lemma in_filter_concat_ids is_or final id children :
  In id (rk_ids (filter (fun e => kept_in is_or final (k_id e)) (concat children))) <->
  (exists c, In c children /\ In id (rk_ids c)) /\ kept_in is_or final id = true.
Proof.
  unfold rk_ids. rewrite in_map_iff. split.
  - intros [e [<- H]]. apply filter_In in H. destruct H as [H A].
    apply in_concat in H. destruct H as [c [Hc He]]. split; [|assumption].
    exists c. split; [assumption|]. now apply in_map.
  - intros [[c [Hc H]] A]. apply in_map_iff in H. destruct H as [e [<- He]].
    exists e. split; [reflexivity|]. apply filter_In. split; [|assumption].
    apply in_concat. eauto.
Qed.

Lemma sum_left_Qeq l : (sum_left l == fold_right Qplus 0 l)%Q.
Proof.
  destruct l as [|x r]; cbn; [reflexivity|].
  revert x. induction r as [|y r IH]; intros x; cbn.
  - ring.
  - rewrite IH. ring.
Qed.

Theorem merge_spec : forall (is_or : bool) (final : list uuid) (children : list (list rk)),
  Forall (fun c => NoDup (rk_ids c)) children ->
  let res := merge_ranked is_or final children in
  NoDup (rk_ids res) /\
  (forall id, In id (rk_ids res) <->
              (exists c, In c children /\ In id (rk_ids c)) /\ (is_or = true \/ In id final)) /\
  (forall r, In r res ->
     let cs := contribs (k_id r) children in
     cs <> [] /\
     k_hybrid r = sum_left (map k_hybrid cs) /\
     (k_hybrid r == fold_right Qplus 0 (map k_hybrid cs))%Q /\
     k_dist r = first_some (map k_dist cs) /\
     k_score r = first_some (map k_score cs)).
Proof.
  intros is_or final children HND res. subst res. rewrite merge_ranked_flat.
  set (L := filter (fun e => kept_in is_or final (k_id e)) (concat children)).
  assert (ND : NoDup (rk_ids (fold_left rk_add L []))) by (apply fold_add_nodup; constructor).
  assert (Hin : forall id, In id (rk_ids (fold_left rk_add L [])) <->
              (exists c, In c children /\ In id (rk_ids c)) /\ kept_in is_or final id = true).
  { intros id. rewrite fold_add_In. cbn. unfold L. rewrite in_filter_concat_ids. tauto. }
  split; [exact ND|]. split.
  - intros id. rewrite Hin. unfold kept_in. rewrite orb_true_iff, mem_bytes_In. tauto.
  - intros r Hr cs.
    assert (A : kept_in is_or final (k_id r) = true).
    { apply (Hin (k_id r)). unfold rk_ids. now apply in_map. }
    pose proof (rk_find_nodup _ _ ND Hr) as F.
    rewrite rk_find_fold in F. cbn in F. unfold L in F.
    rewrite entries_kept, A, entries_concat, (entries_contribs _ _ HND) in F.
    fold cs in F. destruct cs as [|e0 rest] eqn:Ecs; cbn in F; [discriminate|].
    unfold absorb_opt at 2 in F. rewrite fold_absorb_some in F. inversion F as [F'].
    split; [discriminate|].
    assert (Hh : k_hybrid (fold_left absorb rest e0) = sum_left (map k_hybrid (e0 :: rest)))
      by (cbn; apply fold_absorb_hybrid).
    split; [exact Hh|]. split; [rewrite Hh; apply sum_left_Qeq|].
    split; [apply fold_absorb_dist|apply fold_absorb_score].
Qed.

(* ================================================================== *)
(* B. paging                                                           *)

Lemma firstn_add {A} (a b : nat) (l : list A) :
  firstn (a + b) l = firstn a l ++ firstn b (skipn a l).
Proof.
  revert l. induction a as [|a IH]; intros [|x l]; cbn; try reflexivity.
  - now rewrite firstn_nil.
  - now rewrite IH.
Qed.

Lemma skipn_add {A} (a b : nat) (l : list A) : skipn (a + b) l = skipn b (skipn a l).
Proof.
  revert l. induction a as [|a IH]; intros [|x l]; cbn; try reflexivity.
  - now rewrite skipn_nil.
  - apply IH.
Qed.

Lemma nth_error_firstn_lt {A} (n i : nat) (l : list A) :
  (i < n)%nat -> nth_error (firstn n l) i = nth_error l i.
Proof.
  revert i l. induction n as [|n IH]; intros i l Hi; [lia|].
  destruct l as [|x l]; cbn; [reflexivity|].
  destruct i as [|i]; cbn; [reflexivity|]. apply IH. lia.
Qed.

Lemma nth_error_skipn_add {A} (n i : nat) (l : list A) :
  nth_error (skipn n l) i = nth_error l (n + i).
Proof.
  revert l. induction n as [|n IH]; intros l; cbn; [reflexivity|].
  destruct l as [|x l]; cbn; [now destruct i|]. apply IH.
Qed.

Lemma page_zero {A} (o : N) (xs : list A) : page o 0 xs = skipn (N.to_nat o) xs.
Proof.
  unfold page. cbn. apply firstn_all2. rewrite skipn_length. lia.
Qed.

Lemma page_beyond {A} (o l : N) (xs : list A) : (length xs <= N.to_nat o)%nat -> page o l xs = [].
Proof.
  intros H. unfold page. rewrite skipn_all2 by assumption. apply firstn_nil.
Qed.

Lemma page_add {A} (o l l' : N) (xs : list A) :
  0 < l -> 0 < l' -> page o l xs ++ page (o + l) l' xs = page o (l + l') xs.
Proof.
  intros Hl Hl'. unfold page.
  destruct (N.eqb_spec l 0); [lia|]. destruct (N.eqb_spec l' 0); [lia|].
  destruct (N.eqb_spec (l + l') 0); [lia|].
  rewrite !N2Nat.inj_add, firstn_add, skipn_add. reflexivity.
Qed.

Lemma page_add_rest {A} (o l : N) (xs : list A) :
  0 < l -> page o l xs ++ page (o + l) 0 xs = page o 0 xs.
Proof.
  intros Hl. rewrite !page_zero. unfold page. destruct (N.eqb_spec l 0); [lia|].
  rewrite N2Nat.inj_add, skipn_add. apply firstn_skipn.
Qed.

Lemma pages_concat {A} (l : N) (xs : list A) (n : nat) :
  0 < l ->
  concat (map (fun i => page (N.of_nat i * l) l xs) (seq 0 n)) = firstn (n * N.to_nat l) xs.
Proof.
  intros Hl. induction n as [|n IH]; [reflexivity|].
  rewrite seq_S, map_app, concat_app, IH. cbn [map concat Nat.add]. rewrite app_nil_r.
  unfold page. destruct (N.eqb_spec l 0); [lia|].
  rewrite N2Nat.inj_mul, Nat2N.id.
  replace (S n * N.to_nat l)%nat with (n * N.to_nat l + N.to_nat l)%nat by lia.
  now rewrite firstn_add.
Qed.

Lemma pages_cover {A} (l : N) (xs : list A) (n : nat) :
  0 < l -> (length xs <= n * N.to_nat l)%nat ->
  concat (map (fun i => page (N.of_nat i * l) l xs) (seq 0 n)) = xs.
Proof.
  intros Hl Hn. rewrite pages_concat by assumption. now apply firstn_all2.
Qed.

(* the Go slice expression finalResults[min(off,len) : min(off+limit,len)] *)
Lemma page_slice {A} (o l : N) (xs : list A) :
  let len := length xs in
  let lim := if l =? 0 then len else N.to_nat l in
  length (page o l xs) = (Nat.min (N.to_nat o + lim) len - Nat.min (N.to_nat o) len)%nat /\
  forall i, (i < length (page o l xs))%nat -> nth_error (page o l xs) i = nth_error xs (N.to_nat o + i).
Proof.
  intros len lim. unfold page. fold len. fold lim. split.
  - rewrite firstn_length, skipn_length. fold len. lia.
  - intros i Hi. rewrite firstn_length in Hi.
    rewrite nth_error_firstn_lt by lia. apply nth_error_skipn_add.
Qed.

Theorem pages_partition : forall (A : Type) (xs : list A) (o l : N),
  0 < l ->
  (forall l', 0 < l' -> page o l xs ++ page (o + l) l' xs = page o (l + l') xs) /\
  page o l xs ++ page (o + l) 0 xs = page o 0 xs /\
  (forall n, concat (map (fun i => page (N.of_nat i * l) l xs) (seq 0 n)) = firstn (n * N.to_nat l) xs) /\
  (forall n, (length xs <= n * N.to_nat l)%nat ->
             concat (map (fun i => page (N.of_nat i * l) l xs) (seq 0 n)) = xs).
Proof.
  intros A xs o l Hl. split; [|split; [|split]].
  - intros l' Hl'. now apply page_add.
  - now apply page_add_rest.
  - intros n. now apply pages_concat.
  - intros n Hn. now apply pages_cover.
Qed.

(* ================================================================== *)
(* C. sorting with a comparator; the tie-insensitive order check       *)

Section Order.
  Context {A : Type}.
  Variable cmp : A -> A -> comparison.
  Hypothesis P : cmp_preorder cmp.

  Lemma cle_refl x : cle cmp x x.
  Proof. unfold cle. rewrite (cmp_refl _ P). discriminate. Qed.

  Lemma cle_trans x y z : cle cmp x y -> cle cmp y z -> cle cmp x z.
  Proof. apply (cmp_trans _ P). Qed.

  Lemma cmp_gt_cle x y : cmp x y = Gt -> cle cmp y x.
  Proof. intros H. unfold cle. rewrite (cmp_antisym _ P x y), H. discriminate. Qed.

  Lemma cle_total x y : cle cmp x y \/ cle cmp y x.
  Proof.
    destruct (cmp x y) eqn:E.
    - left. unfold cle. congruence.
    - left. unfold cle. congruence.
    - right. now apply cmp_gt_cle.
  Qed.

  Lemma cmp_eq_sym x y : cmp x y = Eq -> cmp y x = Eq.
  Proof. intros H. now rewrite (cmp_antisym _ P x y), H. Qed.

  Lemma cmp_lt_flip x y : cmp x y = Lt -> cmp y x = Gt.
  Proof. intros H. now rewrite (cmp_antisym _ P x y), H. Qed.

  (* the full composition table of a total preorder *)
  Lemma cmp_compose x y z :
    cmp x y <> Gt -> cmp y z <> Gt ->
    cmp x z = match cmp x y, cmp y z with Eq, Eq => Eq | _, _ => Lt end.
  Proof.
    intros H1 H2. pose proof (cmp_trans _ P x y z H1 H2) as H3.
    destruct (cmp x y) eqn:E1; [|clear H1|congruence];
    (destruct (cmp y z) eqn:E2; [|clear H2|congruence]).
    - (* Eq Eq *)
      destruct (cmp x z) eqn:E3; [reflexivity| |congruence].
      exfalso. apply cmp_lt_flip in E3.
      apply (cmp_trans _ P z y x); [rewrite (cmp_eq_sym _ _ E2)|rewrite (cmp_eq_sym _ _ E1)|exact E3]; discriminate.
    - (* Eq Lt *)
      destruct (cmp x z) eqn:E3; [|reflexivity|congruence].
      exfalso. apply cmp_lt_flip in E2.
      apply (cmp_trans _ P z x y); [rewrite (cmp_eq_sym _ _ E3)|rewrite E1|exact E2]; discriminate.
    - (* Lt Eq *)
      destruct (cmp x z) eqn:E3; [|reflexivity|congruence].
      exfalso. apply cmp_lt_flip in E1.
      apply (cmp_trans _ P y z x); [rewrite E2|rewrite (cmp_eq_sym _ _ E3)|exact E1]; discriminate.
    - (* Lt Lt *)
      destruct (cmp x z) eqn:E3; [|reflexivity|congruence].
      exfalso. apply cmp_lt_flip in E1.
      apply (cmp_trans _ P y z x); [rewrite E2|rewrite (cmp_eq_sym _ _ E3)|exact E1]; discriminate.
  Qed.

  (* ---- insertion sort: a permutation, sorted ---- *)
  Lemma insert_by_perm x l : Permutation (insert_by cmp x l) (x :: l).
  Proof.
    induction l as [|y l IH]; cbn; [reflexivity|].
    destruct (cmp x y); try reflexivity.
    rewrite IH. apply perm_swap.
  Qed.

  Lemma sort_by_perm l : Permutation l (sort_by cmp l).
  Proof.
    induction l as [|x l IH]; cbn; [reflexivity|].
    fold (sort_by cmp l). rewrite insert_by_perm. now constructor.
  Qed.

  Lemma insert_by_hd a x l : cle cmp a x -> HdRel (cle cmp) a l -> HdRel (cle cmp) a (insert_by cmp x l).
  Proof.
    intros Hax H. destruct l as [|y l]; cbn; [now constructor|].
    inversion H. subst. destruct (cmp x y); now constructor.
  Qed.

  Lemma insert_by_sorted x l : Sorted (cle cmp) l -> Sorted (cle cmp) (insert_by cmp x l).
  Proof.
    induction 1 as [|y l Hs IH Hh]; cbn; [repeat constructor|].
    destruct (cmp x y) eqn:E.
    - constructor; [now constructor|]. constructor. unfold cle. congruence.
    - constructor; [now constructor|]. constructor. unfold cle. congruence.
    - constructor; [exact IH|]. apply insert_by_hd; [now apply cmp_gt_cle|exact Hh].
  Qed.

  Lemma sort_by_sorted l : Sorted (cle cmp) (sort_by cmp l).
  Proof.
    induction l as [|x l IH]; cbn; [constructor|]. now apply insert_by_sorted.
  Qed.

  (* ---- a sorted list splits at every downward-closed predicate ---- *)
  Definition down_closed (f : A -> bool) : Prop := forall w z, cle cmp w z -> f z = true -> f w = true.

  Lemma sorted_strong l : Sorted (cle cmp) l -> StronglySorted (cle cmp) l.
  Proof. apply Sorted_StronglySorted. intros x y z. apply cle_trans. Qed.

  Lemma sorted_split f l :
    down_closed f -> StronglySorted (cle cmp) l ->
    l = filter f l ++ filter (fun z => negb (f z)) l.
  Proof.
    intros Hf. induction 1 as [|x l Hs IH Hall]; cbn; [reflexivity|].
    destruct (f x) eqn:Fx; cbn.
    - now rewrite <- IH.
    - assert (Hn : forall z, In z l -> f z = false).
      { intros z Hz. destruct (f z) eqn:Fz; [|reflexivity].
        rewrite Forall_forall in Hall. rewrite (Hf x z (Hall z Hz) Fz) in Fx. discriminate. }
      assert (E1 : filter f l = []).
      { clear -Hn. induction l as [|y l IH]; cbn; [reflexivity|].
        rewrite (Hn y) by now left. apply IH. intros z Hz. apply Hn. now right. }
      assert (E2 : filter (fun z => negb (f z)) l = l).
      { clear -Hn. induction l as [|y l IH]; cbn; [reflexivity|].
        rewrite (Hn y) by now left. cbn. f_equal. apply IH. intros z Hz. apply Hn. now right. }
      now rewrite E1, E2.
  Qed.

  Lemma sorted_nth_pred f l p d :
    down_closed f -> StronglySorted (cle cmp) l -> (p < length l)%nat ->
    (f (nth p l d) = true <-> (p < length (filter f l))%nat).
  Proof.
    intros Hf Hs Hp. pose proof (sorted_split f l Hf Hs) as E.
    set (l1 := filter f l) in *. set (l2 := filter (fun z => negb (f z)) l) in *.
    assert (Hlen : length l = (length l1 + length l2)%nat) by (rewrite E at 1; apply app_length).
    rewrite E at 1. destruct (Nat.lt_ge_cases p (length l1)) as [H|H].
    - rewrite app_nth1 by assumption. split; [auto|]. intros _.
      assert (Hin : In (nth p l1 d) l1) by (apply nth_In; assumption).
      unfold l1 in Hin at 2. apply filter_In in Hin. tauto.
    - rewrite app_nth2 by assumption. split; [|lia]. intros Ht. exfalso.
      assert (Hin : In (nth (p - length l1) l2 d) l2) by (apply nth_In; lia).
      unfold l2 in Hin at 2. apply filter_In in Hin. destruct Hin as [_ Hin].
      rewrite Ht in Hin. discriminate.
  Qed.

  Lemma perm_filter_length (f : A -> bool) a b :
    Permutation a b -> length (filter f a) = length (filter f b).
  Proof.
    induction 1 as [|x a b _ IH|x y a|a b c _ IH1 _ IH2]; cbn.
    - reflexivity.
    - destruct (f x); cbn; now rewrite IH.
    - destruct (f x), (f y); reflexivity.
    - now rewrite IH1.
  Qed.

  (* two correct results of sorting the same list agree position-wise up to ties *)
  Lemma sorted_perm_pointwise a b p d :
    Sorted (cle cmp) a -> Sorted (cle cmp) b -> Permutation a b -> (p < length a)%nat ->
    cmp (nth p a d) (nth p b d) = Eq.
  Proof.
    intros Sa Sb Hp Hlt. apply sorted_strong in Sa. apply sorted_strong in Sb.
    assert (Hlb : (p < length b)%nat) by (rewrite <- (Permutation_length Hp); exact Hlt).
    set (x := nth p a d). set (y := nth p b d).
    pose (f := fun w : A => match cmp w y with Gt => false | _ => true end).
    pose (g := fun w : A => match cmp w x with Gt => false | _ => true end).
    assert (Hf : down_closed f).
    { intros w z Hwz Hz. unfold f in *. destruct (cmp w y) eqn:E; try reflexivity.
      exfalso. apply (cle_trans w z y Hwz); [|exact E]. unfold cle. destruct (cmp z y); congruence. }
    assert (Hg : down_closed g).
    { intros w z Hwz Hz. unfold g in *. destruct (cmp w x) eqn:E; try reflexivity.
      exfalso. apply (cle_trans w z x Hwz); [|exact E]. unfold cle. destruct (cmp z x); congruence. }
    assert (H1 : f x = true).
    { apply (sorted_nth_pred f a p d Hf Sa Hlt). rewrite (perm_filter_length f a b Hp).
      apply (sorted_nth_pred f b p d Hf Sb Hlb). fold y. unfold f. now rewrite (cmp_refl _ P). }
    assert (H2 : g y = true).
    { apply (sorted_nth_pred g b p d Hg Sb Hlb). rewrite <- (perm_filter_length g a b Hp).
      apply (sorted_nth_pred g a p d Hg Sa Hlt). fold x. unfold g. now rewrite (cmp_refl _ P). }
    unfold f in H1. unfold g in H2. rewrite (cmp_antisym _ P x y) in H2.
    destruct (cmp x y); cbn in *; congruence.
  Qed.
End Order.

Theorem order_checker_correct : forall (A : Type) (cmp : A -> A -> comparison),
  cmp_preorder cmp ->
  forall l : list A,
    is_sorted_perm cmp l (sort_by cmp l) /\
    forall l', is_sorted_perm cmp l l' ->
      length l' = length l /\
      forall (p : nat) (d : A), (p < length l)%nat -> cmp (nth p l' d) (nth p (sort_by cmp l) d) = Eq.
Proof.
  intros A cmp P l. split.
  - split; [apply sort_by_perm; exact P|apply sort_by_sorted; exact P].
  - intros l' [Hp Hs]. split; [symmetry; now apply Permutation_length|].
    intros p d Hlt. apply sorted_perm_pointwise; try assumption.
    + apply sort_by_sorted; exact P.
    + rewrite <- Hp. apply sort_by_perm; exact P.
    + now rewrite <- (Permutation_length Hp).
Qed.

(* ================================================================== *)
(* D. CompareAny and the multi-key comparator are total preorders      *)

Lemma cmp_preorder_ext {A} (c1 c2 : A -> A -> comparison) :
  (forall a b, c1 a b = c2 a b) -> cmp_preorder c1 -> cmp_preorder c2.
Proof.
  intros E [R S T]. constructor.
  - intros x. now rewrite <- E.
  - intros x y. now rewrite <- !E.
  - intros x y z. rewrite <- !E. apply T.
Qed.

Lemma cmp_preorder_flip {A} (c : A -> A -> comparison) :
  cmp_preorder c -> cmp_preorder (fun a b => c b a).
Proof.
  intros [R S T]. constructor.
  - intros x. apply R.
  - intros x y. apply S.
  - intros x y z H1 H2. exact (T z y x H2 H1).
Qed.

Lemma cmp_preorder_pull {A B} (f : A -> B) (c : B -> B -> comparison) :
  cmp_preorder c -> cmp_preorder (fun a b => c (f a) (f b)).
Proof.
  intros [R S T]. constructor.
  - intros x. apply R.
  - intros x y. apply S.
  - intros x y z. apply T.
Qed.

Definition cmp_then (c1 c2 : comparison) : comparison := match c1 with Eq => c2 | c => c end.

Lemma cmp_preorder_then {A} (c1 c2 : A -> A -> comparison) :
  cmp_preorder c1 -> cmp_preorder c2 -> cmp_preorder (fun a b => cmp_then (c1 a b) (c2 a b)).
Proof.
  intros P1 P2. constructor.
  - intros x. now rewrite (cmp_refl _ P1), (cmp_refl _ P2).
  - intros x y. rewrite (cmp_antisym _ P1 x y), (cmp_antisym _ P2 x y).
    destruct (c1 x y); reflexivity.
  - intros x y z H1 H2.
    assert (G1 : c1 x y <> Gt) by (destruct (c1 x y); cbn in H1; congruence).
    assert (G2 : c1 y z <> Gt) by (destruct (c1 y z); cbn in H2; congruence).
    rewrite (cmp_compose c1 P1 x y z G1 G2).
    destruct (c1 x y) eqn:E1; try congruence; destruct (c1 y z) eqn:E2; try congruence; cbn in *;
      try discriminate.
    exact (cmp_trans _ P2 x y z H1 H2).
Qed.

(* missing values last: Some _ < None, None = None *)
Definition opt_cmp {V} (c : V -> V -> comparison) (a b : option V) : comparison :=
  match a, b with
  | Some _, None => Lt
  | None, Some _ => Gt
  | None, None => Eq
  | Some x, Some y => c x y
  end.

Lemma cmp_preorder_opt {V} (c : V -> V -> comparison) : cmp_preorder c -> cmp_preorder (opt_cmp c).
Proof.
  intros [R S T]. constructor.
  - intros [x|]; cbn; auto.
  - intros [x|] [y|]; cbn; auto.
  - intros [x|] [y|] [z|]; cbn; try congruence. apply T.
Qed.

Lemma lex_compare_le_trans a b c :
  lex_compare a b <> Gt -> lex_compare b c <> Gt -> lex_compare a c <> Gt.
Proof.
  intros H1 H2.
  destruct (lex_compare a b) eqn:E1; [| |congruence].
  - apply lex_compare_eq in E1. now subst.
  - destruct (lex_compare b c) eqn:E2; [| |congruence].
    + apply lex_compare_eq in E2. subst. congruence.
    + rewrite (lex_compare_trans_lt _ _ _ E1 E2). discriminate.
Qed.

Lemma compare_any_refl a : compare_any a a = Eq.
Proof.
  unfold compare_any. rewrite Z.compare_refl.
  destruct a; auto using Z.compare_refl, lex_compare_refl.
Qed.

Lemma compare_any_antisym a b : compare_any b a = CompOpp (compare_any a b).
Proof.
  destruct a, b; cbn; try reflexivity; auto using Z.compare_antisym, lex_compare_antisym.
Qed.

Lemma compare_any_trans a b c :
  compare_any a b <> Gt -> compare_any b c <> Gt -> compare_any a c <> Gt.
Proof.
  destruct a, b, c; cbn; try (intros; congruence).
  - rewrite !Z.compare_le_iff. lia.
  - rewrite !Z.compare_le_iff. lia.
  - rewrite !Z.compare_le_iff. lia.
  - apply lex_compare_le_trans.
Qed.

Lemma compare_any_preorder : cmp_preorder compare_any.
Proof.
  constructor; [exact compare_any_refl|exact compare_any_antisym|exact compare_any_trans].
Qed.

(* what CompareAny is, in words: kinds first, then the value within int / float / string *)
Lemma compare_any_kinds a b :
  kind_of a <> kind_of b -> compare_any a b = Z.compare (kind_of a) (kind_of b).
Proof.
  intros H. unfold compare_any. destruct (Z.compare_spec (kind_of a) (kind_of b)); [contradiction|reflexivity|reflexivity].
Qed.

Lemma compare_any_values :
  (forall x y, compare_any (VInt x) (VInt y) = Z.compare x y) /\
  (forall x y, compare_any (VF64 x) (VF64 y) = Z.compare (f64_ord x) (f64_ord y)) /\
  (forall x y, compare_any (VF32 x) (VF32 y) = Z.compare (f32_ord x) (f32_ord y)) /\
  (forall x y, compare_any (VStr x) (VStr y) = lex_compare x y) /\
  (forall x y, compare_any (VBool x) (VBool y) = Eq) /\
  (forall x y, compare_any (VArr x) (VArr y) = Eq) /\
  (forall x y, compare_any (VMap x) (VMap y) = Eq) /\
  compare_any VNil VNil = Eq.
Proof. repeat split. Qed.

(* one sort key as a comparator on documents *)
Definition key_cmp (k : bytes * bool) (a b : doc) : comparison :=
  opt_cmp (if snd k then (fun x y => compare_any y x) else compare_any) (key_of (fst k) a) (key_of (fst k) b).

Lemma sort_cmp_cons k rest a b :
  sort_cmp (k :: rest) a b = cmp_then (key_cmp k a b) (sort_cmp rest a b).
Proof.
  destruct k as [p desc]. unfold key_cmp, key_of. cbn [sort_cmp fst snd].
  destruct (access_nested (split_dots p) (VMap a)), (access_nested (split_dots p) (VMap b)); cbn; try reflexivity.
  destruct desc; [destruct (compare_any v0 v)|destruct (compare_any v v0)]; reflexivity.
Qed.

Lemma key_cmp_preorder k : cmp_preorder (key_cmp k).
Proof.
  unfold key_cmp.
  apply (cmp_preorder_pull (key_of (fst k))
           (opt_cmp (if snd k then (fun x y => compare_any y x) else compare_any))).
  apply cmp_preorder_opt. destruct (snd k).
  - apply cmp_preorder_flip, compare_any_preorder.
  - apply compare_any_preorder.
Qed.

Lemma sort_cmp_preorder keys : cmp_preorder (sort_cmp keys).
Proof.
  induction keys as [|k rest IH].
  - constructor; cbn; intros; congruence.
  - apply (cmp_preorder_ext (fun a b => cmp_then (key_cmp k a b) (sort_cmp rest a b))).
    + intros a b. symmetry. apply sort_cmp_cons.
    + apply cmp_preorder_then; [apply key_cmp_preorder|exact IH].
Qed.

(* ================================================================== *)
(* E. missing values last                                              *)

Lemma sort_cmp_app pre post a b :
  sort_cmp (pre ++ post) a b = cmp_then (sort_cmp pre a b) (sort_cmp post a b).
Proof.
  induction pre as [|k pre IH]; [reflexivity|].
  rewrite <- app_comm_cons, !sort_cmp_cons, IH.
  destruct (key_cmp k a b); reflexivity.
Qed.

Lemma key_cmp_eq_tie k a b : key_cmp k a b = Eq <-> key_tie k a b.
Proof.
  unfold key_cmp, key_tie. destruct (key_of (fst k) a), (key_of (fst k) b); cbn; try tauto; try (split; [discriminate|tauto]).
  destruct (snd k); [|tauto].
  rewrite compare_any_antisym. destruct (compare_any v v0); cbn; split; congruence.
Qed.

Lemma sort_cmp_eq_ties keys a b : sort_cmp keys a b = Eq <-> Forall (fun k => key_tie k a b) keys.
Proof.
  induction keys as [|k rest IH]; [cbn; split; [constructor|reflexivity]|].
  rewrite sort_cmp_cons. split.
  - intros H. destruct (key_cmp k a b) eqn:E; cbn in H; try discriminate.
    constructor; [now apply key_cmp_eq_tie|now apply IH].
  - intros H. inversion H as [|? ? Hk Hr]. subst.
    apply key_cmp_eq_tie in Hk. rewrite Hk. cbn. now apply IH.
Qed.

Theorem missing_last :
  (* one key, either direction *)
  (forall p desc a b, key_of p a = None -> key_of p b <> None ->
     sort_cmp [(p, desc)] a b = Gt /\ sort_cmp [(p, desc)] b a = Lt) /\
  (* several keys: the first key that does not tie decides; if exactly one document has it, that one comes first *)
  (forall pre p desc post a b,
     Forall (fun k => key_tie k a b) pre -> key_of p a = None -> key_of p b <> None ->
     sort_cmp (pre ++ (p, desc) :: post) a b = Gt /\ sort_cmp (pre ++ (p, desc) :: post) b a = Lt) /\
  (* both lack the key: it is skipped *)
  (forall p desc post a b, key_of p a = None -> key_of p b = None ->
     sort_cmp ((p, desc) :: post) a b = sort_cmp post a b).
Proof.
  assert (K : forall p desc post a b, key_of p a = None -> key_of p b <> None ->
              sort_cmp ((p, desc) :: post) a b = Gt /\ sort_cmp ((p, desc) :: post) b a = Lt).
  { intros p desc post a b Ha Hb. unfold key_of in *. cbn [sort_cmp]. rewrite Ha.
    destruct (access_nested (split_dots p) (VMap b)); [split; reflexivity|congruence]. }
  split; [|split].
  - intros p desc a b. apply K.
  - intros pre p desc post a b Hpre Ha Hb.
    destruct (K p desc post a b Ha Hb) as [K1 K2].
    pose proof (sort_cmp_preorder pre) as Ppre.
    apply sort_cmp_eq_ties in Hpre.
    rewrite !sort_cmp_app, Hpre, (cmp_eq_sym _ Ppre _ _ Hpre). cbn. now split.
  - intros p desc post a b Ha Hb. unfold key_of in *. cbn [sort_cmp]. now rewrite Ha, Hb.
Qed.

(* ================================================================== *)
(* F. set algebra of composite nodes                                   *)

Lemma eval_composite is_or sc t live qs subs :
  eval sc t live (composite is_or qs) subs =
  match eval_list sc t live qs subs with
  | None => None
  | Some ([s], [rkd], [fl], subs') => Some (s, rkd, fl, subs')
  | Some (ss, rks, _, subs') =>
      let final := set_combine is_or ss in
      Some (final, merge_ranked is_or final rks, false, subs')
  end.
Proof. destruct is_or; reflexivity. Qed.

Lemma eval_list_cons sc t live c r subs :
  eval_list sc t live (c :: r) subs =
  match eval sc t live c subs with
  | None => None
  | Some (s, rkd, fl, subs') =>
      match eval_list sc t live r subs' with
      | None => None
      | Some (ss, rks, fls, subs'') => Some (s :: ss, rkd :: rks, fl :: fls, subs'')
      end
  end.
Proof. reflexivity. Qed.

Lemma eval_children sc t live c r subs :
  eval_list sc t live [] subs = Some ([], [], [], subs) /\
  eval_list sc t live (c :: r) subs =
  match eval sc t live c subs with
  | None => None
  | Some (s, rkd, fl, subs') =>
      match eval_list sc t live r subs' with
      | None => None
      | Some (ss, rks, fls, subs'') => Some (s :: ss, rkd :: rks, fl :: fls, subs'')
      end
  end.
Proof. split; reflexivity. Qed.

Lemma compare_any_facts :
  cmp_preorder compare_any /\
  (forall a b, kind_of a <> kind_of b -> compare_any a b = Z.compare (kind_of a) (kind_of b)) /\
  (forall x y, compare_any (VInt x) (VInt y) = Z.compare x y) /\
  (forall x y, compare_any (VF64 x) (VF64 y) = Z.compare (f64_ord x) (f64_ord y)) /\
  (forall x y, compare_any (VF32 x) (VF32 y) = Z.compare (f32_ord x) (f32_ord y)) /\
  (forall x y, compare_any (VStr x) (VStr y) = lex_compare x y) /\
  (forall x y, compare_any (VBool x) (VBool y) = Eq) /\
  (forall x y, compare_any (VArr x) (VArr y) = Eq) /\
  (forall x y, compare_any (VMap x) (VMap y) = Eq) /\
  compare_any VNil VNil = Eq.
Proof. exact (conj compare_any_preorder (conj compare_any_kinds compare_any_values)). Qed.

Lemma eval_list_length sc t live qs : forall subs ss rks fls subs',
  eval_list sc t live qs subs = Some (ss, rks, fls, subs') ->
  length ss = length qs /\ length rks = length qs /\ length fls = length qs.
Proof.
  induction qs as [|c r IH]; intros subs ss rks fls subs' H.
  - cbn in H. inversion H. auto.
  - rewrite eval_list_cons in H.
    destruct (eval sc t live c subs) as [[[[s rkd] fl] subs1]|]; [|discriminate].
    destruct (eval_list sc t live r subs1) as [[[[ss1 rks1] fls1] subs2]|] eqn:E; [|discriminate].
    inversion H. subst. destruct (IH _ _ _ _ _ E) as [H1 [H2 H3]]. cbn. auto.
Qed.

Lemma eval_single is_or sc t live c subs :
  eval sc t live (composite is_or [c]) subs = eval sc t live c subs.
Proof.
  rewrite eval_composite, eval_list_cons.
  destruct (eval sc t live c subs) as [[[[s rkd] fl] subs1]|]; reflexivity.
Qed.

Lemma ids_inter_In id a b : In id (ids_inter a b) <-> In id a /\ In id b.
Proof. unfold ids_inter. rewrite filter_In, mem_bytes_In. tauto. Qed.

Lemma ids_union_In id a b : In id (ids_union a b) <-> In id a \/ In id b.
Proof.
  unfold ids_union. rewrite in_app_iff, filter_In, negb_true_iff, mem_bytes_false. split.
  - tauto.
  - intros [H|H]; [auto|]. destruct (mem_bytes id a) eqn:E.
    + apply mem_bytes_In in E. auto.
    + apply mem_bytes_false in E. auto.
Qed.

Lemma NoDup_app_disj {A} (a b : list A) :
  NoDup a -> NoDup b -> (forall x, In x a -> ~ In x b) -> NoDup (a ++ b).
Proof.
  induction a as [|x a IH]; intros Ha Hb Hd; cbn; [assumption|].
  inversion Ha as [|? ? Hn Ha']. subst. constructor.
  - rewrite in_app_iff. intros [H|H]; [auto|]. apply (Hd x); [now left|assumption].
  - apply IH; try assumption. intros y Hy. apply Hd. now right.
Qed.

Lemma ids_inter_nodup a b : NoDup a -> NoDup (ids_inter a b).
Proof. apply NoDup_filter. Qed.

Lemma ids_union_nodup a b : NoDup a -> NoDup b -> NoDup (ids_union a b).
Proof.
  intros Ha Hb. unfold ids_union. apply NoDup_app_disj; [assumption|now apply NoDup_filter|].
  intros x Hx H. apply filter_In in H. destruct H as [_ H].
  apply negb_true_iff, mem_bytes_false in H. auto.
Qed.

Lemma fold_inter_In id rest s0 :
  In id (fold_left (fun acc s => ids_inter acc s) rest s0) <-> In id s0 /\ forall s, In s rest -> In id s.
Proof.
  revert s0. induction rest as [|s rest IH]; intros s0; cbn.
  - split; [intros H; split; [assumption|intros s []]|tauto].
  - rewrite IH, ids_inter_In. split.
    + intros [[H1 H2] H3]. split; [assumption|]. intros s' [<-|H]; auto.
    + intros [H1 H2]. split; [split|]; auto.
Qed.

Lemma fold_union_In id rest s0 :
  In id (fold_left (fun acc s => ids_union acc s) rest s0) <-> In id s0 \/ exists s, In s rest /\ In id s.
Proof.
  revert s0. induction rest as [|s rest IH]; intros s0; cbn.
  - split; [auto|]. intros [H|[s [[] _]]]. assumption.
  - rewrite IH, ids_union_In. split.
    + intros [[H|H]|[s' [H1 H2]]]; eauto.
    + intros [H|[s' [[<-|H1] H2]]]; eauto.
Qed.

Lemma set_combine_In id is_or ss :
  ss <> [] ->
  (In id (set_combine is_or ss) <->
   if is_or then exists s, In s ss /\ In id s else forall s, In s ss -> In id s).
Proof.
  destruct ss as [|s0 rest]; [congruence|]. intros _. destruct is_or; cbn.
  - rewrite fold_union_In. split.
    + intros [H|[s [H1 H2]]]; eauto.
    + intros [s [[<-|H1] H2]]; eauto.
  - rewrite fold_inter_In. split.
    + intros [H1 H2] s [<-|H]; auto.
    + intros H. split; [apply H; now left|]. intros s Hs. apply H. now right.
Qed.

Lemma set_combine_nodup is_or ss : Forall (@NoDup uuid) ss -> NoDup (set_combine is_or ss).
Proof.
  destruct ss as [|s0 rest]; cbn; [constructor|]. intros H. inversion H as [|? ? H0 Hr]. subst.
  clear H. revert s0 H0. induction Hr as [|s rest Hs _ IH]; intros s0 H0; cbn; [assumption|].
  apply IH. destruct is_or; [now apply ids_union_nodup|now apply ids_inter_nodup].
Qed.

Theorem set_algebra : forall sc t live (is_or : bool) (qs : list query) (subs : list (list row)),
  (* exactly one sub-query: passed through unchanged (set, ranked list in its order, flag, remaining answers) *)
  (forall c, qs = [c] -> eval sc t live (composite is_or qs) subs = eval sc t live c subs) /\
  (* a failing child makes the node fail *)
  (eval_list sc t live qs subs = None -> eval sc t live (composite is_or qs) subs = None) /\
  (* otherwise: union / intersection of the children's sets, merge of their ranked lists *)
  (forall ss rks fls subs', eval_list sc t live qs subs = Some (ss, rks, fls, subs') ->
     length ss = length qs /\ length rks = length qs /\ length fls = length qs /\
     ((2 <= length qs)%nat ->
      exists final,
        eval sc t live (composite is_or qs) subs = Some (final, merge_ranked is_or final rks, false, subs') /\
        (forall id, In id final <->
                    if is_or then exists s, In s ss /\ In id s else forall s, In s ss -> In id s) /\
        (Forall (@NoDup uuid) ss -> NoDup final))).
Proof.
  intros sc t live is_or qs subs. split; [|split].
  - intros c ->. apply eval_single.
  - intros H. now rewrite eval_composite, H.
  - intros ss rks fls subs' H. destruct (eval_list_length _ _ _ _ _ _ _ _ _ H) as [L1 [L2 L3]].
    repeat (split; [assumption|]). intros Hlen. exists (set_combine is_or ss).
    split; [|split].
    + rewrite eval_composite, H.
      destruct ss as [|s0 [|s1 ss]]; cbn in L1; try lia.
      destruct rks as [|r0 [|r1 rks]]; cbn in L2; try lia.
      destruct fls as [|f0 [|f1 fls]]; cbn in L3; try lia. reflexivity.
    + intros id. apply set_combine_In. destruct ss; cbn in L1; [lia|discriminate].
    + apply set_combine_nodup.
Qed.

(* ================================================================== *)
(* G. field selection                                                  *)

Lemma map_first_get k d : map_first k d = doc_get k d.
Proof. induction d as [|[k' v] d IH]; cbn; [reflexivity|]. now rewrite IH. Qed.

Lemma doc_remove_get k k' d : k' <> k -> doc_get k' (doc_remove k d) = doc_get k' d.
Proof.
  intros Hne. induction d as [|[k1 v] d IH]; cbn; [reflexivity|].
  destruct (bytes_eqb k k1) eqn:E1; beq.
  - subst. destruct (bytes_eqb k' k1) eqn:E2; beq; [congruence|exact IH].
  - cbn. destruct (bytes_eqb k' k1); [reflexivity|exact IH].
Qed.

Lemma doc_set_get_same k v d : doc_get k (doc_set k v d) = Some v.
Proof. unfold doc_set. cbn. now rewrite bytes_eqb_refl. Qed.

Lemma doc_set_get_other k k' v d : k' <> k -> doc_get k' (doc_set k v d) = doc_get k' d.
Proof.
  intros Hne. unfold doc_set. cbn. destruct (bytes_eqb k' k) eqn:E; beq; [congruence|].
  now apply doc_remove_get.
Qed.

Lemma doc_remove_keys k x d : In x (map fst (doc_remove k d)) -> In x (map fst d).
Proof.
  induction d as [|[k1 v] d IH]; cbn; [tauto|].
  destruct (bytes_eqb k k1); cbn; tauto.
Qed.

Lemma doc_remove_notin k d : ~ In k (map fst d) -> doc_remove k d = d.
Proof.
  induction d as [|[k1 v] d IH]; cbn; [reflexivity|]. intros H.
  destruct (bytes_eqb k k1) eqn:E; beq; [exfalso; apply H; left; congruence|].
  f_equal. apply IH. tauto.
Qed.

Lemma query_map_step s rest l :
  s <> [] ->
  query_path (s :: rest) (VMap l) =
  match doc_get s l with Some v' => query_path rest v' | None => QAbsent end.
Proof. intros Hs. destruct s; [congruence|]. cbn. now rewrite map_first_get. Qed.

Lemma split_dots_acc_nonempty s cur : split_dots_acc s cur <> [].
Proof.
  revert cur. induction s as [|c s IH]; intros cur; cbn; [discriminate|].
  destruct (c =? 46); [discriminate|apply IH].
Qed.

Lemma split_dots_nonempty p : split_dots p <> [].
Proof. apply split_dots_acc_nonempty. Qed.

(* the map a nested assignment descends into *)
Definition sub_at (s : bytes) (d : doc) : option doc :=
  match doc_get s d with None => Some [] | Some (VMap sub) => Some sub | Some _ => None end.

Lemma set_nested_one s v d : set_nested [s] v d = Some (doc_set s v d).
Proof. reflexivity. Qed.

Lemma set_nested_deep s s2 rest v d :
  set_nested (s :: s2 :: rest) v d =
  match sub_at s d with
  | Some sub => match set_nested (s2 :: rest) v sub with
                | Some sub' => Some (doc_set s (VMap sub') d)
                | None => None
                end
  | None => None
  end.
Proof.
  unfold sub_at. cbn [set_nested]. destruct (doc_get s d) as [[]|]; reflexivity.
Qed.

Lemma set_nested_shape s rest v d d' :
  set_nested (s :: rest) v d = Some d' -> exists w, d' = doc_set s w d.
Proof.
  destruct rest as [|s2 rest].
  - rewrite set_nested_one. intros H. inversion H. eauto.
  - rewrite set_nested_deep. destruct (sub_at s d); [|discriminate].
    destruct (set_nested (s2 :: rest) v d0); [|discriminate]. intros H. inversion H. eauto.
Qed.

Lemma set_nested_keys segs v d d' k :
  set_nested segs v d = Some d' -> In k (map fst d') -> In k (map fst d) \/ k = hd [] segs.
Proof.
  destruct segs as [|s rest].
  - cbn. intros H. inversion H. auto.
  - intros H. destruct (set_nested_shape _ _ _ _ _ H) as [w ->]. unfold doc_set. cbn.
    intros [<-|Hk]; [auto|]. left. eapply doc_remove_keys. eassumption.
Qed.

(* P1: the assigned path reads back the assigned value *)
Lemma set_nested_read segs : forall v d d',
  segs <> [] -> plain_segs segs -> set_nested segs v d = Some d' ->
  query_path segs (VMap d') = QFound v.
Proof.
  induction segs as [|s rest IH]; intros v d d' Hne Hp H; [congruence|].
  inversion Hp as [|? ? Hs Hrest]. subst.
  destruct rest as [|s2 rest].
  - rewrite set_nested_one in H. inversion H. subst.
    rewrite query_map_step by assumption. now rewrite doc_set_get_same.
  - rewrite set_nested_deep in H. destruct (sub_at s d) as [sub|]; [|discriminate].
    destruct (set_nested (s2 :: rest) v sub) as [sub'|] eqn:E; [|discriminate].
    inversion H. subst. rewrite query_map_step by assumption. rewrite doc_set_get_same.
    apply (IH v sub sub'); [discriminate|assumption|assumption].
Qed.

Lemma seg_prefix_refl a : seg_prefix a a.
Proof. induction a; cbn; auto. Qed.

Lemma seg_disjoint_sym a b : seg_disjoint a b -> seg_disjoint b a.
Proof. unfold seg_disjoint. tauto. Qed.

Lemma seg_disjoint_cons s a b : seg_disjoint (s :: a) (s :: b) -> seg_disjoint a b.
Proof. unfold seg_disjoint. cbn. tauto. Qed.

(* P2: a non-overlapping path reads the same before and after the assignment *)
Lemma set_nested_other segs : forall segs' v d d',
  plain_segs segs' -> seg_disjoint segs segs' -> set_nested segs v d = Some d' ->
  query_path segs' (VMap d') = query_path segs' (VMap d).
Proof.
  induction segs as [|s rest IH]; intros segs' v d d' Hp Hd H.
  - exfalso. apply (proj1 Hd). exact I.
  - destruct segs' as [|s' rest']; [exfalso; apply (proj2 Hd); exact I|].
    inversion Hp as [|? ? Hs' Hrest']. subst.
    rewrite !query_map_step by assumption.
    destruct (bytes_eqb s' s) eqn:E; beq.
    + subst s'. apply seg_disjoint_cons in Hd.
      destruct rest as [|s2 rest]; [exfalso; apply (proj1 Hd); exact I|].
      rewrite set_nested_deep in H. unfold sub_at in H.
      destruct (doc_get s d) as [w|] eqn:G.
      * destruct w; try discriminate.
        destruct (set_nested (s2 :: rest) v l) as [sub'|] eqn:E2; [|discriminate].
        inversion H. subst. rewrite doc_set_get_same.
        apply (IH rest' v l sub'); assumption.
      * destruct (set_nested (s2 :: rest) v []) as [sub'|] eqn:E2; [|discriminate].
        inversion H. subst. rewrite doc_set_get_same.
        rewrite (IH rest' v [] sub') by assumption.
        destruct rest' as [|r1 rest']; [exfalso; apply (proj2 Hd); exact I|].
        inversion Hrest'. subst. now rewrite query_map_step by assumption.
    + destruct (set_nested_shape _ _ _ _ _ H) as [w ->].
      now rewrite doc_set_get_other by assumption.
Qed.

Lemma star_neq p : p <> star -> bytes_eqb p [42] = false.
Proof. intros H. apply bytes_eqb_false. exact H. Qed.

Lemma select_go_inv paths : forall d acc r,
  plain_paths paths -> select_go paths d acc = Some r ->
  (forall p v, In p paths -> query_path (split_dots p) (VMap d) = QFound v ->
               query_path (split_dots p) (VMap r) = QFound v) /\
  (forall p, In p paths -> query_path (split_dots p) (VMap d) = QAbsent ->
             query_path (split_dots p) (VMap r) = query_path (split_dots p) (VMap acc)) /\
  (forall segs', plain_segs segs' -> (forall p, In p paths -> seg_disjoint (split_dots p) segs') ->
                 query_path segs' (VMap r) = query_path segs' (VMap acc)) /\
  (forall k, In k (map fst r) ->
             In k (map fst acc) \/
             exists p v, In p paths /\ query_path (split_dots p) (VMap d) = QFound v /\ hd [] (split_dots p) = k).
Proof.
  induction paths as [|p rest IH]; intros d acc r [HF HO] H.
  - cbn in H. inversion H. subst. repeat split; try (intros; contradiction); auto.
  - inversion HF as [|? ? [Hstar Hplain] HF']. subst.
    inversion HO as [|? ? Hdis HO']. subst.
    assert (PP : plain_paths rest) by (split; assumption).
    rewrite Forall_forall in Hdis.
    cbn [select_go] in H. rewrite (star_neq _ Hstar) in H.
    destruct (query_path (split_dots p) (VMap d)) as [| |v] eqn:Q; [discriminate| |].
    + (* absent: skipped *)
      destruct (IH d acc r PP H) as [A [B [C D]]]. split; [|split; [|split]].
      * intros p' v' [<-|Hin] Hq; [congruence|]. now apply A.
      * intros p' [<-|Hin] Hq; [|now apply B].
        apply C; [assumption|]. intros q Hq'. apply seg_disjoint_sym. now apply Hdis.
      * intros segs' Hp' Hall. apply C; [assumption|]. intros q Hq'. apply Hall. now right.
      * intros k Hk. destruct (D k Hk) as [H1|[q [w [H1 [H2 H3]]]]]; [auto|].
        right. exists q, w. split; [now right|auto].
    + (* found: assigned *)
      destruct (set_nested (split_dots p) v acc) as [acc'|] eqn:S; [|discriminate].
      destruct (IH d acc' r PP H) as [A [B [C D]]].
      assert (Hself : query_path (split_dots p) (VMap r) = query_path (split_dots p) (VMap acc')).
      { apply C; [assumption|]. intros q Hq'. apply seg_disjoint_sym. now apply Hdis. }
      split; [|split; [|split]].
      * intros p' v' [<-|Hin] Hq; [|now apply A].
        rewrite Hself. rewrite Q in Hq. inversion Hq. subst.
        apply (set_nested_read _ _ _ _ (split_dots_nonempty p) Hplain S).
      * intros p' [<-|Hin] Hq; [congruence|].
        rewrite (B p' Hin Hq).
        apply (set_nested_other _ _ _ _ _ (proj2 (proj1 (Forall_forall _ _) HF' p' Hin)) (Hdis p' Hin) S).
      * intros segs' Hp' Hall. rewrite C; [|assumption|intros q Hq'; apply Hall; now right].
        apply (set_nested_other _ _ _ _ _ Hp' (Hall p (or_introl eq_refl)) S).
      * intros k Hk. destruct (D k Hk) as [H1|[q [w [H1 [H2 H3]]]]].
        -- destruct (set_nested_keys _ _ _ _ _ S H1) as [H2| ->]; [auto|].
           right. exists p, v. split; [now left|auto].
        -- right. exists q, w. split; [now right|auto].
Qed.

Lemma doc_get_In k v d : NoDup (map fst d) -> In (k, v) d -> doc_get k d = Some v.
Proof.
  induction d as [|[k1 v1] d IH]; cbn; [tauto|]. intros ND [H|H].
  - inversion H. subst. now rewrite bytes_eqb_refl.
  - inversion ND as [|? ? Hn ND']. subst.
    destruct (bytes_eqb k k1) eqn:E; beq.
    + subst. exfalso. apply Hn. change k1 with (fst (k1, v)). now apply in_map.
    + auto.
Qed.

Lemma fold_set_rev d : forall acc,
  NoDup (map fst d) -> (forall k, In k (map fst d) -> ~ In k (map fst acc)) ->
  fold_left (fun a kv => doc_set (fst kv) (snd kv) a) d acc = rev d ++ acc.
Proof.
  induction d as [|[k v] d IH]; intros acc ND Hd; cbn; [reflexivity|].
  inversion ND as [|? ? Hn ND']. subst.
  unfold doc_set at 2. cbn [fst snd]. rewrite (doc_remove_notin k acc) by (apply Hd; now left).
  rewrite IH; [now rewrite <- app_assoc|assumption|].
  intros k' Hk' [<-|H]; [contradiction|]. apply (Hd k'); [now right|assumption].
Qed.

Lemma doc_sub_incl a b :
  NoDup (map fst b) -> (forall kv, In kv a -> In kv b) -> doc_sub a b = true.
Proof.
  intros ND H. unfold doc_sub. apply forallb_forall. intros [k v] Hkv. cbn.
  rewrite (doc_get_In k v b ND (H _ Hkv)). now apply value_eqb_eq.
Qed.

Lemma select_star d : NoDup (map fst d) ->
  exists r, select_doc [star] d = Some r /\ doc_eqb r d = true /\ doc_eqb d r = true.
Proof.
  intros ND. exists (rev d). split.
  - unfold select_doc, star. cbn. f_equal. rewrite fold_set_rev; [apply app_nil_r|assumption|].
    intros k _ [].
  - assert (NDr : NoDup (map fst (rev d))) by (rewrite map_rev; now apply NoDup_rev).
    unfold doc_eqb. rewrite rev_length, Nat.eqb_refl.
    assert (S1 : doc_sub (rev d) d = true)
      by (apply doc_sub_incl; [assumption|intros kv Hkv; apply (proj2 (in_rev d kv)), Hkv]).
    assert (S2 : doc_sub d (rev d) = true)
      by (apply doc_sub_incl; [assumption|intros kv Hkv; apply (proj1 (in_rev d kv)), Hkv]).
    rewrite S1, S2. split; reflexivity.
Qed.

Theorem select_exact :
  (forall paths d r, plain_paths paths -> select_doc paths d = Some r ->
     (forall p v, In p paths -> query_path (split_dots p) (VMap d) = QFound v ->
                  query_path (split_dots p) (VMap r) = QFound v) /\
     (forall p, In p paths -> query_path (split_dots p) (VMap d) = QAbsent ->
                query_path (split_dots p) (VMap r) = QAbsent) /\
     (forall k, In k (map fst r) ->
                exists p v, In p paths /\ query_path (split_dots p) (VMap d) = QFound v /\
                            hd [] (split_dots p) = k)) /\
  (forall d, NoDup (map fst d) ->
     exists r, select_doc [star] d = Some r /\ doc_eqb r d = true /\ doc_eqb d r = true).
Proof.
  split; [|exact select_star].
  intros paths d r PP H. destruct (select_go_inv paths d [] r PP H) as [A [B [_ D]]].
  split; [exact A|]. split.
  - intros p Hin Hq. rewrite (B p Hin Hq).
    destruct PP as [HF _]. rewrite Forall_forall in HF. destruct (HF p Hin) as [_ Hp].
    pose proof (split_dots_nonempty p) as Hne.
    destruct (split_dots p) as [|s rest]; [congruence|].
    inversion Hp. subst. now rewrite query_map_step by assumption.
  - intros k Hk. destruct (D k Hk) as [[]|H1]. exact H1.
Qed.

(* ================================================================== *)
(* H. the hybrid-descending comparator of Run_C06 is a total preorder  *)

Lemma Qltb_lt a b : Qltb a b = true <-> (a < b)%Q.
Proof.
  unfold Qltb. rewrite andb_true_iff, negb_true_iff, Qle_bool_iff. split.
  - intros [H1 H2]. apply Qle_lteq in H1. destruct H1 as [H1|H1]; [assumption|].
    apply Qeq_bool_iff in H1. congruence.
  - intros H. split; [now apply Qlt_le_weak|].
    destruct (Qeq_bool a b) eqn:E; [|reflexivity].
    apply Qeq_bool_iff in E. rewrite E in H. exfalso. exact (Qlt_irrefl _ H).
Qed.

Lemma desc_cmp_gt a b : desc_cmp a b = Gt <-> (a < b)%Q.
Proof.
  unfold desc_cmp. destruct (Qltb b a) eqn:E1; destruct (Qltb a b) eqn:E2.
  - apply Qltb_lt in E1. apply Qltb_lt in E2. exfalso. exact (Qlt_irrefl _ (Qlt_trans _ _ _ E1 E2)).
  - split; [discriminate|]. intros H. apply Qltb_lt in H. congruence.
  - apply Qltb_lt in E2. tauto.
  - split; [discriminate|]. intros H. apply Qltb_lt in H. congruence.
Qed.

Lemma desc_cmp_preorder : cmp_preorder desc_cmp.
Proof.
  constructor.
  - intros x. unfold desc_cmp.
    assert (E : Qltb x x = false).
    { destruct (Qltb x x) eqn:E; [|reflexivity]. apply Qltb_lt in E. exfalso. exact (Qlt_irrefl _ E). }
    now rewrite E.
  - intros x y. unfold desc_cmp. destruct (Qltb x y) eqn:E1; destruct (Qltb y x) eqn:E2; try reflexivity.
    apply Qltb_lt in E1. apply Qltb_lt in E2. exfalso. exact (Qlt_irrefl _ (Qlt_trans _ _ _ E1 E2)).
  - intros x y z H1 H2 H3. apply desc_cmp_gt in H3.
    assert (G1 : ~ (x < y)%Q) by (intros H; apply H1; now apply desc_cmp_gt).
    assert (G2 : ~ (y < z)%Q) by (intros H; apply H2; now apply desc_cmp_gt).
    apply Qnot_lt_le in G1. apply Qnot_lt_le in G2.
    exact (Qlt_irrefl _ (Qlt_le_trans _ _ _ H3 (Qle_trans _ _ _ G2 G1))).
Qed.
