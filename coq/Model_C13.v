(* Model_C13.v -- routing by rendezvous hashing (cluster/hashing.go), definitions only.

   RendezvousHash(key, servers, topK):
     scores[i] = (server_i, xxhash.Sum64String(key + server_i))
     slices.SortFunc(scores, by Score ascending)        -- pdqsort, NOT stable
     return the first min(topK, len(servers)) servers

   M  : [rv hash key servers k], generic in the hash function; the sort is an
        insertion sort on the (score, server) pairs.  Under the hypothesis that
        the scores are pairwise distinct every correct sort returns the same
        list (Proofs_C13.sorted_perm_unique), so the unstable Go sort is covered.
   xxh64 : executable model of the 64-bit xxHash (seed 0) of
        github.com/cespare/xxhash v1.1.0 (Sum64 / Sum64String), over N with
        explicit truncation to 64 bits. *)
From Coq Require Import List NArith Bool Arith.
From Coq Require String Ascii.
From Semadb Require Import Bytes.
Import ListNotations.
Open Scope N_scope.

(* ------------------------------------------------------------------ *)
(* generic insertion sort by a numeric score                            *)

Section SortOn.
  Context {A : Type} (f : A -> N).
  Fixpoint insert_by (x : A) (l : list A) : list A :=
    match l with
    | [] => [x]
    | y :: r => if f x <=? f y then x :: l else y :: insert_by x r
    end.
  Definition sort_on (l : list A) : list A := fold_right insert_by [] l.
End SortOn.

(* ------------------------------------------------------------------ *)
(* rendezvous hashing, generic in the hash function                      *)

Definition score (hash : bytes -> N) (key s : bytes) : N := hash (key ++ s).

(* the Go slice `scores` : (Score, Server) *)
Definition decorate (hash : bytes -> N) (key : bytes) (servers : list bytes) : list (N * bytes) :=
  map (fun s => (score hash key s, s)) servers.

Definition rv_of_scored (sc : list (N * bytes)) (k : nat) : list bytes :=
  map snd (firstn k (sort_on fst sc)).

Definition rv (hash : bytes -> N) (key : bytes) (servers : list bytes) (k : nat) : list bytes :=
  rv_of_scored (decorate hash key servers) k.

(* the server responsible for [key]: RendezvousHash(key, servers, 1)[0] *)
Definition owner (hash : bytes -> N) (key : bytes) (servers : list bytes) : option bytes :=
  hd_error (rv hash key servers 1).

(* boolean duplicate test on scores (used by the Examples) *)
Fixpoint memN (x : N) (l : list N) : bool :=
  match l with [] => false | y :: r => (x =? y) || memN x r end.
Fixpoint nodupN (l : list N) : bool :=
  match l with [] => true | x :: r => negb (memN x r) && nodupN r end.

Definition bytes_eq_dec : forall a b : bytes, {a = b} + {a <> b} := list_eq_dec N.eq_dec.

(* ------------------------------------------------------------------ *)
(* boolean checker of an observed selection (used by Run_C13, proved sound
   in Proofs_C13.sel_ok_sound)                                            *)

Fixpoint lbeq (a b : list N) : bool :=
  match a, b with [], [] => true | x :: a', y :: b' => (x =? y) && lbeq a' b' | _, _ => false end.
Fixpoint llbeq (a b : list bytes) : bool :=
  match a, b with [], [] => true | x :: a', y :: b' => lbeq x y && llbeq a' b' | _, _ => false end.

(* take one occurrence of server [s] out of the scored list, returning its score *)
Fixpoint take_out (s : bytes) (l : list (N * bytes)) : option (N * list (N * bytes)) :=
  match l with
  | [] => None
  | (h, t) :: r =>
      if lbeq s t then Some (h, r)
      else match take_out s r with
           | Some (h', r') => Some (h', (h, t) :: r')
           | None => None
           end
  end.

(* [obs] is a legal "first servers by ascending score" selection out of the
   scored servers [rest]: every observed server is taken (once per occurrence)
   from the list, scores do not decrease along the observation, and every
   server left over scores at least as much as the last selected one.
   With distinct server names this is: duplicate-free sub-list of the right
   servers.  Ties may be broken either way (the Go sort is unstable). *)
Fixpoint sel_ok (obs : list bytes) (rest : list (N * bytes)) (last : N) : bool :=
  match obs with
  | [] => forallb (fun p => last <=? fst p) rest
  | o :: obs' =>
      match take_out o rest with
      | None => false
      | Some (h, rest') => (last <=? h) && sel_ok obs' rest' h
      end
  end.

(* ------------------------------------------------------------------ *)
(* xxHash64, seed 0 (cespare/xxhash v1: xxhash.go, xxhash_other.go)       *)

Definition mask64 : N := 18446744073709551615.            (* 2^64 - 1 *)
(* x mod 2^64, computed as a bitwise and (Proofs_C13.w64_mod) *)
Definition w64 (x : N) : N := N.land x mask64.

Definition prime1 : N := 11400714785074694791.
Definition prime2 : N := 14029467366897019727.
Definition prime3 : N := 1609587929392839161.
Definition prime4 : N := 9650029242287828579.
Definition prime5 : N := 2870177450012600261.

(* bits.RotateLeft64 on x < 2^64, 0 < r < 64 *)
Definition rotl (r x : N) : N := w64 (N.lor (N.shiftl x r) (N.shiftr x (64 - r))).

(* func round(acc, input): acc += input*prime2; acc = rol31(acc); acc *= prime1 *)
Definition xround (acc inp : N) : N := w64 (rotl 31 (w64 (acc + inp * prime2)) * prime1).

(* func mergeRound(acc, val): val = round(0,val); acc ^= val; acc = acc*prime1 + prime4 *)
Definition merge_round (acc val : N) : N := w64 (N.lxor acc (xround 0 val) * prime1 + prime4).

(* little-endian word of w bytes at the head of b (binary.LittleEndian.Uint64/32) *)
Definition word (w : nat) (b : bytes) : N := unle (firstn w b).

(* the loop `for len(b) >= 32`: cnt = len(b)/32 stripes of four 8-byte lanes *)
Fixpoint stripes (cnt : nat) (b : bytes) (v1 v2 v3 v4 : N) : (N * N * N * N) * bytes :=
  match cnt with
  | O => ((v1, v2, v3, v4), b)
  | S c =>
      let b8 := skipn 8 b in let b16 := skipn 8 b8 in let b24 := skipn 8 b16 in
      stripes c (skipn 8 b24)
              (xround v1 (word 8 b)) (xround v2 (word 8 b8))
              (xround v3 (word 8 b16)) (xround v4 (word 8 b24))
  end.

(* `for ; i+8 <= end; i += 8` *)
Fixpoint tail8 (cnt : nat) (b : bytes) (h : N) : N * bytes :=
  match cnt with
  | O => (h, b)
  | S c => tail8 c (skipn 8 b)
                 (w64 (rotl 27 (N.lxor h (xround 0 (word 8 b))) * prime1 + prime4))
  end.

(* `if i+4 <= end` *)
Definition tail4 (b : bytes) (h : N) : N * bytes :=
  if (4 <=? length b)%nat
  then (w64 (rotl 23 (N.lxor h (w64 (word 4 b * prime1))) * prime2 + prime3), skipn 4 b)
  else (h, b).

(* `for ; i < end; i++` *)
Fixpoint tail1 (b : bytes) (h : N) : N :=
  match b with
  | [] => h
  | x :: r => tail1 r (w64 (rotl 11 (N.lxor h (w64 (x * prime5))) * prime1))
  end.

Definition avalanche (h : N) : N :=
  let h := N.lxor h (N.shiftr h 33) in
  let h := w64 (h * prime2) in
  let h := N.lxor h (N.shiftr h 29) in
  let h := w64 (h * prime3) in
  N.lxor h (N.shiftr h 32).

Definition xxh64 (b : bytes) : N :=
  let n := length b in
  let '(h0, rest) :=
    if (32 <=? n)%nat then
      let '((v1, v2, v3, v4), rest) :=
        stripes (Nat.div n 32) b (w64 (prime1 + prime2)) prime2 0 (w64 (18446744073709551616 - prime1)) in
      let h := w64 (rotl 1 v1 + rotl 7 v2 + rotl 12 v3 + rotl 18 v4) in
      (merge_round (merge_round (merge_round (merge_round h v1) v2) v3) v4, rest)
    else (prime5, b) in
  let h1 := w64 (h0 + N.of_nat n) in
  let '(h2, rest2) := tail8 (Nat.div (length rest) 8) rest h1 in
  let '(h3, rest3) := tail4 rest2 h2 in
  avalanche (tail1 rest3 h3).

(* ASCII strings as byte lists, for readable examples *)
Definition str (s : String.string) : bytes := map Ascii.N_of_ascii (String.list_ascii_of_string s).
