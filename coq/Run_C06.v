(* Run_C06.v -- verdict for C06: composite requests. The standalone answers of
   the ranking leaves (recorded right after the composite request, in
   depth-first order) are the contributions; the merged, selected, sorted and
   paged answer is judged against Model_C06. *)
From Coq Require Import List NArith ZArith QArith Bool.
From Semadb Require Import Bytes Pack Value Obs Dyadic Model_C01 Model_C02 Model_C04 Model_C06.
Import ListNotations.
Open Scope N_scope.

Definition rows_of (o : qout) : option (list row) := match o with QRows r => Some r | QError _ => None end.

Definition hyb_close (a b : Q) : bool := Qclose (1 # 100000) a b || Qclose_rel (1 # 100000) a b.

Definition opt_N_eqb (a b : option N) : bool :=
  match a, b with Some x, Some y => x =? y | None, None => true | _, _ => false end.

(* sorted (descending) hybrid values of the ranked table *)
Definition desc_cmp (a b : Q) : comparison := if Qltb b a then Lt else if Qltb a b then Gt else Eq.

Definition judge_composite (sc : schema) (st : step) (r : request) (o : qout) (subs : list (list row)) : N :=
  match eval sc (s_lower st) (s_live st) (rq_query r) subs with
  | None => 290
  | Some (set, ranked, leaf_order, _) =>
      match o with
      | QError _ => 181
      | QRows rows =>
          let ids := map r_id rows in
          let unranked := filter (fun id => match rk_find id ranked with Some _ => false | None => true end) set in
          let nr := length ranked in
          let total := (nr + length unranked)%nat in
          let off := N.to_nat (rq_offset r) in
          let lim := if rq_limit r =? 0 then total else N.to_nat (rq_limit r) in
          let expect_len := Nat.min lim (total - off) in
          (* selected documents of all result points *)
          let sel (id : uuid) : option doc :=
            match st_get id (s_live st) with
            | Some d => if decodes r then select_doc (rq_select r) d else Some d
            | None => None
            end in
          if negb (nodup_ids ids) then 182 else
          if negb (forallb (fun id => mem_bytes id set) ids) then 183 else
          if negb (length rows =? expect_len)%nat then 184 else
          (* distance / score fields *)
          if negb (forallb (fun x => match rk_find (r_id x) ranked with
                                    | Some k => opt_N_eqb (r_dist x) (k_dist k) && opt_N_eqb (r_score x) (k_score k)
                                    | None => opt_N_eqb (r_dist x) None && opt_N_eqb (r_score x) None
                                    end) rows) then 189 else
          (* hybrid = sum of contributions *)
          if negb (forallb (fun x => match rk_find (r_id x) ranked with
                                    | Some k => hyb_close (f32_to_Q (r_hybrid x)) (k_hybrid k)
                                    | None => Qeqb (f32_to_Q (r_hybrid x)) 0
                                    end) rows) then 186 else
          (* documents *)
          if negb (forallb (fun x =>
                     match rq_select r, rq_sort r with
                     | [], [] => match r_doc x with None => true | Some _ => false end
                     | _, _ => match r_doc x, sel (r_id x) with
                               | Some d, Some d' => doc_sim d d' && doc_sim d' d
                               | _, _ => false
                               end
                     end) rows) then 187 else
          match rq_sort r with
          | [] =>
              (* ranked first by hybrid descending, then the unranked ones *)
              let hs := if leaf_order then map k_hybrid ranked else sort_by desc_cmp (map k_hybrid ranked) in
              let fix chk (p : nat) (rows : list row) : N :=
                match rows with
                | [] => 0
                | x :: rest =>
                    if (p <? nr)%nat then
                      match rk_find (r_id x) ranked with
                      | None => 185
                      | Some _ => if hyb_close (f32_to_Q (r_hybrid x)) (nth p hs 0%Q) then chk (S p) rest else 188
                      end
                    else match rk_find (r_id x) ranked with
                         | Some _ => 185
                         | None => chk (S p) rest
                         end
                end in
              chk off rows
          | keys =>
              let all_ids := map k_id ranked ++ unranked in
              match map_opt (fun id => option_map (fun d => (id, d)) (sel id)) all_ids with
              | None => 291
              | Some all =>
                  let sorted := sort_by (fun a b => sort_cmp keys (snd a) (snd b)) all in
                  let fix chk (p : nat) (rows : list row) : N :=
                    match rows with
                    | [] => 0
                    | x :: rest =>
                        match sel (r_id x), nth_error sorted p with
                        | Some d, Some (_, d') => match sort_cmp keys d d' with Eq => chk (S p) rest | _ => 188 end
                        | _, _ => 291
                        end
                    end in
                  chk off rows
              end
          end
      end
  end.

(* a ranking leaf on its own: hybrid = weight x score (text), -(weight x distance) (vectors), for the weight the
   request carries -- an explicit 0 included -- and 1 when it carries none *)
Definition leaf_hybrid_ok (lr : request) (lo : qout) : bool :=
  match lo with
  | QError _ => true       (* judged as a failed contribution elsewhere *)
  | QRows rows =>
      match rq_query lr with
      | QFlat _ _ _ w _ | QVamana _ _ _ _ w _ =>
          forallb (fun x => match r_dist x with
                            | Some d => hyb_close (f32_to_Q (r_hybrid x)) (- (weight_q w * f32_to_Q d))%Q
                            | None => false
                            end) rows
      | QText _ _ _ _ w _ =>
          forallb (fun x => match r_score x with
                            | Some sc => hyb_close (f32_to_Q (r_hybrid x)) (weight_q w * f32_to_Q sc)%Q
                            | None => false
                            end) rows
      | _ => true
      end
  end.

(* walk the recorded requests: a composite request is followed by the standalone runs of its ranking leaves *)
Fixpoint judge_queries (fuel : nat) (sc : schema) (st : step) (qs : list (request * qout)) : N :=
  match fuel with
  | O => 0
  | S f =>
      match qs with
      | [] => 0
      | (r, o) :: rest =>
          let k := n_ranking (rq_query r) in
          let subs_o := map (fun ro => rows_of (snd ro)) (firstn k rest) in
          match map_opt (fun x => x) subs_o with
          | None => 291
          | Some subs =>
              if negb (length subs =? k)%nat then 291 else
              if negb (forallb (fun ro => leaf_hybrid_ok (fst ro) (snd ro)) (firstn k rest)) then 180 else
              let c := judge_composite sc st r o subs in
              if c =? 0 then judge_queries f sc st (skipn k rest) else c
          end
      end
  end.

Fixpoint judge_steps (sc : schema) (i : N) (steps : list step) : N :=
  match steps with
  | [] => 0
  | st :: rest =>
      match s_out st with
      | OCrash _ => 0
      | _ =>
          let c := judge_queries (S (length (s_queries st))) sc st (s_queries st) in
          if c =? 0 then judge_steps sc (i + 1) rest else c + 1000 * (i + 1)
      end
  end.

Definition verdict (h : hist) : N := judge_steps (h_schema h) 0 (h_steps h).

Fixpoint bad_from (i : N) (cs : list hist) : list (N * N) :=
  match cs with
  | [] => []
  | c :: r => let v := verdict c in
              if v =? 0 then bad_from (i + 1) r else (i, v) :: bad_from (i + 1) r
  end.
Definition bad (cs : list hist) : list (N * N) := bad_from 0 cs.
