(* Proofs_C07.v -- lemmas for C07 (a write batch is all-or-nothing). *)
From Coq Require Import List NArith Bool Arith Lia.
From Semadb Require Import Bytes Value Obs KeyLayout Model_C01 Proofs_C01 Model_C07.
Import ListNotations.
Local Open Scope nat_scope.

(* ======================= association lists ================================ *)
Lemma alookup_aremove {A} k k' (l : list (bytes * A)) :
  alookup k (aremove k' l) = if bytes_eqb k k' then None else alookup k l.
Proof.
  induction l as [|[k2 a] l IH]; cbn [aremove alookup].
  - destruct (bytes_eqb k k'); reflexivity.
  - destruct (bytes_eqb k' k2) eqn:E2.
    + apply bytes_eqb_eq in E2. subst k2. rewrite IH. destruct (bytes_eqb k k'); reflexivity.
    + cbn [alookup]. destruct (bytes_eqb k k2) eqn:E1; [|exact IH].
      destruct (bytes_eqb k k') eqn:E3; [|reflexivity].
      apply bytes_eqb_eq in E1, E3. subst. rewrite bytes_eqb_refl in E2. discriminate.
Qed.

Lemma alookup_aset {A} k k' (a : A) l :
  alookup k (aset k' a l) = if bytes_eqb k k' then Some a else alookup k l.
Proof.
  unfold aset. cbn [alookup]. destruct (bytes_eqb k k') eqn:E; [reflexivity|].
  rewrite alookup_aremove, E. reflexivity.
Qed.

Lemma alookup_In {A} k (l : list (bytes * A)) a : alookup k l = Some a -> In (k, a) l.
Proof.
  induction l as [|[k2 b] l IH]; cbn [alookup]; [discriminate|].
  destruct (bytes_eqb k k2) eqn:E; intros H.
  - apply bytes_eqb_eq in E. subst. inversion H. now left.
  - right. now apply IH.
Qed.

Lemma alookup_filter {A} (P : bytes -> bool) c (l : list (bytes * A)) :
  alookup c (filter (fun e => P (fst e)) l) = if P c then alookup c l else None.
Proof.
  induction l as [|[k a] l IH]; cbn [filter alookup fst].
  - destruct (P c); reflexivity.
  - destruct (P k) eqn:Pk; cbn [alookup].
    + destruct (bytes_eqb c k) eqn:E; [|exact IH].
      apply bytes_eqb_eq in E. subst. now rewrite Pk.
    + rewrite IH. destruct (bytes_eqb c k) eqn:E; [|reflexivity].
      apply bytes_eqb_eq in E. subst. now rewrite Pk.
Qed.

Lemma mem_In c l : mem c l = true <-> In c l.
Proof. apply existsb_bytes_In. Qed.
Lemma mem_notIn c l : mem c l = false <-> ~ In c l.
Proof. apply existsb_bytes_notIn. Qed.

(* ======================= the committed state and the overlay ============== *)
Lemma d_bucket_aset d b b' x : d_bucket (aset b x d) b' = if bytes_eqb b' b then x else d_bucket d b'.
Proof. unfold d_bucket. rewrite alookup_aset. destruct (bytes_eqb b' b); reflexivity. Qed.

Lemma d_get_put d b k v b' k' :
  d_get (d_put d b k v) b' k' = if bytes_eqb b' b && bytes_eqb k' k then Some v else d_get d b' k'.
Proof.
  unfold d_get, d_put. rewrite d_bucket_aset. destruct (bytes_eqb b' b) eqn:E; cbn [andb]; [|reflexivity].
  apply bytes_eqb_eq in E. subst. apply alookup_aset.
Qed.

Lemma d_get_del d b k b' k' :
  d_get (d_del d b k) b' k' = if bytes_eqb b' b && bytes_eqb k' k then None else d_get d b' k'.
Proof.
  unfold d_get, d_del. rewrite d_bucket_aset. destruct (bytes_eqb b' b) eqn:E; cbn [andb]; [|reflexivity].
  apply bytes_eqb_eq in E. subst. apply alookup_aremove.
Qed.

(* reading through the overlay: the latest write wins, untouched keys show the snapshot *)
Lemma materialize_get d ov b k :
  d_get (materialize d ov) b k = match ov_find b k ov with Some o => o | None => d_get d b k end.
Proof.
  induction ov as [|[[b' k'] [v|]] ov IH]; cbn [materialize fold_right apply_wr ov_find]; [reflexivity| |].
  - fold (materialize d ov). rewrite d_get_put. destruct (bytes_eqb b b' && bytes_eqb k k'); [reflexivity|exact IH].
  - fold (materialize d ov). rewrite d_get_del. destruct (bytes_eqb b b' && bytes_eqb k k'); [reflexivity|exact IH].
Qed.

Lemma ov_find_none b k ov : (forall k' o, ~ In (b, k', o) ov) -> ov_find b k ov = None.
Proof.
  induction ov as [|[[b' k'] o] ov IH]; intros H; cbn [ov_find]; [reflexivity|].
  destruct (bytes_eqb b b' && bytes_eqb k k') eqn:E.
  - apply andb_true_iff in E. destruct E as [E1 E2]. apply bytes_eqb_eq in E1, E2. subst.
    exfalso. apply (H k' o). now left.
  - apply IH. intros k2 o2 Hin. apply (H k2 o2). now right.
Qed.

(* ======================= observations ===================================== *)
Lemma observe_from_ext st1 st2 :
  (forall r, read1 st1 r = read1 st2 r) -> forall q v, observe_from st1 q v = observe_from st2 q v.
Proof.
  intros H q. induction q as [|f q IH]; intros v; cbn [observe_from]; [reflexivity|].
  rewrite H. apply IH.
Qed.

Lemma observe_ext st1 st2 : (forall r, read1 st1 r = read1 st2 r) -> forall q, observe st1 q = observe st2 q.
Proof. intros H q. unfold observe. now apply observe_from_ext. Qed.

(* a coherent warm instance answers like a cold one *)
Lemma read1_cold st r : coh st -> read1 (cold st) r = read1 st r.
Proof.
  intros Hc. destruct r as [b k|b]; cbn [read1 cold fst snd]; [|reflexivity].
  unfold usable at 1. cbn [alookup].
  destruct (usable (snd st) b) as [x|] eqn:U; [|reflexivity].
  destruct (alookup k x) as [o|] eqn:L; [|reflexivity].
  now rewrite (Hc b x U k o L).
Qed.

Lemma observe_cold st q : coh st -> observe (cold st) q = observe st q.
Proof. intros Hc. apply observe_ext. intros r. now apply read1_cold. Qed.

Lemma coh_cold d : coh (d, []).
Proof. intros c x U. unfold usable in U. cbn in U. discriminate. Qed.

(* ======================= boolean checkers ================================= *)
Lemma oval_eqb_eq a b : oval_eqb a b = true -> a = b.
Proof.
  destruct a as [x|], b as [y|]; cbn; try discriminate; [|reflexivity].
  intros H. apply bytes_eqb_eq in H. now subst.
Qed.

Lemma entries_okb_sound d c x :
  entries_okb d c x = true -> forall k o, alookup k x = Some o -> d_get d c k = o.
Proof.
  intros H k o L. apply alookup_In in L. unfold entries_okb in H. rewrite forallb_forall in H.
  apply (H _) in L. cbn [fst snd] in L. now apply oval_eqb_eq.
Qed.

Lemma usable_In cs c x : usable cs c = Some x -> In (c, (x, false)) cs.
Proof.
  unfold usable. destruct (alookup c cs) as [[y [|]]|] eqn:L; try discriminate.
  intros H. inversion H. subst. now apply alookup_In.
Qed.

Lemma cohb_sound st : cohb st = true -> coh st.
Proof.
  intros H c x U. apply usable_In in U. unfold cohb in H. rewrite forallb_forall in H.
  apply (H _) in U. cbn [fst snd orb] in U. now apply entries_okb_sound.
Qed.

Lemma mirrors_finalb_sound cs0 d t : mirrors_finalb cs0 d t = true -> mirrors_final cs0 d t.
Proof.
  unfold mirrors_finalb, mirrors_final. intros H. apply andb_true_iff in H. destruct H as [H1 H2].
  rewrite forallb_forall in H1, H2. split.
  - intros b k o Hin. apply (H1 _) in Hin. cbn [fst] in Hin. apply orb_true_iff in Hin.
    destruct Hin as [Hm|Hu]; [left; now apply mem_In|right].
    destruct (usable cs0 b); [discriminate|reflexivity].
  - intros c x Hw U. apply usable_In in U. apply (H2 _) in U. cbn [fst snd] in U.
    apply mem_In in Hw. rewrite Hw in U. cbn [negb orb] in U. now apply entries_okb_sound.
Qed.

Lemma mirrorsb_sound p st : mirrorsb p st = true -> mirrors p st.
Proof. apply mirrors_finalb_sound. Qed.

(* ======================= the frame of a running transaction =============== *)
(* a transaction changes only caches it has write access to *)
Definition frame (cs0 : caches) (t : txs) : Prop :=
  forall c, ~ In c (t_wr t) -> alookup c (t_cs t) = alookup c cs0.

Lemma frame_tx0 cs : frame cs (tx0 cs).
Proof. intros c _. reflexivity. Qed.

Lemma frame_touch cs0 t c x r : frame cs0 t -> frame cs0 (touch t c x r).
Proof.
  intros F c' Hn. cbn [touch t_wr t_cs] in *. rewrite alookup_aset.
  destruct (bytes_eqb c' c) eqn:E.
  - apply bytes_eqb_eq in E. subst. exfalso. apply Hn. now left.
  - apply F. intros Hin. apply Hn. now right.
Qed.

Lemma frame_exec d cs0 t o : frame cs0 t -> frame cs0 (exec_op d t o).
Proof.
  intros F. destruct o as [b k|b k v|b k|b|c k|c k o]; cbn [exec_op]; try exact F.
  - destruct (alookup k (cache_entries (t_cs t) c)); now apply frame_touch.
  - now apply frame_touch.
Qed.

Lemma frame_exec_all d cs0 p : forall t, frame cs0 t -> frame cs0 (exec_all d p t).
Proof.
  induction p as [|f p IH]; intros t F; cbn [exec_all]; [exact F|].
  apply IH. now apply frame_exec.
Qed.

Lemma frame_run d cs0 p : forall fault crash t, frame cs0 t ->
  match run_ops d fault crash p t with
  | RDone t' => frame cs0 t'
  | RFault t' _ _ => frame cs0 t'
  | RCrash => True
  end.
Proof.
  induction p as [|f p IH]; intros fault crash t F; cbn [run_ops]; [exact F|].
  destruct crash as [[|n]|]; [exact I| |];
    (destruct (failable (f (t_view t)));
     [destruct fault as [[|m]|]; [exact F| |]|]; apply IH; now apply frame_exec).
Qed.

Lemma run_ops_none d p : forall t, run_ops d None None p t = RDone (exec_all d p t).
Proof.
  induction p as [|f p IH]; intros t; cbn [run_ops exec_all dec]; [reflexivity|].
  destruct (failable (f (t_view t))); apply IH.
Qed.

Lemma run_ops_done d p : forall fault crash t t', run_ops d fault crash p t = RDone t' -> t' = exec_all d p t.
Proof.
  induction p as [|f p IH]; intros fault crash t t'; cbn [run_ops exec_all].
  - intros H. now inversion H.
  - destruct crash as [[|n]|]; [discriminate| |];
      (destruct (failable (f (t_view t)));
       [destruct fault as [[|m]|]; [discriminate| |]|]; apply IH).
Qed.

(* ======================= abort = as if never issued ======================= *)
Lemma usable_scrap cs0 t c : frame cs0 t ->
  usable (scrap (t_wr t) (t_cs t)) c = if mem c (t_wr t) then None else usable cs0 c.
Proof.
  intros F. unfold usable, scrap.
  rewrite (alookup_filter (fun c => negb (mem c (t_wr t)))).
  destruct (mem c (t_wr t)) eqn:M; cbn [negb]; [reflexivity|].
  apply mem_notIn in M. now rewrite (F c M).
Qed.

Lemma abort_obs st t : coh st -> frame (snd st) t ->
  coh (fst st, scrap (t_wr t) (t_cs t)) /\
  forall r, read1 (fst st, scrap (t_wr t) (t_cs t)) r = read1 st r.
Proof.
  intros Hc F. split.
  - intros c x U. cbn [fst snd] in *. rewrite (usable_scrap _ _ _ F) in U.
    destruct (mem c (t_wr t)); [discriminate|]. now apply Hc.
  - intros [b k|b]; cbn [read1 fst snd]; [|reflexivity].
    rewrite (usable_scrap _ _ _ F).
    destruct (mem b (t_wr t)); [|reflexivity].
    destruct (usable (snd st) b) as [x|] eqn:U; [|reflexivity].
    destruct (alookup k x) as [o|] eqn:L; [|reflexivity].
    now rewrite (Hc b x U k o L).
Qed.

Lemma abort_unchanged st t : coh st -> frame (snd st) t ->
  unchanged st (fst st) (scrap (t_wr t) (t_cs t)).
Proof.
  intros Hc F. destruct (abort_obs st t Hc F) as [C R].
  split; [reflexivity|]. split; [exact C|]. split.
  - intros q. now apply observe_ext.
  - intros q. apply (observe_cold st q Hc).
Qed.

Lemma aborted_unchanged st p fault linger crash d' cs' : coh st ->
  run_tx fault linger crash p st = Aborted d' cs' -> unchanged st d' cs'.
Proof.
  intros Hc. unfold run_tx.
  pose proof (frame_run (fst st) (snd st) p fault (crash_at crash) (tx0 (snd st)) (frame_tx0 _)) as F1.
  destruct (run_ops (fst st) fault (crash_at crash) p (tx0 (snd st))) as [t|t r c'|].
  - destruct crash as [[k| |]|]; discriminate.
  - pose proof (frame_run (fst st) (snd st) (firstn linger r) None c' t F1) as F2.
    destruct (run_ops (fst st) None c' (firstn linger r) t) as [t'|t' r' c2|]; [| |discriminate];
      unfold abort; intros H; inversion H; subst; now apply abort_unchanged.
  - discriminate.
Qed.

(* without a kill the run ends in RDone or RFault (with no kill pending) *)
Lemma run_ops_nocrash d p : forall fault t,
  match run_ops d fault None p t with
  | RCrash => False
  | RFault _ _ c' => c' = None
  | RDone _ => True
  end.
Proof.
  induction p as [|f p IH]; intros fault t; cbn [run_ops dec]; [exact I|].
  destruct (failable (f (t_view t))).
  - destruct fault as [[|m]|]; [reflexivity| |]; apply IH.
  - apply IH.
Qed.

(* ---- c07_fault_atomic ---- *)
Lemma fault_atomic st p k linger : coh st ->
  match run_tx (Some k) linger None p st with
  | Aborted d' cs' => unchanged st d' cs'                              (* the fault fired *)
  | Committed d' cs' => run_tx None linger None p st = Committed d' cs' (* fewer than k+1 failable operations *)
  | Crashed _ => False
  end.
Proof.
  intros Hc. destruct (run_tx (Some k) linger None p st) as [d' cs'|d' cs'|file] eqn:E.
  - revert E. unfold run_tx. cbn [crash_at].
    destruct (run_ops (fst st) (Some k) None p (tx0 (snd st))) as [t|t r c'|] eqn:R.
    + intros E. apply run_ops_done in R. subst t. now rewrite run_ops_none.
    + destruct (run_ops (fst st) None c' (firstn linger r) t); discriminate.
    + discriminate.
  - now apply (aborted_unchanged st p (Some k) linger None).
  - revert E. unfold run_tx. cbn [crash_at].
    pose proof (run_ops_nocrash (fst st) p (Some k) (tx0 (snd st))) as NC.
    destruct (run_ops (fst st) (Some k) None p (tx0 (snd st))) as [t|t r c'|] eqn:R.
    + discriminate.
    + subst c'. rewrite run_ops_none. discriminate.
    + contradiction.
Qed.

Lemma fault_fires d p : forall k t, k < count_failable d p t ->
  exists t' r c', run_ops d (Some k) None p t = RFault t' r c'.
Proof.
  induction p as [|f p IH]; intros k t Hk; cbn [count_failable] in Hk; [lia|].
  cbn [run_ops dec]. destruct (failable (f (t_view t))).
  - destruct k as [|k]; [now eexists _, _, _|]. apply IH. lia.
  - apply IH. lia.
Qed.

Lemma fault_fires_aborts st p k linger :
  k < count_failable (fst st) p (tx0 (snd st)) ->
  exists d' cs', run_tx (Some k) linger None p st = Aborted d' cs'.
Proof.
  intros Hk. destruct (fault_fires _ _ _ _ Hk) as (t' & r & c' & R).
  pose proof (run_ops_nocrash (fst st) p (Some k) (tx0 (snd st))) as NC. rewrite R in NC. subst c'.
  unfold run_tx. cbn [crash_at]. rewrite R, run_ops_none. unfold abort. now eexists _, _.
Qed.

(* ---- c07_crash_atomic ---- *)
Lemma crash_atomic st p fault linger cp file : coh st ->
  run_tx fault linger (Some cp) p st = Crashed file ->
  match cp with
  | AfterCommit =>
      exists d' cs', run_tx fault linger None p st = Committed d' cs' /\ file = d' /\
                     forall q, observe (recover file) q = observe (cold (d', cs')) q
  | _ => file = fst st /\ forall q, observe (recover file) q = observe st q
  end.
Proof.
  intros Hc. unfold run_tx.
  assert (Old : forall f, Crashed (fst st) = Crashed f ->
                f = fst st /\ forall q, observe (recover f) q = observe st q).
  { intros f H. inversion H. split; [reflexivity|]. intros q. apply (observe_cold st q Hc). }
  destruct cp as [k| |]; cbn [crash_at].
  - destruct (run_ops (fst st) fault (Some k) p (tx0 (snd st))) as [t|t r c'|].
    + discriminate.
    + destruct (run_ops (fst st) None c' (firstn linger r) t); unfold abort; try discriminate. apply Old.
    + apply Old.
  - destruct (run_ops (fst st) fault None p (tx0 (snd st))) as [t|t r c'|].
    + apply Old.
    + destruct (run_ops (fst st) None c' (firstn linger r) t); unfold abort; try discriminate. apply Old.
    + apply Old.
  - pose proof (run_ops_nocrash (fst st) p fault (tx0 (snd st))) as NC.
    destruct (run_ops (fst st) fault None p (tx0 (snd st))) as [t|t r c'|].
    + intros H. inversion H. eexists _, _. split; [reflexivity|]. split; reflexivity.
    + subst c'. rewrite run_ops_none. unfold abort. discriminate.
    + contradiction.
Qed.

Lemma crash_old_or_new st p fault linger cp file : coh st ->
  run_tx fault linger (Some cp) p st = Crashed file ->
  file = fst st \/
  (cp = AfterCommit /\ exists cs', run_tx fault linger None p st = Committed file cs').
Proof.
  intros Hc H. pose proof (crash_atomic st p fault linger cp file Hc H) as C.
  destruct cp as [k| |].
  - left. apply C.
  - left. apply C.
  - right. split; [reflexivity|]. destruct C as (d' & cs' & R & E & _). subst. now exists cs'.
Qed.

(* ---- c07_success_visible ---- *)
Lemma committed_is_final st p fault linger crash d' cs' :
  run_tx fault linger crash p st = Committed d' cs' ->
  d' = materialize (fst st) (tx_writes p st) /\ cs' = t_cs (tx_final p st).
Proof.
  unfold run_tx.
  destruct (run_ops (fst st) fault (crash_at crash) p (tx0 (snd st))) as [t|t r c'|] eqn:R.
  - apply run_ops_done in R. subst t.
    destruct crash as [[k| |]|]; try discriminate; intros H; inversion H; split; reflexivity.
  - destruct (run_ops (fst st) None c' (firstn linger r) t); discriminate.
  - discriminate.
Qed.

Lemma coh_commit st p : coh st -> mirrors p st ->
  coh (materialize (fst st) (tx_writes p st), t_cs (tx_final p st)).
Proof.
  intros Hc [M1 M2] c x U k o L. cbn [fst snd] in *.
  pose proof (frame_exec_all (fst st) (snd st) p (tx0 (snd st)) (frame_tx0 _)) as F.
  fold (tx_final p st) in F.
  destruct (mem c (t_wr (tx_final p st))) eqn:M.
  - apply mem_In in M. exact (M2 c x M U k o L).
  - apply mem_notIn in M.
    assert (U0 : usable (snd st) c = Some x).
    { unfold usable in *. now rewrite <- (F c M). }
    unfold tx_writes. rewrite materialize_get, ov_find_none.
    + exact (Hc c x U0 k o L).
    + intros k' o' Hin. destruct (M1 c k' o' Hin) as [Hw|Hu]; [now apply M|].
      rewrite Hu in U0. discriminate.
Qed.

Lemma success_visible st p fault linger crash d' cs' : coh st -> mirrors p st ->
  run_tx fault linger crash p st = Committed d' cs' ->
  d' = materialize (fst st) (tx_writes p st) /\
  (forall b k, d_get d' b k = match ov_find b k (tx_writes p st) with
                              | Some o => o                    (* the batch's latest write to (b,k) *)
                              | None => d_get (fst st) b k     (* untouched *)
                              end) /\
  coh (d', cs') /\
  (forall q, observe (d', cs') q = observe (recover d') q).
Proof.
  intros Hc M H. apply committed_is_final in H. destruct H as [-> ->].
  split; [reflexivity|]. split; [intros b k; apply materialize_get|].
  pose proof (coh_commit st p Hc M) as C. split; [exact C|].
  intros q. symmetry. apply (observe_cold _ q C).
Qed.

(* crash right after commit + the discipline: the reopened file answers like the instance that would have survived *)
Lemma crash_after_commit_visible st p fault linger file : coh st -> mirrors p st ->
  run_tx fault linger (Some AfterCommit) p st = Crashed file ->
  exists cs', run_tx fault linger None p st = Committed file cs' /\
              forall q, observe (recover file) q = observe (file, cs') q.
Proof.
  intros Hc M H. destruct (crash_atomic st p fault linger AfterCommit file Hc H) as (d' & cs' & R & E & _).
  subst d'. exists cs'. split; [exact R|]. intros q. symmetry.
  now apply (success_visible st p fault linger None file cs' Hc M R).
Qed.

(* ---- c07_rejections ---- *)
Lemma rejected_unchanged st p k : coh st ->
  exists cs', run_reject k p st = Aborted (fst st) cs' /\ unchanged st (fst st) cs'.
Proof.
  intros Hc. unfold run_reject, abort. eexists. split; [reflexivity|].
  apply abort_unchanged; [exact Hc|]. apply frame_exec_all. apply frame_tx0.
Qed.

Lemma update_go_kinds sc maxsize ps : forall s s' ids es,
  update_go sc maxsize ps s = (s', ids, es) -> forall e, In e es -> e = ERR_SIZE \/ e = ERR_TYPE.
Proof.
  induction ps as [|[id inc] r IH]; intros s s' ids es H e He; cbn [update_go] in H.
  - inversion H. subst. contradiction.
  - destruct (st_get id s) as [old|]; [|eapply IH; eauto].
    destruct (update_go sc maxsize r (st_set id (merge_doc delete_value old inc) s)) as [[s1 ids1] es1] eqn:E.
    inversion H. subst. apply in_app_or in He. destruct He as [He|He]; [|eapply IH; eauto].
    apply in_app_or in He. destruct He as [He|He].
    + destruct (N.ltb maxsize (doc_size (merge_doc delete_value old inc))); [|contradiction].
      destruct He as [<-|[]]. now left.
    + destruct (well_typed sc (merge_doc delete_value old inc)); [contradiction|].
      destruct He as [<-|[]]. now right.
Qed.

Lemma spec_err_kinds sc maxsize b s es :
  snd (apply_spec sc maxsize b s) = SErr es ->
  es <> [] /\ forall e, In e es -> In e [ERR_DUP; ERR_EXISTS; ERR_SIZE; ERR_TYPE].
Proof.
  destruct b as [ps|ps|ids]; cbn [apply_spec].
  - unfold insert_spec. destruct (has_dup (map fst ps)).
    + cbn. intros H. inversion H. split; [discriminate|]. intros e [<-|[]]. now left.
    + destruct (existsb (fun p => st_mem (fst p) s) ps); destruct (forallb (fun p => well_typed sc (snd p)) ps);
        cbn; intros H; inversion H; (split; [discriminate|]); intros e He; cbn in He; cbn; intuition.
  - unfold update_spec. destruct (update_go sc maxsize ps s) as [[s1 ids1] es1] eqn:E.
    destruct es1 as [|e1 es1]; cbn; [discriminate|]. intros H. inversion H. subst. split; [discriminate|].
    intros e He. destruct (update_go_kinds _ _ _ _ _ _ _ E e He) as [->| ->]; cbn; intuition.
  - unfold delete_spec. discriminate.
Qed.

Lemma rejections sc maxsize b s es compile k st : coh st ->
  snd (apply_spec sc maxsize b s) = SErr es ->
  es <> [] /\ (forall e, In e es -> In e [ERR_DUP; ERR_EXISTS; ERR_SIZE; ERR_TYPE]) /\
  fst (apply_spec sc maxsize b s) = s /\
  exists cs', run_batch sc maxsize b s compile k st = Aborted (fst st) cs' /\ unchanged st (fst st) cs'.
Proof.
  intros Hc H. destruct (spec_err_kinds _ _ _ _ _ H) as [N K].
  split; [exact N|]. split; [exact K|]. split; [now apply (spec_rejected_unchanged sc maxsize b s es)|].
  unfold run_batch. rewrite H. now apply rejected_unchanged.
Qed.

Lemma rejected_kind sc maxsize b s es kind compile k st : coh st ->
  In kind [ERR_DUP; ERR_EXISTS; ERR_SIZE; ERR_TYPE] ->
  snd (apply_spec sc maxsize b s) = SErr es -> In kind es ->
  fst (apply_spec sc maxsize b s) = s /\
  exists cs', run_batch sc maxsize b s compile k st = Aborted (fst st) cs' /\ unchanged st (fst st) cs'.
Proof. intros Hc _ H _. now apply (rejections sc maxsize b s es compile k st Hc H). Qed.

(* ---- stragglers ---- *)
Lemma straggle1_fixed s o : y_done s = true -> straggle1 true s o = s.
Proof. intros H. unfold straggle1. now rewrite H. Qed.

Lemma straggle_fixed s ops : y_done s = true -> straggle true s ops = s.
Proof.
  intros H. unfold straggle. induction ops as [|o ops IH]; cbn [fold_left]; [reflexivity|].
  now rewrite straggle1_fixed.
Qed.

Lemma sys_after_done o s : sys_after o = Some s ->
  y_done s = true /\ y_locked s = [] /\ y_alive s = true /\
  (o = Committed (y_disk s) (y_caches s) \/ o = Aborted (y_disk s) (y_caches s)).
Proof.
  destruct o as [d cs|d cs|f]; cbn [sys_after]; intros H; inversion H; cbn; auto.
Qed.

Lemma find_false {A} (l : list A) : find (fun _ => false) l = None.
Proof. induction l; cbn; auto. Qed.

Lemma straggler_harmless st p fault linger crash s ops p2 :
  sys_after (run_tx fault linger crash p st) = Some s ->
  straggle true s ops = s /\
  next_tx (straggle true s ops) p2 = Ran (run_tx None 0 None p2 (y_disk s, y_caches s)).
Proof.
  intros H. apply sys_after_done in H. destruct H as (D & L & A & _).
  rewrite (straggle_fixed s ops D). split; [reflexivity|].
  unfold next_tx. rewrite A, L. cbn [negb mem existsb]. now rewrite find_false.
Qed.

(* a faulted batch followed by any stragglers: still as if never issued *)
Lemma fault_then_stragglers st p fault linger crash d' cs' ops : coh st ->
  run_tx fault linger crash p st = Aborted d' cs' ->
  exists s, sys_after (Aborted d' cs') = Some s /\
    let s' := straggle true s ops in
    y_alive s' = true /\ y_locked s' = [] /\ unchanged st (y_disk s') (y_caches s').
Proof.
  intros Hc H. eexists. split; [reflexivity|]. cbv zeta.
  rewrite straggle_fixed by reflexivity. cbn [y_alive y_locked y_disk y_caches].
  split; [reflexivity|]. split; [reflexivity|]. now apply (aborted_unchanged st p fault linger crash).
Qed.

(* ---- the in-memory backend agrees on successful batches ---- *)
Lemma mem_success st p fault linger d' cs' :
  run_tx_mem fault linger p st = Committed d' cs' <-> run_tx fault linger None p st = Committed d' cs'.
Proof.
  unfold run_tx_mem, run_tx. cbn [crash_at].
  destruct (run_ops (fst st) fault None p (tx0 (snd st))) as [t|t r c'|].
  - reflexivity.
  - destruct (run_ops (fst st) None c' (firstn linger r) t); unfold abort, abort_mem; split; discriminate.
  - split; discriminate.
Qed.

(* ======================= write-through implies mirrors ==================== *)
Lemma d_get_apply_wr cur b k o c k' :
  d_get (apply_wr (b, k, o) cur) c k' = if bytes_eqb c b && bytes_eqb k' k then o else d_get cur c k'.
Proof. destruct o as [v|]; cbn [apply_wr]; [apply d_get_put|apply d_get_del]. Qed.

Lemma usable_aset cs c x c' :
  usable (aset c (x, false) cs) c' = if bytes_eqb c' c then Some x else usable cs c'.
Proof. unfold usable. rewrite alookup_aset. destruct (bytes_eqb c' c); reflexivity. Qed.

Definition tinv (cs0 : caches) (d : disk) (t : txs) : Prop :=
  mirrors_final cs0 d t /\ frame cs0 t.

Lemma tinv_view cs0 d t v : tinv cs0 d t -> tinv cs0 d (mkT (t_ov t) (t_cs t) (t_wr t) v).
Proof. intros H. exact H. Qed.

(* whatever the transaction finds in cache c -- its own, a shared one, a fresh one -- agrees with its view *)
Lemma entries_sync cs0 d t c : coh (d, cs0) -> tinv cs0 d t ->
  forall k o, alookup k (cache_entries (t_cs t) c) = Some o -> d_get (materialize d (t_ov t)) c k = o.
Proof.
  intros Hc [[G S] F] k o L. unfold cache_entries in L.
  destruct (usable (t_cs t) c) as [x|] eqn:U; [|discriminate].
  destruct (mem c (t_wr t)) eqn:M.
  - apply mem_In in M. exact (S c x M U k o L).
  - apply mem_notIn in M.
    assert (U0 : usable cs0 c = Some x) by (unfold usable in *; now rewrite <- (F c M)).
    rewrite materialize_get, ov_find_none.
    + exact (Hc c x U0 k o L).
    + intros k' o' Hin. destruct (G c k' o' Hin) as [Hw|Hu]; [now apply M|]. rewrite Hu in U0. discriminate.
Qed.

Lemma tinv_touch_same cs0 d t c x r : coh (d, cs0) -> tinv cs0 d t ->
  (forall k o, alookup k x = Some o -> d_get (materialize d (t_ov t)) c k = o) ->
  tinv cs0 d (touch t c x r).
Proof.
  intros Hc [[G S] F] Hx. split; [split|now apply frame_touch]; cbn [touch t_ov t_cs t_wr].
  - intros b k o Hin. destruct (G b k o Hin) as [H|H]; [left; now right|now right].
  - intros c' x' Hw U k o L. rewrite usable_aset in U.
    destruct (bytes_eqb c' c) eqn:E.
    + apply bytes_eqb_eq in E. subst c'. inversion U. subst x'. now apply Hx.
    + destruct Hw as [Hw|Hw]; [subst c'; rewrite bytes_eqb_refl in E; discriminate|].
      exact (S c' x' Hw U k o L).
Qed.

Lemma tinv_cget cs0 d t c k : coh (d, cs0) -> tinv cs0 d t -> tinv cs0 d (exec_op d t (CGet c k)).
Proof.
  intros Hc I. cbn [exec_op]. pose proof (entries_sync cs0 d t c Hc I) as ES.
  destruct (alookup k (cache_entries (t_cs t) c)) as [o|] eqn:L.
  - now apply tinv_touch_same.
  - apply tinv_touch_same; [exact Hc|exact I|]. intros k' o' L'. rewrite alookup_aset in L'.
    destruct (bytes_eqb k' k) eqn:E; [|now apply ES].
    apply bytes_eqb_eq in E. subst k'. now inversion L'.
Qed.

(* CPut c k o immediately followed by the bucket write of the same entry *)
Lemma tinv_wpair cs0 d t c k o v1 v2 : coh (d, cs0) -> tinv cs0 d t ->
  tinv cs0 d (mkT ((c, k, o) :: t_ov t)
                  (aset c (aset k o (cache_entries (t_cs t) c), false) (t_cs t))
                  (c :: t_wr t) (v2 :: v1 :: t_view t)).
Proof.
  intros Hc I. pose proof (entries_sync cs0 d t c Hc I) as ES. destruct I as [[G S] F].
  split; [split|]; cbn [t_ov t_cs t_wr].
  - intros b k' o' [Hin|Hin]; [inversion Hin; subst; left; now left|].
    destruct (G b k' o' Hin) as [H|H]; [left; now right|now right].
  - intros c' x' Hw U k' o' L. cbn [materialize fold_right]. fold (materialize d (t_ov t)).
    rewrite d_get_apply_wr. rewrite usable_aset in U.
    destruct (bytes_eqb c' c) eqn:E; cbn [andb].
    + apply bytes_eqb_eq in E. subst c'. inversion U. subst x'. rewrite alookup_aset in L.
      destruct (bytes_eqb k' k); [now inversion L|now apply ES].
    + destruct Hw as [Hw|Hw]; [subst c'; rewrite bytes_eqb_refl in E; discriminate|].
      exact (S c' x' Hw U k' o' L).
  - intros c' Hn. cbn [t_wr t_cs] in *. rewrite alookup_aset.
    destruct (bytes_eqb c' c) eqn:E.
    + apply bytes_eqb_eq in E. subst. exfalso. apply Hn. now left.
    + apply F. intros Hin. apply Hn. now right.
Qed.

(* a write to a bucket that has no usable shared cache and whose cache the transaction has not opened *)
Lemma tinv_raw cs0 d t b k o v : tinv cs0 d t -> ~ In b (t_wr t) -> usable cs0 b = None ->
  tinv cs0 d (mkT ((b, k, o) :: t_ov t) (t_cs t) (t_wr t) v).
Proof.
  intros [[G S] F] Hn Hu. split; [split|exact F]; cbn [t_ov t_cs t_wr].
  - intros b' k' o' [Hin|Hin]; [inversion Hin; subst; now right|now apply (G b' k' o')].
  - intros c x Hw U k' o' L. cbn [materialize fold_right]. fold (materialize d (t_ov t)).
    rewrite d_get_apply_wr.
    destruct (bytes_eqb c b) eqn:E; cbn [andb]; [|exact (S c x Hw U k' o' L)].
    apply bytes_eqb_eq in E. subst. contradiction.
Qed.

Lemma write_through_inv cs0 d : coh (d, cs0) -> forall n p, length p <= n -> forall t,
  tinv cs0 d t -> write_through cs0 d p t = true -> tinv cs0 d (exec_all d p t).
Proof.
  intros Hc. induction n as [|n IH]; intros p Hn t I W.
  - destruct p; [exact I|cbn in Hn; lia].
  - destruct p as [|f r]; [exact I|]. cbn [length] in Hn. cbn [write_through] in W. cbn [exec_all].
    destruct (f (t_view t)) as [b k|b k v|b k|b|c k|c k o] eqn:Ef.
    + apply IH; [lia| |exact W]. cbn [exec_op]. now apply tinv_view.
    + apply andb_true_iff in W. destruct W as [W W2]. apply andb_true_iff in W. destruct W as [W0 W1].
      apply negb_true_iff, mem_notIn in W0.
      apply IH; [lia| |exact W2]. cbn [exec_op]. apply tinv_raw; [exact I|exact W0|].
      destruct (usable cs0 b); [discriminate|reflexivity].
    + apply andb_true_iff in W. destruct W as [W W2]. apply andb_true_iff in W. destruct W as [W0 W1].
      apply negb_true_iff, mem_notIn in W0.
      apply IH; [lia| |exact W2]. cbn [exec_op]. apply tinv_raw; [exact I|exact W0|].
      destruct (usable cs0 b); [discriminate|reflexivity].
    + apply IH; [lia| |exact W]. cbn [exec_op]. now apply tinv_view.
    + apply IH; [lia| |exact W]. now apply tinv_cget.
    + destruct r as [|g r']; [discriminate|]. cbn [length] in Hn. cbn [exec_all].
      apply andb_true_iff in W. destruct W as [W1 W2].
      apply IH; [lia| |exact W2].
      destruct (g (t_view (exec_op d t (CPut c k o)))) as [b2 k2|b2 k2 v2|b2 k2|b2|c2 k2|c2 k2 o2]; try discriminate.
      * destruct o as [v'|]; [|discriminate].
        apply andb_true_iff in W1. destruct W1 as [W1 Wv]. apply andb_true_iff in W1. destruct W1 as [Wb Wk].
        apply bytes_eqb_eq in Wb, Wk, Wv. subst. cbn [exec_op touch t_ov t_cs t_wr t_view].
        now apply tinv_wpair.
      * destruct o as [v'|]; [discriminate|].
        apply andb_true_iff in W1. destruct W1 as [Wb Wk].
        apply bytes_eqb_eq in Wb, Wk. subst. cbn [exec_op touch t_ov t_cs t_wr t_view].
        now apply tinv_wpair.
Qed.

Lemma write_through_mirrors st p : coh st ->
  write_through (snd st) (fst st) p (tx0 (snd st)) = true -> mirrors p st.
Proof.
  intros Hc W. destruct st as [d cs0]. cbn [fst snd] in *.
  apply (write_through_inv cs0 d Hc (length p) p (le_n _) (tx0 cs0)); [|exact W].
  split; [split|apply frame_tx0]; cbn [tx0 t_ov t_wr]; [intros ? ? ? []|intros ? ? []].
Qed.

Lemma success_visible_write_through st p fault linger crash d' cs' : coh st ->
  write_through (snd st) (fst st) p (tx0 (snd st)) = true ->
  run_tx fault linger crash p st = Committed d' cs' ->
  d' = materialize (fst st) (tx_writes p st) /\
  coh (d', cs') /\
  (forall q, observe (d', cs') q = observe (recover d') q).
Proof.
  intros Hc W H. pose proof (write_through_mirrors st p Hc W) as M.
  destruct (success_visible st p fault linger crash d' cs' Hc M H) as (A & _ & C & D). auto.
Qed.
