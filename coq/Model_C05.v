(* Model_C05.v -- text search reference: the corpus derived from the stored
   documents and the analysed tokens, matching, tf-idf components. Definitions only. *)
From Coq Require Import List NArith ZArith QArith Bool.
From Semadb Require Import Bytes Value Obs Dyadic Model_C01 Model_C02 Model_C04.
Import ListNotations.
Open Scope N_scope.

Fixpoint tokens_of (s : bytes) (t : list (bytes * list bytes)) : option (list bytes) :=
  match t with
  | [] => None
  | (k, v) :: r => if bytes_eqb s k then Some v else tokens_of s r
  end.
Fixpoint find_tokens (xs : list extra) : list (bytes * list bytes) :=
  match xs with
  | [] => []
  | XTokens m :: r => m ++ find_tokens r
  | _ :: r => find_tokens r
  end.
Fixpoint find_logs (xs : list extra) : list (N * N * N) :=
  match xs with
  | [] => []
  | XLogs m :: r => m ++ find_logs r
  | _ :: r => find_logs r
  end.

(* an indexed text document: id, its token list (non-empty) *)
Record tdoc := mkTdoc { td_id : uuid; td_tokens : list bytes }.

(* the corpus: every live point whose text field analyses to at least one token.
   None = a token list is missing from the table *)
Fixpoint corpus (path : bytes) (tk : list (bytes * list bytes)) (live : store) : option (list tdoc) :=
  match live with
  | [] => Some []
  | (id, d) :: r =>
      match corpus path tk r with
      | None => None
      | Some rest =>
          match prop_value path d with
          | QFound (VStr s) =>
              match tokens_of s tk with
              | None => None
              | Some [] => Some rest
              | Some toks => Some (mkTdoc id toks :: rest)
              end
          | _ => Some rest
          end
      end
  end.

Fixpoint dedup_b (l : list bytes) : list bytes :=
  match l with [] => [] | x :: r => if mem_bytes x r then dedup_b r else x :: dedup_b r end.
Definition freq (t : bytes) (toks : list bytes) : N := N.of_nat (length (filter (bytes_eqb t) toks)).
Definition doc_freq (t : bytes) (c : list tdoc) : N :=
  N.of_nat (length (filter (fun d => mem_bytes t (td_tokens d)) c)).

(* containsAll = 8, containsAny = 9. A query with zero terms matches nothing. *)
Definition text_matches (op : N) (terms : list bytes) (d : tdoc) : bool :=
  match terms with
  | [] => false
  | _ => if op =? OP_ALL then forallb (fun t => mem_bytes t (td_tokens d)) terms
         else existsb (fun t => mem_bytes t (td_tokens d)) terms
  end.

Fixpoint log_of (n df : N) (logs : list (N * N * N)) : option Q :=
  match logs with
  | [] => None
  | (a, b, l) :: r => if (a =? n) && (b =? df) then Some (f64_to_Q l) else log_of n df r
  end.

(* tf-idf reference score of a document, exact in Q given the table of logarithms *)
Definition score_ref (terms : list bytes) (c : list tdoc) (logs : list (N * N * N)) (d : tdoc) : option Q :=
  let n := N.of_nat (length c) in
  let len := N.of_nat (length (td_tokens d)) in
  fold_right (fun t acc =>
                match acc, log_of n (doc_freq t c) logs with
                | Some a, Some l => Some (a + (Qmake (Z.of_N (freq t (td_tokens d))) (Z.to_pos (Z.of_N len))) * l)%Q
                | _, _ => None
                end) (Some 0%Q) terms.

Definition row_score (r : row) : option Q := option_map f32_to_Q (r_score r).

(* 0 ok; 1 duplicates; 2 a row that does not match; 3 missing score; 4 score differs from tf-idf;
   5 wrong number of rows; 6 not in non-increasing score order; 7 a higher scoring match was left out;
   8 hybrid score wrong; 9 distance present *)
Definition text_code (limit : N) (w : option N) (cands : list (uuid * Q)) (rows : list row) : N :=
  let ids := map r_id rows in
  let tol := (1 # 10000)%Q in
  let find := fix f (id : uuid) (l : list (uuid * Q)) := match l with [] => None | (k, v) :: r => if bytes_eqb id k then Some v else f id r end in
  if negb (nodup_ids ids) then 1 else
  if negb (forallb (fun r => match find (r_id r) cands with Some _ => true | None => false end) rows) then 2 else
  if negb (forallb (fun r => match r_score r with Some b => f32_finite b | None => false end) rows) then 3 else
  if negb (forallb (fun r => match find (r_id r) cands, row_score r with
                            | Some s, Some x => Qclose_rel tol x s | _, _ => false end) rows) then 4 else
  if negb (N.of_nat (length rows) =? N.min limit (N.of_nat (length cands))) then 5 else
  let ss := flat_map (fun r => match row_score r with Some s => [s] | None => [] end) rows in
  if negb (sorted_q (rev ss)) then 6 else
  let worst := last ss 0%Q in
  if negb (forallb (fun c => mem_bytes (fst c) ids || Qleb (snd c) (worst + tol * (1 + Qabs' worst))) cands) then 7 else
  if negb (forallb (fun r => match row_score r with
                            | Some s => Qclose_rel (1 # 1000000) (f32_to_Q (r_hybrid r)) (weight_q w * s)
                            | None => false end) rows) then 8 else
  if negb (forallb (fun r => match r_dist r with None => true | Some _ => false end) rows) then 9 else 0.
