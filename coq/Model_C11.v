(* Model_C11.v -- executable small-step model of /repo/shard/cache/manager.go
   (Manager, Transaction.With, Transaction.Commit, checkAndPrune, Release).
   Definitions only.

   State: the manager map (name -> element id), the manager mutex, a heap of
   elements (sharedCacheElem: RW lock = announced/holding writer + the list of
   transactions holding a read lock, scrapped flag, lastAccessed as a logical
   clock, and -- to observe staleness -- the committed storage version the
   element was built from), the storage version per name (bumped when a writing
   transaction commits successfully: the bbolt commit that precedes
   cacheTx.Commit(false) in shard.go), and per transaction: remaining program,
   program counter inside With (phase), writtenCaches, failed, done.

   A transaction is a SEQUENTIAL program (one goroutine): a list of
   With(name, readOnly, outcome) and Commit(fail).  With is split at its real
   atomic boundaries, one model step each:
     S1  manager-lock section: lookup, lastAccessed                 PIdle -> PLock
         new path: the lock stays held over createFn                PIdle -> PCreate -> PReady
     S2  TryRLock (never blocks: lock or private copy) /            PLock -> PScrap | PReady
         Lock: announce (rw.w + readerCount, enabled iff no writer) PLock -> PWait
               wait for the readers to drain (enabled iff none)     PWait -> PScrap
     S3  scrapped check (temporary private copy when scrapped)      PScrap -> PReady
     S4  callback begin / end                                       PReady -> PIn -> PRet | PErr
     S5  error path: failed, scrapped (at callback end), then the
         manager-lock section deleting the NAME                     PErr -> PRet
     S6  deferred calls in LIFO order: checkAndPrune / RUnlock      PRet -> PRet -> PIdle
     Commit: one step (one manager-lock section).
   Environment: LDel n = Manager.Release(n), or an eviction caused by traffic
   that is not one of the modelled transactions; enabled whenever the manager
   mutex is free.

   `fixed` selects the version of With: true = current tree (commit 1944012:
   a writing With after Commit is refused), false = the pinned version.

   Not modelled (outside the quantifier of C11): several goroutines of ONE
   transaction inside With at the same time (t.mu), a second Commit of the same
   transaction (a Go runtime fatal error), spurious failure of TryRLock. *)
From Coq Require Import List Arith Bool ZArith Lia PeanoNat.
Import ListNotations.

Definition name := nat.
Definition eid := nat.
Definition tid := nat.

Inductive outcome := OK | CbFail | ConsFail.
Inductive op := OWith (n : name) (ro : bool) (oc : outcome) | OCommit (fail : bool).

Record elem := mkE {
  e_name : name;              (* the name it was created for *)
  e_owner : option tid;       (* Some t: never registered (private cold copy / limit 0), used by t only *)
  e_writer : option tid;      (* rw.w held + writer announced to readers (TryRLock fails from here on) *)
  e_wheld : bool;             (* the writer owns the lock (readers have drained) *)
  e_readers : list tid;       (* holders of a read lock *)
  e_scrapped : bool;
  e_built : nat;              (* storage version of its name it reflects *)
  e_last : nat }.             (* lastAccessed, logical clock *)

Record wctx := mkW { w_n : name; w_ro : bool; w_oc : outcome }.
(* the element handed to the callback: c_sh = it is the shared element
   (deferred checkAndPrune); c_rl = read lock held (on the element found in the
   map, which differs from c_e after a scrapped check); c_pf = checkAndPrune is
   the LAST defer (existing-element path), so it runs before RUnlock *)
Record cctx := mkC { c_e : eid; c_sh : bool; c_rl : option eid; c_pf : bool }.

Inductive phase :=
| PIdle
| PCreate (w : wctx)
| PLock (w : wctx) (e : eid)
| PWait (w : wctx) (e : eid)
| PScrap (w : wctx) (e : eid) (rl : option eid)
| PReady (w : wctx) (c : cctx)
| PIn (w : wctx) (c : cctx)
| PErr (w : wctx) (c : cctx)
| PRet (err : bool) (rl : option eid) (pr pf : bool).

Record tx := mkT {
  prog : list op;
  ph : phase;
  written : list (name * eid);
  failed : bool;
  done : bool;
  rets : list bool }.          (* ghost: error flags of the With calls that returned, latest first *)

Record state := mkS {
  elems : eid -> elem;
  nexte : eid;
  mmap : list (name * eid);
  mlock : option tid;
  committed : name -> nat;
  clock : nat;
  txs : tid -> tx }.

(* ---------- finite maps as association lists, functional update ---------- *)
Definition upd {A} (f : nat -> A) (k : nat) (v : A) : nat -> A :=
  fun x => if Nat.eqb x k then v else f x.

Fixpoint lookup (n : nat) (m : list (nat * nat)) : option nat :=
  match m with
  | [] => None
  | (k, v) :: r => if Nat.eqb k n then Some v else lookup n r
  end.
Fixpoint remove_key (n : nat) (m : list (nat * nat)) : list (nat * nat) :=
  match m with
  | [] => []
  | (k, v) :: r => if Nat.eqb k n then remove_key n r else (k, v) :: remove_key n r
  end.
Definition set_key (n v : nat) (m : list (nat * nat)) := (n, v) :: remove_key n m.
Definition has_key (n : nat) (m : list (nat * nat)) : bool :=
  match lookup n m with Some _ => true | None => false end.

(* ---------- setters ---------- *)
Definition set_tx st t T := mkS (elems st) (nexte st) (mmap st) (mlock st) (committed st) (clock st) (upd (txs st) t T).
Definition set_elem st e E := mkS (upd (elems st) e E) (nexte st) (mmap st) (mlock st) (committed st) (clock st) (txs st).
Definition set_map st m := mkS (elems st) (nexte st) m (mlock st) (committed st) (clock st) (txs st).
Definition set_mlock st l := mkS (elems st) (nexte st) (mmap st) l (committed st) (clock st) (txs st).
Definition set_committed st c := mkS (elems st) (nexte st) (mmap st) (mlock st) c (clock st) (txs st).
Definition tick st := mkS (elems st) (nexte st) (mmap st) (mlock st) (committed st) (S (clock st)) (txs st).
Definition bump_next st := mkS (elems st) (S (nexte st)) (mmap st) (mlock st) (committed st) (clock st) (txs st).

Definition tx_ph T p := mkT (prog T) p (written T) (failed T) (done T) (rets T).
Definition tx_ret T (err : bool) := mkT (tl (prog T)) PIdle (written T) (failed T) (done T) (err :: rets T).
Definition tx_fail T := mkT (prog T) (ph T) (written T) true (done T) (rets T).
Definition tx_written T w := mkT (prog T) (ph T) w (failed T) (done T) (rets T).
Definition tx_commit T := mkT (tl (prog T)) PIdle (written T) (failed T) true (rets T).
Definition tx_pop T := mkT (tl (prog T)) PIdle (written T) (failed T) (done T) (rets T).

Definition e_set_last E l := mkE (e_name E) (e_owner E) (e_writer E) (e_wheld E) (e_readers E) (e_scrapped E) (e_built E) l.
Definition e_set_readers E r := mkE (e_name E) (e_owner E) (e_writer E) (e_wheld E) r (e_scrapped E) (e_built E) (e_last E).
Definition e_set_writer E w h := mkE (e_name E) (e_owner E) w h (e_readers E) (e_scrapped E) (e_built E) (e_last E).
Definition e_scrap E := mkE (e_name E) (e_owner E) (e_writer E) (e_wheld E) (e_readers E) true (e_built E) (e_last E).
Definition e_set_built E b := mkE (e_name E) (e_owner E) (e_writer E) (e_wheld E) (e_readers E) (e_scrapped E) b (e_last E).

Definition remove_tid (t : tid) (l : list tid) : list tid := filter (fun x => negb (Nat.eqb x t)) l.

(* ---------- checkAndPrune ---------- *)
(* the registered name with the smallest lastAccessed *)
Fixpoint oldest (el : eid -> elem) (m : list (name * eid)) : option (name * nat) :=
  match m with
  | [] => None
  | (n, e) :: r =>
      match oldest el r with
      | Some (n', l') => if Nat.leb (e_last (el e)) l' then Some (n, e_last (el e)) else Some (n', l')
      | None => Some (n, e_last (el e))
      end
  end.
Fixpoint prune_n (fuel : nat) (lim : nat) (el : eid -> elem) (m : list (name * eid)) : list (name * eid) :=
  match fuel with
  | O => m
  | S f => if Nat.leb (length m) lim then m
           else match oldest el m with
                | Some (n, _) => prune_n f lim el (remove_key n m)
                | None => m
                end
  end.
(* every element has SizeInMemory 1, so the size limit counts entries *)
Definition prune_map (limit : Z) (el : eid -> elem) (m : list (name * eid)) : list (name * eid) :=
  if Z.ltb limit 0 then m
  else if Z.eqb limit 0 then []
  else prune_n (length m) (Z.to_nat limit) el m.

(* ---------- Commit ---------- *)
(* safe = the repaired manager: an entry is removed only if it still is the
   element in question, and a successful Commit discards whatever ELSE is
   registered under a name the transaction has written *)
Definition remove_if (n : name) (e : eid) (m : list (name * eid)) : list (name * eid) :=
  match lookup n m with
  | Some e' => if Nat.eqb e' e then remove_key n m else m
  | None => m
  end.
Definition commit_one (safe bad : bool) (st : state) (ne : name * eid) : state :=
  let (n, e) := ne in
  let E := elems st e in
  if bad then set_map (set_elem st e (e_set_writer (e_scrap E) None false))
                      (if safe then remove_if n e (mmap st) else remove_key n (mmap st))
  else let v := S (committed st n) in
       let st1 := set_committed (set_elem st e (e_set_writer (e_set_built E v) None false)) (upd (committed st) n v) in
       if safe then
         match lookup n (mmap st) with
         | Some cur => if Nat.eqb cur e then st1
                       else set_map (set_elem (set_elem st1 e (e_scrap (elems st1 e))) cur (e_scrap (elems st1 cur)))
                                    (remove_key n (mmap st))
         | None => set_elem st1 e (e_scrap (elems st1 e))
         end
       else st1.
Definition commit_all (safe bad : bool) (st : state) (w : list (name * eid)) : state :=
  fold_left (commit_one safe bad) w st.

Definition free (l : option tid) : bool := match l with None => true | Some _ => false end.
Definition fresh_elem (n : name) (owner : option tid) (writer : option tid) (readers : list tid) (v l : nat) : elem :=
  mkE n owner writer (match writer with Some _ => true | None => false end) readers false v l.
(* allocate a new element: returns the state with the element stored at nexte *)
Definition alloc (st : state) (E : elem) : state := bump_next (tick (set_elem st (nexte st) E)).

Definition step (fixed safe : bool) (limit : Z) (st : state) (t : tid) : option state :=
  let T := txs st t in
  match ph T with
  | PIdle =>
      match prog T with
      | [] => None
      | OCommit fl :: _ =>
          if done T then Some (set_tx st t (tx_pop T))
          else match written T with
               | [] => Some (set_tx st t (tx_commit T))
               | _ :: _ =>
                   if free (mlock st)
                   then Some (set_tx (commit_all safe (failed T || fl) st (written T)) t (tx_commit T))
                   else None
               end
      | OWith n ro oc :: _ =>
          if failed T then Some (set_tx st t (tx_ret T true))
          else match (if safe && negb (done T) then lookup n (written T) else None) with
          | Some e =>
              (* safe: a cache the transaction holds the write lock of is used as it is,
                 registered or not (no manager section) *)
              Some (set_tx st t (tx_ph T (PScrap (mkW n ro oc) e None)))
          | None =>
          if free (mlock st) then
            match lookup n (mmap st) with
            | Some e =>
                Some (set_tx (tick (set_elem st e (e_set_last (elems st e) (clock st)))) t
                             (tx_ph T (PLock (mkW n ro oc) e)))
            | None =>
                if negb ro && fixed && done T then Some (set_tx st t (tx_ret T true))
                else Some (set_tx (set_mlock st (Some t)) t (tx_ph T (PCreate (mkW n ro oc))))
            end
          else None
          end
      end
  | PCreate w =>
      match w_oc w with
      | ConsFail => Some (set_tx (set_mlock st None) t (tx_ret (tx_fail T) true))
      | _ =>
          let x := nexte st in
          let reg := negb (Z.eqb limit 0) in
          let E := fresh_elem (w_n w) (if reg then None else Some t)
                     (if w_ro w then None else Some t) (if w_ro w then [t] else [])
                     (committed st (w_n w)) (clock st) in
          let st1 := alloc st E in
          let st2 := if reg then set_map st1 (set_key (w_n w) x (mmap st1)) else st1 in
          let T1 := if w_ro w then T else tx_written T (set_key (w_n w) x (written T)) in
          Some (set_tx (set_mlock st2 None) t
                  (tx_ph T1 (PReady w (mkC x reg (if w_ro w then Some x else None) false))))
      end
  | PLock w e =>
      if w_ro w then
        if negb safe && has_key (w_n w) (written T) then Some (set_tx st t (tx_ph T (PScrap w e None)))
        else match e_writer (elems st e) with
             | None =>
                 Some (set_tx (set_elem st e (e_set_readers (elems st e) (t :: e_readers (elems st e)))) t
                         (tx_ph T (PScrap w e (Some e))))
             | Some _ =>
                 match w_oc w with
                 | ConsFail => Some (set_tx st t (tx_ret (tx_fail T) true))
                 | _ =>
                     let x := nexte st in
                     let E := fresh_elem (w_n w) (Some t) None [] (committed st (w_n w)) (clock st) in
                     Some (set_tx (alloc st E) t (tx_ph T (PReady w (mkC x false None true))))
                 end
             end
      else
        if fixed && done T then Some (set_tx st t (tx_ret T true))
        else if negb safe && has_key (w_n w) (written T) then Some (set_tx st t (tx_ph T (PScrap w e None)))
        else match e_writer (elems st e) with
             | None => Some (set_tx (set_elem st e (e_set_writer (elems st e) (Some t) false)) t
                               (tx_ph T (PWait w e)))
             | Some _ => None
             end
  | PWait w e =>
      match e_readers (elems st e) with
      | [] => Some (set_tx (set_elem st e (e_set_writer (elems st e) (Some t) true)) t
                      (tx_ph (tx_written T (set_key (w_n w) e (written T))) (PScrap w e None)))
      | _ :: _ => None
      end
  | PScrap w e rl =>
      if e_scrapped (elems st e) then
        match w_oc w with
        | ConsFail => Some (set_tx st t (tx_ph (tx_fail T) (PRet true rl false true)))
        | _ =>
            let x := nexte st in
            let E := fresh_elem (w_n w) (Some t) None [] (committed st (w_n w)) (clock st) in
            Some (set_tx (alloc st E) t (tx_ph T (PReady w (mkC x false rl true))))
        end
      else Some (set_tx st t (tx_ph T (PReady w (mkC e true rl true))))
  | PReady w c => Some (set_tx st t (tx_ph T (PIn w c)))
  | PIn w c =>
      match w_oc w with
      | CbFail => Some (set_tx (set_elem st (c_e c) (e_scrap (elems st (c_e c)))) t
                          (tx_ph (tx_fail T) (PErr w c)))
      | _ => Some (set_tx st t (tx_ph T (PRet false (c_rl c) (c_sh c) (c_pf c))))
      end
  | PErr w c =>
      if free (mlock st)
      then Some (set_tx (set_map st (if safe then remove_if (w_n w) (c_e c) (mmap st)
                                        else remove_key (w_n w) (mmap st))) t
                   (tx_ph T (PRet true (c_rl c) (c_sh c) (c_pf c))))
      else None
  | PRet err rl pr pf =>
      if pr && (pf || match rl with None => true | Some _ => false end) then
        if Z.ltb limit 0 then Some (set_tx st t (tx_ph T (PRet err rl false pf)))
        else if free (mlock st)
             then Some (set_tx (set_map st (prune_map limit (elems st) (mmap st))) t
                          (tx_ph T (PRet err rl false pf)))
             else None
      else match rl with
           | Some e => Some (set_tx (set_elem st e (e_set_readers (elems st e) (remove_tid t (e_readers (elems st e))))) t
                               (tx_ph T (PRet err None pr pf)))
           | None => Some (set_tx st t (tx_ret T err))
           end
  end.

Inductive label := LT (t : tid) | LDel (n : name).

Definition lstep (fixed safe : bool) (limit : Z) (st : state) (l : label) : option state :=
  match l with
  | LT t => step fixed safe limit st t
  | LDel n => if free (mlock st) then Some (set_map st (remove_key n (mmap st))) else None
  end.
(* a choice that is not enabled (blocked, finished) is skipped *)
Definition next (fixed safe : bool) (limit : Z) (st : state) (l : label) : state :=
  match lstep fixed safe limit st l with Some st' => st' | None => st end.
Fixpoint run (fixed safe : bool) (limit : Z) (ls : list label) (st : state) : state :=
  match ls with
  | [] => st
  | l :: r => run fixed safe limit r (next fixed safe limit st l)
  end.

Definition noelem : elem := mkE 0 None None false [] false 0 0.
Definition notx : tx := mkT [] PIdle [] false true [].
Definition init (progs : list (list op)) : state :=
  mkS (fun _ => noelem) 0 [] None (fun _ => 0) 0
      (fun t => match nth_error progs t with Some p => mkT p PIdle [] false false [] | None => notx end).

Definition reachable (fixed safe : bool) (limit : Z) (st : state) : Prop :=
  exists progs ls, st = run fixed safe limit ls (init progs).

(* ---------- the predicates of the property ---------- *)
Definition finished (T : tx) : Prop := ph T = PIdle /\ prog T = [].
Definition finishedb (T : tx) : bool :=
  match ph T, prog T with PIdle, [] => true | _, _ => false end.

(* the element a transaction's callback is running on *)
Definition in_cb (st : state) (t : tid) (e : eid) : Prop :=
  exists w c, ph (txs st t) = PIn w c /\ c_e c = e.
Definition in_cb_writing (st : state) (t : tid) (e : eid) : Prop :=
  exists w c, ph (txs st t) = PIn w c /\ c_e c = e /\ w_ro w = false.
Definition holds_write (st : state) (t : tid) (e : eid) : Prop :=
  e_writer (elems st e) = Some t /\ e_wheld (elems st e) = true.
Definition holds_read (st : state) (t : tid) (e : eid) : Prop := In t (e_readers (elems st e)).
Definition registered (st : state) (e : eid) : Prop := exists n, lookup n (mmap st) = Some e.

(* excl: while a transaction owns the write lock of an element no OTHER
   transaction holds a read lock on it or runs a callback on it; a writing
   callback never overlaps another callback on the same element; a callback on
   a private copy (c_sh = false) runs on an element that is not in the map *)
Definition excl (st : state) : Prop :=
  (forall t e, holds_write st t e -> e_readers (elems st e) = []) /\
  (forall t t' e, holds_write st t e -> in_cb st t' e -> t' = t) /\
  (forall t t' e, in_cb_writing st t e -> in_cb st t' e -> t' = t) /\
  (forall t w c, ph (txs st t) = PIn w c -> c_sh c = false -> ~ registered st (c_e c)).

(* a step of t selects element e for a callback (cacheToUse is decided) *)
Definition selects (st : state) (t : tid) (st' : state) (e : eid) : Prop :=
  (forall w c, ph (txs st t) <> PReady w c) /\ exists w c, ph (txs st' t) = PReady w c /\ c_e c = e.

Definition locks_released (st : state) : Prop :=
  mlock st = None /\
  forall n e, lookup n (mmap st) = Some e ->
    e_writer (elems st e) = None /\ e_readers (elems st e) = [].

(* "concurrently active writing transactions touch disjoint names": t is an
   active writer of n if it has not committed and has n in its written caches
   or is inside a writing With on n *)
Definition cur_write (p : phase) : option name :=
  match p with
  | PIdle | PRet _ _ _ _ => None
  | PCreate w | PLock w _ | PWait w _ | PScrap w _ _ | PReady w _ | PIn w _ | PErr w _ =>
      if w_ro w then None else Some (w_n w)
  end.
Definition active_writer (st : state) (t : tid) (n : name) : Prop :=
  done (txs st t) = false /\ (has_key n (written (txs st t)) = true \/ cur_write (ph (txs st t)) = Some n).
Definition disjoint_writers (st : state) : Prop :=
  forall t t' n, active_writer st t n -> active_writer st t' n -> t = t'.

(* P holds in every state along the run of ls from st *)
Fixpoint always (P : state -> Prop) (fixed safe : bool) (limit : Z) (ls : list label) (st : state) : Prop :=
  match ls with
  | [] => P st
  | l :: r => P st /\ always P fixed safe limit r (next fixed safe limit st l)
  end.

(* coherent: every registered, non-scrapped element that no writer holds or
   waits for reflects the committed version of its name *)
Definition coherent (st : state) : Prop :=
  forall n e, lookup n (mmap st) = Some e ->
    e_scrapped (elems st e) = false -> e_writer (elems st e) = None ->
    e_built (elems st e) = committed st n.
Definition coherentb (st : state) : bool :=
  forallb (fun ne : name * eid =>
             let E := elems st (snd ne) in
             e_scrapped E || (match e_writer E with Some _ => true | None => false end)
             || Nat.eqb (e_built E) (committed st (fst ne))) (mmap st).

(* stale hand-out: the element a callback runs on is older than the storage *)
Definition stale_cb (st : state) (t : tid) : bool :=
  match ph (txs st t) with
  | PIn w c => Nat.ltb (e_built (elems st (c_e c))) (committed st (w_n w))
  | _ => false
  end.

(* ---------- clean steps: the hypotheses under which the defect F6 is absent ----------
   An element is PROTECTED when a writer holds it, waits for it (announced), or
   has looked it up and is about to lock it.
   (H1) the step does not remove the map entry of a protected element, unless
        that element is scrapped (error path / failing Commit);
   (H2) the step is not the scrapped check of a WRITING access that finds its
        element scrapped (the writer would go on with a temporary copy while
        the name is unregistered). *)
Definition protected (st : state) (e : eid) : Prop :=
  e_writer (elems st e) <> None \/ exists t w, ph (txs st t) = PLock w e /\ w_ro w = false.
Definition keeps (st st' : state) : Prop :=
  forall n e, lookup n (mmap st) = Some e -> protected st e ->
    e_scrapped (elems st' e) = true \/ lookup n (mmap st') = Some e.
Definition no_writer_on_scrappedb (st : state) (l : label) : bool :=
  match l with
  | LT t => match ph (txs st t) with
            | PScrap w e _ => w_ro w || negb (e_scrapped (elems st e))
            | _ => true
            end
  | LDel _ => true
  end.
Definition clean_at (fixed safe : bool) (limit : Z) (st : state) (l : label) : Prop :=
  keeps st (next fixed safe limit st l) /\ no_writer_on_scrappedb st l = true.
Fixpoint clean (fixed safe : bool) (limit : Z) (ls : list label) (st : state) : Prop :=
  match ls with
  | [] => True
  | l :: r => clean_at fixed safe limit st l /\ clean fixed safe limit r (next fixed safe limit st l)
  end.
(* boolean version for transactions 0..ntx-1 (used by Run_C11 to cross-check the
   tag the harness puts on schedules that meet the precondition of F6) *)
Definition protectedb (ntx : nat) (st : state) (e : eid) : bool :=
  (match e_writer (elems st e) with Some _ => true | None => false end) ||
  existsb (fun t => match ph (txs st t) with
                    | PLock w e' => Nat.eqb e' e && negb (w_ro w)
                    | _ => false end) (seq 0 ntx).
Definition keepsb (ntx : nat) (st st' : state) : bool :=
  forallb (fun ne : name * eid =>
             negb (protectedb ntx st (snd ne)) || e_scrapped (elems st' (snd ne)) ||
             match lookup (fst ne) (mmap st') with
             | Some e' => Nat.eqb e' (snd ne)
             | None => false
             end) (mmap st).
Definition clean_atb (ntx : nat) (fixed safe : bool) (limit : Z) (st : state) (l : label) : bool :=
  keepsb ntx st (next fixed safe limit st l) && no_writer_on_scrappedb st l.

Fixpoint cleanb (ntx : nat) (fixed safe : bool) (limit : Z) (ls : list label) (st : state) : bool :=
  match ls with
  | [] => true
  | l :: r => clean_atb ntx fixed safe limit st l && cleanb ntx fixed safe limit r (next fixed safe limit st l)
  end.

(* the current access of the transaction is read-only *)
Definition reading (p : phase) : bool :=
  match p with
  | PCreate w | PLock w _ | PScrap w _ _ | PReady w _ | PIn w _ | PErr w _ => w_ro w
  | _ => false
  end.

(* every transaction has run its whole program and has committed or aborted *)
Definition all_done (st : state) : Prop :=
  forall t, finished (txs st t) /\ done (txs st t) = true.

(* read-only programs *)
Definition ro_op (o : op) : bool := match o with OWith _ ro _ => ro | OCommit _ => true end.
Definition ro_prog (p : list op) : bool := forallb ro_op p.

(* programs of the quantifier: accesses, then (at most) one Commit, nothing after it *)
Fixpoint wf_prog (p : list op) : Prop :=
  match p with
  | [] => True
  | OCommit _ :: r => r = []
  | OWith _ _ _ :: r => wf_prog r
  end.

(* ---------- driving the model at the granularity the harness observes ----------
   The harness can hold a transaction only at: before an operation, inside the
   callback.  `drive` runs t to its next such point (or until it blocks).  The
   boolean carried along is the conjunction of clean_atb over the fine steps. *)
Definition at_pause (p : phase) : bool :=
  match p with PIdle | PIn _ _ => true | _ => false end.
Definition fstep (ntx : nat) (fixed safe : bool) (limit : Z) (sb : state * bool) (l : label) : option (state * bool) :=
  match lstep fixed safe limit (fst sb) l with
  | Some st' => Some (st', snd sb && clean_atb ntx fixed safe limit (fst sb) l)
  | None => None
  end.
Fixpoint drive_more (ntx fuel : nat) (fixed safe : bool) (limit : Z) (sb : state * bool) (t : tid) : state * bool :=
  match fuel with
  | O => sb
  | S f => if at_pause (ph (txs (fst sb) t)) then sb
           else match fstep ntx fixed safe limit sb (LT t) with
                | Some sb' => drive_more ntx f fixed safe limit sb' t
                | None => sb
                end
  end.
Definition drive (ntx : nat) (fixed safe : bool) (limit : Z) (sb : state * bool) (l : label) : state * bool :=
  match fstep ntx fixed safe limit sb l with
  | Some sb' => match l with LT t => drive_more ntx 16 fixed safe limit sb' t | LDel _ => sb' end
  | None => sb
  end.
(* transactions blocked inside With move on as soon as they can *)
Fixpoint settle_list (ntx : nat) (fixed safe : bool) (limit : Z) (ts : list tid) (sb : state * bool) : state * bool :=
  match ts with
  | [] => sb
  | t :: r => settle_list ntx fixed safe limit r (drive_more ntx 16 fixed safe limit sb t)
  end.
Fixpoint settle (fuel : nat) (fixed safe : bool) (limit : Z) (ntx : nat) (sb : state * bool) : state * bool :=
  match fuel with
  | O => sb
  | S f => settle f fixed safe limit ntx (settle_list ntx fixed safe limit (seq 0 ntx) sb)
  end.
