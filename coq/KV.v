(* KV.v -- ordered key scans of a bucket: the bbolt cursor loops and the
   memstore sort-and-filter loops of diskstore/{bbolt,memstore}.go, and their
   specification as a filter on the key order. *)
From Coq Require Import List NArith Lia Bool Arith Sorted Permutation.
From Semadb Require Import Bytes.
Import ListNotations.
Open Scope N_scope.

Definition klt (a b : bytes) : Prop := lex_lt a b = true.
Definition ksorted (l : list bytes) : Prop := StronglySorted klt l.

Definition start_ok (s : option bytes) (incl : bool) (k : bytes) : bool :=
  match s with
  | None => true
  | Some st => if incl then lex_le st k else lex_lt st k
  end.
Definition end_ok (e : option bytes) (incl : bool) (k : bytes) : bool :=
  match e with
  | None => true
  | Some en => if incl then lex_le k en else lex_lt k en
  end.
Definition in_range (s e : option bytes) (incl : bool) (k : bytes) : bool :=
  start_ok s incl k && end_ok e incl k.

(* bbolt: Cursor.Seek positions at the first key >= start *)
Fixpoint seek (st : bytes) (l : list bytes) : list bytes :=
  match l with
  | [] => []
  | k :: r => if lex_lt k st then seek st r else l
  end.

Fixpoint take_while (f : bytes -> bool) (l : list bytes) : list bytes :=
  match l with
  | [] => []
  | k :: r => if f k then k :: take_while f r else []
  end.

(* diskstore/bbolt.go RangeScan *)
Definition bbolt_range (l : list bytes) (s e : option bytes) (incl : bool) : list bytes :=
  let l1 := match s with
            | None => l
            | Some st =>
                match seek st l with
                | k :: r => if negb incl && bytes_eqb k st then r else k :: r
                | [] => []
                end
            end in
  take_while (end_ok e incl) l1.

(* diskstore/memstore.go RangeScan, on the sorted copy: continue / break *)
Fixpoint mem_range (l : list bytes) (s e : option bytes) (incl : bool) : list bytes :=
  match l with
  | [] => []
  | k :: r =>
      if negb (start_ok s incl k) then mem_range r s e incl
      else if negb (end_ok e incl k) then []
      else k :: mem_range r s e incl
  end.

(* diskstore/bbolt.go PrefixScan *)
Definition bbolt_prefix (l : list bytes) (p : bytes) : list bytes :=
  take_while (is_prefix p) (seek p l).
(* memstore PrefixScan is literally a filter (order unspecified) *)
Definition mem_prefix (l : list bytes) (p : bytes) : list bytes := filter (is_prefix p) l.

(* ------------------------------------------------------------------ *)

Lemma klt_trans a b c : klt a b -> klt b c -> klt a c.
Proof. apply lex_lt_trans. Qed.

Lemma lex_le_lt_trans a b c : lex_le a b = true -> lex_lt b c = true -> lex_lt a c = true.
Proof.
  intros H1 H2. apply lex_le_lt_or_eq in H1. destruct H1 as [H1| ->]; [|exact H2].
  eapply lex_lt_trans; eauto.
Qed.

Lemma lex_lt_le_trans a b c : lex_lt a b = true -> lex_le b c = true -> lex_lt a c = true.
Proof.
  intros H1 H2. apply lex_le_lt_or_eq in H2. destruct H2 as [H2| <-]; [|exact H1].
  eapply lex_lt_trans; eauto.
Qed.

Lemma lex_le_trans a b c : lex_le a b = true -> lex_le b c = true -> lex_le a c = true.
Proof.
  intros H1 H2. apply lex_le_lt_or_eq. apply lex_le_lt_or_eq in H2. destruct H2 as [H2| <-].
  - left. eapply lex_le_lt_trans; eauto.
  - now apply lex_le_lt_or_eq.
Qed.

Lemma lex_lt_le a b : lex_lt a b = true -> lex_le a b = true.
Proof. intros H. apply lex_le_lt_or_eq. now left. Qed.

Lemma lex_lt_asym a b : lex_lt a b = true -> lex_lt b a = false.
Proof.
  unfold lex_lt. rewrite (lex_compare_antisym a b). destruct (lex_compare a b); cbn; congruence.
Qed.

Lemma filter_all {A} (f : A -> bool) l : Forall (fun x => f x = true) l -> filter f l = l.
Proof. induction 1 as [|x l Hx _ IH]; cbn; [reflexivity|]. now rewrite Hx, IH. Qed.

Lemma filter_none {A} (f : A -> bool) l : Forall (fun x => f x = false) l -> filter f l = [].
Proof. induction 1 as [|x l Hx _ IH]; cbn; [reflexivity|]. now rewrite Hx. Qed.

Lemma filter_filter {A} (f g : A -> bool) l : filter f (filter g l) = filter (fun x => g x && f x) l.
Proof.
  induction l as [|x l IH]; cbn; [reflexivity|].
  destruct (g x); cbn; [destruct (f x)|]; now rewrite IH.
Qed.

Lemma ksorted_inv k r : ksorted (k :: r) -> ksorted r /\ Forall (klt k) r.
Proof. intros H. inversion H; subst. auto. Qed.

Lemma ksorted_filter f l : ksorted l -> ksorted (filter f l).
Proof.
  induction 1 as [|k r Hs IH Hk]; cbn; [constructor|].
  destruct (f k); [|exact IH]. constructor; [exact IH|].
  apply Forall_forall. intros x Hx. apply filter_In in Hx. destruct Hx as [Hx _].
  rewrite Forall_forall in Hk. auto.
Qed.

(* seek = drop everything below the start key *)
Lemma seek_filter st l : ksorted l -> seek st l = filter (fun k => lex_le st k) l.
Proof.
  induction 1 as [|k r Hs IH Hk]; cbn [seek filter]; [reflexivity|].
  rewrite (lex_le_not_lt st k).
  destruct (lex_lt k st) eqn:E; cbn [negb]; [exact IH|].
  f_equal. symmetry. apply filter_all.
  eapply Forall_impl; [|exact Hk]. intros x Hx. unfold klt in Hx.
  rewrite lex_le_not_lt. rewrite (lex_lt_asym st x); [reflexivity|].
  (* st <= k < x *)
  assert (Hle : lex_le st k = true) by (rewrite lex_le_not_lt, E; reflexivity).
  eapply lex_le_lt_trans; eauto.
Qed.

Lemma take_while_filter_end e incl l : ksorted l ->
  take_while (end_ok e incl) l = filter (end_ok e incl) l.
Proof.
  induction 1 as [|k r Hs IH Hk]; cbn [take_while filter]; [reflexivity|].
  destruct (end_ok e incl k) eqn:E; [now rewrite IH|].
  symmetry. apply filter_none.
  eapply Forall_impl; [|exact Hk]. intros x Hx. unfold klt in Hx.
  destruct e as [en|]; cbn in *; [|discriminate].
  destruct incl.
  - rewrite lex_le_not_lt in *. apply negb_false_iff in E. apply negb_false_iff.
    eapply lex_lt_trans; eauto.
  - destruct (lex_lt x en) eqn:F; [|reflexivity].
    rewrite (lex_lt_trans _ _ _ Hx F) in E. discriminate.
Qed.

Lemma start_filter st incl l : ksorted l ->
  match seek st l with
  | k :: r => if negb incl && bytes_eqb k st then r else k :: r
  | [] => []
  end = filter (start_ok (Some st) incl) l.
Proof.
  intros Hs. rewrite (seek_filter st l Hs).
  pose proof (ksorted_filter (fun k => lex_le st k) l Hs) as Hs'.
  assert (Hall : Forall (fun k => lex_le st k = true) (filter (fun k => lex_le st k) l)).
  { apply Forall_forall. intros x Hx. apply filter_In in Hx. tauto. }
  destruct incl; cbn [negb andb].
  - change (start_ok (Some st) true) with (fun k => lex_le st k).
    destruct (filter (fun k => lex_le st k) l); reflexivity.
  - (* exclusive *)
    change (start_ok (Some st) false) with (fun k => lex_lt st k).
    assert (E : filter (fun k => lex_lt st k) l
                = filter (fun k => lex_lt st k) (filter (fun k => lex_le st k) l)).
    { rewrite filter_filter. apply filter_ext. intros a.
      destruct (lex_lt st a) eqn:F; [rewrite (lex_lt_le _ _ F)|]; cbn; auto using andb_false_r. }
    rewrite E. clear E.
    destruct (filter (fun k => lex_le st k) l) as [|k r] eqn:EF; [reflexivity|].
    apply ksorted_inv in Hs'. destruct Hs' as [Hr Hk].
    inversion Hall as [|? ? Hk0 Hr0]; subst.
    destruct (bytes_eqb k st) eqn:Eq.
    + apply bytes_eqb_eq in Eq. subst k. cbn [filter]. rewrite lex_lt_irrefl.
      symmetry. apply filter_all. eapply Forall_impl; [|exact Hk]. intros x Hx; exact Hx.
    + cbn [filter].
      assert (Hlt : lex_lt st k = true).
      { apply lex_le_lt_or_eq in Hk0. destruct Hk0 as [H|H]; [exact H|].
        subst. rewrite (proj2 (bytes_eqb_eq k k) eq_refl) in Eq. discriminate. }
      rewrite Hlt. f_equal. symmetry. apply filter_all.
      eapply Forall_impl; [|exact Hk]. intros x Hx. eapply lex_lt_trans; eauto.
Qed.

Theorem bbolt_range_spec l s e incl : ksorted l ->
  bbolt_range l s e incl = filter (in_range s e incl) l.
Proof.
  intros Hs. unfold bbolt_range, in_range.
  destruct s as [st|].
  - rewrite (start_filter st incl l Hs).
    rewrite take_while_filter_end by (now apply ksorted_filter).
    apply filter_filter.
  - rewrite take_while_filter_end by exact Hs. reflexivity.
Qed.

Theorem mem_range_spec l s e incl : ksorted l ->
  mem_range l s e incl = filter (in_range s e incl) l.
Proof.
  induction 1 as [|k r Hs IH Hk]; cbn [mem_range filter]; [reflexivity|].
  unfold in_range at 1.
  destruct (start_ok s incl k) eqn:Es; cbn [negb andb]; [|exact IH].
  destruct (end_ok e incl k) eqn:Ee; cbn [negb]; [now rewrite IH|].
  symmetry. apply filter_none.
  eapply Forall_impl; [|exact Hk]. intros x Hx. unfold klt in Hx. unfold in_range.
  apply andb_false_iff. right.
  destruct e as [en|]; cbn in *; [|discriminate].
  destruct incl.
  - rewrite lex_le_not_lt in *. apply negb_false_iff in Ee. apply negb_false_iff.
    eapply lex_lt_trans; eauto.
  - destruct (lex_lt x en) eqn:F; [|reflexivity].
    rewrite (lex_lt_trans _ _ _ Hx F) in Ee. discriminate.
Qed.

Corollary backends_agree_range l s e incl : ksorted l ->
  bbolt_range l s e incl = mem_range l s e incl.
Proof. intros. now rewrite bbolt_range_spec, mem_range_spec. Qed.

(* ---- prefix scans ---- *)

Lemma prefix_ge p k : is_prefix p k = true -> lex_le p k = true.
Proof.
  revert k; induction p as [|x p IH]; intros k H.
  - destruct k; reflexivity.
  - destruct k as [|y k]; [discriminate|]. cbn in H. apply andb_true_iff in H. destruct H as [H1 H2].
    apply N.eqb_eq in H1. subst. unfold lex_le. cbn. rewrite N.compare_refl.
    apply IH in H2. exact H2.
Qed.

(* once a key >= p lacks the prefix, every larger key lacks it too *)
Lemma prefix_gap p k1 k2 :
  lex_le p k1 = true -> is_prefix p k1 = false -> lex_lt k1 k2 = true -> is_prefix p k2 = false.
Proof.
  revert k1 k2; induction p as [|x p IH]; intros k1 k2 H1 H2 H3; [discriminate|].
  destruct k1 as [|y1 k1]; [discriminate|].
  destruct k2 as [|y2 k2]; [reflexivity|].
  cbn [is_prefix] in *. unfold lex_le in H1. unfold lex_lt in H3. cbn [lex_compare] in *.
  destruct (N.compare_spec x y1) as [E1|L1|G1]; try discriminate.
  - subst y1. rewrite N.eqb_refl in H2. cbn [andb] in H2.
    destruct (N.compare_spec x y2) as [E2|L2|G2]; try discriminate.
    + subst y2. rewrite N.eqb_refl. cbn [andb]. eapply IH; eauto.
    + replace (x =? y2) with false by (symmetry; apply N.eqb_neq; lia). reflexivity.
  - destruct (N.compare_spec y1 y2) as [E2|L2|G2]; try discriminate;
      replace (x =? y2) with false by (symmetry; apply N.eqb_neq; lia); reflexivity.
Qed.

Theorem bbolt_prefix_spec l p : ksorted l -> bbolt_prefix l p = filter (is_prefix p) l.
Proof.
  intros Hs. unfold bbolt_prefix. rewrite (seek_filter p l Hs).
  assert (E : filter (is_prefix p) l = filter (is_prefix p) (filter (fun k => lex_le p k) l)).
  { rewrite filter_filter. apply filter_ext. intros a.
    destruct (is_prefix p a) eqn:F; [rewrite (prefix_ge _ _ F)|]; cbn; auto using andb_false_r. }
  rewrite E. clear E.
  pose proof (ksorted_filter (fun k => lex_le p k) l Hs) as Hs'.
  assert (Hall : Forall (fun k => lex_le p k = true) (filter (fun k => lex_le p k) l)).
  { apply Forall_forall. intros x Hx. apply filter_In in Hx. tauto. }
  induction Hs' as [|k r Hr IH Hk]; cbn [take_while filter]; [reflexivity|].
  inversion Hall as [|? ? Hk0 Hr0]; subst.
  destruct (is_prefix p k) eqn:F; [now rewrite IH|].
  symmetry. apply filter_none. eapply Forall_impl; [|exact Hk]. intros x Hx.
  eapply prefix_gap; eauto.
Qed.

(* ---- an order-embedding encoder turns value ranges into key ranges ---- *)
Section RangeExact.
  Variable V : Type.
  Variable enc : V -> bytes.
  Variable vlt : V -> V -> bool.
  Hypothesis enc_lt : forall a b, lex_lt (enc a) (enc b) = vlt a b.
  Hypothesis enc_inj : forall a b, enc a = enc b -> a = b.

  Definition v_in_range (lo hi : option V) (incl : bool) (v : V) : bool :=
    match lo with None => true | Some a => if incl then negb (vlt v a) else vlt a v end &&
    match hi with None => true | Some b => if incl then negb (vlt b v) else vlt v b end.

  Lemma in_range_enc lo hi incl v :
    in_range (option_map enc lo) (option_map enc hi) incl (enc v) = v_in_range lo hi incl v.
  Proof.
    unfold in_range, v_in_range, start_ok, end_ok.
    destruct lo as [a|], hi as [b|]; cbn [option_map]; destruct incl;
      rewrite ?lex_le_not_lt, ?enc_lt; reflexivity.
  Qed.

  Theorem range_scan_exact (vals : list V) lo hi incl :
    ksorted (map enc vals) ->
    bbolt_range (map enc vals) (option_map enc lo) (option_map enc hi) incl
    = map enc (filter (v_in_range lo hi incl) vals).
  Proof.
    intros Hs. rewrite bbolt_range_spec by exact Hs.
    induction vals as [|v vals IH]; cbn [map filter]; [reflexivity|].
    apply ksorted_inv in Hs. destruct Hs as [Hs _].
    rewrite in_range_enc. destruct (v_in_range lo hi incl v); cbn [map]; now rewrite IH.
  Qed.
End RangeExact.
