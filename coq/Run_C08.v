(* Run_C08.v -- verdict for C08: the same history is executed under five store /
   cache configurations (warm unlimited shared cache, 1-byte cache = eviction
   after every access, cache disabled, reopen after every batch, in-memory
   backend); under every one of them the stored documents, counts and all query
   answers must equal the reference (hence each other). *)
From Coq Require Import List NArith ZArith Bool.
From Semadb Require Import Bytes Pack Value Obs Run_C01 Run_C02 Run_C03 Run_C04 Run_C05.
Import ListNotations.
Open Scope N_scope.

Definition verdict (h : hist) : N :=
  let c1 := Run_C01.verdict h in if negb (c1 =? 0) then c1 else
  let c2 := Run_C02.verdict_lenient h in if negb (c2 =? 0) then c2 else
  let c4 := Run_C04.verdict h in if negb (c4 =? 0) then c4 else
  let c5 := Run_C05.verdict h in if negb (c5 =? 0) then c5 else
  Run_C03.verdict h.

Fixpoint bad_from (i : N) (cs : list hist) : list (N * N) :=
  match cs with
  | [] => []
  | c :: r => let v := verdict c in
              if v =? 0 then bad_from (i + 1) r else (i, v) :: bad_from (i + 1) r
  end.
Definition bad (cs : list hist) : list (N * N) := bad_from 0 cs.
