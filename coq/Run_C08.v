(* Run_C08.v -- verdict for C08: the same history is executed under five store /
   cache configurations (warm unlimited shared cache, 1-byte cache = eviction
   after every access, cache disabled, reopen after every batch, in-memory
   backend); under every one of them the stored documents, counts and all query
   answers must equal the reference (hence each other). *)
From Coq Require Import List NArith ZArith Bool.
From Semadb Require Import Bytes Pack Value Obs Model_C01 Model_C02 Run_C01 Run_C02 Run_C03 Run_C04 Run_C05.
Import ListNotations.
Open Scope N_scope.

(* ---- warm = cold on the SAME file: the requests of a step are answered by the running instance and by a
   fresh instance over a copy of the file; the two answers must agree (same distances / scores in the same
   order; ids may differ only between rows with equal distance or score) ---- *)
Fixpoint find_cold (xs : list extra) : option (list (request * qout)) :=
  match xs with
  | [] => None
  | XCold qs :: _ => Some qs
  | _ :: r => find_cold r
  end.
Definition opt_eqb (a b : option N) : bool :=
  match a, b with Some x, Some y => x =? y | None, None => true | _, _ => false end.
Definition row_key_eqb (a b : row) : bool := opt_eqb (r_dist a) (r_dist b) && opt_eqb (r_score a) (r_score b).
Definition rows_equiv (w c : list row) : bool :=
  (length w =? length c)%nat &&
  list_eqb row_key_eqb w c &&
  forallb (fun x => existsb (fun y => Model_C02.mem_bytes (r_id x) [r_id y] ) c
                    || existsb (fun y => row_key_eqb x y && negb (Model_C02.mem_bytes (r_id y) (map r_id w))) c) w.
Definition ranked_request (r : request) : bool :=
  match rq_query r with QFlat _ _ _ _ _ | QVamana _ _ _ _ _ _ => true | _ => false end.
Fixpoint warm_cold_code (w c : list (request * qout)) : N :=
  match w, c with
  | (rq, QRows rw) :: w', (_, QRows rc) :: c' =>
      if ranked_request rq
      then (if rows_equiv rw rc then warm_cold_code w' c' else 113)
      else (if Model_C01.same_ids (map r_id rw) (map r_id rc) then warm_cold_code w' c' else 113)
  | (_, QError _) :: w', (_, QError _) :: c' => warm_cold_code w' c'
  | [], [] => 0
  | _, _ => 114
  end.
Fixpoint warm_cold_steps (i : N) (steps : list step) : N :=
  match steps with
  | [] => 0
  | st :: rest =>
      match s_out st, find_cold (s_extra st) with
      | OCrash _, _ => 0
      | _, None => warm_cold_steps (i + 1) rest
      | _, Some cold =>
          let c := warm_cold_code (s_queries st) cold in
          if c =? 0 then warm_cold_steps (i + 1) rest else c + 1000 * (i + 1)
      end
  end.

Definition verdict (h : hist) : N :=
  let c0 := warm_cold_steps 0 (h_steps h) in if negb (c0 =? 0) then c0 else
  let c1 := Run_C01.verdict h in if negb (c1 =? 0) then c1 else
  let c2 := Run_C02.verdict_lenient h in if negb (c2 =? 0) then c2 else
  let c4 := Run_C04.verdict h in if negb (c4 =? 0) then c4 else
  let c5 := Run_C05.verdict h in if negb (c5 =? 0) then c5 else
  Run_C03.verdict h.

Fixpoint bad_from (i : N) (cs : list hist) : list (N * N) :=
  match cs with
  | [] => []
  | c :: r => let v := verdict c in
              if v =? 0 then bad_from (i + 1) r else (i, v) :: bad_from (i + 1) r
  end.
Definition bad (cs : list hist) : list (N * N) := bad_from 0 cs.
