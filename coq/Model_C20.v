(* Model_C20.v -- property C20: distance functions equal their definitions.
   Exact arithmetic over Z ("up to floating-point rounding" is exactly the part
   this model does not cover).  Definitions only.

   - reference definitions: sqeuclid, dot, cosine, negdot
   - kernel P g xs ys : the AVX2/FMA kernels of distance/asm/{dot,euclidean}.s,
     interpreted from the structural parameters that gen/gen_asm_params.py
     extracts from the .s files (AsmParams.v): a register file of 8-lane
     vectors, pointers into the two slices with bounds (a read outside either
     slice is None), the block loop, the scalar tail loop, the lane reduction
     in the order of the generated VADDPS / VEXTRACTF128 / VHADDPS sequence.
     g is the (arbitrary) content of the vector registers at entry.
   - pack / hamming / jaccard on 64-bit words as in shard/vectorstore/binary.go
     and distance/distance.go, and the per-position definitions.
   - float32 bit patterns of small integers, exact value of a float32 pattern. *)
From Coq Require Import List NArith ZArith Bool QArith.
From Semadb Require Import AsmParams.
Import ListNotations.
Open Scope Z_scope.

(* ------------------------------------------------------------------ *)
(* reference definitions (distance/puredist.go, distance/distance.go)  *)

Fixpoint dot (xs ys : list Z) : Z :=
  match xs, ys with x :: xs', y :: ys' => x * y + dot xs' ys' | _, _ => 0 end.
Fixpoint sqeuclid (xs ys : list Z) : Z :=
  match xs, ys with x :: xs', y :: ys' => (x - y) * (x - y) + sqeuclid xs' ys' | _, _ => 0 end.
Definition negdot (xs ys : list Z) : Z := - dot xs ys.
Definition cosine (xs ys : list Z) : Z := 1 - dot xs ys.
Definition termsum (sub : bool) (xs ys : list Z) : Z := if sub then sqeuclid xs ys else dot xs ys.

(* ------------------------------------------------------------------ *)
(* kernel parameters                                                    *)

Definition line := (N * N * option N * N)%type.     (* y byte offset, x register, temp register, accumulator *)
Definition l_yoff (l : line) : N := fst (fst (fst l)).
Definition l_xr (l : line) : N := snd (fst (fst l)).
Definition l_tmp (l : line) : option N := snd (fst l).
Definition l_acc (l : line) : N := snd l.

Record kparams := {
  k_sub : bool; k_lanes : N; k_block_items : N;
  k_loads : list (N * N); k_lines : list line;
  k_stride_x : N; k_stride_y : N; k_count_dec : N;
  k_zeroed : list N; k_tail_zeroed : list N; k_tail_cmp : N;
  k_tail_load : N * N; k_tail_line : line;
  k_tail_stride_x : N; k_tail_stride_y : N; k_tail_dec : N;
  k_reduce : list rop; k_ret : N;
  k_gen_zeroed : bool; k_gen_reduced : bool }.

Definition dot_params : kparams :=
  Build_kparams dot_sub dot_lanes dot_block_items dot_x_loads dot_fma_lines dot_stride_x dot_stride_y dot_count_dec
    dot_zeroed dot_tail_zeroed dot_tail_cmp dot_tail_load dot_tail_line dot_tail_stride_x dot_tail_stride_y dot_tail_dec
    dot_reduce dot_ret dot_accs_zeroed dot_accs_reduced.
Definition euc_params : kparams :=
  Build_kparams euc_sub euc_lanes euc_block_items euc_x_loads euc_fma_lines euc_stride_x euc_stride_y euc_count_dec
    euc_zeroed euc_tail_zeroed euc_tail_cmp euc_tail_load euc_tail_line euc_tail_stride_x euc_tail_stride_y euc_tail_dec
    euc_reduce euc_ret euc_accs_zeroed euc_accs_reduced.

Definition k_unroll (P : kparams) : N := N.of_nat (length (k_lines P)).
Definition k_accs (P : kparams) : list N := map l_acc (k_lines P).

(* ------------------------------------------------------------------ *)
(* vectors, register file, memory                                       *)

Definition vec := list Z.
Fixpoint zip2 {A B C} (f : A -> B -> C) (a : list A) (b : list B) : list C :=
  match a, b with x :: a', y :: b' => f x y :: zip2 f a' b' | _, _ => [] end.
Definition zsum (l : list Z) : Z := fold_right Z.add 0 l.
Definition vzero : vec := repeat 0 8.
Definition vfma (acc a b : vec) : vec := zip2 Z.add acc (zip2 Z.mul a b).

Section RegFile.
  Context {A : Type}.
  Definition upd (rf : N -> A) (r : N) (v : A) : N -> A := fun r' => if (r' =? r)%N then v else rf r'.
End RegFile.
Definition regfile := N -> vec.

(* a slice seen from a pointer = the list of elements from the pointer to the end of the slice *)
Fixpoint take (n : nat) (l : list Z) : option (list Z) :=
  match n with
  | O => Some []
  | S k => match l with [] => None | x :: r => match take k r with Some t => Some (x :: t) | None => None end end
  end.
(* read `lanes` float32 at byte offset off; outside the slice (or not on an element boundary) = None *)
Definition vload (lanes : N) (mem : list Z) (off : N) : option vec :=
  if (off mod 4 =? 0)%N then take (N.to_nat lanes) (skipn (N.to_nat (off / 4)) mem) else None.
(* ADDQ $stride, ptr *)
Definition advance (mem : list Z) (stride : N) : option (list Z) :=
  if (stride mod 4 =? 0)%N then Some (skipn (N.to_nat (stride / 4)) mem) else None.

Definition zero_regs (rs : list N) (rf : regfile) : regfile := fold_left (fun f r => upd f r vzero) rs rf.

(* ------------------------------------------------------------------ *)
(* block loop                                                           *)

Fixpoint do_loads (lanes : N) (loads : list (N * N)) (mem : list Z) (rf : regfile) : option regfile :=
  match loads with
  | [] => Some rf
  | (off, r) :: ls => match vload lanes mem off with
                      | None => None
                      | Some v => do_loads lanes ls mem (upd rf r v)
                      end
  end.

Definition exec_line (sub : bool) (lanes : N) (memy : list Z) (rf : regfile) (l : line) : option regfile :=
  match vload lanes memy (l_yoff l) with
  | None => None
  | Some y =>
    match l_tmp l, sub with
    | Some t, true =>                                   (* VSUBPS off(CX), Yx, Yt ; VFMADD231PS Yt, Yt, Yacc *)
        let rf1 := upd rf t (zip2 Z.sub (rf (l_xr l)) y) in
        Some (upd rf1 (l_acc l) (vfma (rf1 (l_acc l)) (rf1 t) (rf1 t)))
    | None, false =>                                    (* VFMADD231PS off(CX), Yx, Yacc *)
        Some (upd rf (l_acc l) (vfma (rf (l_acc l)) (rf (l_xr l)) y))
    | _, _ => None
    end
  end.

Fixpoint do_lines (sub : bool) (lanes : N) (lines : list line) (memy : list Z) (rf : regfile) : option regfile :=
  match lines with
  | [] => Some rf
  | l :: ls => match exec_line sub lanes memy rf l with
               | None => None
               | Some rf' => do_lines sub lanes ls memy rf'
               end
  end.

Definition block_step (P : kparams) (rf : regfile) (px py : list Z) : option (regfile * list Z * list Z) :=
  match do_loads (k_lanes P) (k_loads P) px rf with
  | None => None
  | Some rf1 =>
    match do_lines (k_sub P) (k_lanes P) (k_lines P) py rf1 with
    | None => None
    | Some rf2 =>
      match advance px (k_stride_x P), advance py (k_stride_y P) with
      | Some px', Some py' => Some (rf2, px', py')
      | _, _ => None
      end
    end
  end.

(* blockloop: CMPQ DX, $block_items ; JL tail ; ... ; SUBQ $dec, DX ; JMP blockloop *)
Fixpoint block_loop (P : kparams) (fuel : nat) (rf : regfile) (px py : list Z) (n : Z)
  : option (regfile * list Z * list Z * Z) :=
  match fuel with
  | O => None
  | S f =>
    if n <? Z.of_N (k_block_items P) then Some (rf, px, py, n)
    else match block_step P rf px py with
         | None => None
         | Some (rf', px', py') => block_loop P f rf' px' py' (n - Z.of_N (k_count_dec P))
         end
  end.

(* ------------------------------------------------------------------ *)
(* scalar tail loop                                                     *)

Definition lane0 (v : vec) : Z := nth 0 v 0.
(* VEX scalar operation: lane 0 := z, lanes 1..3 from src1, lanes 4..7 cleared *)
Definition sc_merge (src1 : vec) (z : Z) : vec := z :: firstn 3 (tl src1) ++ repeat 0 4.
(* VMOVSS m32, Xr: lane 0 := m, all other lanes cleared *)
Definition sc_load (z : Z) : vec := z :: repeat 0 7.

Definition tail_step (P : kparams) (rf : regfile) (px py : list Z) : option (regfile * list Z * list Z) :=
  let '(xoff, lr) := k_tail_load P in
  let l := k_tail_line P in
  match vload 1 px xoff, vload 1 py (l_yoff l) with
  | Some [x], Some [y] =>
    let rf0 := upd rf lr (sc_load x) in
    let orf :=
      match l_tmp l, k_sub P with
      | Some t, true =>
          let rf1 := upd rf0 t (sc_merge (rf0 (l_xr l)) (lane0 (rf0 (l_xr l)) - y)) in
          Some (upd rf1 (l_acc l) (sc_merge (rf1 (l_acc l)) (lane0 (rf1 (l_acc l)) + lane0 (rf1 t) * lane0 (rf1 t))))
      | None, false =>
          Some (upd rf0 (l_acc l) (sc_merge (rf0 (l_acc l)) (lane0 (rf0 (l_acc l)) + lane0 (rf0 (l_xr l)) * y)))
      | _, _ => None
      end in
    match orf, advance px (k_tail_stride_x P), advance py (k_tail_stride_y P) with
    | Some rf', Some px', Some py' => Some (rf', px', py')
    | _, _, _ => None
    end
  | _, _ => None
  end.

(* tailloop: CMPQ DX, $tail_cmp ; JE reduce ; ... ; DECQ DX ; JMP tailloop *)
Fixpoint tail_loop (P : kparams) (fuel : nat) (rf : regfile) (px py : list Z) (n : Z) : option regfile :=
  match fuel with
  | O => None
  | S f =>
    if n =? Z.of_N (k_tail_cmp P) then Some rf
    else match tail_step P rf px py with
         | None => None
         | Some (rf', px', py') => tail_loop P f rf' px' py' (n - Z.of_N (k_tail_dec P))
         end
  end.

(* ------------------------------------------------------------------ *)
(* reduction, generic in the lane type so that it can also be run on symbolic lanes *)

Section Reduce.
  Variable A : Type.
  Variable zero : A.
  Variable add : A -> A -> A.
  Definition hadd2 (v : list A) : list A :=
    match v with v0 :: v1 :: v2 :: v3 :: _ => [add v0 v1; add v2 v3] | _ => [] end.
  Definition run_rop (rf : N -> list A) (op : rop) : N -> list A :=
    match op with
    | RAddY a b d => upd rf d (zip2 add (rf a) (rf b))
    | RAddX a b d => upd rf d (zip2 add (firstn 4 (rf a)) (firstn 4 (rf b)) ++ repeat zero 4)
    | RExtractHi s d => upd rf d (firstn 4 (skipn 4 (rf s)) ++ repeat zero 4)
    | RHaddX a b d => upd rf d (hadd2 (rf b) ++ hadd2 (rf a) ++ repeat zero 4)
    end.
  Definition run_reduce (ops : list rop) (rf : N -> list A) : N -> list A := fold_left run_rop ops rf.
End Reduce.

(* ------------------------------------------------------------------ *)
(* the kernel *)

Definition lanes8 : list N := [0; 1; 2; 3; 4; 5; 6; 7]%N.
Definition init_rf (g : N -> N -> Z) : regfile := fun r => map (g r) lanes8.

Definition kernel_g (P : kparams) (g : N -> N -> Z) (xs ys : list Z) : option Z :=
  let fuel := S (length xs) in
  let rf1 := zero_regs (k_zeroed P) (init_rf g) in
  match block_loop P fuel rf1 xs ys (Z.of_nat (length xs)) with      (* DX := x_len *)
  | None => None
  | Some (rf2, px, py, n) =>
    let rf3 := zero_regs (k_tail_zeroed P) rf2 in
    match tail_loop P fuel rf3 px py n with
    | None => None
    | Some rf4 => Some (lane0 (run_reduce Z 0 Z.add (k_reduce P) rf4 (k_ret P)))   (* MOVSS Xret, ret *)
    end
  end.

(* registers hold this at entry when the model is executed (the theorem is for every g) *)
Definition poison (r l : N) : Z := 1000003 + 17 * Z.of_N r + Z.of_N l.
Definition kernel (P : kparams) (xs ys : list Z) : option Z := kernel_g P poison xs ys.

(* ------------------------------------------------------------------ *)
(* side conditions on the generated parameters, checked by computation *)

Fixpoint Nmem (x : N) (l : list N) : bool :=
  match l with [] => false | y :: r => (x =? y)%N || Nmem x r end.
Fixpoint Nnodup (l : list N) : bool :=
  match l with [] => true | x :: r => negb (Nmem x r) && Nnodup r end.
Fixpoint Nlist_eqb (a b : list N) : bool :=
  match a, b with [] , [] => true | x :: a', y :: b' => (x =? y)%N && Nlist_eqb a' b' | _, _ => false end.
Definition Ndisjoint (a b : list N) : bool := forallb (fun x => negb (Nmem x b)) a.
Fixpoint offsets (k : nat) (start step : N) : list N :=
  match k with O => [] | S k' => start :: offsets k' (start + step)%N step end.
Definition tmps_of (ls : list line) : list N :=
  flat_map (fun l => match l_tmp l with Some t => [t] | None => [] end) ls.
(* the temp of a line is not the x register of a later line *)
Fixpoint flow_ok (ls : list line) : bool :=
  match ls with
  | [] => true
  | l :: r => match l_tmp l with Some t => negb (Nmem t (map l_xr r)) | None => true end && flow_ok r
  end.
Definition tmp_matches (sub : bool) (l : line) : bool :=
  match l_tmp l with Some _ => sub | None => negb sub end.

(* symbolic run of the reduction: lane = list of atoms (register*8+lane), add = concatenation *)
Fixpoint Ninsert (x : N) (l : list N) : list N :=
  match l with [] => [x] | y :: r => if (x <=? y)%N then x :: l else y :: Ninsert x r end.
Definition Nsort (l : list N) : list N := fold_right Ninsert [] l.
Definition sym_rf : N -> list (list N) := fun r => map (fun l => [r * 8 + l]%N) lanes8.
Definition sym_result (P : kparams) : list N :=
  nth 0 (run_reduce (list N) [] (@app N) (k_reduce P) sym_rf (k_ret P)) [].
Definition sym_expected (P : kparams) : list N :=
  flat_map (fun a => map (fun l => a * 8 + l)%N lanes8) (k_accs P)
  ++ map (fun l => l_acc (k_tail_line P) * 8 + l)%N [0; 1; 2; 3]%N.
Definition reduce_ok (P : kparams) : bool := Nlist_eqb (Nsort (sym_result P)) (Nsort (sym_expected P)).

Definition block_ok (P : kparams) : bool :=
  (k_lanes P =? 8)%N
  && (0 <? k_unroll P)%N
  && (k_block_items P =? k_unroll P * k_lanes P)%N
  && (k_stride_x P =? 4 * k_block_items P)%N && (k_stride_y P =? 4 * k_block_items P)%N
  && (k_count_dec P =? k_block_items P)%N
  && Nlist_eqb (map fst (k_loads P)) (offsets (length (k_lines P)) 0 (4 * k_lanes P))
  && Nlist_eqb (map l_yoff (k_lines P)) (map fst (k_loads P))
  && Nlist_eqb (map l_xr (k_lines P)) (map snd (k_loads P))
  && Nnodup (map snd (k_loads P))
  && Nnodup (k_accs P)
  && Ndisjoint (k_accs P) (map snd (k_loads P))
  && Ndisjoint (k_accs P) (tmps_of (k_lines P))
  && flow_ok (k_lines P)
  && forallb (tmp_matches (k_sub P)) (k_lines P)
  && forallb (fun a => Nmem a (k_zeroed P)) (k_accs P).

Definition tail_ok (P : kparams) : bool :=
  let l := k_tail_line P in
  (k_tail_cmp P =? 0)%N && (k_tail_dec P =? 1)%N
  && (k_tail_stride_x P =? 4)%N && (k_tail_stride_y P =? 4)%N
  && (fst (k_tail_load P) =? 0)%N && (l_yoff l =? 0)%N
  && (snd (k_tail_load P) =? l_xr l)%N
  && tmp_matches (k_sub P) l
  && negb (Nmem (l_acc l) (k_accs P))
  && negb (Nmem (l_xr l) (k_accs P))
  && Ndisjoint (tmps_of [l]) (k_accs P)
  && negb (l_acc l =? l_xr l)%N
  && negb (Nmem (l_acc l) (tmps_of [l]))
  && Nmem (l_acc l) (k_tail_zeroed P)
  && Ndisjoint (k_tail_zeroed P) (k_accs P).

Definition params_ok (P : kparams) : bool :=
  block_ok P && tail_ok P && reduce_ok P && k_gen_zeroed P && k_gen_reduced P.

(* ------------------------------------------------------------------ *)
(* bit vectors: shard/vectorstore/binary.go encode, distance.go hamming / jaccard *)

(* bit i is set iff vector[i] > threshold[i] *)
Definition bits_of (threshold v : list Z) : list bool := zip2 (fun t x => t <? x) threshold v.
(* little-endian word of at most 64 bits: bit i of the word = i-th boolean *)
Fixpoint word_of (bs : list bool) : N :=
  match bs with [] => 0%N | b :: r => if b then N.succ_double (word_of r) else N.double (word_of r) end.
Fixpoint pack_bits (fuel : nat) (bs : list bool) : list N :=
  match fuel with
  | O => []
  | S f => match bs with [] => [] | _ => word_of (firstn 64 bs) :: pack_bits f (skipn 64 bs) end
  end.
Definition pack (threshold v : list Z) : list N :=
  let bs := bits_of threshold v in pack_bits (length bs) bs.

(* bits.OnesCount64 *)
Fixpoint popn (k : nat) (n : N) : N :=
  match k with O => 0%N | S k' => ((if N.odd n then 1 else 0) + popn k' (N.div2 n))%N end.
Definition popcount (n : N) : N := popn 64 n.

Fixpoint hamming (x y : list N) : N :=
  match x, y with a :: x', b :: y' => (popcount (N.lxor a b) + hamming x' y')%N | _, _ => 0%N end.
(* (intersection, union) ; distance.go returns 0 if union = 0 and 1 - float32(i)/float32(u) otherwise *)
Fixpoint jaccard (x y : list N) : N * N :=
  match x, y with
  | a :: x', b :: y' => let '(i, u) := jaccard x' y' in ((popcount (N.land a b) + i)%N, (popcount (N.lor a b) + u)%N)
  | _, _ => (0%N, 0%N)
  end.

Definition b2n (b : bool) : N := if b then 1%N else 0%N.
Fixpoint count2 (f : bool -> bool -> bool) (a b : list bool) : N :=
  match a, b with x :: a', y :: b' => (b2n (f x y) + count2 f a' b')%N | _, _ => 0%N end.
Definition hamming_def (a b : list bool) : N := count2 xorb a b.
Definition jaccard_def (a b : list bool) : N * N := (count2 andb a b, count2 orb a b).

(* ------------------------------------------------------------------ *)
(* float32 bit patterns *)

(* pattern of the float32 equal to z, exact for |z| < 2^24 *)
Definition f32_bits_of_pos (p : positive) : N :=
  let m := Npos p in
  let e := N.log2 m in
  ((e + 127) * 8388608 + (m - 2 ^ e) * 2 ^ (23 - e))%N.
Definition f32_bits_of_small_Z (z : Z) : N :=
  match z with
  | Z0 => 0%N
  | Zpos p => f32_bits_of_pos p
  | Zneg p => (2147483648 + f32_bits_of_pos p)%N
  end.
Definition f32_neg (b : N) : N := N.lxor b 2147483648.
Definition small (z : Z) : bool := Z.abs z <? 16777216.

(* exact value of a finite float32 pattern; None for Inf / NaN *)
Definition f32_to_Q (b : N) : option Q :=
  let s := N.testbit b 31 in
  let e := ((b / 8388608) mod 256)%N in
  let m := (b mod 8388608)%N in
  if (e =? 255)%N then None
  else
    let mag : Q :=
      if (e =? 0)%N then Qmake (Z.of_N m) (2 ^ 149)%positive
      else if (150 <=? e)%N then Qmake (Z.of_N ((8388608 + m) * 2 ^ (e - 150))) 1
      else Qmake (Z.of_N (8388608 + m)) (2 ^ N.succ_pos (149 - e))%positive in
    Some (if s then Qopp mag else mag).

(* ------------------------------------------------------------------ *)
(* product quantiser: shard/vectorstore/product.go
   Every number below is an exact value in units of 2^-149 (the smallest float32
   denormal), so every finite float32 is an integer and all arithmetic is exact in Z;
   distances are then in units of 2^-298.
   metric: 0 euclidean, 1 dot, 2 cosine (newProductQuantizer maps cosine to euclidean).
   Layout: flat centroids (sub-vector i, centroid j) at [(i*k + j)*sl, +sl), the table
   entry (i, j, j') at (i*k + j)*k + j'. *)

Definition f32_to_u (b : N) : option Z :=
  let s := N.testbit b 31 in
  let e := ((b / 8388608) mod 256)%N in
  let m := (b mod 8388608)%N in
  if (e =? 255)%N then None
  else
    let mag := if (e =? 0)%N then Z.of_N m else Z.of_N (N.shiftl (8388608 + m) (e - 1)) in
    Some (if s then - mag else mag).
Fixpoint f32s_to_u (bs : list N) : option (list Z) :=
  match bs with
  | [] => Some []
  | b :: r => match f32_to_u b, f32s_to_u r with Some z, Some zs => Some (z :: zs) | _, _ => None end
  end.
Definition u_unit : Z := Eval vm_compute in 2 ^ 149.

Fixpoint dot_abs (xs ys : list Z) : Z :=
  match xs, ys with x :: xs', y :: ys' => Z.abs (x * y) + dot_abs xs' ys' | _, _ => 0 end.
Definition pq_dfn (metric : N) (xs ys : list Z) : Z := if (metric =? 1)%N then negdot xs ys else sqeuclid xs ys.
(* sum of the magnitudes of the terms: the scale of the float32 rounding error *)
Definition pq_dabs (metric : N) (xs ys : list Z) : Z := if (metric =? 1)%N then dot_abs xs ys else sqeuclid xs ys.

Definition pq_centroid (sl k : nat) (cents : list Z) (i j : nat) : list Z :=
  firstn sl (skipn ((i * k + j) * sl) cents).
Definition pq_subvec (sl : nat) (v : list Z) (i : nat) : list Z := firstn sl (skipn (i * sl) v).

(* sum over the sub-vectors i = i0, i0+1, ... of f i (code of x in i) (code of y in i) *)
Fixpoint pq_sum (f : nat -> nat -> nat -> Z) (i : nat) (ca cb : list nat) : Z :=
  match ca, cb with a :: ca', b :: cb' => f i a b + pq_sum f (S i) ca' cb' | _, _ => 0 end.
(* DistanceFromPoint: sum_i distFn(centroid_i(code_a i), centroid_i(code_b i)) *)
Definition pq_point_dist (metric : N) (sl k : nat) (cents : list Z) (ca cb : list nat) : Z :=
  pq_sum (fun i a b => pq_dfn metric (pq_centroid sl k cents i a) (pq_centroid sl k cents i b)) 0 ca cb.
Definition pq_point_abs (metric : N) (sl k : nat) (cents : list Z) (ca cb : list nat) : Z :=
  pq_sum (fun i a b => pq_dabs metric (pq_centroid sl k cents i a) (pq_centroid sl k cents i b)) 0 ca cb.
(* DistanceFromFloat: sum_i distFn(q_i, centroid_i(code_b i)) *)
Fixpoint pq_qsum (f : nat -> nat -> Z) (i : nat) (cb : list nat) : Z :=
  match cb with b :: cb' => f i b + pq_qsum f (S i) cb' | [] => 0 end.
Definition pq_query_dist (metric : N) (sl k : nat) (cents q : list Z) (cb : list nat) : Z :=
  pq_qsum (fun i b => pq_dfn metric (pq_subvec sl q i) (pq_centroid sl k cents i b)) 0 cb.
Definition pq_query_abs (metric : N) (sl k : nat) (cents q : list Z) (cb : list nat) : Z :=
  pq_qsum (fun i b => pq_dabs metric (pq_subvec sl q i) (pq_centroid sl k cents i b)) 0 cb.

(* |got - want| <= tol, all in units of 2^-298 *)
Definition close_to (tol got want : Z) : bool := Z.abs (got - want) <=? tol.
(* float32 rounding allowance: 2^-18 of the sum of the magnitudes of the terms (at most 16
   coordinates and 4 sub-vectors: fewer than 32 roundings of relative size 2^-24 each);
   nothing when the data is on the exact grid *)
Definition pq_tol (exact : bool) (abs_terms : Z) : Z := if exact then 0 else abs_terms / 262144 + 1.
(* multiples of 1/8 of magnitude at most 16: with at most 16 coordinates every product,
   difference, square and partial sum is a multiple of 2^-6 below 2^18, exact in float32 *)
Definition grid_mask : Z := Eval vm_compute in 2 ^ 146 - 1.
Definition grid_max : Z := Eval vm_compute in 16 * 2 ^ 149.
Definition on_grid (z : Z) : bool := (Z.land z grid_mask =? 0) && (Z.abs z <=? grid_max).

(* the centroid chosen for sub-vector i is a minimiser of distFn(sub-vector, centroid), up to tol *)
Definition pq_is_argmin (metric : N) (exact : bool) (sl k : nat) (cents : list Z) (s : list Z) (i c : nat) : bool :=
  let dc := pq_dfn metric s (pq_centroid sl k cents i c) in
  let ac := pq_dabs metric s (pq_centroid sl k cents i c) in
  forallb (fun j => let cj := pq_centroid sl k cents i j in
                    dc <=? pq_dfn metric s cj + pq_tol exact (ac + pq_dabs metric s cj)) (seq 0 k).
Fixpoint pq_codes_argmin (metric : N) (exact : bool) (sl k : nat) (cents v : list Z) (i : nat) (code : list nat) : bool :=
  match code with
  | [] => true
  | c :: r => pq_is_argmin metric exact sl k cents (pq_subvec sl v i) i c && pq_codes_argmin metric exact sl k cents v (S i) r
  end.

(* every table entry (i, j, j') is distFn(centroid_i j, centroid_i j'), the diagonal included *)
Definition pq_table_ok (metric : N) (exact : bool) (m k sl : nat) (cents table : list Z) : bool :=
  forallb (fun i => forallb (fun j => forallb (fun j' =>
    let cj := pq_centroid sl k cents i j in let cj' := pq_centroid sl k cents i j' in
    close_to (pq_tol exact (pq_dabs metric cj cj')) (nth ((i * k + j) * k + j') table 0 * u_unit) (pq_dfn metric cj cj'))
    (seq 0 k)) (seq 0 k)) (seq 0 m).
