(* Model_C18.v -- definitions only.

   C18: no request crashes the server; invalid input is refused without side
   effects.  The model starts AFTER Go's JSON / MessagePack decoders: a request
   is the decoded struct, abstracted to what the validation code looks at
   (lengths, operators, limits, type tags).  It mirrors

     httpapi/v2/handlers.go, httpapi/v1/handlers.go   Validate() + handler bodies
     models/index.go      IndexSchema.Validate, CheckCompatibleMap
     models/quantizer.go  Quantizer.Validate
     models/search.go     SearchRequest.Validate, Query.Validate, Query.ValidateSchema
     shard/index/search.go   the positions at which the evaluator hands a
                             (stored vectors of the index, query vector) pair
                             to a distance function            (eval_reach)
     shard/index/dispatch.go the write-path counterpart          (write_reach)

   over the constants of DocLimits.v, which gen/gen_doc_limits.py regenerates
   from the Go sources on every run:  enf_*  = what the Validate bodies compare
   against,  doc_*  = what the binding tags (the published JSON schema)
   document,  vs_* / eval_* / ccm_* / hdl_*  = structural facts (which filters
   are recursed into, which length comparisons exist, validation before the
   first cluster call).  A check the Go code performs appears here as
   [gate flag check]: when the generator no longer finds the check the flag is
   false and the model stops performing it, so the theorems that need it break. *)
From Coq Require Import List ZArith NArith Bool String QArith.
From Semadb Require Import DocLimits Dyadic.
Import ListNotations.
Open Scope Z_scope.

Definition in_range (lo hi x : Z) : bool := (lo <=? x) && (x <=? hi).
Definition mem (s : string) (l : list string) : bool := existsb (String.eqb s) l.
Definition gate (flag check : bool) : bool := if flag then check else true.
Definition seq (a b : string) : bool := String.eqb a b.

Fixpoint lookup {A : Type} (k : string) (l : list (string * A)) : option A :=
  match l with
  | [] => None
  | (k', v) :: r => if String.eqb k k' then Some v else lookup k r
  end.

(* ------------------------------------------------------------------ *)
(* Index schema (models/index.go, models/quantizer.go)                 *)

Record bqparams := mkBQ { bq_has_threshold : bool; bq_trigger : Z; bq_metric : string }.
Record pqparams := mkPQ { pq_centroids : Z; pq_subvectors : Z; pq_trigger : Z }.
Record quantizer := mkQz { qz_type : string; qz_binary : option bqparams; qz_product : option pqparams }.
(* parameters of a vector index; a flat index uses vp_size, vp_metric, vp_quant only;
   vp_alpha is the float32 bit pattern *)
Record vparams := mkVP { vp_size : Z; vp_metric : string; vp_ssize : Z; vp_degree : Z; vp_alpha : N;
                         vp_quant : option quantizer }.
Record ivalue := mkIV { iv_type : string; iv_flat : option vparams; iv_vamana : option vparams;
                        iv_text : option string; iv_string : bool; iv_sarr : bool }.
Definition ischema := list (string * ivalue).

(* [only_without_threshold]: the pinned tree tested the triggerThreshold range only when no threshold was given *)
Definition validate_bq_gen (only_without_threshold : bool) (b : bqparams) : bool :=
  (if only_without_threshold
   then bq_has_threshold b || in_range enf_bq_trigger_min enf_bq_trigger_max (bq_trigger b)
   else in_range enf_bq_trigger_min enf_bq_trigger_max (bq_trigger b))
  && mem (bq_metric b) enf_bq_metrics.
Definition validate_bq (b : bqparams) : bool := validate_bq_gen enf_bq_trigger_only_without_threshold b.

Definition validate_pq (p : pqparams) : bool :=
  in_range enf_pq_centroids_min enf_pq_centroids_max (pq_centroids p)
  && (enf_pq_subvectors_min <=? pq_subvectors p)
  && in_range enf_pq_trigger_min enf_pq_trigger_max (pq_trigger p).

Definition validate_quantizer (q : quantizer) : bool :=
  mem (qz_type q) enf_quantizer_types &&
  (if seq (qz_type q) "binary" then match qz_binary q with Some b => validate_bq b | None => false end
   else if seq (qz_type q) "product" then match qz_product q with Some p => validate_pq p | None => false end
   else true).

Definition validate_oquant (o : option quantizer) : bool :=
  match o with Some q => validate_quantizer q | None => true end.

(* Go: p.Alpha < lo || p.Alpha > hi on float32; every comparison with NaN is false *)
Definition f32_ltb (a b : N) : bool :=
  negb (f32_is_nan a) && negb (f32_is_nan b) && Qltb (f32_to_Q a) (f32_to_Q b).
(* [rejects_nan]: !(alpha >= lo && alpha <= hi) refuses NaN; the pinned alpha < lo || alpha > hi lets it pass *)
Definition alpha_ok_gen (rejects_nan : bool) (a : N) : bool :=
  (negb rejects_nan || negb (f32_is_nan a))
  && negb (f32_ltb a enf_alpha_min_f32) && negb (f32_ltb enf_alpha_max_f32 a).
Definition alpha_ok (a : N) : bool := alpha_ok_gen enf_alpha_rejects_nan a.

(* vectorstore.New / newProductQuantizer: a product quantizer can be built for an index iff the metric is
   hamming / jaccard (the binary store is used instead), or the metric is euclidean / cosine / dot and
   numSubVectors divides the vector size.  Anything else makes every later use of the index fail. *)
Definition pq_unbuildable (p : vparams) : bool :=
  match vp_quant p with
  | Some q =>
      seq (qz_type q) "product" &&
      negb (seq (vp_metric p) "hamming" || seq (vp_metric p) "jaccard") &&
      match qz_product q with
      | Some pq => negb ((vp_size p) mod (pq_subvectors pq) =? 0)
                   || negb (seq (vp_metric p) "euclidean" || seq (vp_metric p) "cosine" || seq (vp_metric p) "dot")
      | None => false end
  | None => false
  end.

(* Quantizer.ValidateFor(vectorSize, distanceMetric), after q.Validate() *)
Definition quantizer_fits (p : vparams) : bool :=
  match vp_quant p with
  | Some q =>
      if seq (qz_type q) "product" && negb (mem (vp_metric p) enf_pq_exempt_metrics) then
        mem (vp_metric p) enf_pq_metrics
        && gate enf_pq_subvectors_divide_size
             (match qz_product q with Some pq => (vp_size p) mod (pq_subvectors pq) =? 0 | None => false end)
      else true
  | None => true
  end.

Definition haversine_ok (hsize : Z) (p : vparams) : bool :=
  negb (seq (vp_metric p) "haversine") || (vp_size p =? hsize).

Definition validate_flat (p : vparams) : bool :=
  in_range enf_flat_vector_size_min enf_flat_vector_size_max (vp_size p)
  && mem (vp_metric p) enf_flat_metrics
  && haversine_ok enf_flat_haversine_size p
  && gate enf_flat_validates_quantizer (validate_oquant (vp_quant p))
  && gate enf_flat_quantizer_for_index (quantizer_fits p).

Definition validate_vamana (p : vparams) : bool :=
  in_range enf_vector_size_min enf_vector_size_max (vp_size p)
  && mem (vp_metric p) enf_metrics
  && haversine_ok enf_haversine_size p
  && in_range enf_index_search_size_min enf_index_search_size_max (vp_ssize p)
  && in_range enf_degree_min enf_degree_max (vp_degree p)
  && alpha_ok (vp_alpha p)
  && gate enf_vamana_validates_quantizer (validate_oquant (vp_quant p))
  && gate enf_vamana_quantizer_for_index (quantizer_fits p).

Definition validate_ivalue (v : ivalue) : bool :=
  mem (iv_type v) enf_index_types &&
  (if seq (iv_type v) "vectorFlat" then
     gate enf_index_params_required_VectorFlat (match iv_flat v with Some p => validate_flat p | None => false end)
   else if seq (iv_type v) "vectorVamana" then
     gate enf_index_params_required_VectorVamana (match iv_vamana v with Some p => validate_vamana p | None => false end)
   else if seq (iv_type v) "text" then
     gate enf_index_params_required_Text (match iv_text v with Some a => mem a enf_analysers | None => false end)
   else if seq (iv_type v) "string" then gate enf_index_params_required_String (iv_string v)
   else if seq (iv_type v) "stringArray" then gate enf_index_params_required_StringArray (iv_sarr v)
   else true).

Definition validate_ischema (s : ischema) : bool :=
  gate enf_schema_validates_every_value (forallb (fun kv => validate_ivalue (snd kv)) s).

(* dimension of a vector index property; None when the property is not a vector index *)
Definition dim_of (v : ivalue) : option Z :=
  if seq (iv_type v) "vectorFlat" then option_map vp_size (iv_flat v)
  else if seq (iv_type v) "vectorVamana" then option_map vp_size (iv_vamana v)
  else None.

(* ------------------------------------------------------------------ *)
(* Collection creation                                                 *)

Definition runes_ok (ranges : list (N * N)) (runes : list N) : bool :=
  forallb (fun r => existsb (fun lh => (fst lh <=? r)%N && (r <=? snd lh)%N) ranges) runes.

(* v2: len(req.Id) counts bytes, the character test ranges over runes *)
Record create2 := mkC2 { c2_id_bytes : Z; c2_id_runes : list N; c2_schema_present : bool; c2_schema : ischema }.
Definition validate_create2 (r : create2) : bool :=
  in_range enf_v2_collection_id_min enf_v2_collection_id_max (c2_id_bytes r)
  && runes_ok enf_v2_collection_id_runes (c2_id_runes r)
  && gate enf_v2_create_validates_schema (validate_ischema (c2_schema r)).

Record create1 := mkC1 { c1_id_bytes : Z; c1_id_runes : list N; c1_vsize : Z; c1_metric : string }.
Definition validate_create1 (r : create1) : bool :=
  in_range enf_v1_collection_id_min enf_v1_collection_id_max (c1_id_bytes r)
  && runes_ok enf_v1_collection_id_runes (c1_id_runes r)
  && in_range enf_v1_vector_size_min enf_v1_vector_size_max (c1_vsize r)
  && mem (c1_metric r) enf_v1_metrics.
(* the schema the v1 handler builds *)
Definition v1_schema (r : create1) : ischema :=
  [("vector"%string,
    mkIV "vectorVamana" None
         (Some (mkVP (c1_vsize r) (c1_metric r) v1_default_search_size v1_default_degree v1_default_alpha_f32 None))
         None false false)].

(* ------------------------------------------------------------------ *)
(* Points (v2): what CheckCompatibleMap, ExtractIdField and the size    *)
(* test look at.  pval = what the walk along the dotted property name   *)
(* finds in the decoded map (Go dynamic type of the value)              *)

Inductive pval :=
| PAbsent                      (* some segment is missing: the property is skipped *)
| PBlocked                     (* an intermediate segment is not a map: error *)
| PArr (n : Z) (allfloat allstring : bool)   (* []any / []float32 / []float64 / []string of length n *)
| PStr | PNum64 | PNum32
| PIntOk                       (* int64 int int32 uint uint32 *)
| PIntBad                      (* int8 int16 uint8 uint16 uint64: not accepted for an integer index *)
| POther.                      (* nil bool map bytes ... *)

Inductive idstate := IdAbsent | IdValid | IdBadString | IdNotString.
(* pt_vals: per index property, what the walk along the dotted name finds (split on ".", descend through
   maps): this is how msgpack's Decoder.Query -- the dispatcher of the shard -- resolves the property in the
   stored bytes.  pt_literal: for dotted index properties, the value (if any) that sits in the ROOT map
   under a key literally equal to the whole property name, e.g. the key "geo.vec" next to {"geo": {...}};
   the dispatcher never looks at it. *)
Record point := mkPt { pt_id : idstate; pt_vals : list (string * pval); pt_size : Z;
                       pt_literal : list (string * pval) }.

(* the value the dispatcher reaches *)
Definition pval_of (name : string) (p : point) : pval :=
  match lookup name (pt_vals p) with Some v => v | None => PAbsent end.

(* the value CheckCompatibleMap validates.  It resolves the property by the same nested walk
   (ccm_resolves_by_nested_walk, read off the source by the translator); if it does anything else the
   model assumes the cheapest deviation, a lookup of the literal root key first *)
Definition ccm_value (name : string) (p : point) : pval :=
  if ccm_resolves_by_nested_walk then pval_of name p
  else match lookup name (pt_literal p) with Some v => v | None => pval_of name p end.

Definition check_prop (iv : ivalue) (pv : pval) : bool :=
  match pv with
  | PAbsent => true
  | PBlocked => negb ccm_nested_needs_map
  | _ =>
    if seq (iv_type iv) "vectorFlat" then
      match pv, iv_flat iv with
      | PArr n af _, Some p => af && gate ccm_checks_flat_length (n =? vp_size p)
      | _, _ => false
      end
    else if seq (iv_type iv) "vectorVamana" then
      match pv, iv_vamana iv with
      | PArr n af _, Some p => af && gate ccm_checks_vamana_length (n =? vp_size p)
      | _, _ => false
      end
    else if seq (iv_type iv) "text" || seq (iv_type iv) "string" then
      match pv with PStr => true | _ => false end
    else if seq (iv_type iv) "integer" then
      match pv with PIntOk | PNum32 | PNum64 => true | _ => false end
    else if seq (iv_type iv) "float" then
      match pv with PNum32 | PNum64 => true | _ => false end
    else if seq (iv_type iv) "stringArray" then
      match pv with PArr _ _ allstr => allstr | _ => false end
    else true
  end.

Definition check_compatible (s : ischema) (p : point) : bool :=
  forallb (fun kv => check_prop (snd kv) (ccm_value (fst kv) p)) s.

(* write path: (index dimension, vector length) pairs handed to a vector store, hence to a
   distance function: getOperation -> castDataToArray -> InsertUpdateDelete *)
Definition write_reach (s : ischema) (p : point) : list (Z * Z) :=
  flat_map (fun kv =>
    match dim_of (snd kv), (if dispatch_resolves_by_query then pval_of (fst kv) p else POther) with
    | Some d, PArr n _ _ => [(d, n)]
    | _, _ => []
    end) s.

Definition id_ok (create_new : bool) (i : idstate) : bool :=
  match i with IdValid => true | IdAbsent => create_new | _ => false end.

Definition point_ok (s : ischema) (maxsize : Z) (create_new : bool) (p : point) : bool :=
  check_compatible s p && id_ok create_new (pt_id p) && (pt_size p <=? maxsize).

(* v1 points: id ("" = absent), vector length, encoded size *)
Record point1 := mkPt1 { p1_id : idstate; p1_len : Z; p1_size : Z }.

(* ------------------------------------------------------------------ *)
(* Search requests (models/search.go)                                  *)

(* options of a ranked leaf (vectorFlat / vectorVamana / text); r_len is the vector length,
   for text the length of the value; r_ssize is used by vectorVamana only *)
Record ropts (Q : Type) := mkR { r_len : Z; r_op : string; r_ssize : Z; r_limit : Z; r_filter : option Q }.
Arguments mkR {Q}. Arguments r_len {Q}. Arguments r_op {Q}. Arguments r_ssize {Q}.
Arguments r_limit {Q}. Arguments r_filter {Q}.
(* options of a filter leaf: s_len = len(value) (string) or number of values (stringArray);
   s_range_ok = EndValue > Value; s_uuid_ok = every value parses as a UUID *)
Record sopts := mkS { s_len : Z; s_op : string; s_range_ok : bool; s_uuid_ok : bool }.

Inductive query : Type :=
| Qry (prop : string)
      (qflat qvam qtext : option (ropts query))
      (qstr qint qflt qsarr : option sopts)
      (qand qor : list query).

Definition range_ok (checked : bool) (o : sopts) : bool :=
  if seq (s_op o) "inRange" then gate checked (s_range_ok o) else true.

Definition validate_string (o : sopts) : bool :=
  gate enf_string_value_nonempty (negb (s_len o =? 0)) && mem (s_op o) enf_string_ops && range_ok enf_string_range_checked o.
Definition validate_integer (o : sopts) : bool := mem (s_op o) enf_integer_ops && range_ok enf_integer_range_checked o.
Definition validate_float (o : sopts) : bool := mem (s_op o) enf_float_ops && range_ok enf_float_range_checked o.
Definition validate_sarr (o : sopts) : bool :=
  gate enf_string_array_value_nonempty (negb (s_len o =? 0)) && mem (s_op o) enf_string_array_ops.

Definition oall {A : Type} (f : A -> bool) (o : option A) : bool := match o with Some a => f a | None => true end.

(* Query.Validate: every option that is present is validated, whatever the property *)
Fixpoint validate_query (q : query) : bool :=
  match q with
  | Qry prop qflat qvam qtext qstr qint qflt qsarr qand qor =>
    gate enf_query_property_nonempty (negb (seq prop ""))
    && gate enf_query_validates_VectorFlat
         (match qflat with
          | Some o =>
              in_range enf_flat_query_vector_min enf_flat_query_vector_max (r_len o)
              && mem (r_op o) enf_flat_ops
              && in_range enf_flat_limit_min enf_flat_limit_max (r_limit o)
              && gate enf_flat_validates_filter (match r_filter o with Some f => validate_query f | None => true end)
          | None => true end)
    && gate enf_query_validates_VectorVamana
         (match qvam with
          | Some o =>
              in_range enf_query_vector_min enf_query_vector_max (r_len o)
              && mem (r_op o) enf_vamana_ops
              && in_range enf_search_size_min enf_search_size_max (r_ssize o)
              && in_range enf_vamana_limit_min enf_vamana_limit_max (r_limit o)
              && gate enf_search_size_ge_limit (r_limit o <=? r_ssize o)
              && gate enf_vamana_validates_filter (match r_filter o with Some f => validate_query f | None => true end)
          | None => true end)
    && gate enf_query_validates_Text
         (match qtext with
          | Some o =>
              gate enf_text_value_nonempty (negb (r_len o =? 0))
              && mem (r_op o) enf_text_ops
              && in_range enf_text_limit_min enf_text_limit_max (r_limit o)
              && gate enf_text_validates_filter (match r_filter o with Some f => validate_query f | None => true end)
          | None => true end)
    && gate enf_query_validates_String (oall validate_string qstr)
    && gate enf_query_validates_Integer (oall validate_integer qint)
    && gate enf_query_validates_Float (oall validate_float qflt)
    && gate enf_query_validates_StringArray (oall validate_sarr qsarr)
    && negb (seq prop "_and" && match qand with [] => true | _ => false end)
    && negb (seq prop "_or" && match qor with [] => true | _ => false end)
    && gate enf_query_validates_and (forallb validate_query qand)
    && gate enf_query_validates_or (forallb validate_query qor)
    && (if seq prop "_id" then
          match qstr, qsarr with
          | Some o, _ => seq (s_op o) "equals" && s_uuid_ok o
          | None, Some o => seq (s_op o) "containsAny" && s_uuid_ok o
          | None, None => false
          end
        else true)
  end.

(* Query.ValidateSchema *)
Fixpoint validate_schema (s : ischema) (q : query) : bool :=
  match q with
  | Qry prop qflat qvam qtext qstr qint qflt qsarr qand qor =>
    if seq prop "_and" then gate vs_recurses_and (forallb (validate_schema s) qand)
    else if seq prop "_or" then gate vs_recurses_or (forallb (validate_schema s) qor)
    else if seq prop "_id" then true
    else match lookup prop s with
    | None => false
    | Some iv =>
      if seq (iv_type iv) "vectorFlat" then
        match qflat, iv_flat iv with
        | Some o, Some p =>
            gate vs_checks_flat_length (r_len o =? vp_size p)
            && gate vs_recurses_flat_filter (match r_filter o with Some f => validate_schema s f | None => true end)
        | _, _ => false
        end
      else if seq (iv_type iv) "vectorVamana" then
        match qvam, iv_vamana iv with
        | Some o, Some p =>
            gate vs_checks_vamana_length (r_len o =? vp_size p)
            && gate vs_recurses_vamana_filter (match r_filter o with Some f => validate_schema s f | None => true end)
        | _, _ => false
        end
      else if seq (iv_type iv) "text" then
        match qtext with
        | Some o => gate vs_recurses_text_filter (match r_filter o with Some f => validate_schema s f | None => true end)
        | None => false
        end
      else if seq (iv_type iv) "string" then match qstr with Some _ => true | None => false end
      else if seq (iv_type iv) "stringArray" then match qsarr with Some _ => true | None => false end
      else if seq (iv_type iv) "integer" then match qint with Some _ => true | None => false end
      else if seq (iv_type iv) "float" then match qflt with Some _ => true | None => false end
      else false
    end
  end.

(* the (index dimension, query vector length) pairs the evaluator of shard/index/search.go hands
   to a distance function (vamanaIndex.Search / flatIndex.Search), following its recursion through
   _and, _or and the filters of vector and text leaves.  Errors of sub-searches are ignored, which
   only enlarges the list. *)
Definition glist {A : Type} (flag : bool) (l : list A) : list A := if flag then l else [].

Fixpoint eval_reach (s : ischema) (q : query) : list (Z * Z) :=
  match q with
  | Qry prop qflat qvam qtext qstr qint qflt qsarr qand qor =>
    if seq prop "_and" then glist eval_recurses_and (flat_map (eval_reach s) qand)
    else if seq prop "_or" then glist eval_recurses_or (flat_map (eval_reach s) qor)
    else if seq prop "_id" then []
    else match lookup prop s with
    | None => []
    | Some iv =>
      if seq (iv_type iv) "vectorVamana" then
        match qvam, iv_vamana iv with
        | Some o, Some p =>
            glist eval_recurses_vamana_filter (match r_filter o with Some f => eval_reach s f | None => [] end)
            ++ [(vp_size p, r_len o)]
        | _, _ => []
        end
      else if seq (iv_type iv) "vectorFlat" then
        match qflat, iv_flat iv with
        | Some o, Some p =>
            glist eval_recurses_flat_filter (match r_filter o with Some f => eval_reach s f | None => [] end)
            ++ [(vp_size p, r_len o)]
        | _, _ => []
        end
      else if seq (iv_type iv) "text" then
        match qtext with
        | Some o => glist eval_recurses_text_filter (match r_filter o with Some f => eval_reach s f | None => [] end)
        | None => []
        end
      else []
    end
  end.

(* the (index dimension, query vector length) pairs ValidateSchema compares *)
Fixpoint vs_pairs (s : ischema) (q : query) : list (Z * Z) :=
  match q with
  | Qry prop qflat qvam qtext qstr qint qflt qsarr qand qor =>
    if seq prop "_and" then glist vs_recurses_and (flat_map (vs_pairs s) qand)
    else if seq prop "_or" then glist vs_recurses_or (flat_map (vs_pairs s) qor)
    else if seq prop "_id" then []
    else match lookup prop s with
    | None => []
    | Some iv =>
      if seq (iv_type iv) "vectorVamana" then
        match qvam, iv_vamana iv with
        | Some o, Some p =>
            glist vs_recurses_vamana_filter (match r_filter o with Some f => vs_pairs s f | None => [] end)
            ++ glist vs_checks_vamana_length [(vp_size p, r_len o)]
        | _, _ => []
        end
      else if seq (iv_type iv) "vectorFlat" then
        match qflat, iv_flat iv with
        | Some o, Some p =>
            glist vs_recurses_flat_filter (match r_filter o with Some f => vs_pairs s f | None => [] end)
            ++ glist vs_checks_flat_length [(vp_size p, r_len o)]
        | _, _ => []
        end
      else if seq (iv_type iv) "text" then
        match qtext with
        | Some o => glist vs_recurses_text_filter (match r_filter o with Some f => vs_pairs s f | None => [] end)
        | None => []
        end
      else []
    end
  end.

Record search2 := mkSr { sr_query : query; sr_sort_n : Z; sr_sort_props_ok : bool; sr_offset : Z; sr_limit : Z }.

Definition validate_request (r : search2) : bool :=
  gate enf_request_validates_query (validate_query (sr_query r))
  && (sr_sort_n r <=? enf_sort_max)
  && gate enf_request_validates_sort (gate enf_sort_property_nonempty (sr_sort_props_ok r))
  && (enf_offset_min <=? sr_offset r)
  && in_range enf_request_limit_min enf_request_limit_max (sr_limit r).

Definition validate_search (s : ischema) (r : search2) : bool :=
  validate_request r && validate_schema s (sr_query r).

(* v1 search: vector length and limit; the handler builds a vectorVamana query on "vector" *)
Record search1 := mkSr1 { s1_len : Z; s1_limit : Z }.
Definition validate_search1 (r : search1) : bool :=
  in_range enf_v1_search_vector_min enf_v1_search_vector_max (s1_len r)
  && in_range enf_v1_search_limit_min enf_v1_search_limit_max (s1_limit r).
Definition v1_query (r : search1) : query :=
  Qry "vector" None (Some (mkR (s1_len r) "near" v1_query_search_size (if s1_limit r =? 0 then 10 else s1_limit r) None))
      None None None None None [] [].

(* ------------------------------------------------------------------ *)
(* Handlers: what happens before the first clusterNode call            *)

Inductive op :=
| OpCreate | OpList | OpGet | OpDeleteCollection
| OpInsert (n : Z) | OpUpdate (n : Z) | OpDeletePoints (n : Z) | OpSearch.
Inductive hres := Reject | Panic | Call (o : op).

(* [guarded flag valid o]: flag = the handler validates before the cluster call *)
Definition guarded (flag valid : bool) (o : op) : hres :=
  if flag then (if valid then Call o else Reject) else Call o.

Definition handler_create2 (r : create2) : hres :=
  guarded hdl_v2_create_validates_first (validate_create2 r) OpCreate.

Record points2 := mkPts { ps_points : list point; ps_maxsize : Z }.
Definition count_ok (lo hi : Z) {A : Type} (l : list A) : bool := in_range lo hi (Z.of_nat (List.length l)).

Definition validate_insert2 (s : ischema) (r : points2) : bool :=
  count_ok enf_points_insert_min enf_points_insert_max (ps_points r)
  && forallb (point_ok s (ps_maxsize r) true) (ps_points r).
Definition validate_update2 (s : ischema) (r : points2) : bool :=
  count_ok enf_points_update_min enf_points_update_max (ps_points r)
  && forallb (point_ok s (ps_maxsize r) false) (ps_points r).
Definition handler_insert2 (s : ischema) (r : points2) : hres :=
  guarded hdl_v2_insert_validates_first (validate_insert2 s r) (OpInsert (Z.of_nat (List.length (ps_points r)))).
Definition handler_update2 (s : ischema) (r : points2) : hres :=
  guarded hdl_v2_update_validates_first (validate_update2 s r) (OpUpdate (Z.of_nat (List.length (ps_points r)))).

(* delete points (both versions): the list of "parses as UUID" flags *)
Definition validate_delete (lo hi : Z) (uuid_checked : bool) (ids : list bool) : bool :=
  count_ok lo hi ids && gate uuid_checked (forallb (fun b => b) ids).
Definition handler_delete2 (ids : list bool) : hres :=
  guarded hdl_v2_delete_validates_first
          (validate_delete enf_delete_ids_min enf_delete_ids_max enf_delete_ids_uuid ids)
          (OpDeletePoints (Z.of_nat (List.length ids))).
Definition handler_delete1 (ids : list bool) : hres :=
  guarded hdl_v1_delete_validates_first
          (validate_delete enf_v1_delete_ids_min enf_v1_delete_ids_max true ids)
          (OpDeletePoints (Z.of_nat (List.length ids))).

Definition handler_search2 (s : ischema) (r : search2) : hres :=
  guarded hdl_v2_search_validates_first (validate_search s r) OpSearch.

(* ---- v1: every handler reads IndexSchema["vector"].VectorVamana.VectorSize without a nil test *)
(* since fix 302aec2: the helper hands the vamana block out only when the property IS a vamana index
   (hdl_v1_helper_checks_type, read off the source); before, whatever vamana block the property carried *)
Definition v1_dim (s : ischema) : option Z :=
  match lookup "vector" s with
  | Some iv =>
      if hdl_v1_helper_checks_type && negb (seq (iv_type iv) "vectorVamana") then None
      else option_map vp_size (iv_vamana iv)
  | None => None
  end.

Definition handler_create1 (r : create1) : hres :=
  guarded hdl_v1_create_validates_first (validate_create1 r) OpCreate.

(* [assumes]: the pinned handlers dereference the parameters without a nil test (panic); the repaired
   ones answer 400 before any cluster call, and the listing skips such collections *)
Definition missing_index (assumes : bool) : hres := if assumes then Panic else Reject.

Definition handler_list1_gen (assumes : bool) (schemas : list ischema) : hres :=
  if assumes && existsb (fun s => match v1_dim s with None => true | Some _ => false end) schemas
  then Panic else Call OpList.
Definition handler_get1_gen (assumes : bool) (s : ischema) : hres :=
  match v1_dim s with
  | None => missing_index assumes
  | Some _ => Call OpGet
  end.
Definition handler_list1 := handler_list1_gen hdl_v1_assumes_vector_vamana.
Definition handler_get1 := handler_get1_gen hdl_v1_assumes_vector_vamana.

Record points1 := mkPts1 { ps1_points : list point1; ps1_maxsize : Z }.
Definition validate_points1 (lo hi vlo vhi : Z) (create_new : bool) (r : points1) : bool :=
  count_ok lo hi (ps1_points r)
  && forallb (fun p => id_ok create_new (p1_id p) && in_range vlo vhi (p1_len p)) (ps1_points r).
Definition points1_fit (d : Z) (r : points1) : bool :=
  forallb (fun p => (p1_len p =? d) && (p1_size p <=? ps1_maxsize r)) (ps1_points r).

Definition handler_points1_gen (assumes flag valid : bool) (s : ischema) (r : points1) (o : op) : hres :=
  if negb flag then Call o
  else if negb valid then Reject
  else match v1_dim s with
       | None => missing_index assumes
       | Some d => if points1_fit d r then Call o else Reject
       end.
Definition handler_points1 := handler_points1_gen hdl_v1_assumes_vector_vamana.
Definition validate_insert1 (r : points1) : bool :=
  validate_points1 enf_v1_points_insert_min enf_v1_points_insert_max enf_v1_insert_vector_min enf_v1_insert_vector_max true r.
Definition validate_update1 (r : points1) : bool :=
  validate_points1 enf_v1_points_update_min enf_v1_points_update_max enf_v1_update_vector_min enf_v1_update_vector_max false r.
Definition handler_insert1 (s : ischema) (r : points1) : hres :=
  handler_points1 hdl_v1_insert_validates_first (validate_insert1 r) s r (OpInsert (Z.of_nat (List.length (ps1_points r)))).
Definition handler_update1 (s : ischema) (r : points1) : hres :=
  handler_points1 hdl_v1_update_validates_first (validate_update1 r) s r (OpUpdate (Z.of_nat (List.length (ps1_points r)))).
Definition handler_search1_gen (assumes : bool) (s : ischema) (r : search1) : hres :=
  if negb hdl_v1_search_validates_first then Call OpSearch
  else if negb (validate_search1 r) then Reject
  else match v1_dim s with
       | None => missing_index assumes
       | Some d => if s1_len r =? d then Call OpSearch else Reject
       end.
Definition handler_search1 := handler_search1_gen hdl_v1_assumes_vector_vamana.

(* ------------------------------------------------------------------ *)
(* DOCUMENTED limits (the binding tags): the reference the property    *)
(* speaks about.  doc_* functions return the first violated item as a  *)
(* small code (0 = within every documented limit)                      *)

Definition first_code (l : list (bool * N)) : N :=
  fold_right (fun (p : bool * N) acc => if fst p then acc else snd p) 0%N l.

Definition f32_in_Q (lo hi : Q) (a : N) : bool :=
  f32_finite a && Qleb lo (f32_to_Q a) && Qleb (f32_to_Q a) hi.

Definition doc_bq (b : bqparams) : N :=
  first_code [ (in_range doc_bq_trigger_min doc_bq_trigger_max (bq_trigger b), 22%N);
               (mem (bq_metric b) doc_bq_metrics, 2%N) ].
Definition doc_pq (p : pqparams) : N :=
  first_code [ (in_range doc_pq_centroids_min doc_pq_centroids_max (pq_centroids p), 2%N);
               (doc_pq_subvectors_min <=? pq_subvectors p, 2%N);
               (in_range doc_pq_trigger_min doc_pq_trigger_max (pq_trigger p), 2%N) ].
Definition doc_quant (o : option quantizer) : N :=
  match o with
  | None => 0%N
  | Some q =>
    if negb (mem (qz_type q) doc_quantizer_types) then 2%N
    else match qz_binary q, qz_product q with
         | Some b, _ => if seq (qz_type q) "binary" then doc_bq b else 0%N
         | None, Some p => if seq (qz_type q) "product" then doc_pq p else 0%N
         | None, None => 0%N
         end
  end.
Definition doc_flat (p : vparams) : N :=
  first_code [ (in_range doc_flat_vector_size_min doc_flat_vector_size_max (vp_size p), 2%N);
               (mem (vp_metric p) doc_flat_metrics, 2%N);
               (N.eqb (doc_quant (vp_quant p)) 0, doc_quant (vp_quant p)) ].
Definition doc_vamana (p : vparams) : N :=
  first_code [ (in_range doc_vector_size_min doc_vector_size_max (vp_size p), 2%N);
               (mem (vp_metric p) doc_metrics, 2%N);
               (in_range doc_index_search_size_min doc_index_search_size_max (vp_ssize p), 2%N);
               (in_range doc_degree_min doc_degree_max (vp_degree p), 2%N);
               (f32_in_Q doc_alpha_min doc_alpha_max (vp_alpha p), 21%N);
               (N.eqb (doc_quant (vp_quant p)) 0, doc_quant (vp_quant p)) ].
Definition doc_ivalue (v : ivalue) : N :=
  if negb (mem (iv_type v) doc_index_types) then 2%N
  else if seq (iv_type v) "vectorFlat" then match iv_flat v with Some p => doc_flat p | None => 0%N end
  else if seq (iv_type v) "vectorVamana" then match iv_vamana v with Some p => doc_vamana p | None => 0%N end
  else if seq (iv_type v) "text" then match iv_text v with Some a => if mem a doc_analysers then 0%N else 2%N | None => 0%N end
  else 0%N.
Definition doc_ischema (s : ischema) : N :=
  fold_right (fun (kv : string * ivalue) acc => if N.eqb (doc_ivalue (snd kv)) 0 then acc else doc_ivalue (snd kv)) 0%N s.

(* 0 = documented limits respected; 23 = indexSchema is documented as required but absent;
   21 = alpha outside the documented interval; 22 = binary-quantizer triggerThreshold outside; 2 = other *)
(* the binding tag `alphanum`: ASCII letters and digits *)
Definition alnum_ranges : list (N * N) := [(97, 122); (65, 90); (48, 57)]%N.
Definition doc_create2 (r : create2) : N :=
  first_code [ (in_range doc_v2_collection_id_min doc_v2_collection_id_max (c2_id_bytes r), 2%N);
               (negb doc_v2_collection_id_alphanum || runes_ok alnum_ranges (c2_id_runes r), 2%N);
               (negb doc_v2_index_schema_required || c2_schema_present r, 23%N);
               (N.eqb (doc_ischema (c2_schema r)) 0, doc_ischema (c2_schema r)) ].
Definition doc_create1 (r : create1) : N :=
  first_code [ (in_range doc_v1_collection_id_min doc_v1_collection_id_max (c1_id_bytes r), 2%N);
               (negb doc_v1_collection_id_alphanum || runes_ok alnum_ranges (c1_id_runes r), 2%N);
               (mem (c1_metric r) doc_v1_metrics, 2%N) ].

Definition doc_ranked (lenmax : Z) (ops : list string) (lmin lmax : Z) (o : ropts query) : bool :=
  (1 <=? r_len o) && (r_len o <=? lenmax) && mem (r_op o) ops && in_range lmin lmax (r_limit o).

Fixpoint doc_query (q : query) : bool :=
  match q with
  | Qry prop qflat qvam qtext qstr qint qflt qsarr qand qor =>
    negb (seq prop "")
    && match qflat with
       | Some o => doc_ranked doc_flat_query_vector_max doc_flat_ops doc_flat_limit_min doc_flat_limit_max o
                   && match r_filter o with Some f => doc_query f | None => true end
       | None => true end
    && match qvam with
       | Some o => doc_ranked doc_query_vector_max doc_vamana_ops doc_vamana_limit_min doc_vamana_limit_max o
                   && in_range doc_search_size_min doc_search_size_max (r_ssize o)
                   && match r_filter o with Some f => doc_query f | None => true end
       | None => true end
    && match qtext with
       | Some o => (1 <=? r_len o) && mem (r_op o) doc_text_ops && in_range doc_text_limit_min doc_text_limit_max (r_limit o)
                   && match r_filter o with Some f => doc_query f | None => true end
       | None => true end
    && oall (fun o => (1 <=? s_len o) && mem (s_op o) doc_string_ops) qstr
    && oall (fun o => mem (s_op o) doc_integer_ops) qint
    && oall (fun o => mem (s_op o) doc_float_ops) qflt
    && oall (fun o => (1 <=? s_len o) && mem (s_op o) doc_string_array_ops) qsarr
    && forallb doc_query qand && forallb doc_query qor
  end.

Definition doc_search2 (r : search2) : bool :=
  doc_query (sr_query r) && (sr_sort_n r <=? doc_sort_max) && sr_sort_props_ok r
  && (doc_offset_min <=? sr_offset r) && in_range doc_request_limit_min doc_request_limit_max (sr_limit r).
Definition doc_search1 (r : search1) : bool :=
  (1 <=? s1_len r) && (s1_len r <=? doc_v1_search_vector_max) && in_range doc_v1_search_limit_min doc_v1_search_limit_max (s1_limit r).

Definition doc_count (hi : Z) {A : Type} (l : list A) : bool := in_range 1 hi (Z.of_nat (List.length l)).

(* the conditions under which the enforced limits are at least as strict as the documented ones,
   evaluated on the generated constants by the proofs *)
Definition sub_range (elo ehi dlo dhi : Z) : bool := (dlo <=? elo) && (ehi <=? dhi).
Definition sub_list (e d : list string) : bool := forallb (fun x => mem x d) e.

(* ------------------------------------------------------------------ *)
(* The one place left where a documented limit is NOT enforced by Validate(): indexSchema is tagged
   required but a request without it is accepted.  (The pinned tree had two more: alpha = NaN and the
   binary-quantizer triggerThreshold when a threshold is given; see the _v0 theorems.) *)
Definition nogap_create2 (r : create2) : bool := c2_schema_present r.

(* ------------------------------------------------------------------ *)
(* Vocabulary of the theorems and the witnesses of the refuted statements *)
Definition pair_eq (p : Z * Z) : Prop := fst p = snd p.

Definition doc_dim_ok (d : Z) : bool :=
  in_range doc_vector_size_min doc_vector_size_max d || in_range doc_flat_vector_size_min doc_flat_vector_size_max d.

(* lengths are lengths: the harness reports them as non-negative numbers *)
Fixpoint lens_nonneg (q : query) : bool :=
  match q with
  | Qry _ qflat qvam qtext qstr qint qflt qsarr qand qor =>
    let r (o : option (ropts query)) :=
      match o with
      | Some x => (0 <=? r_len x) && match r_filter x with Some f => lens_nonneg f | None => true end
      | None => true end in
    r qflat && r qvam && r qtext
    && oall (fun o => 0 <=? s_len o) qstr && oall (fun o => 0 <=? s_len o) qsarr
    && forallb lens_nonneg qand && forallb lens_nonneg qor
  end.

Definition flat_only_schema : ischema :=
  [("vec"%string, mkIV "vectorFlat" (Some (mkVP 2 "euclidean" 0 0 0%N None)) None None false false)].

Definition gap_schema (alpha : N) (q : option quantizer) : ischema :=
  [("v"%string, mkIV "vectorVamana" None (Some (mkVP 2 "euclidean" 75 64 alpha q)) None false false)].
Definition f32_nan : N := 2143289344%N.     (* 0x7FC00000 *)
Definition f32_1_2 : N := 1067030938%N.     (* float32(1.2) *)
