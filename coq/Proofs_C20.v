(* Proofs_C20.v -- lemmas for property C20 (see Props_C20.v for the statements). *)
From Coq Require Import List NArith ZArith Bool Lia Permutation.
From Coq Require Import ZifyBool ZifyN ZifyNat.
From Semadb Require Import AsmParams Model_C20.
Import ListNotations.
Open Scope Z_scope.

(* ------------------------------------------------------------------ *)
(* booleans to propositions *)

Lemma Nmem_In : forall x l, Nmem x l = true <-> In x l.
Proof.
  induction l as [|y r IH]; simpl; [split; [discriminate|tauto]|].
  rewrite orb_true_iff, IH, N.eqb_eq. split; intros [H|H]; auto.
Qed.
Lemma Nmem_false : forall x l, Nmem x l = false <-> ~ In x l.
Proof. intros x l. rewrite <- Nmem_In. destruct (Nmem x l); split; congruence. Qed.
Lemma Nnodup_NoDup : forall l, Nnodup l = true -> NoDup l.
Proof.
  induction l as [|x r IH]; simpl; intros H; [constructor|].
  apply andb_true_iff in H as [H1 H2]. apply negb_true_iff, Nmem_false in H1. constructor; auto.
Qed.
Lemma Nlist_eqb_eq : forall a b, Nlist_eqb a b = true -> a = b.
Proof.
  induction a as [|x a IH]; destruct b as [|y b]; simpl; intros H; try discriminate; auto.
  apply andb_true_iff in H as [H1 H2]. apply N.eqb_eq in H1. f_equal; auto.
Qed.
Lemma Ndisjoint_spec : forall a b, Ndisjoint a b = true -> forall x, In x a -> ~ In x b.
Proof.
  unfold Ndisjoint. intros a b H x Hx. rewrite forallb_forall in H. specialize (H x Hx).
  apply negb_true_iff, Nmem_false in H. exact H.
Qed.

(* ------------------------------------------------------------------ *)
(* lists, sums *)

Lemma zsum_app : forall a b, zsum (a ++ b) = zsum a + zsum b.
Proof. induction a; simpl; intros; [reflexivity|rewrite IHa; lia]. Qed.
Lemma zip2_length : forall {A B C} (f : A -> B -> C) a b, length a = length b -> length (zip2 f a b) = length a.
Proof. induction a; destruct b; simpl; intros; try discriminate; auto. Qed.
Lemma zsum_zip2_add : forall a b, length a = length b -> zsum (zip2 Z.add a b) = zsum a + zsum b.
Proof. induction a; destruct b; simpl; intros H; try discriminate; [reflexivity|]. rewrite IHa by lia. lia. Qed.
Lemma zsum_mul_dot : forall x y, zsum (zip2 Z.mul x y) = dot x y.
Proof. induction x; destruct y; simpl; auto. rewrite IHx. reflexivity. Qed.
Lemma zsum_sub_sq : forall x y, zsum (zip2 Z.mul (zip2 Z.sub x y) (zip2 Z.sub x y)) = sqeuclid x y.
Proof. induction x; destruct y; simpl; auto. rewrite IHx. reflexivity. Qed.
Lemma zsum_repeat0 : forall n, zsum (repeat 0 n) = 0.
Proof. induction n; simpl; auto. Qed.

Lemma termsum_app : forall s a b c d, length a = length c ->
  termsum s (a ++ b) (c ++ d) = termsum s a c + termsum s b d.
Proof.
  intros s. destruct s; simpl.
  - induction a; destruct c; simpl; intros; try discriminate; [reflexivity|]. rewrite IHa by lia. lia.
  - induction a; destruct c; simpl; intros; try discriminate; [reflexivity|]. rewrite IHa by lia. lia.
Qed.
Lemma termsum_split : forall s k xs ys, (k <= length xs)%nat -> (k <= length ys)%nat ->
  termsum s xs ys = termsum s (firstn k xs) (firstn k ys) + termsum s (skipn k xs) (skipn k ys).
Proof.
  intros s k xs ys Hx Hy. rewrite <- termsum_app by (rewrite !firstn_length; lia).
  rewrite !firstn_skipn. reflexivity.
Qed.
Lemma termsum_nil_l : forall s ys, termsum s [] ys = 0.
Proof. destruct s; reflexivity. Qed.
Lemma termsum_cons : forall s x y xs ys,
  termsum s (x :: xs) (y :: ys) = (if s then (x - y) * (x - y) else x * y) + termsum s xs ys.
Proof. destruct s; reflexivity. Qed.

Lemma take_ok : forall n l, (n <= length l)%nat -> take n l = Some (firstn n l).
Proof.
  induction n; intros l H; simpl; [reflexivity|]. destruct l as [|x r]; simpl in *; [lia|].
  rewrite IHn by lia. reflexivity.
Qed.
Lemma take_short : forall n l, (length l < n)%nat -> take n l = None.
Proof.
  induction n; intros l H; simpl; [lia|]. destruct l as [|x r]; simpl in *; [reflexivity|].
  rewrite IHn by lia. reflexivity.
Qed.

(* ------------------------------------------------------------------ *)
(* register file *)

Lemma upd_eq : forall {A} (rf : N -> A) r v, upd rf r v r = v.
Proof. intros. unfold upd. rewrite N.eqb_refl. reflexivity. Qed.
Lemma upd_neq : forall {A} (rf : N -> A) r v r', r' <> r -> upd rf r v r' = rf r'.
Proof. intros. unfold upd. apply N.eqb_neq in H. rewrite H. reflexivity. Qed.

Definition wf (rf : regfile) : Prop := forall r, length (rf r) = 8%nat.
Lemma wf_upd : forall rf r v, wf rf -> length v = 8%nat -> wf (upd rf r v).
Proof. intros rf r v H Hv r'. unfold upd. destruct (r' =? r)%N; auto. Qed.

Definition total (accs : list N) (rf : regfile) : Z := zsum (map (fun a => zsum (rf a)) accs).
Lemma total_upd_notin : forall accs rf r v, ~ In r accs -> total accs (upd rf r v) = total accs rf.
Proof.
  unfold total. induction accs as [|a accs IH]; simpl; intros rf r v H; [reflexivity|].
  rewrite upd_neq by (intros ->; apply H; auto). rewrite IH by tauto. reflexivity.
Qed.
Lemma total_upd_in : forall accs rf r v, NoDup accs -> In r accs ->
  total accs (upd rf r v) = total accs rf - zsum (rf r) + zsum v.
Proof.
  induction accs as [|a accs IH]; simpl; intros rf r v Hnd Hin; [tauto|].
  inversion Hnd as [|? ? Hna Hnd']; subst. unfold total in *. simpl.
  destruct (N.eq_dec r a) as [->|Hne].
  - rewrite upd_eq. fold (total accs (upd rf a v)). fold (total accs rf).
    rewrite total_upd_notin by assumption. lia.
  - rewrite upd_neq by congruence. destruct Hin as [->|Hin]; [congruence|].
    rewrite IH by assumption. lia.
Qed.
Lemma total_ext : forall accs rf rf', (forall a, In a accs -> rf' a = rf a) -> total accs rf' = total accs rf.
Proof.
  unfold total. induction accs as [|a accs IH]; simpl; intros rf rf' H; [reflexivity|].
  rewrite H by auto. rewrite (IH rf rf') by auto. reflexivity.
Qed.

Lemma vzero_len : length vzero = 8%nat.
Proof. reflexivity. Qed.
Lemma zero_regs_spec : forall rs rf,
  (forall r, In r rs -> zero_regs rs rf r = vzero) /\ (forall r, ~ In r rs -> zero_regs rs rf r = rf r)
  /\ (wf rf -> wf (zero_regs rs rf)).
Proof.
  unfold zero_regs. induction rs as [|a rs IH]; simpl; intros rf.
  - repeat split; auto; tauto.
  - destruct (IH (upd rf a vzero)) as (H1 & H2 & H3). repeat split.
    + intros r [->|Hr].
      * destruct (in_dec N.eq_dec r rs) as [Hi|Hn]; [auto|]. rewrite H2 by assumption. apply upd_eq.
      * auto.
    + intros r Hr. rewrite H2 by tauto. apply upd_neq. intros ->. tauto.
    + intros Hw. apply H3. apply wf_upd; auto.
Qed.
Lemma total_zero : forall accs rs rf, (forall a, In a accs -> In a rs) -> total accs (zero_regs rs rf) = 0.
Proof.
  intros accs rs rf H. destruct (zero_regs_spec rs rf) as (H1 & _ & _).
  unfold total. induction accs as [|a accs IH]; simpl; [reflexivity|].
  rewrite H1 by (apply H; simpl; auto). rewrite IH by (intros; apply H; simpl; auto). reflexivity.
Qed.

(* ------------------------------------------------------------------ *)
(* memory reads *)

Definition chunk (mem : list Z) (off : N) : vec := firstn 8 (skipn (N.to_nat (off / 4)) mem).
Lemma chunk_len : forall mem off, (N.to_nat (off / 4) + 8 <= length mem)%nat -> length (chunk mem off) = 8%nat.
Proof. intros. unfold chunk. rewrite firstn_length, skipn_length. lia. Qed.
Lemma vload_ok : forall mem off, (off mod 4 = 0)%N -> (N.to_nat (off / 4) + 8 <= length mem)%nat ->
  vload 8 mem off = Some (chunk mem off).
Proof.
  intros mem off Hm Hl. unfold vload, chunk. rewrite Hm. simpl (0 =? 0)%N. cbv iota.
  apply take_ok. rewrite skipn_length. change (N.to_nat 8) with 8%nat. lia.
Qed.
Lemma vload_short : forall mem off, (length mem < N.to_nat (off / 4) + 8)%nat -> vload 8 mem off = None.
Proof.
  intros mem off Hl. unfold vload. destruct (off mod 4 =? 0)%N; [|reflexivity].
  apply take_short. rewrite skipn_length. change (N.to_nat 8) with 8%nat. lia.
Qed.

(* ------------------------------------------------------------------ *)
(* one block *)

Lemma do_loads_spec : forall mem loads rf,
  (forall p, In p loads -> (fst p mod 4 = 0)%N /\ (N.to_nat (fst p / 4) + 8 <= length mem)%nat) ->
  exists rf', do_loads 8 loads mem rf = Some rf'
    /\ (forall r, ~ In r (map snd loads) -> rf' r = rf r)
    /\ (NoDup (map snd loads) -> forall p, In p loads -> rf' (snd p) = chunk mem (fst p))
    /\ (wf rf -> wf rf').
Proof.
  intros mem. induction loads as [|[off r] ls IH]; intros rf H; simpl.
  - exists rf. repeat split; auto. intros _ p [].
  - destruct (H (off, r) (or_introl eq_refl)) as [Hm Hl]. simpl in Hm, Hl.
    rewrite vload_ok by assumption.
    destruct (IH (upd rf r (chunk mem off))) as (rf' & E & H2 & H3 & H4); [intros; apply H; simpl; auto|].
    exists rf'. split; [exact E|]. split; [|split].
    + intros r' Hr'. rewrite H2 by tauto. apply upd_neq. intros ->. tauto.
    + intros Hnd p [<-|Hp].
      * inversion Hnd; subst. simpl. rewrite H2 by assumption. apply upd_eq.
      * inversion Hnd; subst. auto.
    + intros Hw. apply H4. apply wf_upd; auto. apply chunk_len; assumption.
Qed.

Definition line_term (sub : bool) (px py : list Z) (l : line) : Z :=
  termsum sub (chunk px (l_yoff l)) (chunk py (l_yoff l)).

Lemma do_lines_spec : forall sub accs px py lines rf,
  NoDup accs -> wf rf ->
  (forall l, In l lines ->
     In (l_acc l) accs /\ tmp_matches sub l = true
     /\ (forall t, l_tmp l = Some t -> ~ In t accs)
     /\ (l_yoff l mod 4 = 0)%N /\ (N.to_nat (l_yoff l / 4) + 8 <= length py)%nat
     /\ (N.to_nat (l_yoff l / 4) + 8 <= length px)%nat
     /\ rf (l_xr l) = chunk px (l_yoff l) /\ ~ In (l_xr l) accs) ->
  flow_ok lines = true ->
  exists rf', do_lines sub 8 lines py rf = Some rf' /\ wf rf'
    /\ total accs rf' = total accs rf + zsum (map (line_term sub px py) lines).
Proof.
  intros sub accs px py. induction lines as [|l ls IH]; intros rf Hnd Hw H Hflow; simpl.
  - exists rf. repeat split; auto. lia.
  - destruct (H l (or_introl eq_refl)) as (Ha & Htm & Ht & Hm & Hly & Hlx & Hx & Hxa).
    simpl in Hflow. apply andb_true_iff in Hflow as [Hfl Hflow].
    unfold exec_line. rewrite vload_ok by assumption.
    assert (Lx : length (chunk px (l_yoff l)) = 8%nat) by (apply chunk_len; assumption).
    assert (Ly : length (chunk py (l_yoff l)) = 8%nat) by (apply chunk_len; assumption).
    unfold tmp_matches in Htm.
    destruct (l_tmp l) as [t|] eqn:Et; destruct sub; simpl in Htm; try discriminate.
    + (* squared difference *)
      specialize (Ht t eq_refl).
      assert (Hta : t <> l_acc l) by (intros ->; tauto).
      set (d := zip2 Z.sub (rf (l_xr l)) (chunk py (l_yoff l))).
      assert (Ld : length d = 8%nat) by (unfold d; rewrite zip2_length; rewrite Hx; lia).
      rewrite (upd_neq rf t d (l_acc l)) by congruence. rewrite upd_eq.
      set (rf2 := upd (upd rf t d) (l_acc l) (vfma (rf (l_acc l)) d d)).
      assert (Lv : length (vfma (rf (l_acc l)) d d) = 8%nat).
      { unfold vfma. rewrite zip2_length; rewrite ?zip2_length; rewrite ?Hw; lia. }
      destruct (IH rf2) as (rf' & E & Hw' & Ht').
      * assumption.
      * unfold rf2. apply wf_upd; [apply wf_upd; assumption|assumption].
      * intros l' Hl'. destruct (H l' (or_intror Hl')) as (A1 & A2 & A3 & A4 & A5 & A6 & A7 & A8).
        repeat split; auto. unfold rf2. rewrite upd_neq by (intros E'; apply A8; rewrite E'; exact Ha).
        rewrite upd_neq; [exact A7|]. apply negb_true_iff, Nmem_false in Hfl.
        intros E'. apply Hfl. rewrite <- E'. apply in_map. exact Hl'.
      * assumption.
      * exists rf'. split; [exact E|]. split; [exact Hw'|]. rewrite Ht'. unfold rf2.
        rewrite total_upd_in by assumption. rewrite total_upd_notin by assumption.
        rewrite upd_neq by congruence. unfold vfma.
        rewrite zsum_zip2_add by (rewrite zip2_length; rewrite ?Hw; lia).
        unfold d at 1 2. rewrite Hx. rewrite zsum_sub_sq. unfold line_term. simpl. lia.
    + (* product *)
      set (rf2 := upd rf (l_acc l) (vfma (rf (l_acc l)) (rf (l_xr l)) (chunk py (l_yoff l)))).
      assert (Lv : length (vfma (rf (l_acc l)) (rf (l_xr l)) (chunk py (l_yoff l))) = 8%nat).
      { unfold vfma. rewrite Hx. rewrite zip2_length; rewrite ?zip2_length; rewrite ?Hw; lia. }
      destruct (IH rf2) as (rf' & E & Hw' & Ht').
      * assumption.
      * unfold rf2. apply wf_upd; assumption.
      * intros l' Hl'. destruct (H l' (or_intror Hl')) as (A1 & A2 & A3 & A4 & A5 & A6 & A7 & A8).
        repeat split; auto. unfold rf2. rewrite upd_neq by (intros E'; apply A8; rewrite E'; exact Ha). exact A7.
      * assumption.
      * exists rf'. split; [exact E|]. split; [exact Hw'|]. rewrite Ht'. unfold rf2.
        rewrite total_upd_in by assumption. unfold vfma.
        rewrite zsum_zip2_add by (rewrite Hx; rewrite zip2_length; rewrite ?Hw; lia).
        rewrite Hx. rewrite zsum_mul_dot. unfold line_term. simpl. lia.
Qed.

Lemma skipn_skipn' : forall {A} a b (l : list A), skipn a (skipn b l) = skipn (b + a) l.
Proof. intros A a b. induction b; intros l; simpl; [reflexivity|]. destruct l; [destruct a; reflexivity|apply IHb]. Qed.
Lemma firstn_plus : forall {A} a b (l : list A), firstn (a + b) l = firstn a l ++ firstn b (skipn a l).
Proof. intros A a. induction a; intros b l; simpl; [reflexivity|]. destruct l; [destruct b; reflexivity|]. simpl. f_equal. apply IHa. Qed.

Lemma quad_div : forall s : nat, N.to_nat (4 * N.of_nat s / 4) = s.
Proof. intros s. rewrite N.mul_comm, N.div_mul by discriminate. lia. Qed.
Lemma quad_mod : forall s : nat, ((4 * N.of_nat s) mod 4 = 0)%N.
Proof. intros s. rewrite N.mul_comm. apply N.mod_mul. discriminate. Qed.

Lemma offsets_in : forall k s o, In o (offsets k (4 * N.of_nat s) 32) ->
  (o mod 4 = 0)%N /\ (s <= N.to_nat (o / 4))%nat /\ (N.to_nat (o / 4) + 8 <= s + 8 * k)%nat.
Proof.
  induction k; intros s o H; cbn [offsets In] in H; [tauto|]. destruct H as [<-|H].
  - rewrite quad_div. split; [apply quad_mod|lia].
  - replace (4 * N.of_nat s + 32)%N with (4 * N.of_nat (s + 8))%N in H by lia.
    apply IHk in H. lia.
Qed.

Lemma lines_sum : forall sub px py lines s,
  map l_yoff lines = offsets (length lines) (4 * N.of_nat s) 32 ->
  (s + 8 * length lines <= length px)%nat -> (s + 8 * length lines <= length py)%nat ->
  zsum (map (line_term sub px py) lines)
  = termsum sub (firstn (8 * length lines) (skipn s px)) (firstn (8 * length lines) (skipn s py)).
Proof.
  intros sub px py. induction lines as [|l ls IH]; intros s Ho Hx Hy; simpl length.
  - simpl. rewrite termsum_nil_l. reflexivity.
  - pose proof (f_equal (@hd N 0%N) Ho) as Hl. apply (f_equal (@tl N)) in Ho.
    cbn [hd tl map offsets length] in Hl, Ho.
    replace (4 * N.of_nat s + 32)%N with (4 * N.of_nat (s + 8))%N in Ho by lia.
    cbn [length] in Hx, Hy.
    change (zsum (map (line_term sub px py) (l :: ls)))
      with (line_term sub px py l + zsum (map (line_term sub px py) ls)).
    rewrite (IH (s + 8)%nat) by (assumption || lia).
    replace (8 * S (length ls))%nat with (8 + 8 * length ls)%nat by lia.
    rewrite !firstn_plus. rewrite termsum_app by (rewrite !firstn_length, !skipn_length; lia).
    rewrite !skipn_skipn'. unfold line_term, chunk. rewrite Hl, quad_div. reflexivity.
Qed.

Lemma pair_lists : forall {A} (f g : A -> N) ls (L : list (N * N)),
  map f ls = map fst L -> map g ls = map snd L -> L = map (fun l => (f l, g l)) ls.
Proof.
  induction ls; destruct L as [|[a1 b1] L]; simpl; intros H1 H2; try discriminate; [reflexivity|].
  injection H1 as -> H1. injection H2 as -> H2. f_equal. auto.
Qed.

Lemma tmps_of_in : forall ls l t, In l ls -> l_tmp l = Some t -> In t (tmps_of ls).
Proof. intros ls l t Hl Ht. unfold tmps_of. apply in_flat_map. exists l. rewrite Ht. simpl; auto. Qed.

Definition nblock (P : kparams) : nat := N.to_nat (k_block_items P).

Lemma block_step_spec : forall P rf px py,
  block_ok P = true -> wf rf -> (nblock P <= length px)%nat -> (nblock P <= length py)%nat ->
  exists rf', block_step P rf px py = Some (rf', skipn (nblock P) px, skipn (nblock P) py) /\ wf rf'
    /\ total (k_accs P) rf' = total (k_accs P) rf + termsum (k_sub P) (firstn (nblock P) px) (firstn (nblock P) py).
Proof.
  intros P rf px py Hok Hw Hx Hy. unfold block_ok in Hok.
  apply andb_true_iff in Hok as [Hok Kzero]. apply andb_true_iff in Hok as [Hok C1].
  apply andb_true_iff in Hok as [Hok Kflow]. apply andb_true_iff in Hok as [Hok C3].
  apply andb_true_iff in Hok as [Hok C4]. apply andb_true_iff in Hok as [Hok C5].
  apply andb_true_iff in Hok as [Hok C6]. apply andb_true_iff in Hok as [Hok C7].
  apply andb_true_iff in Hok as [Hok C8]. apply andb_true_iff in Hok as [Hok C9].
  apply andb_true_iff in Hok as [Hok C10]. apply andb_true_iff in Hok as [Hok C11].
  apply andb_true_iff in Hok as [Hok C12]. apply andb_true_iff in Hok as [Hok C13].
  apply andb_true_iff in Hok as [C0 C14].
  apply N.eqb_eq in C0, C13, C12, C11, C10.
  apply N.ltb_lt in C14.
  apply Nlist_eqb_eq in C9, C8, C7.
  apply Nnodup_NoDup in C6, C5.
  pose proof (Ndisjoint_spec _ _ C4) as D4. pose proof (Ndisjoint_spec _ _ C3) as D3.
  rewrite forallb_forall in C1.
  unfold k_unroll in *. rewrite C0 in *.
  assert (HB : nblock P = (8 * length (k_lines P))%nat) by (unfold nblock; lia).
  replace (4 * 8)%N with 32%N in C9 by reflexivity.
  change 0%N with (4 * N.of_nat 0)%N in C9.
  assert (HL : k_loads P = map (fun l => (l_yoff l, l_xr l)) (k_lines P)) by (apply pair_lists; assumption).
  unfold block_step. rewrite C0.
  destruct (do_loads_spec px (k_loads P) rf) as (rf1 & E1 & L2 & L3 & L4).
  { intros p Hp. apply (in_map fst) in Hp. rewrite C9 in Hp. apply offsets_in in Hp. lia. }
  rewrite E1.
  destruct (do_lines_spec (k_sub P) (k_accs P) px py (k_lines P) rf1) as (rf2 & E2 & Hw2 & T2); auto.
  { intros l Hl. assert (Ho : In (l_yoff l) (offsets (length (k_lines P)) (4 * N.of_nat 0) 32)).
    { rewrite <- C9, <- C8. apply in_map. exact Hl. }
    apply offsets_in in Ho.
    assert (Hxr : In (l_xr l) (map snd (k_loads P))) by (rewrite <- C7; apply in_map; exact Hl).
    assert (Hacc : In (l_acc l) (k_accs P)) by (apply in_map; exact Hl).
    split; [exact Hacc|]. split; [apply C1; exact Hl|]. split.
    { intros t Ht Hin. apply (D3 t Hin). eapply tmps_of_in; eauto. }
    split; [lia|]. split; [lia|]. split; [lia|]. split.
    - apply (L3 C6 (l_yoff l, l_xr l)). rewrite HL. apply (in_map (fun l => (l_yoff l, l_xr l))). exact Hl.
    - intros Hin. exact (D4 _ Hin Hxr). }
  rewrite E2. unfold advance. rewrite C12, C11.
  rewrite (N.mul_comm 4), N.mod_mul, N.div_mul by discriminate. simpl (0 =? 0)%N. cbv iota.
  exists rf2. split; [reflexivity|]. split; [exact Hw2|].
  rewrite T2. rewrite (total_ext (k_accs P) rf rf1).
  2:{ intros a Ha. apply L2. intros Hin. exact (D4 _ Ha Hin). }
  rewrite (lines_sum _ _ _ _ 0%nat); [|rewrite C8; exact C9|lia|lia].
  simpl skipn. rewrite HB. reflexivity.
Qed.

Lemma block_ok_basic : forall P, block_ok P = true ->
  k_count_dec P = k_block_items P /\ (0 < nblock P)%nat.
Proof.
  intros P H. unfold block_ok in H.
  repeat (apply andb_true_iff in H; destruct H as [H ?]).
  repeat match goal with E : (_ =? _)%N = true |- _ => apply N.eqb_eq in E end.
  match goal with E : (0 <? _)%N = true |- _ => apply N.ltb_lt in E end.
  unfold nblock, k_unroll in *. split; [assumption|lia].
Qed.

(* ------------------------------------------------------------------ *)
(* block loop *)

Lemma block_loop_spec : forall P, block_ok P = true -> forall fuel rf px py,
  length px = length py -> (length px < fuel)%nat -> wf rf ->
  exists rf' px' py',
    block_loop P fuel rf px py (Z.of_nat (length px)) = Some (rf', px', py', Z.of_nat (length px'))
    /\ length px' = length py' /\ (length px' <= length px)%nat /\ wf rf'
    /\ total (k_accs P) rf' + termsum (k_sub P) px' py' = total (k_accs P) rf + termsum (k_sub P) px py.
Proof.
  intros P Hok. destruct (block_ok_basic P Hok) as [Hdec Hpos].
  induction fuel as [|f IH]; intros rf px py Hlen Hfuel Hw; [lia|].
  cbn [block_loop].
  destruct (Z.of_nat (length px) <? Z.of_N (k_block_items P)) eqn:Hlt.
  - exists rf, px, py. repeat split; auto.
  - apply Z.ltb_ge in Hlt. unfold nblock in Hpos.
    assert (Hx : (nblock P <= length px)%nat) by (unfold nblock; lia).
    assert (Hy : (nblock P <= length py)%nat) by lia.
    destruct (block_step_spec P rf px py Hok Hw Hx Hy) as (rf1 & E & Hw1 & T1).
    rewrite E.
    destruct (IH rf1 (skipn (nblock P) px) (skipn (nblock P) py)) as (rf' & px' & py' & E' & L1 & L2 & Hw' & T');
      [rewrite !skipn_length; lia | rewrite skipn_length; unfold nblock; lia | exact Hw1 |].
    replace (Z.of_nat (length px) - Z.of_N (k_count_dec P)) with (Z.of_nat (length (skipn (nblock P) px)))
      by (rewrite skipn_length, Hdec; unfold nblock; lia).
    rewrite E'. exists rf', px', py'. split; [reflexivity|]. split; [exact L1|]. split.
    { rewrite skipn_length in L2. lia. }
    split; [exact Hw'|]. rewrite T', T1. rewrite (termsum_split (k_sub P) (nblock P) px py Hx Hy). lia.
Qed.

(* ------------------------------------------------------------------ *)
(* scalar tail *)

Definition tsum (P : kparams) (rf : regfile) : Z := zsum (firstn 4 (rf (l_acc (k_tail_line P)))).

Lemma sc_merge_props : forall src z, length src = 8%nat ->
  length (sc_merge src z) = 8%nat /\ lane0 (sc_merge src z) = z
  /\ zsum (firstn 4 (sc_merge src z)) = zsum (firstn 4 src) - lane0 src + z.
Proof.
  intros src z H. do 9 (destruct src as [|? src]; try discriminate).
  unfold sc_merge, lane0. simpl. repeat split; lia.
Qed.

Record tail_facts (P : kparams) : Prop := {
  tf_cmp : k_tail_cmp P = 0%N; tf_dec : k_tail_dec P = 1%N;
  tf_sx : k_tail_stride_x P = 4%N; tf_sy : k_tail_stride_y P = 4%N;
  tf_lo : fst (k_tail_load P) = 0%N; tf_yo : l_yoff (k_tail_line P) = 0%N;
  tf_lr : snd (k_tail_load P) = l_xr (k_tail_line P);
  tf_tm : tmp_matches (k_sub P) (k_tail_line P) = true;
  tf_acc : ~ In (l_acc (k_tail_line P)) (k_accs P);
  tf_xr : ~ In (l_xr (k_tail_line P)) (k_accs P);
  tf_tmp : forall t, l_tmp (k_tail_line P) = Some t -> ~ In t (k_accs P) /\ t <> l_acc (k_tail_line P);
  tf_ax : l_acc (k_tail_line P) <> l_xr (k_tail_line P);
  tf_z : In (l_acc (k_tail_line P)) (k_tail_zeroed P);
  tf_zd : forall r, In r (k_tail_zeroed P) -> ~ In r (k_accs P) }.

Lemma tail_ok_facts : forall P, tail_ok P = true -> tail_facts P.
Proof.
  intros P H. unfold tail_ok in H.
  apply andb_true_iff in H as [H K15]. apply andb_true_iff in H as [H K14].
  apply andb_true_iff in H as [H K13]. apply andb_true_iff in H as [H K12].
  apply andb_true_iff in H as [H K11]. apply andb_true_iff in H as [H K10].
  apply andb_true_iff in H as [H K9]. apply andb_true_iff in H as [H K8].
  apply andb_true_iff in H as [H K7]. apply andb_true_iff in H as [H K6].
  apply andb_true_iff in H as [H K5]. apply andb_true_iff in H as [H K4].
  apply andb_true_iff in H as [H K3]. apply andb_true_iff in H as [K1 K2].
  apply N.eqb_eq in K1, K2, K3, K4, K5, K6, K7.
  apply negb_true_iff in K9, K10, K12, K13. apply Nmem_false in K9, K10, K13. apply N.eqb_neq in K12.
  apply Nmem_In in K14.
  pose proof (Ndisjoint_spec _ _ K11) as D11. pose proof (Ndisjoint_spec _ _ K15) as D15.
  constructor; auto.
  intros t Ht. unfold tmps_of in D11, K13. simpl in D11, K13. rewrite Ht in D11, K13. simpl in D11, K13.
  split; [apply D11; auto|]. intros ->. apply K13. auto.
Qed.

Lemma tail_step_spec : forall P rf x y px py, tail_facts P -> wf rf ->
  exists rf', tail_step P rf (x :: px) (y :: py) = Some (rf', px, py) /\ wf rf'
    /\ total (k_accs P) rf' = total (k_accs P) rf
    /\ tsum P rf' = tsum P rf + termsum (k_sub P) [x] [y].
Proof.
  intros P rf x y px py F Hw. destruct F.
  unfold tail_step. destruct (k_tail_load P) as [xoff lr] eqn:EL. simpl in tf_lo0, tf_lr0. subst xoff lr.
  rewrite tf_yo0. unfold vload. simpl. unfold advance. rewrite tf_sx0, tf_sy0. simpl.
  set (l := k_tail_line P) in *.
  assert (Lsl : length (sc_load x) = 8%nat) by reflexivity.
  unfold tmp_matches in tf_tm0.
  destruct (l_tmp l) as [t|] eqn:Et; destruct (k_sub P); simpl in tf_tm0; try discriminate.
  - destruct (tf_tmp0 t eq_refl) as [Hta Htacc].
    rewrite upd_eq.
    set (rf0 := upd rf (l_xr l) (sc_load x)).
    assert (Hw0 : wf rf0) by (apply wf_upd; assumption).
    destruct (sc_merge_props (sc_load x) (lane0 (sc_load x) - y) Lsl) as (M1 & M2 & _).
    set (dv := sc_merge (sc_load x) (lane0 (sc_load x) - y)) in *.
    rewrite (upd_neq rf0 t dv (l_acc l)) by congruence. rewrite upd_eq.
    assert (Eacc : rf0 (l_acc l) = rf (l_acc l)) by (unfold rf0; apply upd_neq; assumption).
    rewrite Eacc.
    destruct (sc_merge_props (rf (l_acc l)) (lane0 (rf (l_acc l)) + lane0 dv * lane0 dv) (Hw _)) as (N1 & N2 & N3).
    eexists. split; [reflexivity|]. split; [|split].
    + apply wf_upd; [apply wf_upd; assumption|assumption].
    + unfold rf0. rewrite !total_upd_notin by assumption. reflexivity.
    + unfold tsum. fold l. rewrite upd_eq. rewrite N3, M2. change (lane0 (sc_load x)) with x. cbn [termsum sqeuclid]. lia.
  - set (rf0 := upd rf (l_xr l) (sc_load x)).
    assert (Hw0 : wf rf0) by (apply wf_upd; assumption).
    assert (Eacc : rf0 (l_acc l) = rf (l_acc l)) by (unfold rf0; apply upd_neq; assumption).
    assert (Exr : rf0 (l_xr l) = sc_load x) by (unfold rf0; apply upd_eq).
    rewrite Eacc, Exr.
    destruct (sc_merge_props (rf (l_acc l)) (lane0 (rf (l_acc l)) + lane0 (sc_load x) * y) (Hw _)) as (N1 & N2 & N3).
    eexists. split; [reflexivity|]. split; [|split].
    + apply wf_upd; assumption.
    + unfold rf0. rewrite !total_upd_notin by assumption. reflexivity.
    + unfold tsum. fold l. rewrite upd_eq. rewrite N3. change (lane0 (sc_load x)) with x. cbn [termsum dot]. lia.
Qed.

Lemma tail_loop_spec : forall P, tail_facts P -> forall fuel rf px py,
  length px = length py -> (length px < fuel)%nat -> wf rf ->
  exists rf', tail_loop P fuel rf px py (Z.of_nat (length px)) = Some rf' /\ wf rf'
    /\ total (k_accs P) rf' = total (k_accs P) rf
    /\ tsum P rf' = tsum P rf + termsum (k_sub P) px py.
Proof.
  intros P F. induction fuel as [|f IH]; intros rf px py Hlen Hfuel Hw; [lia|].
  cbn [tail_loop]. rewrite (tf_cmp P F), (tf_dec P F).
  destruct px as [|x px]; destruct py as [|y py]; try discriminate.
  - simpl. exists rf. repeat split; auto. rewrite termsum_nil_l. lia.
  - replace (Z.of_nat (length (x :: px)) =? Z.of_N 0) with false by (simpl length; lia).
    destruct (tail_step_spec P rf x y px py F Hw) as (rf1 & E & Hw1 & T1 & S1). rewrite E.
    replace (Z.of_nat (length (x :: px)) - Z.of_N 1) with (Z.of_nat (length px)) by (simpl length; lia).
    simpl in Hlen, Hfuel.
    destruct (IH rf1 px py) as (rf' & E' & Hw' & T' & S'); [lia|lia|exact Hw1|].
    exists rf'. split; [exact E'|]. split; [exact Hw'|]. split; [congruence|].
    rewrite S', S1. rewrite (termsum_cons (k_sub P) x y px py). rewrite (termsum_cons (k_sub P) x y [] []).
    rewrite termsum_nil_l. lia.
Qed.

(* ------------------------------------------------------------------ *)
(* reduction: the run on Z is the image of the symbolic run *)

Section Hom.
  Variables (A B : Type) (zA : A) (addA : A -> A -> A) (zB : B) (addB : B -> B -> B) (f : A -> B).
  Hypothesis f_zero : f zA = zB.
  Hypothesis f_add : forall a b, f (addA a b) = addB (f a) (f b).

  Lemma zip2_map_hom : forall a b, zip2 addB (map f a) (map f b) = map f (zip2 addA a b).
  Proof. induction a; destruct b; simpl; auto. rewrite f_add, IHa. reflexivity. Qed.
  Lemma hadd2_map_hom : forall v, hadd2 B addB (map f v) = map f (hadd2 A addA v).
  Proof. intros v. do 4 (destruct v as [|? v]; [reflexivity|]). simpl. rewrite !f_add. reflexivity. Qed.
  Lemma repeat_map_hom : forall n, repeat zB n = map f (repeat zA n).
  Proof. induction n; simpl; [reflexivity|]. rewrite f_zero, IHn. reflexivity. Qed.

  Lemma run_rop_hom : forall op rfA rfB, (forall r, rfB r = map f (rfA r)) ->
    forall r, run_rop B zB addB rfB op r = map f (run_rop A zA addA rfA op r).
  Proof.
    intros op rfA rfB H r. destruct op; cbn [run_rop]; unfold upd; destruct (r =? d)%N; auto; rewrite !H.
    - apply zip2_map_hom.
    - rewrite map_app, <- repeat_map_hom, !firstn_map, zip2_map_hom. reflexivity.
    - rewrite map_app, <- repeat_map_hom, skipn_map, firstn_map. reflexivity.
    - rewrite !map_app, <- repeat_map_hom, !hadd2_map_hom. reflexivity.
  Qed.
  Lemma run_reduce_hom : forall ops rfA rfB, (forall r, rfB r = map f (rfA r)) ->
    forall r, run_reduce B zB addB ops rfB r = map f (run_reduce A zA addA ops rfA r).
  Proof.
    unfold run_reduce. induction ops as [|op ops IH]; intros rfA rfB H r; simpl; [apply H|].
    apply IH. intros r'. apply run_rop_hom. exact H.
  Qed.
End Hom.

Definition rho (rf : regfile) (atom : N) : Z := nth (N.to_nat (atom mod 8)) (rf (atom / 8)%N) 0.
Definition fsum (rf : regfile) (atoms : list N) : Z := zsum (map (rho rf) atoms).

Lemma atom_div : forall r l, (l < 8)%N -> ((r * 8 + l) / 8 = r)%N /\ ((r * 8 + l) mod 8 = l)%N.
Proof.
  intros r l H. split.
  - rewrite N.div_add_l by discriminate. rewrite N.div_small by assumption. lia.
  - rewrite N.add_comm, N.mod_add by discriminate. apply N.mod_small. assumption.
Qed.

Lemma rho_lanes : forall rf r, length (rf r) = 8%nat -> map (fun l => rho rf (r * 8 + l)) lanes8 = rf r.
Proof.
  intros rf r H. unfold lanes8, rho. cbn [map].
  repeat match goal with |- context [((r * 8 + ?l) / 8)%N] =>
    let E := fresh in destruct (atom_div r l eq_refl) as [E ?]; rewrite E; clear E end.
  repeat match goal with E : ((r * 8 + _) mod 8 = _)%N |- _ => rewrite E; clear E end.
  destruct (rf r) as [|v0 v]; [discriminate|]. do 8 (destruct v as [|? v]; try discriminate). reflexivity.
Qed.

Lemma fsum_app : forall rf a b, fsum rf (a ++ b) = fsum rf a + fsum rf b.
Proof. intros. unfold fsum. rewrite map_app, zsum_app. reflexivity. Qed.
Lemma fsum_insert : forall rf x l, fsum rf (Ninsert x l) = rho rf x + fsum rf l.
Proof.
  intros rf x. induction l as [|y l IH]; simpl; [reflexivity|]. destruct (x <=? y)%N; [reflexivity|].
  unfold fsum in *. simpl. rewrite IH. lia.
Qed.
Lemma fsum_sort : forall rf l, fsum rf (Nsort l) = fsum rf l.
Proof.
  intros rf. induction l as [|x l IH]; [reflexivity|]. simpl. rewrite fsum_insert, IH. reflexivity.
Qed.

Lemma sym_rf_image : forall rf, wf rf -> forall r, rf r = map (fsum rf) (sym_rf r).
Proof.
  intros rf Hw r. unfold sym_rf. rewrite map_map. rewrite <- (rho_lanes rf r (Hw r)) at 1.
  apply map_ext. intros l. unfold fsum. simpl. lia.
Qed.

Lemma fsum_expected : forall P rf, wf rf -> fsum rf (sym_expected P) = total (k_accs P) rf + tsum P rf.
Proof.
  intros P rf Hw. unfold sym_expected. rewrite fsum_app. f_equal.
  - unfold total. set (g := fun a : N => map (fun l => a * 8 + l)%N lanes8).
    induction (k_accs P) as [|a accs IH]; [reflexivity|].
    change (flat_map g (a :: accs)) with (g a ++ flat_map g accs).
    change (zsum (map (fun a0 => zsum (rf a0)) (a :: accs))) with (zsum (rf a) + zsum (map (fun a0 => zsum (rf a0)) accs)).
    rewrite fsum_app, IH. f_equal. unfold fsum, g. rewrite map_map. rewrite rho_lanes by apply Hw. reflexivity.
  - unfold tsum, fsum. rewrite map_map. set (t := l_acc (k_tail_line P)).
    rewrite <- (rho_lanes rf t (Hw t)). rewrite firstn_map. reflexivity.
Qed.

Lemma reduce_spec : forall P rf, reduce_ok P = true -> wf rf ->
  lane0 (run_reduce Z 0 Z.add (k_reduce P) rf (k_ret P)) = total (k_accs P) rf + tsum P rf.
Proof.
  intros P rf Hok Hw. unfold reduce_ok in Hok. apply Nlist_eqb_eq in Hok.
  rewrite (run_reduce_hom (list N) Z [] (@app N) 0 Z.add (fsum rf) eq_refl (fsum_app rf)
             (k_reduce P) sym_rf rf (sym_rf_image rf Hw)).
  unfold lane0. change 0 with (fsum rf []) at 1. rewrite map_nth. fold (sym_result P).
  rewrite <- fsum_sort, Hok, fsum_sort. apply fsum_expected. exact Hw.
Qed.

(* ------------------------------------------------------------------ *)
(* the kernel computes the exact sum, without reading outside the slices *)

Lemma block_ok_zeroed : forall P, block_ok P = true -> forall a, In a (k_accs P) -> In a (k_zeroed P).
Proof.
  intros P H. unfold block_ok in H. apply andb_true_iff in H as [_ H].
  rewrite forallb_forall in H. intros a Ha. apply Nmem_In. auto.
Qed.

Lemma init_rf_wf : forall g, wf (init_rf g).
Proof. intros g r. reflexivity. Qed.

Lemma kernel_sum : forall P, params_ok P = true -> forall g xs ys, length xs = length ys ->
  kernel_g P g xs ys = Some (termsum (k_sub P) xs ys).
Proof.
  intros P Hok g xs ys Hlen. unfold params_ok in Hok.
  apply andb_true_iff in Hok as [Hok _]. apply andb_true_iff in Hok as [Hok _].
  apply andb_true_iff in Hok as [Hok Hred]. apply andb_true_iff in Hok as [Hblk Htl].
  pose proof (tail_ok_facts P Htl) as F.
  unfold kernel_g.
  destruct (zero_regs_spec (k_zeroed P) (init_rf g)) as (_ & _ & Z3).
  pose proof (Z3 (init_rf_wf g)) as Hw1.
  pose proof (total_zero (k_accs P) (k_zeroed P) (init_rf g) (block_ok_zeroed P Hblk)) as T1.
  set (rf1 := zero_regs (k_zeroed P) (init_rf g)) in *.
  destruct (block_loop_spec P Hblk (S (length xs)) rf1 xs ys Hlen (Nat.lt_succ_diag_r _) Hw1)
    as (rf2 & px & py & E2 & L2 & L2' & Hw2 & T2).
  rewrite E2.
  destruct (zero_regs_spec (k_tail_zeroed P) rf2) as (Y1 & Y2 & Y3).
  pose proof (Y3 Hw2) as Hw3.
  set (rf3 := zero_regs (k_tail_zeroed P) rf2) in *.
  assert (T3 : total (k_accs P) rf3 = total (k_accs P) rf2).
  { apply total_ext. intros a Ha. apply Y2. intros Hin. exact (tf_zd P F a Hin Ha). }
  assert (S3 : tsum P rf3 = 0).
  { unfold tsum. rewrite (Y1 _ (tf_z P F)). reflexivity. }
  destruct (tail_loop_spec P F (S (length xs)) rf3 px py L2 ltac:(lia) Hw3) as (rf4 & E4 & Hw4 & T4 & S4).
  rewrite E4. f_equal. rewrite (reduce_spec P rf4 Hred Hw4). lia.
Qed.

(* with a shorter ys the kernel reads past the end of ys: the model returns None *)
Lemma do_lines_bound : forall sub lines py rf rf',
  do_lines sub 8 lines py rf = Some rf' ->
  forall l, In l lines -> (N.to_nat (l_yoff l / 4) + 8 <= length py)%nat.
Proof.
  intros sub. induction lines as [|l0 ls IH]; intros py rf rf' H l Hl; [destruct Hl|].
  simpl in H. destruct (exec_line sub 8 py rf l0) as [rf1|] eqn:E; [|discriminate].
  destruct Hl as [->|Hl]; [|eapply IH; eauto].
  unfold exec_line in E.
  destruct (Nat.le_gt_cases (N.to_nat (l_yoff l / 4) + 8) (length py)) as [Hle|Hgt]; [exact Hle|].
  rewrite vload_short in E by lia. discriminate.
Qed.

Lemma offsets_last : forall k s, (0 < k)%nat -> In (4 * N.of_nat (s + 8 * (k - 1)))%N (offsets k (4 * N.of_nat s) 32).
Proof.
  induction k; intros s H; [lia|]. cbn [offsets In]. destruct k.
  - left. f_equal. lia.
  - right. replace (4 * N.of_nat s + 32)%N with (4 * N.of_nat (s + 8))%N by lia.
    replace (s + 8 * (S (S k) - 1))%nat with (s + 8 + 8 * (S k - 1))%nat by lia. apply IHk. lia.
Qed.

Lemma block_step_bound : forall P rf px py r, block_ok P = true ->
  block_step P rf px py = Some r -> (nblock P <= length py)%nat.
Proof.
  intros P rf px py r Hok H. pose proof Hok as Hok'. unfold block_ok in Hok.
  repeat (apply andb_true_iff in Hok; destruct Hok as [Hok ?]).
  repeat match goal with E : (_ =? _)%N = true |- _ => apply N.eqb_eq in E end.
  repeat match goal with E : Nlist_eqb _ _ = true |- _ => apply Nlist_eqb_eq in E end.
  match goal with E : (0 <? _)%N = true |- _ => apply N.ltb_lt in E end.
  unfold block_step in H. rewrite Hok in H.
  destruct (do_loads 8 (k_loads P) px rf) as [rf1|]; [|discriminate].
  destruct (do_lines (k_sub P) 8 (k_lines P) py rf1) as [rf2|] eqn:E; [|discriminate].
  pose proof (do_lines_bound _ _ _ _ _ E) as Hb.
  unfold k_unroll in *.
  assert (Hin : In (4 * N.of_nat (0 + 8 * (length (k_lines P) - 1)))%N (map l_yoff (k_lines P))).
  { match goal with E1 : map l_yoff _ = _, E2 : map fst _ = _ |- _ => rewrite E1, E2 end.
    rewrite Hok. apply (offsets_last (length (k_lines P)) 0). lia. }
  apply in_map_iff in Hin as (l & El & Hl). specialize (Hb l Hl). rewrite El, quad_div in Hb.
  unfold nblock. lia.
Qed.

Lemma block_loop_oob : forall P, block_ok P = true -> forall fuel rf px py,
  (length py < length px)%nat -> (length px < fuel)%nat -> wf rf ->
  block_loop P fuel rf px py (Z.of_nat (length px)) = None
  \/ exists rf' px' py', block_loop P fuel rf px py (Z.of_nat (length px)) = Some (rf', px', py', Z.of_nat (length px'))
       /\ (length py' < length px')%nat /\ (length px' <= length px)%nat /\ wf rf'.
Proof.
  intros P Hok. destruct (block_ok_basic P Hok) as [Hdec Hpos].
  induction fuel as [|f IH]; intros rf px py Hlen Hfuel Hw; [lia|].
  cbn [block_loop].
  destruct (Z.of_nat (length px) <? Z.of_N (k_block_items P)) eqn:Hlt.
  - right. exists rf, px, py. repeat split; auto.
  - apply Z.ltb_ge in Hlt.
    destruct (block_step P rf px py) as [[[rf1 px1] py1]|] eqn:E; [|left; reflexivity].
    pose proof (block_step_bound P rf px py _ Hok E) as Hy.
    assert (Hx : (nblock P <= length px)%nat) by lia.
    destruct (block_step_spec P rf px py Hok Hw Hx Hy) as (rf1' & E' & Hw1 & _).
    rewrite E in E'. injection E' as -> -> ->.
    replace (Z.of_nat (length px) - Z.of_N (k_count_dec P)) with (Z.of_nat (length (skipn (nblock P) px)))
      by (rewrite skipn_length, Hdec; unfold nblock; lia).
    destruct (IH rf1' (skipn (nblock P) px) (skipn (nblock P) py)) as [En|(rf' & px' & py' & E2 & L1 & L2 & Hw')];
      [rewrite !skipn_length; lia | rewrite skipn_length; lia | exact Hw1 | left; exact En |].
    right. exists rf', px', py'. split; [exact E2|]. split; [exact L1|]. split; [|exact Hw'].
    rewrite skipn_length in L2. lia.
Qed.

Lemma tail_loop_oob : forall P, tail_facts P -> forall fuel rf px py,
  (length py < length px)%nat -> wf rf -> tail_loop P fuel rf px py (Z.of_nat (length px)) = None.
Proof.
  intros P F. induction fuel as [|f IH]; intros rf px py Hlen Hw; [reflexivity|].
  cbn [tail_loop]. rewrite (tf_cmp P F), (tf_dec P F).
  destruct px as [|x px]; [simpl in Hlen; lia|].
  replace (Z.of_nat (length (x :: px)) =? Z.of_N 0) with false by (simpl length; lia).
  destruct py as [|y py].
  - unfold tail_step. destruct (k_tail_load P) as [xoff lr]. rewrite (tf_yo P F).
    destruct (vload 1 (x :: px) xoff) as [[|? [|? ?]]|]; reflexivity.
  - destruct (tail_step_spec P rf x y px py F Hw) as (rf1 & E & Hw1 & _). rewrite E.
    replace (Z.of_nat (length (x :: px)) - Z.of_N 1) with (Z.of_nat (length px)) by (simpl length; lia).
    apply IH; [simpl in Hlen; lia|exact Hw1].
Qed.

Lemma kernel_oob : forall P, params_ok P = true -> forall g xs ys, (length ys < length xs)%nat ->
  kernel_g P g xs ys = None.
Proof.
  intros P Hok g xs ys Hlen. unfold params_ok in Hok.
  apply andb_true_iff in Hok as [Hok _]. apply andb_true_iff in Hok as [Hok _].
  apply andb_true_iff in Hok as [Hok Hred]. apply andb_true_iff in Hok as [Hblk Htl].
  pose proof (tail_ok_facts P Htl) as F.
  unfold kernel_g.
  destruct (zero_regs_spec (k_zeroed P) (init_rf g)) as (_ & _ & Z3).
  pose proof (Z3 (init_rf_wf g)) as Hw1.
  destruct (block_loop_oob P Hblk (S (length xs)) _ xs ys Hlen (Nat.lt_succ_diag_r _) Hw1)
    as [E|(rf2 & px & py & E & L1 & L2 & Hw2)]; rewrite E; [reflexivity|].
  destruct (zero_regs_spec (k_tail_zeroed P) rf2) as (_ & _ & Y3).
  rewrite (tail_loop_oob P F _ _ px py L1 (Y3 Hw2)). reflexivity.
Qed.

(* ------------------------------------------------------------------ *)
(* bit vectors *)

Lemma word_lxor : forall a b, length a = length b -> N.lxor (word_of a) (word_of b) = word_of (zip2 xorb a b).
Proof.
  induction a as [|x a IH]; destruct b as [|y b]; intros H; try discriminate; [reflexivity|].
  simpl in H. injection H as H. cbn [word_of zip2]. rewrite <- (IH b H).
  destruct x, y; destruct (word_of a) as [|p]; destruct (word_of b) as [|q]; try reflexivity;
    simpl; destruct (Pos.lxor p q); reflexivity.
Qed.
Lemma word_land : forall a b, length a = length b -> N.land (word_of a) (word_of b) = word_of (zip2 andb a b).
Proof.
  induction a as [|x a IH]; destruct b as [|y b]; intros H; try discriminate; [reflexivity|].
  simpl in H. injection H as H. cbn [word_of zip2]. rewrite <- (IH b H).
  destruct x, y; destruct (word_of a) as [|p]; destruct (word_of b) as [|q]; try reflexivity;
    simpl; destruct (Pos.land p q); reflexivity.
Qed.
Lemma word_lor : forall a b, length a = length b -> N.lor (word_of a) (word_of b) = word_of (zip2 orb a b).
Proof.
  induction a as [|x a IH]; destruct b as [|y b]; intros H; try discriminate; [reflexivity|].
  simpl in H. injection H as H. cbn [word_of zip2]. rewrite <- (IH b H).
  destruct x, y; destruct (word_of a) as [|p]; destruct (word_of b) as [|q]; reflexivity.
Qed.

Definition countb (bs : list bool) : N := fold_right (fun b acc => (b2n b + acc)%N) 0%N bs.
Lemma popn_zero : forall k, popn k 0 = 0%N.
Proof. induction k; simpl; auto. Qed.
Lemma popn_word : forall bs k, (length bs <= k)%nat -> popn k (word_of bs) = countb bs.
Proof.
  induction bs as [|b bs IH]; intros k H; [apply popn_zero|].
  destruct k; [simpl in H; lia|]. simpl in H. cbn [word_of popn countb fold_right].
  destruct b.
  - rewrite N.div2_succ_double. replace (N.odd (N.succ_double (word_of bs))) with true
      by (destruct (word_of bs); reflexivity).
    rewrite IH by lia. reflexivity.
  - rewrite N.div2_double. replace (N.odd (N.double (word_of bs))) with false
      by (destruct (word_of bs); reflexivity).
    rewrite IH by lia. reflexivity.
Qed.
Lemma countb_zip2 : forall f a b, countb (zip2 f a b) = count2 f a b.
Proof. induction a; destruct b; simpl; auto. rewrite <- IHa. reflexivity. Qed.
Lemma count2_app : forall f a b c d, length a = length c ->
  count2 f (a ++ b) (c ++ d) = (count2 f a c + count2 f b d)%N.
Proof.
  intros f a. induction a; intros b c d H; destruct c; simpl in *; try discriminate; [reflexivity|].
  rewrite IHa by lia. lia.
Qed.

(* sum of popcounts of a word-wise operation *)
Fixpoint wcount (op : N -> N -> N) (x y : list N) : N :=
  match x, y with a :: x', b :: y' => (popcount (op a b) + wcount op x' y')%N | _, _ => 0%N end.
Lemma hamming_wcount : forall x y, hamming x y = wcount N.lxor x y.
Proof. induction x; destruct y; simpl; auto. rewrite IHx. reflexivity. Qed.
Lemma jaccard_wcount : forall x y, jaccard x y = (wcount N.land x y, wcount N.lor x y).
Proof. induction x; destruct y; simpl; auto. rewrite IHx. reflexivity. Qed.

Lemma pack_bits_cons : forall f bs, bs <> [] ->
  pack_bits (S f) bs = word_of (firstn 64 bs) :: pack_bits f (skipn 64 bs).
Proof. intros f bs H. destruct bs; [congruence|reflexivity]. Qed.

Lemma wcount_pack : forall op bop,
  (forall a b, length a = length b -> op (word_of a) (word_of b) = word_of (zip2 bop a b)) ->
  forall fuel b1 b2, length b1 = length b2 -> (length b1 <= fuel)%nat ->
  wcount op (pack_bits fuel b1) (pack_bits fuel b2) = count2 bop b1 b2.
Proof.
  intros op bop Hop. induction fuel as [|f IH]; intros b1 b2 Hlen Hf.
  - destruct b1; [|simpl in Hf; lia]. reflexivity.
  - destruct b1 as [|x1 r1] eqn:E1; destruct b2 as [|x2 r2] eqn:E2; try discriminate; [reflexivity|].
    rewrite <- E1, <- E2 in *. assert (N1 : b1 <> []) by (rewrite E1; discriminate).
    assert (N2 : b2 <> []) by (rewrite E2; discriminate).
    assert (Hpos : (0 < length b1)%nat) by (rewrite E1; simpl; lia).
    rewrite !pack_bits_cons by assumption. cbn [wcount].
    rewrite IH by (rewrite !skipn_length; lia).
    rewrite Hop by (rewrite !firstn_length; lia).
    unfold popcount. rewrite popn_word.
    2:{ rewrite zip2_length; rewrite !firstn_length; lia. }
    rewrite countb_zip2. rewrite <- count2_app by (rewrite !firstn_length; lia).
    rewrite !firstn_skipn. reflexivity.
Qed.

Lemma bits_of_length : forall th v1 v2, length v1 = length v2 ->
  length (bits_of th v1) = length (bits_of th v2).
Proof.
  unfold bits_of. induction th; destruct v1, v2; simpl; intros H; try discriminate; auto.
Qed.

Lemma hamming_def_ok : forall th v1 v2, length v1 = length v2 ->
  hamming (pack th v1) (pack th v2) = hamming_def (bits_of th v1) (bits_of th v2).
Proof.
  intros th v1 v2 H. rewrite hamming_wcount. unfold pack, hamming_def.
  pose proof (bits_of_length th v1 v2 H) as L. rewrite <- L.
  apply (wcount_pack N.lxor xorb word_lxor); [exact L|lia].
Qed.
Lemma jaccard_def_ok : forall th v1 v2, length v1 = length v2 ->
  jaccard (pack th v1) (pack th v2) = jaccard_def (bits_of th v1) (bits_of th v2).
Proof.
  intros th v1 v2 H. rewrite jaccard_wcount. unfold pack, jaccard_def.
  pose proof (bits_of_length th v1 v2 H) as L. rewrite <- L. f_equal.
  - apply (wcount_pack N.land andb word_land); [exact L|lia].
  - apply (wcount_pack N.lor orb word_lor); [exact L|lia].
Qed.

(* padding bits *)
Lemma testbit_word : forall bs i, N.testbit (word_of bs) (N.of_nat i) = nth i bs false.
Proof.
  induction bs as [|b bs IH]; intros i; [destruct i; reflexivity|].
  cbn [word_of]. destruct i as [|i].
  - destruct b; [rewrite N.succ_double_spec; apply N.testbit_odd_0 | rewrite N.double_spec; apply N.testbit_even_0].
  - rewrite Nat2N.inj_succ. cbn [nth]. rewrite <- IH.
    destruct b; [rewrite N.succ_double_spec; apply N.testbit_odd_succ; lia
                |rewrite N.double_spec; apply N.testbit_even_succ; lia].
Qed.
Lemma skipn_nil' : forall {A} n, skipn n (@nil A) = [].
Proof. destruct n; reflexivity. Qed.
Lemma nth_pack_bits : forall k fuel bs, (length bs <= fuel)%nat ->
  nth k (pack_bits fuel bs) 0%N = word_of (firstn 64 (skipn (64 * k) bs)).
Proof.
  induction k as [|k IH]; intros fuel bs H.
  - destruct fuel; [destruct bs; [reflexivity|simpl in H; lia]|]. destruct bs; reflexivity.
  - replace (64 * S k)%nat with (64 + 64 * k)%nat by lia. rewrite <- skipn_skipn'.
    destruct bs as [|b r] eqn:E.
    + rewrite !skipn_nil'. destruct fuel; reflexivity.
    + rewrite <- E in *. destruct fuel; [rewrite E in H; simpl in H; lia|].
      rewrite pack_bits_cons by (rewrite E; discriminate). cbn [nth]. apply IH.
      rewrite skipn_length. rewrite E in *. simpl in *. lia.
Qed.
Lemma pack_padding_zero : forall th v k i, (length v <= 64 * k + i)%nat ->
  N.testbit (nth k (pack th v) 0%N) (N.of_nat i) = false.
Proof.
  intros th v k i H. unfold pack. rewrite nth_pack_bits by lia. rewrite testbit_word.
  apply nth_overflow. rewrite firstn_length, skipn_length.
  assert (length (bits_of th v) <= length v)%nat; [|lia].
  unfold bits_of. clear. revert v. induction th; destruct v; simpl; try lia. specialize (IHth v). lia.
Qed.

(* ------------------------------------------------------------------ *)
(* symmetry *)

Lemma dot_sym : forall xs ys, dot xs ys = dot ys xs.
Proof. induction xs; destruct ys; simpl; auto. rewrite IHxs. lia. Qed.
Lemma sqeuclid_sym : forall xs ys, sqeuclid xs ys = sqeuclid ys xs.
Proof. induction xs; destruct ys; simpl; auto. rewrite IHxs. lia. Qed.
Lemma wcount_sym : forall op, (forall a b, op a b = op b a) -> forall x y, wcount op x y = wcount op y x.
Proof. intros op H. induction x; destruct y; simpl; auto. rewrite IHx, H. reflexivity. Qed.
Lemma hamming_sym : forall x y, hamming x y = hamming y x.
Proof. intros. rewrite !hamming_wcount. apply wcount_sym. apply N.lxor_comm. Qed.
Lemma jaccard_sym : forall x y, jaccard x y = jaccard y x.
Proof.
  intros. rewrite !jaccard_wcount. f_equal; apply wcount_sym; [apply N.land_comm|apply N.lor_comm].
Qed.
Lemma count2_sym : forall f, (forall a b, f a b = f b a) -> forall x y, count2 f x y = count2 f y x.
Proof. intros f H. induction x; destruct y; simpl; auto. rewrite IHx, H. reflexivity. Qed.

(* number of words = ceil(len / 64) *)
Lemma pack_bits_length : forall fuel bs, (length bs <= fuel)%nat ->
  length (pack_bits fuel bs) = ((length bs + 63) / 64)%nat.
Proof.
  induction fuel as [|f IH]; intros bs H.
  - destruct bs; [reflexivity|simpl in H; lia].
  - destruct bs as [|b r] eqn:E; [reflexivity|]. rewrite <- E in *.
    assert (Hpos : (0 < length bs)%nat) by (rewrite E; simpl; lia).
    rewrite pack_bits_cons by (rewrite E; discriminate). cbn [length].
    rewrite IH by (rewrite skipn_length; lia). rewrite skipn_length.
    destruct (Nat.le_gt_cases (length bs) 64) as [Hle|Hgt].
    + replace (length bs - 64)%nat with 0%nat by lia.
      change ((0 + 63) / 64)%nat with 0%nat.
      rewrite <- (Nat.div_unique (length bs + 63) 64 1 (length bs - 1)); lia.
    + replace (length bs + 63)%nat with ((length bs - 64 + 63) + 1 * 64)%nat by lia.
      rewrite Nat.div_add by discriminate. lia.
Qed.
Lemma bits_of_full_length : forall th v, length th = length v -> length (bits_of th v) = length v.
Proof. unfold bits_of. induction th; destruct v; simpl; intros H; try discriminate; auto. Qed.
Lemma pack_length : forall th v, length th = length v -> length (pack th v) = ((length v + 63) / 64)%nat.
Proof.
  intros th v H. unfold pack. rewrite pack_bits_length by lia. rewrite bits_of_full_length by assumption. reflexivity.
Qed.

(* instances for the two generated parameter sets *)
Lemma generated_params_ok : params_ok dot_params = true /\ params_ok euc_params = true.
Proof. split; vm_compute; reflexivity. Qed.
Lemma dot_kernel_ok : forall g xs ys, length xs = length ys -> kernel_g dot_params g xs ys = Some (dot xs ys).
Proof. intros g xs ys H. exact (kernel_sum dot_params (proj1 generated_params_ok) g xs ys H). Qed.
Lemma euc_kernel_ok : forall g xs ys, length xs = length ys -> kernel_g euc_params g xs ys = Some (sqeuclid xs ys).
Proof. intros g xs ys H. exact (kernel_sum euc_params (proj2 generated_params_ok) g xs ys H). Qed.

Lemma symmetry_all :
  (forall xs ys, sqeuclid xs ys = sqeuclid ys xs) /\ (forall xs ys, dot xs ys = dot ys xs)
  /\ (forall xs ys, cosine xs ys = cosine ys xs) /\ (forall xs ys, negdot xs ys = negdot ys xs)
  /\ (forall x y, hamming x y = hamming y x) /\ (forall x y, jaccard x y = jaccard y x)
  /\ (forall a b, hamming_def a b = hamming_def b a) /\ (forall a b, jaccard_def a b = jaccard_def b a).
Proof.
  split; [exact sqeuclid_sym|]. split; [exact dot_sym|].
  split; [intros; unfold cosine; rewrite dot_sym; reflexivity|].
  split; [intros; unfold negdot; rewrite dot_sym; reflexivity|].
  split; [exact hamming_sym|]. split; [exact jaccard_sym|].
  split; intros; unfold hamming_def, jaccard_def.
  - apply count2_sym. apply xorb_comm.
  - f_equal; apply count2_sym; [apply andb_comm|apply orb_comm].
Qed.

(* product quantiser: the distance between two quantised points is symmetric whenever the
   per-sub-vector term is, in particular for both metrics the quantiser uses *)
Lemma pq_sum_sym : forall f, (forall i a b, f i a b = f i b a) ->
  forall i ca cb, pq_sum f i ca cb = pq_sum f i cb ca.
Proof.
  intros f Hf i ca. revert i. induction ca as [|a ca IH]; intros i cb; destruct cb as [|b cb]; simpl; try reflexivity.
  rewrite (Hf i a b), (IH (S i) cb). reflexivity.
Qed.
Lemma pq_dfn_sym : forall metric xs ys, pq_dfn metric xs ys = pq_dfn metric ys xs.
Proof.
  intros metric xs ys. unfold pq_dfn, negdot. destruct (metric =? 1)%N.
  - rewrite dot_sym. reflexivity.
  - apply sqeuclid_sym.
Qed.
Lemma pq_point_dist_sym : forall metric sl k cents ca cb,
  pq_point_dist metric sl k cents ca cb = pq_point_dist metric sl k cents cb ca.
Proof. intros. unfold pq_point_dist. apply pq_sum_sym. intros. apply pq_dfn_sym. Qed.
