(* Model_C19.v -- the key and value encodings of semadb (definitions only).
   Constants (prefix bytes, widths, offsets, xor masks, whether zero is
   normalised) come from the generated KeyLayout.v. *)
From Coq Require Import List NArith ZArith Bool.
From Semadb Require Import Bytes U64 KeyLayout.
Import ListNotations.
Open Scope N_scope.

(* ---------------- sortable values (shard/index/inverted/sortable.go) ------- *)

(* int64: uint64(v ^ MinInt64), big endian *)
Definition enc_i64 (z : Z) : bytes := be 8 (N.lxor (i64_to_u64 z) i64_xor_mask).
Definition dec_i64 (k : bytes) : Z := u64_to_i64 (N.lxor (unbe k) i64_xor_mask).

(* uint64: big endian *)
Definition enc_u64 (n : N) : bytes := be 8 n.
Definition dec_u64 (k : bytes) : N := unbe k.

(* string: the bytes themselves *)
Definition enc_str (s : bytes) : bytes := s.
Definition dec_str (k : bytes) : bytes := k.

(* float64, on bit patterns b < 2^64.  Go's test "v >= 0" on a non-NaN value:
   sign bit clear, or the value is -0.0. *)
Definition f64_nan (b : N) : bool :=
  let m := b mod two63 in 9218868437227405312 <? m.      (* 0x7FF0.. < magnitude *)
Definition f64_ge0 (b : N) : bool := (b <? two63) || (b =? two63).
Definition f64_is_zero (b : N) : bool := (b =? 0) || (b =? two63).

Definition enc_f64_with (normalise : bool) (b : N) : bytes :=
  let b1 := if normalise && f64_is_zero b then 0 else b in
  be 8 (if f64_ge0 b1 then N.lxor b1 f64_pos_mask else N.lxor b1 f64_neg_mask).
Definition enc_f64 (b : N) : bytes := enc_f64_with f64_normalises_zero b.
(* the encoder of the pinned tree before repair F1 *)
Definition enc_f64_v0 (b : N) : bytes := enc_f64_with false b.

Definition dec_f64 (k : bytes) : N :=
  let u := unbe k in
  if negb (N.land u f64_dec_test_mask =? 0) then N.lxor u f64_dec_pos_mask
  else N.lxor u f64_dec_neg_mask.

(* IEEE order on non-NaN bit patterns: sign and magnitude, -0 = +0 *)
Definition f64_ord (b : N) : Z :=
  if b <? two63 then Z.of_N b else (- Z.of_N (b - two63))%Z.
Definition f64_lt (a b : N) : bool := (f64_ord a <? f64_ord b)%Z.
Definition f64_eq (a b : N) : bool := (f64_ord a =? f64_ord b)%Z.

(* ---------------- fixed-width values (conversion/conversion.go) ------------ *)

Definition u64_le (n : N) : bytes := le u64_width n.
Definition u64_of_le (b : bytes) : N := unle (firstn u64_width b).
Definition f32s_le (xs : list N) : bytes := enc_words f32_width xs.
Definition f32s_of_le (b : bytes) : list N := dec_words f32_width b.
Definition edges_le (xs : list N) : bytes := enc_words u64_width xs.
Definition edges_of_le (b : bytes) : list N := dec_words u64_width b.

(* ---------------- storage keys -------------------------------------------- *)

(* conversion.NodeKey: [len]byte, key[0]=prefix, id at off (8 bytes LE), suffix *)
Definition node_key (id suffix : N) : bytes :=
  node_prefix :: le u64_width id ++ [suffix].

Definition node_id_from_key (key : bytes) (suffix : N) : option N :=
  if negb (length key =? node_from_len)%nat then None
  else if negb (nth 0 key 256 =? node_from_prefix) then None
  else if negb (nth node_from_suffix_pos key 256 =? suffix) then None
  else Some (unle (firstn (length key - node_from_tail - node_from_off) (skipn node_from_off key))).

(* pointstore.PointKey: 'p' ++ 16 uuid bytes ++ suffix *)
Definition point_key (uuid : bytes) (suffix : N) : bytes :=
  point_prefix :: uuid ++ [suffix].

(* text.documentKey / docCacheItem.IdFromKey *)
Definition doc_key (id : N) : bytes := doc_prefix :: le u64_width id.
Definition doc_id_from_key (key : bytes) : option N :=
  if negb (length key =? doc_from_len)%nat then None
  else if negb (nth 0 key 256 =? doc_from_prefix) then None
  else Some (unle (skipn doc_id_off key)).

(* text.termKey / setCacheItem.IdFromKey *)
Definition term_key (t : bytes) : bytes := term_prefix :: t ++ [term_suffix].
Definition term_from_key (key : bytes) : option bytes :=
  if (length key <? term_from_minlen)%nat then None
  else if negb (nth 0 key 256 =? term_from_prefix) then None
  else if negb (last key 256 =? term_from_suffix) then None
  else Some (removelast (tl key)).

(* Side conditions on the generated constants, re-checked by computation. *)
Definition layout_ok_b : bool :=
  (node_key_len =? 10)%nat && (node_id_off =? 1)%nat && (node_suffix_pos =? 9)%nat &&
  node_id_little_endian &&
  (node_from_len =? node_key_len)%nat && (node_from_prefix =? node_prefix) &&
  (node_from_suffix_pos =? node_suffix_pos)%nat && (node_from_off =? node_id_off)%nat &&
  (node_from_tail =? 1)%nat && node_from_little_endian &&
  (point_key_len =? 18)%nat && (point_id_off =? 1)%nat && (point_suffix_pos =? 17)%nat &&
  (doc_key_len =? 9)%nat && (doc_id_off =? 1)%nat && doc_id_little_endian &&
  (doc_from_len =? doc_key_len)%nat && (doc_from_prefix =? doc_prefix) &&
  (term_from_minlen =? 2)%nat && (term_from_prefix =? term_prefix) && (term_from_suffix =? term_suffix) &&
  (u64_width =? 8)%nat && (f32_width =? 4)%nat &&
  (i64_xor_mask =? two63) &&
  f64_normalises_zero &&
  (f64_pos_mask =? two63) && (f64_neg_mask =? ones64) &&
  (f64_dec_test_mask =? two63) && (f64_dec_pos_mask =? two63) && (f64_dec_neg_mask =? ones64) &&
  (* key families that share a bucket start with different bytes *)
  negb (node_prefix =? point_prefix) &&
  negb (term_prefix =? doc_prefix) && negb (term_prefix =? 95) && negb (doc_prefix =? 95) &&
  negb (node_prefix =? 95) &&
  (hd 0 num_docs_key =? 95) && (hd 0 max_node_id_key =? 95) && (hd 0 bq_threshold_key =? 95) &&
  negb (suffix_id =? suffix_data).
